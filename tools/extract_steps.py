#!/usr/bin/env python3
"""Translator for the REGULAR part of the record codecs: regenerate DnsVerif/Generated/Steps.lean from
/repo/src/decode/rr/*.rs and /repo/src/encode/rr/*.rs (run on every check).

For every `rr_<type>` reader and writer (written out or produced by one of the `impl_decode_rr_*!` /
`impl_encode_rr_*!` macros, which are expanded textually) it extracts

  * decode: the class rule (`header.get_class()?` bound to `class`, or `match header.get_class()? { Class::IN => …,
            class => Err(DecodeError::<X>Class(class)) }`) and the ordered list of `(binding, reader)` steps, where
            `reader` is the `self.<method>()` primitive that consumes wire octets (private helper readers such as
            `rr_afsdb_subtype` are inlined into the primitive they call) and `binding` the `let` name it is bound to;
  * encode: the header writes (`domain_name` of the owner, `rr_type(&Type::<T>)`, `rr_class(&<x>.class | &Class::IN)`,
            `u32(<x>.ttl)`), and between `create_length_index()` and `set_length_index(..)` the ordered list of
            `(field, writer)` steps (`self.<method>(… <x>.<field> …)`, `self.bytes.extend_from_slice(&<x>.<field>)`);
  * the two dispatch tables `Type::<T> => RR::<T>(r_data.<fn>(header)?)` and `RR::<T>(x) => self.<fn>(x)`.

It understands only this straight-line shape.  A function it cannot read is listed in `Gen.stepsUnreadable` with the
reason (the Lean tie for that type is then "not checkable"; nothing is guessed)."""
import re, sys, os, pathlib, json

PRIM_DEC = {'u8', 'u16', 'u32', 'u64', 'domain_name', 'string', 'vec', 'ipv4_addr', 'ipv6_addr', 'bytes', 'read'}
NONCONSUMING = {'is_finished', 'finished'}
PRIM_ENC = {'u8', 'u16', 'u32', 'u64', 'domain_name', 'domain_name_uncompressed', 'string', 'vec', 'ipv4_addr', 'ipv6_addr', 'bytes.extend_from_slice'}

def strip_comments(s):
    return re.sub(r'//[^\n]*', '', s)

def match_brace(s, i, open_='{', close='}'):
    """s[i] == open_; index just after the matching close"""
    d = 0
    for j in range(i, len(s)):
        if s[j] == open_: d += 1
        elif s[j] == close:
            d -= 1
            if d == 0: return j + 1
    raise ValueError('unbalanced')

FRAG = {'ident': r'\w+', 'literal': r'[\w.]+', 'tt': r'[^,;]+?', 'expr': r'[^,;]+?', 'ty': r'[^,;]+?', 'path': r'[\w:]+'}

def parse_macros(text):
    """macro_rules! NAME { (PATTERN) => { BODY }; … }  ->  {NAME: [(compiled pattern, body), …]} (one entry per arm).
    A pattern is a flat sequence of `$x:frag` metavariables and literal tokens (`,` `:` `=>` …); repetitions are not
    understood (such an arm never matches)."""
    out = {}
    for m in re.finditer(r'macro_rules!\s+(\w+)\s*\{', text):
        end = match_brace(text, m.end() - 1)
        inner = text[m.end():end - 1]
        arms = []; i = 0
        while True:
            am = re.compile(r'\s*\(([^)]*)\)\s*=>\s*\{').match(inner, i)
            if not am: break
            bend = match_brace(inner, am.end() - 1)
            pat = am.group(1)
            rx = ''; k = 0
            for mv in re.finditer(r'\$(\w+)\s*:\s*(\w+)', pat):
                lit = pat[k:mv.start()]
                rx += ''.join(r'\s*' + re.escape(tok) for tok in re.findall(r'\S', lit))
                rx += r'\s*(?P<%s>%s)' % (mv.group(1), FRAG.get(mv.group(2), r'[^,;]+?'))
                k = mv.end()
            rx += ''.join(r'\s*' + re.escape(tok) for tok in re.findall(r'\S', pat[k:])) + r'\s*,?\s*'
            try: arms.append((re.compile(rx), inner[am.end():bend - 1]))
            except re.error: pass
            i = bend
            while i < len(inner) and (inner[i].isspace() or inner[i] == ';'): i += 1
        if arms and not inner[i:].strip(): out[m.group(1)] = arms
    return out

def expand(text, macros):
    """textual expansion of `NAME!(…);` invocations, repeated until nothing changes (a macro may forward to another); the
    first arm whose pattern matches the argument text is taken"""
    def rep(m):
        name = m.group(1).split('::')[-1]
        if name not in macros: return m.group(0)
        for rx, body in macros[name]:
            am = rx.fullmatch(m.group(2))
            if am:
                for p, a in sorted(am.groupdict().items(), key=lambda x: -len(x[0])):
                    body = re.sub(r'\$' + p + r'\b', a.strip(), body)
                return body
        return m.group(0)
    for _ in range(6):
        new = re.sub(r'\b((?:\w+::)*\w+)!\s*\(([^()]*)\)\s*;', rep, text)
        if new == text: break
        text = new
    return text

def functions(text):
    """{name: (signature, body)} of every `fn` in text"""
    out = {}
    for m in re.finditer(r'\bfn\s+(\w+)\s*(<[^>]*>)?\s*\(', text):
        pe = match_brace(text, m.end() - 1, '(', ')')
        b = text.find('{', pe)
        semi = text.find(';', pe)
        if b < 0 or (0 <= semi < b): continue
        be = match_brace(text, b)
        out[m.group(1)] = (text[m.end():pe - 1], text[b + 1:be - 1])
    return out

def ctx_marker(body, pos):
    """'*' when `pos` lies inside a `while`/`for`/`loop` block of `body`, '?' inside an `if`/`else` block (match arms do
    not count), '' otherwise"""
    stack = []
    i = 0
    while i < pos:
        c = body[i]
        if c == '{':
            j = max(body.rfind(';', 0, i), body.rfind('{', 0, i), body.rfind('}', 0, i))
            headtxt = body[j + 1:i].strip()
            if re.search(r'=\s*if\b', headtxt): kw = '?'
            else:
                kw0 = re.match(r'(while|for|loop|if|else)\b', headtxt)
                kw = {'while': '*', 'for': '*', 'loop': '*', 'if': '?', 'else': '?'}.get(kw0.group(1), '') if kw0 else ''
            stack.append(kw)
        elif c == '}':
            if stack: stack.pop()
        i += 1
    if '*' in stack: return '*'
    if '?' in stack: return '?'
    return ''

def loop_header(body, pos):
    """header text of the innermost `for`/`while` block around `pos` ('' when none)"""
    stack = []
    i = 0
    while i < pos:
        c = body[i]
        if c == '{':
            j = max(body.rfind(';', 0, i), body.rfind('{', 0, i), body.rfind('}', 0, i))
            stack.append(body[j + 1:i].strip())
        elif c == '}':
            if stack: stack.pop()
        i += 1
    for h in reversed(stack):
        if re.match(r'(for|while)\b', h): return h
    return ''

# call names that make up the canonical frames (Props/TieSteps.lean); any OTHER function of the same file that a framing
# function calls is a private helper and is inlined, so that extracting or inlining such a helper does not change the frame
FRAME_VOCAB = {'u8', 'u16', 'u32', 'u64', 'flags', 'question', 'rr', 'is_finished', 'finished', 'domain_name', 'q_type', 'q_class',
               'rr_type', 'rr_class', 'sub', 'rr_header', 'count', 'question_type', 'question_class', 'create_length_index',
               'set_length_index', 'rr_edns_option', 'rr_edns_option_code', 'rr_edns_ecs', 'rr_edns_cookie', 'rr_edns_padding',
               'rr_apl_apitem', 'rr_address_family_number', 'rr_address', 'rr_address_without_trailing_zeros',
               'set_address_length_index', 'rr_service_parameter', 'string', 'vec', 'ipv4_addr', 'ipv6_addr', 'dns'}

def _params(sig):
    """names of the value parameters of a method signature (after `self`)"""
    out = []
    for part in re.split(r',(?![^<(\[]*[>)\]])', sig):
        m = re.match(r'\s*(?:mut\s+)?(\w+)\s*:', part)
        if m and m.group(1) != 'self': out.append(m.group(1))
    return out

def _split_args(arg):
    out = []; d = 0; cur = ''
    for c in arg:
        if c in '([{<': d += 1
        elif c in ')]}>': d -= 1
        if c == ',' and d == 0: out.append(cur); cur = ''
        else: cur += c
    if cur.strip(): out.append(cur)
    return out

def frame_steps(name, fns, recv='self', depth=0, stop=None):
    """generic ordered `(what, call)` list of a framing function: every `<recv>.<m>(` call in source order, `*` when inside
    a loop (or an iterator adaptor's closure), `?` inside a conditional.  Calls of same-file functions outside FRAME_VOCAB
    are inlined (parameters replaced by the argument text).  `what` is rename-proof: `@i` when the loop the call sits in
    runs over the value bound by step i (a count read earlier), `.f` when the argument / loop collection is the field `f` of
    the function's value parameter (public struct fields), `_` otherwise (names of locals are not recorded).
    Returns raw records (bind, meth, mark, context text); `frame_resolve` turns them into the final pairs."""
    sig, body = fns[name]
    raw = []
    for m in re.finditer(r'\b(?:%s)\s*\.\s*(\w+)\s*\(' % recv, body):
        meth = m.group(1)
        mark = ctx_marker(body, m.start())
        stmt_start = max(body.rfind(';', 0, m.start()), body.rfind('{', 0, m.start()), 0)
        stmt = body[stmt_start:m.start()]
        lm = None
        for lm in re.finditer(r'\blet\s+(?:mut\s+)?(\(?[\w, ]+\)?)\s*(?::[^=]+)?=', body[max(body.rfind(';', 0, m.start()), 0):m.start()]): pass
        bind = re.sub(r'\s', '', lm.group(1)) if lm else None
        ae = match_brace(body, m.end() - 1, '(', ')')
        arg = body[m.end():ae - 1]
        hdr = loop_header(body, m.start()) if mark == '*' else ''
        if hdr:
            # a loop over a local (`let rrs = dns.answers.iter().chain(…); for rr in rrs`) runs over what the local was built from
            for lv in set(re.findall(r'[A-Za-z_]\w*', hdr)):
                im = None
                for im in re.finditer(r'\blet\s+(?:mut\s+)?%s\s*(?::[^=;]+)?=\s*([^;]+);' % re.escape(lv), body[:m.start()]): pass
                if im and 'self.' not in im.group(1): hdr += ' ' + im.group(1)
        if not mark and re.search(r'\|[^|]*\|', stmt) and re.search(r'\b(for_each|try_for_each|map|try_fold|fold)\b', stmt):
            mark = '*'; hdr = stmt
        ctx = arg + ' ' + hdr
        if meth not in FRAME_VOCAB and meth in fns and meth != name and depth < 3 and not (stop and meth in stop):
            inner = frame_steps(meth, fns, 'self', depth + 1, stop)
            ps = _params(fns[meth][0]); args = _split_args(arg)
            for (b2, m2, k2, c2) in inner:
                for pn, av in zip(ps, args):
                    c2 = re.sub(r'\b%s\b' % re.escape(pn), ' ' + av.strip() + ' ', c2)
                raw.append((b2, m2, k2 or mark, c2 + (' ' + hdr if mark == '*' else '')))
            if bind and inner: raw[-1] = (bind,) + raw[-1][1:]
            continue
        raw.append((bind, meth, mark, ctx))
    return raw

FRAME_UNKNOWN = []

def frame_resolve(name, fns, raw, extra_vocab=()):
    known = [r for r in raw if r[1] in FRAME_VOCAB or r[1] in extra_vocab or r[1] in PRIM_DEC or r[1] in PRIM_ENC]
    FRAME_UNKNOWN.extend((name, r[1]) for r in raw if r not in known)
    raw = known
    return _frame_resolve(name, fns, raw)

def _frame_resolve(name, fns, raw):
    sig = fns[name][0]
    pm = re.match(r'\s*&(?:\'\w+\s+)?mut\s+self\s*,\s*(\w+)\s*:', sig)
    x = pm.group(1) if pm else None
    steps = []
    for i, (bind, meth, mark, ctx) in enumerate(raw):
        what = '_'
        fm = re.findall(r'\b%s\s*\.\s*(\w+)\b(?!\s*\()' % x, ctx) if x else []
        if mark == '*' and len(dict.fromkeys(fm)) > 1:
            # one loop over a chain of several fields = one loop per field, in chain order
            for fld in dict.fromkeys(fm): steps.append(('.' + fld, meth + mark))
            continue
        if fm: what = '.' + fm[0]
        else:
            for j in range(i):
                if raw[j][0] and re.search(r'\b%s\b' % re.escape(raw[j][0]), ctx): what = '@%d' % j; break
        steps.append((what, meth + mark))
    return steps

def match_arms(body, scrutinee_re):
    """arms [(pattern, arm body)] of the first `match <scrutinee> {` in `body`"""
    m = re.search(r'match\s+' + scrutinee_re + r'\s*\{', body)
    if not m: raise ValueError('no match on %s' % scrutinee_re)
    end = match_brace(body, m.end() - 1)
    t = body[m.end():end - 1]
    arms = []; i = 0
    while i < len(t):
        j = t.find('=>', i)
        if j < 0: break
        pat = t[i:j].strip()
        k = j + 2
        while k < len(t) and t[k].isspace(): k += 1
        if k < len(t) and t[k] == '{':
            e = match_brace(t, k); arm = t[k + 1:e - 1]
            while e < len(t) and (t[e].isspace() or t[e] == ','): e += 1
        else:
            d = 0; e = k
            while e < len(t):
                c = t[e]
                if c in '({[': d += 1
                elif c in ')}]': d -= 1
                elif c == ',' and d == 0: break
                e += 1
            arm = t[k:e]; e += 1
        arms.append((re.sub(r'\s+', ' ', pat), arm))
        i = e
    return arms

def arm_calls(arm):
    return [re.sub(r'\s', '', mm.group(1)) + ctx_marker(arm, mm.start()) for mm in re.finditer(r'self\s*\.\s*(\w+)\s*\(', arm)
            if mm.group(1) not in NONCONSUMING]

def dec_steps(name, fns, depth=0):
    """ordered (binding, primitive) steps of decoder function `name`; raises ValueError when not straight-line"""
    sig, body = fns[name]
    steps = []
    for m in re.finditer(r'self\s*\.\s*(\w+)\s*\(', body):
        meth = m.group(1)
        if meth in NONCONSUMING: continue
        # binding: nearest `let [mut] x =` since the previous `;`
        stmt_start = max(body.rfind(';', 0, m.start()), 0)
        lm = None
        for lm in re.finditer(r'\blet\s+(?:mut\s+)?(\w+)\s*(?::[^=]+)?=', body[stmt_start:m.start()]): pass
        bind = lm.group(1) if lm else '_'
        mark = ctx_marker(body, m.start())
        if meth in PRIM_DEC:
            steps.append((bind, meth + mark))
        elif meth in fns and depth < 3:
            inner = dec_steps(meth, fns, depth + 1)
            if len(inner) != 1: raise ValueError('helper %s reads %d primitives' % (meth, len(inner)))
            steps.append((bind, inner[0][1] + mark))
        else:
            raise ValueError('unknown reader self.%s()' % meth)
    return steps

def dec_class_rule(body):
    m = re.search(r'match\s+header\s*\.\s*get_class\s*\(\s*\)\s*\?\s*\{', body)
    if m:
        e = re.search(r'Err\s*\(\s*DecodeError\s*::\s*(\w+)\s*\(', body)
        if 'Class::IN' in body and e: return 'in:' + e.group(1)
        raise ValueError('class match not understood')
    if re.search(r'let\s+class\s*=\s*header\s*.\s*get_class\s*\(\s*\)\s*\?\s*;', body): return 'class'
    if 'header.class' in body or 'header' in body: return 'raw'
    raise ValueError('no class rule')

def enc_parts(name, fns):
    sig, body = fns[name]
    pm = re.match(r'\s*&mut\s+self\s*,\s*(\w+)\s*:', sig)
    if not pm: raise ValueError('signature not understood')
    x = pm.group(1)
    ci = body.find('create_length_index')
    si = body.find('set_length_index')
    if ci < 0 or si < 0: raise ValueError('no length index')
    head, rdata = body[:ci], body[body.find(';', ci) + 1:si]
    hd = {}
    m = re.search(r'self\s*\.\s*rr_type\s*\(\s*&\s*(?:crate::rr::)?Type::(\w+)\s*\)', head); hd['type'] = m.group(1) if m else None
    m = re.search(r'self\s*\.\s*rr_class\s*\(\s*&\s*([\w:.]+)\s*\)', head); hd['class'] = ('in' if m and m.group(1).endswith('Class::IN') else 'class' if m and m.group(1) == x + '.class' else None)
    hd['owner'] = bool(re.search(r'self\s*\.\s*domain_name\s*\(\s*&\s*%s\.domain_name\s*\)' % x, head))
    hd['ttl'] = bool(re.search(r'self\s*\.\s*u32\s*\(\s*%s\.ttl\s*\)' % x, head))
    order = [k for k, _ in sorted(((k, head.find(s)) for k, s in (('owner', '.domain_name('), ('type', 'rr_type('), ('class', 'rr_class('), ('ttl', '.u32('))), key=lambda t: t[1])]
    hd['order_ok'] = order == ['owner', 'type', 'class', 'ttl']
    steps = []
    for m in re.finditer(r'self\s*\.\s*((?:bytes\s*\.\s*)?\w+)\s*\(', rdata):
        meth = re.sub(r'\s', '', m.group(1))
        ae = match_brace(rdata, m.end() - 1, '(', ')')
        arg = rdata[m.end():ae - 1]
        closure_loop = False
        fm = re.findall(r'\b%s\s*\.\s*(\w+)' % x, arg)
        fld = fm[0] if fm else None
        if fld is None and re.fullmatch(r'\s*\d+\s*', arg): fld = '#' + arg.strip()
        if fld is None:
            lm = None
            for lm in re.finditer(r'if\s+let\s+Some\s*\(\s*(\w+)\s*\)\s*=\s*&?\s*%s\s*\.\s*(\w+)' % x, rdata[:m.start()]): pass
            if lm and re.search(r'\b%s\b' % lm.group(1), arg): fld = lm.group(2)
        if fld is None:
            # a loop variable / local derived from a field: take the nearest enclosing `for v in x.field` / `let v = … x.field`
            vm = re.findall(r'\b(\w+)\b', arg)
            for v in vm:
                lm = re.search(r'(?:for\s+%s\s+in|let\s+%s\s*=)[^;{]*?\b%s\s*\.\s*(\w+)' % (v, v, x), rdata[:m.start()])
                if lm: fld = lm.group(1); break
                # closure parameter of an iterator adaptor: `x.field.iter().try_for_each(|v| self.w(v))`
                st = rdata[max(rdata.rfind(';', 0, m.start()), 0):m.start()]
                if re.search(r'\|[^|]*\b%s\b[^|]*\|' % v, st):
                    cm = re.search(r'\b%s\s*\.\s*(\w+)' % x, st)
                    if cm:
                        fld = cm.group(1)
                        if re.search(r'\b(for_each|try_for_each|map|try_fold|fold)\b', st): closure_loop = True
                        break
        if fld is None: raise ValueError('writer argument not understood: %s(%s)' % (meth, arg.strip()[:40]))
        mark = ctx_marker(rdata, m.start()) or ('*' if closure_loop else '')
        if meth not in PRIM_ENC and meth in fns:
            # private helper writer: inline the single primitive it calls
            inner = [re.sub(r'\s', '', mm.group(1)) for mm in re.finditer(r'self\s*\.\s*((?:bytes\s*\.\s*)?\w+)\s*\(', fns[meth][1])]
            if len(inner) == 1 and inner[0] in PRIM_ENC: meth = inner[0]
        steps.append((fld, meth + mark))
    return hd, steps

def lean_str(s): return '"%s"' % s
def lean_pairs(ps): return '[' + ', '.join('(%s, %s)' % (lean_str(a), lean_str(b)) for a, b in ps) + ']'

def main(repo, outdir):
    src = pathlib.Path(repo) / 'src'
    res = {'dec': {}, 'enc': {}, 'decDispatch': [], 'encDispatch': [], 'unreadable': []}
    # ---------- decode
    ddir = src / 'decode' / 'rr'
    macros = parse_macros(strip_comments((ddir / 'macros.rs').read_text())) if (ddir / 'macros.rs').exists() else {}
    text = ''
    for p in sorted(ddir.glob('*.rs')):
        if p.name in ('tests.rs', 'macros.rs', 'mod.rs'): continue
        text += '\n' + expand(strip_comments(p.read_text()), macros)
    fns = functions(text)
    sub = strip_comments((ddir / 'subtypes.rs').read_text()) if (ddir / 'subtypes.rs').exists() else ''
    disp = re.findall(r'Type::(\w+)\s*=>\s*RR::(\w+)\s*\(\s*r_data\s*\.\s*(\w+)\s*\(\s*header\s*(?:,\s*(\w+)\s*)?\)\s*\?\s*\)', text)
    res['decDispatch'] = [(t, v, f + ('/' + a if a else '')) for t, v, f, a in disp]
    for t, v, f, a in disp:
        if f not in fns: res['unreadable'].append(('dec', t, 'function %s not found' % f)); continue
        try:
            rule = dec_class_rule(fns[f][1]); steps = dec_steps(f, fns)
            res['dec'][t] = (rule, steps)
        except ValueError as e:
            res['unreadable'].append(('dec', t, str(e)))
    # ---------- encode
    edir = src / 'encode' / 'rr'
    emacros = parse_macros(strip_comments((edir / 'macros.rs').read_text())) if (edir / 'macros.rs').exists() else {}
    etext = ''
    for p in sorted(edir.glob('*.rs')):
        if p.name in ('tests.rs', 'macros.rs', 'mod.rs'): continue
        etext += '\n' + expand(strip_comments(p.read_text()), emacros)
    efns = functions(etext)
    edisp = re.findall(r'RR::(\w+)\s*\(\s*\w+\s*\)\s*=>\s*self\s*\.\s*(\w+)\s*\(', etext)
    res['encDispatch'] = edisp
    for v, f in edisp:
        if f not in efns: res['unreadable'].append(('enc', v, 'function %s not found' % f)); continue
        try:
            hd, steps = enc_parts(f, efns)
            res['enc'][v] = (hd, steps)
        except ValueError as e:
            res['unreadable'].append(('enc', v, str(e)))
    # ---------- framing functions (message, question, record header / window)
    frames = []
    def grab(label, path, fname, recv='self', stop=None):
        p = src / path
        if not p.exists(): res['unreadable'].append(('frame', label, 'file %s not found' % path)); return
        fs = functions(strip_comments(p.read_text()))
        if fname not in fs: res['unreadable'].append(('frame', label, 'function %s not found' % fname)); return
        try: frames.append((label, frame_resolve(fname, fs, frame_steps(fname, fs, recv, stop=stop), extra_vocab=stop or ())))
        except ValueError as e: res['unreadable'].append(('frame', label, str(e)))
    grab('dec.dns', 'decode/dns.rs', 'dns')
    grab('dec.question', 'decode/question.rs', 'question')
    grab('dec.rr_header', 'decode/rr/enums.rs', 'rr_header')
    grab('dec.rr', 'decode/rr/enums.rs', 'rr', recv='self|r_data', stop={d[2].split('/')[0] for d in res['decDispatch']})
    frames[:] = [(l, [x for x in st if not (l == 'dec.rr' and any(x[1] == d[2].split('/')[0] for d in res['decDispatch']))]) for l, st in frames]   # the dispatch arms are `decDispatch`
    grab('enc.dns', 'encode/dns.rs', 'dns')
    grab('enc.count', 'encode/dns.rs', 'count')
    grab('enc.question', 'encode/question.rs', 'question')
    grab('dec.opt', 'decode/rr/edns/rfc_6891.rs', 'rr_opt')
    grab('dec.edns_option', 'decode/rr/edns/rfc_6891.rs', 'rr_edns_option', recv='self|ends_option_data')
    grab('dec.apl', 'decode/rr/rfc_3123.rs', 'rr_apl')
    grab('dec.apitem', 'decode/rr/rfc_3123.rs', 'rr_apl_apitem', recv='self|address_data')
    grab('dec.svcb', 'decode/rr/draft_ietf_dnsop_svcb_https.rs', 'rr_service_binding', recv='self|parameter_decoder')
    grab('enc.opt', 'encode/rr/edns/rfc_6891.rs', 'rr_opt')
    grab('enc.edns_option', 'encode/rr/edns/rfc_6891.rs', 'rr_edns_option')
    grab('enc.apitem', 'encode/rr/rfc_3123.rs', 'rr_apl_apitem')
    grab('enc.svcb', 'encode/rr/draft_ietf_dnsop_svcb_https.rs', 'rr_service_binding')
    res['frames'] = frames
    # ---------- SvcParam kinds: registered numbers, value readers and writers per kind
    svc = {'numbers': [], 'dec': [], 'enc': []}
    try:
        t = strip_comments((src / 'rr' / 'draft_ietf_dnsop_svcb_https.rs').read_text())
        fs = functions(t)
        for pat, arm in match_arms(fs['get_registered_number'][1], r'self'):
            k = re.match(r'ServiceParameter::(\w+)', pat)
            svc['numbers'].append((k.group(1) if k else pat, arm.strip()))
        fs = functions(strip_comments((src / 'decode' / 'rr' / 'draft_ietf_dnsop_svcb_https.rs').read_text()))
        for pat, arm in match_arms(fs['rr_service_parameter'][1], r'service_parameter_key'):
            k = re.search(r'ServiceParameter::(\w+)', arm)
            svc['dec'].append((pat, k.group(1) if k else '?', arm_calls(arm)))
        fs = functions(strip_comments((src / 'encode' / 'rr' / 'draft_ietf_dnsop_svcb_https.rs').read_text()))
        for pat, arm in match_arms(fs['rr_service_parameter'][1], r'parameter'):
            k = re.match(r'ServiceParameter::(\w+)', pat)
            svc['enc'].append((k.group(1) if k else pat, arm_calls(arm)))
        strip = lambda c: c.rstrip('*?')
        bad = [c for _, _, cs in svc['dec'] for c in cs if strip(c) not in PRIM_DEC] + [c for _, cs in svc['enc'] for c in cs if strip(c) not in PRIM_ENC]
        if bad: raise ValueError('value reader/writer calls %s, which is not a primitive' % sorted(set(bad))[:3])
    except (ValueError, KeyError, OSError) as e:
        res['unreadable'].append(('svcparam', 'tables', str(e)[:80]))
        svc = {'numbers': [], 'dec': [], 'enc': []}
    # ---------- EDNS options: code dispatch on both sides
    opt = {'dec': [], 'enc': []}
    try:
        fs = functions(strip_comments((src / 'decode' / 'rr' / 'edns' / 'rfc_6891.rs').read_text()))
        f0 = next(b for n, (sg, b) in fs.items() if 'match edns_option_code' in b)
        for pat, arm in match_arms(f0, r'edns_option_code'):
            k = re.search(r'EDNSOption::(\w+)\s*\(\s*\w+\s*\.\s*(\w+)', arm)
            opt['dec'].append((pat.replace('EDNSOptionCode::', ''), k.group(1) if k else '?', k.group(2) if k else '?'))
        fs = functions(strip_comments((src / 'encode' / 'rr' / 'edns' / 'rfc_6891.rs').read_text()))
        f1 = next(b for n, (sg, b) in fs.items() if re.search(r'EDNSOption::\w+\s*\(', b) and 'match' in b)
        for pat, arm in match_arms(f1, r'\w+'):
            k = re.match(r'EDNSOption::(\w+)', pat); c = re.search(r'self\s*\.\s*(\w+)', arm)
            opt['enc'].append((k.group(1) if k else pat, c.group(1) if c else '?'))
    except (ValueError, KeyError, OSError, StopIteration) as e:
        res['unreadable'].append(('edns', 'dispatch', str(e)[:80]))
        opt = {'dec': [], 'enc': []}
    os.makedirs(outdir, exist_ok=True)
    with open(os.path.join(outdir, 'Steps.lean'), 'w') as f:
        f.write('/-! GENERATED by tools/extract_steps.py from /repo/src/decode/rr and /repo/src/encode/rr on every run. Do not edit. -/\n')
        f.write('namespace Gen\n')
        f.write('/-- `Type::T => RR::V(r_data.f(header)?)` arms of `Decoder::rr`, in source order -/\n')
        f.write('def decDispatch : List (String × String × String) := [\n' + ',\n'.join('  (%s, %s, %s)' % tuple(map(lean_str, x)) for x in res['decDispatch']) + ']\n')
        f.write('/-- `RR::V(x) => self.f(x)` arms of `Encoder::rr`, in source order -/\n')
        f.write('def encDispatch : List (String × String) := [\n' + ',\n'.join('  (%s, %s)' % tuple(map(lean_str, x)) for x in res['encDispatch']) + ']\n')
        f.write('/-- per type: class rule ("class" = validated and stored, "in:<Err>" = must be IN else `DecodeError::<Err>`) and the\n    ordered (binding, reader) steps of the RDATA reader -/\n')
        f.write('def decSteps : List (String × String × List (String × String)) := [\n' + ',\n'.join('  (%s, %s, %s)' % (lean_str(t), lean_str(r), lean_pairs(s)) for t, (r, s) in res['dec'].items()) + ']\n')
        f.write('/-- per variant: (TYPE written, class written: "class" = the struct field / "in" = the literal IN, header is owner-type-class-ttl\n    in this order) and the ordered (field, writer) steps between the RDLENGTH placeholder and its back-patch -/\n')
        f.write('def encSteps : List (String × String × String × Bool × List (String × String)) := [\n' + ',\n'.join(
            '  (%s, %s, %s, %s, %s)' % (lean_str(v), lean_str(hd['type'] or '?'), lean_str(hd['class'] or '?'),
                                       'true' if (hd['owner'] and hd['ttl'] and hd['order_ok']) else 'false', lean_pairs(s)) for v, (hd, s) in res['enc'].items()) + ']\n')
        f.write('/-- framing functions: every `self.<m>(…)` call in source order with what it is bound to / applied to\n    (`*` = inside a loop; the first component is then the count or collection the loop runs over) -/\n')
        f.write('def frameSteps : List (String × List (String × String)) := [\n' + ',\n'.join('  (%s, %s)' % (lean_str(l), lean_pairs(st)) for l, st in frames) + ']\n')
        lst = lambda xs: '[' + ', '.join(lean_str(x) for x in xs) + ']'
        f.write('/-- `ServiceParameter::get_registered_number`: kind and the arm\'s value (`*number` for the private range) -/\n')
        f.write('def svcNumbers : List (String × String) := ' + lean_pairs(svc['numbers']) + '\n')
        f.write('/-- `Decoder::rr_service_parameter`: key pattern, kind built, reader calls of the arm -/\n')
        f.write('def svcDec : List (String × String × List String) := [\n' + ',\n'.join('  (%s, %s, %s)' % (lean_str(a), lean_str(b), lst(c)) for a, b, c in svc['dec']) + ']\n')
        f.write('/-- `Encoder::rr_service_parameter`: kind, writer calls of the arm (after the key and the length placeholder) -/\n')
        f.write('def svcEnc : List (String × List String) := [\n' + ',\n'.join('  (%s, %s)' % (lean_str(a), lst(c)) for a, c in svc['enc']) + ']\n')
        f.write('/-- EDNS option dispatch: decoder (code, variant, reader) and encoder (variant, writer) -/\n')
        f.write('def optDec : List (String × String × String) := [' + ', '.join('(%s, %s, %s)' % tuple(map(lean_str, x)) for x in opt['dec']) + ']\n')
        f.write('def optEnc : List (String × String) := ' + lean_pairs(opt['enc']) + '\n')
        f.write('/-- calls inside framing functions that are outside the frame vocabulary and therefore not part of `frameSteps` -/\n')
        f.write('def frameOtherCalls : List (String × String) := ' + lean_pairs(sorted(set(FRAME_UNKNOWN))) + '\n')
        f.write('/-- functions the extractor could not read as straight-line code: (side, type, reason) -/\n')
        f.write('def stepsUnreadable : List (String × String × String) := [\n' + ',\n'.join('  (%s, %s, %s)' % tuple(map(lean_str, x)) for x in res['unreadable']) + ']\n')
        f.write('end Gen\n')
    print('extract_steps: %d readers, %d writers, %d+%d dispatch arms, %d unreadable' % (len(res['dec']), len(res['enc']), len(res['decDispatch']), len(res['encDispatch']), len(res['unreadable'])))
    return res

if __name__ == '__main__':
    repo = sys.argv[1] if len(sys.argv) > 1 else '/repo'
    out = sys.argv[2] if len(sys.argv) > 2 else '/verif/lean/DnsVerif/Generated'
    main(repo, out)
