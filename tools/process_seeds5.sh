#!/bin/bash
# wave 5: /tmp/mut/Cxx-out5/patch{1,2}.diff -> seeds Cxx-9, Cxx-10 (confirm, then targeted evaluation on /repo)
cd /verif
for d in /tmp/mut/C*-out5; do
  pid=$(basename $d | cut -d- -f1)
  for n in 1 2; do
    sid=$pid-$((n+8))
    [ -f $d/patch$n.diff ] && [ -f $d/demo$n.rs ] && [ -f $d/notes$n.md ] || continue
    if [ ! -f seeded/$sid/meta.json ]; then
      python3 tools/confirm_seed.py $sid $pid $d/patch$n.diff $d/demo$n.rs $d/notes$n.md || { echo "REJECTED $sid"; continue; }
    fi
    if [ ! -f seeded/$sid/detection.json ]; then
      python3 tools/eval_seed.py seeded/$sid $pid | tail -1
    fi
  done
done
echo ALLDONE5
