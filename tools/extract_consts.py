#!/usr/bin/env python3
"""Regenerate DnsVerif/Generated/{Consts,Enums}.lean from /repo/src (run on every check).

Understands only literal `const NAME: T = <literal or sum of earlier consts>;` items, the
`Variant = <literal>` lines of the `try_from_enum_to_integer*!` enums, and the literal masks/shifts of
the two `flags` functions.  Anything it cannot parse makes it exit non-zero (the tie is then broken,
it never guesses)."""
import re, sys, os, pathlib

WIDTH = {'u8': 8, 'u16': 16, 'u32': 32, 'u64': 64, 'usize': 64}

def lit(s, env, ty='u64'):
    """value of a constant expression: integer literals, earlier constants, `uN::MAX [as T]`, and the operators
    ! | & ^ << >> + - * with parentheses (`!` is taken at the declared width of the constant)"""
    s = s.strip()
    toks = re.findall(r'0b[01_]+|0x[0-9a-fA-F_]+|[0-9][0-9_]*(?:_?(?:u8|u16|u32|u64|usize))?|u(?:8|16|32|64|size)::MAX|as\s+\w+|[A-Za-z_][A-Za-z_0-9]*|<<|>>|[!|&^+\-*()]', s)
    if ''.join(toks).replace(' ', '') != re.sub(r'\s', '', s):
        raise ValueError('cannot parse literal: %r' % s)
    mask = (1 << WIDTH.get(ty, 64)) - 1
    out = []
    for t in toks:
        if re.fullmatch(r'0b[01_]+|0x[0-9a-fA-F_]+|[0-9][0-9_]*(?:_?(?:u8|u16|u32|u64|usize))?', t):
            t2 = re.sub(r'_?(?:u8|u16|u32|u64|usize)$', '', t).replace('_', '')
            out.append(str(int(t2, 0)))
        elif re.fullmatch(r'u(8|16|32|64|size)::MAX', t):
            out.append(str((1 << WIDTH['u' + t[1:].split('::')[0]]) - 1))
        elif t.startswith('as'):
            continue
        elif t == '!':
            out.append('%d ^ ' % mask)
        elif re.fullmatch(r'[A-Za-z_][A-Za-z_0-9]*', t):
            if t not in env: raise ValueError('cannot parse literal: %r' % s)
            out.append(str(env[t]))
        else:
            out.append(t)
    try:
        return eval(' '.join(out), {'__builtins__': {}}) & mask          # only digits and operators reach eval
    except Exception:
        raise ValueError('cannot parse literal: %r' % s)

def strip_comments(src):
    src = re.sub(r'//[^\n]*', '', src)
    return src

def main(repo, outdir):
    src = pathlib.Path(repo) / 'src'
    files = sorted(p for p in src.rglob('*.rs') if p.name != 'tests.rs')
    consts = []   # (leanname, value, origin)
    enums = []    # (name, [(variant, value)], origin)
    pending = []
    for p in files:
        text = p.read_text()
        # drop #[cfg(test)] / #[test] tails crudely: constants inside tests are `static`, not `const`
        body = strip_comments(text)
        rel = p.relative_to(src).with_suffix('')
        mod = '_'.join(rel.parts)
        for m in re.finditer(r'^\s*(?:pub(?:\([a-z:]+\))?\s+)?const\s+([A-Z_0-9]+)\s*:\s*([a-z0-9]+)\s*=\s*([^;]+);', body, re.M):
            pending.append((mod, m.group(1), m.group(3), str(rel), m.group(2)))
        for m in re.finditer(r'try_from_enum_to_integer(?:_without_display)?!\s*\{(.*?)\n\}', body, re.S):
            blk = m.group(1)
            em = re.search(r'enum\s+(\w+)\s*\{(.*)\}', blk, re.S)
            if '$' in blk: continue          # inside a macro definition that forwards its input: not an enum
            if not em:
                raise SystemExit('extract_consts: cannot find enum in %s' % p)
            ename, inner = em.group(1), em.group(2)
            inner = re.sub(r'#\[[^\]]*\]', '', inner)
            vs = []
            for item in inner.split(','):
                item = item.strip()
                if not item:
                    continue
                vm = re.fullmatch(r'(\w+)\s*=\s*(\S+)', item)
                if not vm:
                    raise SystemExit('extract_consts: cannot parse variant %r of %s' % (item, ename))
                vs.append((vm.group(1), lit(vm.group(2), {})))
            enums.append((ename, vs, str(rel)))
    # resolve constants to a fixpoint (a constant may be a sum of constants of another module)
    done = {}
    progress = True
    while pending and progress:
        progress = False
        rest = []
        for mod, name, expr, rel, ty in pending:
            env = {n.split('__')[-1]: v for n, v in done.items()}
            env.update({n.split('__')[-1]: v for n, v in done.items() if n.startswith(mod + '__')})
            try:
                v = lit(expr, env, ty)
            except ValueError:
                rest.append((mod, name, expr, rel, ty)); continue
            done['%s__%s' % (mod, name)] = v
            consts.append(('%s__%s' % (mod, name), v, rel))
            progress = True
        pending = rest
    unevaluated = ['%s__%s' % (mod, name) for mod, name, expr, rel, ty in pending]
    # a constant whose initialiser is not understood is left out: the tie theorems that name it are then reported as
    # "still defined but its value can no longer be extracted" by runner/tie.py for the properties that depend on it
    consts.sort()
    # flag masks / shifts, in order of appearance
    def flaglits(path):
        t = strip_comments((src / path).read_text())
        m = re.search(r'fn flags\(.*?\n    \}', t, re.S)
        if not m:
            raise SystemExit('extract_consts: no fn flags in %s' % path)
        out = []
        for x in re.finditer(r'(0b[01_]+)|(>>|<<)\s*(\d+)', m.group(0)):
            out.append(int(x.group(1).replace('_', ''), 0) if x.group(1) else int(x.group(3)))
        return out
    dfl = flaglits('decode/dns.rs')
    efl = flaglits('encode/dns.rs')
    os.makedirs(outdir, exist_ok=True)
    with open(os.path.join(outdir, 'Consts.lean'), 'w') as f:
        f.write('/-! GENERATED by tools/extract_consts.py from /repo/src on every run. Do not edit. -/\n')
        f.write('namespace Gen\n')
        for n, v, o in consts:
            f.write('/-- src/%s.rs -/\ndef %s : Nat := %d\n' % (o, n, v))
        f.write('/-- literal masks and shift amounts of `Decoder::flags`, in order of appearance -/\n')
        f.write('def decFlagsLits : List Nat := %s\n' % dfl)
        f.write('/-- literal masks and shift amounts of `Encoder::flags`, in order of appearance -/\n')
        f.write('def encFlagsLits : List Nat := %s\n' % efl)
        f.write('end Gen\n')
    with open(os.path.join(outdir, 'Enums.lean'), 'w') as f:
        f.write('/-! GENERATED by tools/extract_consts.py from /repo/src on every run. Do not edit. -/\n')
        f.write('namespace Gen\n')
        for n, vs, o in enums:
            f.write('/-- src/%s.rs -/\ndef enum%s : List (String × Nat) := [\n' % (o, n))
            f.write(',\n'.join('  ("%s", %d)' % (a, b) for a, b in vs))
            f.write(']\n')
        f.write('end Gen\n')
    print('extract_consts: %d constants, %d enums%s' % (len(consts), len(enums), ('; not evaluated: ' + ', '.join(unevaluated)) if unevaluated else ''))

if __name__ == '__main__':
    repo = sys.argv[1] if len(sys.argv) > 1 else '/repo'
    out = sys.argv[2] if len(sys.argv) > 2 else '/verif/lean/DnsVerif/Generated'
    main(repo, out)
