#!/bin/bash
# property-preserving changes written by independent sub-agents: /tmp/mut/Cxx-harmless/patch{1,2}.diff -> harmless/A-Cxx-n/
# (suite must stay green with the patch; then ALL 18 quick checks are run with the patch applied to $VERIF_REPO)
cd /verif
WT=/tmp/confirm_wt
for d in /tmp/mut/C*-harmless; do
  pid=$(basename $d | cut -d- -f1)
  for n in 1 2; do
    hid=A-$pid-$n
    [ -f $d/patch$n.diff ] && [ -f $d/notes$n.md ] || continue
    if [ ! -f harmless/$hid/patch.diff ]; then
      git -C $WT checkout -q -- . && git -C $WT clean -fdq
      git -C $WT apply $d/patch$n.diff || { echo "REJECTED $hid (does not apply)"; continue; }
      res=$(cd $WT && cargo test --offline 2>&1 | grep -E "^test result" | awk '{p+=$4; f+=$6} END {print p" passed "f" failed"}')
      git -C $WT checkout -q -- . && git -C $WT clean -fdq
      echo "$hid suite with patch: $res"
      case "$res" in "396 passed 0 failed") ;; *) echo "REJECTED $hid (suite)"; continue;; esac
      mkdir -p harmless/$hid
      cp $d/patch$n.diff harmless/$hid/patch.diff; cp $d/notes$n.md harmless/$hid/notes.md; [ -f $d/demo$n.rs ] && cp $d/demo$n.rs harmless/$hid/demo.rs
    fi
    if [ ! -f harmless/$hid/detection.json ]; then
      python3 tools/eval_seed.py harmless/$hid | grep -E "VIOLATION|detected by"
    fi
  done
done
echo HARMLESSDONE
