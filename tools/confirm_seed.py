#!/usr/bin/env python3
"""Confirm a seeded defect in a scratch worktree: with the patch the existing suite passes and the
demonstration fails; without the patch the demonstration passes. Then store it under /verif/seeded/<id>/.
usage: confirm_seed.py <seed-id> <property> <patch.diff> <demo.rs> <notes.md>"""
import sys, os, subprocess, json, shutil, re
V = os.path.dirname(os.path.dirname(os.path.abspath(__file__)))
sid, prop, patch, demo, notes = sys.argv[1:6]
WT = os.environ.get('CONFIRM_WT', '/tmp/confirm_wt')
ENV = dict(os.environ, CARGO_NET_OFFLINE='true')
def sh(cmd, **kw):
    return subprocess.run(cmd, shell=True, capture_output=True, text=True, env=ENV, **kw)
if not os.path.exists(WT):
    r = sh('git -C /repo worktree add -q --detach %s HEAD' % WT); assert r.returncode == 0, r.stderr
sh('git checkout -- . && git clean -fdq -e target', cwd=WT)
r = sh('git apply --check %s' % patch, cwd=WT); assert r.returncode == 0, 'patch does not apply: ' + r.stderr
# 1. with the patch: suite green, demo red
sh('git apply %s' % patch, cwd=WT)
touched = sh('git diff --name-only', cwd=WT).stdout.split()
assert all(t.startswith('src/') for t in touched), 'patch touches non-src files: %s' % touched
r = sh('cargo test --offline 2>&1', cwd=WT)
suite = r.stdout
lines = [l for l in suite.split('\n') if l.startswith('test result:')]
failed = sum(int(re.search(r'(\d+) failed', l).group(1)) for l in lines)
passed = sum(int(re.search(r'(\d+) passed', l).group(1)) for l in lines)
suite_ok = r.returncode == 0 and failed == 0
shutil.copy(demo, os.path.join(WT, 'tests', 'demo_seed.rs'))
r1 = sh('cargo test --offline --test demo_seed 2>&1', cwd=WT)
demo_fails_with = r1.returncode != 0 and ('FAILED' in r1.stdout or 'panicked' in r1.stdout)
# 2. without the patch: demo green
sh('git checkout -- .', cwd=WT)
r2 = sh('cargo test --offline --test demo_seed 2>&1', cwd=WT)
demo_passes_without = r2.returncode == 0
sh('git checkout -- . && git clean -fdq -e target', cwd=WT)
ok = suite_ok and demo_fails_with and demo_passes_without
print('%s: suite with patch: %d passed %d failed (ok=%s); demo fails with patch: %s; demo passes without: %s => %s' % (
    sid, passed, failed, suite_ok, demo_fails_with, demo_passes_without, 'CONFIRMED' if ok else 'REJECTED'))
if not ok:
    print(r1.stdout[-1500:]); print(r2.stdout[-800:]); sys.exit(1)
d = os.path.join(V, 'seeded', sid); os.makedirs(d, exist_ok=True)
shutil.copy(patch, os.path.join(d, 'patch.diff')); shutil.copy(demo, os.path.join(d, 'demo.rs'))
if os.path.exists(notes): shutil.copy(notes, os.path.join(d, 'notes.md'))
summary = ''
if os.path.exists(notes):
    summary = open(notes).read()
m = re.search(r'## What is needed.*?\n(.*?)(\n## |\Z)', summary, re.S)
json.dump({'id': sid, 'breaks_property': prop, 'files_touched': touched,
           'needs_to_manifest': (m.group(1).strip()[:1500] if m else 'see notes.md'),
           'confirmed': {'suite_with_patch': '%d passed, %d failed (cargo test --offline in a scratch worktree)' % (passed, failed),
                         'demo_with_patch': 'fails (cargo test --offline --test demo_seed)', 'demo_without_patch': 'passes'},
           'origin': 'written by an independent sub-agent that saw only the property text and a scratch worktree'},
          open(os.path.join(d, 'meta.json'), 'w'), indent=1)
