#!/bin/bash
# confirm every delivered seed in /tmp/mut/*-out that is not yet under /verif/seeded, then evaluate it:
# against the targeted property only (default) or against all 18 checks (--all)
cd /verif
for d in /tmp/mut/C*-out; do
  pid=$(basename $d | cut -d- -f1)
  for n in 1 2; do
    sid=$pid-$n
    [ -f $d/patch$n.diff ] && [ -f $d/demo$n.rs ] && [ -f $d/notes$n.md ] || continue
    if [ ! -f seeded/$sid/meta.json ]; then
      python3 tools/confirm_seed.py $sid $pid $d/patch$n.diff $d/demo$n.rs $d/notes$n.md || { echo "REJECTED $sid"; continue; }
    fi
    if [ "$1" = "--all" ]; then
      python3 tools/eval_seed.py seeded/$sid | tail -1
    elif [ ! -f seeded/$sid/detection.json ]; then
      python3 tools/eval_seed.py seeded/$sid $pid | tail -1
    fi
  done
done
echo ALLDONE
