#!/usr/bin/env python3
"""Apply a seeded defect to /repo, run the quick checks, record which ones raise a violation, undo it.
usage: eval_seed.py <seed dir containing patch.diff> [C01 C02 ...]   (default: all 18)"""
import sys, os, subprocess, json, time, re
V = os.path.dirname(os.path.dirname(os.path.abspath(__file__)))
REPO = os.environ.get('VERIF_REPO', '/repo')
sd = os.path.abspath(sys.argv[1])
props = sys.argv[2:] or ['C%02d' % i for i in range(1, 19)]
patch = os.path.join(sd, 'patch.diff')
assert subprocess.run(['git', '-C', REPO, 'status', '--porcelain', '--untracked-files=no'], capture_output=True, text=True).stdout.strip() == '', REPO + ' is not clean'
subprocess.run(['git', '-C', REPO, 'apply', patch], check=True)
res = {}
try:
    for p in props:
        t = time.time()
        r = subprocess.run([os.path.join(V, 'check'), p, '--tier', 'quick'], cwd=V, capture_output=True, text=True)
        vio = [l for l in r.stdout.split('\n') if l.startswith('VIOLATION')]
        detail = None
        if vio:
            m = re.search(r'replay=(\S+)', vio[0])
            try:
                d = json.load(open(m.group(1)))
                detail = {k: (str(v)[:300]) for k, v in d.items() if k in ('kind', 'reason', 'broken', 'tag', 'op')}
            except Exception:
                pass
        res[p] = {'rc': r.returncode, 'violation_lines': [re.sub(r'replay=\S+', 'replay=...', v) for v in vio], 'detail': detail, 'wall_s': round(time.time() - t, 1)}
        print(p, r.returncode, vio[:1], flush=True)
finally:
    subprocess.run(['git', '-C', REPO, 'checkout', '--', '.'], check=True)
    subprocess.run([sys.executable, os.path.join(V, 'tools', 'extract_consts.py'), REPO, os.path.join(V, 'lean', 'DnsVerif', 'Generated')], capture_output=True)
    subprocess.run([sys.executable, os.path.join(V, 'tools', 'extract_steps.py'), REPO, os.path.join(V, 'lean', 'DnsVerif', 'Generated')], capture_output=True)
out = os.path.join(sd, 'detection.json')
old = json.load(open(out)) if os.path.exists(out) else {}
old.update(res)
json.dump(old, open(out, 'w'), indent=1)
print('detected by:', [p for p, v in old.items() if v['rc'] != 0])
