#!/usr/bin/env python3
"""Writes /verif/MANIFEST.json (kept in a script so that the per-property texts live in one place)."""
import json, os
V = os.path.dirname(os.path.dirname(os.path.abspath(__file__)))
TECH = 'Lean 4 theorems over a hand-written model; tie to the code = differential correspondence check against the crate + constants, enum tables and the straight-line record readers/writers/framing functions regenerated from /repo/src by translators and compared with the model by kernel-checked theorems (Props/Tie.lean, Props/TieSteps.lean)'
P = {
 'C01': ('all nine decode entry points never take a panic outcome nor exhaust loop fuel, for every byte string (Safe.decodeX_noPanic/noFuel); clause "returned values can be cloned/compared/formatted" is exercised under catch_unwind, not proved (partial)', '7.C01'),
 'C02': ('RT.roundtrip: for every byte string the model decoder accepts with uncompressed size <= 65535, encoding succeeds and decodes to the same message up to ASCII case of names (composition of C03 soundness, WF of decoded values, C08 totality, C05 encoder=>grammar, C04 completeness); name-level round trip after any encoder history; rt.dns stream runs the fuzz-target contract on the crate field by field', '7a row C02'),
 'C03': ('decodeDns_sound: every accepted byte string satisfies the independent relational wire grammar Spec/Wire.lean for the returned value, for all inputs; named corollaries (class supported, IN-only, no duplicate SvcParam, names <= 255, value on wire)', '7.C03'),
 'C04': ('decodeDns_complete: every buffer satisfying the grammar for a value (any layout) is decoded to exactly that value (Lemmas/Complete*.lean; name layer name_complete); layouts exercised on the crate by a layout-parameterised reference renderer', '7.C04'),
 'C05': ('encoder output satisfies the grammar with backward pointers <= 16 hops for the written value up to ASCII case (Lemmas/EncSpec*.lean; names: encName_spec for every history); crate bytes are re-read by the proved model decoder and a strict layout walker', '7.C05'),
 'C06': ('table invariant over ALL encoder histories (Reach -> EInv), transparency (written name decodes back up to ASCII case, backward pointers, <= 16 hops), no failure except Length beyond offset 65535', '7.C06'),
 'C07': ('termination (fuel never exhausted) and linear work bound 304*len+304 for every accepted message, cyclic names are errors, <= 17 hops and <= 255 octets per name; failing-run cost enforced on the crate by the verif octet budget (partial)', '7.C07'),
 'C08': ('encoder: no panic for all values, error kinds and causes, limits on success (Lemmas/EncLim*.lean; name writers: all states); known findings K3, K4a-c recorded with Lean witnesses', '7.C08'),
 'C09': ('exact framing: record = RDLENGTH, option/APL item/SvcParam = own length, sections = counts, nothing follows; readers never leave their window', '7.C09'),
 'C10': ('element round trips proved for flags (all values with 4-bit rcode), the four 2-octet codes (all 65536), names, questions and all 46 record types (RT.rr_roundtrip); embedding as first element of a message proved for every well-formed record up to the shift of pointer offsets by 12 (elem_embeds_shift), identical octets when pointer-free and for questions; struct encode == RR encode, own-decoder round trip and the shift rule checked on the crate', '7a row C10'),
 'C11': ('all 65536 flag words (decode iff, bit positions, re-encode, error kind), 13 regenerated enum tables: bijective, equal to hand-transcribed IANA registries, rejection carries the code; exhaustive correspondence run', '7.C11'),
 'C12': ('state machines of ECS / APItem / Cookie / DomainName: invariant for every finite history, failing call leaves value unchanged, no panic; validators of Tag/PSDN/ISDN/SA', '7.C12'),
 'C13': ('equality = ASCII-case equality (equivalence, same label lengths), parse(display n) = n for dot-free names incl. root, len = printed length, same limits via parse / append / decode', '7.C13'),
 'C14': ('hash-seed independence: any iteration order of the local index at every call gives lookup-equivalent encoder states and identical bytes; thread schedules exercised by mt.dns (1/2/16 threads), not proved (partial)', '7.C14'),
 'C15': ('option value domains (cookie 8 | 16..=40, padding all-zero any length, ECS prefix rule) + record-level OPT soundness/completeness via C03/C04; emitted options re-read by the proved decoder', '7.C15'),
 'C16': ('parameter set model: insertion keeps keys strictly increasing, refuses exactly duplicates, mandatory emitted sorted; per-kind formats via C03/C04/C05; wire orders/duplications/length deltas exercised', '7.C16'),
 'C17': ('prefix acceptance iff (bit-level), zero fill, APL emission minimal and loss-free, ECS emitted octet count characterised exactly (K2 = its classifier), complete prefix grid in thorough tier', '7.C17'),
 'C18': ('only RFC 1035 types have compressible RDATA names (table theorem), literal writer emits Name.wire with zero hops and leaves the table unchanged; SVCB/HTTPS target compressed = known finding K1', '7.C18'),
}
checks = []
for pid in sorted(P):
    text, ref = P[pid]
    checks.append({
        'property_id': pid,
        'quick_cmd': './check %s --tier quick' % pid,
        'thorough_cmd': './check %s --tier thorough' % pid,
        'evidence_file': 'evidence/%s.json' % pid,
        'replay_cmd_template': './check %s --replay {path}' % pid,
        'engine': 'lean4+correspondence',
        'level_claimed': {'category': 'proof', 'text': text, 'design_ref': 'DESIGN.md section ' + ref},
        'level_note': 'Trusted: Lean 4.33 kernel; axioms propext, Classical.choice, Quot.sound only (audited per theorem on every run); the theorems are about the hand-written model lean/DnsVerif/Model/*, tied to /repo on every run by the correspondence stream (differential, bounded by its generators) and by constants/enum tables (Props/Tie.lean) and the record readers/writers, dispatch tables and framing functions (Props/TieSteps.lean, tools/extract_steps.py) regenerated from /repo/src on every run; Spec/* statements and IANA tables transcribed by hand.',
        'technique': TECH,
    })
m = {
 'version': 1,
 'setup_cmd': './check --setup',
 'hooks': {'guard': 'cargo feature `verif` of dns-message-parser', 'enable': 'harness/Cargo.toml depends on dns-message-parser { path = "/repo", features = ["verif"] } (release profile with overflow-checks and debug-assertions on)',
           'baseline_off_cmd': 'cd /repo && cargo test --workspace --no-fail-fast --offline', 'source_commits': ['e4534d0'], 'add_only': True},
 'engines': [{'name': 'lean4+correspondence', 'path': 'check', 'serves_properties': sorted(P),
              'kind_free_text': 'Lean 4 project lean/ (model, spec, lemmas, property theorems) + Rust harness harness/ + python runner runner/: theorems are kernel-checked and axiom-audited, then the same op stream runs through the crate and the compiled model and the outputs are diffed; oracles search for concrete failing inputs'}],
 'checks': checks,
 'not_applicable': [],
 'notes': 'See DESIGN.md. known_findings.json lists recorded defects (K1..K4) and the eleven repaired ones (fix: commits in /repo). PROTOCOL.md specifies the line protocol shared by harness and driver.',
}
json.dump(m, open(os.path.join(V, 'MANIFEST.json'), 'w'), indent=1)
print('MANIFEST.json written with %d checks' % len(checks))
