#!/bin/bash
# wave 8: /tmp/mut/Cxx-out8/patch{1,2}.diff -> seeds Cxx-15, Cxx-16.  usage: process_seeds6.sh confirm|eval
cd /verif
mode=${1:-confirm}
for d in /tmp/mut/C*-out8; do
  pid=$(basename $d | cut -d- -f1)
  for n in 1 2; do
    sid=$pid-$((n+14))
    [ -f $d/patch$n.diff ] && [ -f $d/demo$n.rs ] && [ -f $d/notes$n.md ] || continue
    if [ "$mode" = confirm ] && [ ! -f seeded/$sid/meta.json ]; then
      python3 tools/confirm_seed.py $sid $pid $d/patch$n.diff $d/demo$n.rs $d/notes$n.md | head -1 || echo "REJECTED $sid"
    fi
    if [ "$mode" = eval ] && [ -f seeded/$sid/meta.json ] && [ ! -f seeded/$sid/detection.json ]; then
      python3 tools/eval_seed.py seeded/$sid $pid | tail -1
    fi
  done
done
echo ALLDONE8-$mode
