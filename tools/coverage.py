#!/usr/bin/env python3
"""Source-line coverage of /repo/src by the correspondence streams (a measurement of the TIE, not a check).

Builds a scratch copy of the harness (outside /verif and /repo) with `-C instrument-coverage` on the nightly toolchain
(whose llvm-tools are installed), pipes the quick op stream of every property through it, merges the profiles and
reports, per source file of the crate, which lines the streams executed.  Output: tools/coverage_report.json and a
table on stdout.  usage: coverage.py [C01 C02 ...] [--tier quick] [--keep]"""
import sys, os, subprocess, json, shutil, random, glob, re
V = os.path.dirname(os.path.dirname(os.path.abspath(__file__)))
sys.path.insert(0, os.path.join(V, 'runner'))
import common
import props_c as P
SCR = os.environ.get('VERIF_COV_DIR', '/var/tmp/verif_cov')
TC = 'nightly'
BIN = os.path.expanduser('~/.rustup/toolchains/nightly-x86_64-unknown-linux-gnu/lib/rustlib/x86_64-unknown-linux-gnu/bin')

def main():
    args = [a for a in sys.argv[1:] if not a.startswith('--')]
    keep = '--keep' in sys.argv
    props = args or ['C%02d' % i for i in range(1, 19)]
    shutil.rmtree(SCR, ignore_errors=True); os.makedirs(SCR)
    h = os.path.join(SCR, 'harness')
    shutil.copytree(os.path.join(V, 'harness'), h, ignore=shutil.ignore_patterns('target', 'build'))
    env = dict(os.environ, CARGO_NET_OFFLINE='true', RUSTFLAGS='-C instrument-coverage', CARGO_TARGET_DIR=os.path.join(SCR, 'target'),
               LLVM_PROFILE_FILE=os.path.join(SCR, 'build-%p.profraw'))      # instrumented build scripts must not write into /repo
    r = subprocess.run(['cargo', '+' + TC, 'build', '--release', '--offline'], cwd=h, env=env, capture_output=True, text=True)
    if r.returncode != 0:
        print(r.stderr[-3000:]); sys.exit(2)
    exe = os.path.join(SCR, 'target', 'release', 'harness')
    prof = os.path.join(SCR, 'prof'); os.makedirs(prof)
    total = 0
    for p in props:
        rng = random.Random(1 * 1000003 + int(p[1:]))
        st = getattr(P, p)('quick', rng)
        chunks = [st] if isinstance(st, list) else st
        ops = []
        for c in chunks: ops += [x.op for x in c]
        total += len(ops)
        n = 16; procs = []
        for i in range(n):
            part = ops[i::n]
            if not part: continue
            inp = os.path.join(SCR, 'in.%s.%d' % (p, i))
            open(inp, 'w').write('\n'.join(part) + '\n')
            e = dict(os.environ, LLVM_PROFILE_FILE=os.path.join(prof, '%s-%d-%%p.profraw' % (p, i)))
            procs.append(subprocess.Popen([exe, 'run'], stdin=open(inp), stdout=subprocess.DEVNULL, stderr=subprocess.DEVNULL, env=e))
        for pr in procs: pr.wait()
        for f in glob.glob(os.path.join(SCR, 'in.%s.*' % p)): os.remove(f)
        print(p, len(ops), 'ops', flush=True)
    merged = os.path.join(SCR, 'all.profdata')
    subprocess.run([os.path.join(BIN, 'llvm-profdata'), 'merge', '-sparse', '-o', merged] + glob.glob(os.path.join(prof, '*.profraw')), check=True)
    r = subprocess.run([os.path.join(BIN, 'llvm-cov'), 'export', '--format=text', '--instr-profile', merged, exe,
                        '--ignore-filename-regex', r'(\.cargo|rustc|harness/src)'], capture_output=True, text=True)
    d = json.loads(r.stdout)
    rep = {}
    for f in d['data'][0]['files']:
        fn = f['filename']
        if '/repo/src/' not in fn or fn.endswith('tests.rs') or fn.endswith('verif.rs'): continue
        rel = fn.split('/repo/')[1]
        # segments: [line, col, count, hasCount, isRegionEntry, isGap]
        linecov = {}
        for seg in f['segments']:
            line, col, cnt, has, entry, gap = seg[:6]
            if has and entry and not gap:
                linecov[line] = max(linecov.get(line, 0), cnt)
        unc = sorted(l for l, c in linecov.items() if c == 0)
        src = open(fn).read().split('\n')
        rep[rel] = {'regions_lines': len(linecov), 'uncovered_lines': unc,
                    'summary': f['summary']['lines'], 'uncovered_text': {l: src[l - 1].strip()[:100] for l in unc[:60]}}
    tot = d['data'][0]['totals']
    out = {'ops': total, 'properties': props, 'files': rep}
    L = sum(v['summary']['count'] for v in rep.values()); C = sum(v['summary']['covered'] for v in rep.values())
    out['lines_total'] = L; out['lines_covered'] = C
    json.dump(out, open(os.path.join(V, 'tools', 'coverage_report.json'), 'w'), indent=1)
    for rel, v in sorted(rep.items()):
        s = v['summary']
        print('%-55s %4d/%4d %5.1f%%  uncovered region starts: %s' % (rel, s['covered'], s['count'], s['percent'], v['uncovered_lines'][:25]))
    print('TOTAL lines %d/%d = %.1f%% over %d ops' % (C, L, 100.0 * C / max(L, 1), total))
    if not keep: shutil.rmtree(SCR, ignore_errors=True)

if __name__ == '__main__':
    main()
