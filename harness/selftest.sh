#!/usr/bin/env bash
# Self test of the harness.
#
#   ./selftest.sh            run selftest_ops.txt through the harness, print every op line followed
#                            by its result line, then run the checks below
#   ./selftest.sh -q         checks only (no op/result listing)
#   ./selftest.sh --bless    rewrite selftest_expected.txt from the current output
#
# Checks:
#   1. exactly one result line per op line
#   2. the output equals selftest_expected.txt (golden file, reviewed by hand against PROTOCOL.md)
#   3. print -> parse -> print stability: for every `ok <value>` printed by a dec.* op,
#      `enc.* <value>` must give `ok <hex>` and `dec.* <hex>` must print the same value again
set -euo pipefail
cd "$(dirname "$0")"

BIN=./target/release/harness
OPS=selftest_ops.txt
EXPECTED=selftest_expected.txt
QUIET=0
BLESS=0
for a in "$@"; do
    case "$a" in
        -q) QUIET=1 ;;
        --bless) BLESS=1 ;;
        *) echo "usage: $0 [-q] [--bless]" >&2; exit 2 ;;
    esac
done

if [ ! -x "$BIN" ]; then
    cargo build --release --offline
fi

TMP=$(mktemp -d)
trap 'rm -rf "$TMP"' EXIT

"$BIN" run < "$OPS" > "$TMP/out"

if [ "$QUIET" = 0 ]; then
    paste -d'\n' "$OPS" "$TMP/out"
    echo "----"
fi

fail=0

# 1. line counts
n_ops=$(wc -l < "$OPS")
n_out=$(wc -l < "$TMP/out")
if [ "$n_ops" = "$n_out" ]; then
    echo "lines: $n_ops ops, $n_out results: OK"
else
    echo "lines: $n_ops ops but $n_out results: FAIL"; fail=1
fi

# 2. golden file
if [ "$BLESS" = 1 ]; then
    cp "$TMP/out" "$EXPECTED"
    echo "golden: rewrote $EXPECTED"
elif [ -f "$EXPECTED" ]; then
    if diff -q "$EXPECTED" "$TMP/out" > /dev/null; then
        echo "golden: output equals $EXPECTED: OK"
    else
        echo "golden: output differs from $EXPECTED: FAIL"
        diff "$EXPECTED" "$TMP/out" | head -20
        fail=1
    fi
else
    echo "golden: no $EXPECTED (run with --bless to create it)"
fi

# 3. print -> parse -> print
#    stage A: dec.X <hex>  => ok <value> cost=n     (from the run above)
#    stage B: enc.X <value> => ok <hex2>
#    stage C: dec.X <hex2> => ok <value> cost=m     (same value as in stage A)
paste -d'\t' "$OPS" "$TMP/out" | awk -F'\t' '
    $1 ~ /^dec\./ && $2 ~ /^ok / {
        op = $1; sub(/ .*/, "", op); sub(/^dec/, "enc", op)
        v = $2; sub(/^ok /, "", v); sub(/ cost=[0-9]+$/, "", v)
        print op " " v
    }' | sort -u > "$TMP/encops"
"$BIN" run < "$TMP/encops" > "$TMP/encout"
paste -d'\t' "$TMP/encops" "$TMP/encout" | awk -F'\t' '
    $2 ~ /^ok / {
        op = $1; sub(/ .*/, "", op); sub(/^enc/, "dec", op)
        h = $2; sub(/^ok /, "", h)
        print op " " h
    }' > "$TMP/decops"
"$BIN" run < "$TMP/decops" > "$TMP/decout"
n_a=$(wc -l < "$TMP/encops")
n_b=$(grep -c '^ok ' "$TMP/encout" || true)
sed -e 's/^enc\.[a-z]* //' "$TMP/encops" > "$TMP/values_a"
sed -e 's/^ok //' -e 's/ cost=[0-9]*$//' "$TMP/decout" > "$TMP/values_c"
if [ "$n_a" = "$n_b" ] && diff -q "$TMP/values_a" "$TMP/values_c" > /dev/null; then
    echo "roundtrip: $n_a distinct decoded values re-encode and re-decode to the same text: OK"
else
    echo "roundtrip: $n_a values, $n_b re-encoded: FAIL"
    paste -d'\n' "$TMP/encops" "$TMP/encout" | grep -B1 -v -e '^ok ' -e '^enc\.' | head -10 || true
    diff "$TMP/values_a" "$TMP/values_c" | head -10 || true
    fail=1
fi

exit $fail
