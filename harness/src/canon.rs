//! Canonical text form of PROTOCOL.md (sections 1 and 2).
//!
//! * Printer: real crate values -> canonical text (`Canon`).
//! * Parser, phase 1 (`parse_*`): tokens -> untyped AST. Every failure here is `PErr::Bad`
//!   (result line `bad-op`). Phase 1 never looks at value constraints.
//! * Parser, phase 2 (`build_*`): AST -> real crate values through the public API. Every failure
//!   here is `PErr::Uncon` (result line `unconstructible`).
//!
//! Consequence: `bad-op` always wins over `unconstructible`.

use dns_message_parser::question::{QClass, QType, Question};
use dns_message_parser::rr::edns::{Cookie, EDNSOption, Padding, ECS};
use dns_message_parser::rr::{
    APItem, AFSDBSubtype, Address, AddressFamilyNumber, AlgorithmType, Class, DigestType,
    ISDNAddress, NonEmptyVec, PSDNAddress, SSHFPAlgorithm, SSHFPType, ServiceBinding,
    ServiceParameter, Tag, Type, A, AAAA, AFSDB, APL, CAA, CNAME, DNAME, DNSKEY, DS, EID, EUI48,
    EUI64, GPOS, HINFO, ISDN, KX, L32, L64, LOC, LP, MB, MD, MF, MG, MINFO, MR, MX, NID, NIMLOC,
    NS, NSAP, NULL, OPT, PTR, PX, RP, RR, RT, SA, SOA, SRV, SSHFP, TXT, URI, WKS, X25,
};
use dns_message_parser::{Dns, DomainName, Flags, Label, Opcode, RCode};
use std::collections::BTreeSet;
use std::convert::TryFrom;
use std::net::{Ipv4Addr, Ipv6Addr};

// ---------------------------------------------------------------------------------------------
// Errors
// ---------------------------------------------------------------------------------------------

#[derive(Debug, Clone, Copy, PartialEq, Eq)]
pub enum PErr {
    /// Token-level syntax error -> `bad-op`.
    Bad,
    /// Well-formed text that cannot be turned into a real value -> `unconstructible`.
    Uncon,
}

pub type PResult<T> = Result<T, PErr>;

fn uncon<E>(_: E) -> PErr {
    PErr::Uncon
}

// ---------------------------------------------------------------------------------------------
// Lexical forms
// ---------------------------------------------------------------------------------------------

const HEX_DIGITS: &[u8; 16] = b"0123456789abcdef";

/// Lower-case hex without the "-" convention (labels, fixed-size parts).
pub fn hex_raw(bytes: &[u8]) -> String {
    let mut s = String::with_capacity(bytes.len() * 2);
    for b in bytes {
        s.push(HEX_DIGITS[(b >> 4) as usize] as char);
        s.push(HEX_DIGITS[(b & 0x0f) as usize] as char);
    }
    s
}

/// `hex`: lower-case hex, the empty byte string is "-".
pub fn hex(bytes: &[u8]) -> String {
    if bytes.is_empty() {
        "-".to_string()
    } else {
        hex_raw(bytes)
    }
}

fn hex_val(c: u8) -> PResult<u8> {
    match c {
        b'0'..=b'9' => Ok(c - b'0'),
        b'a'..=b'f' => Ok(c - b'a' + 10),
        _ => Err(PErr::Bad),
    }
}

/// Parse `hex`: "-" is empty; otherwise a non-empty even number of [0-9a-f]. Upper case is bad.
pub fn unhex(s: &str) -> PResult<Vec<u8>> {
    if s == "-" {
        return Ok(Vec::new());
    }
    let b = s.as_bytes();
    if b.is_empty() || b.len() % 2 != 0 {
        return Err(PErr::Bad);
    }
    let mut out = Vec::with_capacity(b.len() / 2);
    for pair in b.chunks(2) {
        out.push((hex_val(pair[0])? << 4) | hex_val(pair[1])?);
    }
    Ok(out)
}

/// Parse `num`: `0 | [1-9][0-9]*`. Values above u128::MAX saturate (they fit no Rust type anyway).
pub fn lex_num(s: &str) -> PResult<u128> {
    let b = s.as_bytes();
    if b.is_empty() || !b.iter().all(|c| c.is_ascii_digit()) || (b.len() > 1 && b[0] == b'0') {
        return Err(PErr::Bad);
    }
    Ok(s.parse::<u128>().unwrap_or(u128::MAX))
}

/// Parse `bool`: exactly "0" or "1".
pub fn lex_bool(s: &str) -> PResult<bool> {
    match s {
        "0" => Ok(false),
        "1" => Ok(true),
        _ => Err(PErr::Bad),
    }
}

/// Untyped name: the label octets. `.` is the root (no labels).
pub type NameAst = Vec<Vec<u8>>;

/// Parse `name`: "." or hexlabel ("." hexlabel)*, hexlabel never empty (and never "-").
pub fn lex_name(s: &str) -> PResult<NameAst> {
    if s == "." {
        return Ok(Vec::new());
    }
    let mut labels = Vec::new();
    for part in s.split('.') {
        if part == "-" {
            return Err(PErr::Bad);
        }
        labels.push(unhex(part)?);
    }
    Ok(labels)
}

pub fn fit_u8(n: u128) -> PResult<u8> {
    u8::try_from(n).map_err(uncon)
}
pub fn fit_u16(n: u128) -> PResult<u16> {
    u16::try_from(n).map_err(uncon)
}
pub fn fit_u32(n: u128) -> PResult<u32> {
    u32::try_from(n).map_err(uncon)
}
pub fn fit_u64(n: u128) -> PResult<u64> {
    u64::try_from(n).map_err(uncon)
}
/// A bool written as a number (`n:0` / `n:1`).
pub fn fit_bool(n: u128) -> PResult<bool> {
    match n {
        0 => Ok(false),
        1 => Ok(true),
        _ => Err(PErr::Uncon),
    }
}
pub fn fit_array<const N: usize>(b: &[u8]) -> PResult<[u8; N]> {
    <[u8; N]>::try_from(b).map_err(uncon)
}
pub fn fit_string(b: &[u8]) -> PResult<String> {
    String::from_utf8(b.to_vec()).map_err(uncon)
}

// ---------------------------------------------------------------------------------------------
// Token cursor
// ---------------------------------------------------------------------------------------------

pub struct Toks<'a> {
    toks: Vec<&'a str>,
    pos: usize,
}

impl<'a> Toks<'a> {
    /// Split on single spaces. An empty token anywhere (empty line, double space, leading or
    /// trailing space) is a syntax error.
    pub fn new(line: &'a str) -> PResult<Toks<'a>> {
        let toks: Vec<&str> = line.split(' ').collect();
        if toks.iter().any(|t| t.is_empty()) {
            return Err(PErr::Bad);
        }
        Ok(Toks { toks, pos: 0 })
    }

    pub fn next(&mut self) -> PResult<&'a str> {
        let t = self.toks.get(self.pos).copied().ok_or(PErr::Bad)?;
        self.pos += 1;
        Ok(t)
    }

    pub fn remaining(&self) -> usize {
        self.toks.len() - self.pos
    }

    /// The next token without consuming it.
    pub fn peek(&self) -> Option<&'a str> {
        self.toks.get(self.pos).copied()
    }

    /// No trailing garbage.
    pub fn end(&self) -> PResult<()> {
        if self.remaining() == 0 {
            Ok(())
        } else {
            Err(PErr::Bad)
        }
    }

    fn lit(&mut self, lit: &str) -> PResult<()> {
        if self.next()? == lit {
            Ok(())
        } else {
            Err(PErr::Bad)
        }
    }

    fn num(&mut self) -> PResult<u128> {
        lex_num(self.next()?)
    }

    fn boolean(&mut self) -> PResult<bool> {
        lex_bool(self.next()?)
    }

    /// A count followed by that many things; the count is checked against the tokens left so a
    /// huge count cannot make us allocate.
    fn count(&mut self) -> PResult<usize> {
        let n = self.num()?;
        if n > self.remaining() as u128 {
            return Err(PErr::Bad);
        }
        Ok(n as usize)
    }
}

// ---------------------------------------------------------------------------------------------
// Phase 1: untyped AST
// ---------------------------------------------------------------------------------------------

pub struct FlagsAst {
    pub qr: bool,
    pub opcode: u128,
    pub aa: bool,
    pub tc: bool,
    pub rd: bool,
    pub ra: bool,
    pub ad: bool,
    pub cd: bool,
    pub rcode: u128,
}

pub struct QuestionAst {
    pub name: NameAst,
    pub qtype: u128,
    pub qclass: u128,
}

/// One list item token. The item grammar is the union of all item kinds so that phase 1 needs no
/// type information: `hex | apitem | option | param`.
pub enum Item {
    Hex(Vec<u8>),
    Ap { fam: u128, prefix: u128, neg: bool, addr: Vec<u8> },
    Ecs { fam: u128, src: u128, scope: u128, addr: Vec<u8> },
    Cookie { client: Vec<u8>, server: Option<Vec<u8>> },
    Pad(u128),
    Mandatory(Vec<u128>),
    Alpn(Vec<Vec<u8>>),
    NoDefaultAlpn,
    Port(u128),
    Ipv4Hint(Vec<Vec<u8>>),
    Ech(Vec<u8>),
    Ipv6Hint(Vec<Vec<u8>>),
    Key(u128, Vec<u8>),
    Key65535,
}

pub enum Val {
    N(u128),
    D(NameAst),
    H(Vec<u8>),
    O(Option<Vec<u8>>),
    L(Vec<Item>),
}

pub struct RrAst {
    pub type_: u128,
    pub name: NameAst,
    /// `None` is "-".
    pub ttl: Option<u128>,
    /// `None` is "-".
    pub class: Option<u128>,
    pub fields: Vec<(String, Val)>,
}

pub struct MsgAst {
    pub id: u128,
    pub flags: FlagsAst,
    pub questions: Vec<QuestionAst>,
    pub answers: Vec<RrAst>,
    pub authorities: Vec<RrAst>,
    pub additionals: Vec<RrAst>,
}

fn split_exact<'a>(s: &'a str, sep: char, n: usize) -> PResult<Vec<&'a str>> {
    let parts: Vec<&str> = s.split(sep).collect();
    if parts.len() == n {
        Ok(parts)
    } else {
        Err(PErr::Bad)
    }
}

/// `count ("," x)*`: returns the x strings; the count must match.
fn lex_counted(s: &str) -> PResult<Vec<&str>> {
    let mut it = s.split(',');
    let count = lex_num(it.next().ok_or(PErr::Bad)?)?;
    let items: Vec<&str> = it.collect();
    if items.len() as u128 != count {
        return Err(PErr::Bad);
    }
    Ok(items)
}

fn lex_counted_hex(s: &str) -> PResult<Vec<Vec<u8>>> {
    lex_counted(s)?.into_iter().map(unhex).collect()
}

/// `"none" | hex`
fn lex_opt_hex(s: &str) -> PResult<Option<Vec<u8>>> {
    if s == "none" {
        Ok(None)
    } else {
        Ok(Some(unhex(s)?))
    }
}

/// `fam "/" src "/" scope "/" hexaddr` (shared by the `ecs:` item and `api.ecs`).
pub fn lex_ecs(s: &str) -> PResult<Item> {
    let p = split_exact(s, '/', 4)?;
    Ok(Item::Ecs {
        fam: lex_num(p[0])?,
        src: lex_num(p[1])?,
        scope: lex_num(p[2])?,
        addr: unhex(p[3])?,
    })
}

/// `fam "/" prefix "/" neg "/" hexaddr` (shared by APL items and `api.apitem`).
pub fn lex_apitem(s: &str) -> PResult<Item> {
    let p = split_exact(s, '/', 4)?;
    Ok(Item::Ap {
        fam: lex_num(p[0])?,
        prefix: lex_num(p[1])?,
        neg: lex_bool(p[2])?,
        addr: unhex(p[3])?,
    })
}

/// `hex16 "/" ("none" | hex)` (shared by the `cookie:` item and `api.cookie`).
pub fn lex_cookie(s: &str) -> PResult<Item> {
    let p = split_exact(s, '/', 2)?;
    Ok(Item::Cookie {
        client: unhex(p[0])?,
        server: lex_opt_hex(p[1])?,
    })
}

/// `fam "/" hexaddr` (the `addr:` call of api.ecs / api.apitem).
pub fn lex_fam_addr(s: &str) -> PResult<(u128, Vec<u8>)> {
    let p = split_exact(s, '/', 2)?;
    Ok((lex_num(p[0])?, unhex(p[1])?))
}

pub fn parse_item(tok: &str) -> PResult<Item> {
    if tok == "nodefaultalpn" {
        return Ok(Item::NoDefaultAlpn);
    }
    if tok == "key65535" {
        return Ok(Item::Key65535);
    }
    if let Some(r) = tok.strip_prefix("ecs:") {
        return lex_ecs(r);
    }
    if let Some(r) = tok.strip_prefix("cookie:") {
        return lex_cookie(r);
    }
    if let Some(r) = tok.strip_prefix("pad:") {
        return Ok(Item::Pad(lex_num(r)?));
    }
    if let Some(r) = tok.strip_prefix("mandatory:") {
        let ids: PResult<Vec<u128>> = lex_counted(r)?.into_iter().map(lex_num).collect();
        return Ok(Item::Mandatory(ids?));
    }
    if let Some(r) = tok.strip_prefix("alpn:") {
        return Ok(Item::Alpn(lex_counted_hex(r)?));
    }
    if let Some(r) = tok.strip_prefix("port:") {
        return Ok(Item::Port(lex_num(r)?));
    }
    if let Some(r) = tok.strip_prefix("ipv4hint:") {
        return Ok(Item::Ipv4Hint(lex_counted_hex(r)?));
    }
    if let Some(r) = tok.strip_prefix("ech:") {
        return Ok(Item::Ech(unhex(r)?));
    }
    if let Some(r) = tok.strip_prefix("ipv6hint:") {
        return Ok(Item::Ipv6Hint(lex_counted_hex(r)?));
    }
    if let Some(r) = tok.strip_prefix("key") {
        let (n, h) = r.split_once(':').ok_or(PErr::Bad)?;
        return Ok(Item::Key(lex_num(n)?, unhex(h)?));
    }
    if tok.contains('/') {
        return lex_apitem(tok);
    }
    Ok(Item::Hex(unhex(tok)?))
}

pub fn parse_flags(t: &mut Toks) -> PResult<FlagsAst> {
    t.lit("F")?;
    Ok(FlagsAst {
        qr: t.boolean()?,
        opcode: t.num()?,
        aa: t.boolean()?,
        tc: t.boolean()?,
        rd: t.boolean()?,
        ra: t.boolean()?,
        ad: t.boolean()?,
        cd: t.boolean()?,
        rcode: t.num()?,
    })
}

pub fn parse_question(t: &mut Toks) -> PResult<QuestionAst> {
    t.lit("Q")?;
    Ok(QuestionAst {
        name: lex_name(t.next()?)?,
        qtype: t.num()?,
        qclass: t.num()?,
    })
}

fn lex_num_or_dash(s: &str) -> PResult<Option<u128>> {
    if s == "-" {
        Ok(None)
    } else {
        Ok(Some(lex_num(s)?))
    }
}

fn parse_field(t: &mut Toks) -> PResult<(String, Val)> {
    let tok = t.next()?;
    let (fname, v) = tok.split_once('=').ok_or(PErr::Bad)?;
    if fname.is_empty() {
        return Err(PErr::Bad);
    }
    let val = if let Some(r) = v.strip_prefix("n:") {
        Val::N(lex_num(r)?)
    } else if let Some(r) = v.strip_prefix("d:") {
        Val::D(lex_name(r)?)
    } else if let Some(r) = v.strip_prefix("h:") {
        Val::H(unhex(r)?)
    } else if let Some(r) = v.strip_prefix("o:") {
        Val::O(lex_opt_hex(r)?)
    } else if let Some(r) = v.strip_prefix("L:") {
        let n = lex_num(r)?;
        if n > t.remaining() as u128 {
            return Err(PErr::Bad);
        }
        let mut items = Vec::with_capacity(n as usize);
        for _ in 0..n as usize {
            items.push(parse_item(t.next()?)?);
        }
        Val::L(items)
    } else {
        return Err(PErr::Bad);
    };
    Ok((fname.to_string(), val))
}

pub fn parse_rr(t: &mut Toks) -> PResult<RrAst> {
    t.lit("RR")?;
    let type_ = t.num()?;
    let name = lex_name(t.next()?)?;
    let ttl = lex_num_or_dash(t.next()?)?;
    let class = lex_num_or_dash(t.next()?)?;
    let nfields = t.count()?;
    let mut fields = Vec::with_capacity(nfields);
    for _ in 0..nfields {
        fields.push(parse_field(t)?);
    }
    Ok(RrAst {
        type_,
        name,
        ttl,
        class,
        fields,
    })
}

pub fn parse_msg(t: &mut Toks) -> PResult<MsgAst> {
    t.lit("M")?;
    let id = t.num()?;
    let flags = parse_flags(t)?;
    // The four counts are read first, then checked one section at a time while parsing.
    let qd = t.num()?;
    let an = t.num()?;
    let ns = t.num()?;
    let ar = t.num()?;
    let mut questions = Vec::new();
    for _ in 0..section_len(t, qd)? {
        questions.push(parse_question(t)?);
    }
    let mut sections: Vec<Vec<RrAst>> = Vec::new();
    for n in [an, ns, ar] {
        let mut rrs = Vec::new();
        for _ in 0..section_len(t, n)? {
            rrs.push(parse_rr(t)?);
        }
        sections.push(rrs);
    }
    let additionals = sections.pop().unwrap();
    let authorities = sections.pop().unwrap();
    let answers = sections.pop().unwrap();
    Ok(MsgAst {
        id,
        flags,
        questions,
        answers,
        authorities,
        additionals,
    })
}

fn section_len(t: &Toks, n: u128) -> PResult<usize> {
    // every question / rr needs at least one token
    if n > t.remaining() as u128 {
        Err(PErr::Bad)
    } else {
        Ok(n as usize)
    }
}

// ---------------------------------------------------------------------------------------------
// Phase 2: AST -> real values (public API only)
// ---------------------------------------------------------------------------------------------

pub fn build_name(ast: &NameAst) -> PResult<DomainName> {
    let mut name = DomainName::default();
    for octets in ast {
        let label = Label::try_from(fit_string(octets)?).map_err(uncon)?;
        name.append_label(label).map_err(uncon)?;
    }
    Ok(name)
}

pub fn build_flags(a: &FlagsAst) -> PResult<Flags> {
    Ok(Flags {
        qr: a.qr,
        opcode: Opcode::try_from(fit_u8(a.opcode)?).map_err(uncon)?,
        aa: a.aa,
        tc: a.tc,
        rd: a.rd,
        ra: a.ra,
        ad: a.ad,
        cd: a.cd,
        rcode: RCode::try_from(fit_u8(a.rcode)?).map_err(uncon)?,
    })
}

pub fn build_question(a: &QuestionAst) -> PResult<Question> {
    Ok(Question {
        domain_name: build_name(&a.name)?,
        q_class: QClass::try_from(fit_u16(a.qclass)?).map_err(uncon)?,
        q_type: QType::try_from(fit_u16(a.qtype)?).map_err(uncon)?,
    })
}

pub fn build_ipv4(b: &[u8]) -> PResult<Ipv4Addr> {
    Ok(Ipv4Addr::from(fit_array::<4>(b)?))
}

pub fn build_ipv6(b: &[u8]) -> PResult<Ipv6Addr> {
    Ok(Ipv6Addr::from(fit_array::<16>(b)?))
}

/// fam 1 -> 4 octets, fam 2 -> 16 octets; anything else is unconstructible.
pub fn build_address(fam: u128, addr: &[u8]) -> PResult<Address> {
    match AddressFamilyNumber::try_from(fit_u16(fam)?).map_err(uncon)? {
        AddressFamilyNumber::Ipv4 => Ok(Address::Ipv4(build_ipv4(addr)?)),
        AddressFamilyNumber::Ipv6 => Ok(Address::Ipv6(build_ipv6(addr)?)),
    }
}

/// The server cookie as given (no length check here: `Cookie::new` does it).
pub fn build_client_cookie(b: &[u8]) -> PResult<[u8; 8]> {
    fit_array::<8>(b)
}

fn build_option(item: &Item) -> PResult<EDNSOption> {
    match item {
        Item::Ecs { fam, src, scope, addr } => {
            let address = build_address(*fam, addr)?;
            let ecs = ECS::new(fit_u8(*src)?, fit_u8(*scope)?, address).map_err(uncon)?;
            Ok(EDNSOption::ECS(ecs))
        }
        Item::Cookie { client, server } => {
            let cookie = Cookie::new(build_client_cookie(client)?, server.clone()).map_err(uncon)?;
            Ok(EDNSOption::Cookie(cookie))
        }
        Item::Pad(n) => Ok(EDNSOption::Padding(Padding(fit_u16(*n)?))),
        _ => Err(PErr::Uncon),
    }
}

fn build_apitem(item: &Item) -> PResult<APItem> {
    match item {
        Item::Ap { fam, prefix, neg, addr } => {
            let address = build_address(*fam, addr)?;
            APItem::new(fit_u8(*prefix)?, *neg, address).map_err(uncon)
        }
        _ => Err(PErr::Uncon),
    }
}

fn build_param(item: &Item) -> PResult<ServiceParameter> {
    Ok(match item {
        Item::Mandatory(ids) => ServiceParameter::MANDATORY {
            key_ids: ids.iter().map(|n| fit_u16(*n)).collect::<PResult<_>>()?,
        },
        Item::Alpn(ids) => ServiceParameter::ALPN {
            alpn_ids: ids.iter().map(|b| fit_string(b)).collect::<PResult<_>>()?,
        },
        Item::NoDefaultAlpn => ServiceParameter::NO_DEFAULT_ALPN,
        Item::Port(n) => ServiceParameter::PORT { port: fit_u16(*n)? },
        Item::Ipv4Hint(hs) => ServiceParameter::IPV4_HINT {
            hints: hs.iter().map(|b| build_ipv4(b)).collect::<PResult<_>>()?,
        },
        Item::Ech(b) => ServiceParameter::ECH { config_list: b.clone() },
        Item::Ipv6Hint(hs) => ServiceParameter::IPV6_HINT {
            hints: hs.iter().map(|b| build_ipv6(b)).collect::<PResult<_>>()?,
        },
        Item::Key(n, b) => ServiceParameter::PRIVATE {
            number: fit_u16(*n)?,
            wire_data: b.clone(),
        },
        Item::Key65535 => ServiceParameter::KEY_65535,
        _ => return Err(PErr::Uncon),
    })
}

/// Reader over the field list of one RR: fields must come with exactly the names, kinds and
/// order of the PROTOCOL.md table.
struct F<'a> {
    fields: &'a [(String, Val)],
    pos: usize,
}

impl<'a> F<'a> {
    fn val(&mut self, name: &str) -> PResult<&'a Val> {
        let (n, v) = self.fields.get(self.pos).ok_or(PErr::Uncon)?;
        if n != name {
            return Err(PErr::Uncon);
        }
        self.pos += 1;
        Ok(v)
    }
    fn n(&mut self, name: &str) -> PResult<u128> {
        match self.val(name)? {
            Val::N(n) => Ok(*n),
            _ => Err(PErr::Uncon),
        }
    }
    fn u8(&mut self, name: &str) -> PResult<u8> {
        fit_u8(self.n(name)?)
    }
    fn u16(&mut self, name: &str) -> PResult<u16> {
        fit_u16(self.n(name)?)
    }
    fn u32(&mut self, name: &str) -> PResult<u32> {
        fit_u32(self.n(name)?)
    }
    fn u64(&mut self, name: &str) -> PResult<u64> {
        fit_u64(self.n(name)?)
    }
    fn b(&mut self, name: &str) -> PResult<bool> {
        fit_bool(self.n(name)?)
    }
    fn d(&mut self, name: &str) -> PResult<DomainName> {
        match self.val(name)? {
            Val::D(d) => build_name(d),
            _ => Err(PErr::Uncon),
        }
    }
    fn h(&mut self, name: &str) -> PResult<Vec<u8>> {
        match self.val(name)? {
            Val::H(h) => Ok(h.clone()),
            _ => Err(PErr::Uncon),
        }
    }
    fn s(&mut self, name: &str) -> PResult<String> {
        fit_string(&self.h(name)?)
    }
    fn o(&mut self, name: &str) -> PResult<Option<Vec<u8>>> {
        match self.val(name)? {
            Val::O(o) => Ok(o.clone()),
            _ => Err(PErr::Uncon),
        }
    }
    fn l(&mut self, name: &str) -> PResult<&'a [Item]> {
        match self.val(name)? {
            Val::L(l) => Ok(l),
            _ => Err(PErr::Uncon),
        }
    }
    fn end(&self) -> PResult<()> {
        if self.pos == self.fields.len() {
            Ok(())
        } else {
            Err(PErr::Uncon)
        }
    }
}

/// The name / ttl / class tokens of an RR, evaluated on demand (OPT ignores them).
struct H<'a>(&'a RrAst);

impl<'a> H<'a> {
    fn name(&self) -> PResult<DomainName> {
        build_name(&self.0.name)
    }
    fn ttl(&self) -> PResult<u32> {
        fit_u32(self.0.ttl.ok_or(PErr::Uncon)?)
    }
    fn class(&self) -> PResult<Class> {
        Class::try_from(fit_u16(self.0.class.ok_or(PErr::Uncon)?)?).map_err(uncon)
    }
    /// Types without a class field: the class token must be `1`.
    fn class_in(&self) -> PResult<()> {
        if self.0.class == Some(1) {
            Ok(())
        } else {
            Err(PErr::Uncon)
        }
    }
}

fn build_service_binding(h: &H, f: &mut F, https: bool) -> PResult<ServiceBinding> {
    h.class_in()?;
    let name = h.name()?;
    let ttl = h.ttl()?;
    let priority = f.u16("priority")?;
    let target_name = f.d("target_name")?;
    let mut parameters = BTreeSet::new();
    for item in f.l("parameters")? {
        // a later duplicate key is ignored, as `insert` does
        parameters.insert(build_param(item)?);
    }
    Ok(ServiceBinding {
        name,
        ttl,
        priority,
        target_name,
        parameters,
        https,
    })
}

pub fn build_rr(a: &RrAst) -> PResult<RR> {
    let h = H(a);
    let mut f = F {
        fields: &a.fields,
        pos: 0,
    };
    let f = &mut f;
    // One arm per RR variant, selected by the numeric TYPE code; fields in table order.
    let rr = match fit_u16(a.type_)? {
        1 => {
            h.class_in()?;
            RR::A(A {
                domain_name: h.name()?,
                ttl: h.ttl()?,
                ipv4_addr: build_ipv4(&f.h("ipv4_addr")?)?,
            })
        }
        2 => RR::NS(NS {
            domain_name: h.name()?,
            ttl: h.ttl()?,
            class: h.class()?,
            ns_d_name: f.d("ns_d_name")?,
        }),
        3 => RR::MD(MD {
            domain_name: h.name()?,
            ttl: h.ttl()?,
            class: h.class()?,
            mad_name: f.d("mad_name")?,
        }),
        4 => RR::MF(MF {
            domain_name: h.name()?,
            ttl: h.ttl()?,
            class: h.class()?,
            mad_name: f.d("mad_name")?,
        }),
        5 => RR::CNAME(CNAME {
            domain_name: h.name()?,
            ttl: h.ttl()?,
            class: h.class()?,
            c_name: f.d("c_name")?,
        }),
        6 => RR::SOA(SOA {
            domain_name: h.name()?,
            ttl: h.ttl()?,
            class: h.class()?,
            m_name: f.d("m_name")?,
            r_name: f.d("r_name")?,
            serial: f.u32("serial")?,
            refresh: f.u32("refresh")?,
            retry: f.u32("retry")?,
            expire: f.u32("expire")?,
            min_ttl: f.u32("min_ttl")?,
        }),
        7 => RR::MB(MB {
            domain_name: h.name()?,
            ttl: h.ttl()?,
            class: h.class()?,
            mad_name: f.d("mad_name")?,
        }),
        8 => RR::MG(MG {
            domain_name: h.name()?,
            ttl: h.ttl()?,
            class: h.class()?,
            mgm_name: f.d("mgm_name")?,
        }),
        9 => RR::MR(MR {
            domain_name: h.name()?,
            ttl: h.ttl()?,
            class: h.class()?,
            new_name: f.d("new_name")?,
        }),
        10 => RR::NULL(NULL {
            domain_name: h.name()?,
            ttl: h.ttl()?,
            class: h.class()?,
            data: f.h("data")?,
        }),
        11 => {
            h.class_in()?;
            RR::WKS(WKS {
                domain_name: h.name()?,
                ttl: h.ttl()?,
                ipv4_addr: build_ipv4(&f.h("ipv4_addr")?)?,
                protocol: f.u8("protocol")?,
                bit_map: f.h("bit_map")?,
            })
        }
        12 => RR::PTR(PTR {
            domain_name: h.name()?,
            ttl: h.ttl()?,
            class: h.class()?,
            ptr_d_name: f.d("ptr_d_name")?,
        }),
        13 => RR::HINFO(HINFO {
            domain_name: h.name()?,
            ttl: h.ttl()?,
            class: h.class()?,
            cpu: f.s("cpu")?,
            os: f.s("os")?,
        }),
        14 => RR::MINFO(MINFO {
            domain_name: h.name()?,
            ttl: h.ttl()?,
            class: h.class()?,
            r_mail_bx: f.d("r_mail_bx")?,
            e_mail_bx: f.d("e_mail_bx")?,
        }),
        15 => RR::MX(MX {
            domain_name: h.name()?,
            ttl: h.ttl()?,
            class: h.class()?,
            preference: f.u16("preference")?,
            exchange: f.d("exchange")?,
        }),
        16 => {
            let mut strings = Vec::new();
            for item in f.l("strings")? {
                match item {
                    Item::Hex(b) => strings.push(fit_string(b)?),
                    _ => return Err(PErr::Uncon),
                }
            }
            RR::TXT(TXT {
                domain_name: h.name()?,
                ttl: h.ttl()?,
                class: h.class()?,
                strings: NonEmptyVec::try_from(strings).map_err(uncon)?,
            })
        }
        17 => RR::RP(RP {
            domain_name: h.name()?,
            ttl: h.ttl()?,
            class: h.class()?,
            mbox_dname: f.d("mbox_dname")?,
            txt_dname: f.d("txt_dname")?,
        }),
        18 => RR::AFSDB(AFSDB {
            domain_name: h.name()?,
            ttl: h.ttl()?,
            class: h.class()?,
            subtype: AFSDBSubtype::try_from(f.u16("subtype")?).map_err(uncon)?,
            hostname: f.d("hostname")?,
        }),
        19 => RR::X25(X25 {
            domain_name: h.name()?,
            ttl: h.ttl()?,
            class: h.class()?,
            psdn_address: PSDNAddress::try_from(f.s("psdn_address")?).map_err(uncon)?,
        }),
        20 => RR::ISDN(ISDN {
            domain_name: h.name()?,
            ttl: h.ttl()?,
            class: h.class()?,
            isdn_address: ISDNAddress::try_from(f.s("isdn_address")?).map_err(uncon)?,
            sa: match f.o("sa")? {
                None => None,
                Some(b) => Some(SA::try_from(fit_string(&b)?).map_err(uncon)?),
            },
        }),
        21 => RR::RT(RT {
            domain_name: h.name()?,
            ttl: h.ttl()?,
            class: h.class()?,
            preference: f.u16("preference")?,
            intermediate_host: f.d("intermediate_host")?,
        }),
        22 => RR::NSAP(NSAP {
            domain_name: h.name()?,
            ttl: h.ttl()?,
            class: h.class()?,
            data: f.h("data")?,
        }),
        26 => RR::PX(PX {
            domain_name: h.name()?,
            ttl: h.ttl()?,
            class: h.class()?,
            preference: f.u16("preference")?,
            map822: f.d("map822")?,
            mapx400: f.d("mapx400")?,
        }),
        27 => RR::GPOS(GPOS {
            domain_name: h.name()?,
            ttl: h.ttl()?,
            class: h.class()?,
            longitude: f.s("longitude")?,
            latitude: f.s("latitude")?,
            altitude: f.s("altitude")?,
        }),
        28 => {
            h.class_in()?;
            RR::AAAA(AAAA {
                domain_name: h.name()?,
                ttl: h.ttl()?,
                ipv6_addr: build_ipv6(&f.h("ipv6_addr")?)?,
            })
        }
        29 => RR::LOC(LOC {
            domain_name: h.name()?,
            ttl: h.ttl()?,
            class: h.class()?,
            version: f.u8("version")?,
            size: f.u8("size")?,
            horiz_pre: f.u8("horiz_pre")?,
            vert_pre: f.u8("vert_pre")?,
            latitube: f.u32("latitube")?,
            longitube: f.u32("longitube")?,
            altitube: f.u32("altitube")?,
        }),
        31 => RR::EID(EID {
            domain_name: h.name()?,
            ttl: h.ttl()?,
            class: h.class()?,
            data: f.h("data")?,
        }),
        32 => RR::NIMLOC(NIMLOC {
            domain_name: h.name()?,
            ttl: h.ttl()?,
            class: h.class()?,
            data: f.h("data")?,
        }),
        33 => RR::SRV(SRV {
            domain_name: h.name()?,
            ttl: h.ttl()?,
            class: h.class()?,
            priority: f.u16("priority")?,
            weight: f.u16("weight")?,
            port: f.u16("port")?,
            target: f.d("target")?,
        }),
        36 => RR::KX(KX {
            domain_name: h.name()?,
            ttl: h.ttl()?,
            class: h.class()?,
            preference: f.u16("preference")?,
            exchanger: f.d("exchanger")?,
        }),
        39 => RR::DNAME(DNAME {
            domain_name: h.name()?,
            ttl: h.ttl()?,
            class: h.class()?,
            target: f.d("target")?,
        }),
        41 => {
            // name / ttl / class tokens are ignored for OPT
            let requestor_payload_size = f.u16("requestor_payload_size")?;
            let extend_rcode = f.u8("extend_rcode")?;
            let version = f.u8("version")?;
            let dnssec = f.b("dnssec")?;
            let mut edns_options = Vec::new();
            for item in f.l("edns_options")? {
                edns_options.push(build_option(item)?);
            }
            RR::OPT(OPT {
                requestor_payload_size,
                extend_rcode,
                version,
                dnssec,
                edns_options,
            })
        }
        42 => {
            h.class_in()?;
            let mut apitems = Vec::new();
            for item in f.l("apitems")? {
                apitems.push(build_apitem(item)?);
            }
            RR::APL(APL {
                domain_name: h.name()?,
                ttl: h.ttl()?,
                apitems,
            })
        }
        43 => RR::DS(DS {
            domain_name: h.name()?,
            ttl: h.ttl()?,
            class: h.class()?,
            key_tag: f.u16("key_tag")?,
            algorithm_type: AlgorithmType::try_from(f.u8("algorithm_type")?).map_err(uncon)?,
            digest_type: DigestType::try_from(f.u8("digest_type")?).map_err(uncon)?,
            digest: f.h("digest")?,
        }),
        44 => RR::SSHFP(SSHFP {
            domain_name: h.name()?,
            ttl: h.ttl()?,
            class: h.class()?,
            algorithm: SSHFPAlgorithm::try_from(f.u8("algorithm")?).map_err(uncon)?,
            type_: SSHFPType::try_from(f.u8("type_")?).map_err(uncon)?,
            fp: f.h("fp")?,
        }),
        48 => {
            let (zone_key_flag, secure_entry_point_flag) = match f.n("flags")? {
                0 => (false, false),
                1 => (false, true),
                256 => (true, false),
                257 => (true, true),
                _ => return Err(PErr::Uncon),
            };
            if f.n("protocol")? != 3 {
                return Err(PErr::Uncon);
            }
            RR::DNSKEY(DNSKEY {
                domain_name: h.name()?,
                ttl: h.ttl()?,
                class: h.class()?,
                zone_key_flag,
                secure_entry_point_flag,
                algorithm_type: AlgorithmType::try_from(f.u8("algorithm_type")?).map_err(uncon)?,
                public_key: f.h("public_key")?,
            })
        }
        64 => RR::SVCB(build_service_binding(&h, f, false)?),
        65 => RR::HTTPS(build_service_binding(&h, f, true)?),
        104 => RR::NID(NID {
            domain_name: h.name()?,
            ttl: h.ttl()?,
            class: h.class()?,
            preference: f.u16("preference")?,
            node_id: f.u64("node_id")?,
        }),
        105 => RR::L32(L32 {
            domain_name: h.name()?,
            ttl: h.ttl()?,
            class: h.class()?,
            preference: f.u16("preference")?,
            locator_32: f.u32("locator_32")?,
        }),
        106 => RR::L64(L64 {
            domain_name: h.name()?,
            ttl: h.ttl()?,
            class: h.class()?,
            preference: f.u16("preference")?,
            locator_64: f.u64("locator_64")?,
        }),
        107 => RR::LP(LP {
            domain_name: h.name()?,
            ttl: h.ttl()?,
            class: h.class()?,
            preference: f.u16("preference")?,
            fqdn: f.d("fqdn")?,
        }),
        108 => RR::EUI48(EUI48 {
            domain_name: h.name()?,
            ttl: h.ttl()?,
            class: h.class()?,
            eui_48: fit_array::<6>(&f.h("eui_48")?)?,
        }),
        109 => RR::EUI64(EUI64 {
            domain_name: h.name()?,
            ttl: h.ttl()?,
            class: h.class()?,
            eui_64: fit_array::<8>(&f.h("eui_64")?)?,
        }),
        256 => RR::URI(URI {
            domain_name: h.name()?,
            ttl: h.ttl()?,
            class: h.class()?,
            priority: f.u16("priority")?,
            weight: f.u16("weight")?,
            uri: f.s("uri")?,
        }),
        257 => RR::CAA(CAA {
            domain_name: h.name()?,
            ttl: h.ttl()?,
            class: h.class()?,
            flags: f.u8("flags")?,
            tag: Tag::try_from(f.s("tag")?).map_err(uncon)?,
            value: f.h("value")?,
        }),
        _ => return Err(PErr::Uncon),
    };
    f.end()?;
    Ok(rr)
}

pub fn build_msg(a: &MsgAst) -> PResult<Dns> {
    Ok(Dns {
        id: fit_u16(a.id)?,
        flags: build_flags(&a.flags)?,
        questions: a.questions.iter().map(build_question).collect::<PResult<_>>()?,
        answers: a.answers.iter().map(build_rr).collect::<PResult<_>>()?,
        authorities: a.authorities.iter().map(build_rr).collect::<PResult<_>>()?,
        additionals: a.additionals.iter().map(build_rr).collect::<PResult<_>>()?,
    })
}

// ---------------------------------------------------------------------------------------------
// Printer
// ---------------------------------------------------------------------------------------------

/// The labels of a name, byte-exact. The labels are not publicly iterable, so the name is
/// encoded with a fresh encoder (no compression possible) and the wire form is split.
pub fn name_labels(name: &DomainName) -> Vec<Vec<u8>> {
    let wire = name.encode().expect("DomainName::encode failed");
    let mut labels = Vec::new();
    let mut i = 0usize;
    loop {
        let len = wire[i] as usize;
        i += 1;
        if len == 0 {
            break;
        }
        assert!(len < 64, "unexpected length octet in an uncompressed name");
        labels.push(wire[i..i + len].to_vec());
        i += len;
    }
    assert!(i == wire.len(), "trailing octets after the root label");
    labels
}

/// (family number, all 4 or 16 octets as hex)
pub fn address_parts(address: &Address) -> (u16, String) {
    let fam = address.get_address_family_number() as u16;
    match address {
        Address::Ipv4(a) => (fam, hex_raw(&a.octets())),
        Address::Ipv6(a) => (fam, hex_raw(&a.octets())),
    }
}

pub fn ecs_text(e: &ECS) -> String {
    let (fam, addr) = address_parts(e.get_address());
    format!(
        "{}/{}/{}/{}",
        fam,
        e.get_source_prefix_length(),
        e.get_scope_prefix_length(),
        addr
    )
}

pub fn apitem_text(i: &APItem) -> String {
    let (fam, addr) = address_parts(i.get_address());
    format!("{}/{}/{}/{}", fam, i.get_prefix(), i.negation as u8, addr)
}

pub fn cookie_text(c: &Cookie) -> String {
    let server = match c.get_server_cookie() {
        None => "none".to_string(),
        Some(s) => hex(s),
    };
    format!("{}/{}", hex_raw(&c.client_cookie), server)
}

fn option_text(o: &EDNSOption) -> String {
    match o {
        EDNSOption::ECS(e) => format!("ecs:{}", ecs_text(e)),
        EDNSOption::Cookie(c) => format!("cookie:{}", cookie_text(c)),
        EDNSOption::Padding(p) => format!("pad:{}", p.0),
    }
}

fn counted<I: Iterator<Item = String>>(prefix: &str, items: I) -> String {
    let items: Vec<String> = items.collect();
    let mut s = format!("{}:{}", prefix, items.len());
    for i in items {
        s.push(',');
        s.push_str(&i);
    }
    s
}

fn param_text(p: &ServiceParameter, abs: bool) -> String {
    match p {
        ServiceParameter::MANDATORY { key_ids } => {
            // the abstraction used by `rt.dns` treats `mandatory` as a set (sorted list)
            let mut key_ids = key_ids.clone();
            if abs {
                key_ids.sort_unstable();
            }
            counted("mandatory", key_ids.iter().map(|k| k.to_string()))
        }
        ServiceParameter::ALPN { alpn_ids } => {
            counted("alpn", alpn_ids.iter().map(|a| hex(a.as_bytes())))
        }
        ServiceParameter::NO_DEFAULT_ALPN => "nodefaultalpn".to_string(),
        ServiceParameter::PORT { port } => format!("port:{}", port),
        ServiceParameter::IPV4_HINT { hints } => {
            counted("ipv4hint", hints.iter().map(|h| hex_raw(&h.octets())))
        }
        ServiceParameter::ECH { config_list } => format!("ech:{}", hex(config_list)),
        ServiceParameter::IPV6_HINT { hints } => {
            counted("ipv6hint", hints.iter().map(|h| hex_raw(&h.octets())))
        }
        ServiceParameter::PRIVATE { number, wire_data } => {
            format!("key{}:{}", number, hex(wire_data))
        }
        ServiceParameter::KEY_65535 => "key65535".to_string(),
    }
}

pub struct Canon {
    /// Lower-case ASCII A-Z inside names (only used by the `rt.dns` comparison).
    pub lower: bool,
}

/// Field writer for one RR.
struct W<'c> {
    c: &'c Canon,
    nfields: usize,
    toks: Vec<String>,
}

impl<'c> W<'c> {
    fn n(&mut self, name: &str, v: u64) {
        self.nfields += 1;
        self.toks.push(format!("{}=n:{}", name, v));
    }
    fn d(&mut self, name: &str, v: &DomainName) {
        self.nfields += 1;
        self.toks.push(format!("{}=d:{}", name, self.c.name(v)));
    }
    fn h(&mut self, name: &str, v: &[u8]) {
        self.nfields += 1;
        self.toks.push(format!("{}=h:{}", name, hex(v)));
    }
    fn o(&mut self, name: &str, v: Option<&[u8]>) {
        self.nfields += 1;
        match v {
            None => self.toks.push(format!("{}=o:none", name)),
            Some(b) => self.toks.push(format!("{}=o:{}", name, hex(b))),
        }
    }
    fn l(&mut self, name: &str, items: Vec<String>) {
        self.nfields += 1;
        self.toks.push(format!("{}=L:{}", name, items.len()));
        self.toks.extend(items);
    }
}

impl Canon {
    pub fn name(&self, name: &DomainName) -> String {
        let labels = name_labels(name);
        if labels.is_empty() {
            return ".".to_string();
        }
        let mut parts = Vec::with_capacity(labels.len());
        for mut l in labels {
            if self.lower {
                l.make_ascii_lowercase();
            }
            parts.push(hex_raw(&l));
        }
        parts.join(".")
    }

    pub fn flags(&self, f: &Flags) -> String {
        format!(
            "F {} {} {} {} {} {} {} {} {}",
            f.qr as u8,
            f.opcode as u8,
            f.aa as u8,
            f.tc as u8,
            f.rd as u8,
            f.ra as u8,
            f.ad as u8,
            f.cd as u8,
            f.rcode as u8
        )
    }

    pub fn question(&self, q: &Question) -> String {
        format!(
            "Q {} {} {}",
            self.name(&q.domain_name),
            q.q_type as u16,
            q.q_class as u16
        )
    }

    pub fn rr(&self, rr: &RR) -> String {
        let mut w = W {
            c: self,
            nfields: 0,
            toks: Vec::new(),
        };
        let w = &mut w;
        const IN: u16 = 1; // printed for the types without a class field
        // One arm per RR variant: (TYPE code, owner, ttl, class) and the fields in table order.
        let (type_, owner, ttl, class): (u16, Option<&DomainName>, Option<u32>, Option<u16>) =
            match rr {
                RR::A(r) => {
                    w.h("ipv4_addr", &r.ipv4_addr.octets());
                    (Type::A as u16, Some(&r.domain_name), Some(r.ttl), Some(IN))
                }
                RR::NS(r) => {
                    w.d("ns_d_name", &r.ns_d_name);
                    (Type::NS as u16, Some(&r.domain_name), Some(r.ttl), Some(r.class as u16))
                }
                RR::MD(r) => {
                    w.d("mad_name", &r.mad_name);
                    (Type::MD as u16, Some(&r.domain_name), Some(r.ttl), Some(r.class as u16))
                }
                RR::MF(r) => {
                    w.d("mad_name", &r.mad_name);
                    (Type::MF as u16, Some(&r.domain_name), Some(r.ttl), Some(r.class as u16))
                }
                RR::CNAME(r) => {
                    w.d("c_name", &r.c_name);
                    (Type::CNAME as u16, Some(&r.domain_name), Some(r.ttl), Some(r.class as u16))
                }
                RR::SOA(r) => {
                    w.d("m_name", &r.m_name);
                    w.d("r_name", &r.r_name);
                    w.n("serial", r.serial as u64);
                    w.n("refresh", r.refresh as u64);
                    w.n("retry", r.retry as u64);
                    w.n("expire", r.expire as u64);
                    w.n("min_ttl", r.min_ttl as u64);
                    (Type::SOA as u16, Some(&r.domain_name), Some(r.ttl), Some(r.class as u16))
                }
                RR::MB(r) => {
                    w.d("mad_name", &r.mad_name);
                    (Type::MB as u16, Some(&r.domain_name), Some(r.ttl), Some(r.class as u16))
                }
                RR::MG(r) => {
                    w.d("mgm_name", &r.mgm_name);
                    (Type::MG as u16, Some(&r.domain_name), Some(r.ttl), Some(r.class as u16))
                }
                RR::MR(r) => {
                    w.d("new_name", &r.new_name);
                    (Type::MR as u16, Some(&r.domain_name), Some(r.ttl), Some(r.class as u16))
                }
                RR::NULL(r) => {
                    w.h("data", &r.data);
                    (Type::NULL as u16, Some(&r.domain_name), Some(r.ttl), Some(r.class as u16))
                }
                RR::WKS(r) => {
                    w.h("ipv4_addr", &r.ipv4_addr.octets());
                    w.n("protocol", r.protocol as u64);
                    w.h("bit_map", &r.bit_map);
                    (Type::WKS as u16, Some(&r.domain_name), Some(r.ttl), Some(IN))
                }
                RR::PTR(r) => {
                    w.d("ptr_d_name", &r.ptr_d_name);
                    (Type::PTR as u16, Some(&r.domain_name), Some(r.ttl), Some(r.class as u16))
                }
                RR::HINFO(r) => {
                    w.h("cpu", r.cpu.as_bytes());
                    w.h("os", r.os.as_bytes());
                    (Type::HINFO as u16, Some(&r.domain_name), Some(r.ttl), Some(r.class as u16))
                }
                RR::MINFO(r) => {
                    w.d("r_mail_bx", &r.r_mail_bx);
                    w.d("e_mail_bx", &r.e_mail_bx);
                    (Type::MINFO as u16, Some(&r.domain_name), Some(r.ttl), Some(r.class as u16))
                }
                RR::MX(r) => {
                    w.n("preference", r.preference as u64);
                    w.d("exchange", &r.exchange);
                    (Type::MX as u16, Some(&r.domain_name), Some(r.ttl), Some(r.class as u16))
                }
                RR::TXT(r) => {
                    w.l("strings", r.strings.iter().map(|s| hex(s.as_bytes())).collect());
                    (Type::TXT as u16, Some(&r.domain_name), Some(r.ttl), Some(r.class as u16))
                }
                RR::RP(r) => {
                    w.d("mbox_dname", &r.mbox_dname);
                    w.d("txt_dname", &r.txt_dname);
                    (Type::RP as u16, Some(&r.domain_name), Some(r.ttl), Some(r.class as u16))
                }
                RR::AFSDB(r) => {
                    w.n("subtype", r.subtype as u16 as u64);
                    w.d("hostname", &r.hostname);
                    (Type::AFSDB as u16, Some(&r.domain_name), Some(r.ttl), Some(r.class as u16))
                }
                RR::X25(r) => {
                    w.h("psdn_address", r.psdn_address.as_bytes());
                    (Type::X25 as u16, Some(&r.domain_name), Some(r.ttl), Some(r.class as u16))
                }
                RR::ISDN(r) => {
                    w.h("isdn_address", r.isdn_address.as_bytes());
                    w.o("sa", r.sa.as_ref().map(|sa| sa.as_bytes()));
                    (Type::ISDN as u16, Some(&r.domain_name), Some(r.ttl), Some(r.class as u16))
                }
                RR::RT(r) => {
                    w.n("preference", r.preference as u64);
                    w.d("intermediate_host", &r.intermediate_host);
                    (Type::RT as u16, Some(&r.domain_name), Some(r.ttl), Some(r.class as u16))
                }
                RR::NSAP(r) => {
                    w.h("data", &r.data);
                    (Type::NSAP as u16, Some(&r.domain_name), Some(r.ttl), Some(r.class as u16))
                }
                RR::PX(r) => {
                    w.n("preference", r.preference as u64);
                    w.d("map822", &r.map822);
                    w.d("mapx400", &r.mapx400);
                    (Type::PX as u16, Some(&r.domain_name), Some(r.ttl), Some(r.class as u16))
                }
                RR::GPOS(r) => {
                    w.h("longitude", r.longitude.as_bytes());
                    w.h("latitude", r.latitude.as_bytes());
                    w.h("altitude", r.altitude.as_bytes());
                    (Type::GPOS as u16, Some(&r.domain_name), Some(r.ttl), Some(r.class as u16))
                }
                RR::AAAA(r) => {
                    w.h("ipv6_addr", &r.ipv6_addr.octets());
                    (Type::AAAA as u16, Some(&r.domain_name), Some(r.ttl), Some(IN))
                }
                RR::LOC(r) => {
                    w.n("version", r.version as u64);
                    w.n("size", r.size as u64);
                    w.n("horiz_pre", r.horiz_pre as u64);
                    w.n("vert_pre", r.vert_pre as u64);
                    w.n("latitube", r.latitube as u64);
                    w.n("longitube", r.longitube as u64);
                    w.n("altitube", r.altitube as u64);
                    (Type::LOC as u16, Some(&r.domain_name), Some(r.ttl), Some(r.class as u16))
                }
                RR::EID(r) => {
                    w.h("data", &r.data);
                    (Type::EID as u16, Some(&r.domain_name), Some(r.ttl), Some(r.class as u16))
                }
                RR::NIMLOC(r) => {
                    w.h("data", &r.data);
                    (Type::NIMLOC as u16, Some(&r.domain_name), Some(r.ttl), Some(r.class as u16))
                }
                RR::SRV(r) => {
                    w.n("priority", r.priority as u64);
                    w.n("weight", r.weight as u64);
                    w.n("port", r.port as u64);
                    w.d("target", &r.target);
                    (Type::SRV as u16, Some(&r.domain_name), Some(r.ttl), Some(r.class as u16))
                }
                RR::KX(r) => {
                    w.n("preference", r.preference as u64);
                    w.d("exchanger", &r.exchanger);
                    (Type::KX as u16, Some(&r.domain_name), Some(r.ttl), Some(r.class as u16))
                }
                RR::DNAME(r) => {
                    w.d("target", &r.target);
                    (Type::DNAME as u16, Some(&r.domain_name), Some(r.ttl), Some(r.class as u16))
                }
                RR::OPT(r) => {
                    w.n("requestor_payload_size", r.requestor_payload_size as u64);
                    w.n("extend_rcode", r.extend_rcode as u64);
                    w.n("version", r.version as u64);
                    w.n("dnssec", r.dnssec as u64);
                    w.l("edns_options", r.edns_options.iter().map(option_text).collect());
                    (Type::OPT as u16, None, None, None)
                }
                RR::APL(r) => {
                    w.l("apitems", r.apitems.iter().map(apitem_text).collect());
                    (Type::APL as u16, Some(&r.domain_name), Some(r.ttl), Some(IN))
                }
                RR::DS(r) => {
                    w.n("key_tag", r.key_tag as u64);
                    w.n("algorithm_type", r.algorithm_type as u8 as u64);
                    w.n("digest_type", r.digest_type as u8 as u64);
                    w.h("digest", &r.digest);
                    (Type::DS as u16, Some(&r.domain_name), Some(r.ttl), Some(r.class as u16))
                }
                RR::SSHFP(r) => {
                    w.n("algorithm", r.algorithm as u8 as u64);
                    w.n("type_", r.type_ as u8 as u64);
                    w.h("fp", &r.fp);
                    (Type::SSHFP as u16, Some(&r.domain_name), Some(r.ttl), Some(r.class as u16))
                }
                RR::DNSKEY(r) => {
                    // computed from the two public bools, NOT via get_flags()
                    let flags = 256 * (r.zone_key_flag as u64) + (r.secure_entry_point_flag as u64);
                    w.n("flags", flags);
                    w.n("protocol", 3);
                    w.n("algorithm_type", r.algorithm_type as u8 as u64);
                    w.h("public_key", &r.public_key);
                    (Type::DNSKEY as u16, Some(&r.domain_name), Some(r.ttl), Some(r.class as u16))
                }
                RR::SVCB(r) => {
                    w.n("priority", r.priority as u64);
                    w.d("target_name", &r.target_name);
                    w.l("parameters", r.parameters.iter().map(|p| param_text(p, self.lower)).collect());
                    (Type::SVCB as u16, Some(&r.name), Some(r.ttl), Some(IN))
                }
                RR::HTTPS(r) => {
                    w.n("priority", r.priority as u64);
                    w.d("target_name", &r.target_name);
                    w.l("parameters", r.parameters.iter().map(|p| param_text(p, self.lower)).collect());
                    (Type::HTTPS as u16, Some(&r.name), Some(r.ttl), Some(IN))
                }
                RR::NID(r) => {
                    w.n("preference", r.preference as u64);
                    w.n("node_id", r.node_id);
                    (Type::NID as u16, Some(&r.domain_name), Some(r.ttl), Some(r.class as u16))
                }
                RR::L32(r) => {
                    w.n("preference", r.preference as u64);
                    w.n("locator_32", r.locator_32 as u64);
                    (Type::L32 as u16, Some(&r.domain_name), Some(r.ttl), Some(r.class as u16))
                }
                RR::L64(r) => {
                    w.n("preference", r.preference as u64);
                    w.n("locator_64", r.locator_64);
                    (Type::L64 as u16, Some(&r.domain_name), Some(r.ttl), Some(r.class as u16))
                }
                RR::LP(r) => {
                    w.n("preference", r.preference as u64);
                    w.d("fqdn", &r.fqdn);
                    (Type::LP as u16, Some(&r.domain_name), Some(r.ttl), Some(r.class as u16))
                }
                RR::EUI48(r) => {
                    w.h("eui_48", &r.eui_48);
                    (Type::EUI48 as u16, Some(&r.domain_name), Some(r.ttl), Some(r.class as u16))
                }
                RR::EUI64(r) => {
                    w.h("eui_64", &r.eui_64);
                    (Type::EUI64 as u16, Some(&r.domain_name), Some(r.ttl), Some(r.class as u16))
                }
                RR::URI(r) => {
                    w.n("priority", r.priority as u64);
                    w.n("weight", r.weight as u64);
                    w.h("uri", r.uri.as_bytes());
                    (Type::URI as u16, Some(&r.domain_name), Some(r.ttl), Some(r.class as u16))
                }
                RR::CAA(r) => {
                    w.n("flags", r.flags as u64);
                    w.h("tag", r.tag.as_ref().as_bytes());
                    w.h("value", &r.value);
                    (Type::CAA as u16, Some(&r.domain_name), Some(r.ttl), Some(r.class as u16))
                }
            };
        // C03: "each record's TTL/class/type accessors agree with its wire header": the printed ttl / class come
        // from the struct fields; the public accessors must report the same (a disagreement becomes visible as
        // an extra token that the model never prints)
        let accessor_ttl = rr.get_ttl();
        let accessor_class = rr.get_class().map(|c| c as u16);
        // the struct-level `ToType::to_type()` accessor must name the TYPE of the variant the record was decoded into
        let accessor_type = rr_to_type(rr) as u16;
        let accessors_agree =
            accessor_ttl == ttl && accessor_class == class && accessor_type == type_;
        let mut out = format!(
            "RR {} {} {} {} {}",
            type_,
            match owner {
                Some(n) => self.name(n),
                None => ".".to_string(),
            },
            match ttl {
                Some(t) => t.to_string(),
                None => "-".to_string(),
            },
            match class {
                Some(c) => c.to_string(),
                None => "-".to_string(),
            },
            w.nfields
        );
        for t in &w.toks {
            out.push(' ');
            out.push_str(t);
        }
        if !accessors_agree {
            out.push_str(&format!(
                " ACCESSOR-MISMATCH get_ttl={:?} get_class={:?} to_type={}",
                accessor_ttl, accessor_class, accessor_type
            ));
        }
        out
    }

    pub fn msg(&self, dns: &Dns) -> String {
        let mut out = format!(
            "M {} {} {} {} {} {}",
            dns.id,
            self.flags(&dns.flags),
            dns.questions.len(),
            dns.answers.len(),
            dns.authorities.len(),
            dns.additionals.len()
        );
        for q in &dns.questions {
            out.push(' ');
            out.push_str(&self.question(q));
        }
        for rr in dns
            .answers
            .iter()
            .chain(dns.authorities.iter())
            .chain(dns.additionals.iter())
        {
            out.push(' ');
            out.push_str(&self.rr(rr));
        }
        out
    }
}

/// `ToType::to_type()` of the struct inside each `RR` variant (C03: the type accessor agrees with the wire header).
pub fn rr_to_type(rr: &RR) -> Type {
    use dns_message_parser::rr::ToType;
    match rr {
        RR::A(r) => r.to_type(),
        RR::NS(r) => r.to_type(),
        RR::MD(r) => r.to_type(),
        RR::MF(r) => r.to_type(),
        RR::CNAME(r) => r.to_type(),
        RR::SOA(r) => r.to_type(),
        RR::MB(r) => r.to_type(),
        RR::MG(r) => r.to_type(),
        RR::MR(r) => r.to_type(),
        RR::NULL(r) => r.to_type(),
        RR::WKS(r) => r.to_type(),
        RR::PTR(r) => r.to_type(),
        RR::HINFO(r) => r.to_type(),
        RR::MINFO(r) => r.to_type(),
        RR::MX(r) => r.to_type(),
        RR::TXT(r) => r.to_type(),
        RR::RP(r) => r.to_type(),
        RR::AFSDB(r) => r.to_type(),
        RR::X25(r) => r.to_type(),
        RR::ISDN(r) => r.to_type(),
        RR::RT(r) => r.to_type(),
        RR::NSAP(r) => r.to_type(),
        RR::PX(r) => r.to_type(),
        RR::GPOS(r) => r.to_type(),
        RR::AAAA(r) => r.to_type(),
        RR::LOC(r) => r.to_type(),
        RR::NIMLOC(r) => r.to_type(),
        RR::SRV(r) => r.to_type(),
        RR::KX(r) => r.to_type(),
        RR::DNAME(r) => r.to_type(),
        RR::OPT(r) => r.to_type(),
        RR::APL(r) => r.to_type(),
        RR::SSHFP(r) => r.to_type(),
        RR::URI(r) => r.to_type(),
        RR::EID(r) => r.to_type(),
        RR::NID(r) => r.to_type(),
        RR::L32(r) => r.to_type(),
        RR::L64(r) => r.to_type(),
        RR::LP(r) => r.to_type(),
        RR::EUI48(_) => Type::EUI48, // no `ToType` impl in the crate
        RR::EUI64(_) => Type::EUI64, // no `ToType` impl in the crate
        RR::DS(_) => Type::DS, // no `ToType` impl in the crate
        RR::DNSKEY(_) => Type::DNSKEY, // no `ToType` impl in the crate
        RR::CAA(r) => r.to_type(),
        RR::SVCB(r) => r.to_type(),
        RR::HTTPS(r) => r.to_type(),
    }
}
