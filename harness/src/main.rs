//! `harness run`: one op line in (stdin), exactly one result line out (stdout). See PROTOCOL.md.

mod alloc_count;
mod canon;
mod ops;

use canon::{PErr, Toks};
use dns_message_parser::verif::verif_reset;
use std::io::{BufRead, BufReader, BufWriter, Write};
use std::panic::{catch_unwind, AssertUnwindSafe};

const BUDGET_PANIC_PREFIX: &str = "verif: octet budget exceeded";

/// Run one op line (without its line terminator) and return the result line.
fn run_line(raw: &[u8]) -> String {
    // Everything is ASCII; anything that is not even UTF-8 is a broken line.
    let line = match std::str::from_utf8(raw) {
        Ok(l) => l,
        Err(_) => return "bad-op".to_string(),
    };
    let result = catch_unwind(AssertUnwindSafe(|| {
        let mut toks = Toks::new(line)?;
        let op = toks.next()?;
        ops::dispatch(op, &mut toks)
    }));
    // never leave a budget armed for the next op
    verif_reset(None);
    match result {
        Ok(Ok(out)) => out,
        Ok(Err(PErr::Bad)) => "bad-op".to_string(),
        Ok(Err(PErr::Uncon)) => "unconstructible".to_string(),
        Err(payload) => panic_line(payload.as_ref()).to_string(),
    }
}

/// `panic budget` if the panic message starts with the octet-budget prefix, `panic` otherwise.
fn panic_line(payload: &(dyn std::any::Any + Send)) -> &'static str {
    let msg: &str = if let Some(s) = payload.downcast_ref::<&'static str>() {
        s
    } else if let Some(s) = payload.downcast_ref::<String>() {
        s.as_str()
    } else {
        ""
    };
    if msg.starts_with(BUDGET_PANIC_PREFIX) {
        "panic budget"
    } else {
        "panic"
    }
}

fn run() -> std::io::Result<()> {
    std::panic::set_hook(Box::new(|_| {}));
    let stdin = std::io::stdin();
    let mut input = BufReader::with_capacity(1 << 16, stdin.lock());
    let stdout = std::io::stdout();
    let mut output = BufWriter::with_capacity(1 << 16, stdout.lock());
    let mut buf: Vec<u8> = Vec::new();
    loop {
        buf.clear();
        if input.read_until(b'\n', &mut buf)? == 0 {
            break;
        }
        if buf.last() == Some(&b'\n') {
            buf.pop();
        }
        let out = run_line(&buf);
        output.write_all(out.as_bytes())?;
        output.write_all(b"\n")?;
        // Batch input stays fully buffered; a driver that waits for each answer before sending
        // the next line still gets it (nothing more is pending in the input buffer).
        if input.buffer().is_empty() {
            output.flush()?;
        }
    }
    output.flush()
}

fn main() {
    let args: Vec<String> = std::env::args().collect();
    if args.len() == 2 && args[1] == "run" {
        if let Err(e) = run() {
            // a closed stdout (e.g. `| head`) is not worth a panic
            eprintln!("harness: {}", e);
            std::process::exit(1);
        }
    } else {
        eprintln!("usage: harness run   (op lines on stdin, one result line per op on stdout)");
        std::process::exit(2);
    }
}

#[cfg(test)]
mod tests {
    use super::*;
    use dns_message_parser::verif::verif_reset;

    fn caught(f: impl FnOnce()) -> &'static str {
        std::panic::set_hook(Box::new(|_| {}));
        let e = catch_unwind(AssertUnwindSafe(f)).unwrap_err();
        panic_line(e.as_ref())
    }

    #[test]
    fn panic_classification() {
        assert_eq!(caught(|| panic!("boom")), "panic");
        assert_eq!(caught(|| panic!("boom {}", 1)), "panic");
        // the real budget panic of the crate: budget 1 octet, decode 2 octets
        assert_eq!(
            caught(|| {
                verif_reset(Some(1));
                let _ = dns_message_parser::Flags::decode(bytes::Bytes::from_static(b"\x00\x00"));
            }),
            "panic budget"
        );
        verif_reset(None);
    }

    #[test]
    fn lines() {
        assert_eq!(run_line(b""), "bad-op");
        assert_eq!(run_line(b"\xff"), "bad-op");
        assert_eq!(run_line(b"dec.flags 8580"), "ok F 1 0 1 0 1 1 0 0 0 cost=2");
    }
}
