//! `harness run`: one op line in (stdin), exactly one result line out (stdout). See PROTOCOL.md.

mod canon;
mod ops;

use canon::{PErr, Toks};
use dns_message_parser::verif::verif_reset;
use std::io::{BufRead, BufReader, BufWriter, Write};
use std::panic::{catch_unwind, AssertUnwindSafe};

const BUDGET_PANIC_PREFIX: &str = "verif: octet budget exceeded";

/// Run one op line (without its line terminator) and return the result line.
fn run_line(raw: &[u8]) -> String {
    // Everything is ASCII; anything that is not even UTF-8 is a broken line.
    let line = match std::str::from_utf8(raw) {
        Ok(l) => l,
        Err(_) => return "bad-op".to_string(),
    };
    let result = catch_unwind(AssertUnwindSafe(|| {
        let mut toks = Toks::new(line)?;
        let op = toks.next()?;
        ops::dispatch(op, &mut toks)
    }));
    // never leave a budget armed for the next op
    verif_reset(None);
    match result {
        Ok(Ok(out)) => out,
        Ok(Err(PErr::Bad)) => "bad-op".to_string(),
        Ok(Err(PErr::Uncon)) => "unconstructible".to_string(),
        Err(payload) => {
            let msg: &str = if let Some(s) = payload.downcast_ref::<&'static str>() {
                s
            } else if let Some(s) = payload.downcast_ref::<String>() {
                s.as_str()
            } else {
                ""
            };
            if msg.starts_with(BUDGET_PANIC_PREFIX) {
                "panic budget".to_string()
            } else {
                "panic".to_string()
            }
        }
    }
}

fn run() -> std::io::Result<()> {
    std::panic::set_hook(Box::new(|_| {}));
    let stdin = std::io::stdin();
    let mut input = BufReader::with_capacity(1 << 16, stdin.lock());
    let stdout = std::io::stdout();
    let mut output = BufWriter::with_capacity(1 << 16, stdout.lock());
    let mut buf: Vec<u8> = Vec::new();
    loop {
        buf.clear();
        if input.read_until(b'\n', &mut buf)? == 0 {
            break;
        }
        if buf.last() == Some(&b'\n') {
            buf.pop();
        }
        let out = run_line(&buf);
        output.write_all(out.as_bytes())?;
        output.write_all(b"\n")?;
        // Batch input stays fully buffered; a driver that waits for each answer before sending
        // the next line still gets it (nothing more is pending in the input buffer).
        if input.buffer().is_empty() {
            output.flush()?;
        }
    }
    output.flush()
}

fn main() {
    let args: Vec<String> = std::env::args().collect();
    if args.len() == 2 && args[1] == "run" {
        if let Err(e) = run() {
            // a closed stdout (e.g. `| head`) is not worth a panic
            eprintln!("harness: {}", e);
            std::process::exit(1);
        }
    } else {
        eprintln!("usage: harness run   (op lines on stdin, one result line per op on stdout)");
        std::process::exit(2);
    }
}
