//! Counting global allocator: the number of octets requested from the allocator by the current thread since the last
//! reset. `dec.*` ops use it to bound the MEMORY TRAFFIC of one decode call by a multiple of the input length (C07:
//! "cannot make decoding … blow up"): work that does not go through `Decoder::read` (copying the message for every
//! pointer, pre-allocating from an announced count, …) is invisible to the octet counter of the `verif` hook but not here.
//! Deterministic: the same code requests the same sizes on every run.

use std::alloc::{GlobalAlloc, Layout, System};
use std::cell::Cell;

pub struct Counting;

thread_local! {
    static BYTES: Cell<u64> = const { Cell::new(0) };
}

unsafe impl GlobalAlloc for Counting {
    unsafe fn alloc(&self, layout: Layout) -> *mut u8 {
        let _ = BYTES.try_with(|b| b.set(b.get().saturating_add(layout.size() as u64)));
        System.alloc(layout)
    }
    unsafe fn dealloc(&self, ptr: *mut u8, layout: Layout) {
        System.dealloc(ptr, layout)
    }
    unsafe fn alloc_zeroed(&self, layout: Layout) -> *mut u8 {
        let _ = BYTES.try_with(|b| b.set(b.get().saturating_add(layout.size() as u64)));
        System.alloc_zeroed(layout)
    }
    unsafe fn realloc(&self, ptr: *mut u8, layout: Layout, new_size: usize) -> *mut u8 {
        let _ = BYTES.try_with(|b| b.set(b.get().saturating_add(new_size as u64)));
        System.realloc(ptr, layout, new_size)
    }
}

#[global_allocator]
static GLOBAL: Counting = Counting;

pub fn reset() {
    BYTES.with(|b| b.set(0));
}

pub fn taken() -> u64 {
    BYTES.with(|b| b.get())
}

/// Allocation budget of one decode call on `len` input octets (see DESIGN.md, C07): linear in the input
/// (measured on the unchanged crate over all streams: at most 130 octets per input octet apart from the four
/// `Vec::with_capacity(count)` of the message decoder, which `dec.dns` accounts for separately from the announced counts).
pub fn budget(len: usize) -> u64 {
    ALLOC_PER_OCTET * (len as u64) + ALLOC_CONST
}

pub const ALLOC_PER_OCTET: u64 = 1024;
pub const ALLOC_CONST: u64 = 1 << 20;
