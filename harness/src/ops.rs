//! One function per op of PROTOCOL.md section 3.
//!
//! Every op gets the token cursor positioned after the op name and returns the result line, or a
//! `PErr` (`Bad` -> `bad-op`, `Uncon` -> `unconstructible`). All arguments are parsed (phase 1)
//! and built (phase 2) before anything is executed. Panics are caught by the caller; the only
//! `catch_unwind` in here is the one that turns a panic of the post-decode exercising into
//! `panic post`.

use crate::canon::*;
use bytes::Bytes;
use dns_message_parser::question::{QClass, QType, Question};
use dns_message_parser::rr::edns::{Cookie, CookieError, EDNSOptionCode, ECS};
use dns_message_parser::rr::{
    APItem, AFSDBSubtype, AddressError, AddressFamilyNumber, AlgorithmType, Class, DigestType,
    ISDNAddress, ISDNError, NonEmptyVec, PSDNAddress, PSDNAddressError, SSHFPAlgorithm, SSHFPType,
    Tag, TagError, Type, RR, SA,
};
use dns_message_parser::verif::{verif_reset, verif_take_octets};
use dns_message_parser::{
    DecodeError, Dns, DomainName, DomainNameError, EncodeError, EncodeResult, Flags, Label,
    LabelError, Opcode, RCode,
};
use std::collections::hash_map::DefaultHasher;
use std::convert::TryFrom;
use std::fmt::{Debug, Display};
use std::hash::{Hash, Hasher};
use std::hint::black_box;
use std::panic::{catch_unwind, AssertUnwindSafe};

const CANON: Canon = Canon { lower: false };
const CANON_LOWER: Canon = Canon { lower: true };

pub fn dispatch(op: &str, t: &mut Toks) -> PResult<String> {
    match op {
        "dec.dns" => dec_dns(t),
        "dec.flags" => dec_flags(t),
        "dec.question" => dec_question(t),
        "dec.rr" => dec_rr(t),
        "dec.name" => dec_name(t),
        "dec.type" => dec_type(t),
        "dec.class" => dec_class(t),
        "dec.qtype" => dec_qtype(t),
        "dec.qclass" => dec_qclass(t),
        "enc.dns" => enc_dns(t),
        "enc.rr" => enc_rr(t),
        "enc.struct" => enc_struct(t),
        "enc.question" => enc_question(t),
        "enc.flags" => enc_flags(t),
        "enc.name" => enc_name(t),
        "enc.type" => enc_type(t),
        "enc.class" => enc_class(t),
        "enc.qtype" => enc_qtype(t),
        "enc.qclass" => enc_qclass(t),
        "api.ecs" => api_ecs(t),
        "api.apitem" => api_apitem(t),
        "api.cookie" => api_cookie(t),
        "api.label" => api_label(t),
        "api.name" => api_name(t),
        "api.nev" => api_nev(t),
        "api.tag" => api_tag(t),
        "api.psdn" => api_psdn(t),
        "api.isdn" => api_isdn(t),
        "api.sa" => api_sa(t),
        "text.parse" => text_parse(t),
        "text.display" => text_display(t),
        "text.eq" => text_eq(t),
        "enum" => enum_op(t),
        "rt.dns" => rt_dns(t),
        "mt.dns" => mt_dns(t),
        _ => Err(PErr::Bad),
    }
}

// ---------------------------------------------------------------------------------------------
// Error kinds
// ---------------------------------------------------------------------------------------------

fn address_error_kind(e: &AddressError) -> &'static str {
    match e {
        AddressError::Ipv4Prefix(_) => "Ipv4Prefix",
        AddressError::Ipv4Mask(_, _) => "Ipv4Mask",
        AddressError::Ipv6Prefix(_) => "Ipv6Prefix",
        AddressError::Ipv6Mask(_, _) => "Ipv6Mask",
    }
}

fn label_error_kind(e: &LabelError) -> &'static str {
    match e {
        LabelError::Length(_) => "Length",
        LabelError::Empty => "Empty",
    }
}

fn tag_error_kind(e: &TagError) -> &'static str {
    match e {
        TagError::Empty => "TagError.Empty",
        TagError::IllegalChar(_) => "TagError.IllegalChar",
    }
}

fn psdn_error_kind(e: &PSDNAddressError) -> &'static str {
    match e {
        PSDNAddressError::IllegalChar(_) => "PSDNAddressError.IllegalChar",
    }
}

fn isdn_error_kind(e: &ISDNError) -> &'static str {
    match e {
        ISDNError::IllegalChar(_) => "ISDNError.IllegalChar",
        ISDNError::IllegalCharSA(_) => "ISDNError.IllegalCharSA",
    }
}

/// (kind name, numeric payload if the protocol prints one)
fn decode_error_kind(e: &DecodeError) -> (String, Option<u64>) {
    let (k, n): (&str, Option<u64>) = match e {
        DecodeError::NotEnoughBytes(_, _) => ("NotEnoughBytes", None),
        DecodeError::TooManyBytes(_, _) => ("TooManyBytes", None),
        DecodeError::DnsPacketTooBig(_) => ("DnsPacketTooBig", None),
        DecodeError::Opcode(n) => ("Opcode", Some(*n as u64)),
        DecodeError::ZNotZeroes(_) => ("ZNotZeroes", None),
        DecodeError::RCode(n) => ("RCode", Some(*n as u64)),
        DecodeError::Type(n) => ("Type", Some(*n as u64)),
        DecodeError::Class(n) => ("Class", Some(*n as u64)),
        DecodeError::QType(n) => ("QType", Some(*n as u64)),
        DecodeError::QClass(n) => ("QClass", Some(*n as u64)),
        DecodeError::Utf8Error(_) => ("Utf8Error", None),
        DecodeError::LabelError(LabelError::Length(_)) => ("LabelError.Length", None),
        DecodeError::LabelError(LabelError::Empty) => ("LabelError.Empty", None),
        DecodeError::DomainNameError(DomainNameError::DomainNameLength(_)) => {
            ("DomainNameError.DomainNameLength", None)
        }
        DecodeError::DomainNameError(DomainNameError::LabelError(_)) => {
            ("DomainNameError.LabelError", None)
        }
        DecodeError::NotYetImplemented(t) => ("NotYetImplemented", Some(*t as u16 as u64)),
        DecodeError::FromHexError(_) => ("FromHexError", None),
        DecodeError::Offset(_) => ("Offset", None),
        DecodeError::AClass(c) => ("AClass", Some(*c as u16 as u64)),
        DecodeError::WKSClass(c) => ("WKSClass", Some(*c as u16 as u64)),
        DecodeError::TXTEmpty => ("TXTEmpty", None),
        DecodeError::AFSDBSubtype(n) => ("AFSDBSubtype", Some(*n as u64)),
        DecodeError::PSDNAddressError(e) => (psdn_error_kind(e), None),
        DecodeError::ISDNError(e) => (isdn_error_kind(e), None),
        DecodeError::GPOS => ("GPOS", None),
        DecodeError::AAAAClass(c) => ("AAAAClass", Some(*c as u16 as u64)),
        DecodeError::OPTDomainName(_) => ("OPTDomainName", None),
        DecodeError::OPTZero(_) => ("OPTZero", None),
        DecodeError::EDNSOptionCode(n) => ("EDNSOptionCode", Some(*n as u64)),
        DecodeError::AddressError(AddressError::Ipv4Prefix(_)) => {
            ("AddressError.Ipv4Prefix", None)
        }
        DecodeError::AddressError(AddressError::Ipv4Mask(_, _)) => ("AddressError.Ipv4Mask", None),
        DecodeError::AddressError(AddressError::Ipv6Prefix(_)) => {
            ("AddressError.Ipv6Prefix", None)
        }
        DecodeError::AddressError(AddressError::Ipv6Mask(_, _)) => ("AddressError.Ipv6Mask", None),
        DecodeError::APLClass(c) => ("APLClass", Some(*c as u16 as u64)),
        DecodeError::CookieError(CookieError::ServerCookieLength(_)) => {
            ("CookieError.ServerCookieLength", None)
        }
        DecodeError::EcsAddressNumber(n) => ("EcsAddressNumber", Some(*n as u64)),
        DecodeError::EcsTooBigIpv4Address(_) => ("EcsTooBigIpv4Address", None),
        DecodeError::EcsTooBigIpv6Address(_) => ("EcsTooBigIpv6Address", None),
        DecodeError::CookieLength(_) => ("CookieLength", None),
        DecodeError::SSHFPAlgorithm(n) => ("SSHFPAlgorithm", Some(*n as u64)),
        DecodeError::SSHFPType(n) => ("SSHFPType", Some(*n as u64)),
        DecodeError::AlgorithmType(n) => ("AlgorithmType", Some(*n as u64)),
        DecodeError::DigestType(n) => ("DigestType", Some(*n as u64)),
        DecodeError::DNSKEYZeroFlags(n) => ("DNSKEYZeroFlags", Some(*n as u64)),
        DecodeError::DNSKEYProtocol(n) => ("DNSKEYProtocol", Some(*n as u64)),
        DecodeError::MaxRecursion(_) => ("MaxRecursion", None),
        DecodeError::EndlessRecursion(_) => ("EndlessRecursion", None),
        DecodeError::RemainingBytes(_, _) => ("RemainingBytes", None),
        DecodeError::PaddingZero(_) => ("PaddingZero", None),
        DecodeError::PaddingLength(_) => ("PaddingLength", None),
        DecodeError::TagError(e) => (tag_error_kind(e), None),
        DecodeError::ECHLengthMismatch(_, _) => ("ECHLengthMismatch", None),
        DecodeError::SVCBClass(c) => ("SVCBClass", Some(*c as u16 as u64)),
        DecodeError::SVCBDuplicateKey(n) => ("SVCBDuplicateKey", Some(*n as u64)),
    };
    (k.to_string(), n)
}

/// `<Kind>[ <num>]`
fn decode_error_text(e: &DecodeError) -> String {
    match decode_error_kind(e) {
        (k, Some(n)) => format!("{} {}", k, n),
        (k, None) => k,
    }
}

fn encode_error_kind(e: &EncodeError) -> &'static str {
    match e {
        EncodeError::String(_) => "String",
        EncodeError::Length(_) => "Length",
        EncodeError::NotEnoughBytes(_, _) => "NotEnoughBytes",
        EncodeError::Compression(_) => "Compression",
        EncodeError::MaxRecursion(_) => "MaxRecursion",
        EncodeError::APLAddressLength(_) => "APLAddressLength",
    }
}

// ---------------------------------------------------------------------------------------------
// dec.*
// ---------------------------------------------------------------------------------------------

/// Budget used before every decode call: 1000 * (len + 1) octets.
fn set_budget(len: usize) {
    verif_reset(Some(1000 * (len as u64 + 1)));
}

/// The single hex argument of an op.
fn one_hex(t: &mut Toks) -> PResult<Vec<u8>> {
    let bytes = unhex(t.next()?)?;
    t.end()?;
    Ok(bytes)
}

thread_local! {
    /// what the message decoder may pre-allocate from the four announced section counts (set by `dec.dns` only)
    static PREALLOC_ALLOWANCE: std::cell::Cell<u64> = const { std::cell::Cell::new(0) };
}

/// `Vec::with_capacity(count)` for the four sections: the counts are read from the header octets 4..12 of the op's argument
fn announce_sections(hex: &str) {
    let h = hex.as_bytes();
    if h.len() >= 24 {
        let word = |i: usize| u64::from_str_radix(std::str::from_utf8(&h[i..i + 4]).unwrap_or("0"), 16).unwrap_or(0);
        let qd = word(8);
        let rrs = word(12) + word(16) + word(20);
        let a = qd * std::mem::size_of::<Question>() as u64 + rrs * std::mem::size_of::<RR>() as u64;
        PREALLOC_ALLOWANCE.with(|c| c.set(a));
    }
}

/// Shared body of all `dec.*` ops. A panic inside `decode` is caught by the caller of the op
/// (`panic` / `panic budget`); a panic inside `post` is `panic post`.
fn dec_common<T>(
    t: &mut Toks,
    decode: impl FnOnce(Bytes) -> Result<T, DecodeError>,
    print: impl FnOnce(&T) -> String,
    post: impl FnOnce(&T),
) -> PResult<String> {
    let bytes = one_hex(t)?;
    let len = bytes.len();
    set_budget(len);
    let input = Bytes::from(bytes);
    crate::alloc_count::reset();
    let result = decode(input);
    let allocated = crate::alloc_count::taken();
    let cost = verif_take_octets();
    verif_reset(None);
    if let Ok(var) = std::env::var("VERIF_ALLOC_STATS") {
        if !var.is_empty() {
            eprintln!("alloc {} {}", len, allocated);
        }
    }
    let announced = PREALLOC_ALLOWANCE.with(|a| a.replace(0));
    if allocated > crate::alloc_count::budget(len) + announced {
        // memory traffic out of proportion to the input: reported like an exhausted octet budget
        return Ok(format!("panic budget alloc={} len={}", allocated, len));
    }
    match result {
        Ok(v) => {
            // a panic while cloning / comparing / formatting / querying / re-encoding the returned value is
            // reported as a suffix: the decode verdict itself stays visible to the properties that are about it
            let post_panicked = catch_unwind(AssertUnwindSafe(|| post(&v))).is_err();
            match catch_unwind(AssertUnwindSafe(|| print(&v))) {
                Ok(text) if post_panicked => Ok(format!("ok {} cost={} post-panic", text, cost)),
                Ok(text) => Ok(format!("ok {} cost={}", text, cost)),
                Err(_) => Ok("panic post".to_string()),
            }
        }
        Err(e) => Ok(format!("err {} cost={}", decode_error_text(&e), cost)),
    }
}

/// clone, == with the clone, Display, Debug, encode()
fn exercise<T, E>(v: &T, encode: impl FnOnce(&T) -> E)
where
    T: Clone + PartialEq + Display + Debug,
{
    let c = v.clone();
    black_box(*v == c);
    black_box(format!("{}", v));
    black_box(format!("{:?}", v));
    black_box(encode(v));
}

fn dec_dns(t: &mut Toks) -> PResult<String> {
    if let Some(h) = t.peek() {
        announce_sections(h);
    }
    dec_common(
        t,
        Dns::decode,
        |v| CANON.msg(v),
        |v| {
            for rr in v.answers.iter().chain(&v.authorities).chain(&v.additionals) {
                black_box(rr.get_ttl());
                black_box(rr.get_class());
            }
            exercise(v, |v| v.encode().is_ok())
        },
    )
}

fn dec_flags(t: &mut Toks) -> PResult<String> {
    dec_common(
        t,
        Flags::decode,
        |v| CANON.flags(v),
        |v| exercise(v, |v| v.encode().len()),
    )
}

fn dec_question(t: &mut Toks) -> PResult<String> {
    dec_common(
        t,
        Question::decode,
        |v| CANON.question(v),
        |v| exercise(v, |v| v.encode().is_ok()),
    )
}

fn dec_rr(t: &mut Toks) -> PResult<String> {
    dec_common(
        t,
        RR::decode,
        |v| CANON.rr(v),
        |v| {
            black_box(v.get_ttl());
            black_box(v.get_class());
            exercise(v, |v| v.encode().is_ok())
        },
    )
}

fn dec_name(t: &mut Toks) -> PResult<String> {
    dec_common(
        t,
        DomainName::decode,
        |v| CANON.name(v),
        |v| exercise(v, |v| v.encode().is_ok()),
    )
}

fn dec_type(t: &mut Toks) -> PResult<String> {
    dec_common(t, Type::decode, |v| (*v as u16).to_string(), |_| ())
}

fn dec_class(t: &mut Toks) -> PResult<String> {
    dec_common(t, Class::decode, |v| (*v as u16).to_string(), |_| ())
}

fn dec_qtype(t: &mut Toks) -> PResult<String> {
    dec_common(t, QType::decode, |v| (*v as u16).to_string(), |_| ())
}

fn dec_qclass(t: &mut Toks) -> PResult<String> {
    dec_common(t, QClass::decode, |v| (*v as u16).to_string(), |_| ())
}

// ---------------------------------------------------------------------------------------------
// enc.*
// ---------------------------------------------------------------------------------------------

fn enc_result(r: EncodeResult<bytes::BytesMut>) -> String {
    match r {
        Ok(b) => format!("ok {}", hex(&b)),
        Err(e) => format!("err {}", encode_error_kind(&e)),
    }
}

fn enc_dns(t: &mut Toks) -> PResult<String> {
    let ast = parse_msg(t)?;
    t.end()?;
    let dns = build_msg(&ast)?;
    Ok(enc_result(dns.encode()))
}

fn one_rr(t: &mut Toks) -> PResult<RR> {
    let ast = parse_rr(t)?;
    t.end()?;
    build_rr(&ast)
}

fn enc_rr(t: &mut Toks) -> PResult<String> {
    let rr = one_rr(t)?;
    Ok(enc_result(rr.encode()))
}

/// The record struct's own `encode()` where it has one, `RR::encode` otherwise.
fn enc_struct(t: &mut Toks) -> PResult<String> {
    let rr = one_rr(t)?;
    let r = match &rr {
        RR::A(r) => r.encode(),
        RR::NS(r) => r.encode(),
        RR::MD(r) => r.encode(),
        RR::MF(r) => r.encode(),
        RR::CNAME(r) => r.encode(),
        RR::SOA(r) => r.encode(),
        RR::MB(r) => r.encode(),
        RR::MG(r) => r.encode(),
        RR::MR(r) => r.encode(),
        RR::NULL(r) => r.encode(),
        RR::WKS(r) => r.encode(),
        RR::PTR(r) => r.encode(),
        RR::HINFO(r) => r.encode(),
        RR::MINFO(r) => r.encode(),
        RR::MX(r) => r.encode(),
        RR::TXT(r) => r.encode(),
        RR::RP(r) => r.encode(),
        RR::AFSDB(r) => r.encode(),
        RR::X25(r) => r.encode(),
        RR::ISDN(r) => r.encode(),
        RR::RT(r) => r.encode(),
        RR::NSAP(r) => r.encode(),
        RR::PX(r) => r.encode(),
        RR::GPOS(r) => r.encode(),
        RR::AAAA(r) => r.encode(),
        RR::LOC(r) => r.encode(),
        RR::NIMLOC(r) => r.encode(),
        RR::SRV(r) => r.encode(),
        RR::KX(r) => r.encode(),
        RR::DNAME(r) => r.encode(),
        RR::SSHFP(r) => r.encode(),
        RR::URI(r) => r.encode(),
        RR::EID(r) => r.encode(),
        // no struct-level encode() in the crate: OPT, APL, NID, L32, L64, LP, EUI48, EUI64, DS,
        // DNSKEY, CAA, ServiceBinding
        RR::OPT(_)
        | RR::APL(_)
        | RR::NID(_)
        | RR::L32(_)
        | RR::L64(_)
        | RR::LP(_)
        | RR::EUI48(_)
        | RR::EUI64(_)
        | RR::DS(_)
        | RR::DNSKEY(_)
        | RR::CAA(_)
        | RR::SVCB(_)
        | RR::HTTPS(_) => rr.encode(),
    };
    Ok(enc_result(r))
}

fn enc_question(t: &mut Toks) -> PResult<String> {
    let ast = parse_question(t)?;
    t.end()?;
    let q = build_question(&ast)?;
    Ok(enc_result(q.encode()))
}

fn enc_flags(t: &mut Toks) -> PResult<String> {
    let ast = parse_flags(t)?;
    t.end()?;
    let f = build_flags(&ast)?;
    Ok(format!("ok {}", hex(&f.encode())))
}

fn one_name(t: &mut Toks) -> PResult<DomainName> {
    let ast = lex_name(t.next()?)?;
    t.end()?;
    build_name(&ast)
}

fn enc_name(t: &mut Toks) -> PResult<String> {
    let name = one_name(t)?;
    Ok(enc_result(name.encode()))
}

fn one_u16(t: &mut Toks) -> PResult<u16> {
    let n = lex_num(t.next()?)?;
    t.end()?;
    fit_u16(n)
}

fn enc_type(t: &mut Toks) -> PResult<String> {
    let v = Type::try_from(one_u16(t)?).map_err(|_| PErr::Uncon)?;
    Ok(format!("ok {}", hex(&v.encode())))
}

fn enc_class(t: &mut Toks) -> PResult<String> {
    let v = Class::try_from(one_u16(t)?).map_err(|_| PErr::Uncon)?;
    Ok(format!("ok {}", hex(&v.encode())))
}

fn enc_qtype(t: &mut Toks) -> PResult<String> {
    let v = QType::try_from(one_u16(t)?).map_err(|_| PErr::Uncon)?;
    Ok(format!("ok {}", hex(&v.encode())))
}

fn enc_qclass(t: &mut Toks) -> PResult<String> {
    let v = QClass::try_from(one_u16(t)?).map_err(|_| PErr::Uncon)?;
    Ok(format!("ok {}", hex(&v.encode())))
}

// ---------------------------------------------------------------------------------------------
// api.ecs / api.apitem / api.cookie
// ---------------------------------------------------------------------------------------------

/// ` <call>=ok@<state>` | ` <call>=err:<Kind>@<state>`
fn call_text(out: &mut String, call: &str, err: Option<&str>, state: String) {
    match err {
        None => out.push_str(&format!(" {}=ok@{}", call, state)),
        Some(k) => out.push_str(&format!(" {}=err:{}@{}", call, k, state)),
    }
}

fn api_ecs(t: &mut Toks) -> PResult<String> {
    enum Call {
        Src(u128),
        Scope(u128),
        Addr(u128, Vec<u8>),
    }
    // phase 1
    let first = lex_ecs(t.next()?)?;
    let mut calls: Vec<(&str, Call)> = Vec::new();
    while t.remaining() > 0 {
        let tok = t.next()?;
        let call = if let Some(r) = tok.strip_prefix("src:") {
            Call::Src(lex_num(r)?)
        } else if let Some(r) = tok.strip_prefix("scope:") {
            Call::Scope(lex_num(r)?)
        } else if let Some(r) = tok.strip_prefix("addr:") {
            let (fam, addr) = lex_fam_addr(r)?;
            Call::Addr(fam, addr)
        } else {
            return Err(PErr::Bad);
        };
        calls.push((tok, call));
    }
    // phase 2
    let (src, scope, address) = match &first {
        Item::Ecs { fam, src, scope, addr } => {
            (fit_u8(*src)?, fit_u8(*scope)?, build_address(*fam, addr)?)
        }
        _ => return Err(PErr::Bad),
    };
    enum Built {
        Src(u8),
        Scope(u8),
        Addr(dns_message_parser::rr::Address),
    }
    let mut built: Vec<(&str, Built)> = Vec::new();
    for (tok, call) in &calls {
        built.push((
            tok,
            match call {
                Call::Src(n) => Built::Src(fit_u8(*n)?),
                Call::Scope(n) => Built::Scope(fit_u8(*n)?),
                Call::Addr(fam, addr) => Built::Addr(build_address(*fam, addr)?),
            },
        ));
    }
    // execute
    let mut ecs = match ECS::new(src, scope, address) {
        Ok(e) => e,
        Err(e) => return Ok(format!("new=err:{}", address_error_kind(&e))),
    };
    let mut out = format!("new=ok@{}", ecs_text(&ecs));
    for (tok, call) in built {
        let r = match call {
            Built::Src(n) => ecs.set_source_prefix_length(n),
            Built::Scope(n) => ecs.set_scope_prefix_length(n),
            Built::Addr(a) => ecs.set_address(a),
        };
        call_text(
            &mut out,
            tok,
            r.as_ref().err().map(address_error_kind),
            ecs_text(&ecs),
        );
    }
    Ok(out)
}

fn api_apitem(t: &mut Toks) -> PResult<String> {
    enum Call {
        Prefix(u128),
        Neg(bool),
        Addr(u128, Vec<u8>),
    }
    // phase 1
    let first = lex_apitem(t.next()?)?;
    let mut calls: Vec<(&str, Call)> = Vec::new();
    while t.remaining() > 0 {
        let tok = t.next()?;
        let call = if let Some(r) = tok.strip_prefix("prefix:") {
            Call::Prefix(lex_num(r)?)
        } else if let Some(r) = tok.strip_prefix("neg:") {
            Call::Neg(lex_bool(r)?)
        } else if let Some(r) = tok.strip_prefix("addr:") {
            let (fam, addr) = lex_fam_addr(r)?;
            Call::Addr(fam, addr)
        } else {
            return Err(PErr::Bad);
        };
        calls.push((tok, call));
    }
    // phase 2
    let (prefix, neg, address) = match &first {
        Item::Ap { fam, prefix, neg, addr } => (fit_u8(*prefix)?, *neg, build_address(*fam, addr)?),
        _ => return Err(PErr::Bad),
    };
    enum Built {
        Prefix(u8),
        Neg(bool),
        Addr(dns_message_parser::rr::Address),
    }
    let mut built: Vec<(&str, Built)> = Vec::new();
    for (tok, call) in &calls {
        built.push((
            tok,
            match call {
                Call::Prefix(n) => Built::Prefix(fit_u8(*n)?),
                Call::Neg(b) => Built::Neg(*b),
                Call::Addr(fam, addr) => Built::Addr(build_address(*fam, addr)?),
            },
        ));
    }
    // execute
    let mut item = match APItem::new(prefix, neg, address) {
        Ok(i) => i,
        Err(e) => return Ok(format!("new=err:{}", address_error_kind(&e))),
    };
    let mut out = format!("new=ok@{}", apitem_text(&item));
    for (tok, call) in built {
        let r = match call {
            Built::Prefix(n) => item.set_prefix(n),
            Built::Neg(b) => {
                // `negation` is a public field, there is no setter
                item.negation = b;
                Ok(())
            }
            Built::Addr(a) => item.set_address(a),
        };
        call_text(
            &mut out,
            tok,
            r.as_ref().err().map(address_error_kind),
            apitem_text(&item),
        );
    }
    Ok(out)
}

fn api_cookie(t: &mut Toks) -> PResult<String> {
    enum Call {
        Server(Option<Vec<u8>>),
        Client(Vec<u8>),
    }
    // phase 1
    let first = lex_cookie(t.next()?)?;
    let mut calls: Vec<(&str, Call)> = Vec::new();
    while t.remaining() > 0 {
        let tok = t.next()?;
        let call = if let Some(r) = tok.strip_prefix("server:") {
            Call::Server(if r == "none" { None } else { Some(unhex(r)?) })
        } else if let Some(r) = tok.strip_prefix("client:") {
            Call::Client(unhex(r)?)
        } else {
            return Err(PErr::Bad);
        };
        calls.push((tok, call));
    }
    // phase 2
    let (client, server) = match &first {
        Item::Cookie { client, server } => (build_client_cookie(client)?, server.clone()),
        _ => return Err(PErr::Bad),
    };
    enum Built {
        Server(Option<Vec<u8>>),
        Client([u8; 8]),
    }
    let mut built: Vec<(&str, Built)> = Vec::new();
    for (tok, call) in &calls {
        built.push((
            tok,
            match call {
                Call::Server(s) => Built::Server(s.clone()),
                Call::Client(c) => Built::Client(build_client_cookie(c)?),
            },
        ));
    }
    // execute
    let kind = |e: &CookieError| match e {
        CookieError::ServerCookieLength(_) => "ServerCookieLength",
    };
    let mut cookie = match Cookie::new(client, server) {
        Ok(c) => c,
        Err(e) => return Ok(format!("new=err:{}", kind(&e))),
    };
    let mut out = format!("new=ok@{}", cookie_text(&cookie));
    for (tok, call) in built {
        let r = match call {
            Built::Server(s) => cookie.set_server_cookie(s),
            Built::Client(c) => {
                // `client_cookie` is a public field, there is no setter
                cookie.client_cookie = c;
                Ok(())
            }
        };
        call_text(&mut out, tok, r.as_ref().err().map(kind), cookie_text(&cookie));
    }
    Ok(out)
}

// ---------------------------------------------------------------------------------------------
// api.label / api.name / api.nev / api.tag / api.psdn / api.isdn / api.sa
// ---------------------------------------------------------------------------------------------

/// The single hex argument of an op, as a UTF-8 string (`unconstructible` if it is not UTF-8).
fn one_string(t: &mut Toks) -> PResult<String> {
    fit_string(&one_hex(t)?)
}

fn api_label(t: &mut Toks) -> PResult<String> {
    let s = one_string(t)?;
    let show = |r: Result<Label, LabelError>| match r {
        Ok(l) => format!("ok:{}", hex(l.as_ref().as_bytes())),
        Err(e) => format!("err:{}", label_error_kind(&e)),
    };
    let a = show(Label::try_from(s.clone()));
    let b = show(s.parse::<Label>());
    Ok(format!("try_from={} from_str={}", a, b))
}

fn api_name(t: &mut Toks) -> PResult<String> {
    // phase 1
    let mut raw = Vec::new();
    while t.remaining() > 0 {
        raw.push(unhex(t.next()?)?);
    }
    // phase 2
    let strings: Vec<String> = raw.iter().map(|b| fit_string(b)).collect::<PResult<_>>()?;
    // execute
    let mut name = DomainName::default();
    let mut out = format!("start@{}/{}", CANON.name(&name), name.len());
    for s in strings {
        let r: Result<(), &str> = match Label::try_from(s) {
            Err(LabelError::Empty) => Err("LabelError.Empty"),
            Err(LabelError::Length(_)) => Err("LabelError.Length"),
            Ok(label) => match name.append_label(label) {
                Ok(()) => Ok(()),
                Err(DomainNameError::DomainNameLength(_)) => Err("DomainNameLength"),
                // append_label never produces this one
                Err(DomainNameError::LabelError(_)) => Err("LabelError"),
            },
        };
        match r {
            Ok(()) => out.push_str(&format!(" ok@{}/{}", CANON.name(&name), name.len())),
            Err(k) => out.push_str(&format!(" err:{}@{}/{}", k, CANON.name(&name), name.len())),
        }
    }
    Ok(out)
}

/// Largest vector `api.nev` is willing to allocate; anything above is `unconstructible`.
const NEV_MAX: u128 = 1 << 24;

fn api_nev(t: &mut Toks) -> PResult<String> {
    let n = lex_num(t.next()?)?;
    t.end()?;
    if n > NEV_MAX {
        return Err(PErr::Uncon);
    }
    match NonEmptyVec::try_from(vec![0u8; n as usize]) {
        Ok(v) => Ok(format!("ok {}", v.iter().count())),
        Err(()) => Ok("err".to_string()),
    }
}

fn api_tag(t: &mut Toks) -> PResult<String> {
    let s = one_string(t)?;
    Ok(match Tag::try_from(s) {
        Ok(tag) => format!("ok {}", hex(tag.as_ref().as_bytes())),
        Err(e) => format!("err {}", tag_error_kind(&e)),
    })
}

fn api_psdn(t: &mut Toks) -> PResult<String> {
    let s = one_string(t)?;
    Ok(match PSDNAddress::try_from(s) {
        Ok(v) => format!("ok {}", hex(v.as_bytes())),
        Err(e) => format!("err {}", psdn_error_kind(&e)),
    })
}

fn api_isdn(t: &mut Toks) -> PResult<String> {
    let s = one_string(t)?;
    Ok(match ISDNAddress::try_from(s) {
        Ok(v) => format!("ok {}", hex(v.as_bytes())),
        Err(e) => format!("err {}", isdn_error_kind(&e)),
    })
}

fn api_sa(t: &mut Toks) -> PResult<String> {
    let s = one_string(t)?;
    Ok(match SA::try_from(s) {
        Ok(v) => format!("ok {}", hex(v.as_bytes())),
        Err(e) => format!("err {}", isdn_error_kind(&e)),
    })
}

// ---------------------------------------------------------------------------------------------
// text.*
// ---------------------------------------------------------------------------------------------

fn text_parse(t: &mut Toks) -> PResult<String> {
    let s = one_string(t)?;
    Ok(match s.parse::<DomainName>() {
        Ok(name) => format!("ok {}", CANON.name(&name)),
        Err(DomainNameError::DomainNameLength(_)) => "err DomainNameLength".to_string(),
        Err(DomainNameError::LabelError(e)) => format!("err LabelError.{}", label_error_kind(&e)),
    })
}

fn text_display(t: &mut Toks) -> PResult<String> {
    let name = one_name(t)?;
    Ok(format!(
        "ok {} len={}",
        hex(name.to_string().as_bytes()),
        name.len()
    ))
}

fn default_hash<T: Hash>(v: &T) -> u64 {
    let mut h = DefaultHasher::new();
    v.hash(&mut h);
    h.finish()
}

fn text_eq(t: &mut Toks) -> PResult<String> {
    let a = lex_name(t.next()?)?;
    let b = lex_name(t.next()?)?;
    t.end()?;
    // label by label: `Label == Label`, `Label == &str` (both directions) and the label hashes must tell the same
    // story as the name comparison (a disagreement is an extra token the model never prints)
    let mut label_story = a.len() == b.len();
    let mut str_story = a.len() == b.len();
    let mut label_hash_story = a.len() == b.len();
    if a.len() == b.len() {
        for (x, y) in a.iter().zip(b.iter()) {
            let sx = fit_string(x)?;
            let sy = fit_string(y)?;
            let lx = Label::try_from(sx.clone()).map_err(|_| PErr::Uncon)?;
            let ly = Label::try_from(sy.clone()).map_err(|_| PErr::Uncon)?;
            label_story &= lx == ly;
            str_story &= (lx == sy.as_str()) && (ly == sx.as_str());
            label_hash_story &= default_hash(&lx) == default_hash(&ly);
        }
    }
    let a = build_name(&a)?;
    let b = build_name(&b)?;
    let eq = a == b;
    let mut out = format!(
        "eq={} hasheq={}",
        eq as u8,
        (default_hash(&a) == default_hash(&b)) as u8
    );
    if label_story != eq || str_story != eq || (eq && !label_hash_story) {
        out.push_str(&format!(
            " LABEL-EQ-MISMATCH labels={} strs={} labelhashes={}",
            label_story as u8, str_story as u8, label_hash_story as u8
        ));
    }
    Ok(out)
}

// ---------------------------------------------------------------------------------------------
// enum
// ---------------------------------------------------------------------------------------------

macro_rules! enum_table {
    ($enum:ty, $int:ty, $n:expr, $tok:expr) => {
        match <$int>::try_from($n).ok().and_then(|i| <$enum>::try_from(i).ok()) {
            Some(v) => format!("ok {:?} {}", v, v as $int),
            // echo the input token (a number that does not fit the integer type included)
            None => format!("err {}", $tok),
        }
    };
}

fn enum_op(t: &mut Toks) -> PResult<String> {
    let table = t.next()?;
    let tok = t.next()?;
    t.end()?;
    let n = lex_num(tok)?;
    Ok(match table {
        "Type" => enum_table!(Type, u16, n, tok),
        "Class" => enum_table!(Class, u16, n, tok),
        "QType" => enum_table!(QType, u16, n, tok),
        "QClass" => enum_table!(QClass, u16, n, tok),
        "Opcode" => enum_table!(Opcode, u8, n, tok),
        "RCode" => enum_table!(RCode, u8, n, tok),
        "EDNSOptionCode" => enum_table!(EDNSOptionCode, u16, n, tok),
        "AlgorithmType" => enum_table!(AlgorithmType, u8, n, tok),
        "DigestType" => enum_table!(DigestType, u8, n, tok),
        "SSHFPAlgorithm" => enum_table!(SSHFPAlgorithm, u8, n, tok),
        "SSHFPType" => enum_table!(SSHFPType, u8, n, tok),
        "AFSDBSubtype" => enum_table!(AFSDBSubtype, u16, n, tok),
        "AddressFamilyNumber" => enum_table!(AddressFamilyNumber, u16, n, tok),
        _ => return Err(PErr::Bad),
    })
}

// ---------------------------------------------------------------------------------------------
// rt.dns
// ---------------------------------------------------------------------------------------------

fn rt_dns(t: &mut Toks) -> PResult<String> {
    let bytes = one_hex(t)?;
    set_budget(bytes.len());
    let first = Dns::decode(Bytes::from(bytes));
    verif_reset(None);
    let dns_1 = match first {
        Ok(d) => d,
        Err(_) => return Ok("skip".to_string()),
    };
    let encoded = match dns_1.encode() {
        Ok(b) => b,
        Err(e) => return Ok(format!("encerr {}", encode_error_kind(&e))),
    };
    set_budget(encoded.len());
    let second = Dns::decode(encoded.freeze());
    verif_reset(None);
    let dns_2 = match second {
        Ok(d) => d,
        // kind name only, no numeric payload
        Err(e) => return Ok(format!("decerr {}", decode_error_kind(&e).0)),
    };
    if CANON_LOWER.msg(&dns_1) == CANON_LOWER.msg(&dns_2) {
        Ok("same".to_string())
    } else {
        Ok("diff".to_string())
    }
}


/// `mt.dns <threads> <reps> <hex>` (C14): decode once and encode the value once on this thread, then
/// repeat both `reps` times from `threads` threads that share the input buffer and the decoded
/// value; every result must be identical to the first one and the inputs must be unchanged.
/// Result: `det dec=<ok|err:Kind> enc=<ok:hex|err:Kind|->` or `nondet <what>`.
fn mt_dns(t: &mut Toks) -> PResult<String> {
    use std::sync::Arc;
    let threads: usize = t.next()?.parse().map_err(|_| PErr::Bad)?;
    let reps: usize = t.next()?.parse().map_err(|_| PErr::Bad)?;
    let bytes = one_hex(t)?;
    if threads == 0 || threads > 64 || reps > 100_000 {
        return Err(PErr::Uncon);
    }
    verif_reset(None);
    let input = Bytes::from(bytes.clone());
    let first = Dns::decode(input.clone());
    let dec_text = match &first {
        Ok(d) => format!("ok {}", CANON.msg(d)),
        Err(e) => {
            let (k, p) = decode_error_kind(e);
            match p {
                Some(n) => format!("err {} {}", k, n),
                None => format!("err {}", k),
            }
        }
    };
    let (value, enc_first): (Option<Arc<Dns>>, Option<Result<Vec<u8>, String>>) = match first {
        Ok(d) => {
            let e = d.encode().map(|b| b.to_vec()).map_err(|e| encode_error_kind(&e).to_string());
            (Some(Arc::new(d)), Some(e))
        }
        Err(_) => (None, None),
    };
    let dec_text = Arc::new(dec_text);
    let enc_first = Arc::new(enc_first);
    let mut handles = Vec::new();
    for _ in 0..threads {
        let input = input.clone();
        let value = value.clone();
        let dec_text = dec_text.clone();
        let enc_first = enc_first.clone();
        handles.push(std::thread::spawn(move || -> Result<(), String> {
            for _ in 0..reps {
                let r = Dns::decode(input.clone());
                let text = match &r {
                    Ok(d) => format!("ok {}", CANON.msg(d)),
                    Err(e) => {
                        let (k, p) = decode_error_kind(e);
                        match p {
                            Some(n) => format!("err {} {}", k, n),
                            None => format!("err {}", k),
                        }
                    }
                };
                if text != *dec_text {
                    return Err("decode result differs".to_string());
                }
                if let (Some(v), Some(e0)) = (&value, &*enc_first) {
                    // shared value, and a fresh clone (fresh Encoder = fresh RandomState each time)
                    let e1 = v.encode().map(|b| b.to_vec()).map_err(|e| encode_error_kind(&e).to_string());
                    if &e1 != e0 {
                        return Err("encode result differs".to_string());
                    }
                    if let Ok(d) = &r {
                        let e2 = d.encode().map(|b| b.to_vec()).map_err(|e| encode_error_kind(&e).to_string());
                        if &e2 != e0 {
                            return Err("encode of re-decoded value differs".to_string());
                        }
                    }
                }
            }
            Ok(())
        }));
    }
    for h in handles {
        match h.join() {
            Ok(Ok(())) => {}
            Ok(Err(what)) => return Ok(format!("nondet {}", what)),
            Err(_) => return Ok("nondet thread panicked".to_string()),
        }
    }
    if input.as_ref() != &bytes[..] {
        return Ok("nondet input buffer modified".to_string());
    }
    if let Some(v) = &value {
        if format!("ok {}", CANON.msg(v)) != *dec_text {
            return Ok("nondet shared value modified".to_string());
        }
    }
    let dec_short = if dec_text.starts_with("ok") { "ok".to_string() } else { dec_text.replacen("err ", "err:", 1) };
    let enc_short = match &*enc_first {
        None => "-".to_string(),
        Some(Ok(b)) => format!("ok:{}", crate::canon::hex(b)),
        Some(Err(k)) => format!("err:{}", k),
    };
    Ok(format!("det dec={} enc={}", dec_short, enc_short))
}
