import Proto.Core.Utf8

inductive Opcode | query | iquery | status | notify | update | dso
  deriving DecidableEq, Repr
def Opcode.ofCode : Nat → Option Opcode
  | 0 => some .query | 1 => some .iquery | 2 => some .status | 4 => some .notify | 5 => some .update | 6 => some .dso
  | _ => none
def Opcode.toCode : Opcode → Nat
  | .query => 0 | .iquery => 1 | .status => 2 | .notify => 4 | .update => 5 | .dso => 6

structure F1 where
  qr : Bool
  opcode : Opcode
  aa : Bool
  tc : Bool
  rd : Bool
  deriving DecidableEq, Repr

def decF1 (b : UInt8) : Option F1 :=
  match Opcode.ofCode ((b &&& 0x78) >>> 3).toNat with
  | none => none
  | some op => some { qr := (b &&& 0x80) != 0, opcode := op, aa := (b &&& 4) != 0, tc := (b &&& 2) != 0, rd := (b &&& 1) != 0 }

def encF1 (f : F1) : UInt8 :=
  (if f.qr then (0x80 : UInt8) else 0) ||| (UInt8.ofNat f.opcode.toCode <<< 3) ||| (if f.aa then 4 else 0) ||| (if f.tc then 2 else 0) ||| (if f.rd then 1 else 0)

-- spec by arithmetic bit positions (RFC 1035 4.1.1)
def bit (b : UInt8) (i : Nat) : Bool := (b.toNat / 2^i) % 2 == 1

def chkF1 (b : UInt8) : Bool :=
  match decF1 b with
  | none => Opcode.ofCode ((b.toNat / 8) % 16) == none
  | some f => f.qr == bit b 7 && some f.opcode == Opcode.ofCode ((b.toNat / 8) % 16) && f.aa == bit b 2 && f.tc == bit b 1 && f.rd == bit b 0 && encF1 f == b

set_option maxRecDepth 4096 in
theorem decF1_spec : ∀ b : UInt8, chkF1 b = true := by decide +kernel

#print axioms decF1_spec
