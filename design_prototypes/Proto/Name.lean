abbrev Bytes := List UInt8
abbrev Label := Bytes
abbrev Name := List Label

inductive DErr
  | notEnough | utf8 | labelLength | nameLength | maxRecursion | endless | fuel
  deriving Repr, DecidableEq

structure Dec where
  main : Bytes
  win : Bytes
  off : Nat
  deriving Repr

def Dec.read (d : Dec) (n : Nat) : Except DErr (Bytes × Dec) :=
  if d.off + n ≤ d.win.length then .ok ((d.win.drop d.off).take n, { d with off := d.off + n })
  else .error .notEnough

def Dec.u8 (d : Dec) : Except DErr (UInt8 × Dec) :=
  match d.win[d.off]? with
  | some b => .ok (b, { d with off := d.off + 1 })
  | none => .error .notEnough

/-- printed length as in `DomainName::len` -/
def Name.plen (n : Name) : Nat := if n = [] then 1 else n.length + (n.map List.length).sum

def appendLabel (n : Name) (l : Label) : Except DErr Name :=
  let len := if n = [] then l.length + 1 else Name.plen n + l.length + 1
  if 255 ≤ len then .error .nameLength else .ok (n ++ [l])

def isPtr (b : UInt8) : Bool := b.toNat ≥ 192
def ptrOff (a b : UInt8) : Nat := (a.toNat % 64) * 256 + b.toNat

variable (utf8 : Bytes → Bool)

def Dec.nameLabel (d : Dec) (name : Name) (len : UInt8) : Except DErr (UInt8 × Name × Dec) :=
  match d.read len.toNat with
  | .error e => .error e
  | .ok (buf, d) =>
    if !utf8 buf then .error .utf8 else
    if 64 ≤ buf.length then .error .labelLength else
    match appendLabel name buf with
    | .error e => .error e
    | .ok name =>
      match d.u8 with
      | .error e => .error e
      | .ok (l, d) => .ok (l, name, d)

/-- second phase: after the first pointer, on the main buffer -/
def nameRec : Nat → Dec → Name → List Nat → UInt8 → Except DErr Name
  | 0, _, _, _, _ => .error .fuel
  | fuel+1, d, name, seen, len =>
    if len = 0 then .ok name
    else if isPtr len then
      match d.u8 with
      | .error e => .error e
      | .ok (b, d) =>
        let off := ptrOff len b
        if seen.contains off then .error .endless
        else if seen.length + 1 > 16 then .error .maxRecursion
        else
          let d := { d with off := off }
          match d.u8 with
          | .error e => .error e
          | .ok (l, d) => nameRec fuel d name (off :: seen) l
    else
      match d.nameLabel utf8 name len with
      | .error e => .error e
      | .ok (l, name, d) => nameRec fuel d name seen l

def nameWin : Nat → Dec → Name → UInt8 → Except DErr (Name × Dec)
  | 0, _, _, _ => .error .fuel
  | fuel+1, d, name, len =>
    if len = 0 then .ok (name, d)
    else if isPtr len then
      match d.u8 with
      | .error e => .error e
      | .ok (b, d) =>
        let off := ptrOff len b
        let dm : Dec := { main := d.main, win := d.main, off := off }
        match dm.u8 with
        | .error e => .error e
        | .ok (l, dm) =>
          match nameRec utf8 (18 * (d.main.length + 2)) dm name [] l with
          | .error e => .error e
          | .ok name => .ok (name, d)
    else
      match d.nameLabel utf8 name len with
      | .error e => .error e
      | .ok (l, name, d) => nameWin fuel d name l

def Dec.name (d : Dec) : Except DErr (Name × Dec) :=
  match d.u8 with
  | .error e => .error e
  | .ok (l, d) => nameWin utf8 (d.win.length + 2) d [] l

def ex : Bytes := [3, 99, 111, 109, 0, 1, 97, 192, 0]


