def tbl : List (Nat × Nat) := (List.range 260).map (fun i => (i * 7 % 65536, i))
def strictlySorted : List Nat → Bool
  | a :: b :: r => a < b && strictlySorted (b :: r)
  | _ => true
def lookup (c : Nat) : Option Nat := (tbl.find? (fun p => p.1 == c)).map (·.2)
set_option maxRecDepth 100000 in
theorem tbl_sorted : strictlySorted (tbl.map (·.1)) = true := by decide +kernel
set_option maxRecDepth 100000 in
theorem tbl_roundtrip : tbl.all (fun p => lookup p.1 == some p.2) = true := by decide +kernel
