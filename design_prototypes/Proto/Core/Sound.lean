import Proto.Core.Basic

variable (utf8 : Bytes → Bool)

theorem u8_ok {d d' : D} {b : UInt8} (h : d.u8 = .ok (b, d')) :
    d.buf[d.off]? = some b ∧ d.off + 1 ≤ d.lim ∧ d' = { d with off := d.off + 1, cost := d.cost + 1 } := by
  unfold D.u8 at h
  split at h
  · split at h
    · rename_i hb; simp at h; exact ⟨by rw [hb, h.1], by omega, h.2.symm⟩
    · simp at h
  · simp at h

theorem read_ok {d d' : D} {n : Nat} {bs : Bytes} (h : d.read n = .ok (bs, d')) :
    d.off + n ≤ d.lim ∧ bs = (d.buf.drop d.off).take n ∧ d' = { d with off := d.off + n, cost := d.cost + n } := by
  unfold D.read at h
  split at h
  · simp at h; exact ⟨by omega, h.1.symm, h.2.symm⟩
  · simp at h

theorem appendLabel_ok {n : Name} {l : Label} {n' : Name} (h : appendLabel n l = .ok n') :
    n' = n ++ [l] ∧ Name.sz n + l.length + 1 < 255 := by
  unfold appendLabel at h
  split at h
  · simp at h
  · simp at h; exact ⟨h.symm, by omega⟩

theorem nameLabel_ok {d d' : D} {name name' : Name} {len nb : UInt8}
    (hlim : d.lim ≤ d.buf.length)
    (h : d.nameLabel utf8 name len = .ok (nb, name', d')) :
    ∃ lab : Label, lab.length = len.toNat ∧ lab.length ≤ 63 ∧ utf8 lab = true ∧
      (∀ i, i < lab.length → d.buf[d.off + i]? = lab[i]?) ∧
      name' = name ++ [lab] ∧ Name.sz name + lab.length + 1 < 255 ∧
      d.buf[d.off + len.toNat]? = some nb ∧ d.off + len.toNat + 1 ≤ d.lim ∧
      d' = { d with off := d.off + len.toNat + 1, cost := d.cost + len.toNat + 1 } := by
  unfold D.nameLabel at h
  split at h; · simp at h
  rename_i lab d1 hr
  obtain ⟨r1, r2, r3⟩ := read_ok hr
  split at h; · simp at h
  rename_i hu
  split at h; · simp at h
  rename_i h64
  split at h; · simp at h
  rename_i nm ha
  obtain ⟨a1, a2⟩ := appendLabel_ok ha
  split at h; · simp at h
  rename_i l2 d2 hu8
  obtain ⟨u1, u2, u3⟩ := u8_ok hu8
  simp at h
  obtain ⟨rfl, rfl, rfl⟩ := h
  have hlen : lab.length = len.toNat := by
    rw [r2, List.length_take, List.length_drop]; omega
  refine ⟨lab, hlen, by omega, by simpa using hu, ?_, a1, a2, ?_, ?_, ?_⟩
  · intro i hi
    rw [r2, List.getElem?_take_of_lt (by omega), List.getElem?_drop]
  · rw [r3] at u1; exact u1
  · rw [r3] at u2; exact u2
  · rw [u3, r3]

/-- Soundness of the second phase, with exact cost accounting and the hop bound. -/
theorem nameRec_sound : ∀ (fuel : Nat) (d : D) (name : Name) (seen : List Nat) (len : UInt8) (off : Nat)
    (r : Name) (c' : Nat),
    d.lim = d.buf.length → d.off = off + 1 → d.buf[off]? = some len → seen.length ≤ 16 →
    nameRec utf8 fuel d name seen len = .ok (r, c') →
    ∃ n h e, r = name ++ n ∧ NameAt d.buf false off n h e ∧ (∀ l ∈ n, utf8 l = true) ∧
      (n ≠ [] → Name.sz r < 255) ∧ seen.length + h ≤ 16 ∧ c' = d.cost + Name.sz n + 2 * h := by
  intro fuel
  induction fuel with
  | zero => intro d name seen len off r c' _ _ _ _ h; simp [nameRec] at h
  | succ fuel ih =>
    intro d name seen len off r c' hlim hoff hb hseen h
    unfold nameRec at h
    split at h
    · rename_i hz
      simp at h
      obtain ⟨rfl, rfl⟩ := h
      exact ⟨[], 0, off + 1, by simp, .root (by rw [hb, hz]), by simp, by simp, by omega, by simp⟩
    · rename_i hnz
      split at h
      · rename_i hp
        split at h; · simp at h
        rename_i b d1 hu8
        obtain ⟨u1, u2, u3⟩ := u8_ok hu8
        simp only at h
        split at h; · simp at h
        rename_i hns
        split at h; · simp at h
        rename_i hlen16
        split at h; · simp at h
        rename_i l2 d2 hu8'
        obtain ⟨v1, v2, v3⟩ := u8_ok hu8'
        simp only at v1 v2 v3
        have hbuf1 : d1.buf = d.buf := by rw [u3]
        have := ih d2 name (ptrOff len b :: seen) l2 (ptrOff len b) r c'
          (by rw [v3]; simp; rw [hbuf1, ← hlim, u3]) (by rw [v3]) (by rw [v3]; simpa using v1) (by simp; omega) h
        obtain ⟨n, hh, e, hr, hn, hutf, hsz, hs, hc⟩ := this
        have hd2 : d2.buf = d.buf := by rw [v3]; simp [hbuf1]
        rw [hd2] at hn
        refine ⟨n, hh + 1, off + 2, hr, ?_, hutf, hsz, by simp at hs; omega, ?_⟩
        · refine .ptr hb (by simpa [isPtr] using hp) ?_ (by simp) hn
          rw [hoff] at u1; exact u1
        · rw [hc, v3, u3]; simp; omega
      · rename_i hnp
        split at h; · simp at h
        rename_i nb name' d1 hl
        obtain ⟨lab, l1, l2, l3, l4, l5, l6, l7, l8, l9⟩ := nameLabel_ok utf8 (by omega) hl
        have hd1 : d1.buf = d.buf := by rw [l9]
        have := ih d1 name' seen nb (off + 1 + len.toNat) r c'
          (by rw [l9]; exact hlim) (by rw [l9]; simp; omega) (by rw [hd1, ← hoff]; exact l7) hseen h
        obtain ⟨n, hh, e, hr, hn, hutf, hsz, hs, hc⟩ := this
        rw [hd1] at hn
        have hlen1 : 1 ≤ len.toNat := by
          rcases Nat.eq_zero_or_pos len.toNat with hz | hz
          · exfalso; apply hnz; exact UInt8.toNat_inj.mp (by simpa using hz)
          · exact hz
        refine ⟨lab :: n, hh, e, by rw [hr, l5]; simp, ?_, ?_, ?_, hs, ?_⟩
        · refine .label hb hlen1 (by omega) l1 ?_ hn
          intro i hi
          have := l4 i hi
          rw [hoff] at this; exact this
        · intro l hl
          rcases List.mem_cons.mp hl with rfl | hl
          · exact l3
          · exact hutf l hl
        · intro _
          by_cases hn0 : n = []
          · subst hn0; rw [hr, l5]; simp [Name.sz_append, Name.sz_cons]; omega
          · exact hsz hn0
        · rw [hc, l9, Name.sz_cons]; simp; omega

#print axioms nameRec_sound
