import Proto.Core.DecRR
import Proto.Core.Sound

/-! Prototype: *reader algebra* mirroring `Writer.lean`. Readers are compositions of fixed-width
numbers, names, sequencing, "repeat until the window is exhausted" and the length-prefixed
sub-window (`Decoder::sub` … `finished()`). Each combinator has a generic completeness lemma
(grammar ⇒ the reader returns exactly that value) and a generic soundness lemma (the reader
returned a value ⇒ grammar), both with exact cursor accounting (C03, C04, C09). -/

abbrev Reader (α : Type) := D → Except DErr (α × D)

/-- grammar predicate: `Ψ buf start end value` -/
abbrev Gram (α : Type) := Bytes → Nat → Nat → α → Prop

/-- completeness for a reader that may stop before the end of its window -/
def RComplete {α} (r : Reader α) (Ψ : Gram α) : Prop :=
  ∀ (buf : Bytes) (s t lim c : Nat) (v : α), Ψ buf s t v → t ≤ lim → lim ≤ buf.length →
    ∃ c', r { buf := buf, off := s, lim := lim, cost := c } = .ok (v, { buf := buf, off := t, lim := lim, cost := c' })

/-- soundness with cursor accounting: the reader never leaves its window and never moves backwards -/
def RSound {α} (r : Reader α) (Ψ : Gram α) : Prop :=
  ∀ (d d' : D) (v : α), r d = .ok (v, d') → d.off ≤ d.lim → d.lim ≤ d.buf.length →
    Ψ d.buf d.off d'.off v ∧ d'.buf = d.buf ∧ d'.lim = d.lim ∧ d.off ≤ d'.off ∧ d'.off ≤ d.lim ∧ d.cost ≤ d'.cost

def rNum (w : Nat) : Reader Nat := fun d => d.num w

def rSeq {α β} (r1 : Reader α) (r2 : Reader β) : Reader (α × β) := fun d =>
  match r1 d with
  | .error e => .error e
  | .ok (a, d) =>
    match r2 d with
    | .error e => .error e
    | .ok (b, d) => .ok ((a, b), d)

/-- `while !self.is_finished()? { v.push(item()?) }` -/
def rMany {α} (item : Reader α) : Nat → Reader (List α)
  | 0, _ => .error .fuel
  | fuel + 1, d =>
    if d.off = d.lim then .ok ([], d)
    else
      match item d with
      | .error e => .error e
      | .ok (a, d) =>
        match rMany item fuel d with
        | .error e => .error e
        | .ok (as, d) => .ok (a :: as, d)

/-- `let mut w = self.sub(len)?; let v = body(&mut w)?; w.finished()?` -/
def rWin {α} (len : Nat) (body : Reader α) : Reader α := fun d =>
  match d.sub len with
  | .error e => .error e
  | .ok (child, d) =>
    match body child with
    | .error e => .error e
    | .ok (v, child) =>
      if child.off = child.lim then .ok (v, { d with cost := child.cost }) else .error .notEnough

def gNum (w : Nat) : Gram Nat := fun buf s t n => t = s + w ∧ n < 256 ^ w ∧ BytesAt buf s (beBytes w n)
def gSeq {α β} (Ψ1 : Gram α) (Ψ2 : Gram β) : Gram (α × β) :=
  fun buf s t v => ∃ m, s ≤ m ∧ m ≤ t ∧ Ψ1 buf s m v.1 ∧ Ψ2 buf m t v.2
inductive gMany {α} (Ψ : Gram α) (buf : Bytes) : Nat → Nat → List α → Prop
  | nil {s} : gMany Ψ buf s s []
  | cons {s m t a as} : s < m → m ≤ t → Ψ buf s m a → gMany Ψ buf m t as → gMany Ψ buf s t (a :: as)

/-! ### completeness -/

theorem rNum_complete (w : Nat) : RComplete (rNum w) (gNum w) := by
  intro buf s t lim c n ⟨ht, hn, hb⟩ hle hlb
  subst ht
  exact ⟨c + w, num_complete hb hn hle hlb⟩

theorem rSeq_complete {α β} {r1 : Reader α} {r2 : Reader β} {Ψ1 : Gram α} {Ψ2 : Gram β}
    (h1 : RComplete r1 Ψ1) (h2 : RComplete r2 Ψ2) : RComplete (rSeq r1 r2) (gSeq Ψ1 Ψ2) := by
  intro buf s t lim c v ⟨m, _, hmt, hv1, hv2⟩ hle hlb
  obtain ⟨c1, e1⟩ := h1 buf s m lim c v.1 hv1 (by omega) hlb
  obtain ⟨c2, e2⟩ := h2 buf m t lim c1 v.2 hv2 hle hlb
  exact ⟨c2, by simp [rSeq, e1, e2]⟩

theorem gMany.le {α} {Ψ : Gram α} {buf s t as} (h : gMany Ψ buf s t as) : s ≤ t := by
  induction h with
  | nil => omega
  | cons h1 _ _ _ ih => omega

/-- the repetition reader, run in a window that ends exactly where the list ends -/
theorem rMany_complete {α} {item : Reader α} {Ψ : Gram α} (hi : RComplete item Ψ) :
    ∀ (buf : Bytes) (s lim : Nat) (as : List α), gMany Ψ buf s lim as → lim ≤ buf.length →
      ∀ (fuel c : Nat), lim - s < fuel →
      ∃ c', rMany item fuel { buf := buf, off := s, lim := lim, cost := c } =
        .ok (as, { buf := buf, off := lim, lim := lim, cost := c' }) := by
  intro buf s lim as h
  induction h with
  | nil =>
    intro _ fuel c hf
    cases fuel with
    | zero => omega
    | succ fuel => exact ⟨c, by simp [rMany]⟩
  | @cons s m t a as hsm hmt ha hrest ih =>
    intro hlb fuel c hf
    cases fuel with
    | zero => omega
    | succ fuel =>
      obtain ⟨c1, e1⟩ := hi buf s m t c a ha hmt hlb
      obtain ⟨c2, e2⟩ := ih hlb fuel c1 (by omega)
      have hne : ¬ (s = t) := by omega
      exact ⟨c2, by simp [rMany, hne, e1, e2]⟩

theorem rWin_complete {α} {body : Reader α} {Ψ : Gram α} (len : Nat)
    (hb : ∀ (buf : Bytes) (s lim c : Nat) (v : α), Ψ buf s lim v → lim ≤ buf.length →
      ∃ c', body { buf := buf, off := s, lim := lim, cost := c } = .ok (v, { buf := buf, off := lim, lim := lim, cost := c' })) :
    RComplete (rWin len body) (fun buf s t v => t = s + len ∧ Ψ buf s t v) := by
  intro buf s t lim c v ⟨ht, hv⟩ hle hlb
  subst ht
  obtain ⟨c1, e1⟩ := hb buf s (s + len) (c + len) v hv (by omega)
  refine ⟨c1, ?_⟩
  have hcond : s + len ≤ lim := hle
  simp [rWin, D.sub, hcond, e1]

/-! ### soundness -/

theorem beBytes_add_mul : ∀ (k a v : Nat), beBytes k (a * 256 ^ k + v) = beBytes k v := by
  intro k
  induction k with
  | zero => intro a v; rfl
  | succ k ih =>
    intro a v
    simp only [beBytes]
    have hpos : 0 < 256 ^ k := Nat.pow_pos (by omega)
    congr 1
    · congr 1
      rw [Nat.pow_succ, show a * (256 ^ k * 256) + v = (a * 256) * 256 ^ k + v by
        rw [Nat.mul_comm (256 ^ k) 256, Nat.mul_assoc]]
      rw [Nat.add_comm, Nat.add_mul_div_right _ _ hpos, Nat.add_mod, Nat.mul_mod_left, Nat.add_zero,
        Nat.mod_mod]
    · rw [Nat.pow_succ, show a * (256 ^ k * 256) + v = (a * 256) * 256 ^ k + v by
        rw [Nat.mul_comm (256 ^ k) 256, Nat.mul_assoc]]
      exact ih (a * 256) v

theorem beVal_lt : ∀ (l : Bytes), beVal l < 256 ^ l.length := by
  intro l
  induction l with
  | nil => simp [beVal]
  | cons b r ih =>
    simp only [beVal, List.length_cons, Nat.pow_succ]
    have := b.toNat_lt
    have h1 : b.toNat * 256 ^ r.length ≤ 255 * 256 ^ r.length := Nat.mul_le_mul_right _ (by omega)
    omega

theorem beBytes_beVal : ∀ (l : Bytes), beBytes l.length (beVal l) = l := by
  intro l
  induction l with
  | nil => rfl
  | cons b r ih =>
    simp only [List.length_cons, beBytes, beVal]
    have hpos : 0 < 256 ^ r.length := Nat.pow_pos (by omega)
    have hlt := beVal_lt r
    congr 1
    · rw [Nat.add_comm, Nat.add_mul_div_right _ _ hpos, Nat.div_eq_of_lt hlt, Nat.zero_add,
        Nat.mod_eq_of_lt b.toNat_lt]
      simp
    · rw [beBytes_add_mul, ih]

theorem rNum_sound (w : Nat) : RSound (rNum w) (gNum w) := by
  intro d d' n h hol hlb
  unfold rNum D.num at h
  split at h; · simp at h
  rename_i bs d1 hr
  obtain ⟨r1, r2, r3⟩ := read_ok hr
  simp at h
  obtain ⟨rfl, rfl⟩ := h
  have hlen : bs.length = w := by rw [r2, List.length_take, List.length_drop]; omega
  rw [r3]
  refine ⟨⟨rfl, by have := beVal_lt bs; rw [hlen] at this; exact this, ?_⟩, rfl, rfl, by simp, by simpa using r1, by simp⟩
  intro i hi
  have := beBytes_beVal bs
  rw [hlen] at this
  rw [this] at hi ⊢
  rw [r2, List.getElem?_take_of_lt (by omega), List.getElem?_drop]

theorem rSeq_sound {α β} {r1 : Reader α} {r2 : Reader β} {Ψ1 : Gram α} {Ψ2 : Gram β}
    (h1 : RSound r1 Ψ1) (h2 : RSound r2 Ψ2) : RSound (rSeq r1 r2) (gSeq Ψ1 Ψ2) := by
  intro d d' v h hol hlb
  unfold rSeq at h
  split at h; · simp at h
  rename_i a d1 e1
  split at h; · simp at h
  rename_i b d2 e2
  simp at h
  obtain ⟨rfl, rfl⟩ := h
  obtain ⟨p1, b1, l1, o1, o1', c1⟩ := h1 d d1 a e1 hol hlb
  obtain ⟨p2, b2, l2, o2, o2', c2⟩ := h2 d1 d2 b e2 (by omega) (by rw [b1, l1]; exact hlb)
  rw [b1] at p2
  exact ⟨⟨d1.off, o1, o2, p1, p2⟩, by rw [b2, b1], by rw [l2, l1], by omega, by omega, by omega⟩

theorem rMany_sound {α} {item : Reader α} {Ψ : Gram α} (hi : RSound item Ψ)
    (hprog : ∀ (d d' : D) (v : α), item d = .ok (v, d') → d.off < d'.off) :
    ∀ (fuel : Nat), RSound (rMany item fuel) (fun buf s t as => gMany Ψ buf s t as ∧ True) ∧
      ∀ (d d' : D) (as : List α), rMany item fuel d = .ok (as, d') → d.off ≤ d.lim → d.lim ≤ d.buf.length →
        d'.off = d.lim := by
  intro fuel
  induction fuel with
  | zero =>
    exact ⟨fun d d' v h => by simp [rMany] at h, fun d d' as h => by simp [rMany] at h⟩
  | succ fuel ih =>
    constructor
    · intro d d' as h hol hlb
      unfold rMany at h
      split at h
      · simp at h; obtain ⟨rfl, rfl⟩ := h
        exact ⟨⟨.nil, trivial⟩, rfl, rfl, by omega, by omega, by omega⟩
      · split at h; · simp at h
        rename_i a d1 e1
        split at h; · simp at h
        rename_i as' d2 e2
        simp at h; obtain ⟨rfl, rfl⟩ := h
        obtain ⟨p1, b1, l1, o1, o1', c1⟩ := hi d d1 a e1 hol hlb
        obtain ⟨⟨p2, _⟩, b2, l2, o2, o2', c2⟩ := ih.1 d1 d2 as' e2 (by omega) (by rw [b1, l1]; exact hlb)
        rw [b1] at p2
        have hp := hprog d d1 a e1
        exact ⟨⟨.cons hp o2 p1 p2, trivial⟩, by rw [b2, b1], by rw [l2, l1], by omega, by omega, by omega⟩
    · intro d d' as h hol hlb
      unfold rMany at h
      split at h
      · rename_i heq; simp at h; rw [← h.2]; exact heq
      · split at h; · simp at h
        rename_i a d1 e1
        split at h; · simp at h
        rename_i as' d2 e2
        simp at h; obtain ⟨rfl, rfl⟩ := h
        obtain ⟨_, b1, l1, _, o1', _⟩ := hi d d1 a e1 hol hlb
        have := ih.2 d1 d2 as' e2 (by omega) (by rw [b1, l1]; exact hlb)
        rw [this, l1]

theorem rWin_sound {α} {body : Reader α} {Ψ : Gram α} (len : Nat) (hb : RSound body Ψ) :
    RSound (rWin len body) (fun buf s t v => t = s + len ∧ Ψ buf s t v) := by
  intro d d' v h hol hlb
  unfold rWin at h
  split at h; · simp at h
  rename_i child d1 hs
  unfold D.sub at hs
  split at hs
  · rename_i hfit
    simp at hs
    obtain ⟨rfl, rfl⟩ := hs
    split at h; · simp at h
    rename_i v' child' hbody
    split at h
    · rename_i hfin
      simp at h
      obtain ⟨rfl, rfl⟩ := h
      obtain ⟨p, b1, l1, o1, o2, c1⟩ := hb _ child' v' hbody (Nat.le_add_right _ _) (by simpa using (by omega : d.off + len ≤ d.buf.length))
      simp only at p b1 l1 o1 o2 c1 hfin
      rw [l1] at hfin
      rw [hfin] at p
      exact ⟨⟨rfl, p⟩, rfl, rfl, by simp, by simpa using hfit, by simp; omega⟩
    · simp at h
  · simp at hs

#print axioms rWin_sound
#print axioms rMany_sound
#print axioms rMany_complete

