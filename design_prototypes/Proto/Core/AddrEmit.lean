import Proto.Core.Basic

/-! C17 prototype: how many address octets the writers emit.
`rr_address_ipv4/ipv6` (used for ECS): `for b in octets { u8(b); if p < 8 { break } else { p -= 8 } }`.
APL writer as repaired by F10: octets up to the last non-zero one. -/

def addrWithPrefix : Bytes → Nat → Bytes
  | [], _ => []
  | b :: r, p => if p < 8 then [b] else b :: addrWithPrefix r (p - 8)

theorem addrWithPrefix_eq : ∀ (octets : Bytes) (p : Nat),
    addrWithPrefix octets p = octets.take (p / 8 + 1) := by
  intro octets
  induction octets with
  | nil => intro p; simp [addrWithPrefix]
  | cons b r ih =>
    intro p
    unfold addrWithPrefix
    split
    · rename_i h
      have : p / 8 = 0 := by omega
      simp [this]
    · rename_i h
      rw [ih (p - 8)]
      have : p / 8 + 1 = (p - 8) / 8 + 1 + 1 := by omega
      rw [this, List.take_succ_cons]

/-- what the code does (K2): min(size, ⌊p/8⌋+1) octets -/
theorem addrWithPrefix_length (octets : Bytes) (p : Nat) :
    (addrWithPrefix octets p).length = min (p / 8 + 1) octets.length := by
  rw [addrWithPrefix_eq, List.length_take]

/-- … which is the RFC 7871 count ⌈p/8⌉ exactly when p is not a multiple of 8 or p is the full width -/
theorem addrWithPrefix_rfc_iff (octets : Bytes) (p : Nat) (hp : p ≤ 8 * octets.length) :
    (addrWithPrefix octets p).length = (p + 7) / 8 ↔ (p % 8 ≠ 0 ∨ p = 8 * octets.length) := by
  rw [addrWithPrefix_length]
  constructor
  · intro h
    by_cases hc : p % 8 = 0
    · right; omega
    · left; exact hc
  · rintro (h | h) <;> omega

/-- K2 witness: 10.0.0.0/24 is written with 4 octets, RFC 7871 says 3 -/
example : (addrWithPrefix [10, 0, 0, 0] 24).length = 4 ∧ (24 + 7) / 8 = 3 := by decide

/-- F10: `octets[..rposition(!= 0) + 1]` -/
def stripZeros : Bytes → Bytes
  | [] => []
  | b :: r => if stripZeros r = [] ∧ b = 0 then [] else b :: stripZeros r

theorem stripZeros_spec : ∀ (octets : Bytes),
    ∃ k, stripZeros octets = octets.take k ∧ (∀ x ∈ octets.drop k, x = 0) ∧
      (∀ h : stripZeros octets ≠ [], (stripZeros octets).getLast h ≠ 0) := by
  intro octets
  induction octets with
  | nil => exact ⟨0, rfl, by simp, fun h => absurd rfl h⟩
  | cons b r ih =>
    obtain ⟨k, hk, hz, hl⟩ := ih
    unfold stripZeros
    split
    · rename_i hc
      obtain ⟨hnil, hb⟩ := hc
      refine ⟨0, by simp, ?_, fun h => absurd rfl h⟩
      intro x hx
      simp at hx
      rcases hx with rfl | hx
      · exact hb
      · rw [hnil] at hk
        have : r.take k = [] := hk.symm
        have hr : r = r.drop k := by
          conv => lhs; rw [← List.take_append_drop k r, this]; simp
        rw [hr] at hx; exact hz x hx
    · rename_i hc
      by_cases hnil : stripZeros r = []
      · have hb : b ≠ 0 := fun h => hc ⟨hnil, h⟩
        refine ⟨1, by simp [hnil], ?_, fun _ => by simpa [hnil] using hb⟩
        intro x hx
        simp at hx
        rw [hnil] at hk
        have : r.take k = [] := hk.symm
        have hr : r = r.drop k := by
          conv => lhs; rw [← List.take_append_drop k r, this]; simp
        rw [hr] at hx; exact hz x hx
      · refine ⟨k + 1, by simp [hk], by simpa using hz, ?_⟩
        intro h
        rw [List.getLast_cons hnil]
        exact hl hnil

#print axioms stripZeros_spec
#print axioms addrWithPrefix_rfc_iff
