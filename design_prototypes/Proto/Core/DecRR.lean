import Proto.Core.RR
import Proto.Core.Complete

/-! Prototype: spec → decoder at record level (mini field language), and the round-trip capstone. -/

variable (utf8 : Bytes → Bool)

def beVal : Bytes → Nat
  | [] => 0
  | b :: r => b.toNat * 256 ^ r.length + beVal r

theorem beVal_beBytes_mod : ∀ (w n : Nat), beVal (beBytes w n) = n % 256 ^ w := by
  intro w
  induction w with
  | zero => intro n; simp [beBytes, beVal, Nat.mod_one]
  | succ w ih =>
    intro n
    simp only [beBytes, beVal, beBytes_length, ih]
    rw [ofNat_toNat_lt (Nat.mod_lt _ (by omega)), Nat.pow_succ, Nat.mod_mul]
    rw [Nat.mul_comm, Nat.add_comm]

theorem beVal_beBytes (w n : Nat) (h : n < 256 ^ w) : beVal (beBytes w n) = n := by
  rw [beVal_beBytes_mod, Nat.mod_eq_of_lt h]

def D.num (d : D) (w : Nat) : Except DErr (Nat × D) :=
  match d.read w with
  | .error e => .error e
  | .ok (bs, d) => .ok (beVal bs, d)

/-- `Decoder::bytes()` as repaired by F6 (an empty remainder is fine) -/
def D.rest (d : D) : Except DErr (Bytes × D) :=
  if d.off ≤ d.lim then
    .ok ((d.buf.drop d.off).take (d.lim - d.off), { d with off := d.lim, cost := d.cost + (d.lim - d.off) })
  else .error .notEnough

def decField (d : D) : Fld → Except DErr (Val × D)
  | .num w => match d.num w with
    | .error e => .error e
    | .ok (n, d) => .ok (.num n, d)
  | .name => match d.name utf8 with
    | .error e => .error e
    | .ok (n, d) => .ok (.name n, d)
  | .rest => match d.rest with
    | .error e => .error e
    | .ok (b, d) => .ok (.bytes b, d)

def decFields (d : D) : List Fld → Except DErr (List Val × D)
  | [] => .ok ([], d)
  | f :: fs =>
    match decField utf8 d f with
    | .error e => .error e
    | .ok (v, d) =>
      match decFields d fs with
      | .error e => .error e
      | .ok (vs, d) => .ok (v :: vs, d)

/-- `Decoder::sub` : (child, parent after the window) -/
def D.sub (d : D) (len : Nat) : Except DErr (D × D) :=
  if d.off + len ≤ d.lim then
    .ok ({ d with lim := d.off + len, cost := d.cost + len }, { d with off := d.off + len, cost := d.cost + len })
  else .error .notEnough

structure RRv where
  owner : Name
  ty : Nat
  cls : Nat
  ttl : Nat
  vals : List Val

/-- `Decoder::rr` for one fixed field list: header, RDLENGTH window, fields, `finished()` -/
def decRR (d : D) (fs : List Fld) : Except DErr (RRv × D) :=
  match d.name utf8 with
  | .error e => .error e
  | .ok (owner, d) =>
  match d.num 2 with
  | .error e => .error e
  | .ok (ty, d) =>
  match d.num 2 with
  | .error e => .error e
  | .ok (cls, d) =>
  match d.num 4 with
  | .error e => .error e
  | .ok (ttl, d) =>
  match d.num 2 with
  | .error e => .error e
  | .ok (rdlen, d) =>
  match d.sub rdlen with
  | .error e => .error e
  | .ok (child, d) =>
  match decFields utf8 child fs with
  | .error e => .error e
  | .ok (vs, child) =>
    if child.off = child.lim then .ok (⟨owner, ty, cls, ttl, vs⟩, { d with cost := child.cost })
    else .error .notEnough   -- TooManyBytes in the real model

/-! ### completeness -/

theorem read_bytesAt {buf : Bytes} {off lim c : Nat} {x : Bytes}
    (hx : BytesAt buf off x) (hlim : off + x.length ≤ lim) (hlb : lim ≤ buf.length) :
    D.read { buf := buf, off := off, lim := lim, cost := c } x.length =
      .ok (x, { buf := buf, off := off + x.length, lim := lim, cost := c + x.length }) := by
  unfold D.read
  simp only [hlim, if_true]
  congr 2
  apply List.ext_getElem?
  intro i
  by_cases hi : i < x.length
  · rw [List.getElem?_take_of_lt hi, List.getElem?_drop, hx i hi]
  · have hlen : ((buf.drop off).take x.length).length = x.length := by
      rw [List.length_take, List.length_drop]; omega
    rw [List.getElem?_eq_none (by omega), List.getElem?_eq_none (by omega)]

theorem num_complete {buf : Bytes} {off lim c w n : Nat}
    (hx : BytesAt buf off (beBytes w n)) (hn : n < 256 ^ w) (hlim : off + w ≤ lim) (hlb : lim ≤ buf.length) :
    D.num { buf := buf, off := off, lim := lim, cost := c } w =
      .ok (n, { buf := buf, off := off + w, lim := lim, cost := c + w }) := by
  have := read_bytesAt (c := c) hx (by simpa using hlim) hlb
  simp only [beBytes_length] at this
  simp [D.num, this, beVal_beBytes w n hn]

theorem name_complete {buf : Bytes} {bk off n h e} (hn : NameAt buf bk off n h e) (lim c : Nat)
    (he : e ≤ lim) (hlb : lim ≤ buf.length) (hutf : ∀ l ∈ n, utf8 l = true)
    (hsz : Name.sz n < 255) (hh : h ≤ 17) :
    ∃ c', D.name utf8 { buf := buf, off := off, lim := lim, cost := c } =
      .ok (n, { buf := buf, off := e, lim := lim, cost := c' }) := by
  obtain ⟨b, hb⟩ := hn.first
  have hgt := hn.end_gt
  have hlen : n.length < 200 := by
    have := len_le_sz n hn.wf; omega
  obtain ⟨c', hc'⟩ := nameWin_complete utf8 hn 200 [] b lim (c + 1) hb he hlb hutf (by simpa using hsz) hh hlen
  refine ⟨c', ?_⟩
  unfold D.name
  rw [u8_at hb (by omega)]
  simpa using hc'

/-- what the decoder needs beyond the grammar: the library's own rejection rules -/
def okVal : Fld → Val → Prop
  | .num w, .num n => n < 256 ^ w
  | .name, .name n => (∀ l ∈ n, utf8 l = true) ∧ Name.sz n < 255
  | _, _ => True

def okVals : List Fld → List Val → Prop
  | [], [] => True
  | f :: fs, v :: vs => okVal utf8 f v ∧ okVals fs vs
  | _, _ => False

theorem FieldAt.le {buf lim off f v off'} (h : FieldAt buf lim off f v off') : off ≤ off' := by
  cases h with
  | num _ => omega
  | name hn _ => have := hn.end_gt; omega
  | rest _ h => omega

theorem FieldsAt.le {buf lim off fs vs} (h : FieldsAt buf lim off fs vs) : off ≤ lim := by
  induction h with
  | nil h => omega
  | cons hf _ ih => have := hf.le; omega

theorem decField_complete {buf : Bytes} {lim : Nat} (hlb : lim ≤ buf.length) {off off' c : Nat} {f : Fld} {v : Val}
    (hf : FieldAt buf lim off f v off') (hok : okVal utf8 f v) (hle : off' ≤ lim) :
    ∃ c', decField utf8 { buf := buf, off := off, lim := lim, cost := c } f =
      .ok (v, { buf := buf, off := off', lim := lim, cost := c' }) := by
  cases hf with
  | num hb =>
    rename_i w n
    refine ⟨c + w, ?_⟩
    simp [decField, num_complete hb hok hle hlb]
  | name hn h16 =>
    obtain ⟨c', hc'⟩ := name_complete utf8 hn lim c hle hlb hok.1 hok.2 (by omega)
    exact ⟨c', by simp [decField, hc']⟩
  | rest hb hl =>
    rename_i b
    refine ⟨c + (lim - off), ?_⟩
    have hr := read_bytesAt (c := c) hb (by omega : off + b.length ≤ lim) hlb
    unfold D.read at hr
    have hcond : off + b.length ≤ lim := by omega
    simp only [hcond, if_true] at hr
    have hbytes : (buf.drop off).take (lim - off) = b := by
      have : lim - off = b.length := by omega
      rw [this]
      have := congrArg (fun r => match r with | Except.ok (x, _) => x | _ => []) hr
      simpa using this
    have hol : off ≤ lim := by omega
    simp [decField, D.rest, hol, hbytes]

theorem decFields_complete {buf : Bytes} {lim : Nat} (hlb : lim ≤ buf.length) :
    ∀ (fs : List Fld) (vs : List Val) (off c : Nat), FieldsAt buf lim off fs vs → okVals utf8 fs vs →
      ∃ c', decFields utf8 { buf := buf, off := off, lim := lim, cost := c } fs =
        .ok (vs, { buf := buf, off := lim, lim := lim, cost := c' }) := by
  intro fs
  induction fs with
  | nil =>
    intro vs off c h _
    cases h with
    | nil hoff => subst hoff; exact ⟨c, rfl⟩
  | cons f fs ih =>
    intro vs off c h hok
    cases h with
    | @cons _ off' _ v _ vs' hf hrest =>
      obtain ⟨c1, h1⟩ := decField_complete utf8 hlb (c := c) hf hok.1 hrest.le
      obtain ⟨c2, h2⟩ := ih vs' off' c1 hrest hok.2
      exact ⟨c2, by simp [decFields, h1, h2]⟩

theorem decRR_complete {buf : Bytes} {off lim c : Nat} {owner : Name} {ty cls ttl : Nat}
    {fs : List Fld} {vs : List Val} {e : Nat}
    (h : RRAt buf off owner ty cls ttl fs vs e) (he : e ≤ lim) (hlb : lim ≤ buf.length)
    (hown : (∀ l ∈ owner, utf8 l = true) ∧ Name.sz owner < 255)
    (hty : ty < 65536) (hcls : cls < 65536) (httl : ttl < 4294967296)
    (hok : okVals utf8 fs vs) :
    (decRR utf8 { buf := buf, off := off, lim := lim, cost := c } fs).map
        (fun r => (r.1.owner, r.1.ty, r.1.cls, r.1.ttl, r.1.vals, r.2.off, r.2.lim)) =
      .ok (owner, ty, cls, ttl, vs, e, lim) := by
  obtain ⟨hh, e1, rdlen, hn, h16, hb, hrd, hE, hfs⟩ := h
  have hle := hfs.le
  obtain ⟨c1, hc1⟩ := name_complete utf8 hn lim c (by omega) hlb hown.1 hown.2 (by omega)
  -- split the 10 header octets
  have hb' : BytesAt buf e1 (beBytes 2 ty ++ (beBytes 2 cls ++ (beBytes 4 ttl ++ beBytes 2 rdlen))) := by
    simpa [List.append_assoc] using hb
  have bAt : ∀ {o : Nat} {x y : Bytes}, BytesAt buf o (x ++ y) → BytesAt buf o x ∧ BytesAt buf (o + x.length) y := by
    intro o x y hxy
    constructor
    · intro i hi
      rw [hxy i (by simp; omega), List.getElem?_append_left hi]
    · intro i hi
      have := hxy (x.length + i) (by simp; omega)
      rw [show o + x.length + i = o + (x.length + i) by omega, this, List.getElem?_append_right (by omega)]
      congr 1; omega
  obtain ⟨b1, r1⟩ := bAt hb'
  obtain ⟨b2, r2⟩ := bAt r1
  obtain ⟨b3, b4⟩ := bAt r2
  simp only [beBytes_length] at r1 r2 b2 b3 b4
  have n1 := num_complete (c := c1) b1 (by simpa using hty) (by omega : e1 + 2 ≤ lim) hlb
  have n2 := num_complete (c := c1 + 2) b2 (by simpa using hcls) (by omega : e1 + 2 + 2 ≤ lim) hlb
  have n3 := num_complete (c := c1 + 2 + 2) b3 (by simpa using httl) (by omega : e1 + 2 + 2 + 4 ≤ lim) hlb
  have n4 := num_complete (c := c1 + 2 + 2 + 4) b4 (by simpa using (by omega : rdlen < 256 ^ 2)) (by omega : e1 + 2 + 2 + 4 + 2 ≤ lim) hlb
  have hsub : D.sub { buf := buf, off := e1 + 2 + 2 + 4 + 2, lim := lim, cost := c1 + 2 + 2 + 4 + 2 } rdlen =
      .ok ({ buf := buf, off := e1 + 2 + 2 + 4 + 2, lim := e1 + 2 + 2 + 4 + 2 + rdlen, cost := c1 + 2 + 2 + 4 + 2 + rdlen },
           { buf := buf, off := e1 + 2 + 2 + 4 + 2 + rdlen, lim := lim, cost := c1 + 2 + 2 + 4 + 2 + rdlen }) := by
    have : e1 + 2 + 2 + 4 + 2 + rdlen ≤ lim := by omega
    simp [D.sub, this]
  have hfs' : FieldsAt buf (e1 + 2 + 2 + 4 + 2 + rdlen) (e1 + 2 + 2 + 4 + 2) fs vs := by
    have e1' : e1 + 2 + 2 + 4 + 2 = e1 + 10 := by omega
    rw [e1', ← hE]; exact hfs
  obtain ⟨c5, h5⟩ := decFields_complete utf8 (by omega : e1 + 2 + 2 + 4 + 2 + rdlen ≤ buf.length) fs vs _
    (c1 + 2 + 2 + 4 + 2 + rdlen) hfs' hok
  unfold decRR
  simp only [hc1, n1, n2, n3, n4, hsub, h5, if_true, Except.map]
  simp; omega

#print axioms decRR_complete

/-! ### capstone: one record, written from any reachable encoder state, reads back -/

theorem lower_length (l : Label) : (Label.lower l).length = l.length := by simp [Label.lower]

theorem sz_of_lower_eq : ∀ {a b : Name}, a.lower = b.lower → Name.sz a = Name.sz b := by
  intro a
  induction a with
  | nil => intro b h; cases b with
    | nil => rfl
    | cons _ _ => simp [Name.lower] at h
  | cons x xs ih =>
    intro b h
    cases b with
    | nil => simp [Name.lower] at h
    | cons y ys =>
      simp only [Name.lower, List.map_cons, List.cons.injEq] at h
      have h1 : x.length = y.length := by rw [← lower_length x, ← lower_length y, h.1]
      have h2 := ih (b := ys) (by simpa [Name.lower] using h.2)
      simp [Name.sz_cons, h1, h2]

theorem utf8_of_lower_eq (hci : ∀ l l' : Label, l'.lower = l.lower → utf8 l = true → utf8 l' = true) :
    ∀ {a b : Name}, b.lower = a.lower → (∀ l ∈ a, utf8 l = true) → ∀ l ∈ b, utf8 l = true := by
  intro a
  induction a with
  | nil => intro b h _ l hl; cases b with
    | nil => simp at hl
    | cons _ _ => simp [Name.lower] at h
  | cons x xs ih =>
    intro b h hu l hl
    cases b with
    | nil => simp at hl
    | cons y ys =>
      simp only [Name.lower, List.map_cons, List.cons.injEq] at h
      rcases List.mem_cons.mp hl with rfl | hl
      · exact hci x _ h.1 (hu x (by simp))
      · exact ih (b := ys) (by simpa [Name.lower] using h.2) (fun l hl => hu l (by simp [hl])) l hl

theorem okVals_ci (hci : ∀ l l' : Label, l'.lower = l.lower → utf8 l = true → utf8 l' = true) :
    ∀ {fs : List Fld} {vs vs' : List Val}, ValsCi vs vs' → okVals utf8 fs vs → okVals utf8 fs vs' := by
  intro fs
  induction fs with
  | nil => intro vs vs' h hok; cases h with
    | nil => exact hok
    | cons _ _ => simp [okVals] at hok
  | cons f fs ih =>
    intro vs vs' h hok
    cases h with
    | nil => simp [okVals] at hok
    | cons hv hvs =>
      refine ⟨?_, ih hvs hok.2⟩
      have h1 := hok.1
      cases hv with
      | num n => exact h1
      | bytes b => exact h1
      | name hab =>
        cases f with
        | name =>
          exact ⟨utf8_of_lower_eq utf8 hci hab.symm h1.1, by rw [← sz_of_lower_eq hab]; exact h1.2⟩
        | num _ => trivial
        | rest => trivial

theorem rr_roundtrip
    (hci : ∀ l l' : Label, l'.lower = l.lower → utf8 l = true → utf8 l' = true)
    {S : Nat → Prop} {e e' : Enc} {owner : Name} {ty cls ttl : Nat} {fs : List Fld} {vs : List Val}
    (hinv : EInv S e) (hwfo : wfName owner) (hwf : wfVals fs vs) (hrl : restLast fs)
    (hown : (∀ l ∈ owner, utf8 l = true) ∧ Name.sz owner < 255)
    (hty : ty < 65536) (hcls : cls < 65536) (httl : ttl < 4294967296) (hok : okVals utf8 fs vs)
    (h : encRR e owner ty cls ttl fs vs = .ok e')
    (buf' : Bytes) (hpre : Agree (fun i => i < e'.out.length) e'.out buf') (c : Nat) :
    ∃ owner' vs', owner'.lower = owner.lower ∧ ValsCi vs vs' ∧
      (decRR utf8 { buf := buf', off := e.out.length, lim := buf'.length, cost := c } fs).map
        (fun r => (r.1.owner, r.1.ty, r.1.cls, r.1.ttl, r.1.vals, r.2.off, r.2.lim)) =
      .ok (owner', ty, cls, ttl, vs', e'.out.length, buf'.length) := by
  obtain ⟨hold, hinv', owner', vs', hco, hvs', hrr⟩ := encRR_spec hinv hwfo hwf hrl h
  have ha : Agree (ext S e.out.length e'.out.length) e'.out buf' := by
    refine Agree.weaken ?_ hpre
    intro i hi
    rcases hi with hi | hi
    · have := hinv.1 i hi; have := hold.1; omega
    · exact hi.2
  refine ⟨owner', vs', hco, hvs', ?_⟩
  exact decRR_complete utf8 (hrr buf' ha) hpre.1 (Nat.le_refl _)
    ⟨utf8_of_lower_eq utf8 hci hco hown.1, by rw [sz_of_lower_eq hco]; exact hown.2⟩
    hty hcls httl (okVals_ci utf8 hci hvs' hok)

#print axioms rr_roundtrip
