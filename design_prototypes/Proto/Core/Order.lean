import Proto.Core.Enc

/-! C14 prototype: the order in which the local index (a `HashMap` with a random seed in Rust) is
merged into the compression table is irrelevant. -/

theorem find?_perm {α} {p : α → Bool} {l1 l2 : List α} (hp : l1.Perm l2)
    (huniq : ∀ a ∈ l1, ∀ b ∈ l1, p a = true → p b = true → a = b) : l1.find? p = l2.find? p := by
  induction hp with
  | nil => rfl
  | cons x _ ih =>
    simp only [List.find?_cons]
    split
    · rfl
    · exact ih (fun a ha b hb => huniq a (List.mem_cons_of_mem _ ha) b (List.mem_cons_of_mem _ hb))
  | swap x y l =>
    simp only [List.find?_cons]
    cases hx : p x <;> cases hy : p y <;> simp
    exact huniq y (by simp) x (by simp) hy hx
  | trans h1 _ ih1 ih2 =>
    rw [ih1 huniq]
    exact ih2 (fun a ha b hb => huniq a (h1.mem_iff.mpr ha) b (h1.mem_iff.mpr hb))

/-- merging the same local entries in two different iteration orders gives tables with the same
`lookup` function, provided the local keys are pairwise distinct (they are suffixes of one name). -/
theorem merge_order_irrelevant (e : Enc) (loc1 loc2 : List (Name × Nat)) (r : Nat)
    (hp : loc1.Perm loc2)
    (hdist : ∀ a ∈ loc1, ∀ b ∈ loc1, a.1.lower = b.1.lower → a = b)
    (k : Name) :
    (match e.merge loc1 r with | .ok e1 => e1.lookup k | .error _ => none) =
    (match e.merge loc2 r with | .ok e2 => e2.lookup k | .error _ => none) := by
  unfold Enc.merge
  by_cases hr : r > 16
  · simp [hr]
  · simp only [hr, if_false, Enc.lookup, List.find?_append]
    have : (loc1.map fun p => (p.1, p.2, r)).find? (fun p => ciEq p.1 k) =
           (loc2.map fun p => (p.1, p.2, r)).find? (fun p => ciEq p.1 k) := by
      apply find?_perm (hp.map _)
      intro a ha b hb pa pb
      simp only [List.mem_map] at ha hb
      obtain ⟨a', ha', rfl⟩ := ha
      obtain ⟨b', hb', rfl⟩ := hb
      have : a'.1.lower = b'.1.lower := by
        simp [ciEq] at pa pb; rw [pa, pb]
      rw [hdist a' ha' b' hb' this]
    rw [this]

/-- suffixes of one name have pairwise different lengths, hence different keys -/
theorem suffix_keys_distinct {a b : Name} (h : a.lower = b.lower) : a.length = b.length := by
  have := congrArg List.length h
  simpa [Name.lower] using this

#print axioms merge_order_irrelevant
