import Proto.Core.Basic

variable (utf8 : Bytes → Bool)

theorem read_label {buf : Bytes} {off lim c : Nat} {lab : Label} {k : Nat}
    (hk : lab.length = k) (hlim : off + 1 + k ≤ lim) (hlb : lim ≤ buf.length)
    (hbytes : ∀ i, i < lab.length → buf[off + 1 + i]? = lab[i]?) :
    D.read { buf := buf, off := off + 1, lim := lim, cost := c } k =
      .ok (lab, { buf := buf, off := off + 1 + k, lim := lim, cost := c + k }) := by
  unfold D.read
  simp only [hlim, if_true]
  congr 2
  apply List.ext_getElem?
  intro i
  by_cases hi : i < lab.length
  · rw [List.getElem?_take_of_lt (by omega), List.getElem?_drop, hbytes i hi]
  · have hlen : ((buf.drop (off + 1)).take k).length = k := by
      rw [List.length_take, List.length_drop]; omega
    rw [List.getElem?_eq_none (by omega), List.getElem?_eq_none (by omega)]

theorem u8_at {buf : Bytes} {off lim c : Nat} {b : UInt8} (hb : buf[off]? = some b) (hl : off + 1 ≤ lim) :
    D.u8 { buf := buf, off := off, lim := lim, cost := c } =
      .ok (b, { buf := buf, off := off + 1, lim := lim, cost := c + 1 }) := by
  simp [D.u8, hl, hb]

theorem getElem?_lt {buf : Bytes} {i : Nat} {b : UInt8} (h : buf[i]? = some b) : i < buf.length := by
  rcases Nat.lt_or_ge i buf.length with hc | hc
  · exact hc
  · rw [List.getElem?_eq_none hc] at h; cases h

/-- the stored label lies inside the buffer -/
theorem label_in_buf {buf : Bytes} {off : Nat} {lab : Label} {k : Nat}
    (hk : lab.length = k) (hpos : 1 ≤ k)
    (hbytes : ∀ i, i < lab.length → buf[off + 1 + i]? = lab[i]?) : off + 1 + k ≤ buf.length := by
  have hlast := hbytes (k - 1) (by omega)
  have hsome : lab[k - 1]? = some (lab[k - 1]'(by omega)) := List.getElem?_eq_getElem _
  rw [hsome] at hlast
  have := getElem?_lt hlast
  omega

/-- Completeness of the second phase (on the whole buffer). Backwardness is not needed. -/
theorem nameRec_complete {buf : Bytes} {bk off n h e} (hn : NameAt buf bk off n h e) :
    ∀ (fuel : Nat) (name0 : Name) (seen : List Nat) (len : UInt8) (c : Nat),
      buf[off]? = some len →
      (∀ l ∈ n, utf8 l = true) →
      Name.sz (name0 ++ n) < 255 →
      seen.length + h ≤ 16 →
      (∀ s ∈ seen, ∃ m hs es, NameAt buf bk s m hs es ∧ h ≤ hs) →
      n.length + h < fuel →
      ∃ c', nameRec utf8 fuel { buf := buf, off := off + 1, lim := buf.length, cost := c } name0 seen len
        = .ok (name0 ++ n, c') := by
  induction hn with
  | root h0 =>
    intro fuel name0 seen len c hlen _ _ _ _ hf
    rw [h0] at hlen; cases hlen
    cases fuel with
    | zero => omega
    | succ fuel => exact ⟨c, by simp [nameRec]⟩
  | @label off len lab rest h e hb h1 h63 hll hbytes hrest ih =>
    intro fuel name0 seen len0 c hlen hutf hsz hseen hinv hf
    rw [hb] at hlen; cases hlen
    cases fuel with
    | zero => omega
    | succ fuel =>
      obtain ⟨nb, hnb⟩ := hrest.first
      have hne : len ≠ 0 := by intro hz; rw [hz] at h1; simp at h1
      have hnp : isPtr len = false := by simp [isPtr]; omega
      have hin := label_in_buf hll h1 hbytes
      have hread := read_label (c := c) hll hin (Nat.le_refl _) hbytes
      have hu : utf8 lab = true := hutf lab (by simp)
      have happ : appendLabel name0 lab = .ok (name0 ++ [lab]) := by
        unfold appendLabel
        rw [Name.sz_append, Name.sz_cons] at hsz
        have : ¬ (255 ≤ Name.sz name0 + lab.length + 1) := by omega
        simp [this]
      have hu8 := u8_at (c := c + len.toNat) hnb (by have := getElem?_lt hnb; omega : off + 1 + len.toNat + 1 ≤ buf.length)
      have hlab : D.nameLabel utf8 { buf := buf, off := off + 1, lim := buf.length, cost := c } name0 len =
          .ok (nb, name0 ++ [lab], { buf := buf, off := off + 1 + len.toNat + 1, lim := buf.length, cost := c + len.toNat + 1 }) := by
        unfold D.nameLabel
        rw [hread]
        have h64 : ¬ (64 ≤ lab.length) := by omega
        simp [hu, h64, happ, hu8]
      unfold nameRec
      simp only [hne, if_false, hnp, hlab]
      have := ih fuel (name0 ++ [lab]) seen nb (c + len.toNat + 1) hnb (fun l hl => hutf l (by simp [hl]))
        (by simpa using hsz) hseen hinv (by simp at hf; omega)
      simpa using this
  | @ptr off a b n h e hb hp hb2 hback hrest ih =>
    intro fuel name0 seen len c hlen hutf hsz hseen hinv hf
    rw [hb] at hlen; cases hlen
    cases fuel with
    | zero => omega
    | succ fuel =>
      obtain ⟨nb, hnb⟩ := hrest.first
      have hne : a ≠ 0 := by intro hz; rw [hz] at hp; simp at hp
      have hip : isPtr a = true := by simp [isPtr]; omega
      have hu8 := u8_at (c := c) hb2 (by have := getElem?_lt hb2; omega : off + 1 + 1 ≤ buf.length)
      have hnot : seen.contains (ptrOff a b) = false := by
        apply Bool.eq_false_iff.mpr
        intro hc
        have hmem : ptrOff a b ∈ seen := by simpa using hc
        obtain ⟨m, hs, es, hm, hle⟩ := hinv _ hmem
        have := (hrest.det hm).2.1
        omega
      have hu8' := u8_at (c := c + 1) hnb (by have := getElem?_lt hnb; omega : ptrOff a b + 1 ≤ buf.length)
      unfold nameRec
      simp only [hne, if_false, hip, if_true, hu8, hnot]
      have hlt : ¬ (seen.length + 1 > 16) := by omega
      simp only [hlt, if_false, Bool.false_eq_true, hu8']
      refine ih fuel name0 (ptrOff a b :: seen) nb (c + 1 + 1) hnb hutf hsz (by simp; omega) ?_ (by omega)
      intro s hs
      rcases List.mem_cons.mp hs with rfl | hs
      · exact ⟨n, h, e, hrest, by omega⟩
      · obtain ⟨m, hs', es, hm, hle⟩ := hinv s hs
        exact ⟨m, hs', es, hm, by omega⟩

/-- a well-formed name needs at most 127 label steps -/
theorem len_le_sz (n : Name) (hwf : ∀ l ∈ n, 1 ≤ l.length) : 2 * n.length ≤ Name.sz n := by
  induction n with
  | nil => simp
  | cons l r ih =>
    rw [Name.sz_cons]
    have := ih (fun x hx => hwf x (by simp [hx]))
    have := hwf l (by simp)
    simp; omega

theorem NameAt.wf {buf bk off n h e} (hn : NameAt buf bk off n h e) : ∀ l ∈ n, 1 ≤ l.length := by
  induction hn with
  | root _ => simp
  | label _ h1 _ hl _ _ ih =>
    intro l hl'
    rcases List.mem_cons.mp hl' with rfl | hl'
    · omega
    · exact ih l hl'
  | ptr _ _ _ _ _ ih => exact ih

/-- Completeness of `Decoder::domain_name` inside a window `[.., lim)`. -/
theorem nameWin_complete {buf : Bytes} {bk off n h e} (hn : NameAt buf bk off n h e) :
    ∀ (fuel : Nat) (name0 : Name) (len : UInt8) (lim c : Nat),
      buf[off]? = some len → e ≤ lim → lim ≤ buf.length →
      (∀ l ∈ n, utf8 l = true) →
      Name.sz (name0 ++ n) < 255 →
      h ≤ 17 →
      n.length < fuel →
      ∃ c', nameWin utf8 fuel { buf := buf, off := off + 1, lim := lim, cost := c } name0 len
        = .ok (name0 ++ n, { buf := buf, off := e, lim := lim, cost := c' }) := by
  induction hn with
  | root h0 =>
    intro fuel name0 len lim c hlen _ _ _ _ _ hf
    rw [h0] at hlen; cases hlen
    cases fuel with
    | zero => omega
    | succ fuel => exact ⟨c, by simp [nameWin]⟩
  | @label off len lab rest h e hb h1 h63 hll hbytes hrest ih =>
    intro fuel name0 len0 lim c hlen he hlb hutf hsz hh hf
    rw [hb] at hlen; cases hlen
    cases fuel with
    | zero => omega
    | succ fuel =>
      obtain ⟨nb, hnb⟩ := hrest.first
      have hgt := hrest.end_gt
      have hne : len ≠ 0 := by intro hz; rw [hz] at h1; simp at h1
      have hnp : isPtr len = false := by simp [isPtr]; omega
      have hread := read_label (c := c) (lim := lim) hll (by omega) hlb hbytes
      have hu : utf8 lab = true := hutf lab (by simp)
      have happ : appendLabel name0 lab = .ok (name0 ++ [lab]) := by
        unfold appendLabel
        rw [Name.sz_append, Name.sz_cons] at hsz
        have : ¬ (255 ≤ Name.sz name0 + lab.length + 1) := by omega
        simp [this]
      have hu8 := u8_at (c := c + len.toNat) (lim := lim) hnb (by omega)
      have hlab : D.nameLabel utf8 { buf := buf, off := off + 1, lim := lim, cost := c } name0 len =
          .ok (nb, name0 ++ [lab], { buf := buf, off := off + 1 + len.toNat + 1, lim := lim, cost := c + len.toNat + 1 }) := by
        unfold D.nameLabel
        rw [hread]
        have h64 : ¬ (64 ≤ lab.length) := by omega
        simp [hu, h64, happ, hu8]
      unfold nameWin
      simp only [hne, if_false, hnp, hlab]
      have := ih fuel (name0 ++ [lab]) nb lim (c + len.toNat + 1) hnb he hlb (fun l hl => hutf l (by simp [hl]))
        (by simpa using hsz) hh (by simp at hf; omega)
      simpa using this
  | @ptr off a b n h e hb hp hb2 hback hrest _ =>
    intro fuel name0 len lim c hlen he hlb hutf hsz hh hf
    rw [hb] at hlen; cases hlen
    cases fuel with
    | zero => omega
    | succ fuel =>
      obtain ⟨nb, hnb⟩ := hrest.first
      have hne : a ≠ 0 := by intro hz; rw [hz] at hp; simp at hp
      have hip : isPtr a = true := by simp [isPtr]; omega
      have hu8 := u8_at (c := c) (lim := lim) hb2 (by omega)
      have hu8' := u8_at (c := c + 1) (lim := buf.length) hnb (by have := getElem?_lt hnb; omega)
      have hwf := hrest.wf
      have hlen2 : 2 * n.length ≤ Name.sz n := len_le_sz n hwf
      have hszn : Name.sz n < 255 := by rw [Name.sz_append] at hsz; omega
      obtain ⟨c', hc'⟩ := nameRec_complete utf8 hrest 200 name0 [] nb (c + 1 + 1) hnb hutf hsz
        (by simp; omega) (by simp) (by omega)
      unfold nameWin
      simp only [hne, if_false, hip, if_true, hu8, hu8', hc']
      exact ⟨c', rfl⟩

#print axioms nameWin_complete
