import Proto.Core.Sound

variable (utf8 : Bytes → Bool)

/-- Soundness of `Decoder::domain_name` inside a window: what it returns is a name of the grammar,
the cursor ends right after the part stored in place and never leaves the window; at most 17 hops;
every label is UTF-8; the wire size stays below the limit. -/
theorem nameWin_sound : ∀ (fuel : Nat) (d d' : D) (name r : Name) (len : UInt8) (off : Nat),
    d.lim ≤ d.buf.length → d.off = off + 1 → d.off ≤ d.lim → d.buf[off]? = some len →
    nameWin utf8 fuel d name len = .ok (r, d') →
    ∃ n h e, r = name ++ n ∧ NameAt d.buf false off n h e ∧ (∀ l ∈ n, utf8 l = true) ∧
      (n ≠ [] → Name.sz r < 255) ∧ h ≤ 17 ∧
      d'.buf = d.buf ∧ d'.lim = d.lim ∧ d'.off = e ∧ e ≤ d.lim ∧ d.cost ≤ d'.cost := by
  intro fuel
  induction fuel with
  | zero => intro d d' name r len off _ _ _ _ h; simp [nameWin] at h
  | succ fuel ih =>
    intro d d' name r len off hlim hoff hol hb h
    unfold nameWin at h
    split at h
    · rename_i hz
      simp at h
      obtain ⟨rfl, rfl⟩ := h
      exact ⟨[], 0, off + 1, by simp, .root (by rw [hb, hz]), by simp, by simp, by omega,
        rfl, rfl, hoff, by omega, by omega⟩
    · rename_i hnz
      split at h
      · rename_i hp
        split at h; · simp at h
        rename_i b d1 hu8
        obtain ⟨u1, u2, u3⟩ := u8_ok hu8
        simp only at h
        split at h; · simp at h
        rename_i l2 dm hu8'
        obtain ⟨v1, v2, v3⟩ := u8_ok hu8'
        simp only at v1 v2 v3
        split at h; · simp at h
        rename_i nm c hrec
        simp at h
        obtain ⟨rfl, rfl⟩ := h
        have hbuf1 : d1.buf = d.buf := by rw [u3]
        have := nameRec_sound utf8 200 dm name [] l2 (ptrOff len b) nm c
          (by rw [v3]) (by rw [v3]) (by rw [v3]; simpa using v1) (by simp) hrec
        obtain ⟨n, hh, e, hr, hn, hutf, hsz, hs, _⟩ := this
        have hdm : dm.buf = d.buf := by rw [v3]; simp [hbuf1]
        rw [hdm] at hn
        refine ⟨n, hh + 1, off + 2, hr, ?_, hutf, hsz, by simp at hs; omega, ?_, ?_, ?_, ?_, ?_⟩
        · refine .ptr hb (by simpa [isPtr] using hp) ?_ (by simp) hn
          rw [hoff] at u1; exact u1
        · simp [hbuf1]
        · simp [u3]
        · simp [u3]; omega
        · rw [hoff] at u2; omega
        · simp
          -- cost bookkeeping: the recursion's cost is at least the window decoder's
          have hc := (nameRec_sound utf8 200 dm name [] l2 (ptrOff len b) nm c
            (by rw [v3]) (by rw [v3]) (by rw [v3]; simpa using v1) (by simp) hrec)
          obtain ⟨_, _, _, _, _, _, _, _, hc'⟩ := hc
          rw [hc', v3, u3]; simp; omega
      · rename_i hnp
        split at h; · simp at h
        rename_i nb name' d1 hl
        obtain ⟨lab, l1, l2, l3, l4, l5, l6, l7, l8, l9⟩ := nameLabel_ok utf8 hlim hl
        have hd1 : d1.buf = d.buf := by rw [l9]
        have := ih d1 d' name' r nb (off + 1 + len.toNat)
          (by rw [l9]; exact hlim) (by rw [l9]; simp; omega) (by rw [l9]; simpa using l8)
          (by rw [hd1, ← hoff]; exact l7) h
        obtain ⟨n, hh, e, hr, hn, hutf, hsz, h17, hb', hl', ho', he', hc'⟩ := this
        rw [hd1] at hn hb'
        have hlen1 : 1 ≤ len.toNat := by
          rcases Nat.eq_zero_or_pos len.toNat with hz | hz
          · exfalso; apply hnz; exact UInt8.toNat_inj.mp (by simpa using hz)
          · exact hz
        refine ⟨lab :: n, hh, e, by rw [hr, l5]; simp, ?_, ?_, ?_, h17, hb', by rw [hl', l9], ho',
          by rw [l9] at he'; exact he', by rw [l9] at hc'; simp at hc'; omega⟩
        · refine .label hb hlen1 (by omega) l1 ?_ hn
          intro i hi
          have := l4 i hi
          rw [hoff] at this; exact this
        · intro l hl
          rcases List.mem_cons.mp hl with rfl | hl
          · exact l3
          · exact hutf l hl
        · intro _
          by_cases hn0 : n = []
          · subst hn0; rw [hr, l5]; simp [Name.sz_append, Name.sz_cons]; omega
          · exact hsz hn0

#print axioms nameWin_sound
