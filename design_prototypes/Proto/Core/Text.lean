import Proto.Core.Basic

/-! C13 prototype: `Display`, `FromStr`, `len()` of `DomainName` on octet strings. -/

def dot : UInt8 := 46

inductive TErr | labelEmpty | labelLength | nameLength
  deriving Repr, DecidableEq

/-- `impl Display for DomainName` -/
def display (n : Name) : Bytes :=
  if n = [] then [dot] else n.flatMap (fun l => l ++ [dot])

/-- `DomainName::len` -/
def Name.len (n : Name) : Nat :=
  if n = [] then 1 else n.length + (n.map List.length).sum

/-- `str::split('.')` -/
def splitDot : Bytes → List Bytes
  | [] => [[]]
  | b :: r =>
    if b = dot then [] :: splitDot r
    else match splitDot r with
      | h :: t => (b :: h) :: t
      | [] => [[b]]

/-- `check_label` -/
def parseLabel (l : Bytes) : Except TErr Label :=
  if l.length = 0 then .error .labelEmpty else if l.length < 64 then .ok l else .error .labelLength

/-- `append_label` with the text-side error type -/
def appendLabelT (n : Name) (l : Label) : Except TErr Name :=
  if 255 ≤ Name.sz n + l.length + 1 then .error .nameLength else .ok (n ++ [l])

def parseLabels : Name → List Bytes → Except TErr Name
  | acc, [] => .ok acc
  | acc, s :: rest =>
    match parseLabel s with
    | .error e => .error e
    | .ok l =>
      match appendLabelT acc l with
      | .error e => .error e
      | .ok acc => parseLabels acc rest

/-- `strip_suffix('.')` -/
def stripDot (s : Bytes) : Bytes :=
  match s.getLast? with
  | some b => if b = dot then s.dropLast else s
  | none => s

/-- `impl FromStr for DomainName` (with the root repair F4) -/
def parse (s : Bytes) : Except TErr Name :=
  if s = [dot] then .ok [] else parseLabels [] (splitDot (stripDot s))

def noDot (l : Label) : Prop := dot ∉ l
def wfText (n : Name) : Prop := (∀ l ∈ n, 1 ≤ l.length ∧ l.length ≤ 63 ∧ noDot l) ∧ Name.sz n < 255

theorem len_display (n : Name) : Name.len n = (display n).length := by
  unfold Name.len display
  split
  · rfl
  · rename_i hne
    clear hne
    have : ∀ m : Name, m.length + (m.map List.length).sum = (m.flatMap (fun l => l ++ [dot])).length := by
      intro m
      induction m with
      | nil => rfl
      | cons l r ih => simp [List.flatMap_cons] at ih ⊢; omega
    exact this n

/-- splitting `l ++ "." ++ rest` when `l` has no dot -/
theorem splitDot_label (l : Label) (hl : noDot l) (rest : Bytes) :
    splitDot (l ++ dot :: rest) = l :: splitDot rest := by
  induction l with
  | nil => simp [splitDot]
  | cons b r ih =>
    have hb : b ≠ dot := by intro h; apply hl; simp [h]
    have hr : noDot r := by intro h; apply hl; simp [h]
    simp only [List.cons_append, splitDot, hb, if_false, ih hr]

theorem splitDot_last (l : Label) (hl : noDot l) : splitDot l = [l] := by
  induction l with
  | nil => rfl
  | cons b r ih =>
    have hb : b ≠ dot := by intro h; apply hl; simp [h]
    have hr : noDot r := by intro h; apply hl; simp [h]
    simp only [splitDot, hb, if_false, ih hr]

/-- the dotted form without the trailing dot -/
def joinDot : Name → Bytes
  | [] => []
  | [l] => l
  | l :: r => l ++ dot :: joinDot r

theorem splitDot_join : ∀ (n : Name), n ≠ [] → (∀ l ∈ n, noDot l) → splitDot (joinDot n) = n := by
  intro n
  induction n with
  | nil => intro h; exact absurd rfl h
  | cons l r ih =>
    intro _ hnd
    cases r with
    | nil => simp [joinDot, splitDot_last l (hnd l (by simp))]
    | cons l2 r2 =>
      simp only [joinDot]
      rw [splitDot_label l (hnd l (by simp))]
      rw [ih (by simp) (fun x hx => hnd x (by simp [hx]))]

theorem display_eq_join (n : Name) (hn : n ≠ []) : display n = joinDot n ++ [dot] := by
  unfold display
  simp only [hn, if_false]
  induction n with
  | nil => exact absurd rfl hn
  | cons l r ih =>
    cases r with
    | nil => simp [joinDot]
    | cons l2 r2 =>
      have := ih (by simp)
      simp only [List.flatMap_cons] at this ⊢
      rw [this]; simp [joinDot]

theorem stripDot_append (s : Bytes) : stripDot (s ++ [dot]) = s := by
  unfold stripDot
  simp

theorem parseLabels_ok : ∀ (n acc : Name), (∀ l ∈ n, 1 ≤ l.length ∧ l.length ≤ 63) →
    Name.sz (acc ++ n) < 255 → parseLabels acc n = .ok (acc ++ n) := by
  intro n
  induction n with
  | nil => intro acc _ _; simp [parseLabels]
  | cons l r ih =>
    intro acc hwf hsz
    have ⟨h1, h2⟩ := hwf l (by simp)
    have hp : parseLabel l = .ok l := by
      unfold parseLabel
      have : ¬ l.length = 0 := by omega
      have : l.length < 64 := by omega
      simp [*]
    have ha : appendLabelT acc l = .ok (acc ++ [l]) := by
      unfold appendLabelT
      rw [Name.sz_append, Name.sz_cons] at hsz
      have : ¬ (255 ≤ Name.sz acc + l.length + 1) := by omega
      simp [this]
    simp only [parseLabels, hp, ha]
    have := ih (acc ++ [l]) (fun x hx => hwf x (by simp [hx])) (by simpa using hsz)
    simpa using this

/-- text round trip: parsing what `Display` printed gives back the same name (root included) -/
theorem parse_display (n : Name) (h : wfText n) : parse (display n) = .ok n := by
  by_cases hn : n = []
  · subst hn; simp [parse, display]
  · have hne : display n ≠ [dot] := by
      rw [display_eq_join n hn]
      intro hc
      have : joinDot n = [] := by
        have := congrArg List.length hc
        simpa using this
      -- a non-empty name with non-empty labels has a non-empty dotted form
      cases n with
      | nil => exact hn rfl
      | cons l r =>
        have hl := (h.1 l (by simp)).1
        cases r with
        | nil => simp [joinDot] at this; rw [this] at hl; simp at hl
        | cons _ _ => simp [joinDot] at this
    unfold parse
    simp only [hne, if_false]
    rw [display_eq_join n hn, stripDot_append, splitDot_join n hn (fun l hl => (h.1 l hl).2.2)]
    have := parseLabels_ok n [] (fun l hl => ⟨(h.1 l hl).1, (h.1 l hl).2.1⟩) (by simpa using h.2)
    simpa using this

#print axioms parse_display
#print axioms len_display
