import Proto.Core.Enc

/-! UTF-8 well-formedness (Unicode Table 3-7, what `std::str::from_utf8` accepts) as a DFA over
octets, and its invariance under ASCII case changes. -/

instance decForallUInt8 (P : UInt8 → Prop) [DecidablePred P] : Decidable (∀ b, P b) :=
  decidable_of_iff (∀ i : Fin 256, P (UInt8.ofNat i.val))
    ⟨fun h b => by
        have := h ⟨b.toNat, b.toNat_lt⟩
        simpa using this,
     fun h i => h _⟩

/-- states: 0 start/accept, 1 one continuation left, 2 two left, 3 after E0, 4 after ED,
5 three left, 6 after F0, 7 after F4 -/
def utf8Step (s : Fin 8) (b : UInt8) : Option (Fin 8) :=
  let n := b.toNat
  let cont := 0x80 ≤ n ∧ n ≤ 0xBF
  match s with
  | 0 => if n < 0x80 then some 0
         else if 0xC2 ≤ n ∧ n ≤ 0xDF then some 1
         else if n = 0xE0 then some 3
         else if n = 0xED then some 4
         else if 0xE1 ≤ n ∧ n ≤ 0xEF then some 2
         else if n = 0xF0 then some 6
         else if n = 0xF4 then some 7
         else if 0xF1 ≤ n ∧ n ≤ 0xF3 then some 5
         else none
  | 1 => if cont then some 0 else none
  | 2 => if cont then some 1 else none
  | 3 => if 0xA0 ≤ n ∧ n ≤ 0xBF then some 1 else none
  | 4 => if 0x80 ≤ n ∧ n ≤ 0x9F then some 1 else none
  | 5 => if cont then some 2 else none
  | 6 => if 0x90 ≤ n ∧ n ≤ 0xBF then some 2 else none
  | 7 => if 0x80 ≤ n ∧ n ≤ 0x8F then some 2 else none

def utf8Run : Fin 8 → Bytes → Bool
  | s, [] => s == 0
  | s, b :: r => match utf8Step s b with
    | some s' => utf8Run s' r
    | none => false

def validUtf8 (l : Bytes) : Bool := utf8Run 0 l

set_option maxRecDepth 8192 in
theorem utf8Step_lower : ∀ (s : Fin 8) (b : UInt8), utf8Step s (lowerB b) = utf8Step s b := by
  decide +kernel

theorem utf8Run_lower : ∀ (l : Bytes) (s : Fin 8), utf8Run s (l.map lowerB) = utf8Run s l := by
  intro l
  induction l with
  | nil => intro s; rfl
  | cons b r ih =>
    intro s
    simp only [List.map_cons, utf8Run, utf8Step_lower]
    split
    · exact ih _
    · rfl

theorem validUtf8_lower (l : Bytes) : validUtf8 (Label.lower l) = validUtf8 l := utf8Run_lower l 0

/-- the hypothesis left abstract in `rr_roundtrip` -/
theorem validUtf8_ci (l l' : Label) (h : Label.lower l' = Label.lower l) (hv : validUtf8 l = true) :
    validUtf8 l' = true := by
  rw [← validUtf8_lower l', h, validUtf8_lower l]; exact hv

#print axioms validUtf8_ci
#eval validUtf8 [0xE2, 0x84, 0xAA]   -- Kelvin sign
#eval validUtf8 [0xC0, 0x80]         -- overlong
#eval validUtf8 [0xED, 0xA0, 0x80]   -- surrogate
#eval validUtf8 [0xF4, 0x90, 0x80, 0x80] -- > U+10FFFF
