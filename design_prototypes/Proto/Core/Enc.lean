import Proto.Core.Basic

def lowerB (b : UInt8) : UInt8 := if 65 ≤ b.toNat ∧ b.toNat ≤ 90 then b + 32 else b
def Label.lower (l : Label) : Label := l.map lowerB
def Name.lower (n : Name) : Name := n.map Label.lower
def ciEq (a b : Name) : Bool := a.lower == b.lower

inductive EErr | string | length | compression | maxRecursion
  deriving Repr, DecidableEq

structure Enc where
  out : Bytes
  idx : List (Name × Nat × Nat)
  deriving Repr

def Enc.lookup (e : Enc) (k : Name) : Option (Nat × Nat) :=
  match e.idx.find? (fun p => ciEq p.1 k) with
  | some p => some p.2
  | none => none

def ptrBytes (off : Nat) : Bytes := [UInt8.ofNat (192 + off / 256), UInt8.ofNat (off % 256)]

/-- merge the local index (any order) with recursion depth `r` -/
def Enc.merge (e : Enc) (loc : List (Name × Nat)) (r : Nat) : Except EErr Enc :=
  if r > 16 then .error .maxRecursion
  else .ok { e with idx := loc.map (fun p => (p.1, p.2, r)) ++ e.idx }

def encNameGo (e : Enc) : Name → List (Name × Nat) → Except EErr Enc
  | [], loc =>
    (Enc.merge { e with out := e.out ++ [0] } loc 0)
  | l :: rest, loc =>
    let lit : Except EErr Enc :=
      let off := e.out.length
      if off > 65535 then .error .length
      else if l.length > 255 then .error .string
      else
        let e' : Enc := { e with out := e.out ++ (UInt8.ofNat l.length :: l) }
        let loc' := if off ≤ 0x3FFF then (l :: rest, off) :: loc else loc
        encNameGo e' rest loc'
    match e.lookup (l :: rest) with
    | some (off, r) =>
      if 0x3FFF < off then .error .compression
      else if r ≥ 16 then lit
      else Enc.merge { e with out := e.out ++ ptrBytes off } loc (r + 1)
    | none => lit

def encName (e : Enc) (n : Name) : Except EErr Enc := encNameGo e n []

def wfLabel (l : Label) : Prop := 1 ≤ l.length ∧ l.length ≤ 63
def wfName (n : Name) : Prop := ∀ l ∈ n, wfLabel l





