import Proto.Core.RR

/-! Prototype: a small *writer algebra*. Every encoder routine of the model is a composition of
`put`, `encName`, sequencing, folding over a list and the length-prefixed window
(`create_length_index` … `set_length_index`). Each combinator has one generic spec lemma, so the
per-record proofs are compositions, not new inductions. -/

abbrev Writer := Enc → Except EErr Enc

/-- `w` appends a region described by `Φ buf start end`, keeps the table invariant and freezes
what it wrote; `Φ` holds in every buffer that agrees on the frozen positions. -/
def WriterSpec (w : Writer) (Φ : Bytes → Nat → Nat → Prop) : Prop :=
  ∀ (S : Nat → Prop) (e e' : Enc), EInv S e → w e = .ok e' →
    ∃ x, e'.out = e.out ++ x ∧ EInv (ext S e.out.length e'.out.length) e' ∧
      ∀ buf', Agree (ext S e.out.length e'.out.length) e'.out buf' → Φ buf' e.out.length e'.out.length

def wPut (x : Bytes) : Writer := fun e => .ok (e.put x)
def wSeq (w1 w2 : Writer) : Writer := fun e =>
  match w1 e with
  | .error err => .error err
  | .ok e => w2 e
def wFold {α} (item : α → Writer) : List α → Writer
  | [] => fun e => .ok e
  | a :: as => wSeq (item a) (wFold item as)
/-- `create_length_index`; body; `set_length_index` -/
def wWin16 (body : Writer) : Writer := fun e =>
  let li := e.out.length
  match body (e.put [0, 0]) with
  | .error err => .error err
  | .ok e => setLen e li

theorem ext_self (S : Nat → Prop) (a : Nat) : ext S a a = S := by
  funext i; apply propext; unfold ext; constructor
  · rintro (h | h); exact h; omega
  · exact Or.inl

theorem spec_put (x : Bytes) : WriterSpec (wPut x) (fun buf s t => t = s + x.length ∧ BytesAt buf s x) := by
  intro S e e' hinv h
  simp [wPut] at h; subst h
  have hl : (e.put x).out.length = e.out.length + x.length := by simp [Enc.put]
  refine ⟨x, rfl, by rw [hl]; exact EInv.put x hinv, ?_⟩
  intro buf' ha
  rw [hl] at ha ⊢
  exact ⟨rfl, bytesAt_put ha⟩

theorem spec_name (n : Name) (hwf : wfName n) :
    WriterSpec (fun e => encName e n)
      (fun buf s t => ∃ n' h, n'.lower = n.lower ∧ h ≤ 16 ∧ NameAt buf true s n' h t) := by
  intro S e e' hinv h
  obtain ⟨x, hx, _, hinv', n', hh, hci, h16, hname⟩ := encName_spec n S e e' hwf hinv h
  exact ⟨x, hx, hinv', fun buf' ha => ⟨n', hh, hci, h16, hname buf' ha⟩⟩

theorem spec_seq {w1 w2 : Writer} {Φ1 Φ2 : Bytes → Nat → Nat → Prop}
    (h1 : WriterSpec w1 Φ1) (h2 : WriterSpec w2 Φ2) :
    WriterSpec (wSeq w1 w2) (fun buf s t => ∃ m, s ≤ m ∧ m ≤ t ∧ Φ1 buf s m ∧ Φ2 buf m t) := by
  intro S e e' hinv h
  unfold wSeq at h
  split at h; · simp at h
  rename_i e1 he1
  obtain ⟨x1, hx1, hinv1, hf1⟩ := h1 S e e1 hinv he1
  obtain ⟨x2, hx2, hinv2, hf2⟩ := h2 _ e1 e' hinv1 h
  have hL1 : e.out.length ≤ e1.out.length := by rw [hx1]; simp
  have hL2 : e1.out.length ≤ e'.out.length := by rw [hx2]; simp
  rw [ext_ext S hL1 hL2] at hinv2 hf2
  refine ⟨x1 ++ x2, by rw [hx2, hx1]; simp, hinv2, ?_⟩
  intro buf' ha
  have ha1 : Agree (ext S e.out.length e1.out.length) e1.out buf' := by
    have ha2 : Agree (ext S e.out.length e'.out.length) (e1.out ++ x2) buf' := by rw [← hx2]; exact ha
    exact Agree.mono (fun i hi => by
      rcases hi with h | h
      · exact Or.inl h
      · exact Or.inr ⟨h.1, by omega⟩) hinv1.1 ha2
  exact ⟨e1.out.length, hL1, hL2, hf1 buf' ha1, hf2 buf' ha⟩

/-- a chain of items -/
inductive ChainAt {α} (Φ : α → Bytes → Nat → Nat → Prop) (buf : Bytes) : Nat → List α → Nat → Prop
  | nil {s} : ChainAt Φ buf s [] s
  | cons {s m t a as} : s ≤ m → Φ a buf s m → ChainAt Φ buf m as t → ChainAt Φ buf s (a :: as) t

theorem spec_fold {α} {item : α → Writer} {Φ : α → Bytes → Nat → Nat → Prop} :
    ∀ (as : List α), (∀ a ∈ as, WriterSpec (item a) (Φ a)) →
      WriterSpec (wFold item as) (fun buf s t => ChainAt Φ buf s as t) := by
  intro as
  induction as with
  | nil =>
    intro _ S e e' hinv h
    simp [wFold] at h; subst h
    exact ⟨[], by simp, by rw [ext_self]; exact hinv, fun _ _ => .nil⟩
  | cons a as ih =>
    intro hall
    have hs := spec_seq (hall a (by simp)) (ih (fun b hb => hall b (by simp [hb])))
    intro S e e' hinv h
    obtain ⟨x, hx, hinv', hf⟩ := hs S e e' hinv h
    refine ⟨x, hx, hinv', fun buf' ha => ?_⟩
    obtain ⟨m, h1, _, hΦ, hc⟩ := hf buf' ha
    exact .cons h1 hΦ hc

/-- length-prefixed window with back-patching -/
theorem spec_win16 {body : Writer} {Φ : Bytes → Nat → Nat → Prop} (hb : WriterSpec body Φ) :
    WriterSpec (wWin16 body)
      (fun buf s t => ∃ len, len ≤ 65535 ∧ BytesAt buf s (beBytes 2 len) ∧ t = s + 2 + len ∧ Φ buf (s + 2) t) := by
  intro S e e' hinv h
  unfold wWin16 at h
  simp only at h
  split at h; · simp at h
  rename_i e4 h4
  have hinv3 := EInv.put_unfrozen [0, 0] hinv
  obtain ⟨x4, hx4, hinv4, hf4⟩ := hb S _ e4 hinv3 h4
  have hL3 : (e.put [0, 0]).out.length = e.out.length + 2 := by simp [Enc.put]
  have hL4 : e4.out.length = e.out.length + 2 + x4.length := by rw [hx4, List.length_append, hL3]
  rw [hL3] at hinv4 hf4
  unfold setLen at h
  simp only at h
  split at h; · simp at h
  rename_i hlen
  simp at h; subst h
  simp only
  have hpl : (beBytes 2 (e4.out.length - (e.out.length + 2))).length = 2 := by simp
  have hfit : e.out.length + (beBytes 2 (e4.out.length - (e.out.length + 2))).length ≤ e4.out.length := by
    rw [hpl]; omega
  have hBl := patch_length e4.out e.out.length _ hfit
  have hS4 : ∀ i, ext S (e.out.length + 2) e4.out.length i → i < e.out.length ∨ e.out.length + 2 ≤ i := by
    intro i hi
    rcases hi with hi | hi
    · exact Or.inl (hinv.1 i hi)
    · exact Or.inr hi.1
  have hAgreeB : Agree (ext S (e.out.length + 2) e4.out.length) e4.out
      (patch e4.out e.out.length (beBytes 2 (e4.out.length - (e.out.length + 2)))) := by
    refine ⟨by rw [hBl]; omega, ?_⟩
    intro i hi
    apply patch_get_out _ _ _ hfit
    rw [hpl]; exact hS4 i hi
  have hsub : ∀ i, ext S (e.out.length + 2) e4.out.length i → ext S e.out.length e4.out.length i := by
    intro i hi
    rcases hi with hi | hi
    · exact Or.inl hi
    · exact Or.inr ⟨by omega, hi.2⟩
  rw [hBl]
  refine ⟨(patch e4.out e.out.length (beBytes 2 (e4.out.length - (e.out.length + 2)))).drop e.out.length,
    ?_, ⟨?_, ?_⟩, ?_⟩
  · -- the patched buffer still starts with the old output
    apply List.ext_getElem?
    intro i
    by_cases hi : i < e.out.length
    · rw [patch_get_out _ _ _ hfit i (Or.inl hi), List.getElem?_append_left hi, hx4]
      simp only [Enc.put, List.append_assoc]
      rw [List.getElem?_append_left hi]
    · rw [List.getElem?_append_right (by omega), List.getElem?_drop]
      congr 1; omega
  · intro i hi
    rw [hBl]
    rcases hi with hi | hi
    · have := hinv.1 i hi; omega
    · exact hi.2
  · intro p hp
    exact Good.grow hsub (Good.patch hBl (fun i hi => hAgreeB.2 i hi) (hinv4.2 p hp))
  · intro buf' ha
    have ha4 := Agree.trans hsub hAgreeB ha
    refine ⟨e4.out.length - (e.out.length + 2), by omega, ?_, by omega, hf4 buf' ha4⟩
    intro j hj
    rw [ha.2 (e.out.length + j) (Or.inr ⟨by omega, by rw [hpl] at hj; omega⟩)]
    exact patch_get_in _ _ _ hfit j hj

#print axioms spec_win16
#print axioms spec_fold


/-! ### composition example: an OPT-like record body – RDATA window containing a list of
`code, length, data` options, each with its own back-patched length (nested patching) -/

def wOption (o : Nat × Bytes) : Writer := wSeq (wPut (beBytes 2 o.1)) (wWin16 (wPut o.2))
def wOptRData (opts : List (Nat × Bytes)) : Writer := wWin16 (wFold wOption opts)

def OptionAt (o : Nat × Bytes) (buf : Bytes) (s t : Nat) : Prop :=
  ∃ m, s ≤ m ∧ m ≤ t ∧ (m = s + (beBytes 2 o.1).length ∧ BytesAt buf s (beBytes 2 o.1)) ∧
    ∃ len, len ≤ 65535 ∧ BytesAt buf m (beBytes 2 len) ∧ t = m + 2 + len ∧
      (t = m + 2 + o.2.length ∧ BytesAt buf (m + 2) o.2)

theorem spec_optRData (opts : List (Nat × Bytes)) :
    WriterSpec (wOptRData opts)
      (fun buf s t => ∃ len, len ≤ 65535 ∧ BytesAt buf s (beBytes 2 len) ∧ t = s + 2 + len ∧
        ChainAt OptionAt buf (s + 2) opts t) :=
  spec_win16 (spec_fold opts (fun o _ => spec_seq (spec_put _) (spec_win16 (spec_put _))))

#print axioms spec_optRData
