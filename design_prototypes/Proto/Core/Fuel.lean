import Proto.Core.Sound

variable (utf8 : Bytes → Bool)

theorem u8_err {d : D} {e : DErr} (h : d.u8 = .error e) : e = .notEnough := by
  unfold D.u8 at h
  split at h
  · split at h <;> simp at h; exact h.symm
  · simp at h; exact h.symm

theorem read_err {d : D} {n : Nat} {e : DErr} (h : d.read n = .error e) : e = .notEnough := by
  unfold D.read at h
  split at h <;> simp at h; exact h.symm

theorem appendLabel_err {n : Name} {l : Label} {e : DErr} (h : appendLabel n l = .error e) :
    e = .nameLength := by
  unfold appendLabel at h
  split at h <;> simp at h; exact h.symm

theorem nameLabel_err {d : D} {name : Name} {len : UInt8} {e : DErr}
    (h : d.nameLabel utf8 name len = .error e) : e ≠ .fuel := by
  unfold D.nameLabel at h
  split at h
  · rename_i e' hr; simp at h; subst h; rw [read_err hr]; simp
  · split at h; · simp at h; subst h; simp
    split at h; · simp at h; subst h; simp
    split at h
    · rename_i e' ha; simp at h; subst h; rw [appendLabel_err ha]; simp
    · split at h
      · rename_i e' hu; simp at h; subst h; rw [u8_err hu]; simp
      · simp at h

/-- Termination argument of C07: the fuel is never what stops the expansion. -/
theorem nameRec_no_fuel : ∀ (fuel : Nat) (d : D) (name : Name) (seen : List Nat) (len : UInt8),
    d.lim ≤ d.buf.length →
    Name.sz name ≤ 254 → seen.length ≤ 16 →
    (254 - Name.sz name) / 2 + (16 - seen.length) + 1 < fuel →
    nameRec utf8 fuel d name seen len ≠ .error .fuel := by
  intro fuel
  induction fuel with
  | zero => intro _ _ _ _ _ _ _ h; omega
  | succ fuel ih =>
    intro d name seen len hlim hsz hseen hf
    unfold nameRec
    split; · simp
    rename_i hnz
    split
    · split
      · rename_i e h; rw [u8_err h]; simp
      rename_i b d1 hu8
      obtain ⟨_, _, u3⟩ := u8_ok hu8
      simp only
      split; · simp
      split; · simp
      rename_i hlen16
      split
      · rename_i e h; rw [u8_err h]; simp
      rename_i l2 d2 hu8'
      obtain ⟨_, v2, v3⟩ := u8_ok hu8'
      apply ih
      · rw [v3]; simp; rw [u3]; simpa using hlim
      · exact hsz
      · simp; omega
      · simp; omega
    · split
      · rename_i e h
        intro hc; simp at hc; exact nameLabel_err utf8 h hc
      · rename_i nb name' d1 hl
        obtain ⟨lab, l1, _, _, _, l5, l6, _, _, l9⟩ := nameLabel_ok utf8 hlim hl
        have hlen1 : 1 ≤ len.toNat := by
          rcases Nat.eq_zero_or_pos len.toNat with hz | hz
          · exfalso; apply hnz; exact UInt8.toNat_inj.mp (by simpa using hz)
          · exact hz
        apply ih
        · rw [l9]; exact hlim
        · rw [l5, Name.sz_append, Name.sz_cons]; simp; omega
        · exact hseen
        · rw [l5, Name.sz_append, Name.sz_cons]; simp; omega

/-- with the model's constant fuel 200 and an empty visited set -/
theorem nameRec_200_no_fuel (d : D) (name : Name) (len : UInt8)
    (hlim : d.lim ≤ d.buf.length) (hsz : Name.sz name ≤ 254) :
    nameRec utf8 200 d name [] len ≠ .error .fuel :=
  nameRec_no_fuel utf8 200 d name [] len hlim hsz (by simp) (by simp; omega)

#print axioms nameRec_200_no_fuel
