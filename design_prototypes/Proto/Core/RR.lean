import Proto.Core.EncInv

/-! Prototype: record-level encoder → spec with one ghost set of *frozen* positions and length
back-patching. Mini field language (fixed-width number, compressible name, rest-of-RDATA). -/

inductive Fld | num (w : Nat) | name | rest
  deriving Repr, DecidableEq
inductive Val | num (n : Nat) | name (n : Name) | bytes (b : Bytes)
  deriving Repr

/-- big-endian, `w` octets -/
def beBytes : Nat → Nat → Bytes
  | 0, _ => []
  | w + 1, n => UInt8.ofNat (n / 256 ^ w % 256) :: beBytes w n

@[simp] theorem beBytes_length (w n : Nat) : (beBytes w n).length = w := by
  induction w with
  | zero => rfl
  | succ w ih => simp [beBytes, ih]

def Enc.put (e : Enc) (x : Bytes) : Enc := { e with out := e.out ++ x }

def patch (buf : Bytes) (i : Nat) (x : Bytes) : Bytes := buf.take i ++ x ++ buf.drop (i + x.length)

def encField (e : Enc) : Fld → Val → Except EErr Enc
  | .num w, .num n => .ok (e.put (beBytes w n))
  | .name, .name n => encName e n
  | .rest, .bytes b => .ok (e.put b)
  | _, _ => .error .string

def encFields (e : Enc) : List Fld → List Val → Except EErr Enc
  | [], [] => .ok e
  | f :: fs, v :: vs =>
    match encField e f v with
    | .error err => .error err
    | .ok e => encFields e fs vs
  | _, _ => .error .string

/-- `set_length_index` -/
def setLen (e : Enc) (li : Nat) : Except EErr Enc :=
  let len := e.out.length - (li + 2)
  if len > 65535 then .error .length else .ok { e with out := patch e.out li (beBytes 2 len) }

def encRR (e : Enc) (owner : Name) (ty cls ttl : Nat) (fs : List Fld) (vs : List Val) : Except EErr Enc :=
  match encName e owner with
  | .error err => .error err
  | .ok e =>
    let e := e.put (beBytes 2 ty ++ beBytes 2 cls ++ beBytes 4 ttl)
    let li := e.out.length
    let e := e.put [0, 0]
    match encFields e fs vs with
    | .error err => .error err
    | .ok e => setLen e li

/-! ### spec side -/

def BytesAt (buf : Bytes) (off : Nat) (x : Bytes) : Prop := ∀ i, i < x.length → buf[off + i]? = x[i]?

inductive FieldAt (buf : Bytes) (lim : Nat) : Nat → Fld → Val → Nat → Prop
  | num {off w n} : BytesAt buf off (beBytes w n) → FieldAt buf lim off (.num w) (.num n) (off + w)
  | name {off n h e} : NameAt buf true off n h e → h ≤ 16 → FieldAt buf lim off .name (.name n) e
  | rest {off b} : BytesAt buf off b → off + b.length = lim → FieldAt buf lim off .rest (.bytes b) lim

inductive FieldsAt (buf : Bytes) (lim : Nat) : Nat → List Fld → List Val → Prop
  | nil {off} : off = lim → FieldsAt buf lim off [] []
  | cons {off off' f v fs vs} : FieldAt buf lim off f v off' → FieldsAt buf lim off' fs vs →
      FieldsAt buf lim off (f :: fs) (v :: vs)

/-- values equal up to ASCII case of names -/
inductive ValCi : Val → Val → Prop
  | num (n) : ValCi (.num n) (.num n)
  | name {a b : Name} : a.lower = b.lower → ValCi (.name a) (.name b)
  | bytes (b) : ValCi (.bytes b) (.bytes b)

inductive ValsCi : List Val → List Val → Prop
  | nil : ValsCi [] []
  | cons {a b as bs} : ValCi a b → ValsCi as bs → ValsCi (a :: as) (b :: bs)

def wfVal : Fld → Val → Prop
  | .name, .name n => wfName n
  | _, _ => True

/-- `rest` may only be the last field -/
def restLast : List Fld → Prop
  | [] => True
  | [_] => True
  | f :: fs => f ≠ .rest ∧ restLast fs

/-! ### generic writer facts -/

theorem EInv.put {S : Nat → Prop} {e : Enc} (x : Bytes) (h : EInv S e) :
    EInv (ext S e.out.length (e.out.length + x.length)) (e.put x) := by
  refine ⟨?_, ?_⟩
  · intro i hi
    simp only [Enc.put, List.length_append]
    rcases hi with h' | h'
    · have := h.1 i h'; omega
    · omega
  · intro p hp
    exact Good.mono (ext_mono _ _ _) h.1 (h.2 p hp)

/-- appending without freezing the new octets (length placeholder) -/
theorem EInv.put_unfrozen {S : Nat → Prop} {e : Enc} (x : Bytes) (h : EInv S e) : EInv S (e.put x) := by
  refine ⟨?_, ?_⟩
  · intro i hi
    simp only [Enc.put, List.length_append]
    have := h.1 i hi; omega
  · intro p hp
    exact Good.mono (fun _ h => h) h.1 (h.2 p hp)

theorem bytesAt_put {S : Nat → Prop} {buf x buf' : Bytes}
    (ha : Agree (ext S buf.length (buf.length + x.length)) (buf ++ x) buf') : BytesAt buf' buf.length x := by
  intro i hi
  rw [ha.2 (buf.length + i) (Or.inr ⟨by omega, by omega⟩), List.getElem?_append_right (by omega)]
  congr 1; omega

theorem Agree.weaken {S S' : Nat → Prop} {buf buf' : Bytes} (hS : ∀ i, S i → S' i)
    (h : Agree S' buf buf') : Agree S buf buf' := ⟨h.1, fun i hi => h.2 i (hS i hi)⟩

theorem patch_length (buf : Bytes) (i : Nat) (x : Bytes) (h : i + x.length ≤ buf.length) :
    (patch buf i x).length = buf.length := by
  simp [patch, List.length_take, List.length_drop]; omega

theorem patch_get_out (buf : Bytes) (i : Nat) (x : Bytes) (h : i + x.length ≤ buf.length) (j : Nat)
    (hj : j < i ∨ i + x.length ≤ j) : (patch buf i x)[j]? = buf[j]? := by
  unfold patch
  rcases hj with hj | hj
  · rw [List.append_assoc, List.getElem?_append_left (by simp [List.length_take]; omega)]
    rw [List.getElem?_take_of_lt hj]
  · rw [List.getElem?_append_right (by simp [List.length_take]; omega)]
    simp only [List.length_append, List.length_take]
    rw [List.getElem?_drop]
    congr 1
    have : min i buf.length = i := by omega
    omega

theorem patch_get_in (buf : Bytes) (i : Nat) (x : Bytes) (h : i + x.length ≤ buf.length) (j : Nat)
    (hj : j < x.length) : (patch buf i x)[i + j]? = x[j]? := by
  unfold patch
  rw [List.getElem?_append_left (by simp [List.length_take]; omega)]
  rw [List.getElem?_append_right (by simp [List.length_take]; omega)]
  simp only [List.length_take]
  congr 1
  have : min i buf.length = i := by omega
  omega

theorem Agree.trans {S S' : Nat → Prop} {a b c : Bytes} (hS : ∀ i, S i → S' i)
    (h1 : Agree S a b) (h2 : Agree S' b c) : Agree S a c :=
  ⟨by have := h1.1; have := h2.1; omega, fun i hi => by rw [h2.2 i (hS i hi), h1.2 i hi]⟩

theorem Agree.append (S : Nat → Prop) (a x : Bytes) (hb : ∀ i, S i → i < a.length) : Agree S a (a ++ x) :=
  ⟨by simp, fun i hi => List.getElem?_append_left (hb i hi)⟩

theorem Good.grow {S S' : Nat → Prop} {buf : Bytes} {k off r} (hS : ∀ i, S i → S' i)
    (h : Good S buf k off r) : Good S' buf k off r := by
  obtain ⟨h1, h2, h3, k', ek, hk, hn⟩ := h
  exact ⟨h1, h2, h3, k', ek, hk, fun buf' ha => hn buf' (Agree.weaken hS ha)⟩

theorem encField_spec {S : Nat → Prop} {e e' : Enc} {f : Fld} {v : Val}
    (hinv : EInv S e) (hwf : wfVal f v) (h : encField e f v = .ok e') :
    ∃ x, e'.out = e.out ++ x ∧ EInv (ext S e.out.length e'.out.length) e' ∧
      ∃ v', ValCi v v' ∧ ∀ buf' lim, Agree (ext S e.out.length e'.out.length) e'.out buf' →
        (f = .rest → lim = e'.out.length) → FieldAt buf' lim e.out.length f v' e'.out.length := by
  cases f with
  | num w =>
    cases v with
    | num n =>
      simp [encField] at h; subst h
      have hl : (e.put (beBytes w n)).out.length = e.out.length + w := by simp [Enc.put]
      refine ⟨beBytes w n, rfl, by rw [hl]; simpa using EInv.put (beBytes w n) hinv, .num n, .num n, ?_⟩
      intro buf' lim ha _
      rw [hl] at ha ⊢
      exact .num (bytesAt_put (S := S) (buf := e.out) (x := beBytes w n) (by simpa [Enc.put] using ha))
    | name _ => simp [encField] at h
    | bytes _ => simp [encField] at h
  | name =>
    cases v with
    | name n =>
      simp only [encField] at h
      obtain ⟨x, hx, _, hinv', n', hh, hci, h16, hname⟩ := encName_spec n S e e' hwf hinv h
      exact ⟨x, hx, hinv', .name n', .name hci.symm, fun buf' lim ha _ => .name (hname buf' ha) h16⟩
    | num _ => simp [encField] at h
    | bytes _ => simp [encField] at h
  | rest =>
    cases v with
    | bytes b =>
      simp [encField] at h; subst h
      have hl : (e.put b).out.length = e.out.length + b.length := by simp [Enc.put]
      refine ⟨b, rfl, by rw [hl]; exact EInv.put b hinv, .bytes b, .bytes b, ?_⟩
      intro buf' lim ha hlim
      rw [hl] at ha
      rw [hlim rfl, hl]
      have := FieldAt.rest (buf := buf') (lim := e.out.length + b.length) (off := e.out.length) (b := b)
        (bytesAt_put ha) rfl
      exact this
    | num _ => simp [encField] at h
    | name _ => simp [encField] at h

def wfVals : List Fld → List Val → Prop
  | [], [] => True
  | f :: fs, v :: vs => wfVal f v ∧ wfVals fs vs
  | _, _ => False

theorem encFields_spec : ∀ (fs : List Fld) (vs : List Val) (S : Nat → Prop) (e e' : Enc),
    EInv S e → wfVals fs vs → restLast fs → encFields e fs vs = .ok e' →
    ∃ x, e'.out = e.out ++ x ∧ EInv (ext S e.out.length e'.out.length) e' ∧
      ∃ vs', ValsCi vs vs' ∧ ∀ buf', Agree (ext S e.out.length e'.out.length) e'.out buf' →
        FieldsAt buf' e'.out.length e.out.length fs vs' := by
  intro fs
  induction fs with
  | nil =>
    intro vs S e e' hinv hwf _ h
    cases vs with
    | nil =>
      simp [encFields] at h; subst h
      refine ⟨[], by simp, ?_, [], .nil, fun buf' _ => .nil rfl⟩
      have : ext S e.out.length e.out.length = S := by
        funext i; apply propext; unfold ext; constructor
        · rintro (h | h); exact h; omega
        · exact Or.inl
      rw [this]; exact hinv
    | cons _ _ => simp [encFields] at h
  | cons f fs ih =>
    intro vs S e e' hinv hwf hrl h
    cases vs with
    | nil => simp [encFields] at h
    | cons v vs =>
      simp only [encFields] at h
      split at h; · simp at h
      rename_i e1 h1
      obtain ⟨x1, hx1, hinv1, v', hv', hf⟩ := encField_spec hinv hwf.1 h1
      have hrl' : restLast fs := by
        cases fs with
        | nil => trivial
        | cons g gs => exact hrl.2
      obtain ⟨x2, hx2, hinv2, vs', hvs', hfs⟩ := ih vs _ e1 e' hinv1 hwf.2 hrl' h
      have hL1 : e.out.length ≤ e1.out.length := by rw [hx1]; simp
      have hL2 : e1.out.length ≤ e'.out.length := by rw [hx2]; simp
      rw [ext_ext S hL1 hL2] at hinv2 hfs
      refine ⟨x1 ++ x2, by rw [hx2, hx1]; simp, hinv2, v' :: vs', .cons hv' hvs', ?_⟩
      intro buf' ha
      have ha1 : Agree (ext S e.out.length e1.out.length) e1.out buf' := by
        have ha2 : Agree (ext S e.out.length e'.out.length) (e1.out ++ x2) buf' := by rw [← hx2]; exact ha
        exact Agree.mono (fun i hi => by
          rcases hi with h | h
          · exact Or.inl h
          · exact Or.inr ⟨h.1, by omega⟩) hinv1.1 ha2
      refine .cons (hf buf' e'.out.length ha1 ?_) (hfs buf' ha)
      intro hrest
      -- `rest` is last: nothing was written after it
      subst hrest
      cases fs with
      | nil =>
        cases vs with
        | nil => simp [encFields] at h; rw [h]
        | cons _ _ => simp [encFields] at h
      | cons g gs => exact absurd rfl hrl.1

#print axioms encFields_spec

def RRAt (buf : Bytes) (off : Nat) (owner : Name) (ty cls ttl : Nat) (fs : List Fld) (vs : List Val)
    (e : Nat) : Prop :=
  ∃ h e1 rdlen, NameAt buf true off owner h e1 ∧ h ≤ 16 ∧
    BytesAt buf e1 ((beBytes 2 ty ++ beBytes 2 cls ++ beBytes 4 ttl) ++ beBytes 2 rdlen) ∧ rdlen ≤ 65535 ∧
    e = e1 + 10 + rdlen ∧ FieldsAt buf e (e1 + 10) fs vs

theorem BytesAt.append {buf : Bytes} {off : Nat} {x y : Bytes}
    (hx : BytesAt buf off x) (hy : BytesAt buf (off + x.length) y) : BytesAt buf off (x ++ y) := by
  intro i hi
  by_cases h : i < x.length
  · rw [hx i h, List.getElem?_append_left h]
  · simp at hi
    have := hy (i - x.length) (by omega)
    rw [show off + x.length + (i - x.length) = off + i by omega] at this
    rw [this, List.getElem?_append_right (by omega)]

theorem encRR_spec {S : Nat → Prop} {e e' : Enc} {owner : Name} {ty cls ttl : Nat}
    {fs : List Fld} {vs : List Val}
    (hinv : EInv S e) (hwfo : wfName owner) (hwf : wfVals fs vs) (hrl : restLast fs)
    (h : encRR e owner ty cls ttl fs vs = .ok e') :
    Agree (fun i => i < e.out.length) e.out e'.out ∧
    EInv (ext S e.out.length e'.out.length) e' ∧
    ∃ owner' vs', owner'.lower = owner.lower ∧ ValsCi vs vs' ∧
      ∀ buf', Agree (ext S e.out.length e'.out.length) e'.out buf' →
        RRAt buf' e.out.length owner' ty cls ttl fs vs' e'.out.length := by
  unfold encRR at h
  split at h; · simp at h
  rename_i e1 h1
  obtain ⟨x1, hx1, _, hinv1, owner', hh, hci, h16, hname⟩ := encName_spec owner S e e1 hwfo hinv h1
  simp only at h
  split at h; · simp at h
  rename_i e4 h4
  -- names for the intermediate states
  generalize hhdr : beBytes 2 ty ++ beBytes 2 cls ++ beBytes 4 ttl = hdr at h4 h
  have hhl : hdr.length = 8 := by rw [← hhdr]; simp
  have hinv2 := EInv.put hdr hinv1
  have hinv3 := EInv.put_unfrozen [0, 0] hinv2
  obtain ⟨x4, hx4, hinv4, vs', hvs', hfs⟩ := encFields_spec fs vs _ _ e4 hinv3 hwf hrl h4
  -- lengths
  have hL1 : e1.out.length = e.out.length + x1.length := by rw [hx1]; simp
  have hL2 : (e1.put hdr).out.length = e1.out.length + 8 := by simp [Enc.put, hhl]
  have hL3 : ((e1.put hdr).put [0, 0]).out.length = e1.out.length + 10 := by simp [Enc.put, hhl]
  have hL4 : e4.out.length = e1.out.length + 10 + x4.length := by rw [hx4, List.length_append, hL3]
  rw [hL3, hhl] at hinv4 hfs
  rw [hhl] at hinv2 hinv3
  -- the back-patch
  unfold setLen at h
  simp only [hL2] at h
  split at h; · simp at h
  rename_i hlen
  simp at h; subst h
  simp only
  have hpl : (beBytes 2 (e4.out.length - (e1.out.length + 8 + 2))).length = 2 := by simp
  have hfit : e1.out.length + 8 + (beBytes 2 (e4.out.length - (e1.out.length + 8 + 2))).length ≤ e4.out.length := by
    rw [hpl]; omega
  have hBl := patch_length e4.out (e1.out.length + 8) _ hfit
  -- the frozen set before the patch: everything except the placeholder
  have hS4 : ∀ i, ext (ext (ext S e.out.length e1.out.length) e1.out.length (e1.out.length + 8))
      (e1.out.length + 10) e4.out.length i → i < e1.out.length + 8 ∨ e1.out.length + 8 + 2 ≤ i := by
    intro i hi
    rcases hi with (((hi | hi) | hi) | hi)
    · have := hinv.1 i hi; omega
    · omega
    · omega
    · omega
  have hAgreeB : Agree (ext (ext (ext S e.out.length e1.out.length) e1.out.length (e1.out.length + 8))
      (e1.out.length + 10) e4.out.length) e4.out
      (patch e4.out (e1.out.length + 8) (beBytes 2 (e4.out.length - (e1.out.length + 8 + 2)))) := by
    refine ⟨by rw [hBl]; omega, ?_⟩
    intro i hi
    apply patch_get_out _ _ _ hfit
    rw [hpl]; exact hS4 i hi
  have hsub : ∀ i, ext (ext (ext S e.out.length e1.out.length) e1.out.length (e1.out.length + 8))
      (e1.out.length + 10) e4.out.length i → ext S e.out.length e4.out.length i := by
    intro i hi
    rcases hi with (((hi | hi) | hi) | hi)
    · exact Or.inl hi
    · exact Or.inr ⟨hi.1, by omega⟩
    · exact Or.inr ⟨by omega, by omega⟩
    · exact Or.inr ⟨by omega, hi.2⟩
  rw [hBl]
  refine ⟨?_, ⟨?_, ?_⟩, owner', vs', hci, hvs', ?_⟩
  · -- the old output is untouched
    refine ⟨by rw [hBl]; omega, ?_⟩
    intro i hi
    rw [patch_get_out _ _ _ hfit i (Or.inl (by omega)), hx4]
    simp only [Enc.put, List.append_assoc]
    rw [hx1, List.append_assoc, List.getElem?_append_left hi]
  · intro i hi
    rw [hBl]
    rcases hi with hi | hi
    · have := hinv.1 i hi; omega
    · exact hi.2
  · intro p hp
    exact Good.grow hsub (Good.patch hBl (fun i hi => hAgreeB.2 i hi) (hinv4.2 p hp))
  · intro buf' ha
    have ha4 := Agree.trans hsub hAgreeB ha
    -- owner name
    have ha1 : Agree (ext S e.out.length e1.out.length) e1.out buf' := by
      refine Agree.trans (fun i hi => Or.inl (Or.inl hi)) ?_ ha4
      rw [hx4]; simp only [Enc.put, List.append_assoc]
      exact Agree.append _ _ _ hinv1.1
    -- header
    have ha2 : Agree (ext (ext S e.out.length e1.out.length) e1.out.length (e1.out.length + 8))
        (e1.out ++ hdr) buf' := by
      refine Agree.trans (fun i hi => Or.inl hi) ?_ ha4
      rw [hx4]; simp only [Enc.put, List.append_assoc]
      rw [← List.append_assoc]
      exact Agree.append _ _ _ hinv2.1
    have hb1 : BytesAt buf' e1.out.length hdr := bytesAt_put (by rw [hhl]; exact ha2)
    have hb2 : BytesAt buf' (e1.out.length + hdr.length)
        (beBytes 2 (e4.out.length - (e1.out.length + 8 + 2))) := by
      intro j hj
      rw [hhl, ha.2 (e1.out.length + 8 + j) (Or.inr ⟨by omega, by rw [hpl] at hj; omega⟩)]
      exact patch_get_in _ _ _ hfit j hj
    refine ⟨hh, e1.out.length, e4.out.length - (e1.out.length + 8 + 2), hname buf' ha1, h16,
      by rw [hhdr]; exact hb1.append hb2, by omega, by omega, ?_⟩
    have := hfs buf' ha4
    exact this

#print axioms encRR_spec
