import Proto.Core.Prefix

/-! C12 prototype: the ECS value type as a state machine over its public API
(`new`, `set_source_prefix_length`, `set_scope_prefix_length`, `set_address`), written
set-then-check-then-roll-back exactly like the `setter!` macro. -/

structure ECS where
  src : Nat
  scope : Nat
  addr : Bytes          -- 4 or 16 octets
  deriving Repr, DecidableEq

def ECS.checkAddr (s : ECS) : Except AErr Unit := checkPrefix s.addr (max s.src s.scope)

def ECS.new (src scope : Nat) (addr : Bytes) : Except AErr ECS :=
  let s : ECS := ⟨src, scope, addr⟩
  match s.checkAddr with
  | .ok () => .ok s
  | .error e => .error e

inductive Op
  | setSrc (v : Nat) | setScope (v : Nat) | setAddr (a : Bytes)

/-- the `setter!` macro: assign, check, restore the previous value on error -/
def ECS.step (s : ECS) : Op → ECS × Except AErr Unit
  | .setSrc v =>
    let prev := s.src
    let s' := { s with src := v }
    match s'.checkAddr with
    | .ok () => (s', .ok ())
    | .error e => ({ s' with src := prev }, .error e)
  | .setScope v =>
    let prev := s.scope
    let s' := { s with scope := v }
    match s'.checkAddr with
    | .ok () => (s', .ok ())
    | .error e => ({ s' with scope := prev }, .error e)
  | .setAddr a =>
    let prev := s.addr
    let s' := { s with addr := a }
    match s'.checkAddr with
    | .ok () => (s', .ok ())
    | .error e => ({ s' with addr := prev }, .error e)

/-- the documented constraint, stated without reference to `check_prefix` -/
def ECS.Inv (s : ECS) : Prop :=
  max s.src s.scope ≤ 8 * s.addr.length ∧ NoBitBeyond s.addr (max s.src s.scope)

theorem ECS.inv_iff (s : ECS) : s.Inv ↔ s.checkAddr = .ok () := (checkPrefix_ok_iff _ _).symm

theorem ECS.new_inv {src scope addr s} (h : ECS.new src scope addr = .ok s) : s.Inv := by
  unfold ECS.new at h
  simp only at h
  split at h
  · rename_i hc; simp at h; subst h; exact (ECS.inv_iff _).mpr hc
  · simp at h

theorem ECS.step_inv (s : ECS) (op : Op) (h : s.Inv) : (s.step op).1.Inv := by
  cases op <;> simp only [ECS.step] <;> split
  all_goals first
    | (rename_i hc; exact (ECS.inv_iff _).mpr hc)
    | exact h

/-- a setter that reports an error leaves the value exactly as it was -/
theorem ECS.step_err_unchanged (s : ECS) (op : Op) (e : AErr) (h : (s.step op).2 = .error e) :
    (s.step op).1 = s := by
  cases op <;> simp only [ECS.step] at h ⊢ <;> split <;> simp_all

/-- every value reachable through the public API satisfies the constraint -/
theorem ECS.reachable_inv (s : ECS) (ops : List Op) (h : s.Inv) :
    (ops.foldl (fun s op => (s.step op).1) s).Inv := by
  induction ops generalizing s with
  | nil => exact h
  | cons op ops ih => exact ih _ (ECS.step_inv s op h)

/-- setters never panic -/
theorem ECS.step_no_panic (s : ECS) (op : Op) : (s.step op).2 ≠ .error .panic := by
  cases op <;> simp only [ECS.step] <;> split <;> simp
  all_goals (rename_i e hc; intro he; subst he; exact checkPrefix_no_panic _ _ hc)

example : (ECS.new 24 0 [10, 0, 0, 0]).isOk = true := by decide
example : ((⟨24, 0, [10, 0, 0, 0]⟩ : ECS).step (.setSrc 1)).1 = ⟨24, 0, [10, 0, 0, 0]⟩ := by decide

#print axioms ECS.reachable_inv
#print axioms ECS.step_err_unchanged
