import Proto.Core.Utf8

/-! `check_ipv4_addr` / `check_ipv6_addr` (one generic model over the octet list) against the
bit-level statement "no address bit at position >= prefix". Prototype for C12/C17. -/

inductive AErr | prefix | mask | panic
  deriving Repr, DecidableEq

def checkPrefix (octets : Bytes) (p : Nat) : Except AErr Unit :=
  let bits := 8 * octets.length
  if bits < p then .error .prefix
  else if bits = p then .ok ()
  else
    match octets[p / 8]? with          -- Rust: `octects[index]`, panics when out of bounds
    | none => .error .panic
    | some o =>
      if (o &&& ((0xFF : UInt8) >>> UInt8.ofNat (p % 8))) != 0 then .error .mask
      else if (octets.drop (p / 8 + 1)).all (· == 0) then .ok () else .error .mask

/-- bit `j` (0 = most significant) of an octet -/
def obit (o : UInt8) (j : Nat) : Bool := (o.toNat / 2 ^ (7 - j)) % 2 == 1

/-- bit `j` of the address, network order -/
def abit (octets : Bytes) (j : Nat) : Bool :=
  match octets[j / 8]? with
  | some o => obit o (j % 8)
  | none => false

def NoBitBeyond (octets : Bytes) (p : Nat) : Prop := ∀ j, p ≤ j → j < 8 * octets.length → abit octets j = false

set_option maxRecDepth 100000 in
theorem mask_octet : ∀ (o : UInt8) (r : Fin 8),
    ((o &&& ((0xFF : UInt8) >>> UInt8.ofNat r.val)) == 0) = decide (∀ k : Fin 8, r ≤ k → obit o k.val = false) := by
  decide +kernel

set_option maxRecDepth 100000 in
theorem zero_octet : ∀ (o : UInt8), (o == 0) = decide (∀ k : Fin 8, obit o k.val = false) := by
  decide +kernel

theorem checkPrefix_no_panic (octets : Bytes) (p : Nat) : checkPrefix octets p ≠ .error .panic := by
  unfold checkPrefix
  simp only
  split; · simp
  split; · simp
  split
  · rename_i hn
    rw [List.getElem?_eq_none_iff] at hn
    omega
  · split; · simp
    split <;> simp

theorem checkPrefix_ok_iff (octets : Bytes) (p : Nat) :
    checkPrefix octets p = .ok () ↔ p ≤ 8 * octets.length ∧ NoBitBeyond octets p := by
  unfold checkPrefix
  simp only
  split
  · rename_i h; simp; intro h'; omega
  · rename_i h1
    split
    · rename_i h2
      simp only [true_iff]
      exact ⟨by omega, fun j hj hj' => by omega⟩
    · rename_i h2
      have hlt : p / 8 < octets.length := by omega
      rw [List.getElem?_eq_getElem hlt]
      simp only
      have hm := mask_octet octets[p / 8] ⟨p % 8, Nat.mod_lt _ (by omega)⟩
      simp only at hm
      constructor
      · intro hok
        split at hok; · simp at hok
        rename_i hmask
        split at hok
        · rename_i hall
          refine ⟨by omega, ?_⟩
          intro j hj hj'
          unfold abit
          rw [List.getElem?_eq_getElem (by omega)]
          simp only
          by_cases hsame : j / 8 = p / 8
          · -- same octet
            have hmask' : (octets[p / 8] &&& ((0xFF : UInt8) >>> UInt8.ofNat (p % 8)) == 0) = true := by
              simpa using hmask
            rw [hm] at hmask'
            have := of_decide_eq_true hmask' ⟨j % 8, Nat.mod_lt _ (by omega)⟩ (by
              show p % 8 ≤ j % 8
              have := Nat.div_add_mod j 8; have := Nat.div_add_mod p 8; omega)
            simp only [hsame]
            exact this
          · have hgt : p / 8 + 1 ≤ j / 8 := by
              have := Nat.div_le_div_right (c := 8) hj; omega
            rw [List.all_eq_true] at hall
            have hz := hall octets[j / 8] (by
              rw [List.mem_drop_iff_getElem]
              exact ⟨j / 8 - (p / 8 + 1), by omega, by congr 1; omega⟩)
            have := zero_octet octets[j / 8]
            rw [hz] at this
            exact of_decide_eq_true this.symm ⟨j % 8, Nat.mod_lt _ (by omega)⟩
        · simp at hok
      · rintro ⟨_, hno⟩
        have hmask : (octets[p / 8] &&& ((0xFF : UInt8) >>> UInt8.ofNat (p % 8)) == 0) = true := by
          rw [hm]
          apply decide_eq_true
          intro k hk
          have := hno (8 * (p / 8) + k.val) (by
            have := Nat.div_add_mod p 8
            have : p % 8 ≤ k.val := hk
            omega) (by have := k.isLt; omega)
          unfold abit at this
          have e1 : (8 * (p / 8) + k.val) / 8 = p / 8 := by have := k.isLt; omega
          have e2 : (8 * (p / 8) + k.val) % 8 = k.val := by have := k.isLt; omega
          rw [e1, e2, List.getElem?_eq_getElem hlt] at this
          exact this
        have hmask' : ((octets[p / 8] &&& ((0xFF : UInt8) >>> UInt8.ofNat (p % 8))) != 0) = false := by
          simpa using hmask
        simp only [hmask', Bool.false_eq_true, if_false]
        have hall : (octets.drop (p / 8 + 1)).all (· == 0) = true := by
          rw [List.all_eq_true]
          intro x hx
          rw [List.mem_drop_iff_getElem] at hx
          obtain ⟨i, hi, rfl⟩ := hx
          rw [zero_octet]
          apply decide_eq_true
          intro k
          have := hno (8 * (p / 8 + 1 + i) + k.val) (by
            have := Nat.div_add_mod p 8; have := Nat.mod_lt p (by omega : 0 < 8); omega)
            (by have := k.isLt; omega)
          unfold abit at this
          have e1 : (8 * (p / 8 + 1 + i) + k.val) / 8 = p / 8 + 1 + i := by have := k.isLt; omega
          have e2 : (8 * (p / 8 + 1 + i) + k.val) % 8 = k.val := by have := k.isLt; omega
          rw [e1, e2, List.getElem?_eq_getElem (by omega)] at this
          exact this
        simp [hall]

#print axioms checkPrefix_ok_iff
