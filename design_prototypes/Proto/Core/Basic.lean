/-! Prototype of the final-form name layer (design round): decoder as bounds on one buffer. -/
abbrev Bytes := List UInt8
abbrev Label := Bytes
abbrev Name := List Label

def ptrOff (a b : UInt8) : Nat := (a.toNat % 64) * 256 + b.toNat
def isPtr (b : UInt8) : Bool := 192 ≤ b.toNat

/-- sum of (len+1) over labels: printed length of a non-root name = wire length - 1 -/
def Name.sz (n : Name) : Nat := (n.map (fun l => l.length + 1)).sum

theorem Name.sz_append (a b : Name) : Name.sz (a ++ b) = Name.sz a + Name.sz b := by
  simp [Name.sz]
theorem Name.sz_cons (l : Label) (r : Name) : Name.sz (l :: r) = l.length + 1 + Name.sz r := by
  simp [Name.sz]
@[simp] theorem Name.sz_nil : Name.sz [] = 0 := rfl

inductive DErr
  | notEnough | utf8 | labelLength | nameLength | maxRecursion | endless | fuel
  deriving Repr, DecidableEq

/-- A decoder is a cursor `off` into `buf`, limited to `[.., lim)`. A Rust child `Decoder` owns a
`Bytes::slice` of its parent, i.e. a sub-range of the outermost buffer; `cost` counts octets examined. -/
structure D where
  buf : Bytes
  off : Nat
  lim : Nat
  cost : Nat := 0
  deriving Repr

def D.read (d : D) (n : Nat) : Except DErr (Bytes × D) :=
  if d.off + n ≤ d.lim then
    .ok ((d.buf.drop d.off).take n, { d with off := d.off + n, cost := d.cost + n })
  else .error .notEnough

def D.u8 (d : D) : Except DErr (UInt8 × D) :=
  if d.off + 1 ≤ d.lim then
    match d.buf[d.off]? with
    | some b => .ok (b, { d with off := d.off + 1, cost := d.cost + 1 })
    | none => .error .notEnough
  else .error .notEnough

/-- `DomainName::append_label` (limit as repaired: reject when 255 <= printed length) -/
def appendLabel (n : Name) (l : Label) : Except DErr Name :=
  if 255 ≤ Name.sz n + l.length + 1 then .error .nameLength else .ok (n ++ [l])

/-- `Decoder::domain_name_label` -/
def D.nameLabel (utf8 : Bytes → Bool) (d : D) (name : Name) (len : UInt8) :
    Except DErr (UInt8 × Name × D) :=
  match d.read len.toNat with
  | .error e => .error e
  | .ok (lab, d) =>
    if !utf8 lab then .error .utf8 else
    if 64 ≤ lab.length then .error .labelLength else
    match appendLabel name lab with
    | .error e => .error e
    | .ok name =>
      match d.u8 with
      | .error e => .error e
      | .ok (l, d) => .ok (l, name, d)

/-- `Decoder::domain_name_recursion` loop body (on the outermost buffer) -/
def nameRec (utf8 : Bytes → Bool) : Nat → D → Name → List Nat → UInt8 → Except DErr (Name × Nat)
  | 0, _, _, _, _ => .error .fuel
  | fuel+1, d, name, seen, len =>
    if len = 0 then .ok (name, d.cost)
    else if isPtr len then
      match d.u8 with
      | .error e => .error e
      | .ok (b, d) =>
        let off := ptrOff len b
        if seen.contains off then .error .endless
        else if seen.length + 1 > 16 then .error .maxRecursion
        else
          match ({ d with off := off } : D).u8 with
          | .error e => .error e
          | .ok (l, d) => nameRec utf8 fuel d name (off :: seen) l
    else
      match d.nameLabel utf8 name len with
      | .error e => .error e
      | .ok (l, name, d) => nameRec utf8 fuel d name seen l

/-- `Decoder::domain_name` loop (inside the current window) -/
def nameWin (utf8 : Bytes → Bool) : Nat → D → Name → UInt8 → Except DErr (Name × D)
  | 0, _, _, _ => .error .fuel
  | fuel+1, d, name, len =>
    if len = 0 then .ok (name, d)
    else if isPtr len then
      match d.u8 with
      | .error e => .error e
      | .ok (b, d) =>
        let dm : D := { buf := d.buf, off := ptrOff len b, lim := d.buf.length, cost := d.cost }
        match dm.u8 with
        | .error e => .error e
        | .ok (l, dm) =>
          match nameRec utf8 200 dm name [] l with
          | .error e => .error e
          | .ok (name, c) => .ok (name, { d with cost := c })
    else
      match d.nameLabel utf8 name len with
      | .error e => .error e
      | .ok (l, name, d) => nameWin utf8 fuel d name l

def D.name (utf8 : Bytes → Bool) (d : D) : Except DErr (Name × D) :=
  match d.u8 with
  | .error e => .error e
  | .ok (l, d) => nameWin utf8 200 d [] l

/-- RFC 1035 section 4.1.4. `bk = true` additionally demands backward pointers.
`e` is the offset just after the part of the name that is stored in place. -/
inductive NameAt (buf : Bytes) (bk : Bool) : Nat → Name → Nat → Nat → Prop
  | root {off} : buf[off]? = some 0 → NameAt buf bk off [] 0 (off + 1)
  | label {off} {len : UInt8} {lab : Label} {rest h e} :
      buf[off]? = some len → 1 ≤ len.toNat → len.toNat ≤ 63 → lab.length = len.toNat →
      (∀ i, i < lab.length → buf[off + 1 + i]? = lab[i]?) →
      NameAt buf bk (off + 1 + len.toNat) rest h e → NameAt buf bk off (lab :: rest) h e
  | ptr {off} {a b : UInt8} {n h e} :
      buf[off]? = some a → 192 ≤ a.toNat → buf[off + 1]? = some b →
      (bk = true → ptrOff a b < off) →
      NameAt buf bk (ptrOff a b) n h e → NameAt buf bk off n (h + 1) (off + 2)

theorem NameAt.weaken {buf off n h e} (hn : NameAt buf true off n h e) : NameAt buf false off n h e := by
  induction hn with
  | root h0 => exact .root h0
  | label a b c d f _ ih => exact .label a b c d f ih
  | ptr a b c _ _ ih => exact .ptr a b c (by simp) ih

theorem NameAt.first {buf bk off n h e} (hn : NameAt buf bk off n h e) : ∃ b, buf[off]? = some b := by
  cases hn with
  | root h => exact ⟨_, h⟩
  | label h => exact ⟨_, h⟩
  | ptr h => exact ⟨_, h⟩

theorem NameAt.end_gt {buf bk off n h e} (hn : NameAt buf bk off n h e) : off < e := by
  induction hn with
  | root _ => omega
  | label _ _ _ _ _ _ ih => omega
  | ptr _ _ _ _ _ _ => omega

theorem NameAt.det {buf bk off n h e} (h1 : NameAt buf bk off n h e) :
    ∀ {n' h' e'}, NameAt buf bk off n' h' e' → n = n' ∧ h = h' ∧ e = e' := by
  induction h1 with
  | root h0 =>
    intro n' h' e' h2
    cases h2 with
    | root _ => exact ⟨rfl, rfl, rfl⟩
    | label hb hl => rw [h0] at hb; cases hb; simp at hl
    | ptr hb hl => rw [h0] at hb; cases hb; simp at hl
  | @label off len lab rest h e hb h1 h63 hlen hbytes _ ih =>
    intro n' h' e' h2
    cases h2 with
    | root hb' => rw [hb] at hb'; cases hb'; simp at h1
    | @label _ len' lab' rest' _ _ hb' _ _ hlen' hbytes' hrest' =>
      rw [hb] at hb'; cases hb'
      have hlab : lab = lab' := by
        apply List.ext_getElem?
        intro i
        by_cases hi : i < lab.length
        · rw [← hbytes i hi, ← hbytes' i (by omega)]
        · rw [List.getElem?_eq_none (by omega), List.getElem?_eq_none (by omega)]
      obtain ⟨r1, r2, r3⟩ := ih hrest'
      exact ⟨by rw [hlab, r1], r2, r3⟩
    | ptr hb' hp => rw [hb] at hb'; cases hb'; omega
  | @ptr off a b n h e hb hp hb2 _ _ ih =>
    intro n' h' e' h2
    cases h2 with
    | root hb' => rw [hb] at hb'; cases hb'; simp at hp
    | label hb' _ h63 => rw [hb] at hb'; cases hb'; omega
    | ptr hb' _ hb2' _ hrest' =>
      rw [hb] at hb'; cases hb'
      rw [hb2] at hb2'; cases hb2'
      obtain ⟨r1, r2, _⟩ := ih hrest'
      exact ⟨r1, by omega, rfl⟩
