import Proto.Name

def hexVal (c : Char) : Option Nat :=
  if '0' ≤ c ∧ c ≤ '9' then some (c.toNat - 48)
  else if 'a' ≤ c ∧ c ≤ 'f' then some (c.toNat - 87) else none

def parseHex : List Char → Option Bytes
  | [] => some []
  | a :: b :: rest => do
    let x ← hexVal a; let y ← hexVal b; let r ← parseHex rest
    pure (UInt8.ofNat (x * 16 + y) :: r)
  | _ => none

def handle (line : String) : String :=
  match line.trimAscii.toString.splitOn " " with
  | ["name", h] =>
    match parseHex h.toList with
    | some b => match Dec.name (fun _ => true) { main := b, win := b, off := 0 } with
      | .ok (n, d) => s!"ok {n.length} {d.off}"
      | .error e => s!"err {repr e}"
    | none => "bad-hex"
  | _ => "bad-op"

partial def loop (h : IO.FS.Stream) (out : IO.FS.Stream) : IO Unit := do
  let line ← h.getLine
  if line.isEmpty then return ()
  out.putStrLn (handle line)
  loop h out

def main : IO Unit := do loop (← IO.getStdin) (← IO.getStdout)
