"""Per-property op streams, part C (C14..C18)."""
from props_b import *

def C14(tier, rng):
    cs = []
    trips = layouts(rng, sz(tier, 300, 3000))
    reps = sz(tier, 8, 40)
    for i, (m, b, r) in enumerate(trips):
        th = (1, 2, 16)[i % 3]
        cs.append(Case('mt.dns %d %d %s' % (th, reps, hx(b)), 'mt%d' % th))
    # values whose encoding exercises the merge of a large local index into a large table
    for _ in range(sz(tier, 40, 400)):
        pool = []
        names = [rand_name(rng, pool, maxlabels=6) for _ in range(rng.choice([20, 100]))]
        b, _ = render(names_msg(names, [rng.choice('qor') for _ in names]), Layout(rng, compress=0.5))
        cs.append(Case('mt.dns 16 %d %s' % (sz(tier, 8, 64), hx(b)), 'mt-names'))
    for b in corpus_vectors()[:sz(tier, 60, 400)]:
        cs.append(Case('mt.dns 2 %d %s' % (sz(tier, 8, 64), hx(b)), 'mt-corpus'))
    # histories on ONE thread: the same decode / encode repeated after calls that fail half-way (a pure function
    # cannot remember them): hostile pointer loops, over-long chains, oversized strings, oversized messages
    two_ptr = b'\0\1\1\0\0\3' + b'\0' * 6 + b'\3abc\0\0\1\0\1' + b'\1x\xc0\x0c\0\1\0\1' + b'\1y\xc0\x15\0\1\0\1'
    fwd = b'\0\1\1\0\0\2' + b'\0' * 6 + b'\xc0\x12\0\1\0\1' + b'\1z\xc0\x19\0\1\0\1' + b'\1w\xc0\x1e\0\1\0\1\3end\0'
    hostile = [pure_pointer_chain_msg(30), hop_chain_msg(25), b'\0\0\0\0\0\1' + b'\0' * 6 + b'\1a\xc0\x0e\xc0\x0c\0\1\0\1',
               b'\0\0\0\0\0\1' + b'\0' * 6 + b'\xc0\x0e\xc0\x10\xc0\x0c', fan(40, 255)[:-3]]
    valid = [two_ptr, fwd, hop_chain_msg(17), pure_pointer_chain_msg(17), hop_chain_msg(3)]
    for _ in range(sz(tier, 30, 300)):
        for v in valid:
            cs.append(Case('dec.dns %s' % hx(v), 'repeat'))
            cs.append(Case('dec.dns %s' % hx(rng.choice(hostile)), 'hostile'))
            cs.append(Case('dec.dns %s' % hx(v), 'repeat'))
    many = msg_with([{'ty': 1, 'name': (b'h%03d' % i, b'example', b'org'), 'ttl': i, 'cls': 1, 'f': [bytes([10, 0, i // 256, i % 256])]} for i in range(320)])
    big_ok = 'enc.dns %s' % pmsg(many)
    after = ['enc.dns %s' % pmsg(msg_with([{'ty': 2, 'name': (b'h001', b'example', b'org'), 'ttl': 0, 'cls': 1, 'f': [(b'ns', b'example', b'org')]}])),
             'enc.question %s' % pquestion({'name': (b'www', b'example', b'org'), 'qtype': 1, 'qclass': 1}),
             'enc.name %s' % pname((b'h300', b'example', b'org'))]
    for _ in range(sz(tier, 3, 20)):
        for g in after:
            cs.append(Case(g, 'repeat')); cs.append(Case(big_ok, 'repeat')); cs.append(Case(g, 'repeat'))
    # more than 128 / 256 distinct names, then names sharing suffixes with early AND late ones; hosts with A and AAAA
    for nhosts in (130, 150, 300):
        hosts = msg_with([{'ty': t, 'name': (b'host-%03d' % i, b'example', b'org'), 'ttl': 1, 'cls': 1, 'f': [bytes([i % 256] * (4 if t == 1 else 16))]}
                          for t in (1, 28) for i in range(nhosts)])
        bh, _ = render(hosts)
        for _ in range(sz(tier, 3, 12)):
            cs.append(Case('enc.dns %s' % pmsg(hosts), 'repeat'))
        cs.append(Case('mt.dns 16 %d %s' % (sz(tier, 4, 16), hx(bh)), 'mt-many-names'))
        cs.append(Case('mt.dns 2 %d %s' % (sz(tier, 8, 32), hx(bh)), 'mt-many-names'))
    # element-level decodes whose names are BARE POINTERS (to offset 0 / 12 of their own buffer), interleaved with message
    # decodes and with each other on one thread: what a pointer expands to depends on the buffer it is in, never on an
    # earlier call
    elems = []
    for k, owner in enumerate(((b'example', b'net'), (b'example', b'org'), (b'example', b'com'), (b'a',), (b'mail', b'example', b'net'))):
        w = b''.join(bytes([len(l)]) + l for l in owner) + b'\0'
        elems.append('dec.rr %s' % hx(w + b'\0\x0f\0\1\0\0\0\x3c\0\4\0\x0a\xc0\0'))          # MX exchange = pointer to the owner at 0
        elems.append('dec.rr %s' % hx(w + b'\0\x02\0\1\0\0\0\x3c\0\2\xc0\0'))                   # NS
        pad = b'\1p' * ((12 - len(w) % 12) // 2) if len(w) < 12 else b''
        elems.append('dec.question %s' % hx(b'\xc0\x04\0\1\0\1' if False else (w + b'\0\1\0\1')))
        elems.append('dec.name %s' % hx(w))
    msgs = ['dec.dns %s' % hx(v) for v in (two_ptr, hop_chain_msg(3))] + ['dec.dns %s' % hx(b) for b in corpus_vectors()[:6]]
    for _ in range(sz(tier, 6, 40)):
        order = elems + msgs
        rng.shuffle(order)
        for o in order: cs.append(Case(o, 'repeat'))
    zz = [names_msg_a(p) for p in look_alike_name_pairs() if p[0][0] in (b'Zone', b'zone', b'ZZ', b'zz')]
    for m in zz:
        b, _ = render(m)
        for _ in range(sz(tier, 6, 40)):
            cs.append(Case('mt.dns 16 %d %s' % (sz(tier, 8, 32), hx(b)), 'mt-zcase'))
        for _ in range(sz(tier, 40, 400)):
            cs.append(Case('enc.dns %s' % pmsg(m), 'repeat'))
    bad_enc = ['enc.rr %s' % prr({'ty': 13, 'name': (b'a', b'example'), 'ttl': 0, 'cls': 1, 'f': [b'c' * 300, b'x']}),
               'enc.dns %s' % pmsg(msg_with([{'ty': 10, 'name': (b'big', b'example'), 'ttl': 0, 'cls': 1, 'f': [bytes(40000)]}] * 2)),
               'enc.rr %s' % prr({'ty': 16, 'name': (b't', b'example'), 'ttl': 0, 'cls': 1, 'f': [[b'ok', b's' * 256]]})]
    for _ in range(sz(tier, 40, 400)):
        m = rand_msg(rng, maxrr=2)
        good = ['enc.dns %s' % pmsg(m), 'enc.question %s' % pquestion(rand_question(rng, [(b'a', b'example')])),
                'enc.name %s' % pname(rand_name(rng, [(b'a', b'example'), (b'big', b'example')]))]
        for g in good:
            cs.append(Case(g, 'repeat'))
            cs.append(Case(rng.choice(bad_enc), 'failing-enc'))
            cs.append(Case(g, 'repeat'))
    # messages above 16 KiB with names straddling offset 0x3FFF (table insertion guard + hash order)
    for off in range(0x3FFF - 24, 0x3FFF + 8, sz(tier, 2, 1)):
        m = high_offset_msg(rng, off)
        if m:
            m['an'].append({'ty': 2, 'name': (b'l0', b'l1', b'l2', b'l3'), 'ttl': 0, 'cls': 1, 'f': [(b'q', b'l1', b'l2', b'l3')]})
            m['an'].insert(1, {'ty': 2, 'name': (b'x',), 'ttl': 0, 'cls': 1, 'f': [(b'l0', b'l1', b'l2', b'l3')]})
            op = 'enc.dns %s' % pmsg(m)
            for _ in range(sz(tier, 6, 16)):
                cs.append(Case(op, 'repeat'))
            b, _ = render(m, Layout(rng, compress=1.0))
            cs.append(Case('mt.dns 16 %d %s' % (sz(tier, 4, 16), hx(b)), 'mt-hioff'))
    # plain repeat of encode on fresh encoders (hash seeds): same op several times in one stream
    for _ in range(sz(tier, 500, 5000)):
        m = rand_msg(rng)
        op = 'enc.dns %s' % pmsg(m)
        for _ in range(3):
            cs.append(Case(op, 'repeat'))
    # inputs on which a decoder could report DIFFERENT errors depending on an iteration order: several SvcParam keys
    # duplicated at once, several options / items invalid at once (the first offence in wire order is the answer, always)
    for keys in ((3, 3, 2, 2), (2, 2, 3, 3), (3, 2, 3, 2), (7, 8, 9, 7, 8, 9), (1, 3, 4, 6, 1, 3, 4, 6), (65535, 2, 65535, 2), (5, 4, 5, 4, 3, 3)):
        body = {1: b'\2h2', 2: b'', 3: b'\1\xbb', 4: b'\1\2\3\4', 5: b'\0\0', 6: bytes(16), 7: b'x', 8: b'y', 9: b'z', 65535: b''}
        w = svcb_rr(65, 1, b'\0', [pw(k, body[k]) for k in keys])
        m = b'\0\1\x81\x80\0\0\0\1\0\0\0\0' + w
        for th in (1, 2, 16):
            cs.append(Case('mt.dns %d %d %s' % (th, sz(tier, 64, 400), hx(m)), 'mt-dup-keys'))
        for _ in range(sz(tier, 12, 60)):
            cs.append(Case('dec.dns %s' % hx(m), 'repeat-dup-keys'))

    # names that are easy to confuse (equal text, different label boundaries; case pairs; non-letter bit-0x20 neighbours) in
    # one message, encoded MANY times with fresh encoders: an equality that disagrees with its hash makes the table lookup –
    # and with it the emitted bytes – depend on the per-instance hash seed with a small probability per call
    for a, b_ in look_alike_name_pairs():
        m = msg_with([{'ty': 2, 'name': a, 'ttl': 1, 'cls': 1, 'f': [b_]}, {'ty': 5, 'name': b_, 'ttl': 1, 'cls': 1, 'f': [a]},
                      {'ty': 15, 'name': (b'x',) + a, 'ttl': 1, 'cls': 1, 'f': [1, (b'y',) + b_]}], qs=[{'name': a, 'qtype': 1, 'qclass': 1}])
        bw, _ = render(m)
        cs.append(Case('mt.dns 16 %d %s' % (sz(tier, 96, 400), hx(bw)), 'mt-look-alike'))

    return cs

# ---------------------------------------------------------------- C15

def C15(tier, rng):
    cs = []
    cs += sweep_enc_rr_cases(types=(OPT,)) + sweep_rr_wire_cases(types=(OPT,))
    # option values reached through the setters (a refused call must not leave a value outside the RFC domain behind)
    cs += cookie_histories(2) + prefix_histories(2)
    for payload in range(0, 65536, sz(tier, 1, 1)):
        cs.append(Case('dec.rr %s' % hx(opt_rr([], cls=payload)), 'payload'))
    for pos in range(4):
        for v in range(256):
            for base in (0, 0x00008000, 0xFF000000, 0x12348000):
                ttl = (base & ~(0xFF << (8 * (3 - pos)))) | (v << (8 * (3 - pos)))
                cs.append(Case('dec.rr %s' % hx(opt_rr([], ttl=ttl)), 'ttl-octet%d' % pos))
    for owner in (b'\x00', b'\x01a\x00', b'\xc0\x00'):
        cs.append(Case('dec.rr %s' % hx(opt_rr([], owner=owner)), 'owner'))
    for clen in range(0, 65):
        for d in (0, 1, -1):
            cs.append(Case('dec.rr %s' % hx(opt_rr([opt_option(10, bytes(range(clen)), d)])), 'cookie%d' % clen))
    for plen in list(range(0, 65)) + [65000, 65500, 65520, 65521, 65522, 65523, 65524]:
        for fill in (0, 1):
            body = bytes([0] * plen) if not fill else bytes([0] * (plen - 1) + [1]) if plen else b''
            w = opt_rr([opt_option(12, body)])
            if len(w) <= 65535 + 11:
                cs.append(Case('dec.rr %s' % hx(w), 'pad%d' % plen))
    for body in (b'\xf0\xf0', b'\1\2\3', b'AAAA', b'\xff' * 128, b'\0\x80\0\x80', b'\1\0\1'):
        cs.append(Case('dec.rr %s' % hx(opt_rr([opt_option(12, body)])), 'pad-cancel'))
    # option-length deltas and all sequences of up to 3 (4 in thorough) options over a small set
    small = [opt_option(8, b'\0\1\x18\0\x0a\0\0'), opt_option(8, b'\0\2\x38\0' + b'\x20\1\x0d\xb8\0\0\0'), opt_option(10, b'12345678'),
             opt_option(10, b'12345678' + b's' * 8), opt_option(12, b''), opt_option(12, b'\0\0\0'), opt_option(8, b'\0\1\0\0'), opt_option(11, b'x')]
    for k in range(0, sz(tier, 4, 5)):
        for seq in itertools.product(range(len(small)), repeat=k):
            cs.append(Case('dec.rr %s' % hx(opt_rr([small[i] for i in seq])), 'seq%d' % k))
    for o in small:
        for d in DELTAS:
            body = o[4:]
            cs.append(Case('dec.rr %s' % hx(opt_rr([opt_option(int.from_bytes(o[:2], 'big'), body, d)])), 'optlen%+d' % d))
    # emitted options decode to the same option
    for _ in range(sz(tier, 4000, 40000)):
        rr = rand_rr(rng, OPT)
        cs.append(Case('enc.rr %s' % prr(rr), 'enc-opt', exp=('RR', lower_text(prr(rr)))))
    for sl in [None] + list(range(8, 33)):
        rr = {'ty': OPT, 'payload': 1232, 'ext': 0, 'ver': 0, 'do': 1, 'opts': [('cookie', b'ABCDEFGH', None if sl is None else bytes(range(sl)))]}
        cs.append(Case('enc.rr %s' % prr(rr), 'enc-cookie', exp=('RR', lower_text(prr(rr)))))
    for n in list(range(0, 65)) + [65000, 65520]:
        rr = {'ty': OPT, 'payload': 0, 'ext': 0, 'ver': 0, 'do': 0, 'opts': [('pad', n)]}
        cs.append(Case('enc.rr %s' % prr(rr), 'enc-pad', exp=('RR', lower_text(prr(rr)))))
    cs += rdata_limit_cases(only_opt=True)
    return cs

# ---------------------------------------------------------------- C16

def C16(tier, rng):
    cs = []
    cs += sweep_enc_rr_cases(types=(SVCB, HTTPS)) + sweep_rr_wire_cases(types=(SVCB, HTTPS))
    kinds = [0, 1, 2, 3, 4, 5, 6, 7, 65534, 65535]
    # emitted records: parameter sets over all kinds, any insertion order, duplicates
    for _ in range(sz(tier, 20000, 80000)):
        ty = rng.choice([SVCB, HTTPS])
        ps = [rand_param(rng, rng.choice(kinds)) for _ in range(rng.choice([0, 1, 2, 3, 5, 9]))]
        given = list(ps)
        # C16 is not about names: lower-case ones only, so that a different (legal) compression policy does not show here
        lc = lambda n: tuple(lower_label(l) for l in n)
        rr = {'ty': ty, 'name': lc(rand_name(rng)), 'ttl': bnum(rng, 4), 'cls': 1, 'prio': rng.choice([1, 1, 65535, 2]), 'target': lc(rand_name(rng)), 'params': given}
        exp = dict(rr, params=[('mandatory', sorted(p[1])) if p[0] == 'mandatory' else p for p in dedup_first(given)])
        cs.append(Case('enc.rr %s' % prr(rr), 'enc-svcb', exp=('RR', lower_text(prr(exp)))))
    cs += svcb_alias_param_cases()
    for n in (0, 1, 255, 256, 300):
        for k in (5, 7):
            p = ('ech', bytes(n)) if k == 5 else ('key', 7, bytes(n))
            rr = {'ty': SVCB, 'name': (), 'ttl': 0, 'cls': 1, 'prio': 1, 'target': (), 'params': [p]}
            cs.append(Case('enc.rr %s' % prr(rr), 'enc-opaque', exp=('RR', lower_text(prr(rr)))))
    for n in range(0, 9):
        rr = {'ty': HTTPS, 'name': (), 'ttl': 0, 'cls': 1, 'prio': 1, 'target': (),
              'params': [('alpn', [b'h%d' % i for i in range(n)]), ('ipv4hint', [bytes([i] * 4) for i in range(n)]), ('ipv6hint', [bytes([i] * 16) for i in range(n)]), ('mandatory', list(range(n, 0, -1)))]}
        exp = dict(rr, params=[('mandatory', list(range(1, n + 1)))] + rr['params'][:1] + rr['params'][1:3])
        cs.append(Case('enc.rr %s' % prr(rr), 'enc-lists', exp=('RR', lower_text(prr(exp)))))
    # wire side: all orders / duplications of up to 3 (4 thorough) parameters
    keys = [0, 1, 2, 3, 4, 5, 6, 7, 65534, 65535]
    for n in range(0, sz(tier, 4, 5)):
        for combo in itertools.product(keys, repeat=n):
            if n == 4 and rng.random() < 0.5: continue
            ps = [pw(k, PARAM_SAMPLES[k][rng.randrange(len(PARAM_SAMPLES[k]))]) for k in combo]
            for prio in ((1,) if n > 1 else (0, 1, 65535)):
                cs.append(Case('dec.rr %s' % hx(svcb_rr(rng.choice([64, 65]), prio, b'\0', ps)), 'wire-order%d' % n))
    # value-length deltas and bad lengths per kind
    bad = {0: [b'\0', b'\0\1\0'], 1: [b'\5h2', b'\2h2\3h'], 2: [b'\0', b'x'], 3: [b'', b'\0', b'\0\0\0'], 4: [b'\1\2\3', b'\1\2\3\4\5'],
           5: [b'', b'\0', b'\0\3ab', b'\0\1ab'], 6: [bytes(15), bytes(17)], 65535: [b'\0']}
    for k, bodies in bad.items():
        for body in bodies:
            cs.append(Case('dec.rr %s' % hx(svcb_rr(64, 1, b'\0', [pw(k, body)])), 'bad-len%d' % k))
    cs += svcb_every_len_cases()
    for k in keys:
        for body in PARAM_SAMPLES[k]:
            for d in DELTAS:
                cs.append(Case('dec.rr %s' % hx(svcb_rr(65, 1, b'\0', [pw(k, body, d), pw(65534, b'z')])), 'len%+d' % d))
    for cls in (0, 1, 2, 3, 4, 5, 255, 65535):
        for ty in (64, 65):
            cs.append(Case('dec.rr %s' % hx(svcb_rr(ty, 1, b'\0', [pw(3, b'\0\x50')], cls=cls)), 'class'))
    for _ in range(sz(tier, 2000, 20000)):
        rr = rand_rr(rng, rng.choice([SVCB, HTTPS]), [])
        r = Renderer(Layout(rng, shuffle_params=True)); r.rr(rr)
        cs.append(Case('dec.rr %s' % hx(bytes(r.out)), 'wire-valid'))
    return cs

def svcb_alias_param_cases():
    """alias form (priority 0) with parameters in the VALUE: C16 demands that the emitted record carries none (that the
    value then does not survive a round trip is C08's recorded finding K4b, not a C16 matter)"""
    cs = []
    for ty in (SVCB, HTTPS):
        for pm in (('port', 80), ('alpn', [b'h2']), ('key', 7, b'z'), ('nodefaultalpn',)):
            rr = {'ty': ty, 'name': (b'a',), 'ttl': 0, 'cls': 1, 'prio': 0, 'target': (b't',), 'params': [pm]}
            cs.append(Case('enc.rr %s' % prr(rr), 'alias-params', exp=('RR', lower_text(prr(dict(rr, params=[]))))))
    return cs

def dedup_first(ps):
    seen = {}
    for p in ps:
        seen.setdefault(param_key(p), p)
    return [seen[k] for k in sorted(seen)]

# ---------------------------------------------------------------- C17

def addr_grid(size):
    full = (1 << (8 * size)) - 1
    vs = [0, full]
    for i in range(8 * size): vs.append(1 << (8 * size - 1 - i))
    for p in range(1, 8 * size + 1): vs.append(full & ~((1 << (8 * size - p)) - 1))
    seen = set(); out = []
    for v in vs:
        if v not in seen: seen.add(v); out.append(v.to_bytes(size, 'big'))
    return out

def C17(tier, rng):
    cs = []
    # values reached through the setters: prefix within the family size and no bit beyond it, whatever the history
    ap_calls = ['prefix:0', 'prefix:8', 'prefix:31', 'prefix:32', 'prefix:33', 'prefix:40', 'prefix:128', 'prefix:129', 'prefix:255', 'neg:1', 'addr:1/0a000000', 'addr:1/0a000001', 'addr:2/' + 'ff' * 16, 'addr:2/' + '00' * 16]
    ap_inits = ['1/0/0/00000000', '1/8/1/0a000000', '1/32/0/0a000001', '1/24/0/c0000200', '2/64/1/1122334400000000' + '00' * 8, '2/128/0/' + '00' * 15 + '01', '2/0/0/' + '00' * 16]
    for init in ap_inits:
        for k in range(0, 3):
            for seq in itertools.product(ap_calls, repeat=k):
                cs.append(Case('api.apitem %s%s' % (init, ''.join(' ' + c for c in seq)), 'apitem-history'))
    ecs_calls = ['src:0', 'src:24', 'src:32', 'src:33', 'src:64', 'src:128', 'src:129', 'scope:0', 'scope:32', 'scope:33', 'scope:64', 'scope:128', 'scope:129', 'scope:255',
                 'addr:1/0a000000', 'addr:1/0a000001', 'addr:2/' + '00' * 16, 'addr:2/20010db8' + '00' * 12]
    for init in ('1/0/0/00000000', '1/24/0/0a000100', '1/32/32/0a000001', '2/32/0/20010db8' + '00' * 12, '2/56/64/20010db8000100' + '00' * 9):
        for k in range(0, 3):
            for seq in itertools.product(ecs_calls, repeat=k):
                cs.append(Case('api.ecs %s%s' % (init, ''.join(' ' + c for c in seq)), 'ecs-history'))
    cs += [c for c in sweep_enc_rr_cases(types=(APL, OPT)) if 'ecs:' in c.op or c.op.startswith('enc.rr RR 42 ')] + sweep_rr_wire_cases(types=(APL,))
    for fam, size in ((1, 4), (2, 16)):
        addrs = addr_grid(size)
        prefixes = range(256) if tier == 'thorough' else sorted(set(list(range(0, 41)) + list(range(120, 138)) + list(range(40, 256, 8)) + [63, 64, 65, 254, 255]))
        for pfx in prefixes:
            for a in (addrs if tier == 'thorough' else addrs[:2] + rng.sample(addrs, 24)):
                for alen in range(0, size + 2):
                    w = (a + b'\xff')[:alen] if alen > size else a[:alen]
                    for neg in ((0, 0x80) if alen % 3 == 0 else (0,)):
                        item = fam.to_bytes(2, 'big') + bytes([pfx, neg | alen]) + w
                        cs.append(Case('dec.rr %s' % hx(apl_rr([item])), 'apl-wire'))
                    scopes = (0, pfx) if alen % 4 else (0, 8, pfx)
                    if alen in (0, (pfx + 7) // 8, size):
                        # the scope field has the same domain as the source field, independently of it
                        scopes = tuple(sorted(set(scopes + (8 * size - 1, 8 * size, 8 * size + 1, 255, max(pfx - 1, 0), min(pfx + 1, 255)))))
                    for scope in scopes:
                        body = fam.to_bytes(2, 'big') + bytes([pfx, scope]) + w
                        cs.append(Case('dec.rr %s' % hx(opt_rr([opt_option(8, body)])), 'ecs-wire'))
        cs += neighbour_cases(fam, size, tier, rng)
        # emission: every constructible (prefix, address) of the grid
        for a in addrs:
            v = int.from_bytes(a, 'big')
            lowest = (v & -v).bit_length() - 1 if v else 8 * size
            minp = 8 * size - lowest if v else 0
            for pfx in sorted(set([minp, min(minp + 1, 8 * size), min(((minp + 7) // 8) * 8, 8 * size), 8 * size])):
                for neg in (0, 1):
                    rr = {'ty': APL, 'name': (b'a',), 'ttl': 0, 'cls': 1, 'items': [{'fam': fam, 'pfx': pfx, 'neg': neg, 'addr': a}]}
                    cs.append(Case('enc.rr %s' % prr(rr), 'apl-emit', exp=('RR', lower_text(prr(rr)))))
                for scope in (0, pfx, min(pfx + 3, 8 * size)):
                    rr = {'ty': OPT, 'payload': 512, 'ext': 0, 'ver': 0, 'do': 0, 'opts': [('ecs', fam, pfx, scope, a)]}
                    cs.append(Case('enc.rr %s' % prr(rr), 'ecs-emit', exp=('RR', lower_text(prr(rr)))))
    return cs

# ---------------------------------------------------------------- C18

NEWTYPES = [17, 18, 21, 26, 33, 36, 39, 107, SVCB, HTTPS]
def C18(tier, rng):
    cs = []
    cs += sweep_enc_dns_cases(types=tuple(NEWTYPES))
    base = (b'host', b'example', b'org')
    def rr_of(ty, n, owner):
        rr = rand_rr(random.Random(ty), ty, [])
        rr['name'] = owner
        if ty in (SVCB, HTTPS):
            rr['target'] = n; rr['prio'] = 1; rr['params'] = []
        else:
            rr['f'] = [n if kind[0] == 'd' else v for (fname, kind), v in zip(TABLE[ty][2], rr['f'])]
        return rr
    variants = [base, base[1:], base[2:], (b'x',) + base, (b'HOST', b'Example', b'ORG'), (b'y', b'z') + base[1:]]
    # the same with special-use names as owner / target suffix (mDNS `local`, reverse zones, `localhost` ...)
    for ty in NEWTYPES:
        for sfx in ((b'corp', b'local'), (b'LOCAL',), (b'2', b'0', b'192', b'in-addr', b'arpa'), (b'localhost',), (b'srv', b'onion'), (b'_tcp', b'local')):
            for owner, n in (((b'_ldap', b'_tcp') + sfx, (b'dc1',) + sfx), ((b'o',) + sfx, sfx), (sfx, (b'x',) + sfx)):
                q = {'name': sfx, 'qtype': 1, 'qclass': 1}
                cs.append(enc_case(msg_with([{'ty': 1, 'name': (b'dc1',) + sfx, 'ttl': 0, 'cls': 1, 'f': [b'\1\2\3\4']}, rr_of(ty, n, owner)], qs=[q]), 'c18-special-use'))
    for ty in NEWTYPES:
        for n in variants:
            for pos in ('question', 'owner', 'rdata1035', 'same-owner', 'earlier-newtype'):
                for earlier in variants[:4]:
                    qs = []; rrs = []
                    owner = (b'o',)
                    if pos == 'question': qs = [{'name': earlier, 'qtype': 1, 'qclass': 1}]
                    elif pos == 'owner': rrs = [{'ty': 1, 'name': earlier, 'ttl': 0, 'cls': 1, 'f': [b'\1\2\3\4']}]
                    elif pos == 'rdata1035': rrs = [{'ty': 2, 'name': (b'q',), 'ttl': 0, 'cls': 1, 'f': [earlier]}]
                    elif pos == 'same-owner': owner = earlier
                    else: rrs = [rr_of(ty, earlier, (b'p',))]
                    m = msg_with(rrs + [rr_of(ty, n, owner)], qs=qs)
                    cs.append(enc_case(m, 'c18-%d-%s' % (ty, pos)))
    # the same rule for the ELEMENT encoders (`RR::encode`, the record structs' own `encode`): the owner then starts at offset
    # 0 of the buffer, the RDATA name is the owner, below it, or a tail of it
    for ty in NEWTYPES:
        for owner in (base, (b'example', b'org'), (b'a',), (b'HOST', b'Example', b'ORG')):
            for n in (owner, (b'x',) + owner, owner[1:], (b'y', b'z') + owner[1:], tuple(l.lower() for l in owner), ()):
                rr = rr_of(ty, n, owner)
                cs.append(Case('enc.rr %s' % prr(rr), 'c18-element'))
                cs.append(Case('enc.struct %s' % prr(rr), 'c18-element'))
    # the RDATA name (or a tail of it) already occurs earlier in a form that ENDS IN A POINTER
    for ty in NEWTYPES:
        for n in (base, (b'x',) + base, base[1:]):
            for first in (base[1:], base[2:], base):
                q = {'name': first, 'qtype': 1, 'qclass': 1}
                for mid in ({'ty': 2, 'name': (b'q',) + base[2:], 'ttl': 0, 'cls': 1, 'f': [n]}, {'ty': 1, 'name': n, 'ttl': 0, 'cls': 1, 'f': [b'\1\2\3\4']},
                            {'ty': 15, 'name': (b'y',) + n, 'ttl': 0, 'cls': 1, 'f': [5, (b'z',) + n]}):
                    cs.append(enc_case(msg_with([mid, rr_of(ty, n, (b'o',))], qs=[q]), 'c18-earlier-compressed'))
                    cs.append(enc_case(msg_with([mid, rr_of(ty, n, n), rr_of(ty, n, (b'o2',))], qs=[q]), 'c18-earlier-compressed'))
    # beyond 16 KiB: an earlier registered name straddles offset 0x3FFF (only its first labels can be pointed at), later
    # records of the listed types share its suffixes; also the earlier name first written at offsets that are multiples of 256
    for off in range(0x3FFF - 24, 0x3FFF + 4, sz(tier, 1, 1)):
        m = straddle_msg(off, later_newtype=True)
        if m: cs.append(enc_case(m, 'c18-straddle'))
        m = straddle_msg(off, labels=(b'srv', b'example', b'net'), later_newtype=True)
        if m: cs.append(enc_case(m, 'c18-straddle'))
    for ty in NEWTYPES:
        for fill in list(range(200, 216)) + list(range(456, 472)) + [722, 978, 16330 + 3]:
            owner = (b'mail', b'example', b'net')
            m = msg_with([{'ty': 10, 'name': (), 'ttl': 0, 'cls': 1, 'f': [bytes(fill)]}, {'ty': 1, 'name': owner, 'ttl': 0, 'cls': 1, 'f': [b'\1\2\3\4']},
                          rr_of(ty, (b'kx',) + owner[1:], (b'o',))])
            cs.append(enc_case(m, 'c18-aligned'))
    # the rest of the message must not influence the choice: OPT records (version, DO, extended rcode, options), header
    # bits, opcodes, classes, sections, neighbours of other types
    def opt(ver=0, do=0, ext=0, payload=1232, opts=()):
        return {'ty': 41, 'payload': payload, 'ext': ext, 'ver': ver, 'do': do, 'opts': list(opts)}
    opts_ctx = [opt(), opt(ver=1), opt(ver=255), opt(do=1), opt(ext=1), opt(payload=512), opt(payload=65535),
                opt(ver=1, do=1, opts=[('pad', 4)]), opt(opts=[('cookie', b'\1' * 8, None)])]
    hdr_ctx = [{}, {'qr': 0}, {'aa': 1}, {'tc': 1}, {'rd': 0}, {'ra': 0}, {'ad': 1}, {'cd': 1}, {'opcode': 4}, {'opcode': 5}, {'opcode': 2},
               {'rcode': 3}, {'rcode': 9}, {'id': 0}, {'id': 65535}]
    for ty in NEWTYPES:
        n = (b'x',) + base
        q = {'name': base, 'qtype': ty if ty != 41 else 1, 'qclass': 1}
        for o in opts_ctx:
            for where in ('before', 'after'):
                m = msg_with([rr_of(ty, n, base)], qs=[q])
                m['ar'] = [o]
                if where == 'before': m['ar'] = [o] + m['an']; m['an'] = []
                cs.append(enc_case(m, 'c18-ctx-opt'))
        for h in hdr_ctx:
            m = msg_with([rr_of(ty, n, base)], qs=[q])
            for k, v in h.items():
                if k == 'id': m['id'] = v
                else: m['flags'][k] = v
            cs.append(enc_case(m, 'c18-ctx-header'))
        for sec in ('an', 'ns', 'ar'):
            for cls in (1, 3, 4, 254, 255):
                for ttl in (0, 1, 0x7fffffff, 0xffffffff):
                    r = rr_of(ty, n, base); r['cls'] = cls; r['ttl'] = ttl
                    m = msg_with([], qs=[q]); m[sec] = [r]
                    cs.append(enc_case(m, 'c18-ctx-rr'))
        for qt in (1, 255, ty, 252):
            for qc in (1, 255, 254):
                m = msg_with([rr_of(ty, n, base)], qs=[{'name': base, 'qtype': qt, 'qclass': qc}])
                cs.append(enc_case(m, 'c18-ctx-question'))
        # many records of the same kind, and the record at every distance from the start
        for k in (2, 3, 10, 40):
            m = msg_with([rr_of(ty, (b'n%d' % i,) + base, base) for i in range(k)], qs=[q])
            cs.append(enc_case(m, 'c18-ctx-many'))
    # the record at the very end of a message of about 64 KiB: written in full the message does not fit, compressed it would
    for ty in NEWTYPES:
        n = (b'sip',) + base
        r = rr_of(ty, n, (b'o',) + base)
        q = {'name': base, 'qtype': 1, 'qclass': 1}
        probe = msg_with([r], qs=[q])
        b0, _ = render(probe, Layout(random.Random(0), compress=0.0))
        for total in list(range(65520, 65560, sz(tier, 3, 1))) + [65535, 65536]:
            fill = total - len(b0) - 2 * 13
            if fill < 0: continue
            f1 = min(fill, 60000); f2 = fill - f1
            fillers = [{'ty': 10, 'name': (b'f',), 'ttl': 0, 'cls': 1, 'f': [b'\0' * f1]}, {'ty': 10, 'name': (b'g',), 'ttl': 0, 'cls': 1, 'f': [b'\0' * f2]}]
            cs.append(enc_case(msg_with(fillers + [r], qs=[q]), 'c18-end-of-message'))
    for _ in range(sz(tier, 10000, 60000)):
        cs.append(enc_case(rand_msg(rng, types=NEWTYPES + [2, 5, 6, 15, 12, 14, 1, 41]), 'random'))
    cs += overlong_utf8_label_values()
    return cs
