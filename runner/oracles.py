"""Property oracles: decide, from the REAL crate's answers (plus the proved model as the reference
decoder where the property needs one), whether a case is a concrete failing input."""
import re
import math
from wire import *
from refdec import strict_check, Walker, LayoutError
import common

def value_of(line):
    """`ok <value> cost=n` -> value text"""
    if not line.startswith('ok '): return None
    v, _ = common.strip_cost(line)
    return v[3:]

class Verdicts:
    def __init__(self):
        self.failing = []      # (index, reason)  -> concrete failing inputs on the implementation
        self.mismatch = []     # (index, reason)  -> model/implementation disagreement, no property failure shown
        self.known = []        # (index, finding id, reason)
        self.notes = {}

def model_decode(ops, workdir):
    """second pass: run ops through the proved model only"""
    if not ops: return []
    res, crashed = common.run_side([common.DRIVER], ops, 'ref', workdir)
    return res

def crate_decode(ops, workdir):
    """second pass through the crate itself (its own decoder applied to its own output)"""
    if not ops: return []
    res, crashed = common.run_side([common.HARNESS_BIN, 'run'], ops, 'own', workdir)
    return [strip_cost_text(norm_rust(x)) for x in res]

def strip_cost_text(line):
    return common.strip_cost(line)[0]

# ---------------------------------------------------------------- generic comparison

POST_PANIC = ' post-panic'
def norm_rust(line, keep_post=False):
    if line == 'bad-op': return 'unconstructible'
    if not keep_post and line.endswith(POST_PANIC): return line[:-len(POST_PANIC)]
    return line

def norm_lean(line):
    if line == 'bad-op': return 'unconstructible'
    return line

OVERSIZE = ' oversize'
# Compare modes. Each property compares the observables it is about and nothing else (DESIGN.md section 4.1):
# an error's KIND and payload belong to C11 alone (and there only for the variants that carry a code point), the octet
# count to C07 alone; produced bytes, decoded values and states are compared wherever they occur.
CODE_KINDS = {'Opcode', 'RCode', 'Type', 'Class', 'QType', 'QClass', 'AFSDBSubtype', 'EDNSOptionCode', 'EcsAddressNumber',
              'SSHFPAlgorithm', 'SSHFPType', 'AlgorithmType', 'DigestType', 'NotYetImplemented'}
_ERR_TOK = re.compile(r'err:[^@ ]+')

def drop_kind(x, keep_cost=False):
    """an error is an error: forget its kind and payload (also inside api / label / name history lines)"""
    x0, cost = common.strip_cost(x)
    if x0.startswith('err'): x0 = 'err'
    elif 'err:' in x0: x0 = _ERR_TOK.sub('err', x0)
    if keep_cost and cost is not None: x0 += ' cost=%d' % cost
    return x0

def code_view(x):
    """C11: value on ok; kind + code for the code-carrying error variants; any other error is just an error"""
    x0 = common.strip_cost(x)[0]
    if x0.startswith('err'):
        t = x0.split(' ')
        return x0 if len(t) > 1 and t[1] in CODE_KINDS else ('err' if len(t) > 1 and not t[1].lstrip('-').isdigit() else x0)
    return x0

def cmp_class(r, l): return r.split(' ', 1)[0] == l.split(' ', 1)[0] and not r.endswith(POST_PANIC)
def cmp_accept(r, l): return drop_kind(r) == drop_kind(l)
def cmp_cost(r, l):
    """C07: same verdict (and value), and the crate examines NO MORE octets than the model, whose count is the one the
    bound is proved for (examining fewer - failing faster - cannot break a bound from above)"""
    if drop_kind(r) != drop_kind(l): return False
    cr = common.strip_cost(r)[1]; cl = common.strip_cost(l)[1]
    return cr is None or cl is None or cr <= cl
def cmp_code(r, l): return code_view(r) == code_view(l)
def cmp_rt(r, l):
    if l.endswith(OVERSIZE):
        # outside C02's guard (uncompressed size > 65,535): the re-encoding may or may not fit
        return r in ('same', l[:-len(OVERSIZE)])
    return r == l
def _det_view(x):
    t = x.split(' ')
    if t[0] in ('det', 'nondet'):
        dec = next((y for y in t if y.startswith('dec=')), 'dec=?')[:6]
        enc = next((y for y in t if y.startswith('enc=')), 'enc=?')[:6]
        return '%s %s %s' % (t[0], dec, enc)
    return t[0]
def cmp_det(r, l): return _det_view(r) == _det_view(l)
def cmp_nocost(r, l): return common.strip_cost(r)[0] == common.strip_cost(l)[0]
def cmp_full(r, l): return r == l
def _verdict_view(x):
    return 'ok' if x.startswith('ok ') else drop_kind(x)
def cmp_verdict(r, l):
    """C08: success or error (whether the successful output honours the limits is the oracle's business, on the crate's own bytes)"""
    return r == l or _verdict_view(r) == _verdict_view(l)
NEWTYPE_RDATA = {17, 18, 21, 26, 33, 36, 39, 107, 64, 65}
def _newtype_rdata(line):
    if not line.startswith('ok '): return drop_kind(line)
    try:
        b = bytes.fromhex(line[3:]) if line[3:] != '-' else b''
        w = Walker(b); w.msg()
    except (ValueError, LayoutError, IndexError):
        return line
    return 'ok ' + ' '.join('%d:%s' % (ty, b[s_:e].hex()) for ty, s_, e in w.rdatas if ty in NEWTYPE_RDATA)
def cmp_rdata(r, l):
    """C18: the RDATA of the record types the property lists, octet for octet; the rest of the message belongs to C05/C06"""
    return r == l or _newtype_rdata(r) == _newtype_rdata(l)

# ---------------------------------------------------------------- per property

def o_C01(cases, rust, lean, V, wd):
    for i, r in enumerate(rust):
        if r.startswith('panic') or r.startswith('crash'):
            V.failing.append((i, 'the call did not return: ' + r))
        elif r.endswith(POST_PANIC):
            V.failing.append((i, 'a returned value could not be cloned / compared / formatted / queried / re-encoded without a panic'))

def o_C02(cases, rust, lean, V, wd):
    for i, (r, l) in enumerate(zip(rust, lean)):
        if l.endswith(OVERSIZE) and r in ('same', l[:-len(OVERSIZE)]):
            continue      # the decoded message does not fit in 65,535 octets uncompressed (size computed by the model): outside C02's guard
        if r not in ('same', 'skip'):
            V.failing.append((i, 'decode->encode->decode is not the identity: ' + r))

def o_C03(cases, rust, lean, V, wd):
    for i, (r, l) in enumerate(zip(rust, lean)):
        if r.startswith('panic') or r.startswith('crash'): continue
        if r.startswith('ok') and cmp_nocost(r, l): continue
        if r.startswith('ok') and l.startswith('err'):
            V.failing.append((i, 'accepted input that the RFC grammar (proved reference) rejects with ' + l))
        elif r.startswith('ok') and l.startswith('ok'):
            V.failing.append((i, 'accepted with a value different from the one on the wire'))

def o_C04(cases, rust, lean, V, wd):
    for i, (c, r) in enumerate(zip(cases, rust)):
        if c.exp is None: continue
        if not r.startswith('ok'):
            V.failing.append((i, 'legal rendering rejected: ' + common.strip_cost(r)[0]))
        elif c.exp != 'ACCEPT' and lower_text(sort_mandatory_text(value_of(r))) != c.exp:
            V.failing.append((i, 'legal rendering decoded to a different message'))

def sort_mandatory_text(t):
    if 'mandatory:' not in t: return t
    out = []
    for tok in t.split(' '):
        if tok.startswith('mandatory:'):
            parts = tok[10:].split(',')
            if len(parts) > 1:
                tok = 'mandatory:' + parts[0] + ',' + ','.join(str(x) for x in sorted(int(x) for x in parts[1:]))
        out.append(tok)
    return ' '.join(out)

def second_pass(cases, rust, kinds, wd):
    """decode the crate's output bytes with the proved model: returns {index: value text or error}"""
    ops = []; idx = []
    for i, (c, r) in enumerate(zip(cases, rust)):
        if r.startswith('ok ') and c.op.split(' ', 1)[0] in kinds:
            ops.append('%s %s' % (kinds[c.op.split(' ', 1)[0]], r[3:])); idx.append(i)
    res = model_decode(ops, wd)
    return dict(zip(idx, res))

def check_encoded(cases, rust, V, wd, layout=True, allow_svcb=True, must_succeed=True, known=None, lean=None):
    ref = second_pass(cases, rust, {'enc.dns': 'dec.dns', 'enc.rr': 'dec.rr'}, wd)
    # ... and by the library's own decoder (an output that only a foreign decoder can read is not "transparent")
    kinds = {'enc.dns': 'dec.dns', 'enc.rr': 'dec.rr'}
    ops2 = []; idx2 = []
    for i, (c, r) in enumerate(zip(cases, rust)):
        if r.startswith('ok ') and c.op.split(' ', 1)[0] in kinds:
            ops2.append('%s %s' % (kinds[c.op.split(' ', 1)[0]], r[3:])); idx2.append(i)
    own = dict(zip(idx2, crate_decode(ops2, wd)))
    for i, (c, r) in enumerate(zip(cases, rust)):
        opk = c.op.split(' ', 1)[0]
        if opk not in ('enc.dns', 'enc.rr'): continue
        if r.startswith('err') or r == 'unconstructible':
            # "within the wire limits" is decided by the proved model (EncLim.encode_total): it encodes exactly those values
            if must_succeed and r.startswith('err') and (lean is None or lean[i].startswith('ok')):
                V.failing.append((i, 'a value within the wire limits failed to encode: ' + r))
            continue
        if not r.startswith('ok '): continue
        b = bytes.fromhex(r[3:]) if r[3:] != '-' else b''
        d = ref.get(i)
        exp = c.exp[1] if isinstance(c.exp, tuple) and c.exp[0] == 'RR' else c.exp
        reason = None
        if d is None or not d.startswith('ok'):
            reason = 'output not readable by the reference decoder: %s' % (d,)
        elif isinstance(exp, str) and lower_text(sort_mandatory_text(value_of(d))) != exp:
            reason = 'output decodes to a different value'
        elif opk == 'enc.dns' and len(b) > 65535:
            reason = 'message of %d octets emitted' % len(b)
        if reason is None and layout and opk == 'enc.dns':
            probs, w = strict_check(b, allow_svcb_target_pointer=allow_svcb)
            if probs: reason = 'layout: ' + probs[0]
        if reason is None:
            o = own.get(i)
            if o is None or not o.startswith('ok'):
                reason = 'the library\'s own decoder does not read the output back: %s' % (o,)
            elif isinstance(exp, str) and lower_text(sort_mandatory_text(value_of(o))) != exp:
                reason = 'the library\'s own decoder reads the output back as a different value' 
        if reason:
            k = known(c, r, reason) if known else None
            if k: V.known.append((i, k, reason))
            else: V.failing.append((i, reason))

def o_C05(cases, rust, lean, V, wd):
    check_encoded(cases, rust, V, wd, lean=lean)

def o_C06(cases, rust, lean, V, wd):
    check_encoded(cases, rust, V, wd, lean=lean)

def cost_bound(n):
    return 304 * n + 304

def o_C07(cases, rust, lean, V, wd):
    for i, (c, r) in enumerate(zip(cases, rust)):
        if r.startswith('panic budget') or r.startswith('crash'):
            V.failing.append((i, 'octet budget exceeded / no return: ' + r)); continue
        l = lean[i]
        if r.startswith('ok') and (l.startswith('err MaxRecursion') or l.startswith('err EndlessRecursion') or l.startswith('err DomainNameError')):
            V.failing.append((i, 'a name was expanded beyond the limits (17 hops / 255 octets / no cycles): reference says ' + l)); continue
        _, cost = common.strip_cost(r)
        h = c.op.split(' ')[1]
        n = 0 if h == '-' else len(h) // 2
        if cost is not None and cost > cost_bound(n):
            V.failing.append((i, 'examined %d octets for a %d-octet input (bound %d)' % (cost, n, cost_bound(n))))

def known_C08(c, r, reason):
    """a recorded finding is the value class AND the way it fails (so that a different failure of the same class is reported)"""
    t = c.tag
    diff = reason.startswith('output decodes to a different value')
    unread = reason.startswith('output not readable by the reference decoder')
    if t.startswith('rcode') and int(t[5:]) > 15 and diff: return 'K3'
    if t.startswith('private') and int(t[7:]) in (0, 1, 2, 3, 4, 5, 6, 65535) and (diff or unread): return 'K4a'
    if t == 'alias-params' and diff: return 'K4b'          # parameters silently dropped; anything else (e.g. parameters WRITTEN in alias form) is new
    if t == 'gpos-empty' and unread and 'GPOS' in reason: return 'K4c'
    return None

def judge_api(cases, rust, lean, V, wd):
    """constructor / setter histories inside another property's stream are judged by the C12 invariant oracle"""
    api = [i for i, c in enumerate(cases) if c.op.startswith('api.')]
    if api:
        V2 = Verdicts()
        o_C12([cases[i] for i in api], [rust[i] for i in api], [lean[i] for i in api], V2, wd)
        V.failing += [(api[j], r) for j, r in V2.failing]

def o_C08(cases, rust, lean, V, wd):
    check_encoded(cases, rust, V, wd, layout=True, must_succeed=False, known=known_C08, lean=lean)
    judge_api(cases, rust, lean, V, wd)
    for i, r in enumerate(rust):
        if r.startswith('panic') or r.startswith('crash'):
            V.failing.append((i, 'encode did not return: ' + r))

def o_C09(cases, rust, lean, V, wd):
    for i, (r, l) in enumerate(zip(rust, lean)):
        if r.startswith('ok') and l.startswith('err'):
            V.failing.append((i, 'accepted although the framing is not exact (reference: %s)' % l))

def o_C10(cases, rust, lean, V, wd):
    judge_api(cases, rust, lean, V, wd)
    ref = second_pass(cases, rust, {'enc.rr': 'dec.rr', 'enc.question': 'dec.question', 'enc.name': 'dec.name', 'enc.flags': 'dec.flags',
                                    'enc.type': 'dec.type', 'enc.class': 'dec.class', 'enc.qtype': 'dec.qtype', 'enc.qclass': 'dec.qclass'}, wd)
    kinds = {'enc.rr': 'dec.rr', 'enc.question': 'dec.question', 'enc.name': 'dec.name', 'enc.flags': 'dec.flags',
             'enc.type': 'dec.type', 'enc.class': 'dec.class', 'enc.qtype': 'dec.qtype', 'enc.qclass': 'dec.qclass'}
    ops2 = []; idx2 = []
    for i, (c, r) in enumerate(zip(cases, rust)):
        if r.startswith('ok ') and c.op.split(' ', 1)[0] in kinds:
            ops2.append('%s %s' % (kinds[c.op.split(' ', 1)[0]], r[3:])); idx2.append(i)
    own = dict(zip(idx2, crate_decode(ops2, wd)))
    for i, (c, r) in enumerate(zip(cases, rust)):
        opk, arg = c.op.split(' ', 1)
        if opk in ('enc.rr', 'enc.question', 'enc.name', 'enc.flags', 'enc.type', 'enc.class', 'enc.qtype', 'enc.qclass') and r.startswith('ok '):
            d = ref.get(i)
            want = lower_text(sort_mandatory_text(dedup_text(arg)))
            if d is None or not d.startswith('ok') or lower_text(sort_mandatory_text(value_of(d))) != want:
                V.failing.append((i, 'element bytes are not what the reference decoder expects for this element: %s' % (d or '')[:80]))
            o = own.get(i)
            if o is None or not o.startswith('ok') or lower_text(sort_mandatory_text(value_of(o))) != want:
                V.failing.append((i, 'element does not round-trip through its own encode/decode pair: %s' % (o or '')[:80]))
        if opk == 'enc.struct' and i > 0 and cases[i - 1].op == 'enc.rr ' + arg and rust[i - 1] != r:
            V.failing.append((i, 'struct encode differs from RR::encode'))
        if isinstance(c.exp, tuple) and c.exp[0] == 'EMBED' and r.startswith('ok ') and rust[i - 2].startswith('ok '):
            mb = bytes.fromhex(r[3:]); eb = bytes.fromhex(rust[i - 2][3:])
            if len(mb) != 12 + len(eb):
                V.failing.append((i, 'element occupies %d octets in a message but %d alone' % (len(mb) - 12, len(eb)))); continue
            w = Walker(mb)
            try: w.msg()
            except LayoutError: pass
            ptrpos = set()
            for start, ctx, ptrs, hops, total in w.names:
                for pos, tgt in ptrs: ptrpos.add(pos)
            body = bytearray(mb[12:]); el = bytearray(eb)
            for pos in ptrpos:
                p = pos - 12
                v = int.from_bytes(body[p:p + 2], 'big') - 12
                body[p:p + 2] = (v & 0xFFFF).to_bytes(2, 'big')
            if bytes(body) != bytes(el):
                V.failing.append((i, 'element bytes in a message differ from the stand-alone bytes beyond the pointer shift'))

def dedup_text(t):
    """the text given to enc.rr may list duplicate SvcParams / unsorted ones: normalise like BTreeSet"""
    if 'parameters=L:' not in t: return t
    toks = t.split(' ')
    for j, tok in enumerate(toks):
        if tok.startswith('parameters=L:'):
            k = int(tok[13:])
            items = toks[j + 1:j + 1 + k]
            def key(x):
                if x.startswith('mandatory'): return 0
                if x.startswith('alpn'): return 1
                if x == 'nodefaultalpn': return 2
                if x.startswith('port'): return 3
                if x.startswith('ipv4hint'): return 4
                if x.startswith('ech'): return 5
                if x.startswith('ipv6hint'): return 6
                if x == 'key65535': return 65535
                return int(x[3:x.index(':')])
            seen = {}
            for it in items: seen.setdefault(key(it), it)
            its = [seen[k2] for k2 in sorted(seen)]
            prio = [x for x in toks if x.startswith('priority=n:')]
            toks = toks[:j] + ['parameters=L:%d' % len(its)] + its + toks[j + 1 + k:]
            break
    return ' '.join(toks)

def o_C11(cases, rust, lean, V, wd):
    for i, (c, r, l) in enumerate(zip(cases, rust, lean)):
        if not cmp_code(r, l) and not r.startswith('panic'):
            V.failing.append((i, 'code point / flag word handled differently from the registered mapping: got "%s", registered "%s"' % (code_view(r)[:80], code_view(l)[:80])))
        if c.op.startswith('enum ') and r.startswith('ok '):
            n = c.op.split(' ')[2]
            if r.split(' ')[2] != n:
                V.failing.append((i, 'TryFrom(%s) gives a variant whose integer is %s' % (n, r.split(' ')[2])))

def _addr_ok(addr_hex, pfx):
    a = bytes.fromhex(addr_hex); bits = len(a) * 8
    if pfx > bits: return False
    v = int.from_bytes(a, 'big')
    return pfx == bits or (v & ((1 << (bits - pfx)) - 1)) == 0

def state_ok(kind, st):
    p = st.split('/')
    if kind == 'api.ecs': return _addr_ok(p[3], max(int(p[1]), int(p[2]))) and (len(p[3]) == (8 if p[0] == '1' else 32))
    if kind == 'api.apitem': return _addr_ok(p[3], int(p[1])) and (len(p[3]) == (8 if p[0] == '1' else 32))
    if kind == 'api.cookie': return len(p[0]) == 16 and (p[1] == 'none' or (p[1] != '-' and 8 <= len(p[1]) // 2 <= 32))
    return True

def names_in_text(t):
    """all domain names (tuples of label bytes) inside a canonical msg/rr text"""
    toks = t.split(' '); out = []
    def parse(s): return () if s == '.' else tuple(bytes.fromhex(h) for h in s.split('.'))
    for i, x in enumerate(toks):
        try:
            if x == 'Q' and i + 1 < len(toks): out.append(parse(toks[i + 1]))
            elif x == 'RR' and i + 2 < len(toks): out.append(parse(toks[i + 2]))
            else:
                j = x.find('=d:')
                if j >= 0: out.append(parse(x[j + 3:]))
        except ValueError:
            pass
    return out

def name_limit_problem(r):
    """a decoded value holding a label outside 1..=63 octets or a name of more than 255 wire octets"""
    if not r.startswith('ok '): return None
    for n in names_in_text(value_of(r)):
        wire = sum(len(l) + 1 for l in n) + 1
        if wire > 255: return 'decoded name of %d wire octets' % wire
        if any(not 1 <= len(l) <= 63 for l in n): return 'decoded label outside 1..=63 octets'
    return None

def o_C12(cases, rust, lean, V, wd):
    for i, (c, r) in enumerate(zip(cases, rust)):
        kind = c.op.split(' ', 1)[0]
        if kind.startswith('dec.'):
            pr = name_limit_problem(r)
            if pr: V.failing.append((i, pr))
            if r.startswith('ok ') and lean[i].startswith('err AddressError'):
                V.failing.append((i, 'decoded an address-prefix value that violates its constraint (%s)' % lean[i]))
            continue
        if r.startswith('panic'):
            V.failing.append((i, 'API call panicked')); continue
        if kind in ('api.ecs', 'api.apitem', 'api.cookie') and r.startswith('new=ok@'):
            toks = r.split(' ')
            prev = toks[0][7:]
            if not state_ok(kind, prev): V.failing.append((i, 'constructor produced an invalid value ' + prev)); continue
            for t in toks[1:]:
                call, res = t.split('=', 1)
                st = res[res.index('@') + 1:]
                if not state_ok(kind, st):
                    V.failing.append((i, 'after %s the value is invalid: %s' % (call, st))); break
                if res.startswith('err') and st != prev:
                    V.failing.append((i, 'failed call %s changed the value %s -> %s' % (call, prev, st))); break
                prev = st
        if kind == 'api.name' and r.startswith('start@'):
            prev = './1'
            for t in r.split(' ')[1:]:
                st = t[t.index('@') + 1:]
                name, ln = st.rsplit('/', 1)
                labels = [] if name == '.' else [bytes.fromhex(h) for h in name.split('.')]
                wire = sum(len(l) + 1 for l in labels) + 1
                if wire > 255 or any(not (1 <= len(l) <= 63) for l in labels):
                    V.failing.append((i, 'name of %d wire octets / bad label held' % wire)); break
                if t.startswith('err') and st != prev:
                    V.failing.append((i, 'failed append changed the name')); break
                prev = st
        if kind == 'api.label' and 'ok:' in r:
            h = c.op.split(' ')[1]; n = 0 if h == '-' else len(h) // 2
            if not 1 <= n <= 63: V.failing.append((i, 'label of %d octets accepted' % n))
        if kind == 'api.tag' and r.startswith('ok '):
            t = bytes.fromhex(r[3:]) if r[3:] != '-' else b''
            if not t or any(not (48 <= x <= 57 or 97 <= x <= 122) for x in t): V.failing.append((i, 'tag holds ' + repr(t)))
        if kind in ('api.psdn', 'api.isdn') and r.startswith('ok ') and r[3:] != '-':
            if any(not 48 <= x <= 57 for x in bytes.fromhex(r[3:])): V.failing.append((i, 'non-digit accepted'))
        if kind == 'api.nev' and r.startswith('ok 0'): V.failing.append((i, 'empty NonEmptyVec'))

def o_C13(cases, rust, lean, V, wd):
    check_encoded(cases, rust, V, wd, layout=False, lean=lean)
    for i, (c, r) in enumerate(zip(cases, rust)):
        t = c.op.split(' ')
        if c.tag.startswith('interchangeable') and r.startswith('ok '):
            # names[0] is the first name; the second must reach it through a pointer to its start (offset 12), directly
            # ('interchangeable') or after its own first label ('-suffix')
            w = Walker(bytes.fromhex(r[3:]))
            try: w.msg()
            except LayoutError: pass
            if len(w.names) >= 2:
                start, ctx, ptrs, hops, total = w.names[1]
                want_ptr_at = start if c.tag == 'interchangeable' else start + 3
                if not ptrs or ptrs[0] != (want_ptr_at, 12):
                    V.failing.append((i, 'an equal name (ASCII case variant) written earlier was not used as compression target'))
            continue
        if t[0].startswith('dec.'):
            pr = name_limit_problem(r)
            if pr: V.failing.append((i, 'wire decoding does not enforce the name limits: ' + pr))
            elif r.startswith('err') and lean[i].startswith('ok'):
                V.failing.append((i, 'wire decoding rejects a name within the limits: ' + r))
            continue
        if t[0] == 'text.eq' and r.startswith('eq='):
            def labs(s): return [] if s == '.' else [lower_label(bytes.fromhex(h)) for h in s.split('.')]
            want = labs(t[1]) == labs(t[2])
            eq = r.split(' ')[0] == 'eq=1'; heq = r.split(' ')[1] == 'hasheq=1'
            if eq != want: V.failing.append((i, '== says %s for names that are %sequal up to ASCII case' % (eq, '' if want else 'not ')))
            elif eq and not heq: V.failing.append((i, 'equal names hash differently'))
        if t[0] == 'text.display' and r.startswith('ok '):
            h, ln = r[3:].split(' ')
            if int(ln[4:]) != len(h) // 2: V.failing.append((i, 'len() is not the length of the printed form'))

def o_C14(cases, rust, lean, V, wd):
    seen = {}
    for i, (c, r) in enumerate(zip(cases, rust)):
        if r.startswith('nondet') or r.startswith('panic'):
            V.failing.append((i, r))
        if c.tag == 'repeat':
            if c.op in seen and seen[c.op] != r:
                V.failing.append((i, 'the same call gave a different result later in the same process: first "%s", now "%s"' % (seen[c.op][:80], r[:80])))
            seen.setdefault(c.op, r)

def o_C15(cases, rust, lean, V, wd):
    check_encoded(cases, rust, V, wd, layout=False, lean=lean)
    judge_api(cases, rust, lean, V, wd)

def rr_layout_problems(b):
    w = Walker(b)
    try: w.rr(0)
    except LayoutError as e: w.problems.append('walk failed: %s' % e)
    return w.problems

def o_C16(cases, rust, lean, V, wd):
    check_encoded(cases, rust, V, wd, layout=False, lean=lean)
    for i, (c, r, l) in enumerate(zip(cases, rust, lean)):
        if c.op.startswith('enc.rr') and r.startswith('ok '):
            probs = rr_layout_problems(bytes.fromhex(r[3:]))
            if probs: V.failing.append((i, probs[0]))
        if c.op.startswith('dec.rr') and r.startswith('ok') and l.startswith('err'):
            V.failing.append((i, 'record accepted although the RFC 9460 wire rules reject it (%s)' % l))

def o_C17(cases, rust, lean, V, wd):
    check_encoded(cases, rust, V, wd, layout=False, lean=lean)
    api = [i for i, c in enumerate(cases) if c.op.startswith('api.')]
    if api:
        V2 = Verdicts()
        o_C12([cases[i] for i in api], [rust[i] for i in api], [lean[i] for i in api], V2, wd)
        V.failing += [(api[j], r) for j, r in V2.failing]
    for i, (c, r, l) in enumerate(zip(cases, rust, lean)):
        if c.op.startswith('dec.rr') and cmp_accept(r, l) is False and not r.startswith('panic'):
            if r.startswith('ok'): V.failing.append((i, 'address-prefix item accepted although the RFC form rejects it (%s)' % l))
            elif l.startswith('ok'): V.failing.append((i, 'RFC-valid address-prefix form rejected: ' + r))
        if c.op.startswith('enc.rr') and r.startswith('ok '):
            b = bytes.fromhex(r[3:])
            if c.tag == 'apl-emit':
                probs = rr_layout_problems(b)
                if probs: V.failing.append((i, probs[0]))
            elif c.tag == 'ecs-emit':
                tok = [x for x in c.op.split(' ') if x.startswith('ecs:')][0][4:].split('/')
                fam, src, scope, addr = int(tok[0]), int(tok[1]), int(tok[2]), tok[3]
                size = len(addr) // 2
                optlen = int.from_bytes(b[11 + 2:11 + 4], 'big')
                count = optlen - 4
                want = (src + 7) // 8
                if count != want:
                    m = max(src, scope)
                    if count == min(size, m // 8 + 1): V.known.append((i, 'K2', 'ECS address written with %d octets, RFC 7871 mandates %d' % (count, want)))
                    else: V.failing.append((i, 'ECS address written with %d octets, RFC 7871 mandates %d' % (count, want)))

def o_C18(cases, rust, lean, V, wd):
    for i, (c, r) in enumerate(zip(cases, rust)):
        if (c.op.startswith('enc.rr') or c.op.startswith('enc.struct')) and r.startswith('ok '):
            for p in rr_layout_problems(bytes.fromhex(r[3:])):
                if p.startswith('compressed name in RDATA of type'):
                    ty = int(p.split(' ')[6])
                    if ty in (SVCB, HTTPS): V.known.append((i, 'K1', p))
                    else: V.failing.append((i, p))
                    break
            continue
        if not (c.op.startswith('enc.dns') and r.startswith('ok ')): continue
        probs, w = strict_check(bytes.fromhex(r[3:]), allow_svcb_target_pointer=False)
        for p in probs:
            if p.startswith('compressed name in RDATA of type'):
                ty = int(p.split(' ')[6])
                if ty in (SVCB, HTTPS): V.known.append((i, 'K1', p))
                else: V.failing.append((i, p))
                break
