"""Per-property op streams, part B (C05..C08, C10..C18)."""
from props_a import *

def enc_case(m, tag, op='enc.dns'):
    return Case('%s %s' % (op, pmsg(m)), tag, exp=abs_msg_text(m))

# ---------------------------------------------------------------- C05

def big_msgs(rng, tier):
    """messages above 16 KiB so that names sit beyond offset 0x3FFF"""
    ms = []
    for pad in sz(tier, [16000, 16350, 40000], [15000, 16000, 16300, 16350, 16380, 20000, 40000, 60000]):
        pool = []
        rrs = [rand_rr(rng, rng.choice([2, 5, 15, 6]), pool) for _ in range(3)]
        rrs.append({'ty': 10, 'name': rand_name(rng, pool), 'ttl': 0, 'cls': 1, 'f': [bytes(pad)]})
        rrs += [rand_rr(rng, rng.choice([2, 5, 15, 6, 12, 14]), pool) for _ in range(6)]
        ms.append(msg_with(rrs, qs=[rand_question(rng, pool)]))
    return ms

def limit_values(rng):
    """values at each length limit"""
    ms = []
    n255 = long_name(255)
    ms.append(msg_with([{'ty': 2, 'name': n255, 'ttl': 0, 'cls': 1, 'f': [n255]}]))
    ms.append(msg_with([{'ty': 16, 'name': (), 'ttl': 0, 'cls': 1, 'f': [[b'x' * 255] * 3]}]))
    ms.append(msg_with([{'ty': 13, 'name': (b'a',), 'ttl': 0, 'cls': 1, 'f': [b'c' * 255, b'']}]))
    ms.append(msg_with([{'ty': 10, 'name': (), 'ttl': 0, 'cls': 1, 'f': [bytes(65535 - 12 - 1 - 10)]}]))
    ms.append(msg_with([{'ty': 41, 'payload': 0, 'ext': 255, 'ver': 255, 'do': 1, 'opts': [('pad', 65535 - 12 - 11 - 4)]}]))
    return ms

def C05(tier, rng):
    cs = []
    cs += sweep_enc_dns_cases() + overlong_utf8_label_values()
    # messages of exactly 65,533..65,538 octets (two shapes): the largest that fits, and the first ones that do not
    for total in range(65533, 65539):
        k = total - 12 - 1 - 10
        cs.append(enc_case(msg_with([{'ty': 10, 'name': (), 'ttl': 0, 'cls': 1, 'f': [bytes(k)]}]), 'size%d' % total))
        k2 = total - 12 - (13 + 4) - (1 + 10) - (2 + 10 + 4)
        q = {'name': (b'example', b'org'), 'qtype': 1, 'qclass': 1}
        cs.append(enc_case(msg_with([{'ty': 10, 'name': (), 'ttl': 0, 'cls': 1, 'f': [bytes(k2)]}, {'ty': 1, 'name': (b'example', b'org'), 'ttl': 0, 'cls': 1, 'f': [b'\1\2\3\4']}], qs=[q]), 'size%d' % total))
    for _ in range(sz(tier, 15000, 60000)):
        cs.append(enc_case(rand_msg(rng), 'valid'))
    for m in big_msgs(rng, tier) + limit_values(rng) + boundary_msgs(rng):
        cs.append(enc_case(m, 'big/limit'))
    for off in range(0x3FFF - 24, 0x3FFF + 4, sz(tier, 2, 1)):
        for m in (straddle_msg(off), high_offset_msg(rng, off), straddle_msg(off, newtype=True)):
            if m: cs.append(enc_case(m, 'straddle'))
    for pair in look_alike_name_pairs():
        cs.append(enc_case(names_msg_a(pair), 'look-alike'))
    for _ in range(sz(tier, 2000, 20000)):
        rr = rand_rr(rng, None, [])
        cs.append(Case('enc.rr %s' % prr(rr), 'rr%d' % rr['ty']))
    return cs

# ---------------------------------------------------------------- C06

ALPHA = [b'a', b'b', b'c']
def small_names(maxdepth=3, case_variants=True):
    ns = [()]
    for d in range(1, maxdepth + 1):
        for t in itertools.product(ALPHA, repeat=d):
            ns.append(t)
    if case_variants:
        ns += [(b'A',), (b'A', b'b'), (b'a', b'B'), (b'C', b'A', b'b')]
    return ns

def names_msg(names, kinds=None):
    """a message carrying the name sequence: questions first, then NS records (owner + RDATA name)"""
    qs = []; rrs = []
    for i, n in enumerate(names):
        k = kinds[i] if kinds else 'q'
        if k == 'q': qs.append({'name': n, 'qtype': 1, 'qclass': 1})
        elif k == 'o': rrs.append({'ty': 1, 'name': n, 'ttl': 0, 'cls': 1, 'f': [b'\1\2\3\4']})
        else: rrs.append({'ty': 2, 'name': (), 'ttl': 0, 'cls': 1, 'f': [n]})
    return msg_with(rrs, qs=qs)

def C06(tier, rng):
    cs = []
    ns = small_names()
    if tier == 'thorough':
        for seq in itertools.product(ns, repeat=3):
            cs.append(enc_case(names_msg(seq), 'seq3'))
        for _ in range(300000):
            seq = [rng.choice(ns) for _ in range(4)]
            cs.append(enc_case(names_msg(seq, [rng.choice('qor') for _ in seq]), 'seq4'))
    else:
        for seq in itertools.product(ns, repeat=2):
            cs.append(enc_case(names_msg(seq), 'seq2'))
        for _ in range(20000):
            seq = [rng.choice(ns) for _ in range(rng.choice([3, 4]))]
            cs.append(enc_case(names_msg(seq, [rng.choice('qor') for _ in seq]), 'seq34'))
    cs += nested_owner_cases(64, 'enc')
    # progressively nested names of every depth up to the 255-octet limit, as questions
    for k in range(1, 65):
        names = []
        n = ()
        for i in range(k):
            n = (bytes([97 + i % 26]),) + n
            names.append(n)
        cs.append(enc_case(names_msg(names), 'nestq%d' % k))
    # a shared suffix placed at every offset around 0x3FFF / 0x4000
    for off in range(0x3FFF - 48, 0x4000 + 49, sz(tier, 3, 1)):
        m = high_offset_msg(rng, off)
        if m: cs.append(enc_case(m, 'hioff'))
    for off in range(0x3FFF - 48, 0x4000 + 8, sz(tier, 2, 1)):
        for labels in ((b'aaaa', b'bbbb', b'cc', b'example'), (b'first', b'second', b'example'), (b'a', b'b', b'c', b'd', b'e', b'f')):
            m = straddle_msg(off, labels)
            if m: cs.append(enc_case(m, 'straddle'))
    for step in (5, 9, 15, 30, 62):
        names = nested_long_names(step)
        cs.append(enc_case(names_msg(names + names[::-1], ['o'] * len(names) + ['r'] * len(names)), 'nested-long'))
    for pair in look_alike_name_pairs():
        cs.append(enc_case(names_msg_a(pair), 'look-alike'))
        cs.append(enc_case(names_msg(list(pair) + [(b'p',) + pair[1]], 'qor'), 'look-alike'))
    # labels with white space at their ends, control characters, quotes: octet-exact through encoder AND the library's decoder
    odd = [(b'Lobby printer ', b'_ipp', b'_tcp', b'local'), (b' lead', b'example'), (b'trail ', b'example'), (b' ',), (b'\t', b'x'), (b' both ', b' both '),
           (b'a\x00b', b'x'), (b'"q"', b'x'), (b'\x7f', b'x'), (b'\xc2\xa0nbsp', b'x')]
    for n in odd:
        cs.append(enc_case(names_msg([n, (b'p',) + n, n], 'qor'), 'odd-label'))
        cs.append(enc_case(msg_with([{'ty': 12, 'name': (b'_ipp', b'_tcp', b'local'), 'ttl': 0, 'cls': 1, 'f': [n]}, {'ty': 1, 'name': n, 'ttl': 0, 'cls': 1, 'f': [b'\1\2\3\4']}]), 'odd-label'))
    # every name-bearing record type at its boundaries (root names inside RDATA, maximum-length names ...): what follows a
    # record in the message must still be where the next name is expected
    cs += sweep_enc_dns_cases(types=tuple(t for t in TABLE if any(k[0] == 'd' for _, k in TABLE[t][2])) + (SVCB, HTTPS))
    for off in range(0x3FFF - 48, 0x4000 + 8, sz(tier, 3, 1)):
        m = straddle_msg(off, newtype=True)
        if m: cs.append(enc_case(m, 'straddle-newtype'))
    # long random sequences
    for _ in range(sz(tier, 60, 300)):
        pool = []
        k = rng.choice([20, 50, 100, 200]) if tier == 'quick' else rng.choice([50, 200, 500, 1000])
        names = [rand_name(rng, pool, maxlabels=4) for _ in range(k)]
        cs.append(enc_case(names_msg(names, [rng.choice('qor') for _ in names]), 'long%d' % k))
    cs += overlong_utf8_label_values()
    return cs

# ---------------------------------------------------------------- C07

def C07(tier, rng):
    cs = []
    for b in pointer_graphs(sz(tier, 4, 6)):
        cs.append(Case('dec.name %s' % hx(b), 'graph'))
        if len(b) <= 8:
            cs.append(Case('dec.dns %s' % hx(b'\0\0\0\0\0\1' + b'\0' * 6 + b), 'graph-msg'))
    for k in range(1, 65):
        b, start = chain(k)
        # dec.name starts at offset 0: put a pointer to `start` first? offsets must be backward-free: use a message
        cs.append(Case('dec.dns %s' % hx(pure_pointer_chain_msg(k)), 'chain%d' % k))
        cs.append(Case('dec.dns %s' % hx(hop_chain_msg(k)), 'lchain%d' % k))
    for npt in sz(tier, [100, 1000, 5000], [100, 1000, 5000, 10000]):
        for nl in (64, 255):
            cs.append(Case('dec.dns %s' % hx(fan(npt, nl)), 'fan%d' % npt))
    for _ in range(sz(tier, 3000, 40000)):
        size = rng.choice([8, 16, 64, 256, 1024])
        cs.append(Case('dec.name %s' % hx(maze(rng, size)), 'maze'))
    for _ in range(sz(tier, 300, 3000)):
        size = rng.choice([64, 512, 4096, 16384, 65536])
        hdr = b'\0\0\0\0' + rng.choice([b'\0\1', b'\0\x10', b'\xff\xff']) + b'\0' * 6
        cs.append(Case('dec.dns %s' % hx(hdr + maze(rng, size - 12)), 'maze-msg'))
    for m, b, r in layouts(rng, sz(tier, 1000, 10000)):
        cs.append(Case('dec.dns %s' % hx(b), 'valid'))
    for pl in (1, 2, 10, 62, 63):
        for tot in range(248 - pl, 262 - pl):
            if tot >= 1: cs.append(Case('dec.dns %s' % hx(split_long_name_msg(pl, tot)), 'split-long'))
    cs.append(Case('dec.dns %s' % hx(split_long_name_msg(63, 255)), 'split-long'))
    for step in (5, 9, 15, 20, 30, 62):
        names = nested_long_names(step)
        m = msg_with([{'ty': 2, 'name': n, 'ttl': 0, 'cls': 1, 'f': [n]} for n in names])
        b, _ = render(m, Layout(random.Random(step), compress=1.0))
        cs.append(Case('dec.dns %s' % hx(b), 'nested-long'))
    e31 = b'\xc3\xa9' * 31
    for k in (3, 4, 5, 7):
        w = b''.join(bytes([len(e31)]) + e31 for _ in range(k)) + b'\0'
        cs.append(Case('dec.name %s' % hx(w), 'multibyte-long'))
        cs.append(Case('dec.dns %s' % hx(b'\0\0\0\0\0\1' + b'\0' * 6 + w + b'\0\1\0\1'), 'multibyte-long'))
    q1 = b''.join(bytes([len(e31)]) + e31 for _ in range(3)) + b'\0'
    cs.append(Case('dec.dns %s' % hx(b'\0\0\0\0\0\2' + b'\0' * 6 + q1 + b'\0\1\0\1' + q1[:-1] + b'\xc0\x0c' + b'\0\1\0\1'), 'multibyte-long'))
    # labels between pointers: more than 17 hops with no long run of back-to-back pointers; cycles through a label
    for k in range(14, 40):
        cs.append(Case('dec.dns %s' % hx(hop_chain_msg(k)), 'label-hops%d' % k))
    cs.append(Case('dec.dns %s' % hx(b'\0\0\0\0\0\1' + b'\0' * 6 + b'\1a\xc0\x0c\0\1\0\1'), 'label-cycle'))
    cs.append(Case('dec.name %s' % hx(b'\1a\xc0\x00'), 'label-cycle'))
    cs += far_pointer_cases()
    cs += hidden_pointer_cases(tier)
    cs += reserved_label_type_cases()
    cs += long_rdata_name_cases()
    # self references and 2-cycles at every small offset
    for off in range(0, 64):
        b = bytearray(b'\0' * off) + ptr(off)
        cs.append(Case('dec.dns %s' % hx(b'\0\0\0\0\0\1' + b'\0' * 6 + bytes(b)), 'self'))
    return cs

def far_pointer_cases():
    """chains of 1..3 pointers whose LAST target is any of the highest offsets a pointer can express (0x3F00..0x3FFF) or
    lies just beyond short buffers; alone and as a question name"""
    cs = []
    for t in list(range(0x3F00, 0x4000)) + [0x2000, 0x1FFF, 0x0FFF, 0x0800, 0x07FF, 0x0100, 0xFF]:
        last = (0xC000 | t).to_bytes(2, 'big')
        for hops in (1, 2, 3):
            b = b''.join((0xC000 | (2 * (i + 1))).to_bytes(2, 'big') for i in range(hops - 1)) + last
            cs.append(Case('dec.name %s' % hx(b), 'far-pointer'))
            if t >= 0x3FF0 or hops == 2:
                shifted = b''.join((0xC000 | (12 + 2 * (i + 1))).to_bytes(2, 'big') for i in range(hops - 1)) + last
                cs.append(Case('dec.dns %s' % hx(b'\0\0\0\0\0\1' + b'\0' * 6 + shifted + b'\0\1\0\1'), 'far-pointer'))
    # legal messages longer than 16 KiB whose names sit at 0x3FF0..0x3FFF and are reached through two backward pointers
    for t in range(0x3FF0, 0x4000):
        fill = t - (12 + 11)
        null = b'\0' + b'\0\x0a\0\1\0\0\0\0' + fill.to_bytes(2, 'big') + b'\0' * (fill - 3) + b'\1z\0'
        tgt = t - 3
        a1 = (0xC000 | tgt).to_bytes(2, 'big') + b'\0\2\0\1\0\0\0\0\0\2' + (0xC000 | tgt).to_bytes(2, 'big')
        p1 = 12 + len(null)
        if tgt <= 0x3FFF and p1 <= 0x3FFF:
            a2 = (0xC000 | p1).to_bytes(2, 'big') + b'\0\2\0\1\0\0\0\0\0\2' + (0xC000 | p1).to_bytes(2, 'big')
        else:
            a2 = a1
        cs.append(Case('dec.dns %s' % hx(b'\0\0\x84\0\0\0\0\3\0\0\0\0' + null + a1 + a2), 'far-pointer-legal'))
    return cs

def hidden_pointer_cases(tier):
    """pointer chains and cycles stored in octets that are never decoded as a name themselves (opaque RDATA of an earlier
    NULL record); a later owner / RDATA / question name points into them. Whether a name's pointers count must not
    depend on where the name starts."""
    cs = []
    for pad in (0, 64, 300, 5000):
        cs += _hidden_pointer_cases(tier, pad)
    return cs

def _hidden_pointer_cases(tier, pad):
    """`pad` octets of filler precede the structure inside the NULL RDATA (so that its offsets lie beyond 64, 256, 4096)"""
    cs = []
    def msg(structure, entry_rel, where):
        # NULL record (root owner) whose RDATA is filler + `structure`; the structure starts at offset 12 + 11 + pad
        structure = bytes(pad) + structure
        entry_rel += pad
        base = 12 + 11
        null = b'\0' + b'\0\x0a\0\1\0\0\0\0' + len(structure).to_bytes(2, 'big') + structure
        p = (0xC000 | (base + entry_rel)).to_bytes(2, 'big')
        if where == 'owner':
            rec = p + b'\0\1\0\1\0\0\0\0\0\4\1\2\3\4'
        elif where == 'rdata':
            rec = b'\1o\0' + b'\0\2\0\1\0\0\0\0\0\2' + p
        else:
            rec = b'\1o\0' + b'\0\x0f\0\1\0\0\0\0\0\6\0\1\1m' + p
        return b'\0\0\x84\0\0\0\0\2\0\0\0\0' + null + rec
    base = 12 + 11 + pad
    for k in (list(range(1, 45)) + [100, 1000] if pad == 0 else [1, 2, 16, 17, 18, 21, 41, 201]):
        # k pointers, each to the next, the last to a root octet (forward chain inside the RDATA)
        st = b''.join((0xC000 | (base + 2 * (i + 1))).to_bytes(2, 'big') for i in range(k)) + b'\0'
        for where in ('owner', 'rdata', 'mx'):
            cs.append(Case('dec.dns %s' % hx(msg(st, 0, where)), 'hidden-chain'))
        # backward chain: entry at the end
        st2 = b'\0' + b''.join((0xC000 | (base + (2 * i - 1 if i else 0))).to_bytes(2, 'big') for i in range(k))
        cs.append(Case('dec.dns %s' % hx(msg(st2, len(st2) - 2, 'owner')), 'hidden-chain-back'))
    for cyc in (1, 2, 3, 5, 17, 40):
        st = b''.join((0xC000 | (base + 2 * ((i + 1) % cyc))).to_bytes(2, 'big') for i in range(cyc))
        for where in ('owner', 'rdata', 'mx'):
            cs.append(Case('dec.dns %s' % hx(msg(st, 0, where)), 'hidden-cycle'))
        # a label before re-entering the cycle
        st = b'\1a' + (0xC000 | base).to_bytes(2, 'big')
        cs.append(Case('dec.dns %s' % hx(msg(st, 0, 'owner')), 'hidden-cycle'))
    return cs

def rdata_limit_cases(only_opt=False):
    """element-level encodes whose RDATA is exactly 65,534 .. 65,538 octets, for every construct that back-patches RDLENGTH"""
    cs = []
    for d in (-2, -1, 0, 1, 2):
        opts = [[('pad', 65532 + d)], [('cookie', b'\1' * 8, None), ('pad', 65520 + d)], [('pad', 30000), ('pad', 35528 + d)]]
        for o in opts:
            cs.append(Case('enc.rr %s' % prr({'ty': 41, 'payload': 512, 'ext': 0, 'ver': 0, 'do': 0, 'opts': o}), 'rdlimit-opt%+d' % d))
        if only_opt: continue
        cs.append(Case('enc.rr %s' % prr({'ty': 10, 'name': (), 'ttl': 0, 'cls': 1, 'f': [bytes(65536 + d)]}), 'rdlimit-null%+d' % d))
        cs.append(Case('enc.struct %s' % prr({'ty': 10, 'name': (), 'ttl': 0, 'cls': 1, 'f': [bytes(65536 + d)]}), 'rdlimit-null%+d' % d))
        cs.append(Case('enc.rr %s' % prr({'ty': 64, 'name': (), 'ttl': 0, 'cls': 1, 'prio': 1, 'target': (), 'params': [('ech', bytes(65527 + d))]}), 'rdlimit-ech%+d' % d))
        cs.append(Case('enc.rr %s' % prr({'ty': 65, 'name': (), 'ttl': 0, 'cls': 1, 'prio': 1, 'target': (), 'params': [('key', 9, bytes(65529 + d))]}), 'rdlimit-key%+d' % d))
        strs = [b'x' * 255] * 255 + [b'y' * (254 + d)] if d <= 0 else [b'x' * 255] * 256 + ([b''] * (d - 1))
        cs.append(Case('enc.rr %s' % prr({'ty': 16, 'name': (), 'ttl': 0, 'cls': 1, 'f': [strs]}), 'rdlimit-txt%+d' % d))
        cs.append(Case('enc.rr %s' % prr({'ty': 257, 'name': (), 'ttl': 0, 'cls': 1, 'f': [0, b'issue', bytes(65536 + d - 7)]}), 'rdlimit-caa%+d' % d))
    return cs

def cookie_histories(maxk):
    cs = []
    ck_calls = ['server:none'] + ['server:%s' % hx(bytes(n)) for n in (0, 7, 8, 9, 31, 32, 33, 300)] + ['client:1122334455667788']
    for init in ['0102030405060708/none'] + ['0102030405060708/%s' % hx(bytes(n)) for n in (0, 7, 8, 32, 33)]:
        for k in range(0, maxk + 1):
            for seq in itertools.product(ck_calls, repeat=k):
                cs.append(Case('api.cookie %s%s' % (init, ''.join(' ' + c for c in seq)), 'cookie-history'))
    return cs

def prefix_histories(maxk=2):
    """setter histories of APL items and client-subnet options (constructor, then up to `maxk` setter calls, the state printed
    after every call): a value reached through setters that refuse must be unchanged, one reached through setters that
    accept must still satisfy the prefix invariant the encoder relies on"""
    cs = []
    ap_calls = ['prefix:0', 'prefix:8', 'prefix:31', 'prefix:32', 'prefix:33', 'prefix:40', 'prefix:128', 'prefix:129', 'prefix:255', 'neg:1', 'addr:1/0a000000', 'addr:1/0a000001', 'addr:1/c0000201', 'addr:2/' + 'ff' * 16, 'addr:2/' + '00' * 16]
    ap_inits = ['1/0/0/00000000', '1/8/1/0a000000', '1/32/0/0a000001', '1/24/0/c0000200', '2/64/1/1122334400000000' + '00' * 8, '2/128/0/' + '00' * 15 + '01', '2/0/0/' + '00' * 16]
    for init in ap_inits:
        for k in range(0, maxk + 1):
            for seq in itertools.product(ap_calls, repeat=k):
                cs.append(Case('api.apitem %s%s' % (init, ''.join(' ' + c for c in seq)), 'apitem-history'))
    ecs_calls = ['src:0', 'src:1', 'src:8', 'src:16', 'src:24', 'src:32', 'src:33', 'src:64', 'src:128', 'src:129', 'scope:0', 'scope:8', 'scope:16', 'scope:32', 'scope:33', 'scope:64', 'scope:128', 'scope:129', 'scope:255',
                 'addr:1/0a000000', 'addr:1/0a000001', 'addr:2/' + '00' * 16, 'addr:2/20010db8' + '00' * 12]
    for init in ('1/0/0/00000000', '1/24/0/0a000100', '1/24/0/0a010200', '1/24/16/0a010200', '1/16/24/0a010200', '1/1/0/80000000', '1/32/32/0a000001', '2/32/0/20010db8' + '00' * 12, '2/56/64/20010db8000100' + '00' * 9):
        for k in range(0, maxk + 1):
            for seq in itertools.product(ecs_calls, repeat=k):
                cs.append(Case('api.ecs %s%s' % (init, ''.join(' ' + c for c in seq)), 'ecs-history'))
    return cs

def name_limit_api_cases():
    """names around 255 octets built through every public constructor (text with and without the final dot, appends)"""
    cs = []
    for total in range(250, 260):
        for shape in (long_name(total), tuple([b'x'] * ((total - 1) // 2)) + ((b'yy',) if total % 2 == 0 else ())):
            n = shape
            if sum(len(l) + 1 for l in n) + 1 != total: continue
            s = b'.'.join(n)
            for suffix in (b'', b'.'):
                cs.append(Case('text.parse %s' % hx(s + suffix), 'parse-limit'))
            cs.append(Case('api.name %s' % ' '.join(hx(l) for l in n), 'append-limit'))
    return cs

_C01_base = C01
def C01(tier, rng):
    """C01 of props_a plus the pointer cases defined in this file"""
    st = _C01_base(tier, rng)
    extra = far_pointer_cases() + hidden_pointer_cases(tier)
    if isinstance(st, list): return st + extra
    def gen():
        first = True
        for c in st:
            yield (c + extra) if first else c
            first = False
    return gen()

# ---------------------------------------------------------------- C08

def C08(tier, rng):
    cs = []
    # strings 0..=300 in every string-bearing field
    for n in list(range(250, 261)) + [0, 1, 300]:
        s = b's' * n
        for rr in ({'ty': 13, 'f': [s, b'x']}, {'ty': 13, 'f': [b'x', s]}, {'ty': 16, 'f': [[b'a', s]]}, {'ty': 19, 'f': [b'1' * n]},
                   {'ty': 20, 'f': [b'1' * n, None]}, {'ty': 20, 'f': [b'1', b'a' * n]}, {'ty': 27, 'f': [s or b'1', b'1', b'1']},
                   {'ty': 27, 'f': [b'1', b'1', s or b'1']}, {'ty': 257, 'f': [0, b't' * max(n, 1), b'v']}):
            rr = dict(rr, name=(b'a',), ttl=0, cls=1)
            cs.append(enc_case(msg_with([rr]), 'str%d' % n))
        cs.append(enc_case(msg_with([{'ty': 64, 'name': (), 'ttl': 0, 'cls': 1, 'prio': 1, 'target': (), 'params': [('alpn', [s])]}]), 'alpn%d' % n))
    # RDATA / option / SvcParam / ECH around 65,535
    for n in (65500, 65520, 65523, 65524, 65525, 65530, 65535, 65536, 65540, 70000):
        cs.append(enc_case(msg_with([{'ty': 10, 'name': (), 'ttl': 0, 'cls': 1, 'f': [bytes(n)]}]), 'rdata%d' % n))
        cs.append(Case('enc.rr %s' % prr({'ty': 10, 'name': (), 'ttl': 0, 'cls': 1, 'f': [bytes(n)]}), 'rdata-rr%d' % n))
        cs.append(Case('enc.rr %s' % prr({'ty': 64, 'name': (), 'ttl': 0, 'cls': 1, 'prio': 1, 'target': (), 'params': [('ech', bytes(n))]}), 'ech%d' % n))
        cs.append(Case('enc.rr %s' % prr({'ty': 64, 'name': (), 'ttl': 0, 'cls': 1, 'prio': 1, 'target': (), 'params': [('key', 9, bytes(n))]}), 'param%d' % n))
        if n < 65536:
            cs.append(Case('enc.rr %s' % prr({'ty': 41, 'payload': 0, 'ext': 0, 'ver': 0, 'do': 0, 'opts': [('pad', n)]}), 'pad%d' % n))
    cs += rdata_limit_cases()
    # character strings measured in OCTETS: multi-octet characters, fewer than 256 characters but more than 255 octets
    for s_ in (b'\xc3\xa9' * 127 + b'a', b'\xc3\xa9' * 128, b'\xc3\xa9' * 200, b'\xe2\x82\xac' * 85, b'\xe2\x82\xac' * 86, b'\xf0\x9f\x98\x80' * 64, b'\xc3\xa9' * 255):
        for rr in ({'ty': 16, 'f': [[s_]]}, {'ty': 13, 'f': [s_, b'x']}, {'ty': 13, 'f': [b'x', s_]}, {'ty': 16, 'f': [[b'a', s_, b'b']]}):
            rr = dict(rr, name=(b'a',), ttl=0, cls=1)
            cs.append(enc_case(msg_with([rr]), 'mbstr%d' % len(s_)))
            cs.append(Case('enc.rr %s' % prr(rr), 'mbstr-rr%d' % len(s_)))
        cs.append(enc_case(msg_with([{'ty': 64, 'name': (), 'ttl': 0, 'cls': 1, 'prio': 1, 'target': (), 'params': [('alpn', [s_])]}]), 'mbalpn%d' % len(s_)))
    # two large TXT records (the 130 KB case) and messages around 64 KiB
    big = [[b'x' * 255] * 255]
    cs.append(enc_case(msg_with([{'ty': 16, 'name': (), 'ttl': 0, 'cls': 1, 'f': big}, {'ty': 16, 'name': (), 'ttl': 0, 'cls': 1, 'f': big}]), 'txt2'))
    for total in range(65530, 65541):
        k = total - 12 - 1 - 10
        cs.append(enc_case(msg_with([{'ty': 10, 'name': (), 'ttl': 0, 'cls': 1, 'f': [bytes(k)]}]), 'msg%d' % total))
    for total in (65530, 65535, 65536, 65600):
        # the last record is a name-bearing one: labels written beyond offset 65,535
        k = total - 12 - 1 - 10 - 30
        cs.append(enc_case(msg_with([{'ty': 10, 'name': (), 'ttl': 0, 'cls': 1, 'f': [bytes(k)]}, {'ty': 2, 'name': (b'tail', b'x'), 'ttl': 0, 'cls': 1, 'f': [(b'ns', b'tail', b'x')]}]), 'tail%d' % total))
    # a multi-label name that begins below offset 65,535 and ends beyond it, at every alignment, in every position
    for labels, lablen in ((4, 50), (2, 63), (20, 10), (100, 1)):
        name = tuple(bytes([0x61 + i % 26]) * lablen for i in range(labels))
        tl = labels * (lablen + 1) + 1
        for start in range(65535 - tl - 2, 65536 + 2, sz(tier, 11, 1)):
            fill = start - (12 + 11)
            filler = {'ty': 10, 'name': (), 'ttl': 0, 'cls': 1, 'f': [bytes(fill)]}
            cs.append(enc_case(msg_with([filler, {'ty': 2, 'name': name, 'ttl': 0, 'cls': 1, 'f': [(b'ns',) + name]}]), 'name-over-64k'))
            cs.append(enc_case(msg_with([filler, {'ty': 33, 'name': (), 'ttl': 0, 'cls': 1, 'f': [1, 2, 3, name]}]), 'name-over-64k'))
            cs.append(enc_case(msg_with([filler, {'ty': 15, 'name': (), 'ttl': 0, 'cls': 1, 'f': [1, name]}]), 'name-over-64k'))
    for off in range(0x3FFF - 20, 0x3FFF + 2, sz(tier, 3, 1)):
        for m in (straddle_msg(off), high_offset_msg(rng, off)):
            if m: cs.append(enc_case(m, 'straddle'))
    # a question section that alone exceeds 65,535 octets while its count stays below 65,536 (no records at all)
    rootq = {'name': (), 'qtype': 1, 'qclass': 1}
    for n in ((13104, 13105, 13106) if tier == 'quick' else (13103, 13104, 13105, 13106, 20000)):
        cs.append(enc_case(msg_with([], qs=[rootq] * n), 'qsize%d' % n))
    ln = long_name(255)
    for n in ((254, 255, 256, 257) if tier == 'quick' else (250, 251, 252, 253, 254, 255, 256, 257, 258, 300)):
        qs = [{'name': (b'%03d' % i,) + ln[1:], 'qtype': 1, 'qclass': 1} for i in range(n)]
        cs.append(enc_case(msg_with([], qs=qs), 'qlong%d' % n))
    # sections of 65,535 / 65,536 / 65,537 entries
    q = {'name': (), 'qtype': 1, 'qclass': 1}
    for n in (65535, 65536, 65537) if tier == 'thorough' else (65536,):
        m = msg_with([], qs=[q] * n)
        cs.append(enc_case(m, 'qd%d' % n))
    a = {'ty': 1, 'name': (), 'ttl': 0, 'cls': 1, 'f': [b'\1\2\3\4']}
    for n in ((5000, 5957, 65536) if tier == 'thorough' else (5957,)):
        cs.append(enc_case(msg_with([a] * n), 'an%d' % n))
    # APL address length (cannot exceed 16 through the API), known-finding classes
    for rc in RCODES:
        m = msg_with([]); m['flags'] = dict(m['flags'], rcode=rc)
        cs.append(enc_case(m, 'rcode%d' % rc))
    for k in (0, 1, 2, 3, 4, 5, 6, 7, 65535):
        body = {0: b'\0\1', 1: b'\2h2', 2: b'', 3: b'\0\x50', 4: b'\1\2\3\4', 5: b'\0\0', 6: bytes(16), 7: b'z', 65535: b''}[k]
        for bb in (body, b'\1'):
            cs.append(enc_case(msg_with([{'ty': 64, 'name': (), 'ttl': 0, 'cls': 1, 'prio': 1, 'target': (), 'params': [('key', k, bb)]}]), 'private%d' % k))
    cs.append(enc_case(msg_with([{'ty': 65, 'name': (), 'ttl': 0, 'cls': 1, 'prio': 0, 'target': (b'x',), 'params': [('port', 80)]}]), 'alias-params'))
    for i in range(3):
        f = [b'1', b'2', b'3']; f[i] = b''
        cs.append(enc_case(msg_with([{'ty': 27, 'name': (), 'ttl': 0, 'cls': 1, 'f': f}]), 'gpos-empty'))
    for _ in range(sz(tier, 2000, 20000)):
        cs.append(enc_case(rand_msg(rng), 'valid'))
    for m in big_msgs(rng, tier):
        cs.append(enc_case(m, 'big'))
    # "every value constructible through the public API": values reached through setters that refuse, and names built
    # from text, must still be inside the limits the encoder relies on
    cs += cookie_histories(2) + prefix_histories(2)
    cs += name_limit_api_cases()
    cs += sweep_enc_dns_cases()
    for n in (1, 62, 63, 64, 65, 66, 100, 255):
        lab = b'l' * n
        cs.append(Case('enc.name %s' % pname((lab, b'x')), 'label%d' % n))
        cs.append(Case('api.label %s' % hx(lab), 'label%d' % n))
        cs.append(enc_case(msg_with([{'ty': 2, 'name': (lab,), 'ttl': 0, 'cls': 1, 'f': [(b'ns', lab)]}]), 'label%d' % n))
    cs += overlong_utf8_label_values()
    return cs

# ---------------------------------------------------------------- C10

def C10(tier, rng):
    cs = []
    cs += sweep_enc_rr_cases(struct=True, embed=True)
    for f in all_flags():
        cs.append(Case('enc.flags %s' % pflags(f), 'flags'))
    for t in TYPES_KNOWN: cs.append(Case('enc.type %d' % t, 'code'))
    for t in QTYPES: cs.append(Case('enc.qtype %d' % t, 'code'))
    for t in CLASSES: cs.append(Case('enc.class %d' % t, 'code'))
    for t in QCLASSES: cs.append(Case('enc.qclass %d' % t, 'code'))
    for _ in range(sz(tier, 3000, 30000)):
        pool = []
        n = rand_name(rng, pool)
        cs.append(Case('enc.name %s' % pname(n), 'name'))
        q = rand_question(rng, pool)
        cs.append(Case('enc.question %s' % pquestion(q), 'question'))
    for _ in range(sz(tier, 6000, 60000)):
        rr = rand_rr(rng, None, [])
        cs.append(Case('enc.rr %s' % prr(rr), 'rr%d' % rr['ty']))
        cs.append(Case('enc.struct %s' % prr(rr), 'struct%d' % rr['ty']))
        # the same element as the first element of a message
        cs.append(Case('enc.dns %s' % pmsg(msg_with([rr])), 'first%d' % rr['ty'], exp=('EMBED', prr(rr))))
    for n in range(0, 65536, sz(tier, 257, 1)):
        h = n.to_bytes(2, 'big').hex()
        for e in ('type', 'class', 'qtype', 'qclass', 'flags'):
            cs.append(Case('dec.%s %s' % (e, h), 'dec2'))
    # names that are NOT equal but look alike (dotted label vs label sequence, bit-5 neighbours of non-letters) inside one element
    for a, b in look_alike_name_pairs():
        for rr in ({'ty': 6, 'name': (b'zone',), 'ttl': 1, 'cls': 1, 'f': [a, b, 1, 2, 3, 4, 5]}, {'ty': 14, 'name': a, 'ttl': 1, 'cls': 1, 'f': [b, a]},
                   {'ty': 2, 'name': a, 'ttl': 1, 'cls': 1, 'f': [b]}, {'ty': 15, 'name': (b'p',) + a, 'ttl': 1, 'cls': 1, 'f': [1, (b'q',) + b]}):
            cs.append(Case('enc.rr %s' % prr(rr), 'look-alike'))
            cs.append(Case('enc.struct %s' % prr(rr), 'look-alike'))
            cs.append(Case('enc.dns %s' % pmsg(msg_with([rr])), 'look-alike', exp=('EMBED', prr(rr))))
    # elements carrying names at and around the 255-octet limit, in every name position
    for n in limit_names():
        cs.append(Case('enc.name %s' % pname(n), 'limit-name'))
        cs.append(Case('enc.question %s' % pquestion({'name': n, 'qtype': 1, 'qclass': 1}), 'limit-name'))
        q = {'name': n, 'qtype': 1, 'qclass': 1}
        cs.append(Case('enc.dns %s' % pmsg(msg_with([], qs=[q])), 'limit-name'))
        for ty in (1, 2, 6, 15, 33, 39, 64):
            rr = rand_rr(random.Random(ty), ty, [])
            rr['name'] = n
            cs.append(Case('enc.rr %s' % prr(rr), 'limit-name'))
            cs.append(Case('enc.struct %s' % prr(rr), 'limit-name'))
            cs.append(Case('enc.dns %s' % pmsg(msg_with([rr])), 'limit-name', exp=('EMBED', prr(rr))))
            rr2 = rand_rr(random.Random(ty), ty, [])
            rr2['name'] = n[-1:]
            if ty in (64, 65): rr2['target'] = n
            elif ty != 1: rr2['f'] = [n if kind[0] == 'd' else v for (fname, kind), v in zip(TABLE[ty][2], rr2['f'])]
            cs.append(Case('enc.rr %s' % prr(rr2), 'limit-name'))
            cs.append(Case('enc.struct %s' % prr(rr2), 'limit-name'))
            cs.append(Case('enc.dns %s' % pmsg(msg_with([rr2])), 'limit-name', exp=('EMBED', prr(rr2))))
    # element codecs after a failing call of the same kind on the same thread, and stand-alone records whose
    # RDATA names point at the owner name at offset 0
    bad = ['enc.rr %s' % prr({'ty': 13, 'name': (b'a', b'example'), 'ttl': 0, 'cls': 1, 'f': [b'c' * 300, b'x']}),
           'enc.struct %s' % prr({'ty': 16, 'name': (b't', b'example'), 'ttl': 0, 'cls': 1, 'f': [[b's' * 256]]}),
           'enc.dns %s' % pmsg(msg_with([{'ty': 10, 'name': (b'big', b'example'), 'ttl': 0, 'cls': 1, 'f': [bytes(40000)]}] * 2))]
    for _ in range(sz(tier, 200, 2000)):
        pool = [(b'a', b'example'), (b'big', b'example')]
        cs.append(Case(rng.choice(bad), 'failing-enc'))
        cs.append(Case('enc.question %s' % pquestion(rand_question(rng, pool)), 'after-fail'))
        cs.append(Case('enc.name %s' % pname(rand_name(rng, pool)), 'after-fail'))
        rr = rand_rr(rng, rng.choice([2, 5, 6, 14, 15]), pool)
        cs.append(Case('enc.rr %s' % prr(rr), 'after-fail'))
    for ty in (6, 14):
        for owner in ((b'example', b'org'), (b'a',), ()):
            n1 = (b'ns',) + owner; n2 = (b'admin',) + n1
            f = [n1, n2, 1, 2, 3, 4, 5] if ty == 6 else [n1, n2]
            rr = {'ty': ty, 'name': owner, 'ttl': 5, 'cls': 1, 'f': f}
            cs.append(Case('enc.rr %s' % prr(rr), 'standalone-ptr0'))
            r = Renderer(Layout(random.Random(1), compress=1.0)); r.rr(rr)
            cs.append(Case('dec.rr %s' % hx(bytes(r.out)), 'standalone-ptr0'))
    cs += standalone_internal_pointer_cases()
    # elements built through setters: a refused setter call must leave the element as it was (it is encoded afterwards)
    cs += prefix_histories(1) + cookie_histories(1) + overlong_utf8_label_values()
    return cs

def standalone_internal_pointer_cases():
    """stand-alone two-name records (MINFO, SOA) whose second RDATA name reaches the owner THROUGH the first RDATA name: owner
    shapes x length of the first RDATA name x pointer target inside the owner, so that window-relative and absolute offsets
    coincide in every small combination (a pointer is an absolute offset into the element's buffer whatever window the
    reader is in)"""
    cs = []
    for owner in ((b'd',), (b'abc', b'd'), (b'ab',), (b'a', b'b', b'c'), (b'abcde',), ()):
        ow = b''.join(bytes([len(l)]) + l for l in owner) + b'\0'
        starts = [0]
        for l in owner: starts.append(starts[-1] + len(l) + 1)      # offsets of every suffix of the owner (the last = its root)
        for k1 in range(0, 5):                                        # octets of literal label in front of the first pointer
            lab1 = (bytes([k1]) + b'n' * k1) if k1 else b''
            for t1 in starts:
                name1 = lab1 + (0xC000 | t1).to_bytes(2, 'big')
                for ty in (14, 6):
                    rd_off = len(ow) + 10
                    for lab2 in (b'\1m', b'', b'\2xy'):
                        name2 = lab2 + (0xC000 | rd_off).to_bytes(2, 'big')      # points at the first RDATA name
                        rd = name1 + name2 + (bytes(20) if ty == 6 else b'')
                        w = ow + ty.to_bytes(2, 'big') + b'\0\1\0\0\x0e\x10' + len(rd).to_bytes(2, 'big') + rd
                        cs.append(Case('dec.rr %s' % hx(w), 'standalone-nested'))
                        # the same record as the only answer of a message (offsets shifted by 12)
                        sh = lambda nm: nm[:-2] + (0xC000 | (int.from_bytes(nm[-2:], 'big') & 0x3FFF) + 12).to_bytes(2, 'big')
                        rd2 = sh(name1) + sh(name2) + (bytes(20) if ty == 6 else b'')
                        m = b'\0\1\x81\x80\0\0\0\1\0\0\0\0' + ow + ty.to_bytes(2, 'big') + b'\0\1\0\0\x0e\x10' + len(rd2).to_bytes(2, 'big') + rd2
                        cs.append(Case('dec.dns %s' % hx(m), 'standalone-nested-msg'))
    return cs

def limit_names():
    """names of 253, 254 and 255 wire octets (the last is the maximum) in several label shapes"""
    out = []
    for total in (253, 254, 255):
        out.append(tuple([b'a' * 63] * 3 + [b'b' * (total - 1 - 3 * 64 - 1)]))
        k = (total - 1) // 2
        out.append(tuple([b'x'] * k) if 2 * k + 1 == total else tuple([b'x'] * (k - 1) + [b'yy']))
        out.append(tuple([b'm' * 30] * 8 + [b'n' * (total - 1 - 8 * 31 - 1)]) if total - 1 - 8 * 31 - 1 > 0 else tuple([b'm' * 30] * 7 + [b'n' * (total - 1 - 7 * 31 - 1 - 2), ] + [b'z']))
    return out

def all_flags(rcodes=RCODES_4BIT):
    out = []
    for bits in range(128):
        for op in OPCODES:
            for rc in rcodes:
                out.append({'qr': bits & 1, 'aa': bits >> 1 & 1, 'tc': bits >> 2 & 1, 'rd': bits >> 3 & 1, 'ra': bits >> 4 & 1,
                            'ad': bits >> 5 & 1, 'cd': bits >> 6 & 1, 'opcode': op, 'rcode': rc})
    return out

# ---------------------------------------------------------------- C11

ENUM_TABLES = [('Type', 65536), ('Class', 65536), ('QType', 65536), ('QClass', 65536), ('Opcode', 256), ('RCode', 256),
               ('EDNSOptionCode', 65536), ('AlgorithmType', 256), ('DigestType', 256), ('SSHFPAlgorithm', 256),
               ('SSHFPType', 256), ('AFSDBSubtype', 65536), ('AddressFamilyNumber', 65536)]

def C11(tier, rng):
    cs = []
    for n in range(65536):
        h = n.to_bytes(2, 'big').hex()
        for e in ('flags', 'type', 'class', 'qtype', 'qclass'):
            cs.append(Case('dec.%s %s' % (e, h), 'dec-' + e))
    for t, bound in ENUM_TABLES:
        for n in range(bound):
            cs.append(Case('enum %s %d' % (t, n), 'enum-' + t))
        cs.append(Case('enum %s %d' % (t, bound), 'enum-' + t))
    for f in all_flags(RCODES):
        cs.append(Case('enc.flags %s' % pflags(f), 'enc-flags'))
    for t in TYPES_KNOWN: cs.append(Case('enc.type %d' % t, 'enc-code'))
    for t in QTYPES: cs.append(Case('enc.qtype %d' % t, 'enc-code'))
    for t in CLASSES: cs.append(Case('enc.class %d' % t, 'enc-code'))
    for t in QCLASSES: cs.append(Case('enc.qclass %d' % t, 'enc-code'))
    cs += dnskey_flag_cases(tier)
    # record level: the type a decoded record reports (and writes back) is the one on the wire, for every type and form
    cs += sweep_rr_wire_cases() + sweep_wire_cases('rt.dns', both_layouts=False)
    # the enumerated fields inside records: every 8-bit code of every in-record enum
    for v in range(256):
        cs.append(Case('dec.rr %s' % hx(raw_rr(44, 1, bytes([v, 1]) + b'fp')), 'sshfp-alg'))
        cs.append(Case('dec.rr %s' % hx(raw_rr(44, 1, bytes([1, v]) + b'fp')), 'sshfp-type'))
        cs.append(Case('dec.rr %s' % hx(raw_rr(43, 1, b'\0\1' + bytes([v, 1]) + b'dg')), 'ds-alg'))
        cs.append(Case('dec.rr %s' % hx(raw_rr(43, 1, b'\0\1' + bytes([8, v]) + b'dg')), 'ds-digest'))
        cs.append(Case('dec.rr %s' % hx(raw_rr(48, 1, b'\1\0\3' + bytes([v]) + b'key')), 'dnskey-alg'))
        cs.append(Case('dec.rr %s' % hx(raw_rr(48, 1, b'\1\0' + bytes([v, 8]) + b'key')), 'dnskey-proto'))
    for v in range(0, 65536, sz(tier, 1, 1)):
        w = v.to_bytes(2, 'big')
        cs.append(Case('dec.rr %s' % hx(raw_rr(18, 1, w + b'\0')), 'afsdb'))
        cs.append(Case('dec.rr %s' % hx(raw_rr(48, 1, w + b'\3\x08key')), 'dnskey-flags'))
        cs.append(Case('dec.rr %s' % hx(opt_rr([w + b'\0\0'])), 'optcode'))
        cs.append(Case('dec.rr %s' % hx(opt_rr([opt_option(8, w + b'\0\0')])), 'family'))
    # an unsupported code point must be reported WITH its code even when what follows it is short or malformed: the code is
    # validated where it is read (EDNS option code before option length / data; algorithm and digest octets before the blob)
    for code in (0, 1, 2, 3, 5, 9, 11, 13, 15, 65001, 65535):
        for tail in (b'', b'\0', b'\0\1', b'\0\4ab', b'\xff\xff', b'\0\0'):
            rd = code.to_bytes(2, 'big') + tail
            cs.append(Case('dec.rr %s' % hx(b'\0\0\x29\x10\0\0\0\0\0' + len(rd).to_bytes(2, 'big') + rd), 'optcode-truncated'))
            rd2 = b'\0\x0c\0\2\0\0' + rd                       # after a complete padding option
            cs.append(Case('dec.rr %s' % hx(b'\0\0\x29\x10\0\0\0\0\0' + len(rd2).to_bytes(2, 'big') + rd2), 'optcode-truncated'))

    # the same code points where they occur INSIDE elements: the CLASS of a record (validated per record by the record
    # reader, not by `Class::decode`), QTYPE and QCLASS of a question, TYPE of a record: all 65,536 values each
    for v in range(65536):
        w = v.to_bytes(2, 'big')
        cs.append(Case('dec.rr %s' % hx(b'\1x\0\0\2' + w + b'\0\0\0\x3c\0\3\1n\0'), 'rr-class-all'))
        cs.append(Case('dec.question %s' % hx(b'\1x\0' + w + b'\0\1'), 'q-qtype-all'))
        cs.append(Case('dec.question %s' % hx(b'\1x\0\0\1' + w), 'q-qclass-all'))
    return cs

# ---------------------------------------------------------------- C12 / C13

PFX = [0, 1, 7, 8, 9, 31, 32, 33, 127, 128, 129, 255]
def addr_set(size):
    full = (1 << (8 * size)) - 1
    vs = {0, full, 1, 1 << (8 * size - 1), 0x0a000000 << (8 * (size - 4))}
    for p in (1, 7, 8, 9, 24, 31, 8 * size - 1):
        vs.add(full & ~((1 << (8 * size - p)) - 1))
        vs.add(1 << (8 * size - p))          # the single bit at position p-1
    return [v.to_bytes(size, 'big') for v in sorted(vs)]

def C12(tier, rng):
    cs = []
    A4, A6 = addr_set(4), addr_set(16)
    famaddr = [(1, a) for a in A4] + [(2, a) for a in A6[:8]]
    calls = ['src:%d' % p for p in PFX] + ['scope:%d' % p for p in PFX] + ['addr:%d/%s' % (f, a.hex()) for f, a in famaddr[:10]]
    inits = ['%d/%d/%d/%s' % (f, s, c, a.hex()) for f, a in famaddr for s in (0, 8, 24, 32) for c in (0, 24)]
    depth = sz(tier, 2, 3)
    for init in inits[::sz(tier, 4, 1)]:
        for seq in itertools.product(calls, repeat=depth) if tier == 'thorough' and False else []:
            pass
    # exhaustive short histories over a reduced boundary set, random longer ones
    small_calls = ['src:0', 'src:8', 'src:9', 'src:32', 'src:33', 'src:64', 'scope:0', 'scope:24', 'scope:32', 'scope:33', 'scope:64', 'scope:129',
                   'addr:1/0a000000', 'addr:1/0a000001', 'addr:1/ffffffff', 'addr:2/' + 'ff' * 16, 'addr:2/' + '20010db8' + '00' * 12]
    small_inits = ['1/0/0/00000000', '1/8/0/0a000000', '1/24/0/0a000100', '1/32/0/0a000001', '1/12/24/0a010000', '2/32/0/20010db8' + '00' * 12, '1/33/0/00000000', '1/8/0/0a000001']
    for init in small_inits:
        for k in range(0, sz(tier, 3, 4)):
            for seq in itertools.product(small_calls, repeat=k):
                cs.append(Case('api.ecs %s%s' % (init, ''.join(' ' + c for c in seq)), 'ecs%d' % k))
    ap_calls = ['prefix:0', 'prefix:8', 'prefix:9', 'prefix:32', 'prefix:33', 'prefix:128', 'neg:1', 'neg:0', 'addr:1/0a000000', 'addr:1/0a000001', 'addr:2/' + 'ff' * 16, 'addr:2/' + '00' * 16]
    ap_inits = ['1/0/0/00000000', '1/8/1/0a000000', '1/32/0/0a000001', '2/64/1/1122334400000000' + '00' * 8, '1/33/0/00000000', '1/8/0/0a000001']
    for init in ap_inits:
        for k in range(0, sz(tier, 3, 4)):
            for seq in itertools.product(ap_calls, repeat=k):
                cs.append(Case('api.apitem %s%s' % (init, ''.join(' ' + c for c in seq)), 'apitem%d' % k))
    ck_calls = ['server:none'] + ['server:%s' % hx(bytes(n)) for n in (0, 7, 8, 9, 31, 32, 33)] + ['client:1122334455667788']
    for init in ['0102030405060708/none'] + ['0102030405060708/%s' % hx(bytes(n)) for n in (0, 7, 8, 32, 33)]:
        for k in range(0, sz(tier, 3, 4)):
            for seq in itertools.product(ck_calls, repeat=k):
                cs.append(Case('api.cookie %s%s' % (init, ''.join(' ' + c for c in seq)), 'cookie%d' % k))
    # random long histories
    for _ in range(sz(tier, 3000, 30000)):
        k = rng.randint(5, 64)
        cs.append(Case('api.ecs %s%s' % (rng.choice(inits), ''.join(' ' + rng.choice(calls) for _ in range(k))), 'ecs-long'))
        cs.append(Case('api.apitem %s%s' % (rng.choice(ap_inits), ''.join(' ' + rng.choice(ap_calls) for _ in range(k))), 'apitem-long'))
        cs.append(Case('api.cookie %s%s' % ('0102030405060708/none', ''.join(' ' + rng.choice(ck_calls) for _ in range(k))), 'cookie-long'))
    # labels, names, validators
    for n in list(range(0, 71)):
        for ch in (b'a', b'\xc3\xa9', b'.'):
            s = (ch * n)[:n] if len(ch) == 1 else ch * (n // 2)
            cs.append(Case('api.label %s' % hx(s), 'label'))
    for total in range(240, 262):
        labs = [b'x' * 63] * 3 + [b'y' * max(1, min(63, total - 192 - 2))]
        cs.append(Case('api.name %s' % ' '.join(hx(l) for l in labs + [b'z', b'', b'w' * 64, b'q']), 'name-limit'))
    for _ in range(sz(tier, 2000, 20000)):
        labs = [rng.choice([b'a', b'x' * 63, b'y' * 30, b'', b'z' * 64, b'\xe2\x84\xaa', b'm' * rng.randint(1, 63)]) for _ in range(rng.randint(1, 12))]
        cs.append(Case('api.name %s' % ' '.join(hx(l) for l in labs), 'name-hist'))
    for n in (0, 1, 2, 100): cs.append(Case('api.nev %d' % n, 'nev'))
    # values obtained by DECODING must satisfy the same constraints: names around the limit reached through pointers,
    # address-prefix items at the constraint boundary
    for pl in (1, 10, 62, 63):
        for tot in range(248 - pl, 262 - pl):
            if tot >= 1: cs.append(Case('dec.dns %s' % hx(split_long_name_msg(pl, tot)), 'decoded-name'))
    for step in (9, 15, 30, 62):
        names = nested_long_names(step)
        m = msg_with([{'ty': 2, 'name': n, 'ttl': 0, 'cls': 1, 'f': [n]} for n in names])
        b, _ = render(m, Layout(random.Random(step), compress=1.0))
        cs.append(Case('dec.dns %s' % hx(b), 'decoded-name'))
    for fam, size in ((1, 4), (2, 16)):
        for pfx in list(range(0, 8 * size + 2)):
            for a in (b'\xff' * size, (b'\x80' + b'\0' * (size - 1)), b'\0' * (size - 1) + b'\1', bytes([0x0a, 0x40, 0x80, 0x20] * (size // 4))):
                cs.append(Case('dec.rr %s' % hx(opt_rr([opt_option(8, fam.to_bytes(2, 'big') + bytes([pfx % 256, 0]) + a)])), 'decoded-ecs'))
                cs.append(Case('dec.rr %s' % hx(opt_rr([opt_option(8, fam.to_bytes(2, 'big') + bytes([0, pfx % 256]) + a)])), 'decoded-ecs'))
                cs.append(Case('dec.rr %s' % hx(apl_rr([fam.to_bytes(2, 'big') + bytes([pfx % 256, size]) + a])), 'decoded-apl'))
    samples = [b'', b'issue', b'ISSUE', b'Issue9', b'iss ue', b'iss-ue', b'0123456789', b'12a', b'abcdefABCDEF0189', b'xyz', b'\xc3\xa9', b'1\xc2\xb2', b'a' * 300, b'9' * 300]
    for s in samples:
        for op in ('tag', 'psdn', 'isdn', 'sa'):
            cs.append(Case('api.%s %s' % (op, hx(s)), op))
    for b in range(128):
        for op in ('tag', 'psdn', 'isdn', 'sa'):
            cs.append(Case('api.%s %s' % (op, hx(bytes([b]))), op + '-byte'))
    # every public way to build a name meets the same limit (text with / without the final dot, appends)
    cs += name_limit_api_cases() + label_length_octet_cases() + unicode_validator_cases()
    for o in (b'\xd9\xa3', b'\xef\xbc\xa1', b'\xef\xbc\x91', b'\xe0\xa5\xa7', b'\xce\xb1', b'\xe2\x85\xa7'):
        for s_ in (o, b'a' + o, o + b'1', b'12' + o):
            for op in ('tag', 'psdn', 'isdn', 'sa'):
                cs.append(Case('api.%s %s' % (op, hx(s_)), op + '-unicode'))
    return cs

SPECIAL = [b'K', b'k', b'\xe2\x84\xaa', b'\xc4\xb0', b'i\xcc\x87', b'\xe1\xba\x9e', b'ss', b'A', b'a', b'Z', b'z', b'0', b'.', b'\x00', b'\xc3\x89', b'\xc3\xa9', b'[', b'{', b'@', b'`']
def C13(tier, rng):
    cs = []
    def rlabel(n):
        out = b''
        while len(out) < n:
            c = rng.choice(SPECIAL)
            if len(out) + len(c) <= n: out += c
            else: out += b'a'
        return out
    labels = []
    for n in range(0, 71):
        for _ in range(sz(tier, 6, 40)):
            labels.append(rlabel(n))
    for l in labels:
        cs.append(Case('api.label %s' % hx(l), 'label'))
        cs.append(Case('text.parse %s' % hx(l), 'parse1'))
        cs.append(Case('text.parse %s' % hx(l + b'.'), 'parse1dot'))
    ok_labels = [l for l in labels if 1 <= len(l) <= 63]
    for _ in range(sz(tier, 5000, 60000)):
        a = tuple(rng.choice(ok_labels) for _ in range(rng.randint(0, 4)))
        a = tuple(l for l in a)
        while name_wire_len(a) > 255: a = a[1:]
        flip = tuple(bytes((c ^ 0x20) if (65 <= c <= 90 or 97 <= c <= 122) and rng.random() < 0.5 else c for c in l) for l in a)
        other = tuple(rng.choice(ok_labels) for _ in range(len(a)))
        while name_wire_len(other) > 255: other = other[1:]
        cs.append(Case('text.display %s' % pname(a), 'display'))
        cs.append(Case('text.eq %s %s' % (pname(a), pname(flip)), 'eq-flip'))
        cs.append(Case('text.eq %s %s' % (pname(a), pname(other)), 'eq-other'))
        s = b'.'.join(a) + rng.choice([b'', b'.'])
        cs.append(Case('text.parse %s' % hx(s), 'parse'))
        # the encoder treats equal names as interchangeable targets: octets may change only in ASCII case
        if a:
            cs.append(enc_case(names_msg([a, flip, (b'p',) + flip, other]), 'compress-eq'))
    # equal names (ASCII case variants) are INTERCHANGEABLE compression targets: the second question's name must be a bare
    # pointer to the first one's, whichever spelling comes first
    for n in ((b'example', b'org'), (b'Www', b'Example', b'ORG'), (b'a',), (b'MiXeD', b'x1-y', b'z')):
        variants = [n, tuple(l.upper() for l in n), tuple(l.lower() for l in n), tuple(l.swapcase() for l in n)]
        for v1 in variants:
            for v2 in variants:
                m = msg_with([], qs=[{'name': v1, 'qtype': 1, 'qclass': 1}, {'name': v2, 'qtype': 1, 'qclass': 1}])
                cs.append(Case('enc.dns %s' % pmsg(m), 'interchangeable', exp=abs_msg_text(m)))
                m2 = msg_with([{'ty': 2, 'name': v1, 'ttl': 0, 'cls': 1, 'f': [(b'ns',) + v2]}])
                cs.append(Case('enc.dns %s' % pmsg(m2), 'interchangeable-suffix', exp=abs_msg_text(m2)))
    for pair in look_alike_name_pairs():
        cs.append(Case('text.eq %s %s' % (pname(pair[0]), pname(pair[1])), 'eq-look-alike'))
        cs.append(enc_case(names_msg_a(pair), 'compress-look-alike'))
    for pair in itertools.product(SPECIAL, repeat=2):
        cs.append(Case('text.eq %s %s' % (pname((pair[0], b'x')), pname((pair[1], b'x'))), 'eq-special'))
        cs.append(enc_case(names_msg([(pair[0], b'example'), (pair[1], b'example')]), 'compress-special'))
    for total in range(250, 260):
        n = long_name(total)
        s = b'.'.join(n)
        for suffix in (b'', b'.'):
            cs.append(Case('text.parse %s' % hx(s + suffix), 'parse-limit'))
        cs.append(Case('api.name %s' % ' '.join(hx(l) for l in n), 'append-limit'))
        w = b''.join(bytes([len(l)]) + l for l in n) + b'\0'
        cs.append(Case('dec.name %s' % hx(w), 'decode-limit'))
    for pl in (1, 10, 62, 63):
        for tot in range(250 - pl, 262 - pl):
            if tot >= 1: cs.append(Case('dec.dns %s' % hx(split_long_name_msg(pl, tot)), 'decode-limit-ptr'))
    for s in (b'', b'.', b'..', b'a..b', b'.a', b'a.', b'a..', b'\xe2\x84\xaa.example.'):
        cs.append(Case('text.parse %s' % hx(s), 'parse-edge'))
    cs += label_length_octet_cases()
    cs += overlong_utf8_label_values()
    # equal names as compression targets exactly at, just below and just above the last pointable offset
    for off in (0x3FF0, 0x3FFD, 0x3FFE, 0x3FFF, 0x4000, 0x4001, 0x4002, 0x4010):
        m = high_offset_msg(rng, off)
        if m: cs.append(Case('enc.dns %s' % pmsg(m), 'eq-target-hioff'))
        m2 = straddle_msg(off)
        if m2: cs.append(Case('enc.dns %s' % pmsg(m2), 'eq-target-straddle'))
    return cs
