"""Op streams per property. Every stream is a list of Case objects; all randomness comes from one
random.Random seeded from VERIF_SEED, so a case replays exactly from (seed, index)."""
import os, re, random, itertools
from wire import *
from gen import *

REPO = os.environ.get('VERIF_REPO', '/repo')
ENTRIES = ['dns', 'flags', 'question', 'rr', 'name', 'type', 'class', 'qtype', 'qclass']

class Case:
    __slots__ = ('op', 'tag', 'exp')
    def __init__(self, op, tag, exp=None):
        self.op = op; self.tag = tag; self.exp = exp

# ------------------------------------------------------------------ corpus (repo's own vectors)

_corpus = None
def corpus_vectors():
    """every b"..." literal of the repository's tests, extracted at run time"""
    global _corpus
    if _corpus is not None:
        return _corpus
    out = []
    files = []
    for root, _, fs in os.walk(REPO):
        if '/target' in root or '/.git' in root: continue
        for f in fs:
            if f.endswith('.rs') and ('/tests' in root or f == 'tests.rs' or '/fuzz' in root):
                files.append(os.path.join(root, f))
    for p in sorted(files):
        try:
            src = open(p).read()
        except Exception:
            continue
        for m in re.finditer(r'b"((?:[^"\\]|\\.|\\\n)*)"', src):
            s = re.sub(r'\\\n\s*', '', m.group(1))
            try:
                out.append(eval('b"' + s + '"'))
            except Exception:
                pass
    seen = set(); res = []
    for b in out:
        if b not in seen:
            seen.add(b); res.append(b)
    _corpus = res
    return res

def dec_all_entries(b, tag):
    return [Case('dec.%s %s' % (e, hx(b)), tag) for e in ENTRIES]

def exhaustive_short(maxlen, entries=ENTRIES):
    cs = []
    for n in range(maxlen + 1):
        for t in itertools.product(range(256), repeat=n):
            h = hx(bytes(t))
            for e in entries:
                cs.append(Case('dec.%s %s' % (e, h), 'exh%d' % n))
    return cs

# ------------------------------------------------------------------ valid messages and layouts

def layouts(rng, n, types=None, maxrr=4, **lay):
    """n (msg, bytes, renderer) triples in random legal layouts"""
    res = []
    for _ in range(n):
        m = rand_msg(rng, types=types, maxrr=maxrr)
        L = Layout(rng, compress=lay.get('compress', rng.choice([0, 0.5, 1.0])), flipcase=lay.get('flipcase', rng.choice([0, 0.3])),
                   pad_addr=lay.get('pad_addr', rng.choice([0, 0.5])), shuffle_params=lay.get('shuffle_params', rng.random() < 0.5))
        b, r = render(m, L)
        res.append((m, b, r))
    return res

# small steps, a whole octet, and every single bit of a length octet / the high bits of a two-octet length (a mask that is one
# bit short shows only for the delta that sets exactly that bit)
DELTAS = [-2, -1, 1, 2, 8, -8, 255, -255, 4, 16, 32, 64, -64, 128, 256, 4096, 16384, 32768]

def length_mutants(b, r, rng, per=None):
    """every count/length field changed by every delta (or a sample of `per` of them)"""
    out = []
    marks = r.marks
    if per is not None and len(marks) * len(DELTAS) > per:
        picks = [(rng.choice(marks), rng.choice(DELTAS)) for _ in range(per)]
    else:
        picks = [(mk, d) for mk in marks for d in DELTAS]
    for (kind, pos, w), d in picks:
        v = int.from_bytes(b[pos:pos + w], 'big')
        if kind == 'afdlen':
            nv = (v & 0x80) | ((v + d) & 0x7F)
        else:
            nv = (v + d) % (256 ** w)
        if nv == v: continue
        bb = bytearray(b); bb[pos:pos + w] = nv.to_bytes(w, 'big')
        out.append((bytes(bb), 'len:%s%+d' % (kind, d)))
    return out

def truncations(b, rng, per=None):
    idx = range(len(b)) if per is None or len(b) <= per else sorted(rng.sample(range(len(b)), per))
    return [(b[:i], 'trunc') for i in idx]

def suffixes(b, rng):
    return [(b + bytes(rng.getrandbits(8) for _ in range(k)), 'suffix') for k in (1, 2, 4)] + [(b + b'\0', 'suffix')]

def byteflips(b, rng, n):
    out = []
    for _ in range(n):
        bb = bytearray(b)
        for _ in range(rng.choice([1, 1, 2, 3])):
            if bb:
                i = rng.randrange(len(bb))
                bb[i] = rng.choice([bb[i] ^ (1 << rng.randrange(8)), rng.getrandbits(8), 0, 0xFF, 0xC0, 0x3F, 0x40])
        out.append((bytes(bb), 'flip'))
    return out

def split_records(b, r):
    """the octets of each record of a rendered message do not stand alone when compressed; instead
    render single records separately"""
    return []

# ------------------------------------------------------------------ hostile names (C07)

def ptr(off):
    return bytes([0xC0 | (off >> 8), off & 0xFF])

def pointer_graphs(max_nodes):
    """all pointer graphs with up to max_nodes nodes; node kinds: label 'a', pointer to node j, end.
    Node i sits at a fixed offset (2 octets per node: label = 01 61, pointer = c0 xx, end = 00 00)."""
    out = []
    for n in range(1, max_nodes + 1):
        kinds = ['L', 'E'] + ['P%d' % j for j in range(n)]
        for combo in itertools.product(kinds, repeat=n):
            b = bytearray()
            for k in combo:
                if k == 'L': b += b'\x01a'
                elif k == 'E': b += b'\x00\x00'
                else: b += ptr(2 * int(k[1:]))
            out.append(bytes(b))
    return out

def chain(k, tail=b'\x03abc\x00'):
    """k pointers, each to the next, ending in a literal name: offsets grow backwards"""
    # layout: tail at 0, then pointer i at len(tail)+2*i pointing to previous element
    b = bytearray(tail)
    prev = 0
    for i in range(k):
        cur = len(b)
        b += ptr(prev)
        prev = cur
    return bytes(b), prev   # name starts at `prev`

def fan(npointers, namelen=255):
    """a long name followed by many records' worth of pointers to it (as questions of a message)"""
    n = long_name(namelen)
    hdr = (0).to_bytes(2, 'big') + b'\x01\x00' + npointers.to_bytes(2, 'big') + b'\0' * 6
    body = bytearray()
    r = Renderer(); r.out = bytearray(hdr); r.name(n); r.u(2, 1); r.u(2, 1)
    b = bytearray(r.out)
    for _ in range(npointers - 1):
        b += ptr(12) + b'\x00\x01\x00\x01'
    return bytes(b)

def maze(rng, size):
    """random bytes biased to pointer octets and small label lengths"""
    b = bytearray()
    while len(b) < size:
        r = rng.random()
        if r < 0.4:
            b += ptr(rng.randrange(max(1, min(size, 0x3FFF))))
        elif r < 0.7:
            l = rng.randint(1, 5); b.append(l); b += bytes(rng.choice(b'abc') for _ in range(l))
        elif r < 0.8:
            b.append(0)
        else:
            b.append(rng.getrandbits(8))
    return bytes(b[:size])
