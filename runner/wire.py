"""Value model (python dicts), canonical text printer and a layout-parameterised reference renderer.

A message value:
  {'id':int,'flags':{'qr','opcode','aa','tc','rd','ra','ad','cd','rcode'},'qs':[{'name','qtype','qclass'}],
   'an':[rr],'ns':[rr],'ar':[rr]}
A name is a tuple of bytes labels. An rr: {'ty':int,'name':name,'ttl':int,'cls':int,'f':[(fname,kind,value)]}
kinds: 'n' (value (int,width)), 'd' (name; compress flag in table), 'h' (bytes), 's' (cstr bytes),
       'o' (None|bytes), 'L' (list of cstr), 'opts', 'apl', 'params'
"""
import struct

def hx(b):
    return b.hex() if b else '-'

def pname(n):
    return '.' if not n else '.'.join(l.hex() for l in n)

# (tname, in_only, [(fname, kind, arg)]) ; kind: n<w>, e<w> (enum), dc (compressible name), du (uncompressed),
# s (cstr), o (optional cstr), L (strs), h (rest), x<len> fixed octets
TABLE = {
 1: ('A', True, [('ipv4_addr','x4')]),
 2: ('NS', False, [('ns_d_name','dc')]), 3: ('MD', False, [('mad_name','dc')]), 4: ('MF', False, [('mad_name','dc')]),
 5: ('CNAME', False, [('c_name','dc')]),
 6: ('SOA', False, [('m_name','dc'),('r_name','dc'),('serial','n4'),('refresh','n4'),('retry','n4'),('expire','n4'),('min_ttl','n4')]),
 7: ('MB', False, [('mad_name','dc')]), 8: ('MG', False, [('mgm_name','dc')]), 9: ('MR', False, [('new_name','dc')]),
 10: ('NULL', False, [('data','h')]),
 11: ('WKS', True, [('ipv4_addr','x4'),('protocol','n1'),('bit_map','h')]),
 12: ('PTR', False, [('ptr_d_name','dc')]),
 13: ('HINFO', False, [('cpu','s'),('os','s')]),
 14: ('MINFO', False, [('r_mail_bx','dc'),('e_mail_bx','dc')]),
 15: ('MX', False, [('preference','n2'),('exchange','dc')]),
 16: ('TXT', False, [('strings','L')]),
 17: ('RP', False, [('mbox_dname','du'),('txt_dname','du')]),
 18: ('AFSDB', False, [('subtype','e2:afsdb'),('hostname','du')]),
 19: ('X25', False, [('psdn_address','s:digits')]),
 20: ('ISDN', False, [('isdn_address','s:digits'),('sa','o:hex')]),
 21: ('RT', False, [('preference','n2'),('intermediate_host','du')]),
 22: ('NSAP', False, [('data','h')]),
 26: ('PX', False, [('preference','n2'),('map822','du'),('mapx400','du')]),
 27: ('GPOS', False, [('longitude','s:gpos'),('latitude','s:gpos'),('altitude','s:gpos')]),
 28: ('AAAA', True, [('ipv6_addr','x16')]),
 29: ('LOC', False, [('version','n1'),('size','n1'),('horiz_pre','n1'),('vert_pre','n1'),('latitube','n4'),('longitube','n4'),('altitube','n4')]),
 31: ('EID', False, [('data','h')]), 32: ('NIMLOC', False, [('data','h')]),
 33: ('SRV', False, [('priority','n2'),('weight','n2'),('port','n2'),('target','du')]),
 36: ('KX', False, [('preference','n2'),('exchanger','du')]),
 39: ('DNAME', False, [('target','du')]),
 43: ('DS', False, [('key_tag','n2'),('algorithm_type','e1:alg'),('digest_type','e1:digest'),('digest','h')]),
 44: ('SSHFP', False, [('algorithm','e1:sshalg'),('type_','e1:sshtype'),('fp','h')]),
 48: ('DNSKEY', False, [('flags','e2:dnskeyflags'),('protocol','e1:proto3'),('algorithm_type','e1:alg'),('public_key','h')]),
 104: ('NID', False, [('preference','n2'),('node_id','n8')]),
 105: ('L32', False, [('preference','n2'),('locator_32','n4')]),
 106: ('L64', False, [('preference','n2'),('locator_64','n8')]),
 107: ('LP', False, [('preference','n2'),('fqdn','du')]),
 108: ('EUI48', False, [('eui_48','x6')]), 109: ('EUI64', False, [('eui_64','x8')]),
 256: ('URI', False, [('priority','n2'),('weight','n2'),('uri','h:utf8')]),
 257: ('CAA', False, [('flags','n1'),('tag','s:tag'),('value','h')]),
}
OPT, APL, SVCB, HTTPS = 41, 42, 64, 65
ALL_TYPES = sorted(list(TABLE) + [OPT, APL, SVCB, HTTPS])
ENUMS = {
 'afsdb': [1, 2], 'alg': [0,1,2,3,4,5,6,7,8,12,13,14,15,16,252,253,254], 'digest': [0,1,2,3,4],
 'sshalg': [0,1,2], 'sshtype': [0,1], 'dnskeyflags': [0,1,256,257], 'proto3': [3],
}
CLASSES = [1, 2, 3, 4]
QCLASSES = [1, 2, 3, 4, 254, 255]
OPCODES = [0, 1, 2, 4, 5, 6]
RCODES = list(range(0, 12)) + list(range(16, 24))
RCODES_4BIT = list(range(0, 12))
TYPES_KNOWN = list(range(1, 54)) + list(range(55, 66)) + list(range(99, 110)) + [249, 250, 251, 256, 257, 258, 259, 260, 32768, 32769]
QTYPES = [t for t in TYPES_KNOWN if t != 41] + [252, 253, 254, 255]

# ---------------------------------------------------------------- canonical text

def pflags(f):
    return 'F %d %d %d %d %d %d %d %d %d' % (f['qr'], f['opcode'], f['aa'], f['tc'], f['rd'], f['ra'], f['ad'], f['cd'], f['rcode'])

def pquestion(q):
    return 'Q %s %d %d' % (pname(q['name']), q['qtype'], q['qclass'])

def plist(items):
    return 'L:0' if not items else 'L:%d %s' % (len(items), ' '.join(items))

def pcounted(items):
    return '0' if not items else '%d,%s' % (len(items), ','.join(items))

def poption(o):
    k = o[0]
    if k == 'ecs':
        return 'ecs:%d/%d/%d/%s' % (o[1], o[2], o[3], hx(o[4]))
    if k == 'cookie':
        return 'cookie:%s/%s' % (hx(o[1]), 'none' if o[2] is None else hx(o[2]))
    return 'pad:%d' % o[1]

def papitem(i):
    return '%d/%d/%d/%s' % (i['fam'], i['pfx'], i['neg'], hx(i['addr']))

def pparam(p):
    k = p[0]
    if k == 'mandatory': return 'mandatory:' + pcounted([str(x) for x in p[1]])
    if k == 'alpn': return 'alpn:' + pcounted([hx(x) for x in p[1]])
    if k == 'nodefaultalpn': return 'nodefaultalpn'
    if k == 'port': return 'port:%d' % p[1]
    if k == 'ipv4hint': return 'ipv4hint:' + pcounted([hx(x) for x in p[1]])
    if k == 'ech': return 'ech:' + hx(p[1])
    if k == 'ipv6hint': return 'ipv6hint:' + pcounted([hx(x) for x in p[1]])
    if k == 'key': return 'key%d:%s' % (p[1], hx(p[2]))
    if k == 'key65535': return 'key65535'
    raise ValueError(k)

def param_key(p):
    return {'mandatory':0,'alpn':1,'nodefaultalpn':2,'port':3,'ipv4hint':4,'ech':5,'ipv6hint':6,'key65535':65535}.get(p[0], p[1] if p[0]=='key' else None)

def prr(r):
    ty = r['ty']
    if ty == OPT:
        return 'RR 41 . - - 5 requestor_payload_size=n:%d extend_rcode=n:%d version=n:%d dnssec=n:%d edns_options=%s' % (
            r['payload'], r['ext'], r['ver'], r['do'], plist([poption(o) for o in r['opts']]))
    head = 'RR %d %s %d %d' % (ty, pname(r['name']), r['ttl'], r['cls'])
    if ty == APL:
        return head + ' 1 apitems=' + plist([papitem(i) for i in r['items']])
    if ty in (SVCB, HTTPS):
        return head + ' 3 priority=n:%d target_name=d:%s parameters=%s' % (r['prio'], pname(r['target']), plist([pparam(p) for p in r['params']]))
    flds = TABLE[ty][2]
    out = []
    for (fname, kind), v in zip(flds, r['f']):
        k = kind[0]
        if k in 'ne': out.append('%s=n:%d' % (fname, v))
        elif k == 'd': out.append('%s=d:%s' % (fname, pname(v)))
        elif k in 'hsx': out.append('%s=h:%s' % (fname, hx(v)))
        elif k == 'o': out.append('%s=o:%s' % (fname, 'none' if v is None else hx(v)))
        elif k == 'L': out.append('%s=%s' % (fname, plist([hx(s) for s in v])))
    return head + ' %d' % len(out) + (' ' + ' '.join(out) if out else '')

def pmsg(m):
    items = [pquestion(q) for q in m['qs']] + [prr(r) for r in m['an'] + m['ns'] + m['ar']]
    return 'M %d %s %d %d %d %d' % (m['id'], pflags(m['flags']), len(m['qs']), len(m['an']), len(m['ns']), len(m['ar'])) + \
        (' ' + ' '.join(items) if items else '')

def lower_label(l):
    return bytes(c + 32 if 65 <= c <= 90 else c for c in l)

def lower_name(n):
    return tuple(lower_label(l) for l in n)

# ---------------------------------------------------------------- reference renderer (RFC layouts)

class Layout:
    """Choices a sender is free to make. rng may be None (= plain: no compression, given case,
    minimal addresses, sorted params)."""
    def __init__(self, rng=None, compress=0.0, flipcase=0.0, pad_addr=0.0, shuffle_params=False,
                 compress_all_names=False, max_hops=16):
        self.rng = rng; self.compress = compress; self.flipcase = flipcase; self.pad_addr = pad_addr
        self.shuffle_params = shuffle_params; self.compress_all_names = compress_all_names; self.max_hops = max_hops

class Renderer:
    def __init__(self, layout=None):
        self.lay = layout or Layout()
        self.out = bytearray()
        self.names = {}      # lowercased suffix tuple -> (offset, hops)
        self.marks = []      # (kind, offset, width) of every count/length field, for mutators
        self.name_starts = []  # (offset, name, in_rdata_of_type or None)

    def rnd(self, p):
        return self.lay.rng is not None and self.lay.rng.random() < p

    def u(self, w, n):
        self.out += n.to_bytes(w, 'big')

    def label_case(self, l):
        if self.rnd(self.lay.flipcase):
            return bytes((c ^ 0x20) if (65 <= c <= 90 or 97 <= c <= 122) and self.lay.rng.random() < 0.5 else c for c in l)
        return l

    def name(self, n, compressible=True, ctx=None):
        self.name_starts.append((len(self.out), n, ctx))
        local = []
        hops_here = 0
        for i in range(len(n)):
            suf = lower_name(n[i:])
            ent = self.names.get(suf)
            if ent is not None and compressible and ent[0] <= 0x3FFF and ent[1] + 1 <= self.lay.max_hops and self.rnd(self.lay.compress):
                self.out += (0xC000 | ent[0]).to_bytes(2, 'big')
                hops_here = ent[1] + 1
                for s, off in local:
                    self.names[s] = (off, hops_here)
                return
            off = len(self.out)
            local.append((suf, off))
            lab = self.label_case(n[i])
            self.out.append(len(lab)); self.out += lab
        # the terminating root is a name as well: a sender may replace the zero octet by a pointer to the zero octet that
        # ends an earlier name (pointless, two octets instead of one, but a legal backward pointer to a prior name)
        ent = self.names.get(())
        if ent is not None and compressible and ent[0] <= 0x3FFF and ent[1] + 1 <= self.lay.max_hops and self.rnd(self.lay.compress * 0.15):
            self.out += (0xC000 | ent[0]).to_bytes(2, 'big')
            for s, off in local:
                if off <= 0x3FFF: self.names[s] = (off, ent[1] + 1)
            return
        if len(self.out) <= 0x3FFF and () not in self.names:
            self.names[()] = (len(self.out), 0)
        self.out.append(0)
        for s, off in local:
            if off <= 0x3FFF:
                self.names[s] = (off, 0)

    def lenfield(self, kind, w=2):
        pos = len(self.out)
        self.marks.append((kind, pos, w))
        self.out += b'\0' * w
        return pos

    def patch(self, pos, w=2):
        n = len(self.out) - pos - w
        self.out[pos:pos + w] = n.to_bytes(w, 'big')

    def cstr(self, s):
        self.marks.append(('cstr', len(self.out), 1))
        self.out.append(len(s)); self.out += s

    def addr_ecs(self, addr, src, scope):
        m = max(src, scope)
        n = (m + 7) // 8
        # RFC 7871: exactly ceil(source/8) octets; accepting more (zero padded) is what the library allows
        if self.rnd(self.lay.pad_addr):
            n = self.lay.rng.randint(n, len(addr))
        # never cut a non-zero octet
        while n < len(addr) and any(addr[n:]):
            n += 1
        return addr[:n]

    def addr_apl(self, addr):
        n = len(addr)
        while n > 0 and addr[n - 1] == 0:
            n -= 1
        if self.rnd(self.lay.pad_addr):
            n = self.lay.rng.randint(n, len(addr))
        return addr[:n]

    def option(self, o):
        k = o[0]
        if k == 'ecs':
            self.u(2, 8); p = self.lenfield('optlen')
            self.u(2, o[1]); self.u(1, o[2]); self.u(1, o[3]); self.out += self.addr_ecs(o[4], o[2], o[3])
            self.patch(p)
        elif k == 'cookie':
            self.u(2, 10); p = self.lenfield('optlen'); self.out += o[1]
            if o[2] is not None: self.out += o[2]
            self.patch(p)
        else:
            self.u(2, 12); p = self.lenfield('optlen'); self.out += b'\0' * o[1]; self.patch(p)

    def param(self, p):
        k = p[0]
        self.u(2, param_key(p)); pos = self.lenfield('paramlen')
        if k == 'mandatory':
            for x in sorted(p[1]): self.u(2, x)
        elif k == 'alpn':
            for s in p[1]: self.cstr(s)
        elif k == 'port': self.u(2, p[1])
        elif k in ('ipv4hint', 'ipv6hint'):
            for h in p[1]: self.out += h
        elif k == 'ech':
            self.marks.append(('echlen', len(self.out), 2)); self.u(2, len(p[1])); self.out += p[1]
        elif k == 'key': self.out += p[2]
        self.patch(pos)

    def rr(self, r):
        ty = r['ty']
        if ty == OPT:
            self.out.append(0); self.u(2, 41); self.u(2, r['payload'])
            self.u(4, (r['ext'] << 24) | (r['ver'] << 16) | (0x8000 if r['do'] else 0))
            p = self.lenfield('rdlen')
            for o in r['opts']: self.option(o)
            self.patch(p); return
        self.name(r['name'])
        self.u(2, ty); self.u(2, r['cls']); self.u(4, r['ttl'])
        p = self.lenfield('rdlen')
        if ty == APL:
            for it in r['items']:
                self.u(2, it['fam']); self.u(1, it['pfx'])
                a = self.addr_apl(it['addr'])
                self.marks.append(('afdlen', len(self.out), 1))
                self.out.append((0x80 if it['neg'] else 0) | len(a)); self.out += a
        elif ty in (SVCB, HTTPS):
            self.u(2, r['prio']); self.name(r['target'], compressible=self.lay.compress_all_names, ctx=ty)
            ps = sorted(r['params'], key=param_key)
            if self.lay.shuffle_params and self.lay.rng is not None:
                self.lay.rng.shuffle(ps)
            if r['prio'] != 0:
                for q in ps: self.param(q)
        else:
            for (fname, kind), v in zip(TABLE[ty][2], r['f']):
                k = kind[0]
                if k in 'ne': self.u(int(kind[1]), v)
                elif k == 'd': self.name(v, compressible=(kind[1] == 'c' or self.lay.compress_all_names), ctx=ty)
                elif k in 'hx': self.out += v
                elif k == 's': self.cstr(v)
                elif k == 'o':
                    if v is not None: self.cstr(v)
                elif k == 'L':
                    for s in v: self.cstr(s)
        self.patch(p)

    def question(self, q):
        self.name(q['name']); self.u(2, q['qtype']); self.u(2, q['qclass'])

    def flags(self, f):
        b1 = (f['qr'] << 7) | (f['opcode'] << 3) | (f['aa'] << 2) | (f['tc'] << 1) | f['rd']
        b2 = (f['ra'] << 7) | (f['ad'] << 5) | (f['cd'] << 4) | (f['rcode'] & 15)
        self.out += bytes([b1, b2])

    def msg(self, m):
        self.u(2, m['id']); self.flags(m['flags'])
        for k, sec in (('qd', 'qs'), ('an', 'an'), ('ns', 'ns'), ('ar', 'ar')):
            self.marks.append((k, len(self.out), 2)); self.u(2, len(m[sec]))
        for q in m['qs']: self.question(q)
        for sec in ('an', 'ns', 'ar'):
            for r in m[sec]: self.rr(r)
        return bytes(self.out)

def render(m, layout=None):
    r = Renderer(layout)
    b = r.msg(m)
    return b, r

# ---------------------------------------------------------------- abstraction used by the oracles

def _lower_hexname(s):
    if s == '.':
        return s
    return '.'.join(lower_label(bytes.fromhex(h)).hex() for h in s.split('.'))

def lower_text(line):
    """lower-case (ASCII) every domain name inside a canonical msg/rr/question text"""
    t = line.split(' ')
    i = 0
    while i < len(t):
        x = t[i]
        if x == 'Q' and i + 1 < len(t):
            t[i + 1] = _lower_hexname(t[i + 1]); i += 4; continue
        if x == 'RR' and i + 2 < len(t):
            t[i + 2] = _lower_hexname(t[i + 2]); i += 6; continue
        j = x.find('=d:')
        if j >= 0:
            t[i] = x[:j + 3] + _lower_hexname(x[j + 3:])
        i += 1
    return ' '.join(t)

def abs_msg_text(m):
    """canonical text of the abstract message: names lower-cased, `mandatory` as a sorted list"""
    import copy
    m = copy.deepcopy(m)
    for sec in ('an', 'ns', 'ar'):
        for r in m[sec]:
            if r['ty'] in (SVCB, HTTPS):
                r['params'] = [('mandatory', sorted(p[1])) if p[0] == 'mandatory' else p for p in r['params']]
    return lower_text(pmsg(m))
