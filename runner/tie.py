"""Secondary tie: which regenerated constants each property's theorems depend on. A changed or vanished
constant breaks the obligations of exactly the properties listed here (the Lean statements are
Props/Tie.lean; this table only ATTRIBUTES a broken Tie theorem to properties)."""
import re, os

EXPECTED = {
 'domain_name__DOMAIN_NAME_MAX_RECURSION': 16, 'domain_name__DOMAIN_NAME_MAX_LENGTH': 255, 'label__LABEL_MAX_LENGTH': 64,
 'lib__MAXIMUM_DNS_PACKET_SIZE': 65536, 'encode_domain_name__MAX_OFFSET': 16383, 'encode_domain_name__COMPRESSION_BITS': 49152,
 'decode_domain_name__COMPRESSION_BITS': 192, 'decode_domain_name__COMPRESSION_BITS_REV': 63,
 'rr_edns_rfc_7873__CLIENT_COOKIE_LENGTH': 8, 'rr_edns_rfc_7873__MINIMUM_SERVER_COOKIE_LENGTH': 8,
 'rr_edns_rfc_7873__MAXIMUM_SERVER_COOKIE_LENGTH': 32, 'decode_rr_edns_rfc_7873__MINIMUM_COOKIE_LENGTH': 16,
 'decode_rr_edns_rfc_7873__MAXIMUM_COOKIE_LENGTH': 40, 'rr_rfc_3123__APL_NEGATION_MASK': 128,
 'decode_rr_rfc_3123__ADDRESS_LENGTH_MASK': 127, 'rr_edns_rfc_6891__EDNS_DNSSEC_MASK': 128, 'rr_rfc_4034__ZONE_KEY_FLAG': 256,
 'rr_rfc_4034__SECURE_ENTRY_POINT_FLAG': 1, 'rr_rfc_4034__DNSKEY_ZERO_MASK': 65278, 'rr_subtypes__MASK': 255,
 'decFlagsLits': [128, 120, 3, 4, 2, 1, 128, 64, 32, 16, 15], 'encFlagsLits': [128, 3, 4, 2, 1, 128, 32, 16],
}
# constant -> (Tie theorem names, properties whose theorems rely on the model's hard-coded value)
DEPS = {
 'domain_name__DOMAIN_NAME_MAX_RECURSION': (['DOMAIN_NAME_MAX_RECURSION'], ['C02', 'C03', 'C04', 'C05', 'C06', 'C07']),
 'domain_name__DOMAIN_NAME_MAX_LENGTH': (['DOMAIN_NAME_MAX_LENGTH'], ['C03', 'C04', 'C07', 'C12', 'C13']),
 'label__LABEL_MAX_LENGTH': (['LABEL_MAX_LENGTH'], ['C03', 'C04', 'C12', 'C13']),
 'lib__MAXIMUM_DNS_PACKET_SIZE': (['MAXIMUM_DNS_PACKET_SIZE'], ['C01', 'C03', 'C04']),
 'encode_domain_name__MAX_OFFSET': (['encode_MAX_OFFSET'], ['C05', 'C06', 'C08']),
 'encode_domain_name__COMPRESSION_BITS': (['encode_COMPRESSION_BITS'], ['C05', 'C06', 'C08']),
 'decode_domain_name__COMPRESSION_BITS': (['decode_COMPRESSION_BITS'], ['C03', 'C04', 'C07']),
 'decode_domain_name__COMPRESSION_BITS_REV': (['decode_COMPRESSION_BITS_REV'], ['C03', 'C04', 'C07']),
 'rr_edns_rfc_7873__CLIENT_COOKIE_LENGTH': (['CLIENT_COOKIE_LENGTH', 'cookie_lengths_consistent'], ['C12', 'C15']),
 'rr_edns_rfc_7873__MINIMUM_SERVER_COOKIE_LENGTH': (['MINIMUM_SERVER_COOKIE_LENGTH', 'cookie_lengths_consistent'], ['C12', 'C15']),
 'rr_edns_rfc_7873__MAXIMUM_SERVER_COOKIE_LENGTH': (['MAXIMUM_SERVER_COOKIE_LENGTH', 'cookie_lengths_consistent'], ['C12', 'C15']),
 'decode_rr_edns_rfc_7873__MINIMUM_COOKIE_LENGTH': (['MINIMUM_COOKIE_LENGTH', 'cookie_lengths_consistent'], ['C15']),
 'decode_rr_edns_rfc_7873__MAXIMUM_COOKIE_LENGTH': (['MAXIMUM_COOKIE_LENGTH', 'cookie_lengths_consistent'], ['C15']),
 'rr_rfc_3123__APL_NEGATION_MASK': (['APL_NEGATION_MASK'], ['C17']),
 'decode_rr_rfc_3123__ADDRESS_LENGTH_MASK': (['ADDRESS_LENGTH_MASK'], ['C17']),
 'rr_edns_rfc_6891__EDNS_DNSSEC_MASK': (['EDNS_DNSSEC_MASK'], ['C15']),
 'rr_rfc_4034__ZONE_KEY_FLAG': (['ZONE_KEY_FLAG', 'DNSKEY_masks_consistent'], ['C03', 'C04']),
 'rr_rfc_4034__SECURE_ENTRY_POINT_FLAG': (['SECURE_ENTRY_POINT_FLAG', 'DNSKEY_masks_consistent'], ['C03', 'C04']),
 'rr_rfc_4034__DNSKEY_ZERO_MASK': (['DNSKEY_ZERO_MASK', 'DNSKEY_masks_consistent'], ['C03', 'C04']),
 'rr_subtypes__MASK': (['subtypes_MASK'], ['C12', 'C17']),
 'decFlagsLits': (['decFlagsLits'], ['C10', 'C11']),
 'encFlagsLits': (['encFlagsLits'], ['C10', 'C11']),
}

def read_generated(lean_dir):
    p = os.path.join(lean_dir, 'DnsVerif', 'Generated', 'Consts.lean')
    vals = {}
    for m in re.finditer(r'def (\w+) : Nat := (\d+)', open(p).read()):
        vals[m.group(1)] = int(m.group(2))
    for m in re.finditer(r'def (\w+) : List Nat := \[([^\]]*)\]', open(p).read()):
        vals[m.group(1)] = [int(x) for x in m.group(2).split(',') if x.strip()]
    return vals

def tie_theorems_for(prop):
    names = []
    for c, (ths, props) in DEPS.items():
        if prop in props:
            for t in ths:
                if t not in names: names.append(t)
    return names

def _still_defined(c):
    """is a `const <NAME>` item still present in the source file the generated name stands for (module = path parts of the
    file relative to src, without `.rs`, joined by `_`)?"""
    import os, pathlib
    mod, name = c.rsplit('__', 1)
    repo = os.environ.get('VERIF_REPO', '/repo')
    src = pathlib.Path(repo) / 'src'
    pat = re.compile(r'\b(?:const|static)\s+%s\b' % re.escape(name))
    for p in src.rglob('*.rs'):
        rel = p.relative_to(src).with_suffix('')
        if '_'.join(rel.parts) == mod:
            try:
                return bool(pat.search(p.read_text()))
            except OSError:
                return False
    return False

def broken_for(prop, lean_dir):
    """(changed, missing): human-readable ties that concern `prop`. A constant whose VALUE differs from what the model and
    the theorems assume is a broken obligation. A constant that no longer EXISTS in the source (a refactor inlined or
    renamed it) cannot be tied by regeneration any more: that is recorded, not an alarm - the behaviour it stood for is
    still tied by the correspondence run, whose boundary cases sit exactly on these values."""
    vals = read_generated(lean_dir)
    changed = []; missing = []
    for c, (ths, props) in DEPS.items():
        if prop not in props: continue
        if c not in vals:
            if _still_defined(c):
                changed.append('constant %s is still defined in /repo/src but its value can no longer be extracted (Tie.%s)' % (c, ths[0]))
            else:
                missing.append('constant %s no longer found in /repo/src (Tie.%s not checkable)' % (c, ths[0]))
        elif vals[c] != EXPECTED[c]:
            changed.append('constant %s is now %s, the model and the theorems assume %s (Tie.%s)' % (c, vals[c], EXPECTED[c], ths[0]))
    return changed, missing

def present_theorems(prop, lean_dir):
    vals = read_generated(lean_dir)
    names = []
    for c, (ths, props) in DEPS.items():
        if prop in props and c in vals and vals[c] == EXPECTED[c]:
            names += [t for t in ths if t not in names]
    return names

def any_missing(lean_dir):
    vals = read_generated(lean_dir)
    return [c for c in DEPS if c not in vals]


# ------------------------------------------------------------------------------------------------------------------
# Translator tie: Generated/Steps.lean (tools/extract_steps.py) against the model's record table (Props/TieSteps.lean)
# theorem -> properties whose theorems rely on the model's table row / framing order being what the code does
STEP_DEPS = {
 'dec_steps_agree': ['C02', 'C03', 'C04', 'C09', 'C10'],
 'enc_steps_agree': ['C02', 'C05', 'C08', 'C10', 'C18'],
 'dec_dispatch_agree': ['C03', 'C04'],
 'enc_dispatch_agree': ['C05', 'C10'],
 'frame_dec_dns': ['C03', 'C04', 'C09'],
 'frame_enc_dns': ['C05', 'C08'],
 'frame_question': ['C03', 'C05', 'C10'],
 'frame_rr': ['C03', 'C09'],
 'frame_opt': ['C09', 'C15'],
 'frame_opt_enc': ['C05', 'C15'],
 'frame_apl': ['C09', 'C17'],
 'frame_apl_enc': ['C05', 'C17'],
 'frame_svcb': ['C09', 'C16'],
 'frame_svcb_enc': ['C05', 'C16'],
 'svc_numbers_agree': ['C16'],
 'svc_dec_agree': ['C03', 'C04', 'C16'],
 'svc_enc_agree': ['C05', 'C16'],
 'opt_dispatch_agree': ['C15'],
 'ext_c18_no_compressing_writer': ['C18'],
 'ext_reader_writer_symmetric': ['C02', 'C10'],
 'ext_in_only_symmetric': ['C02', 'C03'],
}
# bodies the translator does not read (loops over sub-decoders); they stay tied by the correspondence run only
EXPECTED_UNREADABLE = {('dec', 'OPT'), ('dec', 'APL'), ('dec', 'SVCB'), ('dec', 'HTTPS'), ('enc', 'OPT')}

def step_theorems_for(prop):
    return [t for t, ps in STEP_DEPS.items() if prop in ps]

def steps_unreadable(lean_dir):
    p = os.path.join(lean_dir, 'DnsVerif', 'Generated', 'Steps.lean')
    try: src = open(p).read()
    except OSError: return None
    m = re.search(r'def stepsUnreadable[^\n]*\n(.*?)\]\nend Gen', src, re.S)
    return re.findall(r'\("([^"]*)", "([^"]*)", "([^"]*)"\)', m.group(1)) if m else None

def steps_counts(lean_dir):
    p = os.path.join(lean_dir, 'DnsVerif', 'Generated', 'Steps.lean')
    try: src = open(p).read()
    except OSError: return {}
    out = {}
    for name in ('decDispatch', 'encDispatch', 'decSteps', 'encSteps', 'frameSteps'):
        m = re.search(r'def %s [^\n]*\n(.*?)\]\n(?:/--|def|end)' % name, src, re.S)
        out[name] = len(re.findall(r'^  \(', m.group(1), re.M)) if m else 0
    return out

def steps_broken(prop, lean_dir, build_ok, build_out):
    """(broken obligations of `prop`, theorems of `prop` that check, notes).  `build_out` is lake's output for
    DnsVerif.Props.TieSteps; a failing `decide` is attributed to the theorem whose source span contains the error line."""
    mine = step_theorems_for(prop)
    notes = []
    unread = steps_unreadable(lean_dir)
    if unread is None:
        notes.append('Generated/Steps.lean missing or unreadable: the translator tie is not checkable')
        return [], [], notes
    for side, ty, why in unread:
        if (side, ty) not in EXPECTED_UNREADABLE:
            notes.append('translator cannot read the %s side of %s any more (%s): TieSteps says nothing about it' % (side, ty, why))
    if build_ok or not mine:
        return [], mine, notes
    src = open(os.path.join(lean_dir, 'DnsVerif', 'Props', 'TieSteps.lean')).read().split('\n')
    starts = [(i + 1, re.match(r'theorem\s+(\w+)', l).group(1)) for i, l in enumerate(src) if re.match(r'theorem\s+\w+', l)]
    failed = set(); unmapped = False
    for m in re.finditer(r'TieSteps\.lean:(\d+):\d+', build_out):
        ln = int(m.group(1)); name = None
        for st, n in starts:
            if st <= ln: name = n
        if name: failed.add(name)
        else: unmapped = True
    if not failed or unmapped or 'Generated/Steps.lean:' in build_out:
        failed = set(STEP_DEPS)          # the generated file itself does not elaborate: nothing is shown any more
    broken = ['TieSteps.%s no longer checks: the Rust %s differ from the model\'s table (see lean/DnsVerif/Generated/Steps.lean)' % (
        t, 'readers' if 'dec' in t else 'writers' if 'enc' in t else 'codec functions') for t in mine if t in failed]
    return broken, [t for t in mine if t not in failed], notes
