"""Per-property op streams, part A (C01..C09). Each function returns a list of Case."""
from streams import *
from refdec import Walker, LayoutError
from gen import _default_value

def sz(tier, q, t):
    return q if tier == 'quick' else t

def msg_cases(trip, tag, op='dec.dns'):
    m, b, r = trip
    return Case('%s %s' % (op, hx(b)), tag, exp=abs_msg_text(m))

_SWEEP = None
def sweep_rrs(types=None):
    global _SWEEP
    if _SWEEP is None: _SWEEP = boundary_sweep()
    return [r for r in _SWEEP if types is None or r['ty'] in types]

def sweep_msg(rr, with_q=True):
    """the record in a small message; a question with the record's owner (or target) so that compression has something to do"""
    qs = []
    if with_q and rr['ty'] != OPT:
        qs = [{'name': rr['name'], 'qtype': rr['ty'] if rr['ty'] < 65280 else 1, 'qclass': 1}]
    m = msg_with([], qs=qs)
    m['ar' if rr['ty'] == OPT else 'an'] = [rr]
    return m

def sweep_wire_cases(op, tag='sweep', types=None, exp=False, both_layouts=True):
    """dec.dns / rt.dns of every sweep record, rendered uncompressed and fully compressed"""
    cs = []
    for rr in sweep_rrs(types):
        m = sweep_msg(rr)
        for comp in ((0.0, 1.0) if both_layouts else (1.0,)):
            b, _ = render(m, Layout(random.Random(1), compress=comp, flipcase=0.0, pad_addr=0.0))
            cs.append(Case('%s %s' % (op, hx(b)), tag, exp=abs_msg_text(m) if exp else None))
    return cs

def sweep_rr_wire_cases(tag='sweep', types=None):
    cs = []
    for rr in sweep_rrs(types):
        r = Renderer(Layout(random.Random(1), compress=0.0, flipcase=0.0, pad_addr=0.0)); r.rr(rr)
        cs.append(Case('dec.rr %s' % hx(bytes(r.out)), tag))
    return cs

def sweep_enc_rr_cases(tag='sweep', types=None, struct=False, embed=False):
    cs = []
    for rr in sweep_rrs(types):
        cs.append(Case('enc.rr %s' % prr(rr), tag, exp=('RR', lower_text(prr(rr)))))
        if struct: cs.append(Case('enc.struct %s' % prr(rr), tag))
        if embed: cs.append(Case('enc.dns %s' % pmsg(msg_with([rr])), tag, exp=('EMBED', prr(rr))))
    return cs

def sweep_enc_dns_cases(tag='sweep', types=None):
    cs = []
    for rr in sweep_rrs(types):
        m = sweep_msg(rr)
        cs.append(Case('enc.dns %s' % pmsg(m), tag, exp=abs_msg_text(m)))
    return cs

def single_rr_cases(rng, n, types=None):
    """stand-alone records (dec.rr) in uncompressed layout"""
    cs = []
    for _ in range(n):
        rr = rand_rr(rng, rng.choice(types) if types else None, [])
        r = Renderer(Layout(rng, flipcase=0.0, pad_addr=0.3)); r.rr(rr)
        cs.append(Case('dec.rr %s' % hx(bytes(r.out)), 'rr%d' % rr['ty']))
    return cs

def malformed(rng, trips, per_len=12, per_trunc=12, flips=4):
    cs = []
    for m, b, r in trips:
        for bb, tag in length_mutants(b, r, rng, per_len) + truncations(b, rng, per_trunc) + suffixes(b, rng) + byteflips(b, rng, flips):
            cs.append(Case('dec.dns %s' % hx(bb), tag))
    return cs

def boundary_msgs(rng):
    """hand-built boundary layouts: 63-octet labels, 255-octet names, pointer targets near 0x3FFF,
    16/17/18-hop chains, empty variable fields, /0 prefixes, 8/16/40/41-octet cookies"""
    ms = []
    # names at the size limits
    for total in (253, 254, 255):
        n = long_name(total)
        ms.append(msg_with([{'ty': 2, 'name': n, 'ttl': 1, 'cls': 1, 'f': [n]}], qs=[{'name': n, 'qtype': 1, 'qclass': 1}]))
    # empty variable fields
    ms.append(msg_with([{'ty': 10, 'name': (b'a',), 'ttl': 0, 'cls': 1, 'f': [b'']},
                        {'ty': 11, 'name': (b'a',), 'ttl': 0, 'cls': 1, 'f': [b'\x01\x02\x03\x04', 6, b'']},
                        {'ty': 257, 'name': (b'a',), 'ttl': 0, 'cls': 1, 'f': [0, b'issue', b'']},
                        {'ty': 256, 'name': (b'a',), 'ttl': 0, 'cls': 1, 'f': [1, 2, b'']},
                        {'ty': 44, 'name': (b'a',), 'ttl': 0, 'cls': 1, 'f': [1, 1, b'']},
                        {'ty': 42, 'name': (b'a',), 'ttl': 0, 'cls': 1, 'items': [{'fam': 1, 'pfx': 0, 'neg': 0, 'addr': b'\0' * 4}, {'fam': 2, 'pfx': 0, 'neg': 1, 'addr': b'\0' * 16}]},
                        {'ty': 64, 'name': (b'a',), 'ttl': 0, 'cls': 1, 'prio': 1, 'target': (), 'params': [('mandatory', []), ('alpn', []), ('ipv4hint', []), ('ech', b''), ('ipv6hint', []), ('key', 7, b'')]},
                        {'ty': 41, 'payload': 512, 'ext': 0, 'ver': 0, 'do': 0, 'opts': [('pad', 0), ('ecs', 1, 0, 0, b'\0' * 4), ('ecs', 2, 0, 0, b'\0' * 16)]}]))
    for sl in (None, 8, 32):
        ms.append(msg_with([{'ty': 41, 'payload': 1232, 'ext': 0, 'ver': 0, 'do': 1, 'opts': [('cookie', b'12345678', None if sl is None else b'x' * sl)]}]))
    return ms

def hop_chain_msg(hops):
    """a message whose last question's name needs exactly `hops` pointer hops (hops >= 0)"""
    hdr = b'\x00\x01\x01\x00' + (hops + 1).to_bytes(2, 'big') + b'\0' * 6
    b = bytearray(hdr)
    prev = len(b)
    b += b'\x03abc\x00' + b'\x00\x01\x00\x01'
    for i in range(hops):
        cur = len(b)
        b += b'\x01' + bytes([97 + i % 26]) + ptr(prev) + b'\x00\x01\x00\x01'
        prev = cur
    return bytes(b)

def pure_pointer_chain_msg(hops):
    """question i is just a pointer to question i-1's name: the last name needs `hops` hops"""
    hdr = b'\x00\x01\x01\x00' + (hops + 1).to_bytes(2, 'big') + b'\0' * 6
    b = bytearray(hdr)
    prev = len(b)
    b += b'\x03abc\x00' + b'\x00\x01\x00\x01'
    for i in range(hops):
        cur = len(b)
        b += ptr(prev) + b'\x00\x01\x00\x01'
        prev = cur
    return bytes(b)

def high_offset_msg(rng, target_off):
    """a name placed exactly at `target_off` (after a NULL padding record), then a pointer to it"""
    n = (b'hi', b'example')
    pad_owner = (b'p',)
    # header(12) + owner(3) + fixed(10) + data(k) = target_off
    k = target_off - 12 - 3 - 10
    if k < 0 or k > 65535: return None
    m = msg_with([{'ty': 10, 'name': pad_owner, 'ttl': 0, 'cls': 1, 'f': [b'\0' * k]},
                  {'ty': 2, 'name': n, 'ttl': 0, 'cls': 1, 'f': [(b'ns',) + n]},
                  {'ty': 5, 'name': (b'x',) + n, 'ttl': 0, 'cls': 1, 'f': [n]},
                  # names that share ONLY a deeper suffix of the straddling name (its later labels may lie
                  # beyond offset 0x3FFF although the name itself starts below)
                  {'ty': 1, 'name': (b'other',) + n[1:], 'ttl': 0, 'cls': 1, 'f': [b'\1\2\3\4']},
                  {'ty': 15, 'name': (b'zzz',) + n[1:], 'ttl': 0, 'cls': 1, 'f': [10, (b'mx', b'ns') + n]}])
    return m

def straddle_msg(target_off, labels=(b'aaaa', b'bbbb', b'cc', b'example'), newtype=False, later_newtype=False):
    """a multi-label name that starts at `target_off` (so that its later labels sit at and beyond 0x4000 when the
    offset is just below), followed by names that share each of its proper suffixes only"""
    n = tuple(labels)
    k = target_off - 12 - 3 - 10
    if k < 0 or k > 65000: return None
    rrs = [{'ty': 10, 'name': (b'p',), 'ttl': 0, 'cls': 1, 'f': [b'\0' * k]},
           {'ty': 1, 'name': n, 'ttl': 0, 'cls': 1, 'f': [b'\1\2\3\4']}]
    if newtype:
        # the straddling name sits inside the RDATA of a post-RFC-1035 type (written literally)
        rrs[1] = {'ty': 33, 'name': (b's',), 'ttl': 0, 'cls': 1, 'f': [1, 2, 3, n]}
        rrs[0]['f'] = [b'\0' * max(0, k - 8)]
    for i in range(1, len(n)):
        rrs.append({'ty': 1, 'name': (b'w%d' % i,) + n[i:], 'ttl': 0, 'cls': 1, 'f': [b'\1\2\3\4']})
        rrs.append({'ty': 2, 'name': (b'v%d' % i,) + n[i:], 'ttl': 0, 'cls': 1, 'f': [(b'u%d' % i,) + n[i:]]})
        if newtype:
            rrs.append({'ty': 36, 'name': (b'k%d' % i,) + n[i:], 'ttl': 0, 'cls': 1, 'f': [5, (b'kx',) + n[i:]]})
    if later_newtype:
        # the straddling name is a registered one (owner); LATER records of the post-RFC-1035 types share its suffixes
        for i in range(0, len(n)):
            rrs.append({'ty': 33, 'name': (b'o',), 'ttl': 0, 'cls': 1, 'f': [1, 2, 3, (b'srv',) + n[i:]]})
            rrs.append({'ty': 36, 'name': (b'o',), 'ttl': 0, 'cls': 1, 'f': [5, (b'kx',) + n[i:]]})
            rrs.append({'ty': 39, 'name': (b'o',), 'ttl': 0, 'cls': 1, 'f': [n[i:]]})
    return msg_with(rrs)

def nested_long_names(step=15, limit=255):
    """progressively nested names growing to the 255-octet limit: with full compression the last ones are one
    label plus a pointer chain of many hops whose EXPANDED length is at the limit"""
    names = []; n = ()
    i = 0
    while True:
        lab = bytes([97 + i % 26]) * step
        cand = (lab,) + n
        if name_wire_len(cand) > limit:
            rem = limit - name_wire_len(n) - 1
            if rem >= 1:
                cand = (b'q' * rem,) + n
                names.append(cand)
            break
        n = cand; names.append(n); i += 1
    return names

def split_long_name_msg(prefix_len, suffix_total):
    """question 1: a literal name of `suffix_total` wire octets; question 2: one label of prefix_len octets then a
    pointer to question 1's name: expands to prefix_len + 1 + suffix_total octets"""
    n = long_name(suffix_total)
    b = bytearray(b'\0\1\1\0\0\2' + b'\0' * 6)
    for l in n: b.append(len(l)); b += l
    b += b'\0\0\1\0\1'
    b.append(prefix_len); b += b'p' * prefix_len; b += b'\xc0\x0c' + b'\0\1\0\1'
    return bytes(b)

# ---------------------------------------------------------------- C01

def C01(tier, rng):
    cs = []
    cs += exhaustive_short(2)
    for b in corpus_vectors():
        cs += dec_all_entries(b, 'corpus')
    trips = layouts(rng, sz(tier, 1500, 20000))
    cs += [msg_cases(t, 'valid') for t in trips]
    cs += malformed(rng, trips[:sz(tier, 800, 8000)])
    rrs = single_rr_cases(rng, sz(tier, 3000, 30000))
    cs += rrs
    # near-miss streams aimed at the guards of the panic sites
    for c in rrs[:sz(tier, 1500, 10000)]:
        b = bytes.fromhex(c.op.split(' ')[1])
        for bb, tag in byteflips(b, rng, 3) + truncations(b, rng, 4):
            cs.append(Case('dec.rr %s' % hx(bb), 'rr-' + tag))
    cs += addr_guard_cases()
    for n in (65535, 65536, 65537):
        cs.append(Case('dec.dns %s' % hx(b'\0' * n), 'big'))
        cs.append(Case('dec.name %s' % hx(b'\x01a' * (n // 2) + b'\0' * (n % 2)), 'big'))
    for b in pointer_graphs(sz(tier, 3, 4)):
        cs.append(Case('dec.name %s' % hx(b), 'graph'))
    cs += growth_straddle_cases('dec.dns', tier)
    cs += sweep_wire_cases('dec.dns', both_layouts=False) + sweep_rr_wire_cases()
    cs += header_count_cases() + label_length_octet_cases() + reserved_label_type_cases() + unicode_validator_cases() + validator_boundary_wire_cases() + big_wks_cases()
    if tier != 'thorough':
        return cs
    return c01_thorough_chunks(cs)

def growth_straddle_wire(start, labels=4, lablen=50, ty=2):
    """A decodable message (<= 65536 octets) whose re-encoding is longer than itself: the owner (and RDATA name) of the
    last record is a pointer to the literal target of an SRV record, which an encoder does not remember. `start` is
    the offset at which the re-encoded owner name begins; with start near 65535 the name straddles the 64 KiB mark."""
    tgt = b''.join(bytes([lablen]) + bytes([0x61 + i]) * lablen for i in range(labels)) + b'\0'
    hdr = b'\0\1\x84\0\0\0\0\3\0\0\0\0'
    srv = b'\0' + b'\0\x21\0\1\0\0\0\0' + (6 + len(tgt)).to_bytes(2, 'big') + b'\0\1\0\2\0\3' + tgt
    tgt_off = 12 + 11 + 6
    fill = start - (12 + len(srv) + 11)
    if fill < 0 or fill > 65535: return None
    null = b'\0' + b'\0\x0a\0\1\0\0\0\0' + fill.to_bytes(2, 'big') + b'\0' * fill
    ptr = (0xC000 | tgt_off).to_bytes(2, 'big')
    rd = ptr if ty == 2 else b'\0\5' + ptr
    last = ptr + ty.to_bytes(2, 'big') + b'\0\1\0\0\0\0' + len(rd).to_bytes(2, 'big') + rd
    w = hdr + srv + null + last
    return w if len(w) <= 65536 else None

def growth_straddle_cases(op, tier):
    cs = []
    for labels, lablen in ((4, 50), (2, 63), (20, 10), (100, 1)):
        tl = labels * (lablen + 1) + 1
        for start in list(range(65535 - tl - 2, 65536 - 14, sz(tier, 7, 1))) + [65535 - tl, 65536 - tl, 65534 - tl]:
            for ty in (2, 15):
                w = growth_straddle_wire(start, labels, lablen, ty)
                if w: cs.append(Case('%s %s' % (op, hx(w)), 'growth-straddle'))
    return cs

def c01_thorough_chunks(first):
    """thorough tier: after the base stream, ALL three-octet strings for all nine entry points, in chunks"""
    yield first
    for a in range(256):
        chunk = []
        for b in range(256):
            for c in range(256):
                h = '%02x%02x%02x' % (a, b, c)
                for e in ENTRIES:
                    chunk.append(Case('dec.%s %s' % (e, h), 'exh3'))
        yield chunk

def opt_rr(options_wire, ttl=0, cls=512, owner=b'\x00'):
    rd = b''.join(options_wire)
    return owner + b'\x00\x29' + cls.to_bytes(2, 'big') + ttl.to_bytes(4, 'big') + len(rd).to_bytes(2, 'big') + rd

def opt_option(code, body, lendelta=0):
    return code.to_bytes(2, 'big') + ((len(body) + lendelta) % 65536).to_bytes(2, 'big') + body

def apl_rr(items_wire, cls=1):
    rd = b''.join(items_wire)
    return b'\x01a\x00' + b'\x00\x2a' + cls.to_bytes(2, 'big') + b'\0\0\0\x05' + len(rd).to_bytes(2, 'big') + rd

def neighbour_cases(fam, size, tier, rng):
    """APL records with several items and OPT records with several options: a value must not depend on its neighbours"""
    cs = []
    # several items in one record: what an item decodes to must not depend on its neighbours (shorter after longer,
    # other family after this one, negated after plain), in both orders
    forms = []
    for a, pfx in ((bytes([10, 1, 2, 3] * (size // 4)), 8 * size), (bytes([0xac, 0x10] + [0] * (size - 2)), 12), (bytes([0xc0] + [0] * (size - 1)), 8 * size),
                   (bytes(size), 0), (bytes([0xff] * size), 8 * size), (bytes([0] * (size - 1) + [1]), 8 * size), (bytes([0x80] + [0] * (size - 1)), 1)):
        v = a.rstrip(b'\0')
        for alen in sorted(set([len(v), size, min(len(v) + 1, size)])):
            for neg in (0, 0x80):
                forms.append(fam.to_bytes(2, 'big') + bytes([pfx, neg | alen]) + a[:alen])
    other = (2 if fam == 1 else 1)
    forms.append(other.to_bytes(2, 'big') + bytes([0, 0]))
    forms.append(other.to_bytes(2, 'big') + bytes([8, 1, 0x7f]))
    for x in forms:
        for y in forms:
            cs.append(Case('dec.rr %s' % hx(apl_rr([x, y])), 'apl-pair'))
    for _ in range(sz(tier, 300, 3000)):
        cs.append(Case('dec.rr %s' % hx(apl_rr([rng.choice(forms) for _ in range(rng.randint(3, 6))])), 'apl-multi'))
    # two client-subnet options / cookie between them in one OPT record
    eforms = [fam.to_bytes(2, 'big') + bytes([p, sc]) + a for p, sc, a in ((8 * size, 0, bytes([10, 1, 2, 3] * (size // 4))), (12, 0, bytes([0xac, 0x10])), (0, 0, b''), (8, 8, b'\x7f'))]
    for x in eforms:
        for y in eforms:
            cs.append(Case('dec.rr %s' % hx(opt_rr([opt_option(8, x), opt_option(8, y)])), 'ecs-pair'))
            cs.append(Case('dec.rr %s' % hx(opt_rr([opt_option(8, x), opt_option(10, b'\1' * 8), opt_option(8, y)])), 'ecs-pair'))
    return cs

def svcb_every_len_cases():
    keys = [0, 1, 2, 3, 4, 5, 6, 7, 65534, 65535]
    cs = []
    # every value length 0..=40 for every kind, alone and followed by another parameter (window and RDLENGTH consistent:
    # only the kind's own format can refuse the value)
    for k in keys:
        for n in range(0, 41):
            body = bytes((7 * i + 1) % 251 for i in range(n))
            alpn = (bytes([n - 1]) + body[:n - 1]) if n else b''
            for bd in ((body, alpn) if k == 1 else (body,)):
                cs.append(Case('dec.rr %s' % hx(svcb_rr(64, 1, b'\0', [pw(k, bd)])), 'every-len'))
                if k < 65534:
                    cs.append(Case('dec.rr %s' % hx(svcb_rr(65, 1, b'\0', [pw(k, bd), pw(65534, b'z')])), 'every-len'))
    return cs

def header_count_cases():
    """section counts whose SUM passes 65,535 although each is a legal 16-bit value; on a bare header and on a small valid message"""
    cs = []
    combos = [(0xffff, 1, 0), (1, 0xffff, 0), (0, 1, 0xffff), (0x8000, 0x8000, 0), (0x8000, 0x7fff, 1), (0xffff, 0xffff, 0xffff), (0xffff, 0, 0),
              (0x5555, 0x5555, 0x5556), (0, 0xffff, 0xffff), (0xfffe, 1, 1), (0x7fff, 0x7fff, 2)]
    valid = bytes.fromhex('000181800001000100000000076578616d706c65036f72670000010001c00c000100010000003c00040a000001')
    for an, ns, ar in combos:
        for qd in (0, 1, 0xffff):
            h = b'\0\1\x81\x80' + qd.to_bytes(2, 'big') + an.to_bytes(2, 'big') + ns.to_bytes(2, 'big') + ar.to_bytes(2, 'big')
            cs.append(Case('dec.dns %s' % hx(h), 'count-sum'))
            cs.append(Case('dec.dns %s' % hx(h + valid[12:]), 'count-sum'))
    return cs

def label_length_octet_cases():
    """names whose length octet is 63, 64, 65, 100, 127, 128, 191 followed by that many valid octets (plus a pointer variant)"""
    cs = []
    for n in (62, 63, 64, 65, 100, 127, 128, 191):
        w = bytes([n]) + b'a' * n + b'\0'
        cs.append(Case('dec.name %s' % hx(w), 'label-octet'))
        cs.append(Case('dec.dns %s' % hx(b'\0\0\0\0\0\1' + b'\0' * 6 + w + b'\0\1\0\1'), 'label-octet'))
        w2 = b'\1x\0' + bytes([n]) + b'b' * n + b'\xc0\x00'
        cs.append(Case('dec.question %s' % hx(w2[3:] + b'\0\1\0\1'), 'label-octet'))
    # the same length octets over MULTI-OCTET UTF-8 content: a label of 64..191 octets has fewer than 64 characters, so a
    # limit counted in characters (or in anything but octets) lets the reserved label types 01/10 through
    for ch in (b'\xc3\xa9', b'\xe2\x82\xac', b'\xf0\x90\x80\x80'):
        for n in (62, 63, 64, 65, 66, 100, 126, 128, 129, 189, 191):
            body = ch * (n // len(ch)); body += b'a' * (n - len(body))
            w = bytes([n]) + body + b'\0'
            cs.append(Case('dec.name %s' % hx(w), 'label-octet-utf8'))
            cs.append(Case('dec.dns %s' % hx(b'\0\0\0\0\0\1' + b'\0' * 6 + w + b'\0\1\0\1'), 'label-octet-utf8'))
            cs.append(Case('dec.rr %s' % hx(b'\1x\0\0\2\0\1\0\0\0\0' + (len(w)).to_bytes(2, 'big') + w), 'label-octet-utf8'))
        # names of 254..257 wire octets made of multi-octet labels (the 255 limit counts octets as well)
        for total in (254, 255, 256, 257, 300):
            labs = []; rem = total - 1
            while rem > 0:
                l = min(63, rem - 1)
                if rem - 1 - l == 1: l -= 1
                body = ch * (l // len(ch)); body += b'a' * (l - len(body))
                labs.append(body); rem -= l + 1
            w = b''.join(bytes([len(l)]) + l for l in labs) + b'\0'
            cs.append(Case('dec.name %s' % hx(w), 'name-limit-utf8'))
            cs.append(Case('dec.dns %s' % hx(b'\0\0\0\0\0\1' + b'\0' * 6 + w + b'\0\1\0\1'), 'name-limit-utf8'))
    return cs

def unicode_validator_cases():
    """CAA tags, X25/ISDN addresses and ISDN subaddresses whose characters are alphanumeric / digits / hex digits in UNICODE but
    not in ASCII (a validator written with `is_alphanumeric` / `is_numeric` / `is_digit(16)` on `char` instead of the
    `is_ascii_*` tests accepts them), on the wire as stand-alone records and inside a message"""
    cs = []
    odd = [b'\xc3\xa9', b'\xd9\xa3', b'\xc2\xb2', b'\xef\xbc\xa1', b'\xef\xbc\x91', b'\xe0\xa5\xa7', b'\xce\xb1', b'\xe2\x85\xa7', b'\xf0\x9d\x9f\x97']
    def rr(ty, rd): return b'\1x\0' + ty.to_bytes(2, 'big') + b'\0\1\0\0\0\x3c' + len(rd).to_bytes(2, 'big') + rd
    cstr = lambda s: bytes([len(s)]) + s
    for o in odd:
        for s in (o, b'a' + o, o + b'1', b'issue' + o, o * 3):
            wires = [rr(257, b'\0' + cstr(s) + b'v'), rr(19, cstr(s)), rr(19, cstr(b'123' + s)), rr(20, cstr(s)), rr(20, cstr(b'12') + cstr(s)),
                     rr(20, cstr(b'12') + cstr(b'aF' + s))]
            for w in wires:
                cs.append(Case('dec.rr %s' % hx(w), 'unicode-validator'))
                cs.append(Case('dec.dns %s' % hx(b'\0\1\x81\x80\0\0\0\1\0\0\0\0' + w), 'unicode-validator'))
    return cs

def validator_boundary_wire_cases():
    """records whose validated strings are EMPTY / minimal / maximal in each position separately (a guard that tests the
    wrong variable, or only the first string, shows on exactly one of these), stand-alone and in a message"""
    cs = []
    cstr = lambda s_: bytes([len(s_)]) + s_
    def rr(ty, rd): return b'\1x\0' + ty.to_bytes(2, 'big') + b'\0\1\0\0\0\x3c' + len(rd).to_bytes(2, 'big') + rd
    vals = (b'', b'1', b'9' * 255)
    wires = []
    for a in vals:
        for b_ in vals:
            for c in vals:
                wires.append(rr(27, cstr(a) + cstr(b_) + cstr(c)))                      # GPOS longitude latitude altitude
    for a in vals:
        wires.append(rr(19, cstr(a)))                                                   # X25
        for b_ in (None,) + vals:
            wires.append(rr(20, cstr(a) + (b'' if b_ is None else cstr(b_))))          # ISDN address [sa]
        wires.append(rr(257, b'\0' + cstr(a if a != b'9' * 255 else b'a' * 255) + b'v'))  # CAA tag
        wires.append(rr(13, cstr(a) + cstr(b'')))                                       # HINFO
        wires.append(rr(13, cstr(b'') + cstr(a)))
    for w in wires:
        cs.append(Case('dec.rr %s' % hx(w), 'validator-boundary'))
        cs.append(Case('dec.dns %s' % hx(b'\0\1\x81\x80\0\0\0\1\0\0\0\0' + w), 'validator-boundary'))
    return cs

def big_wks_cases():
    """WKS records whose bit map covers the whole port range and more (8191, 8192, 8193, 65000 octets): whatever walks the
    bit map (Display lists the ports) must not count in sixteen bits"""
    cs = []
    for n in (8191, 8192, 8193, 20000, 65000):
        for fill in (b'\xff', b'\x80', b'\0'):
            rd = b'\x0a\0\0\1\x06' + fill * n
            w = b'\1x\0\0\x0b\0\1\0\0\0\x3c' + len(rd).to_bytes(2, 'big') + rd
            cs.append(Case('dec.rr %s' % hx(w), 'wks-big'))
            cs.append(Case('dec.dns %s' % hx(b'\0\1\x81\x80\0\0\0\1\0\0\0\0' + w), 'wks-big'))
    return cs

def overlong_utf8_label_values():
    """VALUES whose names contain a label of more than 63 OCTETS but at most 63 characters (multi-octet UTF-8), and names over
    255 octets made of such labels: the constructors must refuse them (both sides answer `unconstructible`); a constructor
    that counts characters lets the encoder write a reserved or pointer-looking length octet"""
    cs = []
    labs = [b'\xc3\xa9' * 32, b'\xc3\xa9' * 63, b'\xe2\x82\xac' * 22, b'\xf0\x9f\x98\x80' * 16, b'\xf0\x9f\x98\x80' * 48, b'\xf0\x9f\x98\x80' * 63, b'a' + b'\xc3\xa9' * 32]
    long_ok = (b'\xc3\xa9' * 31, b'\xc3\xa9' * 31, b'\xc3\xa9' * 31, b'\xc3\xa9' * 31, b'ab')     # 4*63+3+1 = 256 octets, 126 characters
    for l in labs + [None]:
        n = long_ok if l is None else (l, b'example', b'org')
        cs.append(Case('enc.name %s' % pname(n), 'utf8-overlong-value'))
        cs.append(Case('enc.question %s' % pquestion({'name': n, 'qtype': 1, 'qclass': 1}), 'utf8-overlong-value'))
        for rr in ({'ty': 2, 'name': (b'o',), 'ttl': 0, 'cls': 1, 'f': [n]}, {'ty': 1, 'name': n, 'ttl': 0, 'cls': 1, 'f': [b'\1\2\3\4']},
                   {'ty': 33, 'name': (b'o',), 'ttl': 0, 'cls': 1, 'f': [1, 2, 3, n]}, {'ty': 39, 'name': (b'o',), 'ttl': 0, 'cls': 1, 'f': [n]},
                   {'ty': 36, 'name': (b'o',), 'ttl': 0, 'cls': 1, 'f': [5, n]}):
            cs.append(Case('enc.rr %s' % prr(rr), 'utf8-overlong-value'))
            cs.append(Case('enc.dns %s' % pmsg(msg_with([rr], qs=[{'name': (b'example', b'org'), 'qtype': 1, 'qclass': 1}])), 'utf8-overlong-value'))
    return cs

def reserved_label_type_cases():
    """valid compressed messages in which the first octet of a compression pointer is rewritten with the RESERVED label types
    (top bits 01 and 10): such an octet is neither a length nor a pointer and must be refused, wherever the pointer was"""
    cs = []
    seen = 0
    for rr in sweep_rrs():
        if rr['ty'] not in (2, 6, 15, 33, 12, 5) or seen >= 60: continue
        m = sweep_msg(rr)
        b, _ = render(m, Layout(random.Random(1), compress=1.0, flipcase=0.0, pad_addr=0.0))
        w = Walker(b)
        try: w.msg()
        except LayoutError: continue
        pos = sorted({p for (_s, _c, ptrs, _h, _t) in w.names for (p, _t2) in ptrs})
        if not pos: continue
        seen += 1
        for p_ in pos:
            for top in (0x40, 0x80):
                bb = bytearray(b); bb[p_] = (bb[p_] & 0x3F) | top
                cs.append(Case('dec.dns %s' % hx(bytes(bb)), 'reserved-label-type'))
    for top in (0x40, 0x80, 0x7f, 0xbf):
        cs.append(Case('dec.name %s' % hx(b'\3abc\0' + bytes([top, 0])), 'reserved-label-type'))
        cs.append(Case('dec.question %s' % hx(bytes([top, 6]) + b'\0\1\0\1' + b'\3abc\0'), 'reserved-label-type'))
        cs.append(Case('dec.rr %s' % hx(b'\3abc\0\0\2\0\1\0\0\0\0\0\2' + bytes([top, 0])), 'reserved-label-type'))
    return cs

def dnskey_flag_cases(tier):
    """DNSKEY flags: every value with at most three bits set (all 65,536 in the thorough tier)"""
    vals = range(65536) if tier == 'thorough' else sorted({sum(1 << i for i in c) for k in range(0, 4) for c in itertools.combinations(range(16), k)} | {0xffff, 0xfefe, 0x0101 ^ 0xffff})
    return [Case('dec.rr %s' % hx(raw_rr(48, 1, v.to_bytes(2, 'big') + b'\3\x08key')), 'dnskey-flags') for v in vals]

def long_rdata_name_cases():
    """every record type with a name inside its RDATA, that name written in full with 255 (legal), 256, 257 and 321 octets (all
    labels legal): the 255-octet limit holds for RDATA names of every type, not only for the shared name reader"""
    cs = []
    for ty in sorted(TABLE):
        flds = TABLE[ty][2]
        if not any(k[0] == 'd' for _, k in flds): continue
        for total in (255, 256, 257, 321):
            n = long_name(total) if total <= 257 else tuple([b'l' * 63] * 5)
            base = [_default_value(kind) for _, kind in flds]
            for i, (_, kind) in enumerate(flds):
                if kind[0] != 'd': continue
                vals = list(base); vals[i] = n
                rr = {'ty': ty, 'name': (b'o',), 'ttl': 1, 'cls': 1, 'f': vals}
                r = Renderer(Layout(random.Random(1), compress=0.0, flipcase=0.0, pad_addr=0.0)); r.rr(rr)
                cs.append(Case('dec.rr %s' % hx(bytes(r.out)), 'long-rdata-name'))
                m = msg_with([rr])
                b, _ = render(m, Layout(random.Random(1), compress=0.0, flipcase=0.0, pad_addr=0.0))
                cs.append(Case('dec.dns %s' % hx(b), 'long-rdata-name'))
    for ty in (SVCB, HTTPS):
        for total in (255, 256, 321):
            n = long_name(total) if total <= 257 else tuple([b'l' * 63] * 5)
            rr = {'ty': ty, 'name': (b'o',), 'ttl': 1, 'cls': 1, 'prio': 1, 'target': n, 'params': []}
            r = Renderer(Layout(random.Random(1), compress=0.0)); r.rr(rr)
            cs.append(Case('dec.rr %s' % hx(bytes(r.out)), 'long-rdata-name'))
    return cs

def odd_label_wire_cases():
    cs = []
    for lab in (b' lead', b'trail ', b' ', b'\t', b' both ', b'Lobby printer ', b'\xc2\xa0x', b'a\x00', b'\x7f'):
        w = bytes([len(lab)]) + lab + b'\7example\0'
        cs.append(Case('dec.name %s' % hx(w), 'odd-label'))
        cs.append(Case('dec.dns %s' % hx(b'\0\0\1\0\0\1' + b'\0' * 6 + w + b'\0\1\0\1'), 'odd-label'))
        cs.append(Case('dec.dns %s' % hx(b'\0\0\x81\x80\0\1\0\1\0\0\0\0' + w + b'\0\x0c\0\1' + b'\xc0\x0c\0\x0c\0\1\0\0\0\1' + (len(w) + 0).to_bytes(2, 'big') + w), 'odd-label'))
    return cs

def addr_guard_cases():
    """address length 0..=family+2, prefix around the family size, cookie lengths 0..=64"""
    cs = []
    for fam, size in ((1, 4), (2, 16), (3, 4), (0, 4)):
        for alen in range(0, size + 3):
            for pfx in (0, 1, 7, 8, 9, size * 8 - 1, size * 8, size * 8 + 1, 255):
                for fill in (0x00, 0xFF, 0x80):
                    a = bytes([fill]) * alen
                    body = fam.to_bytes(2, 'big') + bytes([pfx, 0]) + a
                    cs.append(Case('dec.rr %s' % hx(opt_rr([opt_option(8, body)])), 'ecs-guard'))
                    for neg in (0, 0x80):
                        item = fam.to_bytes(2, 'big') + bytes([pfx, neg | alen]) + a
                        cs.append(Case('dec.rr %s' % hx(apl_rr([item])), 'apl-guard'))
    for clen in range(0, 65):
        cs.append(Case('dec.rr %s' % hx(opt_rr([opt_option(10, bytes(range(clen)))])), 'cookie-guard'))
    for l in (0x3F, 0x40, 0x7F, 0x80, 0xBF, 0xC0, 0xFF):
        for tail in (b'', b'\x00', b'a' * 70 + b'\x00'):
            cs.append(Case('dec.name %s' % hx(bytes([l]) + tail), 'label-guard'))
    return cs

# ---------------------------------------------------------------- C02

def C02(tier, rng):
    cs = []
    cs += sweep_wire_cases('rt.dns')
    # decodable messages whose re-encoding is exactly at the 65,535-octet limit (and one, two octets below; 65,536 decodes
    # but is outside the property's guard)
    for total in (65533, 65534, 65535, 65536):
        for owner in ((), (b'p',)):
            k = total - 12 - (sum(len(l) + 1 for l in owner) + 1) - 10
            b, _ = render(msg_with([{'ty': 10, 'name': owner, 'ttl': 0, 'cls': 1, 'f': [bytes(i % 251 for i in range(k))]}]))
            assert len(b) == total
            cs.append(Case('rt.dns %s' % hx(b), 'limit%d' % total))
        k2 = total - 12 - 17 - 11 - 2 * 11
        if k2 > 0:
            q = {'name': (b'example', b'org'), 'qtype': 1, 'qclass': 1}
            half = k2 // 2
            m = msg_with([{'ty': 10, 'name': (), 'ttl': 0, 'cls': 1, 'f': [bytes(half)]}, {'ty': 10, 'name': (), 'ttl': 0, 'cls': 1, 'f': [bytes(k2 - half)]},
                          {'ty': 10, 'name': (), 'ttl': 0, 'cls': 1, 'f': [b'']}], qs=[q])
            b, _ = render(m)
            cs.append(Case('rt.dns %s' % hx(b), 'limit-multi%d' % len(b)))
    trips = layouts(rng, sz(tier, 3000, 40000))
    for m, b, r in trips:
        cs.append(Case('rt.dns %s' % hx(b), 'valid'))
    for m, b, r in trips[:sz(tier, 1200, 12000)]:
        for bb, tag in length_mutants(b, r, rng, 6) + byteflips(b, rng, 6):
            cs.append(Case('rt.dns %s' % hx(bb), tag))
    for b in corpus_vectors():
        cs.append(Case('rt.dns %s' % hx(b), 'corpus'))
        for bb, tag in byteflips(b, rng, sz(tier, 10, 100)):
            cs.append(Case('rt.dns %s' % hx(bb), 'corpus-' + tag))
    for k in range(1, 65):
        cs.append(Case('rt.dns %s' % hx(hop_chain_msg(k) if k <= 17 else hop_chain_msg(17)), 'nest%d' % k))
    cs += nested_owner_cases(64, 'rt')
    for m in boundary_msgs(rng):
        b, _ = render(m)
        cs.append(Case('rt.dns %s' % hx(b), 'boundary'))
    for off in list(range(0x3FFF - 48, 0x4000 + 48, sz(tier, 8, 1))):
        m = high_offset_msg(rng, off)
        if m:
            b, _ = render(m, Layout(rng, compress=1.0))
            cs.append(Case('rt.dns %s' % hx(b), 'hioff'))
        m = straddle_msg(off)
        if m:
            b, _ = render(m, Layout(rng, compress=rng.choice([0.0, 1.0])))
            cs.append(Case('rt.dns %s' % hx(b), 'straddle'))
    for step in (9, 15, 30):
        names = nested_long_names(step)
        m = msg_with([{'ty': 2, 'name': n, 'ttl': 0, 'cls': 1, 'f': [n]} for n in names])
        b, _ = render(m, Layout(random.Random(step), compress=1.0))
        cs.append(Case('rt.dns %s' % hx(b), 'nested-long'))
    cs += growth_straddle_cases('rt.dns', tier)[::3]
    hdr1 = b'\0\1\x81\x80\0\0\0\1\0\0\0\0'
    for ty in (64, 65):
        for prio in (0, 1):
            for ps in ([pw(3, b'\x20\xfb')], [pw(1, b'\2h2'), pw(4, b'\xc0\0\2\1')], []):
                cs.append(Case('rt.dns %s' % hx(hdr1 + svcb_rr(ty, prio, b'\3svc\0', ps)), 'svcb-alias'))
    for pair in look_alike_name_pairs():
        b, _ = render(names_msg_a(pair))
        cs.append(Case('rt.dns %s' % hx(b), 'look-alike'))
    return cs

def look_alike_name_pairs():
    """names that are NOT equal but easy to confuse: octets differing only in bit 0x20 that are not letters, a dotted
    label against the corresponding label sequence, multi-byte UTF-8 case pairs"""
    suf = (b'example', b'org')
    pairs = [((b'srv[1}',), (b'srv{1}',)), ((b'{id}',), (b'[id]',)), ((b'_dmarc',), (b'\x7fdmarc',)), ((b'a@b',), (b'a`b',)),
             ((b'\xc3\x89',), (b'\xc3\xa9',)), ((b'1',), (b'\x11',)), ((b'a.b',), (b'a', b'b')), ((b'x', b'a.b'), (b'x', b'a', b'b')),
             ((b'a', b'b.example'), (b'a', b'b', b'example')), ((b'Zone',), (b'zone',)), ((b'ZZ', b'top'), (b'zz', b'top'))]
    out = []
    for a, b in pairs:
        out.append((a + suf, b + suf)); out.append((b + suf, a + suf))
    return out

def names_msg_a(names):
    """questions for the first name, NS records (owner + compressible RDATA name) for all"""
    qs = [{'name': names[0], 'qtype': 1, 'qclass': 1}]
    rrs = []
    for n in names:
        rrs.append({'ty': 2, 'name': n, 'ttl': 0, 'cls': 1, 'f': [(b'ns',) + n]})
    return msg_with(rrs, qs=qs)

def nested_owner_msg(k):
    """k progressively nested owner names a0, a1.a0, a2.a1.a0 ... written uncompressed by python;
    the crate's encoder then builds pointer chains of growing depth"""
    rrs = []
    name = ()
    for i in range(k):
        name = (bytes([97 + i % 26]) + str(i).encode(),) + name
        if name_wire_len(name) > 255: break
        rrs.append({'ty': 1, 'name': name, 'ttl': i, 'cls': 1, 'f': [bytes([10, 0, 0, i % 256])]})
    return msg_with(rrs)

def nested_owner_cases(kmax, mode):
    cs = []
    for k in range(1, kmax + 1):
        m = nested_owner_msg(k)
        if mode == 'rt':
            b, _ = render(m, Layout(random.Random(k), compress=1.0))
            cs.append(Case('rt.dns %s' % hx(b), 'nested%d' % k))
        else:
            cs.append(Case('enc.dns %s' % pmsg(m), 'nested%d' % k, exp=abs_msg_text(m)))
    return cs

# ---------------------------------------------------------------- C03 / C04 / C09

def C03(tier, rng):
    cs = []
    trips = layouts(rng, sz(tier, 6000, 30000))
    cs += [msg_cases(t, 'valid') for t in trips]
    cs += malformed(rng, trips[:sz(tier, 4000, 15000)], per_len=10, per_trunc=6, flips=6)
    cs += class_cases()
    cs += dup_param_cases(rng)
    for total in (254, 255, 256, 257):
        n = long_name(total)
        r = Renderer(); r.out += b'\0\1\1\0\0\1' + b'\0' * 6
        for l in n: r.out.append(len(l)); r.out += l
        r.out += b'\0\0\1\0\1'
        cs.append(Case('dec.dns %s' % hx(bytes(r.out)), 'name%d' % total))
    for pl in (1, 2, 10, 62, 63):
        for tot in range(250 - pl, 262 - pl):
            if tot >= 1: cs.append(Case('dec.dns %s' % hx(split_long_name_msg(pl, tot)), 'split-long'))
    cs.append(Case('dec.dns %s' % hx(split_long_name_msg(63, 255)), 'split-long'))
    for b in corpus_vectors():
        cs += dec_all_entries(b, 'corpus')
    cs += single_rr_cases(rng, sz(tier, 2000, 20000))
    for fam, size in ((1, 4), (2, 16)):
        cs += neighbour_cases(fam, size, tier, rng)
    cs += sweep_wire_cases('dec.dns') + sweep_rr_wire_cases()
    cs += svcb_every_len_cases() + header_count_cases() + label_length_octet_cases() + unicode_validator_cases() + validator_boundary_wire_cases()
    cs += reserved_label_type_cases() + dnskey_flag_cases(tier)
    cs += long_rdata_name_cases() + odd_label_wire_cases()
    return cs

def raw_rr(ty, cls, rdata, owner=b'\x01a\x00', ttl=7):
    return owner + ty.to_bytes(2, 'big') + cls.to_bytes(2, 'big') + ttl.to_bytes(4, 'big') + len(rdata).to_bytes(2, 'big') + rdata

def class_cases():
    """every implemented type with every class code of interest"""
    cs = []
    rng = random.Random(7)
    for ty in ALL_TYPES:
        if ty == OPT: continue
        rr = rand_rr(rng, ty, [])
        r = Renderer(); r.rr(rr)
        b = bytes(r.out)
        # class sits right after owner name + type
        nlen = len(b) - len(b)  # placeholder
        w = Renderer(); w.name(rr['name']); pos = len(w.out) + 2
        for cls in (0, 1, 2, 3, 4, 5, 254, 255, 0xFFFF):
            bb = bytearray(b); bb[pos:pos + 2] = cls.to_bytes(2, 'big')
            cs.append(Case('dec.rr %s' % hx(bytes(bb)), 'class'))
    return cs

def svcb_rr(ty, prio, target_wire, params_wire, cls=1):
    return raw_rr(ty, cls, prio.to_bytes(2, 'big') + target_wire + b''.join(params_wire))

def pw(key, body, lendelta=0):
    return key.to_bytes(2, 'big') + ((len(body) + lendelta) % 65536).to_bytes(2, 'big') + body

PARAM_SAMPLES = {0: [b'', b'\0\1', b'\0\4\0\1', b'\0\1\0\1'], 1: [b'', b'\2h2', b'\2h2\2h3', b'\0'], 2: [b''], 3: [b'\0\x50', b'\1\xbb'],
                 4: [b'', b'\1\2\3\4', b'\1\2\3\4\5\6\7\x08'], 5: [b'\0\0', b'\0\2ab'], 6: [b'', b'\x20\x01' + b'\0' * 14],
                 7: [b'', b'xyz'], 65534: [b'q'], 65535: [b'']}

def dup_param_cases(rng):
    """all wire orders / duplications of up to 3 parameters over a small set (4 in thorough via C16)"""
    cs = []
    keys = [0, 1, 2, 3, 4, 5, 6, 7, 65535]
    for n in (1, 2, 3):
        for combo in itertools.product(keys, repeat=n):
            if n == 3 and len(set(combo)) == 3 and list(combo) == sorted(combo) and rng.random() < 0.7:
                continue
            ps = [pw(k, PARAM_SAMPLES[k][rng.randrange(len(PARAM_SAMPLES[k]))]) for k in combo]
            cs.append(Case('dec.rr %s' % hx(svcb_rr(rng.choice([64, 65]), 1, b'\0', ps)), 'svcb-order'))
    return cs

def C04(tier, rng):
    cs = []
    cs += sweep_wire_cases('dec.dns', exp=True)
    trips = layouts(rng, sz(tier, 20000, 80000))
    cs += [msg_cases(t, 'layout') for t in trips]
    for m in boundary_msgs(rng):
        for L in (Layout(), Layout(random.Random(1), compress=1.0, flipcase=0.5, pad_addr=1.0, shuffle_params=True)):
            b, _ = render(m, L)
            cs.append(Case('dec.dns %s' % hx(b), 'boundary', exp=abs_msg_text(m)))
    for k in range(0, 20):
        cs.append(Case('dec.dns %s' % hx(hop_chain_msg(k)), 'hops%d' % k, exp='ACCEPT' if k <= 17 else None))
        cs.append(Case('dec.dns %s' % hx(pure_pointer_chain_msg(k)), 'phops%d' % k, exp='ACCEPT' if k <= 17 else None))
    for off in list(range(0x3FFF - 48, 0x3FFF + 1, sz(tier, 4, 1))) + [0x3F00, 0x3F01]:
        m = high_offset_msg(rng, off)
        if m:
            b, _ = render(m, Layout(rng, compress=1.0))
            cs.append(Case('dec.dns %s' % hx(b), 'hioff', exp=abs_msg_text(m)))
    # the smallest legal messages: root owner names, empty RDATA, nothing else
    bare_opt = {'ty': 41, 'payload': 1232, 'ext': 0, 'ver': 0, 'do': 0, 'opts': []}
    empties = [{'ty': t, 'name': (), 'ttl': 0, 'cls': 1, 'f': [b'']} for t in (10, 22, 31, 32)] + [{'ty': 42, 'name': (), 'ttl': 0, 'cls': 1, 'items': []}]
    rootq = {'name': (), 'qtype': 2, 'qclass': 1}
    for qs in ([], [rootq]):
        for rrs in ([bare_opt], [empties[0]], empties, [empties[0]] * 3, [bare_opt] + empties, [empties[4], bare_opt]):
            m = msg_with([], qs=qs); m['ar'] = list(rrs)
            b, _ = render(m)
            cs.append(Case('dec.dns %s' % hx(b), 'minimal', exp=abs_msg_text(m)))
            m2 = msg_with(list(rrs), qs=qs)
            b, _ = render(m2)
            cs.append(Case('dec.dns %s' % hx(b), 'minimal', exp=abs_msg_text(m2)))
    # names at the 255-octet limit reached through many hops (compressed layouts of nested long names)
    for step in (5, 9, 15, 20, 30, 62):
        names = nested_long_names(step)
        m = msg_with([{'ty': 2, 'name': n, 'ttl': 0, 'cls': 1, 'f': [n]} for n in names], qs=[{'name': names[-1], 'qtype': 1, 'qclass': 1}])
        for comp in (1.0, 0.7):
            b, _ = render(m, Layout(random.Random(step), compress=comp))
            cs.append(Case('dec.dns %s' % hx(b), 'nested-long', exp=abs_msg_text(m)))
    for pl in range(1, 64, 7):
        for tot in (255 - pl - 1, 254 - pl - 1):
            if tot >= 1:
                cs.append(Case('dec.dns %s' % hx(split_long_name_msg(pl, tot)), 'split-long', exp='ACCEPT'))
    for off in range(0x3FFF - 20, 0x3FFF + 2, sz(tier, 3, 1)):
        m = straddle_msg(off)
        if m:
            b, _ = render(m, Layout(rng, compress=1.0))
            cs.append(Case('dec.dns %s' % hx(b), 'straddle', exp=abs_msg_text(m)))
    # big messages up to the 65,535 limit
    for total in sz(tier, [60000, 65535], [16384, 32768, 60000, 65000, 65534, 65535]):
        k = total - 12 - 3 - 10
        m = msg_with([{'ty': 10, 'name': (b'p',), 'ttl': 0, 'cls': 1, 'f': [bytes(k % 251 for k in range(k))]}])
        b, _ = render(m)
        assert len(b) == total
        cs.append(Case('dec.dns %s' % hx(b), 'big', exp=abs_msg_text(m)))
    for clen in (8, 16, 17, 39, 40):
        m = msg_with([{'ty': 41, 'payload': 1232, 'ext': 0, 'ver': 0, 'do': 0, 'opts': [('cookie', b'12345678', None if clen == 8 else bytes(clen - 8))]}])
        b, _ = render(m); cs.append(Case('dec.dns %s' % hx(b), 'cookie%d' % clen, exp=abs_msg_text(m)))
    cs += root_pointer_cases()
    return cs

def root_pointer_cases():
    """names that END in a compression pointer to the zero octet terminating an earlier name (the root is a name like any
    other: the pointer is backward, to a prior name, one hop), alone, after labels, and through a chain of such pointers"""
    cs = []
    hdr = lambda qd, an: b'\0\7\x81\x80' + qd.to_bytes(2, 'big') + an.to_bytes(2, 'big') + b'\0\0\0\0'
    # question `a.` at 12: `01 61 00`, its root octet at 14; question `.` at 12: root octet at 12
    q_a = b'\1a\0\0\2\0\1'; q_root = b'\0\0\2\0\1'
    rrtail = lambda rd: b'\0\2\0\1\0\0\x0e\x10' + len(rd).to_bytes(2, 'big') + rd
    m_root = {'id': 7, 'flags': (1, 0, 0, 0, 1, 1, 0, 0, 0)}
    for q, rootoff, qname in ((q_a, 14, (b'a',)), (q_root, 12, ())):
        p = (0xC000 | rootoff).to_bytes(2, 'big')
        base = 12 + len(q)
        variants = [
            (p, (), b'\0', ()),                                  # owner = pointer to the root, RDATA name = plain root
            (p, (), p, ()),                                       # both
            (b'\1b' + p, (b'b',), b'\1c\1d' + p, (b'c', b'd')),  # labels, then the pointer to the root
            (b'\1b' + p, (b'b',), (0xC000 | base).to_bytes(2, 'big'), (b'b',)),   # pointer to a name that ends in such a pointer
        ]
        for owner_w, owner, rd_w, rdname in variants:
            b = hdr(1, 1) + q + owner_w + rrtail(rd_w)
            m = {'id': 7, 'flags': {'qr': 1, 'opcode': 0, 'aa': 0, 'tc': 0, 'rd': 1, 'ra': 1, 'ad': 0, 'cd': 0, 'rcode': 0},
                 'qd': [{'name': qname, 'qtype': 2, 'qclass': 1}], 'an': [{'ty': 2, 'name': owner, 'ttl': 3600, 'cls': 1, 'f': [rdname]}], 'ns': [], 'ar': []}
            try: exp = abs_msg_text(m)
            except Exception: exp = 'ACCEPT'
            cs.append(Case('dec.dns %s' % hx(b), 'root-pointer', exp=exp))
        # a chain of k pointers, each to the next, the last to the root octet: accepted up to the hop limit
        for k in (2, 5, 16, 17, 18):
            ptrs = b''.join((0xC000 | (base + 2 * (i + 1))).to_bytes(2, 'big') for i in range(k - 1)) + p
            # the chain lives in a NULL record's RDATA; the second record's owner points at its first pointer
            rr1 = b'\0\0\x0a\0\1\0\0\0\0' + len(ptrs).to_bytes(2, 'big')
            off = 12 + len(q) + len(rr1)
            ptrs = b''.join((0xC000 | (off + 2 * (i + 1))).to_bytes(2, 'big') for i in range(k - 1)) + p
            b = hdr(1, 2) + q + rr1 + ptrs + (0xC000 | off).to_bytes(2, 'big') + rrtail(b'\0')
            cs.append(Case('dec.dns %s' % hx(b), 'root-pointer-chain%d' % k, exp='ACCEPT' if k + 1 <= 17 else None))
    return cs

def C09(tier, rng):
    cs = []
    nb = {'ty': 1, 'name': (b'nb',), 'ttl': 1, 'cls': 1, 'f': [b'\xde\xad\xbe\xef']}
    for rr in sweep_rrs():
        m = msg_with([nb, rr, nb] if rr['ty'] != OPT else [nb])
        if rr['ty'] == OPT: m['ar'] = [rr, nb]
        b, r = render(m, Layout(random.Random(1), compress=0.0, flipcase=0.0, pad_addr=0.0))
        for bb, tag in length_mutants(b, r, rng, None if tier == 'thorough' else 10):
            cs.append(Case('dec.dns %s' % hx(bb), 'sweep-' + tag))
    cs += svcb_every_len_cases() + header_count_cases()
    trips = layouts(rng, sz(tier, 2500, 12000), maxrr=3)
    for m, b, r in trips:
        cs.append(Case('dec.dns %s' % hx(b), 'valid', exp=abs_msg_text(m)))
        per = None if tier == 'thorough' else 24
        for bb, tag in length_mutants(b, r, rng, per) + truncations(b, rng, None if tier == 'thorough' else 16) + suffixes(b, rng):
            cs.append(Case('dec.dns %s' % hx(bb), tag))
    # options inside options, params, items: every length field of focused records, all deltas
    for ty in (OPT, APL, SVCB, HTTPS, 16, 13, 20, 27, 257):
        for _ in range(sz(tier, 40, 400)):
            rr = rand_rr(rng, ty, [])
            for position in ('first', 'last'):
                others = [rand_rr(rng, rng.choice([1, 2, 16]), []) for _ in range(2)]
                m = msg_with([rr] + others if position == 'first' else others + [rr])
                b, r = render(m, Layout(rng, pad_addr=0.3))
                for bb, tag in length_mutants(b, r, rng, None):
                    cs.append(Case('dec.dns %s' % hx(bb), tag))
    return cs
