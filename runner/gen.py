"""Structured generators of valid values (python side). Every random choice comes from the rng passed in."""
import random
from wire import *

LABELS = [b'a', b'b', b'c', b'A', b'B', b'example', b'Example', b'EXAMPLE', b'org', b'ORG', b'com', b'www', b'ns1', b'mail',
          b'x' * 63, b'Y' * 63, b'\xe2\x84\xaa', b'\xc4\xb0', b'i\xcc\x87', b'a.b', b'\x00', b'k', b'K', b'xn--nxasmq6b', b'_tcp', b'*',
          # octets that differ from another legal octet only in bit 0x20 without being letters, Z/z (the last letter of the
          # case range), labels whose printed form collides with a sequence of labels
          b'srv[1}', b'srv{1}', b'{id}', b'[id]', b'_dmarc', b'\x7fdmarc', b'a@b', b'a`b', b'Zone', b'zone', b'ZZ', b'zz',
          b'\xc3\x89', b'\xc3\xa9', b'b.example', b'a.b.example',
          # presentation-format escapes are NOT interpreted on the wire
          b'a\\b', b'\\046', b'a\\.b', b'\\', b'\\\\', b'x\\y', b'"q"', b'a b', b'a;b', b'(a)', b'@',
          # white space at the ends of a label is part of the label (text-input conveniences must not reach the wire codec)
          b' lead', b'trail ', b' ', b'\t', b' both ', b'Lobby printer ',
          # special-use names (RFC 6761/6762/7686 ...): a codec has no business treating them specially
          b'local', b'LOCAL', b'localhost', b'arpa', b'in-addr', b'ip6', b'invalid', b'onion', b'test', b'home', b'_tcp', b'_udp', b'_dns-sd']

def rand_label(rng):
    r = rng.random()
    if r < 0.8:
        return rng.choice(LABELS)
    n = rng.choice([1, 2, 3, 5, 10, 31, 62, 63])
    return bytes(rng.choice(b'abcdefghijklmnopqrstuvwxyzABCDEFGHIJKLMNOPQRSTUVWXYZ0123456789-_') for _ in range(n))

def name_wire_len(n):
    return sum(len(l) + 1 for l in n) + 1

def rand_name(rng, pool=None, maxlabels=6):
    """a legal name (<=255 wire octets); often a suffix-sharing relative of a name in pool"""
    if pool and rng.random() < 0.6:
        base = rng.choice(pool)
        cut = rng.randint(0, len(base))
        n = tuple(rand_label(rng) for _ in range(rng.randint(0, 2))) + base[cut:]
    elif rng.random() < 0.05:
        n = ()
    else:
        n = tuple(rand_label(rng) for _ in range(rng.randint(1, maxlabels)))
    while name_wire_len(n) > 255:
        n = n[1:]
    if pool is not None:
        pool.append(n)
    return n

def long_name(total):
    """a name of exactly `total` wire octets (total >= 1)"""
    rem = total - 1
    labels = []
    while rem > 0:
        l = min(63, rem - 1)
        if rem - 1 - l == 1:   # cannot leave 1 octet (a label needs >= 2)
            l -= 1
        labels.append(b'z' * l)
        rem -= l + 1
    return tuple(labels)

def bnum(rng, w):
    mx = 256 ** w - 1
    return rng.choice([0, 1, mx // 2, mx - 1, mx, rng.randint(0, mx), rng.randint(0, 255)])

def rbytes(rng, n):
    return bytes(rng.getrandbits(8) for _ in range(n))

def rand_blob(rng, maxlen=40):
    return rbytes(rng, rng.choice([0, 1, 2, 7, 16, rng.randint(0, maxlen)]))

UTF8_SAMPLES = [b'', b'a', b'hello world', b'\xc3\xa9', b'\xe2\x82\xac', b'\xf0\x9f\x98\x80', b'A.B', b'\x00', b'"quoted"', b'x' * 255, b'y' * 254]

def rand_str(rng, check=None):
    if check == 'digits':
        return bytes(rng.choice(b'0123456789') for _ in range(rng.choice([0, 1, 5, 15, 255])))
    if check == 'hex':
        return bytes(rng.choice(b'0123456789abcdefABCDEF') for _ in range(rng.choice([0, 1, 4, 255])))
    if check == 'gpos':
        return bytes(rng.choice(b'0123456789.-') for _ in range(rng.choice([1, 2, 8, 255])))
    if check == 'tag':
        return bytes(rng.choice(b'abcdefghijklmnopqrstuvwxyz0123456789') for _ in range(rng.choice([1, 5, 15, 255])))
    return rng.choice(UTF8_SAMPLES)

def prefix_addr(rng, size, pfx):
    """an address of `size` octets with no bit at position >= pfx"""
    v = rng.getrandbits(size * 8) if rng.random() < 0.7 else (1 << (size * 8)) - 1
    if pfx < size * 8:
        v &= ~((1 << (size * 8 - pfx)) - 1)
    if rng.random() < 0.1: v = 0
    a = bytearray(v.to_bytes(size, 'big'))
    if rng.random() < 0.3 and pfx >= 16:
        # a zero octet in the middle of the covered part (an encoder must not stop at it)
        a[rng.randrange(0, max(1, min(size, pfx // 8) - 1))] = 0
    return bytes(a)

def rand_option(rng):
    k = rng.choice(['ecs', 'cookie', 'pad'])
    if k == 'ecs':
        fam = rng.choice([1, 2]); size = 4 if fam == 1 else 16
        src = rng.choice([0, 1, 7, 8, 9, 24, size * 8 - 1, size * 8, rng.randint(0, size * 8)])
        scope = rng.choice([0, 0, src, rng.randint(0, size * 8)])
        return ('ecs', fam, src, scope, prefix_addr(rng, size, max(src, scope)))
    if k == 'cookie':
        sl = rng.choice([None, 8, 9, 16, 31, 32])
        return ('cookie', rbytes(rng, 8), None if sl is None else rbytes(rng, sl))
    return ('pad', rng.choice([0, 1, 6, 64, rng.randint(0, 300)]))

def rand_apitem(rng):
    fam = rng.choice([1, 2]); size = 4 if fam == 1 else 16
    pfx = rng.choice([0, 1, 8, 9, 16, size * 8 - 1, size * 8, rng.randint(0, size * 8)])
    return {'fam': fam, 'pfx': pfx, 'neg': rng.randint(0, 1), 'addr': prefix_addr(rng, size, pfx)}

# alpn ids: plain, empty, the two characters the presentation form escapes (`,` and `\\`) after ASCII and after multi-octet
# characters (an escaper that slices by character index instead of octet offset), at the start and at the end, maximal length
ALPN_IDS = [b'h2', b'h3', b'http/1.1', b'', b'f\\oo,bar', b'x' * 255, b'\xc3\xa9,', b'\xc3\xa9\\', b',\xc3\xa9', b'\xe6\x97\xa5\xe6\x9c\xac,\xe8\xaa\x9e\\x',
            b'\xf0\x9f\x98\x80,\xf0\x9f\x98\x80', b',', b'\\', b'a,', b'\xc3\xa9' * 127 + b',']

def rand_param(rng, key=None):
    k = key if key is not None else rng.choice([0, 1, 2, 3, 4, 5, 6, 7, 100, 65534, 65535])
    if k == 0: return ('mandatory', [rng.choice([1, 2, 3, 4, 5, 6, 7, 65534]) for _ in range(rng.randint(0, 4))])
    if k == 1: return ('alpn', [rng.choice(ALPN_IDS) for _ in range(rng.randint(0, 3))])
    if k == 2: return ('nodefaultalpn',)
    if k == 3: return ('port', bnum(rng, 2))
    if k == 4: return ('ipv4hint', [rbytes(rng, 4) for _ in range(rng.randint(0, 3))])
    if k == 5: return ('ech', rand_blob(rng, 300))
    if k == 6: return ('ipv6hint', [rbytes(rng, 16) for _ in range(rng.randint(0, 3))])
    if k == 65535: return ('key65535',)
    return ('key', k, rand_blob(rng, 300))

def dedup_params(ps):
    seen = {}
    for p in ps:
        seen.setdefault(param_key(p), p)
    return [seen[k] for k in sorted(seen)]

def rand_rr(rng, ty=None, pool=None):
    ty = ty if ty is not None else rng.choice(ALL_TYPES)
    if ty == OPT:
        return {'ty': OPT, 'payload': bnum(rng, 2), 'ext': bnum(rng, 1), 'ver': bnum(rng, 1), 'do': rng.randint(0, 1),
                'opts': [rand_option(rng) for _ in range(rng.choice([0, 1, 1, 2, 4]))]}
    r = {'ty': ty, 'name': rand_name(rng, pool), 'ttl': bnum(rng, 4), 'cls': 1}
    if ty == APL:
        r['items'] = [rand_apitem(rng) for _ in range(rng.choice([0, 1, 2, 5]))]
        return r
    if ty in (SVCB, HTTPS):
        r['prio'] = rng.choice([0, 1, 1, 65535, rng.randint(0, 65535)])
        r['target'] = rand_name(rng, pool)
        r['params'] = dedup_params([rand_param(rng) for _ in range(rng.choice([0, 1, 2, 4, 8]))])
        if r['prio'] == 0:
            r['params'] = []      # alias form carries no parameters (K4 otherwise)
        return r
    tname, in_only, flds = TABLE[ty]
    if not in_only:
        r['cls'] = rng.choice(CLASSES)
    vals = []
    for fname, kind in flds:
        k = kind[0]
        if k == 'n': vals.append(bnum(rng, int(kind[1])))
        elif k == 'e': vals.append(rng.choice(ENUMS[kind.split(':')[1]]))
        elif k == 'd': vals.append(rand_name(rng, pool))
        elif k == 'x': vals.append(rbytes(rng, int(kind[1:])))
        elif k == 'h':
            if kind == 'h:utf8': vals.append(rand_str(rng))
            else: vals.append(rand_blob(rng))
        elif k == 's':
            vals.append(rand_str(rng, kind.split(':')[1] if ':' in kind else None))
        elif k == 'o':
            vals.append(None if rng.random() < 0.5 else rand_str(rng, 'hex'))
        elif k == 'L':
            vals.append([rand_str(rng) for _ in range(rng.choice([1, 1, 2, 5]))])
    r['f'] = vals
    return r

def _field_boundaries(kind):
    """the boundary values of one field kind (deterministic)"""
    k = kind[0]
    if k == 'n':
        mx = 256 ** int(kind[1]) - 1
        return sorted(v for v in set([0, 1, 0x7f, 0x80, 0xff, 0x100, mx // 2, mx // 2 + 1, mx - 1, mx]) if 0 <= v <= mx)
    if k == 'e': return list(ENUMS[kind.split(':')[1]])
    if k == 'd': return [(), (b'a',), (b'x' * 63,), (b'A', b'example', b'ORG'), tuple([b'b' * 63] * 3 + [b'c' * 61]), (b'a.b', b'\\', b'\x00')]
    if k == 'x':
        n = int(kind[1:]); return [bytes(n), b'\xff' * n, bytes(range(1, n + 1)), b'\x80' + bytes(n - 1), bytes(n - 1) + b'\x01']
    if k == 'h':
        if kind == 'h:utf8': return [b'', b'a', b'\xc3\xa9', b'\x00', b'u' * 300]
        return [b'', b'\x00', b'\xff', bytes(16), bytes(range(256)), b'\x00' * 5 + b'\x01']
    if k == 's':
        c = kind.split(':')[1] if ':' in kind else None
        if c == 'digits': return [b'', b'0', b'9' * 255, b'0123456789']
        if c == 'hex': return [b'', b'0', b'aF09', b'f' * 255]
        if c == 'gpos': return [b'0', b'-1.5', b'9' * 255, b'.']
        if c == 'tag': return [b'a', b'issue', b'z9' * 127 + b'a', b'0']
        return [b'', b'a', b'\xc3\xa9', b'\x00', b'x' * 254, b'x' * 255, b'"q" \\']
    if k == 'o': return [None, b'', b'0', b'aF', b'f' * 255]
    if k == 'L': return [[b''], [b'a'], [b'x' * 255], [b'', b''], [b'a', b'', b'\xc3\xa9'], [b'x' * 255] * 3]
    return []

def _default_value(kind):
    k = kind[0]
    if k == 'n': return 5
    if k == 'e': return ENUMS[kind.split(':')[1]][-1]
    if k == 'd': return (b'n', b'example')
    if k == 'x': return bytes(range(1, int(kind[1:]) + 1))
    if k == 'h': return b'v'
    if k == 's':
        c = kind.split(':')[1] if ':' in kind else None
        return {'digits': b'1', 'hex': b'a', 'gpos': b'1', 'tag': b'issue'}.get(c, b's')
    if k == 'o': return b'a'
    if k == 'L': return [b't']
    return None

def boundary_sweep():
    """Deterministic each-choice / pairwise sweep: every regular record type with every field at every boundary value (the
    other fields at a default), every PAIR of fields at their extreme values, every class and the TTL boundaries; OPT,
    APL, SVCB/HTTPS with each component at its boundaries. A defect that needs `this type AND that field value` (or two
    field values together) is hit without relying on random draws."""
    out = []
    owner = (b'o', b'example')
    for ty in sorted(TABLE):
        tname, in_only, flds = TABLE[ty]
        base = [_default_value(kind) for _, kind in flds]
        def mk(vals, ttl=60, cls=1, name=owner):
            return {'ty': ty, 'name': name, 'ttl': ttl, 'cls': cls, 'f': list(vals)}
        out.append(mk(base))
        for i, (_, kind) in enumerate(flds):
            for v in _field_boundaries(kind):
                vals = list(base); vals[i] = v
                out.append(mk(vals))
        for i in range(len(flds)):
            for j in range(i + 1, len(flds)):
                bi = _field_boundaries(flds[i][1]); bj = _field_boundaries(flds[j][1])
                for vi in (bi[0], bi[-1]):
                    for vj in (bj[0], bj[-1]):
                        vals = list(base); vals[i] = vi; vals[j] = vj
                        out.append(mk(vals))
        for ttl in (0, 1, 0x7fffffff, 0x80000000, 0xffffffff):
            out.append(mk(base, ttl=ttl))
        if not in_only:
            for cls in CLASSES: out.append(mk(base, cls=cls))
        for name in ((), (b'x' * 63,), tuple([b'b' * 63] * 3 + [b'c' * 61])):
            out.append(mk(base, name=name))
    # OPT
    for payload in (0, 1, 511, 512, 1232, 4096, 65535):
        for ext in (0, 1, 255):
            for ver in (0, 1, 255):
                for do in (0, 1):
                    if (payload in (0, 1232, 65535)) or (ext, ver, do) in ((0, 0, 0), (255, 255, 1)):
                        out.append({'ty': OPT, 'payload': payload, 'ext': ext, 'ver': ver, 'do': do, 'opts': []})
    opts = [('pad', 0), ('pad', 1), ('pad', 468), ('cookie', b'\1' * 8, None), ('cookie', b'\1' * 8, b'\2' * 8), ('cookie', b'\1' * 8, b'\2' * 32),
            ('ecs', 1, 0, 0, bytes(4)), ('ecs', 1, 24, 0, b'\x0a\x01\x02\x00'), ('ecs', 1, 32, 32, b'\x0a\x01\x02\x03'), ('ecs', 1, 8, 24, b'\x0a\x01\x02\x00'),
            ('ecs', 2, 0, 0, bytes(16)), ('ecs', 2, 56, 0, b'\x20\x01\x0d\xb8\x00\x01\x02' + bytes(9)), ('ecs', 2, 128, 128, bytes(range(1, 17))), ('ecs', 1, 1, 0, b'\x80\0\0\0')]
    for o in opts:
        for ver in (0, 1):
            out.append({'ty': OPT, 'payload': 1232, 'ext': 0, 'ver': ver, 'do': 1, 'opts': [o]})
    for o1 in opts[::2]:
        for o2 in opts[1::2]:
            out.append({'ty': OPT, 'payload': 512, 'ext': 1, 'ver': 0, 'do': 0, 'opts': [o1, o2]})
    # APL
    items = [{'fam': 1, 'pfx': 0, 'neg': 0, 'addr': bytes(4)}, {'fam': 1, 'pfx': 0, 'neg': 1, 'addr': bytes(4)}, {'fam': 1, 'pfx': 32, 'neg': 0, 'addr': b'\x0a\x01\x02\x03'},
             {'fam': 1, 'pfx': 8, 'neg': 1, 'addr': b'\x0a\0\0\0'}, {'fam': 1, 'pfx': 24, 'neg': 0, 'addr': b'\x0a\0\x02\0'}, {'fam': 1, 'pfx': 1, 'neg': 0, 'addr': b'\x80\0\0\0'},
             {'fam': 1, 'pfx': 32, 'neg': 1, 'addr': b'\0\0\0\x01'}, {'fam': 2, 'pfx': 0, 'neg': 1, 'addr': bytes(16)}, {'fam': 2, 'pfx': 128, 'neg': 0, 'addr': bytes(range(1, 17))},
             {'fam': 2, 'pfx': 64, 'neg': 0, 'addr': b'\x20\x01\x0d\xb8' + bytes(12)}, {'fam': 2, 'pfx': 127, 'neg': 1, 'addr': b'\xff' * 15 + b'\xfe'}, {'fam': 2, 'pfx': 128, 'neg': 0, 'addr': bytes(15) + b'\x01'}]
    out.append({'ty': APL, 'name': owner, 'ttl': 60, 'cls': 1, 'items': []})
    for it in items: out.append({'ty': APL, 'name': owner, 'ttl': 60, 'cls': 1, 'items': [it]})
    for a in items[::2]:
        for b in items[1::2]:
            out.append({'ty': APL, 'name': owner, 'ttl': 60, 'cls': 1, 'items': [a, b]})
    out.append({'ty': APL, 'name': owner, 'ttl': 60, 'cls': 1, 'items': items})
    # SVCB / HTTPS
    params = [('mandatory', [1]), ('mandatory', [1, 3, 4, 6]), ('alpn', [b'h2']), ('alpn', [b'h2', b'h3', b'x' * 255]), ('alpn', [b'\xc3\xa9,', b'\xc3\xa9\\', b'\xe6\x97\xa5,\\']), ('nodefaultalpn',), ('port', 0), ('port', 65535),
              ('ipv4hint', [b'\1\2\3\4']), ('ipv4hint', [bytes(4), b'\xff' * 4, b'\1\2\3\4']), ('ech', b''), ('ech', b'\0'), ('ech', bytes(range(200))),
              ('ipv6hint', [bytes(range(16))]), ('ipv6hint', [bytes(16), b'\xff' * 16]), ('key', 7, b''), ('key', 7, b'z'), ('key', 65534, bytes(300)), ('key65535',)]
    for ty in (SVCB, HTTPS):
        for prio in (0, 1, 2, 65535):
            for target in ((), (b't', b'example'), owner):
                out.append({'ty': ty, 'name': owner, 'ttl': 60, 'cls': 1, 'prio': prio, 'target': target, 'params': []})
        for pm in params:
            for prio in (1, 65535):
                out.append({'ty': ty, 'name': owner, 'ttl': 60, 'cls': 1, 'prio': prio, 'target': (), 'params': [pm]})
        for i, p1 in enumerate(params):
            for p2 in params[i + 1:]:
                if param_key(p1) != param_key(p2):
                    out.append({'ty': ty, 'name': owner, 'ttl': 60, 'cls': 1, 'prio': 1, 'target': (b't',), 'params': sorted([p1, p2], key=param_key)})
        out.append({'ty': ty, 'name': owner, 'ttl': 60, 'cls': 1, 'prio': 1, 'target': (), 'params': dedup_params(params)})
    return out

def rand_flags(rng, rcodes=RCODES_4BIT):
    return {'qr': rng.randint(0, 1), 'opcode': rng.choice(OPCODES), 'aa': rng.randint(0, 1), 'tc': rng.randint(0, 1),
            'rd': rng.randint(0, 1), 'ra': rng.randint(0, 1), 'ad': rng.randint(0, 1), 'cd': rng.randint(0, 1),
            'rcode': rng.choice(rcodes)}

def rand_question(rng, pool=None):
    return {'name': rand_name(rng, pool), 'qtype': rng.choice(QTYPES), 'qclass': rng.choice(QCLASSES)}

def rand_msg(rng, maxq=2, maxrr=4, types=None):
    pool = []
    m = {'id': bnum(rng, 2), 'flags': rand_flags(rng)}
    m['qs'] = [rand_question(rng, pool) for _ in range(rng.randint(0, maxq))]
    for sec in ('an', 'ns', 'ar'):
        m[sec] = [rand_rr(rng, rng.choice(types) if types else None, pool) for _ in range(rng.randint(0, maxrr))]
    return m

def msg_with(rrs, qs=(), rng=None):
    return {'id': 0x1234, 'flags': {'qr': 1, 'opcode': 0, 'aa': 0, 'tc': 0, 'rd': 1, 'ra': 1, 'ad': 0, 'cd': 0, 'rcode': 0},
            'qs': list(qs), 'an': list(rrs), 'ns': [], 'ar': []}
