"""Build + run + diff machinery shared by all checks."""
import os, sys, subprocess, time, json, re, hashlib, fcntl, shutil, random

VERIF = os.path.dirname(os.path.dirname(os.path.abspath(__file__)))
REPO = os.environ.get('VERIF_REPO', '/repo')
LEAN = os.path.join(VERIF, 'lean')
HARNESS = os.path.join(VERIF, 'harness')
WORK = os.path.join(VERIF, 'work')
DRIVER = os.path.join(LEAN, '.lake', 'build', 'bin', 'driver')
HARNESS_BIN = os.path.join(HARNESS, 'target', 'release', 'harness')
NCPU = min(16, os.cpu_count() or 4)
ALLOWED_AXIOMS = {'propext', 'Classical.choice', 'Quot.sound'}
ENV = dict(os.environ, CARGO_NET_OFFLINE='true')

def log(*a):
    print(*a, file=sys.stderr, flush=True)

class Lock:
    def __init__(self, name='build'):
        os.makedirs(WORK, exist_ok=True)
        self.path = os.path.join(WORK, name + '.lock')
    def __enter__(self):
        self.f = open(self.path, 'w'); fcntl.flock(self.f, fcntl.LOCK_EX); return self
    def __exit__(self, *a):
        fcntl.flock(self.f, fcntl.LOCK_UN); self.f.close()

def write_if_changed(path, text):
    try:
        if open(path).read() == text:
            return False
    except FileNotFoundError:
        pass
    with open(path, 'w') as f:
        f.write(text)
    return True

def regen_constants():
    """re-extract constants/enum tables from REPO/src; only touch the files when they change"""
    tmp = os.path.join(WORK, 'gen_tmp')
    os.makedirs(tmp, exist_ok=True)
    r = subprocess.run([sys.executable, os.path.join(VERIF, 'tools', 'extract_consts.py'), REPO, tmp], capture_output=True, text=True)
    if r.returncode != 0:
        return False, (r.stdout + r.stderr).strip()
    for f in ('Consts.lean', 'Enums.lean'):
        write_if_changed(os.path.join(LEAN, 'DnsVerif', 'Generated', f), open(os.path.join(tmp, f)).read())
    # the translator for the straight-line record readers / writers and the framing functions (Generated/Steps.lean)
    msg2 = ''
    try:
        r2 = subprocess.run([sys.executable, os.path.join(VERIF, 'tools', 'extract_steps.py'), REPO, tmp], capture_output=True, text=True, timeout=120)
        if r2.returncode == 0:
            write_if_changed(os.path.join(LEAN, 'DnsVerif', 'Generated', 'Steps.lean'), open(os.path.join(tmp, 'Steps.lean')).read())
            msg2 = '; ' + r2.stdout.strip()
        else:
            msg2 = '; extract_steps failed: ' + (r2.stdout + r2.stderr).strip()[-300:]
    except Exception as e:
        msg2 = '; extract_steps failed: %s' % e
    return True, r.stdout.strip() + msg2

def lake_build(targets):
    t0 = time.time()
    r = subprocess.run(['lake', 'build'] + targets, cwd=LEAN, capture_output=True, text=True, env=ENV)
    return r.returncode == 0, r.stdout + r.stderr, time.time() - t0

def theorem_names(prop_id):
    p = os.path.join(LEAN, 'DnsVerif', 'Props', prop_id + '.lean')
    if not os.path.exists(p):
        return []
    src = open(p).read()
    src = re.sub(r'/-.*?-/', '', src, flags=re.S)
    ns = []
    cur = []
    names = []
    for line in src.split('\n'):
        m = re.match(r'\s*namespace\s+(\S+)', line)
        if m: cur.append(m.group(1)); continue
        m = re.match(r'\s*end\s+(\S+)', line)
        if m and cur and cur[-1] == m.group(1): cur.pop(); continue
        m = re.match(r'\s*(?:protected\s+)?theorem\s+([^\s:({\[]+)', line)      # `private theorem` = helper of an example, not an obligation
        if m:
            names.append('.'.join(cur + [m.group(1)]))
    return names

def axiom_audit(prop_id, names=None):
    """#print axioms for every theorem of Props.<id> (or the given ones); returns {theorem: [axioms]} or raises"""
    if names is None: names = theorem_names(prop_id)
    if not names:
        return {}
    os.makedirs(os.path.join(WORK, 'audit'), exist_ok=True)
    f = os.path.join(WORK, 'audit', 'Audit_%s.%d.lean' % (prop_id, os.getpid()))
    with open(f, 'w') as fh:
        fh.write('import DnsVerif.Props.%s\n' % prop_id)
        for n in names:
            fh.write('#print axioms %s\n' % n)
    r = subprocess.run(['lake', 'env', 'lean', f], cwd=LEAN, capture_output=True, text=True, env=ENV)
    try: os.remove(f)
    except OSError: pass
    out = r.stdout + r.stderr
    res = {}
    for m in re.finditer(r"^'(\S+)' depends on axioms: \[([^\]]*)\]", out, re.S | re.M):
        res[m.group(1)] = [a.strip() for a in m.group(2).replace('\n', ' ').split(',') if a.strip()]
    for m in re.finditer(r"^'(\S+)' does not depend on any axioms", out, re.M):
        res[m.group(1)] = []
    if r.returncode != 0 or len(res) != len(names):
        raise RuntimeError('axiom audit failed for %s:\n%s' % (prop_id, out[-3000:]))
    return res

def module_closure(root_mod):
    """project modules imported (transitively) by `root_mod`, by parsing import lines"""
    seen = []; todo = [root_mod]
    while todo:
        m = todo.pop()
        if m in seen or not m.startswith('DnsVerif'): continue
        p = os.path.join(LEAN, *m.split('.')) + '.lean'
        if not os.path.exists(p): continue
        seen.append(m)
        for line in open(p):
            mm = re.match(r'\s*(?:public\s+)?import\s+(\S+)', line)
            if mm: todo.append(mm.group(1))
    return sorted(seen)

def leanchecker(mods, jobs=NCPU):
    """independent re-check of the compiled .olean files of `mods` by the toolchain's leanchecker; returns (ok, detail)"""
    t0 = time.time()
    groups = [mods[i::jobs] for i in range(jobs) if mods[i::jobs]]
    procs = [subprocess.Popen(['lake', 'env', 'leanchecker'] + g, cwd=LEAN, stdout=subprocess.PIPE, stderr=subprocess.STDOUT, text=True, env=ENV) for g in groups]
    bad = []
    for g, pr in zip(groups, procs):
        out, _ = pr.communicate()
        if pr.returncode != 0: bad.append('%s: %s' % (' '.join(g)[:200], out.strip()[-300:]))
    return not bad, {'modules': len(mods), 'seconds': round(time.time() - t0, 1), 'failures': bad}

FORBIDDEN = re.compile(r'\b(sorry|admit|native_decide|bv_decide|implemented_by|unsafe)\b|^\s*axiom\s|maxHeartbeats\s+0\b', re.M)

def grep_forbidden():
    """source-level scan of the Lean project (comments stripped)"""
    hits = []
    for root, _, files in os.walk(os.path.join(LEAN, 'DnsVerif')):
        for fn in files:
            if not fn.endswith('.lean'): continue
            p = os.path.join(root, fn)
            src = open(p).read()
            src = re.sub(r'/-.*?-/', '', src, flags=re.S)
            src = re.sub(r'--[^\n]*', '', src)
            for m in FORBIDDEN.finditer(src):
                hits.append('%s: %s' % (os.path.relpath(p, LEAN), m.group(0).strip()))
    return hits

def cargo_build():
    t0 = time.time()
    lock_src = os.path.join(REPO, 'Cargo.lock')
    r = subprocess.run(['cargo', 'build', '--release', '--offline'], cwd=HARNESS, capture_output=True, text=True, env=ENV)
    return r.returncode == 0, r.stdout + r.stderr, time.time() - t0

def _run_shard(binargs, inp, outp):
    with open(inp, 'rb') as fi, open(outp, 'wb') as fo:
        return subprocess.Popen(binargs, stdin=fi, stdout=fo, stderr=subprocess.DEVNULL, env=ENV)

def run_side(binargs, ops, tag, workdir, nshards=NCPU):
    """run `ops` (list of str) through a line-protocol binary, sharded; returns list of result lines"""
    os.makedirs(workdir, exist_ok=True)
    n = len(ops)
    nshards = max(1, min(nshards, (n + 199) // 200))
    bounds = [n * i // nshards for i in range(nshards + 1)]
    procs = []
    for i in range(nshards):
        inp = os.path.join(workdir, '%s.%d.in' % (tag, i)); outp = os.path.join(workdir, '%s.%d.out' % (tag, i))
        with open(inp, 'w') as f:
            for l in ops[bounds[i]:bounds[i + 1]]:
                f.write(l); f.write('\n')
        procs.append((_run_shard(binargs, inp, outp), inp, outp, bounds[i + 1] - bounds[i]))
    res = []
    crashed = []
    for i, (p, inp, outp, cnt) in enumerate(procs):
        rc = p.wait()
        lines = open(outp).read().split('\n')
        if lines and lines[-1] == '': lines.pop()
        if rc != 0 or len(lines) != cnt:
            # the process died (abort / stack overflow / OOM): the first unanswered op is the culprit
            crashed.append((bounds[i] + len(lines), rc))
            lines = lines[:cnt] + ['crash rc=%s' % rc] * (cnt - len(lines))
        res.extend(lines)
        os.remove(inp); os.remove(outp)
    return res, crashed

def run_both(ops, workdir):
    t0 = time.time()
    rust, rcrash = run_side([HARNESS_BIN, 'run'], ops, 'rust', workdir)
    t1 = time.time()
    lean, lcrash = run_side([DRIVER], ops, 'lean', workdir)
    t2 = time.time()
    return rust, lean, rcrash, lcrash, (t1 - t0, t2 - t1)

def strip_cost(line):
    i = line.rfind(' cost=')
    return (line[:i], int(line[i + 6:])) if i >= 0 and line[i + 6:].isdigit() else (line, None)

def outcome_class(line):
    return line.split(' ', 1)[0]
