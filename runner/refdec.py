"""Strict reference walker over an encoded message (python, independent of both the crate and the
Lean model): checks the layout rules C05/C06/C18 put on EMITTED bytes and returns a layout trace.

It does not build values (the proved Lean decoder does that); it only walks the framing using the
record table, follows pointers, and records where names start and what the pointers target."""
from wire import TABLE, OPT, APL, SVCB, HTTPS

class LayoutError(Exception):
    pass

class Walker:
    def __init__(self, b):
        self.b = b
        self.name_starts = set()     # offsets where a name (or a suffix written in place) starts
        self.names = []              # (offset, ctx, [pointer targets...], hops, wirelen)
        self.problems = []

    def need(self, off, n):
        if off + n > len(self.b):
            raise LayoutError('truncated at %d (+%d)' % (off, n))

    def name(self, off, ctx):
        """walk a name stored at off; returns offset after the stored part"""
        start = off
        ptrs = []
        total = 0
        cur = off
        end = None
        hops = 0
        first = True
        while True:
            self.need(cur, 1)
            l = self.b[cur]
            if l == 0:
                total += 1
                if end is None: end = cur + 1
                break
            if l >= 0xC0:
                self.need(cur, 2)
                tgt = ((l & 0x3F) << 8) | self.b[cur + 1]
                ptrs.append((cur, tgt))
                if end is None: end = cur + 2
                if tgt >= cur:
                    self.problems.append('pointer at %d not backwards (target %d)' % (cur, tgt))
                    raise LayoutError('forward pointer')
                if tgt not in self.name_starts:
                    self.problems.append('pointer at %d targets %d which is not the start of an earlier name/suffix' % (cur, tgt))
                if tgt >= 16384:
                    self.problems.append('pointer target %d >= 16384' % tgt)
                hops += 1
                if hops > 16:
                    self.problems.append('name at %d needs more than 16 hops' % start)
                    raise LayoutError('too many hops')
                cur = tgt
                continue
            if l > 63:
                self.problems.append('label length %d at %d' % (l, cur))
                raise LayoutError('bad label')
            self.need(cur, 1 + l)
            if end is None:
                self.name_starts.add(cur)    # a suffix written in place can be a later pointer target
            total += 1 + l
            cur += 1 + l
        if total > 255:
            self.problems.append('name at %d expands to %d octets' % (start, total))
        self.names.append((start, ctx, ptrs, hops, total))
        return end

    def window(self, off, w, what):
        self.need(off, w)
        n = int.from_bytes(self.b[off:off + w], 'big')
        self.need(off + w, n)
        return off + w, off + w + n

    def rr(self, off):
        off = self.name(off, None)
        self.need(off, 10)
        ty = int.from_bytes(self.b[off:off + 2], 'big')
        s, e = self.window(off + 8, 2, 'rdlen')
        cur = s
        if ty == OPT:
            while cur < e:
                cur, oe = self.window(cur + 2, 2, 'optlen'); cur = oe
        elif ty == APL:
            while cur < e:
                self.need(cur, 4)
                alen = self.b[cur + 3] & 0x7F
                self.need(cur + 4, alen)
                a = self.b[cur + 4:cur + 4 + alen]
                if alen and a[-1] == 0:
                    self.problems.append('APL item at %d has trailing zero octets' % cur)
                cur += 4 + alen
        elif ty in (SVCB, HTTPS):
            prio = int.from_bytes(self.b[cur:cur + 2], 'big')
            cur = self.name(cur + 2, ty)
            last = -1
            while cur < e:
                self.need(cur, 4)
                key = int.from_bytes(self.b[cur:cur + 2], 'big')
                if key <= last:
                    self.problems.append('SvcParam keys not strictly increasing at %d (%d after %d)' % (cur, key, last))
                last = key
                if prio == 0:
                    self.problems.append('alias-form record with parameters at %d' % cur)
                ps, pe = self.window(cur + 2, 2, 'paramlen')
                if key == 0:
                    ks = [int.from_bytes(self.b[i:i + 2], 'big') for i in range(ps, pe, 2)]
                    if ks != sorted(ks):
                        self.problems.append('mandatory keys not sorted at %d' % cur)
                if key == 5:
                    if pe - ps < 2 or int.from_bytes(self.b[ps:ps + 2], 'big') != pe - ps - 2:
                        self.problems.append('ech length prefix wrong at %d' % cur)
                cur = pe
        elif ty in TABLE:
            for fname, kind in TABLE[ty][2]:
                k = kind[0]
                if k in 'ne': cur += int(kind[1])
                elif k == 'x': cur += int(kind[1:])
                elif k == 'd': cur = self.name(cur, ty)
                elif k == 's':
                    self.need(cur, 1); cur += 1 + self.b[cur]
                elif k == 'o':
                    if cur < e:
                        self.need(cur, 1); cur += 1 + self.b[cur]
                elif k == 'L':
                    while cur < e:
                        self.need(cur, 1); cur += 1 + self.b[cur]
                elif k == 'h': cur = e
        else:
            cur = e
        if cur != e:
            self.problems.append('RDATA of type %d at %d: fields end at %d, RDLENGTH says %d' % (ty, s, cur, e))
        return e, ty, s

    def msg(self):
        b = self.b
        if len(b) < 12: raise LayoutError('short')
        if len(b) > 65535: self.problems.append('message of %d octets' % len(b))
        counts = [int.from_bytes(b[4 + 2 * i:6 + 2 * i], 'big') for i in range(4)]
        off = 12
        for _ in range(counts[0]):
            off = self.name(off, None); self.need(off, 4); off += 4
        self.rdatas = []
        for _ in range(counts[1] + counts[2] + counts[3]):
            off, ty, s = self.rr(off)
            self.rdatas.append((ty, s, off))
        if off != len(b):
            self.problems.append('%d octets after the last record' % (len(b) - off))
        return counts

COMPRESSIBLE_RDATA = {2, 3, 4, 5, 6, 7, 8, 9, 12, 14, 15}

def strict_check(b, allow_svcb_target_pointer=True):
    """returns (problems, walker). problems = list of strings (empty = layout fine)"""
    w = Walker(b)
    try:
        w.msg()
    except LayoutError as e:
        w.problems.append('walk failed: %s' % e)
    # C18: pointers inside RDATA names of post-RFC-1035 types
    for start, ctx, ptrs, hops, total in w.names:
        if ctx is not None and ctx not in COMPRESSIBLE_RDATA and ptrs:
            msg = 'compressed name in RDATA of type %d at %d' % (ctx, start)
            if ctx in (SVCB, HTTPS):
                w.svcb_target_pointers = getattr(w, 'svcb_target_pointers', 0) + 1
                if allow_svcb_target_pointer:
                    continue
            w.problems.append(msg)
    return w.problems, w
