import DnsVerif.Driver.Canon
import DnsVerif.Lemmas.SafeRunMsg
import DnsVerif.Lemmas.EncLimDns

/-! Line-protocol driver for the model (see /verif/PROTOCOL.md): one op per stdin line, one result
line per op. Built as `lean_exe driver` (nothing imported here touches Mathlib). -/

open Canon

def withHex (h : String) (f : Bytes → String) : String :=
  match parseHex h with
  | some b => f b
  | none => "bad-op"

/-- `costOnError` is the octet counter at the point of failure: the instrumented function `decodeXC` of
Lemmas/SafeRun*.lean (proved equal to `d.cost` on success and bounded by `304·len + 304` on EVERY run) -/
def decOut {α : Type} (r : Except DErr (α × D)) (p : α → String) (costOnError : Nat) : String :=
  match r with
  | .ok (v, d) => s!"ok {p v} cost={d.cost}"
  | .error e => s!"err {pDErr e} cost={costOnError}"

def encOut (r : Except EErr Bytes) : String :=
  match r with
  | .ok b => s!"ok {hexOf b}"
  | .error e => s!"err {pEErr e}"

def withVal {α : Type} (p : P α) (ts : List String) (f : α → String) : String :=
  match full p ts with
  | .ok v => f v
  | .error .bad => "bad-op"
  | .error .uncon => "unconstructible"

def lowerRData : RData → RData
  | .fields vs => .fields (vs.map fun v => match v with
      | .name n => .name n.lower
      | v => v)
  | .svcb p t ps => .svcb p t.lower (ps.map fun q => match q with
      | .mandatory ks => .mandatory (sortNat ks)
      | q => q)
  | r => r

def lowerRR (r : RR) : RR := { r with name := r.name.lower, rd := lowerRData r.rd }
def lowerMsg (m : Msg) : Msg :=
  { m with qs := m.qs.map (fun q => { q with name := q.name.lower }), an := m.an.map lowerRR,
           ns := m.ns.map lowerRR, ar := m.ar.map lowerRR }

def rtDns (b : Bytes) : String :=
  match decodeDns b with
  | .error _ => "skip"
  | .ok (m, _) =>
    match encodeDns m with
    | .error e =>
      -- C02 only promises success for messages whose UNCOMPRESSED size fits: say when it does not
      s!"encerr {pEErr e}" ++ (if 65535 < EncLim.msgSize m then " oversize" else "")
    | .ok b' =>
      match decodeDns b' with
      | .error e => s!"decerr {(pDErr e).takeWhile (· != ' ')}"
      | .ok (m', _) => if pMsg (lowerMsg m) == pMsg (lowerMsg m') then "same" else "diff"

/-- `mt.dns`: the model is a function, so its single answer is what every thread must produce -/
def mtDns (b : Bytes) : String :=
  match decodeDns b with
  | .error e => s!"det dec=err:{pDErr e} enc=-"
  | .ok (m, _) =>
    match encodeDns m with
    | .error e => s!"det dec=ok enc=err:{pEErr e}"
    | .ok b' => s!"det dec=ok enc=ok:{hexOf b'}"

def errKindShort : DErr → String
  | .addr4Prefix => "Ipv4Prefix" | .addr4Mask => "Ipv4Mask" | .addr6Prefix => "Ipv6Prefix"
  | .addr6Mask => "Ipv6Mask" | .cookieServerLength => "ServerCookieLength"
  | .labelEmpty => "LabelError.Empty" | .labelLength => "LabelError.Length" | .nameLength => "DomainNameLength"
  | e => pDErr e

def famOf (a : Bytes) : Nat := if a.length = 4 then 1 else 2

def pEcs (s : ECS) : String := s!"{famOf s.addr}/{s.src}/{s.scope}/{hexOf s.addr}"
def pCookie (s : Cookie) : String :=
  match s.server with
  | none => s!"{hexOf s.client}/none"
  | some v => s!"{hexOf s.client}/{hexOf v}"

def parseFamAddr (s : String) : Except PErr Bytes :=
  match s.splitOn "/" with
  | [fam, addr] => match parseNum fam, parseHex addr with
    | some fam, some addr => if famAddrOk fam addr then .ok addr else .error .uncon
    | _, _ => .error .bad
  | _ => .error .bad

def numLt (s : String) (bound : Nat) : Except PErr Nat :=
  match parseNum s with
  | none => .error .bad
  | some n => if n < bound then .ok n else .error .uncon

def parseEcsOp (s : String) : Except PErr EcsOp :=
  match stripPrefix s "src:" with
  | some r => (numLt r 256).map .setSrc
  | none => match stripPrefix s "scope:" with
    | some r => (numLt r 256).map .setScope
    | none => match stripPrefix s "addr:" with
      | some r => (parseFamAddr r).map .setAddr
      | none => .error .bad

def parseApOp (s : String) : Except PErr ApOp :=
  match stripPrefix s "prefix:" with
  | some r => (numLt r 256).map .setPrefix
  | none => match stripPrefix s "neg:" with
    | some r => (numLt r 2).map (fun n => .setNeg (n == 1))
    | none => match stripPrefix s "addr:" with
      | some r => (parseFamAddr r).map .setAddr
      | none => .error .bad

def parseServer (s : String) : Except PErr (Option Bytes) :=
  if s == "none" then .ok none else match parseHex s with
    | some b => .ok (some b)
    | none => .error .bad

def parseCookieOp (s : String) : Except PErr CookieOp :=
  match stripPrefix s "server:" with
  | some r => (parseServer r).map .setServer
  | none => match stripPrefix s "client:" with
    | some r => match parseHex r with
      | some b => if b.length = 8 then .ok (.setClient b) else .error .uncon
      | none => .error .bad
    | none => .error .bad

def perr (e : PErr) : String := match e with
  | .bad => "bad-op"
  | .uncon => "unconstructible"

/-- generic history runner: `new=…` then one ` call=…@state` per call -/
def runHistory {S Op : Type} (init : Except DErr S) (ops : List (String × Op)) (step : S → Op → S × Except DErr Unit)
    (show_ : S → String) : String :=
  match init with
  | .error e => s!"new=err:{errKindShort e}"
  | .ok s =>
    let rec go (s : S) (ops : List (String × Op)) (acc : String) : String :=
      match ops with
      | [] => acc
      | (txt, op) :: r =>
        match step s op with
        | (s', .ok ()) => go s' r (acc ++ s!" {txt}=ok@{show_ s'}")
        | (s', .error e) => go s' r (acc ++ s!" {txt}=err:{errKindShort e}@{show_ s'}")
    go s ops s!"new=ok@{show_ s}"

def apiEcs (ts : List String) : String :=
  match ts with
  | [] => "bad-op"
  | first :: calls =>
    match first.splitOn "/" with
    | [fam, src, scope, addr] =>
      match parseNum fam, parseNum src, parseNum scope, parseHex addr with
      | some fam, some src, some scope, some addr =>
        if !(famAddrOk fam addr) ∨ src > 255 ∨ scope > 255 then "unconstructible" else
        match calls.mapM parseEcsOp with
        | .error e => perr e
        | .ok ops => runHistory (ECS.new src scope addr) (calls.zip ops) ECS.step pEcs
      | _, _, _, _ => "bad-op"
    | _ => "bad-op"

def apiApItem (ts : List String) : String :=
  match ts with
  | [] => "bad-op"
  | first :: calls =>
    match first.splitOn "/" with
    | [fam, pfx, neg, addr] =>
      match parseNum fam, parseNum pfx, parseNum neg, parseHex addr with
      | some fam, some pfx, some neg, some addr =>
        if !(famAddrOk fam addr) ∨ pfx > 255 ∨ neg > 1 then "unconstructible" else
        match calls.mapM parseApOp with
        | .error e => perr e
        | .ok ops => runHistory (APItem.new pfx (neg == 1) addr) (calls.zip ops) APItem.step pApItem
      | _, _, _, _ => "bad-op"
    | _ => "bad-op"

def apiCookie (ts : List String) : String :=
  match ts with
  | [] => "bad-op"
  | first :: calls =>
    match first.splitOn "/" with
    | [c, sv] =>
      match parseHex c, parseServer sv with
      | some c, .ok sv =>
        if c.length ≠ 8 then "unconstructible" else
        match calls.mapM parseCookieOp with
        | .error e => perr e
        | .ok ops => runHistory (Cookie.new c sv) (calls.zip ops) Cookie.step pCookie
      | _, _ => "bad-op"
    | _ => "bad-op"

def apiLabel (b : Bytes) : String :=
  if !validUtf8 b then "unconstructible" else
  let r := match parseLabel b with
    | .ok l => s!"ok:{hexOf l}"
    | .error e => s!"err:{match e with | .labelEmpty => "Empty" | _ => "Length"}"
  s!"try_from={r} from_str={r}"

def apiName (toks : List String) : String :=
  match toks.mapM parseHex with
  | none => "bad-op"
  | some ls =>
    if !(ls.all validUtf8) then "unconstructible" else
    let rec go (n : Name) (ls : List Bytes) (acc : String) : String :=
      match ls with
      | [] => acc
      | l :: r =>
        match nameStep n l with
        | (n', .ok ()) => go n' r (acc ++ s!" ok@{pName n'}/{n'.len}")
        | (n', .error e) => go n' r (acc ++ s!" err:{errKindShort e}@{pName n'}/{n'.len}")
    go [] ls "start@./1"

def strOp (b : Bytes) (c : StrCheck) : String :=
  if !validUtf8 b then "unconstructible" else
  match c.run b with
  | .ok s => s!"ok {hexOf s}"
  | .error e => s!"err {pDErr e}"

def textParse (b : Bytes) : String :=
  if !validUtf8 b then "unconstructible" else
  match parseName b with
  | .ok n => s!"ok {pName n}"
  | .error e => s!"err {errKindShort e}"

def enumTable (t : String) : Option (List (String × Nat) × Nat) :=
  match t with
  | "Type" => some (Gen.enumType, 65536) | "Class" => some (Gen.enumClass, 65536)
  | "QType" => some (Gen.enumQType, 65536) | "QClass" => some (Gen.enumQClass, 65536)
  | "Opcode" => some (Gen.enumOpcode, 256) | "RCode" => some (Gen.enumRCode, 256)
  | "EDNSOptionCode" => some (Gen.enumEDNSOptionCode, 65536)
  | "AlgorithmType" => some (Gen.enumAlgorithmType, 256) | "DigestType" => some (Gen.enumDigestType, 256)
  | "SSHFPAlgorithm" => some (Gen.enumSSHFPAlgorithm, 256) | "SSHFPType" => some (Gen.enumSSHFPType, 256)
  | "AFSDBSubtype" => some (Gen.enumAFSDBSubtype, 65536)
  | "AddressFamilyNumber" => some (Gen.enumAddressFamilyNumber, 65536)
  | _ => none

def codeOp (ts : List String) (known : Nat → Bool) : String :=
  match ts with
  | [n] => match parseNum n with
    | some n => if known n then s!"ok {hexOf (encodeCode n)}" else "unconstructible"
    | none => "bad-op"
  | _ => "bad-op"

def handle (line : String) : String :=
  match line.trimAscii.toString.splitOn " " with
  | ["dec.dns", h] => withHex h fun b => decOut (decodeDns b) pMsg (Safe.decodeDnsC b)
  | ["dec.flags", h] => withHex h fun b => decOut (decodeFlags b) pFlags (Safe.decodeFlagsC b)
  | ["dec.question", h] => withHex h fun b => decOut (decodeQuestion b) pQuestion (Safe.decodeQuestionC b)
  | ["dec.rr", h] => withHex h fun b => decOut (decodeRR b) pRR (Safe.decodeRRC b)
  | ["dec.name", h] => withHex h fun b => decOut (decodeName b) pName (Safe.decodeNameC b)
  | ["dec.type", h] => withHex h fun b => decOut (decodeType b) toString (Safe.decodeTypeC b)
  | ["dec.class", h] => withHex h fun b => decOut (decodeClass b) toString (Safe.decodeClassC b)
  | ["dec.qtype", h] => withHex h fun b => decOut (decodeQType b) toString (Safe.decodeQTypeC b)
  | ["dec.qclass", h] => withHex h fun b => decOut (decodeQClass b) toString (Safe.decodeQClassC b)
  | "enc.dns" :: ts => withVal parseMsg ts fun m => encOut (encodeDns m)
  | "enc.rr" :: ts => withVal parseRR ts fun r => encOut (encodeRR r)
  | "enc.struct" :: ts => withVal parseRR ts fun r => encOut (encodeRR r)
  | "enc.question" :: ts => withVal parseQuestion ts fun q => encOut (encodeQuestion q)
  | "enc.flags" :: ts => withVal parseFlags ts fun f => s!"ok {hexOf (encodeFlags f)}"
  | "enc.name" :: ts => withVal nameTok ts fun n => encOut (encodeName n)
  | "enc.type" :: ts => codeOp ts typeKnown
  | "enc.class" :: ts => codeOp ts classKnown
  | "enc.qtype" :: ts => codeOp ts qtypeKnown
  | "enc.qclass" :: ts => codeOp ts qclassKnown
  | "api.ecs" :: ts => apiEcs ts
  | "api.apitem" :: ts => apiApItem ts
  | "api.cookie" :: ts => apiCookie ts
  | ["api.label", h] => withHex h apiLabel
  | "api.name" :: ts => apiName ts
  | ["api.nev", n] => match parseNum n with
    | some n => match NEV.new (List.replicate n (0 : Nat)) with
      | .ok v => s!"ok {v.toList.length}"
      | .error _ => "err"
    | none => "bad-op"
  | ["api.tag", h] => withHex h fun b => strOp b .tag
  | ["api.psdn", h] => withHex h fun b => strOp b .psdn
  | ["api.isdn", h] => withHex h fun b => strOp b .isdn
  | ["api.sa", h] => withHex h fun b => strOp b .sa
  | ["text.parse", h] => withHex h textParse
  | ["text.display", n] => match parseNameStr n with
    | .ok n => s!"ok {hexOf (display n)} len={n.len}"
    | .error e => perr e
  | ["text.eq", a, b] => match parseNameStr a, parseNameStr b with
    | .ok a, .ok b => s!"eq={pBool (ciEq a b)} hasheq={pBool (ciEq a b)}"
    | .error e, _ => perr e
    | _, .error e => perr e
  | ["enum", t, n] => match enumTable t, parseNum n with
    | some (tbl, bound), some n =>
      if n ≥ bound then s!"err {n}" else
      match tbl.find? (fun p => p.2 == n) with
      | some (name, v) => s!"ok {name} {v}"
      | none => s!"err {n}"
    | _, _ => "bad-op"
  | ["rt.dns", h] => withHex h rtDns
  | ["mt.dns", _, _, h] => withHex h mtDns
  | _ => "bad-op"

partial def loop (h : IO.FS.Stream) (out : IO.FS.Stream) : IO Unit := do
  let line ← h.getLine
  if line.isEmpty then return ()
  out.putStrLn (handle line)
  loop h out

def main : IO Unit := do
  let stdin ← IO.getStdin
  let stdout ← IO.getStdout
  loop stdin stdout
