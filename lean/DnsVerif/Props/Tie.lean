import DnsVerif.Generated.Consts

/-! # Tie: the constants the model hard-codes equal the regenerated ones

`Generated/Consts.lean` is rewritten from `/repo/src` by `tools/extract_consts.py` on every run. The
model (`Model/*.lean`) writes the same numbers as literals. One theorem per constant, so that a
changed constant in the Rust source breaks exactly one named obligation here (and the model has to
be revisited at the place named in the comment). -/

namespace Tie

/-! ## Domain names (`nameRec`: `seen.length + 1 > 16`; `appendLabel`: `255 ≤ …`; `checkLabel`: `< 64`) -/

theorem DOMAIN_NAME_MAX_RECURSION : Gen.domain_name__DOMAIN_NAME_MAX_RECURSION = 16 := by decide
theorem DOMAIN_NAME_MAX_LENGTH : Gen.domain_name__DOMAIN_NAME_MAX_LENGTH = 255 := by decide
theorem LABEL_MAX_LENGTH : Gen.label__LABEL_MAX_LENGTH = 64 := by decide

/-! ## Message size (`decMsg`: `65536 < d.lim`) -/

theorem MAXIMUM_DNS_PACKET_SIZE : Gen.lib__MAXIMUM_DNS_PACKET_SIZE = 65536 := by decide

/-! ## Compression pointers (`encNameGo`: `0x3FFF`; `ptrBytes`: `192 + off / 256`; `isPtr`, `ptrOff`) -/

theorem encode_MAX_OFFSET : Gen.encode_domain_name__MAX_OFFSET = 16383 := by decide
theorem encode_COMPRESSION_BITS : Gen.encode_domain_name__COMPRESSION_BITS = 49152 := by decide
theorem decode_COMPRESSION_BITS : Gen.decode_domain_name__COMPRESSION_BITS = 192 := by decide
theorem decode_COMPRESSION_BITS_REV : Gen.decode_domain_name__COMPRESSION_BITS_REV = 63 := by decide

/-! ## EDNS cookie lengths (`decCookie`: `= 8`, `16 ≤ … ≤ 40`; `cookieNew`: `8 ≤ … ≤ 32`) -/

theorem CLIENT_COOKIE_LENGTH : Gen.rr_edns_rfc_7873__CLIENT_COOKIE_LENGTH = 8 := by decide
theorem MINIMUM_SERVER_COOKIE_LENGTH : Gen.rr_edns_rfc_7873__MINIMUM_SERVER_COOKIE_LENGTH = 8 := by decide
theorem MAXIMUM_SERVER_COOKIE_LENGTH : Gen.rr_edns_rfc_7873__MAXIMUM_SERVER_COOKIE_LENGTH = 32 := by decide
theorem MINIMUM_COOKIE_LENGTH : Gen.decode_rr_edns_rfc_7873__MINIMUM_COOKIE_LENGTH = 16 := by decide
theorem MAXIMUM_COOKIE_LENGTH : Gen.decode_rr_edns_rfc_7873__MAXIMUM_COOKIE_LENGTH = 40 := by decide

/-- the decoder's bounds are the sums of the client and server cookie bounds -/
theorem cookie_lengths_consistent :
    Gen.decode_rr_edns_rfc_7873__MINIMUM_COOKIE_LENGTH =
      Gen.rr_edns_rfc_7873__CLIENT_COOKIE_LENGTH + Gen.rr_edns_rfc_7873__MINIMUM_SERVER_COOKIE_LENGTH ∧
    Gen.decode_rr_edns_rfc_7873__MAXIMUM_COOKIE_LENGTH =
      Gen.rr_edns_rfc_7873__CLIENT_COOKIE_LENGTH + Gen.rr_edns_rfc_7873__MAXIMUM_SERVER_COOKIE_LENGTH := by
  decide

/-! ## APL (`decApItem`: `b &&& 128`, `b &&& 127`; `setAddrLen`: `len ||| 128`, `len ≥ 128`) -/

theorem APL_NEGATION_MASK : Gen.rr_rfc_3123__APL_NEGATION_MASK = 128 := by decide
theorem ADDRESS_LENGTH_MASK : Gen.decode_rr_rfc_3123__ADDRESS_LENGTH_MASK = 127 := by decide

/-! ## OPT (`optTtl`: `0x80`; `optTtlWord`: `0x80 <<< 8`) -/

theorem EDNS_DNSSEC_MASK : Gen.rr_edns_rfc_6891__EDNS_DNSSEC_MASK = 128 := by decide

/-! ## DNSKEY (`EnumId.valid .dnskeyFlags`: `n &&& 0xFEFE == 0`) -/

theorem ZONE_KEY_FLAG : Gen.rr_rfc_4034__ZONE_KEY_FLAG = 256 := by decide
theorem SECURE_ENTRY_POINT_FLAG : Gen.rr_rfc_4034__SECURE_ENTRY_POINT_FLAG = 1 := by decide
theorem DNSKEY_ZERO_MASK : Gen.rr_rfc_4034__DNSKEY_ZERO_MASK = 65278 := by decide

/-- the zero mask is the complement of the two defined flag bits in sixteen bits, and is the
`0xFEFE` of the model -/
theorem DNSKEY_masks_consistent :
    Gen.rr_rfc_4034__DNSKEY_ZERO_MASK = 0xFEFE ∧
    Gen.rr_rfc_4034__DNSKEY_ZERO_MASK =
      65535 - (Gen.rr_rfc_4034__ZONE_KEY_FLAG + Gen.rr_rfc_4034__SECURE_ENTRY_POINT_FLAG) := by decide

/-! ## `rr/subtypes.rs` (address prefix mask `0xFF >>> (p % 8)` of `checkPrefix`) -/

theorem subtypes_MASK : Gen.rr_subtypes__MASK = 255 := by decide

/-! ## Literal masks and shifts of `Decoder::flags` / `Encoder::flags` (`decFlags`, `flagsBytes`) -/

theorem decFlagsLits : Gen.decFlagsLits = [128, 120, 3, 4, 2, 1, 128, 64, 32, 16, 15] := by decide
theorem encFlagsLits : Gen.encFlagsLits = [128, 3, 4, 2, 1, 128, 32, 16] := by decide

end Tie
