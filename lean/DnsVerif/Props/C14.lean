import DnsVerif.Lemmas.Order

/-! # C14 — encoding and decoding are deterministic pure functions (the part that is logic)

The model is a function, so "same input ⇒ same output" holds of it by construction. The logical content
of the property is independence from the per-instance hash seeds: `merge_domain_name_index` iterates a
randomly-seeded `HashMap`; the model's `Enc.merge` takes the local index as a list in SOME order.
These theorems show that any other iteration order (any permutation, a different one at every call)
leads to an encoder state that no later operation can distinguish (`Enc.LookupEq`: same output bytes,
same lookup function), for all names and all encoder states. Thread schedules are runtime behaviour the
model cannot exhibit: they are exercised by the `mt.dns` correspondence stream (1/2/16 threads sharing
the input buffer and the decoded value; every result must equal the model's single answer) — partial. -/

namespace C14

/-- the keys of the local index built for one name are pairwise different as names -/
theorem local_keys_distinct {e e' : Enc} {n : Name} {loc : List (Name × Nat)} {r : Nat}
    (h : encNamePre e n [] = .ok (e', loc, r)) : KeysDistinct loc := (_root_.local_keys_distinct h).1

/-- merging the local index in any order gives the same lookup function -/
theorem merge_order_irrelevant (e : Enc) (loc1 loc2 : List (Name × Nat)) (r : Nat)
    (hp : loc1.Perm loc2) (hdist : KeysDistinct loc1) {e1 e2 : Enc}
    (h1 : e.merge loc1 r = .ok e1) (h2 : e.merge loc2 r = .ok e2) (k : Name) : e1.lookup k = e2.lookup k :=
  _root_.merge_order_irrelevant e loc1 loc2 r hp hdist h1 h2 k

/-- writing a name with ANY iteration order `σ` of the local map, from states that are already only
lookup-equivalent, gives lookup-equivalent states and the same bytes (or the same error): composes over
whole histories -/
theorem encName_order_irrelevant (σ : List (Name × Nat) → List (Name × Nat)) (hσ : ∀ l, (σ l).Perm l)
    {e1 e2 : Enc} (heq : Enc.LookupEq e1 e2) (n : Name) :
    ExceptRel Enc.LookupEq (encNameWith σ e1 n) (encName e2 n) := _root_.encName_order_irrelevant σ hσ heq n

/-- `encNameWith id` is the model's encoder -/
theorem encNameWith_id (e : Enc) (n : Name) : encNameWith id e n = encName e n := _root_.encNameWith_id e n

example : Enc.LookupEq {} {} := Enc.LookupEq.refl {}

end C14
