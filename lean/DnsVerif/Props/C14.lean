import DnsVerif.Lemmas.Order
import DnsVerif.Lemmas.OrderMsg

/-! # C14 — encoding and decoding are deterministic pure functions (the part that is logic)

The model is a function, so "same input ⇒ same output" holds of it by construction. The logical content
of the property is independence from the per-instance hash seeds: `merge_domain_name_index` iterates a
randomly-seeded `HashMap`; the model's `Enc.merge` takes the local index as a list in SOME order.
These theorems show that any other iteration order (any permutation, a different one at every call)
leads to an encoder state that no later operation can distinguish (`Enc.LookupEq`: same output bytes,
same lookup function), for all names and all encoder states. Thread schedules are runtime behaviour the
model cannot exhibit: they are exercised by the `mt.dns` correspondence stream (1/2/16 threads sharing
the input buffer and the decoded value; every result must equal the model's single answer) — partial.

The one-name theorem is lifted to the entry points (`Lemmas/OrderMsg.lean`): `encodeDnsWith σ`,
`encodeRRWith σ`, `encodeQuestionWith σ`, `encodeNameWith σ` are the model's encoders with EVERY call of the
compressing name writer replaced by `encNameWith (σ pos)`, `pos` = the output position of that name (so each
name write of a message may use its own iteration order); `encodeDns_order_irrelevant` & co. state that the
produced octets (or the error) do not depend on `σ`. -/

namespace C14

/-- the keys of the local index built for one name are pairwise different as names -/
theorem local_keys_distinct {e e' : Enc} {n : Name} {loc : List (Name × Nat)} {r : Nat}
    (h : encNamePre e n [] = .ok (e', loc, r)) : KeysDistinct loc := (_root_.local_keys_distinct h).1

/-- merging the local index in any order gives the same lookup function -/
theorem merge_order_irrelevant (e : Enc) (loc1 loc2 : List (Name × Nat)) (r : Nat)
    (hp : loc1.Perm loc2) (hdist : KeysDistinct loc1) {e1 e2 : Enc}
    (h1 : e.merge loc1 r = .ok e1) (h2 : e.merge loc2 r = .ok e2) (k : Name) : e1.lookup k = e2.lookup k :=
  _root_.merge_order_irrelevant e loc1 loc2 r hp hdist h1 h2 k

/-- writing a name with ANY iteration order `σ` of the local map, from states that are already only
lookup-equivalent, gives lookup-equivalent states and the same bytes (or the same error): composes over
whole histories -/
theorem encName_order_irrelevant (σ : List (Name × Nat) → List (Name × Nat)) (hσ : ∀ l, (σ l).Perm l)
    {e1 e2 : Enc} (heq : Enc.LookupEq e1 e2) (n : Name) :
    ExceptRel Enc.LookupEq (encNameWith σ e1 n) (encName e2 n) := _root_.encName_order_irrelevant σ hσ heq n

/-- `encNameWith id` is the model's encoder -/
theorem encNameWith_id (e : Enc) (n : Name) : encNameWith id e n = encName e n := _root_.encNameWith_id e n

example : Enc.LookupEq {} {} := Enc.LookupEq.refl {}

/-! ## Whole messages, records, questions, names -/

open OrderMsg in
/-- `Message::encode`: the octets (or the error) are the same for every family `σ` of iteration orders of
the local `HashMap`s (one order per output position, i.e. per name write) -/
theorem encodeDns_order_irrelevant (σ : Orders) (hσ : σ.Perm) (m : Msg) :
    encodeDnsWith σ m = encodeDns m := encodeDnsWith_eq σ hσ m

open OrderMsg in
/-- any two families of iteration orders give the same result -/
theorem encodeDns_order_irrelevant₂ (σ τ : Orders) (hσ : σ.Perm) (hτ : τ.Perm) (m : Msg) :
    encodeDnsWith σ m = encodeDnsWith τ m := by
  rw [encodeDnsWith_eq σ hσ, encodeDnsWith_eq τ hτ]

/-- one order `σ` for all name writes -/
theorem encodeDns_order_irrelevant_const (σ : List (Name × Nat) → List (Name × Nat))
    (hσ : ∀ l, (σ l).Perm l) (m : Msg) : OrderMsg.encodeDnsWith (fun _ => σ) m = encodeDns m :=
  OrderMsg.encodeDnsWith_const_eq σ hσ m

open OrderMsg in
/-- `RR::encode` -/
theorem encodeRR_order_irrelevant (σ : Orders) (hσ : σ.Perm) (rr : RR) :
    encodeRRWith σ rr = encodeRR rr := encodeRRWith_eq σ hσ rr

open OrderMsg in
/-- `Question::encode` -/
theorem encodeQuestion_order_irrelevant (σ : Orders) (hσ : σ.Perm) (q : Question) :
    encodeQuestionWith σ q = encodeQuestion q := encodeQuestionWith_eq σ hσ q

open OrderMsg in
/-- `DomainName::encode` -/
theorem encodeName_order_irrelevant (σ : Orders) (hσ : σ.Perm) (n : Name) :
    encodeNameWith σ n = encodeName n := encodeNameWith_eq σ hσ n

open OrderMsg in
/-- the state-level statement behind all of these: from lookup-equivalent encoder states, the message writer
with permuted merges and the model's message writer end in lookup-equivalent states (or the same error) -/
theorem encMsg_order_irrelevant (σ : Orders) (hσ : σ.Perm) {e1 e2 : Enc} (heq : Enc.LookupEq e1 e2)
    (m : Msg) : ExceptRel Enc.LookupEq (encMsgWith σ e1 m) (encMsg e2 m) := encMsgWith_rel hσ heq m

/-! ### Non-vacuity

A response with one question and two answers whose names share the suffixes `a.c` and `c`
(`www.a.c CNAME h.a.c`, `h.a.c NS n.a.c`); the iteration order is reversed at even output positions and
kept at odd ones. The order really differs (the final tables are different lists) and the octets are the
model's. -/

/-- reverse at even positions, keep at odd positions -/
def exOrders : OrderMsg.Orders := fun pos l => if pos % 2 = 0 then l.reverse else l

theorem exOrders_perm : exOrders.Perm := by
  intro pos l
  unfold exOrders
  split
  · exact List.reverse_perm l
  · exact List.Perm.refl l

def exMsg : Msg :=
  ⟨7, ⟨true, 0, true, false, true, true, false, false, 0⟩,
    [⟨[[119, 119, 119], [97], [99]], 5, 1⟩],
    [⟨[[119, 119, 119], [97], [99]], 5, 1, 60, .fields [.name [[104], [97], [99]]]⟩,
     ⟨[[104], [97], [99]], 2, 1, 60, .fields [.name [[110], [97], [99]]]⟩], [], []⟩

set_option maxRecDepth 16384 in
example :
    OrderMsg.encodeDnsWith exOrders exMsg = .ok
      [0, 7, 133, 128, 0, 1, 0, 2, 0, 0, 0, 0, 3, 119, 119, 119, 1, 97, 1, 99, 0, 0, 5, 0, 1, 192, 12, 0, 5,
       0, 1, 0, 0, 0, 60, 0, 4, 1, 104, 192, 16, 192, 37, 0, 2, 0, 1, 0, 0, 0, 60, 0, 4, 1, 110, 192, 16] ∧
    encodeDns exMsg = OrderMsg.encodeDnsWith exOrders exMsg ∧
    -- the tables at the end are different lists (the order was really permuted) …
    (OrderMsg.encMsgWith exOrders {} exMsg).toOption.map (·.idx) = some
      [([[110], [97], [99]], 53, 1), ([[104], [97], [99]], 37, 1),
       ([[119, 119, 119], [97], [99]], 12, 0), ([[97], [99]], 16, 0), ([[99]], 18, 0)] ∧
    (encMsg {} exMsg).toOption.map (·.idx) = some
      [([[110], [97], [99]], 53, 1), ([[104], [97], [99]], 37, 1),
       ([[99]], 18, 0), ([[97], [99]], 16, 0), ([[119, 119, 119], [97], [99]], 12, 0)] :=
  ⟨rfl, rfl, rfl, rfl⟩

/-- the theorem applies to the example -/
example : OrderMsg.encodeDnsWith exOrders exMsg = encodeDns exMsg :=
  encodeDns_order_irrelevant exOrders exOrders_perm exMsg

/-- a single reversing order for all name writes -/
example : OrderMsg.encodeDnsWith (fun _ => List.reverse) exMsg = encodeDns exMsg :=
  encodeDns_order_irrelevant_const List.reverse List.reverse_perm exMsg

end C14
