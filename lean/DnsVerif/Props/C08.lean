import DnsVerif.Lemmas.EncName
import DnsVerif.Props.C11
import DnsVerif.Lemmas.EncLimMsg
import DnsVerif.Lemmas.ExtraA
import DnsVerif.Lemmas.ApiOk
import DnsVerif.Lemmas.ApiOkConv

/-! # C08 — encode reports an error instead of emitting an out-of-range message

Part 1: the name writers (every state, every name): no panic, only `Length`/`String` errors, exact
causes. Part 2: for ALL values of the model's value types whose constructor shape matches the record
table (`Shaped` — decidable, and the only premise: the Rust types make other shapes impossible; NO
well-formedness premise, so oversized strings, RDATA, options, sections and messages are included):
no panic, the exact error kinds with their causes, every wire limit on success, and errors for every
unrepresentable class the property lists. `EncLim.msgSize` is the uncompressed wire size.
Known findings (recorded, not repaired; each with a kernel-checked witness below): K3 (extended rcode
corrupts CD), K4a (PRIVATE with a registered key), K4b (alias form drops parameters), K4c (GPOS with an
empty string): values that encode `Ok` but do not decode to the same value — for exactly these classes the
clause "never a message that decodes to something else or not at all" does NOT hold of the code. -/

namespace C08

theorem name_no_panic (e : Enc) (n : Name) (s : String) : encName e n ≠ .error (.panic s) := encName_ne_panic e n s
theorem name_no_maxRecursion (e : Enc) (n : Name) : encName e n ≠ .error .maxRecursion := encName_ne_maxRecursion e n

/-- from any state satisfying the table invariant the only error is `Length`, and only when a label would
start beyond offset 65,535 -/
theorem name_error_is_length {S : Nat → Prop} {e : Enc} {n : Name} {err : EErr} (hinv : EInv S e) (hwf : wfName n)
    (h : encName e n = .error err) :
    err = .length ∧ ∃ pre l post, n = pre ++ l :: post ∧ 65535 < e.out.length + Name.sz pre := encName_error hinv hwf h

theorem nameU_error_is_length {e : Enc} {n : Name} {err : EErr} (hwf : wfName n) (h : encNameU e n = .error err) :
    err = .length ∧ ∃ pre l post, n = pre ++ l :: post ∧ 65535 < e.out.length + Name.sz pre := encNameU_error hwf h

/-- known finding K3 (recorded, not repaired): an extended rcode corrupts the CD bit -/
theorem K3_witness (f : Flags) (hop : opcodeKnown f.opcode = true) (hrc : f.rcode = 16) :
    decodeFlags (encodeFlags f) = .ok ({ f with cd := true, rcode := 0 }, C11.consumed2 (encodeFlags f)) := C11.flags_K3 f hop hrc

/-! ## All values -/

/-- encode never panics: names, questions, records, messages, from every encoder state -/
theorem encode_no_panic (s : String) : EncLim.Never (.panic s) := EncLim.encode_no_panic s
/-- `NotEnoughBytes` and `MaxRecursion` are unreachable -/
theorem encode_ne_notEnoughBytes : EncLim.Never .notEnoughBytes := EncLim.encode_ne_notEnoughBytes
theorem encode_ne_maxRecursion : EncLim.Never .maxRecursion := EncLim.encode_ne_maxRecursion

/-- the only errors of `Dns::encode`, with their causes -/
theorem encode_error_kinds {m : Msg} {err : EErr} (hs : EncLim.ShapedMsg m) (h : encodeDns m = .error err) :
    (err = .string ∧ ∃ s ∈ EncLim.msgStrs m, 255 < s.length) ∨
    (err = .aplAddressLength ∧ ∃ it ∈ EncLim.msgAplItems m,
      128 ≤ (stripZeros it.addr).length ∧ (stripZeros it.addr).length ≤ 255 ∧ 128 ≤ it.addr.length) ∨
    (err = .length ∧ (EncLim.CountOver m ∨ (∃ it ∈ EncLim.msgAplItems m, 255 < (stripZeros it.addr).length) ∨
      65535 < EncLim.msgSize m)) := EncLim.encode_error_kinds hs h

/-- conversely a value within the limits always encodes -/
theorem encode_total {m : Msg} (hs : EncLim.ShapedMsg m) (hstr : ∀ s ∈ EncLim.msgStrs m, s.length ≤ 255)
    (hapl : ∀ it ∈ EncLim.msgAplItems m, (stripZeros it.addr).length ≤ 127) (hcnt : ¬ EncLim.CountOver m)
    (hsz : EncLim.msgSize m ≤ 65535) : ∃ b, encodeDns m = .ok b := EncLim.encode_total hs hstr hapl hcnt hsz

/-- on success: at most 65,535 octets and the four counts are exactly the section sizes (not wrapped) -/
theorem encode_limits_header {m : Msg} {b : Bytes} (hs : EncLim.ShapedMsg m) (h : encodeDns m = .ok b) :
    b.length ≤ 65535 ∧
    (∃ rest, b = beBytes 2 m.id ++ flagsBytes m.flags ++ beBytes 2 m.qs.length ++
      beBytes 2 m.an.length ++ beBytes 2 m.ns.length ++ beBytes 2 m.ar.length ++ rest) ∧
    (m.qs.length ≤ 65535 ∧ m.an.length ≤ 65535 ∧ m.ns.length ≤ 65535 ∧ m.ar.length ≤ 65535) := by
  obtain ⟨h1, h2, h3, _⟩ := EncLim.encode_limits hs h
  exact ⟨h1, h2, h3⟩

/-- on success, the rest of `EncLim.encode_limits`: the two count octets read back as the section sizes;
EVERY record of the message occupies a segment `name ++ TYPE/CLASS/TTL ++ RDLENGTH ++ body` of the output
in which RDLENGTH holds the TRUE body length, which is at most 65,535 (not wrapped, not truncated), its
owner was written as literal labels (each ≤ 255) plus root octet or ONE pointer with target ≤ 0x3FFF, every
length-checked string of it (character-strings, uncompressed labels, `alpn` ids) has at most 255 octets,
every APL address part fewer than 128 octets, every SvcParam value at most 65,535 octets, every EDNS option
with its four header octets at most 65,535; every question occupies `name ++ QTYPE ++ QCLASS` -/
theorem encode_limits_records {m : Msg} {b : Bytes} (hs : EncLim.ShapedMsg m) (h : encodeDns m = .ok b) :
    (beVal (beBytes 2 m.qs.length) = m.qs.length ∧ beVal (beBytes 2 m.an.length) = m.an.length ∧
      beVal (beBytes 2 m.ns.length) = m.ns.length ∧ beVal (beBytes 2 m.ar.length) = m.ar.length) ∧
    (∀ rr ∈ EncLim.msgRRs m, ∃ pre nm body post,
      b = pre ++ nm ++ EncLim.rrFixed rr ++ beBytes 2 body.length ++ body ++ post ∧
      body.length ≤ 65535 ∧ beVal (beBytes 2 body.length) = body.length ∧
      EncLim.NameWritten nm (EncLim.rrOwner rr) ∧
      (∀ s ∈ EncLim.rdataChecked rr, s.length ≤ 255) ∧
      (∀ it ∈ EncLim.rrAplItems rr, (stripZeros it.addr).length < 128) ∧
      (∀ p ∈ EncLim.rrSvcParams rr, (EncLim.svcBody p).length ≤ 65535) ∧
      (∀ o ∈ EncLim.rrOptions rr, (EncLim.optionBody o).length + 4 ≤ 65535)) ∧
    (∀ q ∈ m.qs, ∃ pre nm post,
      b = pre ++ nm ++ beBytes 2 q.qtype ++ beBytes 2 q.qclass ++ post ∧ EncLim.NameWritten nm q.name) :=
  (EncLim.encode_limits hs h).2.2.2

/-- the same for one record encoded on its own (`RR::encode`) -/
theorem encodeRR_limits {rr : RR} {b : Bytes} (hs : EncLim.Shaped rr) (h : encodeRR rr = .ok b) :
    ∃ nm body, b = nm ++ EncLim.rrFixed rr ++ beBytes 2 body.length ++ body ∧
      body.length ≤ 65535 ∧ beVal (beBytes 2 body.length) = body.length ∧
      EncLim.NameWritten nm (EncLim.rrOwner rr) ∧
      (∀ s ∈ EncLim.rdataChecked rr, s.length ≤ 255) ∧
      (∀ it ∈ EncLim.rrAplItems rr, (stripZeros it.addr).length < 128) ∧
      (∀ p ∈ EncLim.rrSvcParams rr, (EncLim.svcBody p).length ≤ 65535) ∧
      (∀ o ∈ EncLim.rrOptions rr, (EncLim.optionBody o).length + 4 ≤ 65535) := EncLim.encodeRR_limits hs h

/-- a section of more than 65,535 entries is refused before anything of it is written -/
theorem unrepresentable_section {m : Msg} (h : EncLim.CountOver m) : encodeDns m = .error .length :=
  EncLim.unrepresentable_err_section' h

/-- a character-string of more than 255 octets anywhere in a record's checked RDATA is refused -/
theorem unrepresentable_string {m : Msg} (hs : EncLim.ShapedMsg m)
    (h : ∃ rr ∈ EncLim.msgRRs m, ∃ s ∈ EncLim.rdataChecked rr, 255 < s.length) : ∃ err, encodeDns m = .error err :=
  EncLim.unrepresentable_err_string hs h

/-- assumed: a shaped message containing an OPT record with an EDNS option (any kind, padding included)
whose data plus its four header octets exceeds 65,535 octets; then `Dns::encode` fails -/
theorem unrepresentable_option {m : Msg} (hs : EncLim.ShapedMsg m)
    (h : ∃ rr ∈ EncLim.msgRRs m, ∃ o ∈ EncLim.rrOptions rr, 65535 < (EncLim.optionBody o).length + 4) :
    ∃ err, encodeDns m = .error err := EncLim.unrepresentable_err_option hs h

/-- assumed: a shaped message containing a ServiceMode SVCB / HTTPS record with a parameter whose value
(`EncLim.svcBody`, e.g. an `ech` of more than 65,533 octets) exceeds 65,535 octets; then `Dns::encode` fails -/
theorem unrepresentable_svcparam {m : Msg} (hs : EncLim.ShapedMsg m)
    (h : ∃ rr ∈ EncLim.msgRRs m, ∃ p ∈ EncLim.rrSvcParams rr, 65535 < (EncLim.svcBody p).length) :
    ∃ err, encodeDns m = .error err := EncLim.unrepresentable_err_svcparam hs h

/-- assumed: a shaped message containing an APL item whose address, cut after its last non-zero octet, still
has 128 or more octets (AFDLENGTH has 7 bits); then `Dns::encode` fails -/
theorem unrepresentable_apl_item {m : Msg} (hs : EncLim.ShapedMsg m)
    (h : ∃ it ∈ EncLim.msgAplItems m, 128 ≤ (stripZeros it.addr).length) : ∃ err, encodeDns m = .error err :=
  EncLim.unrepresentable_err_apl hs h

/-- the exact error kinds of the ITEM writers, from every encoder state and with no premise on the value:
a string over 255 octets ⇒ `String`; a non-padding option with data over 65,535 ⇒ `Length`; an APL address
part over 255 ⇒ `Length`, of 128..=255 ⇒ `APLAddressLength`; a SvcParam with an `alpn` id over 255 ⇒
`String`, otherwise a value over 65,535 ⇒ `Length` (in particular `ech`) -/
theorem unrepresentable_items (e : Enc) :
    (∀ s : Bytes, 255 < s.length → e.cstr s = .error .string) ∧
    (∀ o, EncLim.isPadding o = false → 65535 < (EncLim.optionBody o).length → encOption e o = .error .length) ∧
    (∀ it : APItem, 255 < (stripZeros it.addr).length → encApItem e it = .error .length) ∧
    (∀ it : APItem, 128 ≤ (stripZeros it.addr).length → (stripZeros it.addr).length ≤ 255 →
      encApItem e it = .error .aplAddressLength) ∧
    (∀ p, (∃ s ∈ EncLim.svcStrs p, 255 < s.length) → encSvcParam e p = .error .string) ∧
    (∀ p, (¬ ∃ s ∈ EncLim.svcStrs p, 255 < s.length) → 65535 < (EncLim.svcBody p).length →
      encSvcParam e p = .error .length) ∧
    (∀ b : Bytes, 65535 < b.length → encSvcParam e (.ech b) = .error .length) := EncLim.unrepresentable_err_items e

/-- STATED ON AN INTERMEDIATE ENCODER STATE (the size of a message depends on name compression, so it is
not a function of the value alone): assumed is that, after the 12 header octets, the sections of `m` are
written successfully (`EncLim.msgBody`, reaching state `e'`) and the output then has more than 65,535 octets;
then `Encoder::dns` fails with `Length`. Value-level consequences: `encode_limits_header` (`Ok` ⇒ at most
65,535 octets) and `encode_total` (uncompressed size ≤ 65,535 and the other limits ⇒ `Ok`). -/
theorem unrepresentable_message (e : Enc) {m : Msg} {e' : Enc}
    (hb : EncLim.msgBody m (e.put (EncLim.msgHeader m)) = .ok e') (h : 65535 < e'.out.length) :
    encMsg e m = .error .length := EncLim.unrepresentable_err_message e hb h

/-- STATED ON INTERMEDIATE ENCODER STATES (RDATA may contain compressed names, so its length is not a
function of the value alone): assumed is that the owner name is written successfully from `e` (reaching
`e1`), then the RDATA writer succeeds after TYPE/CLASS/TTL and the two RDLENGTH placeholder octets (reaching
`e2`), and more than 65,535 octets were appended after the placeholder; then `Encoder::rr` fails with
`Length` — it never emits a wrapped or truncated RDLENGTH. -/
theorem unrepresentable_rdata {e e1 e2 : Enc} {rr : RR} (hs : EncLim.Shaped rr)
    (h1 : encName e (EncLim.rrOwner rr) = .ok e1)
    (h2 : EncLim.rrBody rr ((e1.put (EncLim.rrFixed rr)).put [0, 0]) = .ok e2)
    (hlen : 65535 < e2.out.length - ((e1.put (EncLim.rrFixed rr)).put [0, 0]).out.length) :
    encRR e rr = .error .length := EncLim.encRR_window_too_long hs h1 h2 hlen

/-- value level, OPT: assumed is only that the record is an OPT record whose options, each with its four
header octets (`EncLim.optionSize`), add up to more than 65,535 octets (e.g. one `Padding(65532)`); then
`Encoder::rr` fails with `Length`, from every encoder state -/
theorem unrepresentable_rdata_opt (e : Enc) {rr : RR} {payload ext ver : Nat} {dnssec : Bool} {opts : List EdnsOpt}
    (hk : rrKind rr.ty = some .opt) (hrd : rr.rd = .opt payload ext ver dnssec opts)
    (h : 65535 < (opts.map EncLim.optionSize).sum) : encRR e rr = .error .length :=
  ExtraA.encRR_opt_too_long e hk hrd h

/-- value level, APL: assumed is only that the record is an APL record whose items (four header octets plus
the address octets up to the last non-zero one, `EncLim.apItemSize`) add up to more than 65,535 octets; then
`Encoder::rr` fails, from every encoder state -/
theorem unrepresentable_rdata_apl (e : Enc) {rr : RR} {items : List APItem}
    (hk : rrKind rr.ty = some .apl) (hrd : rr.rd = .apl items)
    (h : 65535 < (items.map EncLim.apItemSize).sum) : ∃ err, encRR e rr = .error err :=
  ExtraA.encRR_apl_too_long e hk hrd h

/-- non-vacuity: an OPT record with one padding option of 65,532 octets -/
example : encRR {} ⟨[], 41, 0, 0, .opt 1232 0 0 false [.padding 65532]⟩ = .error .length :=
  unrepresentable_rdata_opt {} rfl rfl (by
    simp only [List.map_cons, List.map_nil, List.sum_cons, List.sum_nil, EncLim.optionSize, EncLim.optionBody,
      List.length_replicate]; omega)

/-- pointer octets written by the name writer decode to the table offset, which is below 16384 -/
theorem pointer_offsets {off : Nat} (h : off ≤ 0x3FFF) :
    ptrOff ((ptrBytes off)[0]'(by simp [ptrBytes])) ((ptrBytes off)[1]'(by simp [ptrBytes])) = off ∧
    192 ≤ ((ptrBytes off)[0]'(by simp [ptrBytes])).toNat ∧
    isPtr ((ptrBytes off)[0]'(by simp [ptrBytes])) = true := EncLim.ptrOff_ptrBytes h

/-! ## Known findings (witnesses) -/

theorem K4a_witness :
    encodeRR ⟨[], 64, 1, 0, .svcb 1 [] [.priv 3 [0, 80]]⟩ = encodeRR ⟨[], 64, 1, 0, .svcb 1 [] [.port 80]⟩ ∧
    (RR.mk [] 64 1 0 (.svcb 1 [] [.priv 3 [0, 80]])) ≠ ⟨[], 64, 1, 0, .svcb 1 [] [.port 80]⟩ := EncLim.K4a_witness

theorem K4b_witness :
    encodeRR ⟨[], 64, 1, 0, .svcb 0 [[97]] [.port 80]⟩ = encodeRR ⟨[], 64, 1, 0, .svcb 0 [[97]] []⟩ ∧
    encodeRR ⟨[], 64, 1, 0, .svcb 0 [[97]] []⟩ = .ok [0, 0, 64, 0, 1, 0, 0, 0, 0, 0, 5, 0, 0, 1, 97, 0] := EncLim.K4b_witness

theorem K4c_witness :
    EncLim.Shaped ⟨[], 27, 1, 0, .fields [.bytes [], .bytes [49], .bytes [50]]⟩ ∧
    encodeRR ⟨[], 27, 1, 0, .fields [.bytes [], .bytes [49], .bytes [50]]⟩ =
      .ok [0, 0, 27, 0, 1, 0, 0, 0, 0, 0, 5, 0, 1, 49, 1, 50] ∧
    decodeRR [0, 0, 27, 0, 1, 0, 0, 0, 0, 0, 5, 0, 1, 49, 1, 50] = .error .gpos := EncLim.K4c_gpos_empty

/-! ## The last clause as a theorem: EXACTLY the recorded classes violate it

`ApiOk m` (Lemmas/ApiOk.lean): what the Rust types and the public constructors / setters / validators
guarantee about a `Dns` value and nothing more — integer widths, UTF-8 `String`s, validated newtypes,
`BTreeSet` order, supported enum variants; NO wire limit that `encode` checks itself (those lead to an
encode error) and NOT the absence of the four classes below, which public fields allow.
`Finding.K3 m := 15 < m.flags.rcode`; `Finding.K4a / K4b / K4c m`: some record of the message is an
SVCB/HTTPS record with a `PRIVATE` parameter whose number is `≤ 6` or `65535` / an SVCB/HTTPS record with
priority 0 and a non-empty parameter set / a GPOS record with an empty longitude, latitude or altitude. -/

/-- **Classification**: an API-constructible value that `Dns::encode` accepts is well-formed (the premise
of `C05.encode_decode`) or belongs to one of the four recorded classes. No fifth class exists: every
conjunct of `WfMsg` is an API fact, a limit that a successful `encode` has checked, or the negation of
K3 / K4a / K4b / K4c. -/
theorem api_encode_ok_classified {m : Msg} {b : Bytes} (ha : ApiOk m) (h : encodeDns m = .ok b) :
    WfMsg m ∨ Finding.K3 m ∨ Finding.K4a m ∨ Finding.K4b m ∨ Finding.K4c m := ApiOk.classified ha h

/-- **"never a message that decodes to something else or not at all"** holds for every API-constructible
value outside the four classes: what `encode` emits decodes, to the same value (up to ASCII case of names
and the order of `mandatory` keys, `Msg.norm`) -/
theorem api_encode_decodes_back {m : Msg} {b : Bytes} (ha : ApiOk m) (h3 : ¬ Finding.K3 m)
    (h4a : ¬ Finding.K4a m) (h4b : ¬ Finding.K4b m) (h4c : ¬ Finding.K4c m) (h : encodeDns m = .ok b) :
    ∃ m' d, decodeDns b = .ok (m', d) ∧ m'.norm = m.norm := ApiOk.decodes_back ha h3 h4a h4b h4c h

/-- the record-level core: API facts + the limits `encode` checks + "not K4a/K4b/K4c" give `WfRR` -/
theorem api_rr_classified {rr : RR} (ha : ApiOkRR rr) (hchk : ∀ s ∈ EncLim.rdataChecked rr, s.length ≤ 255)
    (hsvc : ∀ p ∈ EncLim.rrSvcParams rr, (EncLim.svcBody p).length ≤ 65535) :
    WfRR rr ∨ Finding.K4aRR rr ∨ Finding.K4bRR rr ∨ Finding.K4cRR rr := by
  by_cases h4a : Finding.K4aRR rr
  · exact Or.inr (Or.inl h4a)
  by_cases h4b : Finding.K4bRR rr
  · exact Or.inr (Or.inr (Or.inl h4b))
  by_cases h4c : Finding.K4cRR rr
  · exact Or.inr (Or.inr (Or.inr h4c))
  exact Or.inl (ApiOk.rr_wf ha hchk hsvc h4a h4b h4c)

/-- the decomposition read backwards: a well-formed value is in none of the classes, i.e.
`WfMsg` = API facts + encoder limits + "not K3, K4a, K4b, K4c" -/
theorem wf_not_finding {m : Msg} (hwf : WfMsg m) :
    ¬ Finding.K3 m ∧ ¬ Finding.K4a m ∧ ¬ Finding.K4b m ∧ ¬ Finding.K4c m := ApiOk.wf_not_finding hwf

/-- non-vacuity of `api_encode_decodes_back`: a response with A, GPOS, OPT (ECS, cookie, padding) and HTTPS
(port, private key 7) records is API-constructible, in none of the classes, and encodes -/
example : ApiOk ApiOk.okMsg ∧ (¬ Finding.K3 ApiOk.okMsg ∧ ¬ Finding.K4a ApiOk.okMsg ∧ ¬ Finding.K4b ApiOk.okMsg ∧
    ¬ Finding.K4c ApiOk.okMsg) ∧ ∃ b, encodeDns ApiOk.okMsg = .ok b :=
  ⟨ApiOk.okMsg_api, ApiOk.okMsg_not_finding, _, ApiOk.okMsg_encoded⟩

/-- every disjunct is inhabited and none can be dropped: each witness is API-constructible, encodes `Ok`,
is in exactly one class and is not well-formed … -/
theorem classes_inhabited :
    (ApiOk ApiOk.k3Msg ∧ Finding.K3 ApiOk.k3Msg ∧ ¬ Finding.K4a ApiOk.k3Msg ∧ ¬ Finding.K4b ApiOk.k3Msg ∧
      ¬ Finding.K4c ApiOk.k3Msg ∧ ¬ WfMsg ApiOk.k3Msg ∧ ∃ b, encodeDns ApiOk.k3Msg = .ok b) ∧
    (ApiOk ApiOk.k4aMsg ∧ ¬ Finding.K3 ApiOk.k4aMsg ∧ Finding.K4a ApiOk.k4aMsg ∧ ¬ Finding.K4b ApiOk.k4aMsg ∧
      ¬ Finding.K4c ApiOk.k4aMsg ∧ ¬ WfMsg ApiOk.k4aMsg ∧ ∃ b, encodeDns ApiOk.k4aMsg = .ok b) ∧
    (ApiOk ApiOk.k4bMsg ∧ ¬ Finding.K3 ApiOk.k4bMsg ∧ ¬ Finding.K4a ApiOk.k4bMsg ∧ Finding.K4b ApiOk.k4bMsg ∧
      ¬ Finding.K4c ApiOk.k4bMsg ∧ ¬ WfMsg ApiOk.k4bMsg ∧ ∃ b, encodeDns ApiOk.k4bMsg = .ok b) ∧
    (ApiOk ApiOk.k4cMsg ∧ ¬ Finding.K3 ApiOk.k4cMsg ∧ ¬ Finding.K4a ApiOk.k4cMsg ∧ ¬ Finding.K4b ApiOk.k4cMsg ∧
      Finding.K4c ApiOk.k4cMsg ∧ ¬ WfMsg ApiOk.k4cMsg ∧ ∃ b, encodeDns ApiOk.k4cMsg = .ok b) := by
  obtain ⟨a1, a2, a3, a4, a5, a6, a7⟩ := ApiOk.k3Msg_spec
  obtain ⟨b1, b2, b3, b4, b5, b6, b7⟩ := ApiOk.k4aMsg_spec
  obtain ⟨c1, c2, c3, c4, c5, c6, c7⟩ := ApiOk.k4bMsg_spec
  obtain ⟨d1, d2, d3, d4, d5, d6, d7⟩ := ApiOk.k4cMsg_spec
  exact ⟨⟨a1, a2, a3, a4, a5, a6, _, a7⟩, ⟨b1, b2, b3, b4, b5, b6, _, b7⟩, ⟨c1, c2, c3, c4, c5, c6, _, c7⟩,
    ⟨d1, d2, d3, d4, d5, d6, _, d7⟩⟩

/-- … and what it is encoded to decodes to a different value (K3: `cd = true`, rcode 0; K4a: `port 80`;
K4b: no parameters) or not at all (K4c: `DecodeError::GPOS`) -/
theorem classes_violate :
    (∃ b d, encodeDns ApiOk.k3Msg = .ok b ∧ decodeDns b =
      .ok ({ ApiOk.k3Msg with flags := { ApiOk.k3Msg.flags with cd := true, rcode := 0 } }, d)) ∧
    (∃ b d, encodeDns ApiOk.k4aMsg = .ok b ∧
      decodeDns b = .ok (ApiOk.one 0 ⟨[], 64, 1, 0, .svcb 1 [] [.port 80]⟩, d)) ∧
    (∃ b d, encodeDns ApiOk.k4bMsg = .ok b ∧
      decodeDns b = .ok (ApiOk.one 0 ⟨[], 64, 1, 0, .svcb 0 [[97]] []⟩, d)) ∧
    (∃ b, encodeDns ApiOk.k4cMsg = .ok b ∧ decodeDns b = .error .gpos) := by
  obtain ⟨d1, h1⟩ := ApiOk.k3Msg_decoded
  obtain ⟨d2, h2⟩ := ApiOk.k4aMsg_decoded
  obtain ⟨d3, h3⟩ := ApiOk.k4bMsg_decoded
  exact ⟨⟨_, d1, ApiOk.k3Msg_spec.2.2.2.2.2.2, h1⟩, ⟨_, d2, ApiOk.k4aMsg_spec.2.2.2.2.2.2, h2⟩,
    ⟨_, d3, ApiOk.k4bMsg_spec.2.2.2.2.2.2, h3⟩, ⟨_, ApiOk.k4cMsg_spec.2.2.2.2.2.2, ApiOk.k4cMsg_decoded⟩⟩


/-! ## The converse, for EVERY value: membership in a class breaks the round trip

`classes_violate` shows it on four witnesses; here for all values. Part A: a value in one of the classes
is never what `Dns::decode` returns (on any input, up to `Msg.norm`), so the classification is EXACT
(`api_roundtrip_iff`). Part B: what happens instead, class by class. -/

/-- a value in K3 / K4a / K4b / K4c is not the result of decoding ANY octets, up to `norm` -/
theorem class_never_decoded {m : Msg} (hk : Finding.K3 m ∨ Finding.K4a m ∨ Finding.K4b m ∨ Finding.K4c m)
    {b : Bytes} {m' : Msg} {d : D} (hd : decodeDns b = .ok (m', d)) : m'.norm ≠ m.norm :=
  ApiOkConv.never_decoded hk hd

/-- **the classification is exact**: an API-constructible value that `encode` accepts decodes back to the
same value (up to `norm`) IF AND ONLY IF it is in none of the four classes -/
theorem api_roundtrip_iff {m : Msg} {b : Bytes} (ha : ApiOk m) (h : encodeDns m = .ok b) :
    (∃ m' d, decodeDns b = .ok (m', d) ∧ m'.norm = m.norm) ↔
      ¬ (Finding.K3 m ∨ Finding.K4a m ∨ Finding.K4b m ∨ Finding.K4c m) := ApiOkConv.roundtrip_iff ha h

/-- the same for one record: a record in K4a / K4b / K4c is never the result of `RR::decode` -/
theorem class_rr_never_decoded {rr : RR} (hk : Finding.K4aRR rr ∨ Finding.K4bRR rr ∨ Finding.K4cRR rr) {b : Bytes}
    (hb : b.length < 2 ^ 63) {rr' : RR} {d : D} (hd : decodeRR b = .ok (rr', d)) : rr'.norm ≠ rr.norm :=
  ApiOkConv.rr_never_decoded hk hb hd

/-- **K3**: whatever is decoded (from the emitted octets or any others) has other flags: a decoded rcode
is below 16 -/
theorem k3_never_roundtrips {m : Msg} (h3 : Finding.K3 m) {b : Bytes} {m' : Msg} {d : D}
    (hd : decodeDns b = .ok (m', d)) : m'.flags ≠ m.flags := ApiOkConv.k3_never_roundtrips h3 hd

/-- **K3, what is decoded instead**: the flags read back from the octets emitted for a message with an
extended rcode are the original ones with `cd := true` and `rcode := rcode - 16` (general form of `K3_witness`) -/
theorem k3_decoded_flags {m m' : Msg} {b : Bytes} {d : D} (h3 : Finding.K3 m) (hf : ApiOkFlags m.flags)
    (hs : EncLim.ShapedMsg m) (h : encodeDns m = .ok b) (hd : decodeDns b = .ok (m', d)) :
    m'.flags = { m.flags with cd := true, rcode := m.flags.rcode - 16 } := ApiOkConv.k3_decoded_flags h3 hf hs h hd

/-- **K4a**: the SvcParam decoder never returns `PRIVATE { number }` for a registered number (0..=6, 65535):
such a parameter is re-read as the registered kind or rejected -/
theorem k4a_decoder_never_private {k : Nat} {d d' : D} {p : SvcParam} (h : decSvcParam k d = .ok (p, d'))
    (hk : k ≤ 6 ∨ k = 65535) : ∀ x, p ≠ .priv k x := ApiOkConv.decSvcParam_not_priv h hk

/-- K4a at the level of `RR::decode` / `Dns::decode`: no decoded record contains such a parameter -/
theorem k4a_never_roundtrips {b : Bytes} (hb : b.length < 2 ^ 63) {rr' : RR} {d : D}
    (hd : decodeRR b = .ok (rr', d)) {prio : Nat} {target : Name} {ps : List SvcParam}
    (hrd : rr'.rd = .svcb prio target ps) {k : Nat} (hk : k ≤ 6 ∨ k = 65535) (x : Bytes) :
    SvcParam.priv k x ∉ ps := ApiOkConv.decoded_no_registered_priv hb hd hrd hk x
theorem k4a_msg_never_roundtrips {b : Bytes} {m' : Msg} {d : D} (hd : decodeDns b = .ok (m', d))
    {rr' : RR} (hr : rr' ∈ EncLim.msgRRs m') {prio : Nat} {target : Name} {ps : List SvcParam}
    (hrd : rr'.rd = .svcb prio target ps) {k : Nat} (hk : k ≤ 6 ∨ k = 65535) (x : Bytes) :
    SvcParam.priv k x ∉ ps := ApiOkConv.decoded_msg_no_registered_priv hd hr hrd hk x

/-- **K4b, element level**: the octets emitted for an API-constructible alias-form record, whatever its
parameters, decode to the record with NO parameters (general form of `K4b_witness`) … -/
theorem k4b_decodes_to {rr : RR} {target : Name} {ps : List SvcParam} {b : Bytes} (ha : ApiOkRR rr)
    (hrd : rr.rd = .svcb 0 target ps) (h : encodeRR rr = .ok b) :
    ∃ target' d, decodeRR b = .ok ({ rr with rd := .svcb 0 target' [] }, d) ∧ d.off = b.length ∧
      ciEq target' target = true := ApiOkConv.k4b_decodes_to ha hrd h
/-- … so with a non-empty parameter list the body never comes back, not even up to `norm` -/
theorem k4b_never_roundtrips {rr : RR} {target : Name} {ps : List SvcParam} {b : Bytes} (ha : ApiOkRR rr)
    (hrd : rr.rd = .svcb 0 target ps) (hne : ps ≠ []) (h : encodeRR rr = .ok b) {rr' : RR} {d : D}
    (hd : decodeRR b = .ok (rr', d)) : rr'.rd.norm ≠ rr.rd.norm ∧ rr'.rd ≠ rr.rd :=
  ApiOkConv.k4b_never_roundtrips ha hrd hne h hd

/-- **K4b, message level**: every message is encoded exactly like the message in which the parameters of all
alias-form records are dropped (`ApiOkConv.dropAlias`) … -/
theorem k4b_encoded_as_dropped (m : Msg) : encodeDns (ApiOkConv.dropAlias m) = encodeDns m :=
  ApiOkConv.encodeDns_dropAlias m
/-- … which is what an API-constructible message outside K3, K4a, K4c decodes to; it differs from `m`
(up to `norm`) whenever `m` is in K4b -/
theorem k4b_msg_decodes_to {m : Msg} {b : Bytes} (ha : ApiOk m) (h3 : ¬ Finding.K3 m) (h4a : ¬ Finding.K4a m)
    (h4c : ¬ Finding.K4c m) (h : encodeDns m = .ok b) :
    ∃ m' d, decodeDns b = .ok (m', d) ∧ m'.norm = (ApiOkConv.dropAlias m).norm ∧
      (Finding.K4b m → m'.norm ≠ m.norm) := ApiOkConv.k4b_msg_decodes_to ha h3 h4a h4c h

/-- **K4c**: the decoder's `gpos` validator rejects the empty string … -/
theorem gpos_empty_rejected : StrCheck.run .gpos [] = .error .gpos := ApiOkConv.gpos_empty_rejected
/-- … and the octets that `RR::encode` emits for an API-constructible GPOS record with an empty longitude,
latitude or altitude are not accepted by `RR::decode` AT ALL (general form of `K4c_witness`) -/
theorem k4c_never_roundtrips {rr : RR} {b : Bytes} (ha : ApiOkRR rr) (hk : Finding.K4cRR rr)
    (h : encodeRR rr = .ok b) (rr' : RR) (d : D) : decodeRR b ≠ .ok (rr', d) :=
  ApiOkConv.k4c_never_decodes ha hk h rr' d

/-- K4c at the MESSAGE level, partial. Full statement (not proved): `ApiOk m → Finding.K4c m →
encodeDns m = .ok b → ∀ m' d, decodeDns b ≠ .ok (m', d)` — the emitted message is rejected. Proved: it never
decodes to the same value (an instance of `class_never_decoded`). Missing for the full form: locating the
GPOS record inside the emitted message when OTHER records of it may be ill-formed too (the wire
specification of `encRRs` exists for well-formed records only), and aligning the decoder's record
boundaries with the encoder's up to that record. -/
theorem k4c_msg_never_roundtrips_partial {m : Msg} (hk : Finding.K4c m) {b : Bytes} {m' : Msg} {d : D}
    (hd : decodeDns b = .ok (m', d)) : m'.norm ≠ m.norm :=
  ApiOkConv.never_decoded (Or.inr (Or.inr (Or.inr hk))) hd

/-- non-vacuity: the premises hold of the four witnesses -/
example : ∀ m' d, decodeDns [18, 52, 129, 144, 0, 1, 0, 1, 0, 0, 0, 0, 1, 97, 0, 0, 1, 0, 1, 192, 12, 0, 1, 0, 1, 0, 0, 0,
      60, 0, 4, 10, 0, 0, 1] = .ok (m', d) →
    m'.flags = { ApiOk.k3Msg.flags with cd := true, rcode := ApiOk.k3Msg.flags.rcode - 16 } := fun _ _ hd =>
  k3_decoded_flags ApiOk.k3Msg_spec.2.1 ApiOk.k3Msg_spec.1.2.1 (ApiOk.shapedMsg ApiOk.k3Msg_spec.1)
    ApiOk.k3Msg_spec.2.2.2.2.2.2 hd
example : ∃ target' d, decodeRR [0, 0, 64, 0, 1, 0, 0, 0, 0, 0, 5, 0, 0, 1, 97, 0] =
    .ok ({ ApiOk.k4bRR with rd := .svcb 0 target' [] }, d) ∧ d.off = 16 ∧ ciEq target' [[97]] = true :=
  k4b_decodes_to ApiOk.k4bRR_api rfl (K4b_witness.1.trans K4b_witness.2)
example : ∀ rr' d, decodeRR [0, 0, 27, 0, 1, 0, 0, 0, 0, 0, 5, 0, 1, 49, 1, 50] ≠ .ok (rr', d) :=
  k4c_never_roundtrips ApiOk.k4cRR_api ⟨rfl, [], [49], [50], rfl, Or.inl rfl⟩ K4c_witness.2.1
example : (∃ m' d, decodeDns [18, 52, 129, 128, 0, 1, 0, 1, 0, 0, 0, 0, 1, 97, 0, 0, 1, 0, 1, 0, 0, 64, 0, 1, 0, 0, 0, 0,
      0, 9, 0, 1, 0, 0, 3, 0, 2, 0, 80] = .ok (m', d) ∧ m'.norm = ApiOk.k4aMsg.norm) ↔
    ¬ (Finding.K3 ApiOk.k4aMsg ∨ Finding.K4a ApiOk.k4aMsg ∨ Finding.K4b ApiOk.k4aMsg ∨ Finding.K4c ApiOk.k4aMsg) :=
  api_roundtrip_iff ApiOk.k4aMsg_spec.1 ApiOk.k4aMsg_spec.2.2.2.2.2.2

end C08
