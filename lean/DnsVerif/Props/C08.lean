import DnsVerif.Lemmas.EncName
import DnsVerif.Props.C11

/-! # C08 — encode reports an error instead of emitting an out-of-range message (part 1)

Part 1: the name writers (every state, every name): no panic, only `Length`/`String` errors, exact
causes. Part 2 (all values: `encode_no_panic`, `encode_limits`, `unrepresentable_err`, from
Lemmas/EncLim*.lean) is appended when complete; until then PARTIAL. Known findings K3/K4 are recorded. -/

namespace C08

theorem name_no_panic (e : Enc) (n : Name) (s : String) : encName e n ≠ .error (.panic s) := encName_ne_panic e n s
theorem name_no_maxRecursion (e : Enc) (n : Name) : encName e n ≠ .error .maxRecursion := encName_ne_maxRecursion e n

/-- from any state satisfying the table invariant the only error is `Length`, and only when a label would
start beyond offset 65,535 -/
theorem name_error_is_length {S : Nat → Prop} {e : Enc} {n : Name} {err : EErr} (hinv : EInv S e) (hwf : wfName n)
    (h : encName e n = .error err) :
    err = .length ∧ ∃ pre l post, n = pre ++ l :: post ∧ 65535 < e.out.length + Name.sz pre := encName_error hinv hwf h

theorem nameU_error_is_length {e : Enc} {n : Name} {err : EErr} (hwf : wfName n) (h : encNameU e n = .error err) :
    err = .length ∧ ∃ pre l post, n = pre ++ l :: post ∧ 65535 < e.out.length + Name.sz pre := encNameU_error hwf h

/-- known finding K3 (recorded, not repaired): an extended rcode corrupts the CD bit -/
theorem K3_witness (f : Flags) (hop : opcodeKnown f.opcode = true) (hrc : f.rcode = 16) :
    decodeFlags (encodeFlags f) = .ok ({ f with cd := true, rcode := 0 }, C11.consumed2 (encodeFlags f)) := C11.flags_K3 f hop hrc

end C08
