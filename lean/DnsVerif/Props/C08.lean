import DnsVerif.Lemmas.EncName
import DnsVerif.Props.C11
import DnsVerif.Lemmas.EncLimMsg

/-! # C08 — encode reports an error instead of emitting an out-of-range message

Part 1: the name writers (every state, every name): no panic, only `Length`/`String` errors, exact
causes. Part 2: for ALL values of the model's value types whose constructor shape matches the record
table (`Shaped` — decidable, and the only premise: the Rust types make other shapes impossible; NO
well-formedness premise, so oversized strings, RDATA, options, sections and messages are included):
no panic, the exact error kinds with their causes, every wire limit on success, and errors for every
unrepresentable class the property lists. `EncLim.msgSize` is the uncompressed wire size.
Known findings (recorded, not repaired; each with a kernel-checked witness below): K3 (extended rcode
corrupts CD), K4a (PRIVATE with a registered key), K4b (alias form drops parameters), K4c (GPOS with an
empty string): values that encode `Ok` but do not decode to the same value — for exactly these classes the
clause "never a message that decodes to something else or not at all" does NOT hold of the code. -/

namespace C08

theorem name_no_panic (e : Enc) (n : Name) (s : String) : encName e n ≠ .error (.panic s) := encName_ne_panic e n s
theorem name_no_maxRecursion (e : Enc) (n : Name) : encName e n ≠ .error .maxRecursion := encName_ne_maxRecursion e n

/-- from any state satisfying the table invariant the only error is `Length`, and only when a label would
start beyond offset 65,535 -/
theorem name_error_is_length {S : Nat → Prop} {e : Enc} {n : Name} {err : EErr} (hinv : EInv S e) (hwf : wfName n)
    (h : encName e n = .error err) :
    err = .length ∧ ∃ pre l post, n = pre ++ l :: post ∧ 65535 < e.out.length + Name.sz pre := encName_error hinv hwf h

theorem nameU_error_is_length {e : Enc} {n : Name} {err : EErr} (hwf : wfName n) (h : encNameU e n = .error err) :
    err = .length ∧ ∃ pre l post, n = pre ++ l :: post ∧ 65535 < e.out.length + Name.sz pre := encNameU_error hwf h

/-- known finding K3 (recorded, not repaired): an extended rcode corrupts the CD bit -/
theorem K3_witness (f : Flags) (hop : opcodeKnown f.opcode = true) (hrc : f.rcode = 16) :
    decodeFlags (encodeFlags f) = .ok ({ f with cd := true, rcode := 0 }, C11.consumed2 (encodeFlags f)) := C11.flags_K3 f hop hrc

/-! ## All values -/

/-- encode never panics: names, questions, records, messages, from every encoder state -/
theorem encode_no_panic (s : String) : EncLim.Never (.panic s) := EncLim.encode_no_panic s
/-- `NotEnoughBytes` and `MaxRecursion` are unreachable -/
theorem encode_ne_notEnoughBytes : EncLim.Never .notEnoughBytes := EncLim.encode_ne_notEnoughBytes
theorem encode_ne_maxRecursion : EncLim.Never .maxRecursion := EncLim.encode_ne_maxRecursion

/-- the only errors of `Dns::encode`, with their causes -/
theorem encode_error_kinds {m : Msg} {err : EErr} (hs : EncLim.ShapedMsg m) (h : encodeDns m = .error err) :
    (err = .string ∧ ∃ s ∈ EncLim.msgStrs m, 255 < s.length) ∨
    (err = .aplAddressLength ∧ ∃ it ∈ EncLim.msgAplItems m,
      128 ≤ (stripZeros it.addr).length ∧ (stripZeros it.addr).length ≤ 255 ∧ 128 ≤ it.addr.length) ∨
    (err = .length ∧ (EncLim.CountOver m ∨ (∃ it ∈ EncLim.msgAplItems m, 255 < (stripZeros it.addr).length) ∨
      65535 < EncLim.msgSize m)) := EncLim.encode_error_kinds hs h

/-- conversely a value within the limits always encodes -/
theorem encode_total {m : Msg} (hs : EncLim.ShapedMsg m) (hstr : ∀ s ∈ EncLim.msgStrs m, s.length ≤ 255)
    (hapl : ∀ it ∈ EncLim.msgAplItems m, (stripZeros it.addr).length ≤ 127) (hcnt : ¬ EncLim.CountOver m)
    (hsz : EncLim.msgSize m ≤ 65535) : ∃ b, encodeDns m = .ok b := EncLim.encode_total hs hstr hapl hcnt hsz

/-- on success: at most 65,535 octets and the four counts are exactly the section sizes (not wrapped) -/
theorem encode_limits_header {m : Msg} {b : Bytes} (hs : EncLim.ShapedMsg m) (h : encodeDns m = .ok b) :
    b.length ≤ 65535 ∧
    (∃ rest, b = beBytes 2 m.id ++ flagsBytes m.flags ++ beBytes 2 m.qs.length ++
      beBytes 2 m.an.length ++ beBytes 2 m.ns.length ++ beBytes 2 m.ar.length ++ rest) ∧
    (m.qs.length ≤ 65535 ∧ m.an.length ≤ 65535 ∧ m.ns.length ≤ 65535 ∧ m.ar.length ≤ 65535) := by
  obtain ⟨h1, h2, h3, _⟩ := EncLim.encode_limits hs h
  exact ⟨h1, h2, h3⟩

/-- a section of more than 65,535 entries is refused before anything of it is written -/
theorem unrepresentable_section {m : Msg} (h : EncLim.CountOver m) : encodeDns m = .error .length :=
  EncLim.unrepresentable_err_section' h

/-- a character-string of more than 255 octets anywhere in a record's checked RDATA is refused -/
theorem unrepresentable_string {m : Msg} (hs : EncLim.ShapedMsg m)
    (h : ∃ rr ∈ EncLim.msgRRs m, ∃ s ∈ EncLim.rdataChecked rr, 255 < s.length) : ∃ err, encodeDns m = .error err :=
  EncLim.unrepresentable_err_string hs h

/-- pointer octets written by the name writer decode to the table offset, which is below 16384 -/
theorem pointer_offsets {off : Nat} (h : off ≤ 0x3FFF) :
    ptrOff ((ptrBytes off)[0]'(by simp [ptrBytes])) ((ptrBytes off)[1]'(by simp [ptrBytes])) = off ∧
    192 ≤ ((ptrBytes off)[0]'(by simp [ptrBytes])).toNat ∧
    isPtr ((ptrBytes off)[0]'(by simp [ptrBytes])) = true := EncLim.ptrOff_ptrBytes h

/-! ## Known findings (witnesses) -/

theorem K4a_witness :
    encodeRR ⟨[], 64, 1, 0, .svcb 1 [] [.priv 3 [0, 80]]⟩ = encodeRR ⟨[], 64, 1, 0, .svcb 1 [] [.port 80]⟩ ∧
    (RR.mk [] 64 1 0 (.svcb 1 [] [.priv 3 [0, 80]])) ≠ ⟨[], 64, 1, 0, .svcb 1 [] [.port 80]⟩ := EncLim.K4a_witness

theorem K4b_witness :
    encodeRR ⟨[], 64, 1, 0, .svcb 0 [[97]] [.port 80]⟩ = encodeRR ⟨[], 64, 1, 0, .svcb 0 [[97]] []⟩ ∧
    encodeRR ⟨[], 64, 1, 0, .svcb 0 [[97]] []⟩ = .ok [0, 0, 64, 0, 1, 0, 0, 0, 0, 0, 5, 0, 0, 1, 97, 0] := EncLim.K4b_witness

theorem K4c_witness :
    EncLim.Shaped ⟨[], 27, 1, 0, .fields [.bytes [], .bytes [49], .bytes [50]]⟩ ∧
    encodeRR ⟨[], 27, 1, 0, .fields [.bytes [], .bytes [49], .bytes [50]]⟩ =
      .ok [0, 0, 27, 0, 1, 0, 0, 0, 0, 0, 5, 0, 1, 49, 1, 50] ∧
    decodeRR [0, 0, 27, 0, 1, 0, 0, 0, 0, 0, 5, 0, 1, 49, 1, 50] = .error .gpos := EncLim.K4c_gpos_empty

end C08
