import DnsVerif.Lemmas.NameSound
import DnsVerif.Lemmas.NameFuel
import DnsVerif.Lemmas.SafeMsg
import DnsVerif.Lemmas.SafeRunMsg

/-! # C07 — hostile compression cannot make decoding loop or blow up

The model of `Decoder::domain_name` runs its two loops on a fuel of 200 steps. These theorems show, for
EVERY buffer, window and offset (no size bound), that the fuel is never what stops the expansion (so the
bounded model IS the unbounded Rust loop, and that loop terminates), that an accepted name is a finite
RFC 1035 derivation with at most 17 hops and at most 255 wire octets (so a cyclic name is never
accepted), and that the octets examined per name are exactly `1 + sz n + 2·hops ≤ 289`.
Message level: the octets examined by a successful `Dns::decode` are at most `304·len + 304` (sharper:
`290·len`), whatever pointer structure the input contains; every entry point terminates without fuel
exhaustion (C01). For FAILING runs the model's errors do not carry the cost; instead `Safe.decodeXC b`
(Lemmas/SafeRun*.lean) is the final value of the octet counter of the run, defined by following the
model's own control flow: it equals `d.cost` on success and is bounded by `304·len + 304` on EVERY run
(the counter is monotone, so the bound holds at every intermediate point). The driver prints it on error
lines and the correspondence run compares it with the hook's counter on every failing decode as well.
The harness budget `1000·(len+1)` is therefore provably never reached. -/

namespace C07

/-- termination: the fuel constant is never exhausted, whatever the input -/
theorem name_terminates (d : D) : d.name ≠ .error .fuel := name_no_fuel d

/-- an accepted name is a finite derivation: ≤ 17 pointer hops, ≤ 255 wire octets, exact cost -/
theorem name_bounded {d d' : D} {n : Name} (h : d.name = .ok (n, d')) :
    ∃ hops, hops ≤ 17 ∧ NameAt d.buf false d.off n hops d'.off ∧ Name.sz n < 255 ∧
      d'.cost = d.cost + 1 + Name.sz n + 2 * hops := by
  obtain ⟨hops, h17, hat, _, _, _, _, hsz, _, _, hc⟩ := name_sound h
  exact ⟨hops, h17, hat, hsz, hc⟩

/-- at most 289 octets are examined for one name, however the pointers are arranged -/
theorem name_cost (d d' : D) (n : Name) (h : d.name = .ok (n, d')) : d'.cost ≤ d.cost + 289 := name_cost_le h

/-- every failure of name expansion is one of the six documented name errors (never a panic, never fuel) -/
theorem name_errors {d : D} (hd : D.Ok d) {e : DErr} (h : d.name = .error e) : e.isNameErr = true := name_err_ok hd h

/-! a self-referencing pointer and a two-pointer cycle are errors (non-vacuity of the error side) -/
example : D.name { buf := [192, 0], off := 0, lim := 2, cost := 0 } = .error .endlessRecursion := rfl
example : D.name { buf := [192, 2, 192, 0], off := 0, lim := 4, cost := 0 } = .error .endlessRecursion := rfl

/-! ## Whole messages -/

/-- linear work bound for every accepted message -/
theorem decodeDns_cost {b : Bytes} {m : Msg} {d : D} (h : decodeDns b = .ok (m, d)) : d.cost ≤ 304 * b.length + 304 := by
  have := Safe.decodeDns_cost h
  simpa [Safe.costBound] using this

theorem decodeDns_cost_sharp {b : Bytes} {m : Msg} {d : D} (h : decodeDns b = .ok (m, d)) :
    d.cost ≤ 290 * d.off ∧ d.off ≤ b.length := Safe.decodeDns_cost_290 h

theorem decodeRR_cost {b : Bytes} {r : RR} {d : D} (hb : b.length < 2 ^ 63) (h : decodeRR b = .ok (r, d)) :
    d.cost ≤ 304 * b.length + 304 := by
  have := Safe.decodeRR_cost hb h
  simpa [Safe.costBound] using this

/-- a cyclic name is always an error: if the label/pointer structure from offset 0 reaches an offset that
reaches itself again, `DomainName::decode` fails (with one of the documented name errors) -/
theorem cyclic_is_error {b : Bytes} {x j k : Nat} (hb : b.length < 2 ^ 63) (h1 : Safe.NPath b 0 x j)
    (h2 : Safe.NPath b x x (k + 1)) : ∃ e, decodeName b = .error e ∧ e.isNameErr = true :=
  Safe.decodeName_cyclic_error_kind hb h1 h2

/-- the same for ANY decoder state (any buffer, cursor offset and window — e.g. a name inside a record
of a message): a name whose label/pointer structure from the cursor runs into a cycle is never accepted -/
theorem cyclic_is_error_anywhere {d : D} {x j k : Nat} (h1 : Safe.NPath d.buf d.off x j)
    (h2 : Safe.NPath d.buf x x (k + 1)) : ∀ n d', d.name ≠ .ok (n, d') := Safe.name_cyclic_error h1 h2

/-- … positive form: on a well-formed cursor the outcome IS an error, and one of the six documented name
errors (never a panic, never fuel) -/
theorem cyclic_is_name_error_anywhere {d : D} {x j k : Nat} (hd : D.Ok d) (h1 : Safe.NPath d.buf d.off x j)
    (h2 : Safe.NPath d.buf x x (k + 1)) : ∃ e, d.name = .error e ∧ e.isNameErr = true := by
  rcases name_total hd with ⟨n, d', h, _⟩ | h
  · exact absurd h (Safe.name_cyclic_error h1 h2 n d')
  · exact h

/-- a label followed by a pointer back to it, met in the middle of a buffer -/
example : ∃ e, D.name { buf := [7, 7, 1, 97, 192, 2], off := 2, lim := 6, cost := 0 } = .error e ∧ e.isNameErr = true :=
  cyclic_is_name_error_anywhere (x := 2) (j := 0) (k := 1) ((D.Ok_iff _).2 (by decide)) .nil
    (.cons (.label (len := 1) rfl (by decide) (by decide)) (.cons (.ptr (a := 192) (b := 2) rfl (by decide) rfl) .nil))

/-- termination of every entry point (no fuel exhaustion) -/
theorem decodeDns_terminates {b : Bytes} (h : b.length < 2 ^ 63) : decodeDns b ≠ .error .fuel := Safe.decodeDns_noFuel h

/-! ## Every run, failing ones included -/

/-- the octets examined by ANY run of `Dns::decode` — accepted or rejected at any point — are at most
`304·len + 304` -/
theorem decodeDns_work_bounded (b : Bytes) : Safe.decodeDnsC b ≤ 304 * b.length + 304 := by
  have := Safe.decodeDnsC_le b
  simpa [Safe.costBound] using this

/-- on accepting runs the instrumented counter is the cost of the run -/
theorem decodeDns_work_is_cost {b : Bytes} {v : Msg} {d : D} (h : decodeDns b = .ok (v, d)) : Safe.decodeDnsC b = d.cost :=
  Safe.decodeDnsC_ok h

theorem decodeRR_work_bounded {b : Bytes} (hb : b.length < 2 ^ 63) : Safe.decodeRRC b ≤ 304 * b.length + 304 := by
  have := Safe.decodeRRC_le hb
  simpa [Safe.costBound] using this
theorem decodeName_work_bounded {b : Bytes} (hb : b.length < 2 ^ 63) : Safe.decodeNameC b ≤ 304 * b.length + 304 := by
  have := Safe.decodeNameC_le hb
  simpa [Safe.costBound] using this
theorem decodeQuestion_work_bounded {b : Bytes} (hb : b.length < 2 ^ 63) : Safe.decodeQuestionC b ≤ 304 * b.length + 304 := by
  have := Safe.decodeQuestionC_le hb
  simpa [Safe.costBound] using this

/-- the budget the harness arms the hook with is never reached -/
theorem budget_never_reached (b : Bytes) : Safe.decodeDnsC b ≤ 1000 * (b.length + 1) := Safe.decodeDnsC_le_budget b

end C07
