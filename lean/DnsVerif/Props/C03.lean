import DnsVerif.Lemmas.NameSound
import DnsVerif.Spec.Wire
import DnsVerif.Lemmas.SoundMsg
import DnsVerif.Spec.Formats
import DnsVerif.Lemmas.ExtraB

/-! # C03 — an accepted message means exactly what the RFCs say its bytes mean

`Spec/Wire.lean` is the independent relational wire grammar (`MsgAt`, `RRAt`, …, no cursors, no error
handling; per-type RDATA layouts transcribed from the RFCs; the library's documented rejection rules as
explicit side conditions). The theorems: whenever the model of `Dns::decode` (or of an element decoder)
accepts a byte string, the grammar relation holds on THAT buffer for THAT value at the same absolute
offsets — for all byte strings, no size bound. The model is tied to src/decode/** by the `dec.*`
correspondence stream (value, error kind and cost compared). -/

namespace C03

/-- an accepted name is what RFC 1035 §4.1.4 says the octets mean: labels of 1..=63 UTF-8 octets,
≤ 17 pointer hops, ≤ 255 wire octets, and the cursor is left just after the part stored in place -/
theorem name_sound {d d' : D} {n : Name} (h : d.name = .ok (n, d')) :
    NameRefAt d.buf false d.off n d'.off ∧ d'.buf = d.buf ∧ d'.lim = d.lim ∧ d.off < d'.off ∧ d'.off ≤ d.lim ∧ wfName n := by
  obtain ⟨hops, h17, hat, hb, hl, hlt, hle, hsz, hwf, hutf, _⟩ := _root_.name_sound h
  exact ⟨⟨hops, hat, by simpa [maxHops] using h17, hutf, hsz⟩, hb, hl, hlt, hle, hwf⟩

/-- the grammar is deterministic: a buffer position denotes at most one name -/
theorem name_unique {buf : Bytes} {bk : Bool} {off : Nat} {n n' : Name} {h h' e e' : Nat}
    (h1 : NameAt buf bk off n h e) (h2 : NameAt buf bk off n' h' e') : n = n' ∧ h = h' ∧ e = e' := h1.det h2

example : D.name { buf := [3, 119, 119, 119, 0, 1, 97, 192, 0], off := 5, lim := 9, cost := 0 } =
    .ok ([[97], [119, 119, 119]], { buf := [3, 119, 119, 119, 0, 1, 97, 192, 0], off := 9, lim := 9, cost := 9 }) := rfl

/-! ## Whole messages and elements -/

/-- **T-sound.** An accepted message is a rendering of the returned value according to the grammar:
header bits and counts, every name after pointer expansion, type, class, TTL, every RDATA field, option and
parameter; counts equal the section sizes; nothing follows the last record. -/
theorem decodeDns_sound {b : Bytes} {m : Msg} {d : D} (h : decodeDns b = .ok (m, d)) : MsgAt b false m := Sound.decodeDns_sound h

theorem decodeRR_sound {b : Bytes} {rr : RR} {d : D} (hb : b.length < 2 ^ 63) (h : decodeRR b = .ok (rr, d)) :
    RRAt b false 0 rr d.off ∧ d.off ≤ b.length := Sound.decodeRR_sound hb h
theorem decodeQuestion_sound {b : Bytes} {q : Question} {d : D} (hb : b.length < 2 ^ 63) (h : decodeQuestion b = .ok (q, d)) :
    QuestionAt b false 0 q d.off := Sound.decodeQuestion_sound hb h
theorem decodeName_sound {b : Bytes} {n : Name} {d : D} (h : decodeName b = .ok (n, d)) :
    NameRefAt b false 0 n d.off ∧ d.off ≤ b.length := Sound.decodeName_sound h
theorem decodeFlags_sound {b : Bytes} {f : Flags} {d : D} (hb : b.length < 2 ^ 63) (h : decodeFlags b = .ok (f, d)) :
    BytesAt b 0 (beBytes 2 (flagsWord f)) ∧ FlagsOk f ∧ d.off = 2 := Sound.decodeFlags_sound hb h

/-! ## The consequences the property names -/

/-- every accepted record (other than OPT, whose CLASS is the payload size) has a supported class -/
theorem accepted_class_supported {b : Bytes} {m : Msg} {d : D} (h : decodeDns b = .ok (m, d)) :
    ∀ rr ∈ Sound.Msg.rrs m, rr.ty ≠ 41 → classKnown rr.cls = true := Sound.accepted_class_supported h

/-- accepted A, WKS, AAAA, APL, SVCB and HTTPS records have wire class IN (needs the SVCB class repair) -/
theorem accepted_in_only {b : Bytes} {m : Msg} {d : D} (h : decodeDns b = .ok (m, d)) :
    ∀ rr ∈ Sound.Msg.rrs m, Sound.inOnlyType rr.ty → rr.cls = 1 := Sound.accepted_in_only h

/-- an accepted SVCB/HTTPS record has no duplicated SvcParamKey (needs the duplicate-key repair) -/
theorem no_duplicate_svcparam {b : Bytes} {m : Msg} {d : D} (h : decodeDns b = .ok (m, d)) :
    ∀ rr ∈ Sound.Msg.rrs m, ∀ prio target ps, rr.rd = .svcb prio target ps →
      keysSorted ps ∧ (ps.map SvcParam.key).Nodup := Sound.no_duplicate_svcparam h

/-- every name of an accepted message has at most 255 wire octets, labels of 1..=63 UTF-8 octets -/
theorem name_le_255 {b : Bytes} {m : Msg} {d : D} (h : decodeDns b = .ok (m, d)) :
    ∀ n ∈ Sound.Msg.names m, Name.sz n < 255 ∧ (Name.wire n).length ≤ 255 ∧ wfName n ∧ ∀ l ∈ n, validUtf8 l = true :=
  Sound.name_le_255 h

/-- a numeric field's value is the big-endian value of the octets at its offset (what catches a symmetric
swap or a short mask: the grammar is written from the RFC field order) -/
theorem value_on_wire {d d' : D} {w n : Nat} (hd : D.Ok d) (h : decField d (.num w) = .ok (.num n, d')) :
    beVal ((d.buf.drop d.off).take w) = n ∧ BytesAt d.buf d.off (beBytes w n) ∧ n < 256 ^ w ∧ d'.off = d.off + w :=
  Sound.value_on_wire hd h

/-! ## The accessors of a record are its wire header

In the model the accessors of a record are the fields `rr.name`, `rr.ty`, `rr.cls`, `rr.ttl` of `RR`. For OPT
(type 41) CLASS and TTL carry the payload size / extended RCODE, version, DO: `C15.opt_fields_position`.
Proofs: Lemmas/ExtraB.lean. -/

/-- the owner name of an accepted stand-alone record is at offset 0 and ends at `e`; TYPE, CLASS and TTL are the
eight octets at `e`, holding exactly the values the accessors return (which are in range, so the octets
determine them: `header_values_on_wire`) -/
theorem header_on_wire {b : Bytes} {rr : RR} {d : D} (hb : b.length < 2 ^ 63) (h : decodeRR b = .ok (rr, d))
    (hty : rr.ty ≠ 41) :
    ∃ e, NameRefAt b false 0 rr.name e ∧
      BytesAt b e (beBytes 2 rr.ty ++ beBytes 2 rr.cls ++ beBytes 4 rr.ttl) ∧
      rr.ty < 65536 ∧ rr.cls < 65536 ∧ rr.ttl < 2 ^ 32 := ExtraB.decodeRR_header hb h hty

/-- the accessor form: each accessor is the big-endian value of its header octets -/
theorem header_values_on_wire {b : Bytes} {rr : RR} {d : D} (hb : b.length < 2 ^ 63) (h : decodeRR b = .ok (rr, d))
    (hty : rr.ty ≠ 41) :
    ∃ e, NameRefAt b false 0 rr.name e ∧ e + 10 ≤ b.length ∧
      rr.ty = beVal ((b.drop e).take 2) ∧ rr.cls = beVal ((b.drop (e + 2)).take 2) ∧
      rr.ttl = beVal ((b.drop (e + 4)).take 4) := ExtraB.decodeRR_header_values hb h hty

/-- the same for every record (other than OPT) of every accepted message: its owner name is found at some
offset `off ≥ 12` of the message and its header right after the name -/
theorem msg_headers_on_wire {b : Bytes} {m : Msg} {d : D} (h : decodeDns b = .ok (m, d)) :
    ∀ rr ∈ Sound.Msg.rrs m, rr.ty ≠ 41 → ∃ off e, 12 ≤ off ∧ e + 10 ≤ b.length ∧
      NameRefAt b false off rr.name e ∧
      BytesAt b e (beBytes 2 rr.ty ++ beBytes 2 rr.cls ++ beBytes 4 rr.ttl) ∧
      rr.ty = beVal ((b.drop e).take 2) ∧ rr.cls = beVal ((b.drop (e + 2)).take 2) ∧
      rr.ttl = beVal ((b.drop (e + 4)).take 4) := ExtraB.decodeDns_headers h

/-- positional form (which `off`): the record `rr` that follows the records `pre` in the concatenated answer,
authority and additional sections starts exactly where `pre` ends (`pre` starts where the question section
ends), its header follows its name, its RDLENGTH is at `e + 8`, and the records `post` fill the rest of the
message exactly -/
theorem msg_header_at_position {b : Bytes} {m : Msg} {d : D} {pre post : List RR} {rr : RR}
    (h : decodeDns b = .ok (m, d)) (hs : Sound.Msg.rrs m = pre ++ rr :: post) (hty : rr.ty ≠ 41) :
    ∃ e1 off e rdlen, QuestionsAt b false 12 m.qs e1 ∧ RRsAt b false e1 pre off ∧ 12 ≤ off ∧
      NameRefAt b false off rr.name e ∧
      BytesAt b e (beBytes 2 rr.ty ++ beBytes 2 rr.cls ++ beBytes 4 rr.ttl) ∧
      BytesAt b (e + 8) (beBytes 2 rdlen) ∧ RRsAt b false (e + 10 + rdlen) post b.length ∧
      rr.ty < 65536 ∧ rr.cls < 65536 ∧ rr.ttl < 2 ^ 32 := ExtraB.decodeDns_header_at h hs hty

/-- non-vacuity: `a. 60 IN A 10.0.0.1` stand-alone, and as the compressed answer of a response -/
private def exR : Bytes := [1, 97, 0, 0, 1, 0, 1, 0, 0, 0, 60, 0, 4, 10, 0, 0, 1]
private def exRR : RR := ⟨[[97]], 1, 1, 60, .fields [.bytes [10, 0, 0, 1]]⟩

set_option maxRecDepth 8192 in
private theorem exR_decoded : decodeRR exR = .ok (exRR, { buf := exR, off := 17, lim := 17, cost := 21 }) := rfl

example : ∃ e, NameRefAt exR false 0 [[97]] e ∧ BytesAt exR e (beBytes 2 1 ++ beBytes 2 1 ++ beBytes 4 60) ∧
    (1 : Nat) < 65536 ∧ (1 : Nat) < 65536 ∧ (60 : Nat) < 2 ^ 32 :=
  header_on_wire (rr := exRR) (by decide) exR_decoded (by decide)

private def exB : Bytes :=
  [0x12, 0x34, 0x81, 0x80, 0, 1, 0, 1, 0, 0, 0, 0, 1, 97, 0, 0, 1, 0, 1,
   192, 12, 0, 1, 0, 1, 0, 0, 0, 60, 0, 4, 10, 0, 0, 1]

private def exM : Msg :=
  { id := 0x1234
    flags := ⟨true, 0, false, false, true, true, false, false, 0⟩
    qs := [⟨[[97]], 1, 1⟩]
    an := [exRR]
    ns := []
    ar := [] }

set_option maxRecDepth 8192 in
private theorem exB_decoded : decodeDns exB = .ok (exM, { buf := exB, off := 35, lim := 35, cost := 42 }) := rfl

example : ∃ off e, 12 ≤ off ∧ e + 10 ≤ exB.length ∧ NameRefAt exB false off exRR.name e ∧
    BytesAt exB e (beBytes 2 exRR.ty ++ beBytes 2 exRR.cls ++ beBytes 4 exRR.ttl) ∧
    exRR.ty = beVal ((exB.drop e).take 2) ∧ exRR.cls = beVal ((exB.drop (e + 2)).take 2) ∧
    exRR.ttl = beVal ((exB.drop (e + 4)).take 4) :=
  msg_headers_on_wire exB_decoded exRR (by simp [Sound.Msg.rrs, exM]) (by decide)

example : ∃ e1 off e rdlen, QuestionsAt exB false 12 exM.qs e1 ∧ RRsAt exB false e1 [] off ∧ 12 ≤ off ∧
    NameRefAt exB false off exRR.name e ∧
    BytesAt exB e (beBytes 2 exRR.ty ++ beBytes 2 exRR.cls ++ beBytes 4 exRR.ttl) ∧
    BytesAt exB (e + 8) (beBytes 2 rdlen) ∧ RRsAt exB false (e + 10 + rdlen) [] exB.length ∧
    exRR.ty < 65536 ∧ exRR.cls < 65536 ∧ exRR.ttl < 2 ^ 32 :=
  msg_header_at_position (pre := []) (post := []) exB_decoded rfl (by decide)

/-! ## The record table is what the RFCs say (independent transcription) -/

/-- the wire formats of a type's fields according to the model's table (transcribed from the code) -/
def modelFormat (ty : Nat) : Option (List Fld) :=
  match rrKind ty with
  | some (.regular i) => some (i.flds.map (·.2))
  | _ => none

theorem tables_agree_implemented : ∀ ty ∈ implementedTypes,
    (modelFormat ty == (Spec.rdataFormat ty).map (fun l => l.map (·.2))) = true := by decide

theorem rrKind_none_of_not_implemented {ty : Nat} (h : ty ∉ implementedTypes) : rrKind ty = none := by
  unfold rrKind
  split <;> first | rfl | (exfalso; apply h; decide)

theorem rdataFormat_none_of_not_implemented {ty : Nat} (h : ty ∉ implementedTypes) : Spec.rdataFormat ty = none := by
  unfold Spec.rdataFormat
  split <;> first | rfl | (exfalso; apply h; decide)

/-- **for EVERY type code**, the field order, widths, validators and compressibility that the model (and,
through the correspondence check, the code) uses are the ones of the RFC transcription `Spec.rdataFormat` -/
theorem tables_agree (ty : Nat) : modelFormat ty = (Spec.rdataFormat ty).map (fun l => l.map (·.2)) := by
  by_cases h : ty ∈ implementedTypes
  · have := tables_agree_implemented ty h
    simpa using this
  · simp [modelFormat, rrKind_none_of_not_implemented h, rdataFormat_none_of_not_implemented h]

/-- the class-less record types of the table are exactly the Internet-specific ones of the RFCs -/
theorem in_only_agree : ∀ ty ∈ implementedTypes,
    (match rrKind ty with
      | some (.regular i) => i.inOnly.isSome
      | _ => false) = Spec.inOnly.contains ty := by decide

end C03
