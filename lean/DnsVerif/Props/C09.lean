import DnsVerif.Lemmas.DecPrim
import DnsVerif.Lemmas.SoundMsg
import DnsVerif.Lemmas.SafeCost
import DnsVerif.Lemmas.SafeLocalBodies

/-! # C09 — record, option and parameter framing is exact

Every length-delimited window of the decoder (RDATA, EDNS option, APL address, SvcParam) is opened by
`D.withSub len f` (the model of `sub(len)` … `finished()`). Part 1: a successful `withSub` means the window
lies inside the parent, `f` ran with exactly that window as its limit and ended exactly at the window's end,
and the parent continues right after it; the primitive readers never return an octet outside their window.
Part 2: records consume exactly their RDLENGTH, options / APL address windows / SvcParams exactly their
own length, sections hold exactly the announced number of entries, nothing follows the last record.
"Octets of a neighbouring record are never absorbed into a field": every reader returns only octets of
`[off, lim)` (`*_within`), the only reader that leaves the window is the pointer branch of the name decoder. -/

namespace C09

theorem window_exact {α : Type} {d d' : D} {len : Nat} {f : D → Except DErr (α × D)} {a : α}
    (h : d.withSub len f = .ok (a, d')) :
    d.off + len ≤ d.lim ∧
    ∃ c, f { buf := d.buf, off := d.off, lim := d.off + len, cost := d.cost + len } = .ok (a, c) ∧
      c.off = c.lim ∧ d' = { d with off := d.off + len, cost := c.cost } := withSub_ok h

/-- a read returns exactly the next `n` octets of the window and fails rather than leave it -/
theorem read_within {d d' : D} {n : Nat} {bs : Bytes} (h : d.read n = .ok (bs, d')) :
    d.off + n ≤ d.lim ∧ bs = (d.buf.drop d.off).take n ∧ d'.off = d.off + n := by
  obtain ⟨h1, _, h3, h4⟩ := read_ok h
  exact ⟨h1, h3, by rw [h4]⟩

/-- `finished()` succeeds only when the window is fully consumed -/
theorem finished_exact {d : D} (h : d.finished = .ok ()) : d.off = d.lim := finished_ok h

/-! ## Records, options, items, parameters, sections -/

/-- each record's fields consume exactly its RDLENGTH -/
theorem rr_consumes_rdlength {d d' : D} {rr : RR} (hd : D.Ok d) (h : decRR d = .ok (rr, d')) :
    ∃ e rdlen, NameRefAt d.buf false d.off rr.name e ∧ BytesAt d.buf (e + 8) (beBytes 2 rdlen) ∧
      rdlen < 65536 ∧ RDataAt d.buf false (e + 10 + rdlen) rr.ty (e + 10) rr.rd ∧ d'.off = e + 10 + rdlen :=
  Sound.rr_consumes_rdlength hd h

/-- each EDNS option consumes exactly its own length -/
theorem option_consumes_length {d d' : D} {o : EdnsOpt} (hd : D.Ok d) (h : decOption d = .ok (o, d')) :
    ∃ len, BytesAt d.buf (d.off + 2) (beBytes 2 len) ∧ len < 65536 ∧ d'.off = d.off + 4 + len := Sound.option_consumes_length hd h

/-- each APL item consumes exactly its AFDLENGTH -/
theorem apl_address_consumes_length {d d' : D} {it : APItem} (hd : D.Ok d) (h : decApItem d = .ok (it, d')) :
    ∃ k, k < 128 ∧ d.buf[d.off + 3]? = some (UInt8.ofNat (k + if it.neg then 128 else 0)) ∧ d'.off = d.off + 4 + k :=
  Sound.apl_address_consumes_length hd h

/-- each SvcParam consumes exactly its own length -/
theorem svcparam_consumes_length {d d1 d2 d3 : D} {key len : Nat} {p : SvcParam} (hd : D.Ok d)
    (h1 : d.num 2 = .ok (key, d1)) (h2 : d1.num 2 = .ok (len, d2)) (h3 : d2.withSub len (decSvcParam key) = .ok (p, d3)) :
    BytesAt d.buf (d.off + 2) (beBytes 2 len) ∧ d3.off = d.off + 4 + len ∧ SvcValueAt d.buf (d.off + 4 + len) (d.off + 4) p :=
  Sound.svcparam_consumes_length hd h1 h2 h3

/-- each section holds exactly the announced number of entries -/
theorem sections_exact_questions (k : Nat) {d d' : D} {qs : List Question} (hd : D.Ok d) (h : decQuestions k d = .ok (qs, d')) :
    qs.length = k := (Sound.decQuestions_sound k hd h).2.1
theorem sections_exact_records (k : Nat) {d d' : D} {rs : List RR} (hd : D.Ok d) (h : decRRs k d = .ok (rs, d')) :
    rs.length = k := (Sound.decRRs_sound k hd h).2.1

/-- a message is accepted only if the grammar's exact length accounting holds (counts = section sizes,
every window exactly filled) and nothing follows the last record -/
theorem nothing_follows {b : Bytes} {m : Msg} {d : D} (hb : b.length < 2 ^ 63) (h : decodeDns b = .ok (m, d)) :
    MsgAt b false m ∧ d.off = b.length := by
  have := Sound.decodeDns_sound' hb h
  exact ⟨this.1, this.2⟩

/-- the same without the length hypothesis: an accepted message has at most 65536 octets (the decoder's own
gate at the start of `Decoder::dns`), so `hb` of `nothing_follows` always holds -/
theorem nothing_follows' {b : Bytes} {m : Msg} {d : D} (h : decodeDns b = .ok (m, d)) :
    MsgAt b false m ∧ d.off = b.length :=
  nothing_follows (by have := (Safe.decodeDns_ok_length h).2; omega) h

/-- the RDATA reader of a record runs with the RDATA window as its limit -/
theorem rdata_reader_window {d d' : D} {r : RR} (hd : D.Ok d) (h : decRR d = .ok (r, d')) :
    ∃ (name : Name) (ty cls ttl rdlen : Nat) (d5 c : D), D.Ok d5 ∧ d5.buf = d.buf ∧ d5.lim = d.lim ∧
      d.off + 11 ≤ d5.off ∧ d5.off + rdlen ≤ d.lim ∧
      decRData name ty cls ttl { buf := d.buf, off := d5.off, lim := d5.off + rdlen, cost := d5.cost + rdlen }
        = .ok (r, c) ∧ c.off = d5.off + rdlen ∧ c.lim = d5.off + rdlen ∧ d'.off = d5.off + rdlen := Safe.decRR_framing hd h

/-! ## Octets of a neighbouring record are never absorbed -/

/-- a record that decodes on the message cut anywhere at or after its end decodes to the SAME record,
cursor and cost whatever octets follow the cut: nothing behind the record can influence it. (The
hypothesis "succeeds on the cut buffer" is exactly the exclusion "other than by following a compression
pointer": a forward pointer beyond the cut makes the cut run fail.) -/
theorem record_local {pre : Bytes} (suf : Bytes) {off lim cost : Nat} {r : RR} {d' : D}
    (hol : off ≤ lim) (hlim : lim ≤ pre.length) (hlen : (pre ++ suf).length < 2 ^ 63)
    (h : decRR { buf := pre, off := off, lim := lim, cost := cost } = .ok (r, d')) :
    decRR { buf := pre ++ suf, off := off, lim := lim, cost := cost } =
      .ok (r, { buf := pre ++ suf, off := d'.off, lim := d'.lim, cost := d'.cost }) := Safe.decRR_local suf hol hlim hlen h

/-- the same for the RDATA reader inside its window -/
theorem rdata_local {pre : Bytes} (suf : Bytes) {name : Name} {ty cls ttl off lim cost : Nat} {r : RR} {c' : D}
    (hol : off ≤ lim) (hlim : lim ≤ pre.length) (hlen : (pre ++ suf).length < 2 ^ 63)
    (h : decRData name ty cls ttl { buf := pre, off := off, lim := lim, cost := cost } = .ok (r, c')) :
    decRData name ty cls ttl { buf := pre ++ suf, off := off, lim := lim, cost := cost } =
      .ok (r, { buf := pre ++ suf, off := c'.off, lim := c'.lim, cost := c'.cost }) := Safe.decRData_local suf hol hlim hlen h

end C09
