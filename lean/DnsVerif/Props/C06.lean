import DnsVerif.Lemmas.EncName
import DnsVerif.Lemmas.NameComplete
import DnsVerif.Lemmas.Text

/-! # C06 — name compression is transparent and stays within pointer limits

For EVERY history of one encoder instance (`Reach S e`: any finite sequence of compressed / literal
name writes, arbitrary other appends, length placeholders and their back-patches — Lemmas/EncName.lean),
every name written next

* decodes back (with the model of `Decoder::domain_name`, in every buffer that extends/agrees with the
  output) to a name equal to the written one up to ASCII case,
* through backward pointers only, needing at most 16 hops,
* and writing it cannot fail except with `Length` when a label would start beyond offset 65,535
  (`MaxRecursion` and `Compression` are unreachable).

Model: `encName` / `encNameGo` / `Enc.merge` (Model/Enc.lean) for src/encode/domain_name.rs,
`D.name` (Model/Dec.lean) for src/decode/domain_name.rs; tied by the `enc.dns` name-sequence stream. -/

namespace C06

theorem lower_eq_ciEq {a b : Name} (h : a.lower = b.lower) : ciEq a b = true := by
  simp [ciEq, h]

/-- labels of a name that is ASCII-case-equal to a UTF-8 name are UTF-8 -/
theorem utf8_of_lower_eq {a b : Name} (h : a.lower = b.lower) (hb : ∀ l ∈ b, validUtf8 l = true) :
    ∀ l ∈ a, validUtf8 l = true := by
  intro l hl
  obtain ⟨i, hi, rfl⟩ := List.getElem_of_mem hl
  have hc := lower_eq_ciEq h
  have hlen : a.length = b.length := (ciEq_same_shape hc).1
  rw [ciEq_validUtf8 hc i hi (by omega)]
  exact hb _ (List.getElem_mem _)

/-- the table invariant holds after every history -/
theorem reachable_inv {S : Nat → Prop} {e : Enc} (h : Reach S e) : EInv S e := _root_.reachable_inv h

/-- **Transparency.** After any history, a legal name that the encoder writes is read back by the
decoder as the same name up to ASCII case, via backward pointers and at most 16 hops, in every buffer
that agrees with the output on the octets written so far. -/
theorem encName_transparent {S : Nat → Prop} {e e' : Enc} {n : Name} (hr : Reach S e)
    (hwf : wfName n) (hutf : ∀ l ∈ n, validUtf8 l = true) (hsz : Name.sz n < 255)
    (h : encName e n = .ok e') :
    ∃ n' hops, n'.lower = n.lower ∧ hops ≤ 16 ∧
      ∀ buf' lim c, Agree (ext S e.out.length e'.out.length) e'.out buf' →
        e'.out.length ≤ lim → lim ≤ buf'.length → buf'.length < 2 ^ 63 →
        NameAt buf' true e.out.length n' hops e'.out.length ∧
        D.name { buf := buf', off := e.out.length, lim := lim, cost := c } =
          .ok (n', { buf := buf', off := e'.out.length, lim := lim, cost := c + 1 + Name.sz n' + 2 * hops }) := by
  obtain ⟨_, _, _, _, n', hops, hlow, hh, hat⟩ := encName_spec n S e e' hwf (_root_.reachable_inv hr) h
  refine ⟨n', hops, hlow, hh, ?_⟩
  intro buf' lim c hag hlim hlb hB
  have hn := hat buf' hag
  refine ⟨hn, ?_⟩
  have hc := lower_eq_ciEq hlow
  exact name_complete hn (by omega) (utf8_of_lower_eq hlow hutf) (by rw [ciEq_sz hc]; exact hsz) hlim hlb hB

/-- **No sequence of legal names makes encoding fail** (other than by leaving the 65,535-octet range). -/
theorem encName_never_fails_in_range {S : Nat → Prop} {e : Enc} {n : Name} (hr : Reach S e) (hwf : wfName n)
    (hsz : e.out.length + Name.sz n ≤ 65537) : ∃ e', encName e n = .ok e' ∧ Reach (ext S e.out.length e'.out.length) e' := by
  obtain ⟨e', he'⟩ := encName_total (_root_.reachable_inv hr) hwf hsz
  exact ⟨e', he', Reach.name n hr hwf he'⟩

/-- the only possible failure, from any reachable state -/
theorem encName_only_length_error {S : Nat → Prop} {e : Enc} {n : Name} {err : EErr} (hr : Reach S e) (hwf : wfName n)
    (h : encName e n = .error err) : err = .length := (encName_error (_root_.reachable_inv hr) hwf h).1

/-- compression never makes a name longer than its literal form -/
theorem compressed_le_literal {e e' : Enc} {n : Name} (h : encName e n = .ok e') :
    e.out.length + 1 ≤ e'.out.length ∧ e'.out.length ≤ e.out.length + Name.sz n + 1 := encName_length_le h

/-- ASCII-case-equal names have label-wise equal lengths: compression changes octets only in ASCII case -/
theorem compress_only_case {a b : Name} (h : a.lower = b.lower) :
    a.length = b.length ∧ ∀ i (ha : i < a.length) (hb : i < b.length), a[i].length = b[i].length :=
  ciEq_same_shape (lower_eq_ciEq h)

/-! non-vacuity: `a.b` then `C.B` from the empty encoder; the second name is a label and a pointer -/
example : (match encName {} [[97], [98]] with
    | .ok e => (match encName e [[67], [66]] with
      | .ok e' => e'.out
      | .error _ => [])
    | .error _ => []) = [1, 97, 1, 98, 0, 1, 67, 192, 2] := by decide

end C06
