import DnsVerif.Lemmas.EncName
import DnsVerif.Lemmas.EncSpecRR

/-! # C18 — names inside RDATA of post-RFC-1035 types are never emitted compressed

Part 1: which fields of the record table may be compressed, and what the literal writer emits. Part 2:
record level — for RP, AFSDB, RT, PX, SRV, KX, DNAME, LP, from ANY encoder state satisfying the table
invariant (any history), the RDATA holds every name literally (exact octets `Name.wire n`, zero hops). The SVCB/HTTPS
target IS compressed by the code (known finding K1, pinned by the crate's own unit tests). -/

namespace C18

theorem compress_flags_bool (ty : Nat) (info : RRInfo) (h : rrKind ty = some (.regular info))
    (hc : info.flds.any (fun f => f.2 == .name true) = true) : ty ∈ [2, 3, 4, 5, 6, 7, 8, 9, 12, 14, 15] := by
  unfold rrKind at h
  split at h <;> simp at h <;> subst h <;> first
    | decide
    | (revert hc; decide)

/-- only the RDATA names of NS, MD, MF, CNAME, SOA, MB, MG, MR, PTR, MINFO and MX go through the
compressing writer -/
theorem compress_flags_rfc1035 (ty : Nat) (info : RRInfo) (h : rrKind ty = some (.regular info))
    (f : String × Fld) (hf : f ∈ info.flds) (hc : f.2 = .name true) : ty ∈ [2, 3, 4, 5, 6, 7, 8, 9, 12, 14, 15] :=
  compress_flags_bool ty info h (List.any_eq_true.mpr ⟨f, hf, by simp [hc]⟩)

/-- the literal writer appends exactly the uncompressed wire form, leaves the compression table
unchanged, and what it wrote can only be read as that very name with zero pointer hops -/
theorem uncompressed_literal (n : Name) (S : Nat → Prop) (e e' : Enc) (hwf : wfName n) (hinv : EInv S e)
    (h : encNameU e n = .ok e') :
    e'.out = e.out ++ Name.wire n ∧ e'.idx = e.idx ∧
    ∀ buf', Agree (ext S e.out.length e'.out.length) e'.out buf' → NameAt buf' true e.out.length n 0 e'.out.length := by
  obtain ⟨h1, h2, _, h4⟩ := encNameU_spec n S e e' hwf hinv h
  exact ⟨h1, h2, h4⟩

/-- RP, AFSDB, RT, PX, SRV, KX, DNAME, LP: no name field goes through the compressing writer -/
theorem newtype_names_uncompressed :
    ∀ ty ∈ [17, 18, 21, 26, 33, 36, 39, 107], ∀ info, rrKind ty = some (.regular info) →
      ∀ f ∈ info.flds, f.2 ≠ .name true := by
  intro ty hty info h f hf hc
  have := compress_flags_rfc1035 ty info h f hf hc
  simp at hty this
  omega

/-! ## Record level -/

/-- for a well-formed record whose table row has no compressible name field, the RDATA written from any
encoder state holds exactly the given field values with every name stored literally -/
theorem rdata_no_pointer {S : Nat → Prop} {e e' : Enc} {rr : RR} {info : RRInfo} {vs : List FVal}
    (hinv : EInv S e) (hwf : WfRR rr) (hk : rrKind rr.ty = some (.regular info))
    (hnc : ∀ f ∈ info.flds, f.2 ≠ .name true) (hrd : rr.rd = .fields vs) (h : encRR e rr = .ok e') :
    ∀ buf', Agree (ext S e.out.length e'.out.length) e'.out buf' →
      ∃ owner' e1 rdlen, owner'.lower = rr.name.lower ∧ NameRefAt buf' true e.out.length owner' e1 ∧
        e'.out.length = e1 + 10 + rdlen ∧ BytesAt buf' (e1 + 8) (beBytes 2 rdlen) ∧
        EncSpec.LitFieldsAt buf' (e1 + 10 + rdlen) (e1 + 10) (info.flds.map (·.2)) vs :=
  EncSpec.rdata_no_pointer hinv hwf hk hnc hrd h

/-- exactly RP, AFSDB, RT, PX, SRV, KX, DNAME, LP have name fields and none compressible -/
theorem literal_name_types {ty : Nat} {info : RRInfo} (hk : rrKind ty = some (.regular info)) :
    ty ∈ [17, 18, 21, 26, 33, 36, 39, 107] ↔
      ((∃ f ∈ info.flds, f.2 = .name false) ∧ ∀ f ∈ info.flds, f.2 ≠ .name true) := by
  have := EncSpec.literalNameTypes_spec hk
  simpa [EncSpec.literalNameTypes] using this

/-- known finding K1 (recorded; the crate's own unit tests pin these bytes): the SVCB target of
`a. SVCB 1 a.` is written as a pointer `c0 00` to the owner name -/
theorem K1_svcb_target_compressed :
    encodeRR EncSpec.k1Record = .ok [1, 97, 0, 0, 64, 0, 1, 0, 0, 0, 0, 0, 4, 0, 1, 0xC0, 0x00] :=
  EncSpec.svcb_target_compressed_witness

end C18
