import DnsVerif.Lemmas.EncName

/-! # C18 — names inside RDATA of post-RFC-1035 types are never emitted compressed (part 1)

Part 1: which fields of the record table may be compressed, and what the literal writer emits. Part 2
(record level `rdata_no_pointer`, from Lemmas/EncSpec*.lean) is appended when complete. The SVCB/HTTPS
target IS compressed by the code (known finding K1, pinned by the crate's own unit tests). -/

namespace C18

theorem compress_flags_bool (ty : Nat) (info : RRInfo) (h : rrKind ty = some (.regular info))
    (hc : info.flds.any (fun f => f.2 == .name true) = true) : ty ∈ [2, 3, 4, 5, 6, 7, 8, 9, 12, 14, 15] := by
  unfold rrKind at h
  split at h <;> simp at h <;> subst h <;> first
    | decide
    | (revert hc; decide)

/-- only the RDATA names of NS, MD, MF, CNAME, SOA, MB, MG, MR, PTR, MINFO and MX go through the
compressing writer -/
theorem compress_flags_rfc1035 (ty : Nat) (info : RRInfo) (h : rrKind ty = some (.regular info))
    (f : String × Fld) (hf : f ∈ info.flds) (hc : f.2 = .name true) : ty ∈ [2, 3, 4, 5, 6, 7, 8, 9, 12, 14, 15] :=
  compress_flags_bool ty info h (List.any_eq_true.mpr ⟨f, hf, by simp [hc]⟩)

/-- the literal writer appends exactly the uncompressed wire form, leaves the compression table
unchanged, and what it wrote can only be read as that very name with zero pointer hops -/
theorem uncompressed_literal (n : Name) (S : Nat → Prop) (e e' : Enc) (hwf : wfName n) (hinv : EInv S e)
    (h : encNameU e n = .ok e') :
    e'.out = e.out ++ Name.wire n ∧ e'.idx = e.idx ∧
    ∀ buf', Agree (ext S e.out.length e'.out.length) e'.out buf' → NameAt buf' true e.out.length n 0 e'.out.length := by
  obtain ⟨h1, h2, _, h4⟩ := encNameU_spec n S e e' hwf hinv h
  exact ⟨h1, h2, h4⟩

/-- RP, AFSDB, RT, PX, SRV, KX, DNAME, LP: no name field goes through the compressing writer -/
theorem newtype_names_uncompressed :
    ∀ ty ∈ [17, 18, 21, 26, 33, 36, 39, 107], ∀ info, rrKind ty = some (.regular info) →
      ∀ f ∈ info.flds, f.2 ≠ .name true := by
  intro ty hty info h f hf hc
  have := compress_flags_rfc1035 ty info h f hf hc
  simp at hty this
  omega

end C18
