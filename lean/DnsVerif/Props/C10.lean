import DnsVerif.Props.C11
import DnsVerif.Props.C06
import DnsVerif.Lemmas.RTEmbedAll
import DnsVerif.Lemmas.RTElem
import DnsVerif.Lemmas.RTShift2
import DnsVerif.Lemmas.ExtraC

/-! # C10 — stand-alone element codecs agree with the message codec

Part 1: the elements whose codecs are closed under the theorems that exist: header flags (all values with
a 4-bit rcode), the four two-octet codes (all 65,536 values), names (from the empty encoder = the
stand-alone `DomainName::encode`). In the model the struct-level `encode()` wrappers and `RR::encode` are
the same function on a fresh encoder (`encodeRR`), which the `enc.struct` / `enc.rr` streams check against
the crate. Part 2: questions and records round-trip through their own codec pair (every one of the 46
record types), and a record's stand-alone bytes are exactly what it occupies as the first record of a
message whenever the stand-alone encoding contains no pointer (`b.length = rr.usize`, `elem_embeds`). Part 3: in
general (`elem_embeds_shift`, every well-formed record, no size bound) the octets the record occupies after the
twelve header octets are its stand-alone octets with the compression pointers at some positions `P` moved by
exactly 12 and nothing else changed (`RTS.ShiftEq`); a question written first is embedded unchanged
(`question_embeds`). Part 4: the same embedding for the first record in wire order in whichever record section it
stands (`elem_embeds_first`, `…_authority`, `…_additional`), the flag octets (`flags_embed`) and the name of the first
question (`name_embeds_as_qname`). The correspondence run checks the same rule on the crate with a pointer-shift oracle. -/

namespace C10

theorem flags_roundtrip (f : Flags) (hop : opcodeKnown f.opcode = true) (hrc : rcodeKnown f.rcode = true ∧ f.rcode < 16) :
    decodeFlags (encodeFlags f) = .ok (f, C11.consumed2 (encodeFlags f)) := C11.flags_encode_decode f hop hrc

theorem type_roundtrip (n : Nat) (hn : n < 65536) (hk : typeKnown n = true) :
    decodeType (encodeCode n) = .ok (n, C11.consumed2 (beBytes 2 n)) := (C11.Type_reject_carries_code n hn).2 hk
theorem class_roundtrip (n : Nat) (hn : n < 65536) (hk : classKnown n = true) :
    decodeClass (encodeCode n) = .ok (n, C11.consumed2 (beBytes 2 n)) := (C11.Class_reject_carries_code n hn).2 hk
theorem qtype_roundtrip (n : Nat) (hn : n < 65536) (hk : qtypeKnown n = true) :
    decodeQType (encodeCode n) = .ok (n, C11.consumed2 (beBytes 2 n)) := (C11.QType_reject_carries_code n hn).2 hk
theorem qclass_roundtrip (n : Nat) (hn : n < 65536) (hk : qclassKnown n = true) :
    decodeQClass (encodeCode n) = .ok (n, C11.consumed2 (beBytes 2 n)) := (C11.QClass_reject_carries_code n hn).2 hk

/-- a name from a fresh encoder (`DomainName::encode`) is the literal wire form read back as the same name -/
theorem name_roundtrip {e' : Enc} {n : Name} (hwf : wfName n) (hutf : ∀ l ∈ n, validUtf8 l = true) (hsz : Name.sz n < 255)
    (h : encName {} n = .ok e') (hB : e'.out.length < 2 ^ 63) :
    ∃ n' c', n'.lower = n.lower ∧ decodeName e'.out = .ok (n', { buf := e'.out, off := e'.out.length, lim := e'.out.length, cost := c' }) := by
  obtain ⟨n', hops, hlow, _, hall⟩ := C06.encName_transparent Reach.init hwf hutf hsz h
  have := (hall e'.out e'.out.length 0 (Agree.refl _ _) (Nat.le_refl _) (Nat.le_refl _) hB).2
  exact ⟨n', _, hlow, by simpa [decodeName, D.main] using this⟩

/-! ## Records, questions, embedding -/

theorem rr_roundtrip {rr : RR} {b : Bytes} (hwf : WfRR rr) (h : encodeRR rr = .ok b) :
    ∃ rr' d, decodeRR b = .ok (rr', d) ∧ rr'.norm = rr.norm ∧ d.off = b.length := RT.rr_roundtrip hwf h

theorem question_roundtrip {q : Question} {b : Bytes} (hwf : WfQuestion q) (h : encodeQuestion q = .ok b) :
    ∃ q' d, decodeQuestion b = .ok (q', d) ∧ q'.lower = q.lower ∧ d.off = b.length := RT.question_roundtrip hwf h

/-- a stand-alone name is read back exactly (no case change: nothing is compressed in a fresh encoder) -/
theorem name_roundtrip_exact {n : Name} {b : Bytes} (hwf : WfName n) (h : encodeName n = .ok b) :
    ∃ d, decodeName b = .ok (n, d) ∧ d.off = b.length := RT.name_roundtrip hwf h

/-- the element occupies, as first record of a message, exactly its stand-alone bytes (pointer-free case; all types) -/
theorem elem_embeds {m : Msg} {rr : RR} {rest : List RR} {b bm : Bytes} (hsm : EncLim.ShapedMsg m) (hwf : WfRR rr)
    (hq : m.qs = []) (han : m.an = rr :: rest) (h : encodeRR rr = .ok b) (hfull : b.length = rr.usize)
    (hm : encodeDns m = .ok bm) : ∃ tail, bm = EncLim.msgHeader m ++ b ++ tail := RT.elem_embeds hsm hwf hq han h hfull hm

/-- **the embedding up to the shift of pointer offsets**: for every well-formed record, the octets it occupies as the
first record of a message (after the twelve header octets) are its stand-alone octets except that the compression
pointers at the positions `P` (each a backward pointer inside the element) point 12 octets further -/
theorem elem_embeds_shift {m : Msg} {rr : RR} {rest : List RR} {b bm : Bytes} (hsm : EncLim.ShapedMsg m) (hwf : WfRR rr)
    (hq : m.qs = []) (han : m.an = rr :: rest) (h : encodeRR rr = .ok b) (hm : encodeDns m = .ok bm) :
    ∃ P b' tail, bm = EncLim.msgHeader m ++ b' ++ tail ∧ RTS.ShiftEq P 12 b b' :=
  RTS.elem_embeds_shift_wf hsm hwf hq han h hm

/-- the same for records that are only shaped like their type (no well-formedness), when the element is short enough
for the insertion guard `offset ≤ 0x3FFF` to agree in both runs (needed: counterexample in Lemmas/RTShift.lean) -/
theorem elem_embeds_shift_small {m : Msg} {rr : RR} {rest : List RR} {b bm : Bytes} (hsm : EncLim.ShapedMsg m)
    (hq : m.qs = []) (han : m.an = rr :: rest) (h : encodeRR rr = .ok b) (hsmall : b.length + 12 ≤ 0x4000)
    (hm : encodeDns m = .ok bm) : ∃ P b' tail, bm = EncLim.msgHeader m ++ b' ++ tail ∧ RTS.ShiftEq P 12 b b' :=
  RTS.elem_embeds_shift_of_shaped hsm hq han h hsmall hm

/-- the first question of a message is written exactly as `Question::encode` writes it -/
theorem question_embeds {m : Msg} {q : Question} {rest : List Question} {b bm : Bytes} (hsm : EncLim.ShapedMsg m)
    (hq : m.qs = q :: rest) (h : encodeQuestion q = .ok b) (hm : encodeDns m = .ok bm) :
    ∃ tail, bm = EncLim.msgHeader m ++ b ++ tail := RTS.question_embeds hsm hq h hm

/-! ## The first element of a message, whichever it is

`elem_embeds` / `elem_embeds_shift` put the record first in the answer section. The same holds for the first record
in wire order in whichever record section it stands (`EncLim.msgRRs m = m.an ++ m.ns ++ m.ar`, questions empty), for
the header flags, and for the name of the first question. -/

/-- pointer-free case, the record is the first record of the message in wire order -/
theorem elem_embeds_first {m : Msg} {rr : RR} {rest : List RR} {b bm : Bytes} (hsm : EncLim.ShapedMsg m) (hwf : WfRR rr)
    (hq : m.qs = []) (hfirst : EncLim.msgRRs m = rr :: rest) (h : encodeRR rr = .ok b) (hfull : b.length = rr.usize)
    (hm : encodeDns m = .ok bm) : ∃ tail, bm = EncLim.msgHeader m ++ b ++ tail :=
  ExtraC.elem_embeds_first hsm hwf hq hfirst h hfull hm

/-- general case (pointers moved by 12), the record is the first record of the message in wire order -/
theorem elem_embeds_shift_first {m : Msg} {rr : RR} {rest : List RR} {b bm : Bytes} (hsm : EncLim.ShapedMsg m)
    (hwf : WfRR rr) (hq : m.qs = []) (hfirst : EncLim.msgRRs m = rr :: rest) (h : encodeRR rr = .ok b)
    (hm : encodeDns m = .ok bm) : ∃ P b' tail, bm = EncLim.msgHeader m ++ b' ++ tail ∧ RTS.ShiftEq P 12 b b' :=
  ExtraC.elem_embeds_shift_first hsm hwf hq hfirst h hm

/-- first record of the authority section (questions and answers empty) -/
theorem elem_embeds_authority {m : Msg} {rr : RR} {rest : List RR} {b bm : Bytes} (hsm : EncLim.ShapedMsg m)
    (hwf : WfRR rr) (hq : m.qs = []) (han : m.an = []) (hns : m.ns = rr :: rest) (h : encodeRR rr = .ok b)
    (hfull : b.length = rr.usize) (hm : encodeDns m = .ok bm) : ∃ tail, bm = EncLim.msgHeader m ++ b ++ tail :=
  elem_embeds_first (rest := rest ++ m.ar) hsm hwf hq (by simp [EncLim.msgRRs, han, hns]) h hfull hm

theorem elem_embeds_shift_authority {m : Msg} {rr : RR} {rest : List RR} {b bm : Bytes} (hsm : EncLim.ShapedMsg m)
    (hwf : WfRR rr) (hq : m.qs = []) (han : m.an = []) (hns : m.ns = rr :: rest) (h : encodeRR rr = .ok b)
    (hm : encodeDns m = .ok bm) : ∃ P b' tail, bm = EncLim.msgHeader m ++ b' ++ tail ∧ RTS.ShiftEq P 12 b b' :=
  elem_embeds_shift_first (rest := rest ++ m.ar) hsm hwf hq (by simp [EncLim.msgRRs, han, hns]) h hm

/-- first record of the additional section (all earlier sections empty) -/
theorem elem_embeds_additional {m : Msg} {rr : RR} {rest : List RR} {b bm : Bytes} (hsm : EncLim.ShapedMsg m)
    (hwf : WfRR rr) (hq : m.qs = []) (han : m.an = []) (hns : m.ns = []) (har : m.ar = rr :: rest)
    (h : encodeRR rr = .ok b) (hfull : b.length = rr.usize) (hm : encodeDns m = .ok bm) :
    ∃ tail, bm = EncLim.msgHeader m ++ b ++ tail :=
  elem_embeds_first (rest := rest) hsm hwf hq (by simp [EncLim.msgRRs, han, hns, har]) h hfull hm

theorem elem_embeds_shift_additional {m : Msg} {rr : RR} {rest : List RR} {b bm : Bytes} (hsm : EncLim.ShapedMsg m)
    (hwf : WfRR rr) (hq : m.qs = []) (han : m.an = []) (hns : m.ns = []) (har : m.ar = rr :: rest)
    (h : encodeRR rr = .ok b) (hm : encodeDns m = .ok bm) :
    ∃ P b' tail, bm = EncLim.msgHeader m ++ b' ++ tail ∧ RTS.ShiftEq P 12 b b' :=
  elem_embeds_shift_first (rest := rest) hsm hwf hq (by simp [EncLim.msgRRs, han, hns, har]) h hm

/-- every encoded message starts with the twelve header octets (`msgHeader`: id, flags, the four true counts) -/
theorem header_embeds {m : Msg} {bm : Bytes} (hsm : EncLim.ShapedMsg m) (hm : encodeDns m = .ok bm) :
    ∃ rest, bm = EncLim.msgHeader m ++ rest := ExtraC.header_embeds hsm hm

/-- the flag octets of a message (offsets 2 and 3) are exactly what the stand-alone `Flags::encode` writes -/
theorem flags_embed {m : Msg} {bm : Bytes} (hsm : EncLim.ShapedMsg m) (hm : encodeDns m = .ok bm) :
    (bm.drop 2).take 2 = encodeFlags m.flags := ExtraC.flags_embed hsm hm

/-- the name of the first question occupies offset 12.. exactly as the stand-alone `DomainName::encode` writes it -/
theorem name_embeds_as_qname {m : Msg} {q : Question} {rest : List Question} {b bm : Bytes} (hsm : EncLim.ShapedMsg m)
    (hq : m.qs = q :: rest) (h : encodeName q.name = .ok b) (hm : encodeDns m = .ok bm) :
    ∃ tail, bm = EncLim.msgHeader m ++ b ++ tail := ExtraC.name_embeds_as_qname hsm hq h hm

/-! non-vacuity: an A record as the only additional record; the flags and the question name of a query -/
example : ∃ tail, [0, 7, 0, 0, 0, 0, 0, 0, 0, 0, 0, 1, 1, 97, 0, 0, 1, 0, 1, 0, 0, 0, 60, 0, 4, 10, 0, 0, 1] =
    EncLim.msgHeader ⟨7, ⟨false, 0, false, false, false, false, false, false, 0⟩, [], [], [],
      [⟨[[97]], 1, 1, 60, .fields [.bytes [10, 0, 0, 1]]⟩]⟩ ++
      [1, 97, 0, 0, 1, 0, 1, 0, 0, 0, 60, 0, 4, 10, 0, 0, 1] ++ tail := ⟨[], rfl⟩
example : encodeDns ⟨7, ⟨false, 0, false, false, false, false, false, false, 0⟩, [], [], [],
      [⟨[[97]], 1, 1, 60, .fields [.bytes [10, 0, 0, 1]]⟩]⟩ =
    .ok [0, 7, 0, 0, 0, 0, 0, 0, 0, 0, 0, 1, 1, 97, 0, 0, 1, 0, 1, 0, 0, 0, 60, 0, 4, 10, 0, 0, 1] := rfl
example : encodeDns ⟨7, ⟨false, 0, false, false, true, false, false, false, 0⟩, [⟨[[97]], 1, 1⟩], [], [], []⟩ =
    .ok ([0, 7] ++ encodeFlags ⟨false, 0, false, false, true, false, false, false, 0⟩ ++ [0, 1, 0, 0, 0, 0, 0, 0] ++
      [1, 97, 0] ++ [0, 1, 0, 1]) ∧ encodeName [[97]] = .ok [1, 97, 0] := ⟨rfl, rfl⟩

/-- message decoder and element decoder agree on the record's value, pointers or not -/
theorem elem_codecs_agree {m : Msg} {rr : RR} {rest : List RR} {b bm : Bytes} (hwf : WfMsg m)
    (han : m.an = rr :: rest) (h : encodeRR rr = .ok b) (hm : encodeDns m = .ok bm) :
    ∃ m' d rr' d' r1, decodeDns bm = .ok (m', d) ∧ decodeRR b = .ok (rr', d') ∧ m'.an[0]? = some r1 ∧
      r1.norm = rr'.norm := RT.elem_codecs_agree hwf han h hm

end C10
