import DnsVerif.Spec.Wire
import DnsVerif.Model.Dec
import DnsVerif.Model.Enc

/-! # C16 — SVCB/HTTPS records follow the RFC 9460 wire rules (part 1: the parameter set)

Part 1: the model of `BTreeSet<ServiceParameter>` (a list kept sorted by key): inserting keeps keys
strictly increasing, refuses exactly a key that is present (`SVCBDuplicateKey`), and `mandatory` is
emitted sorted. Part 2 (per-kind value formats, lengths, class IN, alias form, round trip; from
Lemmas/Sound*/Complete*/EncSpec*.lean) is appended when complete; until then PARTIAL. -/

namespace C16

theorem keysSorted_tail {a : SvcParam} {r : List SvcParam} (h : keysSorted (a :: r)) : keysSorted r := by
  cases r with
  | nil => trivial
  | cons b r => exact h.2

theorem keysSorted_head_lt {a : SvcParam} {r : List SvcParam} (h : keysSorted (a :: r)) : ∀ q ∈ r, a.key < q.key := by
  induction r generalizing a with
  | nil => simp
  | cons b r ih =>
    intro q hq
    rcases List.mem_cons.mp hq with rfl | hq
    · exact h.1
    · exact Nat.lt_trans h.1 (ih h.2 q hq)

/-- inserting into a sorted set keeps the keys strictly increasing (no duplicates) and adds exactly `p` -/
theorem insertParam_sorted (p : SvcParam) : ∀ (l r : List SvcParam), keysSorted l → insertParam p l = some r →
    keysSorted r ∧ (∀ q, q ∈ r ↔ q = p ∨ q ∈ l) := by
  intro l
  induction l with
  | nil => intro r _ h; simp [insertParam] at h; subst h; simp [keysSorted]
  | cons a l ih =>
    intro r hs h
    unfold insertParam at h
    split at h
    · rename_i hlt
      injection h with h; subst h
      exact ⟨⟨hlt, hs⟩, fun q => by simp⟩
    · rename_i hnlt
      split at h
      · simp at h
      · rename_i hne
        cases hr : insertParam p l with
        | none => simp [hr] at h
        | some r' =>
          simp only [hr] at h
          injection h with h; subst h
          obtain ⟨hs', hm⟩ := ih r' (keysSorted_tail hs) hr
          refine ⟨?_, fun q => by simp [hm]; constructor <;> (intro hq; rcases hq with h1 | h1 | h1 <;> simp [h1])⟩
          cases r' with
          | nil => trivial
          | cons b r'' =>
            refine ⟨?_, hs'⟩
            have hb : b = p ∨ b ∈ l := (hm b).mp (by simp)
            rcases hb with rfl | hb
            · omega
            · exact keysSorted_head_lt hs b hb

/-- a duplicated key is refused, and only a duplicated key -/
theorem insertParam_none_iff (p : SvcParam) : ∀ (l : List SvcParam), keysSorted l →
    (insertParam p l = none ↔ ∃ q ∈ l, q.key = p.key) := by
  intro l
  induction l with
  | nil => intro _; simp [insertParam]
  | cons a l ih =>
    intro hs
    unfold insertParam
    split
    · rename_i hlt
      simp only [reduceCtorEq, false_iff]
      rintro ⟨q, hq, hk⟩
      rcases List.mem_cons.mp hq with rfl | hq
      · omega
      · have := keysSorted_head_lt hs q hq; omega
    · split
      · rename_i heq; simp; exact Or.inl heq.symm
      · rename_i hnlt hne
        have := ih (keysSorted_tail hs)
        cases hr : insertParam p l with
        | none =>
          simp only [true_iff]
          obtain ⟨q, hq, hk⟩ := this.mp hr
          exact ⟨q, List.mem_cons_of_mem _ hq, hk⟩
        | some r =>
          simp only [reduceCtorEq, false_iff]
          rintro ⟨q, hq, hk⟩
          rcases List.mem_cons.mp hq with rfl | hq
          · omega
          · exact absurd (this.mpr ⟨q, hq, hk⟩) (by simp [hr])

/-- `mandatory` keys are written in increasing order -/
theorem insertSorted_sorted (x : Nat) : ∀ l : List Nat, l.Pairwise (· ≤ ·) → (insertSorted x l).Pairwise (· ≤ ·) := by
  intro l
  induction l with
  | nil => intro _; simp [insertSorted]
  | cons y l ih =>
    intro h
    unfold insertSorted
    split
    · rename_i hle
      refine List.Pairwise.cons ?_ h
      intro z hz
      rcases List.mem_cons.mp hz with rfl | hz
      · exact hle
      · exact Nat.le_trans hle ((List.pairwise_cons.mp h).1 z hz)
    · rename_i hnle
      have hmem : ∀ z, z ∈ insertSorted x l → z = x ∨ z ∈ l := by
        intro z
        clear ih h
        induction l with
        | nil => simp [insertSorted]
        | cons w l ih2 =>
          unfold insertSorted
          split
          · simp
          · intro hz
            rcases List.mem_cons.mp hz with rfl | hz
            · simp
            · rcases ih2 hz with h1 | h1 <;> simp [h1]
      refine List.Pairwise.cons ?_ (ih (List.pairwise_cons.mp h).2)
      intro z hz
      rcases hmem z hz with rfl | hz
      · omega
      · exact (List.pairwise_cons.mp h).1 z hz

theorem mandatory_emit_sorted (ks : List Nat) : (sortNat ks).Pairwise (· ≤ ·) := by
  induction ks with
  | nil => simp [sortNat]
  | cons k ks ih => exact insertSorted_sorted k _ ih

example : insertParam (.port 80) [.alpn [], .ipv4hint []] = some [.alpn [], .port 80, .ipv4hint []] := by decide
example : insertParam (.port 443) [.alpn [], .port 80] = none := by decide

end C16
