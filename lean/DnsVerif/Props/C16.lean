import DnsVerif.Spec.Wire
import DnsVerif.Model.Dec
import DnsVerif.Model.Enc
import DnsVerif.Lemmas.SoundMsg
import DnsVerif.Lemmas.CompleteMsg
import DnsVerif.Lemmas.EncSpecBodies
import DnsVerif.Lemmas.RTElem
import DnsVerif.Lemmas.ExtraA

/-! # C16 — SVCB/HTTPS records follow the RFC 9460 wire rules

Part 1: the model of `BTreeSet<ServiceParameter>` (a list kept sorted by key): inserting keeps keys
strictly increasing, refuses exactly a key that is present (`SVCBDuplicateKey`), and `mandatory` is
emitted sorted. Part 2: every parameter kind is read from exactly its registered wire format
(`SvcValueAt`: mandatory = 2-octet keys, alpn = character-strings, no-default-alpn / key 65535 empty,
port = 2 octets, hints = multiples of 4 / 16, ech = 2-octet length + exactly that many octets, keys
7..=65534 opaque) — sound and complete, so a value whose length does not fit its format is not accepted;
the parameter list of an accepted record is a key-sorted permutation of the wire list without duplicates;
the encoder emits each parameter in that format with `mandatory` sorted (`SvcParam.norm`).
Class IN and the alias form are in `RDataAt.svcbAlias/svcbService` + `classOk` (C03 `accepted_in_only`).
Part 3 (emission): `svcb_emit_sorted` / `svcb_emit_sorted_from` — the parameters are ON THE WIRE in the
order of the parameter list, which has strictly increasing keys; `alias_no_params` — a priority-0 record
is written without any parameter, whatever the value holds. -/

namespace C16

theorem keysSorted_tail {a : SvcParam} {r : List SvcParam} (h : keysSorted (a :: r)) : keysSorted r := by
  cases r with
  | nil => trivial
  | cons b r => exact h.2

theorem keysSorted_head_lt {a : SvcParam} {r : List SvcParam} (h : keysSorted (a :: r)) : ∀ q ∈ r, a.key < q.key := by
  induction r generalizing a with
  | nil => simp
  | cons b r ih =>
    intro q hq
    rcases List.mem_cons.mp hq with rfl | hq
    · exact h.1
    · exact Nat.lt_trans h.1 (ih h.2 q hq)

/-- inserting into a sorted set keeps the keys strictly increasing (no duplicates) and adds exactly `p` -/
theorem insertParam_sorted (p : SvcParam) : ∀ (l r : List SvcParam), keysSorted l → insertParam p l = some r →
    keysSorted r ∧ (∀ q, q ∈ r ↔ q = p ∨ q ∈ l) := by
  intro l
  induction l with
  | nil => intro r _ h; simp [insertParam] at h; subst h; simp [keysSorted]
  | cons a l ih =>
    intro r hs h
    unfold insertParam at h
    split at h
    · rename_i hlt
      injection h with h; subst h
      exact ⟨⟨hlt, hs⟩, fun q => by simp⟩
    · rename_i hnlt
      split at h
      · simp at h
      · rename_i hne
        cases hr : insertParam p l with
        | none => simp [hr] at h
        | some r' =>
          simp only [hr] at h
          injection h with h; subst h
          obtain ⟨hs', hm⟩ := ih r' (keysSorted_tail hs) hr
          refine ⟨?_, fun q => by simp [hm]; constructor <;> (intro hq; rcases hq with h1 | h1 | h1 <;> simp [h1])⟩
          cases r' with
          | nil => trivial
          | cons b r'' =>
            refine ⟨?_, hs'⟩
            have hb : b = p ∨ b ∈ l := (hm b).mp (by simp)
            rcases hb with rfl | hb
            · omega
            · exact keysSorted_head_lt hs b hb

/-- a duplicated key is refused, and only a duplicated key -/
theorem insertParam_none_iff (p : SvcParam) : ∀ (l : List SvcParam), keysSorted l →
    (insertParam p l = none ↔ ∃ q ∈ l, q.key = p.key) := by
  intro l
  induction l with
  | nil => intro _; simp [insertParam]
  | cons a l ih =>
    intro hs
    unfold insertParam
    split
    · rename_i hlt
      simp only [reduceCtorEq, false_iff]
      rintro ⟨q, hq, hk⟩
      rcases List.mem_cons.mp hq with rfl | hq
      · omega
      · have := keysSorted_head_lt hs q hq; omega
    · split
      · rename_i heq; simp; exact Or.inl heq.symm
      · rename_i hnlt hne
        have := ih (keysSorted_tail hs)
        cases hr : insertParam p l with
        | none =>
          simp only [true_iff]
          obtain ⟨q, hq, hk⟩ := this.mp hr
          exact ⟨q, List.mem_cons_of_mem _ hq, hk⟩
        | some r =>
          simp only [reduceCtorEq, false_iff]
          rintro ⟨q, hq, hk⟩
          rcases List.mem_cons.mp hq with rfl | hq
          · omega
          · exact absurd (this.mpr ⟨q, hq, hk⟩) (by simp [hr])

/-- `mandatory` keys are written in increasing order -/
theorem insertSorted_sorted (x : Nat) : ∀ l : List Nat, l.Pairwise (· ≤ ·) → (insertSorted x l).Pairwise (· ≤ ·) := by
  intro l
  induction l with
  | nil => intro _; simp [insertSorted]
  | cons y l ih =>
    intro h
    unfold insertSorted
    split
    · rename_i hle
      refine List.Pairwise.cons ?_ h
      intro z hz
      rcases List.mem_cons.mp hz with rfl | hz
      · exact hle
      · exact Nat.le_trans hle ((List.pairwise_cons.mp h).1 z hz)
    · rename_i hnle
      have hmem : ∀ z, z ∈ insertSorted x l → z = x ∨ z ∈ l := by
        intro z
        clear ih h
        induction l with
        | nil => simp [insertSorted]
        | cons w l ih2 =>
          unfold insertSorted
          split
          · simp
          · intro hz
            rcases List.mem_cons.mp hz with rfl | hz
            · simp
            · rcases ih2 hz with h1 | h1 <;> simp [h1]
      refine List.Pairwise.cons ?_ (ih (List.pairwise_cons.mp h).2)
      intro z hz
      rcases hmem z hz with rfl | hz
      · omega
      · exact (List.pairwise_cons.mp h).1 z hz

theorem mandatory_emit_sorted (ks : List Nat) : (sortNat ks).Pairwise (· ≤ ·) := by
  induction ks with
  | nil => simp [sortNat]
  | cons k ks ih => exact insertSorted_sorted k _ ih

example : insertParam (.port 80) [.alpn [], .ipv4hint []] = some [.alpn [], .port 80, .ipv4hint []] := by decide
example : insertParam (.port 443) [.alpn [], .port 80] = none := by decide

/-! ## Per-kind wire formats: sound and complete -/

theorem param_value_sound {key : Nat} {d d' : D} {p : SvcParam} (hd : D.Ok d) (hk : key < 65536)
    (h : decSvcParam key d = .ok (p, d')) (he : d'.off = d'.lim) : SvcValueAt d.buf d.lim d.off p ∧ p.key = key := by
  obtain ⟨h1, h2, _⟩ := Sound.decSvcParam_sound hd hk h he
  exact ⟨h1, h2⟩

theorem param_value_complete {buf : Bytes} {lim off c : Nat} {p : SvcParam} (h : SvcValueAt buf lim off p)
    (hlb : lim ≤ buf.length) (hB : buf.length < 2 ^ 63) :
    ∃ c', decSvcParam p.key { buf := buf, off := off, lim := lim, cost := c } = .ok (p, { buf := buf, off := lim, lim := lim, cost := c' }) :=
  Complete.decSvcParam_complete h hlb hB

/-- the accepted parameter set is the wire list, key-sorted, without duplicates -/
theorem params_sound (fuel : Nat) {d d' : D} {res : List SvcParam} (hd : D.Ok d)
    (h : decSvcParams fuel d [] = .ok (res, d')) :
    ∃ wire, SvcParamsAt d.buf d.lim d.off wire ∧ res.Perm wire ∧ keysSorted res ∧ d'.off = d.lim := by
  obtain ⟨wire, h1, h2, h3, h4, _⟩ := Sound.decSvcParams_sound fuel hd (by simp [keysSorted]) h
  exact ⟨wire, h1, by simpa using h2, h3, h4⟩

theorem params_complete {buf : Bytes} {lim off c : Nat} {wire sorted : List SvcParam}
    (h : SvcParamsAt buf lim off wire) (hperm : sorted.Perm wire) (hs : keysSorted sorted)
    (hlb : lim ≤ buf.length) (hB : buf.length < 2 ^ 63) :
    ∃ c', decSvcParams (lim - off + 1) { buf := buf, off := off, lim := lim, cost := c } [] =
      .ok (sorted, { buf := buf, off := lim, lim := lim, cost := c' }) := Complete.decSvcParams_complete h hperm hs hlb hB

/-- every emitted parameter is in its registered format, `mandatory` sorted -/
theorem param_emit_format {p : SvcParam} (hwf : WfParam p) :
    EncSpec.WSpec (encSvcParam · p) (fun buf s t => SvcParamAt buf s p.norm t) := EncSpec.encSvcParam_spec hwf

/-! ## Emitted records decode to the same record, values intact -/

theorem svcb_roundtrip {rr : RR} {b : Bytes} {prio : Nat} {target : Name} {params : List SvcParam}
    (hwf : WfRR rr) (hrd : rr.rd = .svcb prio target params) (h : encodeRR rr = .ok b) :
    ∃ target' params' d, decodeRR b = .ok ({ rr with rd := .svcb prio target' params' }, d) ∧ d.off = b.length ∧
      ciEq target' target = true ∧ params'.map SvcParam.norm = params.map SvcParam.norm ∧
      params'.map SvcParam.key = params.map SvcParam.key ∧ keysSorted params' := RT.svcb_roundtrip hwf hrd h

/-! ## The emitted wire order, and the alias form -/

/-- **Every emitted SVCB / HTTPS record has its SvcParams in strictly increasing key order, without
duplicates.** `b` = output of `RR::encode` on a well-formed record with body `svcb prio target ps`.
Then `b` is: owner name (ending at `e0`), TYPE / CLASS IN / TTL / RDLENGTH, priority, target name
(ending at `e1`), and from `e1` to the very end of `b` the parameters `ps` (each with its `mandatory`
key list sorted, `SvcParam.norm`) one after the other IN THE ORDER OF THE LIST `ps` — `SvcParamsAt` is
the wire list itself, not a permutation of it. That list has strictly increasing keys (`keysSorted`,
spelled out as `Pairwise (· < ·)` on the keys: no key twice).
Where sortedness comes from: the Rust value is a `BTreeSet` ordered by key; the model keeps it as a list
and the set invariant `keysSorted ps` is part of the HYPOTHESIS `WfRR rr` (it is what `insertParam`, the
only way to build such a list, maintains: `insertParam_sorted`). The writer walks the list front to back;
the content of the theorem is that it neither reorders, drops nor repeats anything. For `prio = 0`
`WfRR` forces `ps = []` and the parameter region is empty. -/
theorem svcb_emit_sorted {rr : RR} {b : Bytes} {prio : Nat} {target : Name} {ps : List SvcParam}
    (hwf : WfRR rr) (hrd : rr.rd = .svcb prio target ps) (h : encodeRR rr = .ok b) :
    (∃ owner' e0 rdlen tg' e1, owner'.lower = rr.name.lower ∧ NameRefAt b true 0 owner' e0 ∧ rdlen < 65536 ∧
      BytesAt b e0 (beBytes 2 rr.ty ++ beBytes 2 1 ++ beBytes 4 rr.ttl ++ beBytes 2 rdlen) ∧
      b.length = e0 + 10 + rdlen ∧ BytesAt b (e0 + 10) (beBytes 2 prio) ∧
      tg'.lower = target.lower ∧ NameRefAt b true (e0 + 12) tg' e1 ∧ e1 ≤ b.length ∧
      SvcParamsAt b b.length e1 (ps.map SvcParam.norm)) ∧
    keysSorted (ps.map SvcParam.norm) ∧
    ((ps.map SvcParam.norm).map SvcParam.key).Pairwise (· < ·) ∧
    (ps.map SvcParam.norm).map SvcParam.key = ps.map SvcParam.key :=
  let ⟨h1, h2, h3⟩ := ExtraA.svcb_emit_fresh hwf hrd h
  ⟨h1, h2, h3, ExtraA.map_norm_key ps⟩

/-- the same inside a message: `Encoder::rr` from ANY encoder state `e` satisfying the compression-table
invariant (`EInv`, kept by all writers: `Reach`); the old output is kept, and the statement holds in every
buffer that agrees with the new output on the frozen positions (in particular in the new output itself
and in every extension of it) -/
theorem svcb_emit_sorted_from {S : Nat → Prop} {e e' : Enc} {rr : RR} {prio : Nat} {target : Name}
    {ps : List SvcParam} (hinv : EInv S e) (hwf : WfRR rr) (hrd : rr.rd = .svcb prio target ps)
    (h : encRR e rr = .ok e') :
    e.out <+: e'.out ∧ keysSorted (ps.map SvcParam.norm) ∧
    ((ps.map SvcParam.norm).map SvcParam.key).Pairwise (· < ·) ∧
    ∀ buf', Agree (ext S e.out.length e'.out.length) e'.out buf' →
      ∃ owner' e0 rdlen tg' e1, owner'.lower = rr.name.lower ∧ NameRefAt buf' true e.out.length owner' e0 ∧
        rdlen < 65536 ∧
        BytesAt buf' e0 (beBytes 2 rr.ty ++ beBytes 2 1 ++ beBytes 4 rr.ttl ++ beBytes 2 rdlen) ∧
        e'.out.length = e0 + 10 + rdlen ∧ BytesAt buf' (e0 + 10) (beBytes 2 prio) ∧
        tg'.lower = target.lower ∧ NameRefAt buf' true (e0 + 12) tg' e1 ∧ e1 ≤ e'.out.length ∧
        SvcParamsAt buf' e'.out.length e1 (ps.map SvcParam.norm) := ExtraA.svcb_emit hinv hwf hrd h

/-- **No parameters in alias form (priority 0).** From every encoder state, for every owner, TYPE, class,
TTL, target and parameter list `ps`: the record with body `svcb 0 target ps` is written exactly like the
one with `svcb 0 target []` (TYPE 64 / 65: the alias form; any other TYPE: the same error on both sides).
General form of the known finding K4b (`C08.K4b_witness`): the parameters are silently dropped. -/
theorem alias_no_params (e : Enc) (name : Name) (ty cls ttl : Nat) (target : Name) (ps : List SvcParam) :
    encRR e ⟨name, ty, cls, ttl, .svcb 0 target ps⟩ = encRR e ⟨name, ty, cls, ttl, .svcb 0 target []⟩ ∧
    encodeRR ⟨name, ty, cls, ttl, .svcb 0 target ps⟩ = encodeRR ⟨name, ty, cls, ttl, .svcb 0 target []⟩ :=
  ⟨ExtraA.alias_no_params e name ty cls ttl target ps, ExtraA.alias_no_params_encode name ty cls ttl target ps⟩

/-! ### Non-vacuity -/

/-- `a. HTTPS 1 b. alpn=h2 port=443` -/
private def exHttps : RR := ⟨[[97]], 65, 1, 300, .svcb 1 [[98]] [.alpn [[104, 50]], .port 443]⟩

private theorem wfName1 (c : UInt8) (hc : c = 97 ∨ c = 98) : WfName [[c]] := by
  refine ⟨?_, by rcases hc with rfl | rfl <;> decide, ?_⟩
  · intro l hl; simp at hl; subst hl; simp [wfLabel]
  · intro l hl; simp at hl; subst hl; rcases hc with rfl | rfl <;> decide

private theorem exHttps_wf : WfRR exHttps := by
  refine ⟨⟨⟨true, rfl⟩, by decide, wfName1 98 (.inr rfl), ⟨by decide, trivial⟩, fun p hp => ?_,
    fun h => by simp at h⟩, wfName1 97 (.inl rfl), ⟨by decide, rfl⟩, by decide⟩
  simp at hp
  rcases hp with rfl | rfl
  · intro s hs; simp at hs; subst hs; exact ⟨by decide, by decide⟩
  · show 443 < 65536; decide

/-- the hypotheses of `svcb_emit_sorted` hold of a record with two parameters; its output has `alpn`
(key 1) before `port` (key 3) -/
example : WfRR exHttps ∧ encodeRR exHttps = .ok [1, 97, 0, 0, 65, 0, 1, 0, 0, 1, 44, 0, 18, 0, 1, 1, 98, 0,
    0, 1, 0, 3, 2, 104, 50, 0, 3, 0, 2, 1, 187] := ⟨exHttps_wf, rfl⟩

example : ∃ e1, SvcParamsAt [1, 97, 0, 0, 65, 0, 1, 0, 0, 1, 44, 0, 18, 0, 1, 1, 98, 0,
    0, 1, 0, 3, 2, 104, 50, 0, 3, 0, 2, 1, 187] 31 e1 [.alpn [[104, 50]], .port 443] := by
  obtain ⟨⟨_, _, _, _, e1, _, _, _, _, _, _, _, _, _, h⟩, _⟩ := svcb_emit_sorted exHttps_wf rfl
    (b := [1, 97, 0, 0, 65, 0, 1, 0, 0, 1, 44, 0, 18, 0, 1, 1, 98, 0, 0, 1, 0, 3, 2, 104, 50, 0, 3, 0, 2, 1, 187]) rfl
  exact ⟨e1, h⟩

/-- an alias record `a. HTTPS 0 b.` given two parameters: written as the bare alias form -/
example : encodeRR ⟨[[97]], 65, 1, 300, .svcb 0 [[98]] [.alpn [[104, 50]], .port 443]⟩ =
    .ok [1, 97, 0, 0, 65, 0, 1, 0, 0, 1, 44, 0, 5, 0, 0, 1, 98, 0] ∧
    encodeRR ⟨[[97]], 65, 1, 300, .svcb 0 [[98]] []⟩ =
    .ok [1, 97, 0, 0, 65, 0, 1, 0, 0, 1, 44, 0, 5, 0, 0, 1, 98, 0] :=
  ⟨((alias_no_params {} [[97]] 65 1 300 [[98]] [.alpn [[104, 50]], .port 443]).2).trans rfl, rfl⟩

end C16
