import DnsVerif.Lemmas.NameComplete
import DnsVerif.Spec.Wire

/-! # C04 — every well-formed message of the supported types is accepted, exactly (part 1: names)

Part 1: every legal rendering of a name (pointers in either direction, up to 17 hops, any label case) is
decoded to exactly that name and the cursor lands at the end of the stored part. Part 2
(`decodeDns_complete : MsgAt b bk m → decodeDns b = .ok (m, _)`, from Lemmas/Complete*.lean) is appended
when complete; until then PARTIAL. -/

namespace C04

theorem name_complete {buf : Bytes} {bk : Bool} {off e lim c : Nat} {n : Name}
    (hn : NameRefAt buf bk off n e) (he : e ≤ lim) (hlb : lim ≤ buf.length) (hB : buf.length < 2 ^ 63) :
    ∃ c', D.name { buf := buf, off := off, lim := lim, cost := c } = .ok (n, { buf := buf, off := e, lim := lim, cost := c' }) := by
  obtain ⟨h, hat, hh, hutf, hsz⟩ := hn
  have h17 : h ≤ 17 := by
    cases bk <;> simp [maxHops] at hh <;> omega
  exact ⟨_, _root_.name_complete hat h17 hutf hsz he hlb hB⟩

/-! boundaries: a pointer whose target is the largest 14-bit offset is followed (the name at 0x3FFF is the root) -/
example : ptrOff 0xFF 0xFF = 0x3FFF := by decide

end C04
