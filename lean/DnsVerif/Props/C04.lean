import DnsVerif.Lemmas.NameComplete
import DnsVerif.Spec.Wire
import DnsVerif.Lemmas.CompleteMsg
import DnsVerif.Lemmas.SoundMsg

/-! # C04 — every well-formed message of the supported types is accepted, exactly

Part 1: every legal rendering of a name (pointers in either direction, up to 17 hops, any label case) is
decoded to exactly that name and the cursor lands at the end of the stored part. Part 2: for EVERY buffer
`b` and message value `m` with `MsgAt b bk m` (Spec/Wire.lean — the relation does not fix compression
choices (pointers in either direction, up to 17 hops, so "backward compression up to 16 hops" is the
special case `bk = true`), label case, prefix padding (any number of address octets up to the family size),
SvcParam order, or whether variable fields are empty) the model of `Dns::decode` returns exactly `m` and
consumes the whole buffer. Sizes from 12 to 65,536 octets. -/

namespace C04

theorem name_complete {buf : Bytes} {bk : Bool} {off e lim c : Nat} {n : Name}
    (hn : NameRefAt buf bk off n e) (he : e ≤ lim) (hlb : lim ≤ buf.length) (hB : buf.length < 2 ^ 63) :
    ∃ c', D.name { buf := buf, off := off, lim := lim, cost := c } = .ok (n, { buf := buf, off := e, lim := lim, cost := c' }) := by
  obtain ⟨h, hat, hh, hutf, hsz⟩ := hn
  have h17 : h ≤ 17 := by
    cases bk <;> simp [maxHops] at hh <;> omega
  exact ⟨_, _root_.name_complete hat h17 hutf hsz he hlb hB⟩

/-! boundaries: a pointer whose target is the largest 14-bit offset is followed (the name at 0x3FFF is the root) -/
example : ptrOff 0xFF 0xFF = 0x3FFF := by decide

/-! ## Whole messages and elements -/

/-- **T-complete.** Every legal rendering of a message of the supported vocabulary is accepted, exactly. -/
theorem decodeDns_complete {b : Bytes} {bk : Bool} {m : Msg} (h : MsgAt b bk m) :
    ∃ c, decodeDns b = .ok (m, { buf := b, off := b.length, lim := b.length, cost := c }) := Complete.decodeDns_complete h

/-- the grammar is functional: a buffer renders at most one message ("the same abstract message" is well defined) -/
theorem msg_unique {b : Bytes} {bk : Bool} {m₁ m₂ : Msg} (h1 : MsgAt b bk m₁) (h2 : MsgAt b bk m₂) : m₁ = m₂ :=
  Complete.MsgAt.functional h1 h2

theorem decodeRR_complete {b : Bytes} {bk : Bool} {rr : RR} {e : Nat} (h : RRAt b bk 0 rr e) (hB : b.length < 2 ^ 63) :
    ∃ c, decodeRR b = .ok (rr, { buf := b, off := e, lim := b.length, cost := c }) := Complete.decodeRR_complete h hB
theorem decodeQuestion_complete {b : Bytes} {bk : Bool} {q : Question} {e : Nat} (h : QuestionAt b bk 0 q e) (hB : b.length < 2 ^ 63) :
    ∃ c, decodeQuestion b = .ok (q, { buf := b, off := e, lim := b.length, cost := c }) := Complete.decodeQuestion_complete h hB
theorem decodeName_complete {b : Bytes} {bk : Bool} {n : Name} {e : Nat} (h : NameRefAt b bk 0 n e) (hB : b.length < 2 ^ 63) :
    ∃ c, decodeName b = .ok (n, { buf := b, off := e, lim := b.length, cost := c }) := Complete.decodeName_complete h hB
theorem decodeFlags_complete {b : Bytes} {f : Flags} (hf : FlagsOk f) (hb : BytesAt b 0 (beBytes 2 (flagsWord f))) (hB : b.length < 2 ^ 63) :
    decodeFlags b = .ok (f, { buf := b, off := 2, lim := b.length, cost := 2 }) := Complete.decodeFlags_complete hf hb hB

/-- acceptance is exactly the grammar: soundness (C03) and completeness together -/
theorem accept_iff (b : Bytes) (m : Msg) : (∃ d, decodeDns b = .ok (m, d)) ↔ MsgAt b false m :=
  ⟨fun ⟨_, h⟩ => Sound.decodeDns_sound h, fun h => by obtain ⟨c, hc⟩ := Complete.decodeDns_complete h; exact ⟨_, hc⟩⟩

/-! boundaries: a chain of 17 pointers is a legal name reference, a chain of 18 is not -/
theorem hops17_accepted : NameRefAt (Complete.ptrChain 17) false 0 [] 2 := Complete.ptrChain17_at
theorem hops18_not_a_name : ¬ ∃ n e, NameRefAt (Complete.ptrChain 18) false 0 n e := Complete.ptrChain18_not_at

end C04
