import DnsVerif.Lemmas.AddrEmit
import DnsVerif.Lemmas.ApiMachines
import DnsVerif.Lemmas.SoundMsg
import DnsVerif.Lemmas.CompleteMsg
import DnsVerif.Lemmas.RTElem

/-! # C17 — address-prefix items (APL, ECS) use the RFC forms in both directions

Model: `checkPrefix` (src/rr/subtypes.rs), `D.address` (zero fill, src/decode/rr/subtypes.rs),
`addrWithPrefix` (ECS writer loop), `stripZeros` (APL writer as repaired). First the acceptance condition
itself, the emitted octet counts and loss-free cutting; then item level: an APL item / ECS option is
accepted ⇔ the grammar `ApItemAt` / `OptionAt.ecs` (`PrefixAddrAt`: ANY number `k` of address octets from
none up to the family size, missing octets zero, prefix within the family size, no bit beyond it). -/

namespace C17

/-- accepted ⇔ prefix within the family size and no address bit at a position ≥ prefix -/
theorem addr_accept_iff (octets : Bytes) (p : Nat) :
    checkPrefix octets p = .ok () ↔ p ≤ 8 * octets.length ∧ NoBitBeyond octets p := checkPrefix_ok_iff octets p

/-- which rejection: prefix beyond the family size ⇒ Prefix error, a bit beyond the prefix ⇒ Mask error -/
theorem addr_reject_kind (octets : Bytes) (p : Nat) :
    (8 * octets.length < p → checkPrefix octets p = .error (if octets.length = 4 then .addr4Prefix else .addr6Prefix)) ∧
    (p ≤ 8 * octets.length → ¬ NoBitBeyond octets p →
      checkPrefix octets p = .error (if octets.length = 4 then .addr4Mask else .addr6Mask)) := checkPrefix_err_kind octets p

/-- any number of address octets from none up to the family size is read, missing octets meaning zero -/
theorem addr_zero_fill (d : D) (fam : Nat) (a x : Bytes) (hoff : d.off ≤ d.lim)
    (hwin : (d.buf.drop d.off).take (d.lim - d.off) = x)
    (hfill : x ++ List.replicate (a.length - x.length) 0 = a) (hlen : a.length = famSize fam) :
    d.address fam = .ok (a, { d with off := d.lim, cost := d.cost + (d.lim - d.off) }) := D.address_fill d fam a x hoff hwin hfill hlen

/-- APL output: exactly the octets up to the last non-zero one (no trailing zero octets, RFC 3123 §4.1),
and it is the shortest such prefix -/
theorem apl_emit_minimal (a : Bytes) :
    stripZeros a = a.take (stripZeros a).length ∧ (∀ x ∈ a.drop (stripZeros a).length, x = 0) ∧
    (∀ h : stripZeros a ≠ [], (stripZeros a).getLast h ≠ 0) ∧
    (∀ k, (∀ x ∈ a.drop k, x = 0) → (stripZeros a).length ≤ k) := stripZeros_spec a

/-- APL output loses nothing: zero-filling what was emitted gives the address back -/
theorem apl_emit_roundtrip (a : Bytes) : stripZeros a ++ List.replicate (a.length - (stripZeros a).length) 0 = a :=
  stripZeros_fill a

/-- ECS output: `min(size, ⌊m/8⌋ + 1)` octets with `m = max(source, scope)` — what the code does -/
theorem ecs_emit_octets (octets : Bytes) (m : Nat) : (addrWithPrefix octets m).length = min (m / 8 + 1) octets.length :=
  addrWithPrefix_length octets m

/-- … which is the RFC 7871 count `⌈m/8⌉` exactly when `m` is not a multiple of 8 or is the full width;
otherwise it is one octet more (known finding K2; this characterisation is K2's classifier) -/
theorem ecs_emit_rfc_iff (octets : Bytes) (m : Nat) (hp : m ≤ 8 * octets.length) :
    (addrWithPrefix octets m).length = (m + 7) / 8 ↔ (m % 8 ≠ 0 ∨ m = 8 * octets.length) := addrWithPrefix_rfc_iff octets m hp
theorem ecs_emit_extra (octets : Bytes) (m : Nat) (hp : m < 8 * octets.length) (h8 : m % 8 = 0) :
    (addrWithPrefix octets m).length = (m + 7) / 8 + 1 := addrWithPrefix_extra octets m hp h8
theorem K2_witness : addrWithPrefix [10, 0, 0, 0] 24 = [10, 0, 0, 0] ∧ (24 + 7) / 8 = 3 := addrWithPrefix_k2_witness

/-- ECS output loses nothing for a valid value -/
theorem ecs_emit_roundtrip (a : Bytes) (m : Nat) (hno : NoBitBeyond a m) :
    addrWithPrefix a m ++ List.replicate (a.length - (addrWithPrefix a m).length) 0 = a := addrWithPrefix_fill a m hno

/-! ## Item level: accepted exactly in the RFC forms -/

theorem apl_item_sound {d d' : D} {it : APItem} (hd : D.Ok d) (h : decApItem d = .ok (it, d')) :
    ApItemAt d.buf d.off it d'.off := (Sound.decApItem_sound hd h).1

theorem apl_item_complete {buf : Bytes} {off e lim c : Nat} {it : APItem} (h : ApItemAt buf off it e)
    (he : e ≤ lim) (hlb : lim ≤ buf.length) (hB : buf.length < 2 ^ 63) :
    ∃ c', decApItem { buf := buf, off := off, lim := lim, cost := c } = .ok (it, { buf := buf, off := e, lim := lim, cost := c' }) :=
  Complete.decApItem_complete h he hlb hB

/-- the ECS case of `OptionAt` (sound and complete: C15 `option_accept_sound/complete`) spells out the
RFC 7871 form: family 1|2, `len - 4` address octets (any count up to the family size), zero fill -/
theorem ecs_option_form {buf : Bytes} {off e fam src scope : Nat} {addr : Bytes} (h : OptionAt buf off (.ecs fam src scope addr) e) :
    ∃ len, 4 ≤ len ∧ e = off + 4 + len ∧ PrefixAddrAt buf (off + 8) (len - 4) fam (max src scope) addr := by
  cases h with
  | ecs _ h4 _ _ _ _ hp => exact ⟨_, h4, rfl, hp⟩

/-! ## Emission preserves family, prefix lengths, negation and every address octet -/

theorem apl_roundtrip {rr : RR} {b : Bytes} {items : List APItem} (hwf : WfRR rr) (hrd : rr.rd = .apl items)
    (h : encodeRR rr = .ok b) : ∃ d, decodeRR b = .ok (rr, d) ∧ d.off = b.length := RT.apl_roundtrip hwf hrd h

theorem ecs_roundtrip {p x v fam src scope : Nat} {dn : Bool} {addr : Bytes} (hp : p < 65536) (hx : x < 256)
    (hv : v < 256) (hwf : WfOption (.ecs fam src scope addr)) :
    ∃ b d, encodeRR (RT.optRR p x v dn [.ecs fam src scope addr]) = .ok b ∧
      decodeRR b = .ok (RT.optRR p x v dn [.ecs fam src scope addr], d) ∧ d.off = b.length ∧ b.length ≤ 35 :=
  RT.ecs_roundtrip hp hx hv hwf

end C17
