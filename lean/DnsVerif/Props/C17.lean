import DnsVerif.Lemmas.AddrEmit
import DnsVerif.Lemmas.ApiMachines
import DnsVerif.Lemmas.SoundMsg
import DnsVerif.Lemmas.CompleteMsg
import DnsVerif.Lemmas.RTElem
import DnsVerif.Lemmas.ExtraA

/-! # C17 — address-prefix items (APL, ECS) use the RFC forms in both directions

Model: `checkPrefix` (src/rr/subtypes.rs), `D.address` (zero fill, src/decode/rr/subtypes.rs),
`addrWithPrefix` (ECS writer loop), `stripZeros` (APL writer as repaired). First the acceptance condition
itself, the emitted octet counts and loss-free cutting; then item level: an APL item / ECS option is
accepted ⇔ the grammar `ApItemAt` / `OptionAt.ecs` (`PrefixAddrAt`: ANY number `k` of address octets from
none up to the family size, missing octets zero, prefix within the family size, no bit beyond it).
`apl_writer_emits_minimal` / `ecs_writer_emits_prefix_octets` tie the two helpers to the WRITERS
`encApItem` / `encOption`: the exact octets they append. -/

namespace C17

/-- accepted ⇔ prefix within the family size and no address bit at a position ≥ prefix -/
theorem addr_accept_iff (octets : Bytes) (p : Nat) :
    checkPrefix octets p = .ok () ↔ p ≤ 8 * octets.length ∧ NoBitBeyond octets p := checkPrefix_ok_iff octets p

/-- which rejection: prefix beyond the family size ⇒ Prefix error, a bit beyond the prefix ⇒ Mask error -/
theorem addr_reject_kind (octets : Bytes) (p : Nat) :
    (8 * octets.length < p → checkPrefix octets p = .error (if octets.length = 4 then .addr4Prefix else .addr6Prefix)) ∧
    (p ≤ 8 * octets.length → ¬ NoBitBeyond octets p →
      checkPrefix octets p = .error (if octets.length = 4 then .addr4Mask else .addr6Mask)) := checkPrefix_err_kind octets p

/-- any number of address octets from none up to the family size is read, missing octets meaning zero -/
theorem addr_zero_fill (d : D) (fam : Nat) (a x : Bytes) (hoff : d.off ≤ d.lim)
    (hwin : (d.buf.drop d.off).take (d.lim - d.off) = x)
    (hfill : x ++ List.replicate (a.length - x.length) 0 = a) (hlen : a.length = famSize fam) :
    d.address fam = .ok (a, { d with off := d.lim, cost := d.cost + (d.lim - d.off) }) := D.address_fill d fam a x hoff hwin hfill hlen

/-- APL output: exactly the octets up to the last non-zero one (no trailing zero octets, RFC 3123 §4.1),
and it is the shortest such prefix -/
theorem apl_emit_minimal (a : Bytes) :
    stripZeros a = a.take (stripZeros a).length ∧ (∀ x ∈ a.drop (stripZeros a).length, x = 0) ∧
    (∀ h : stripZeros a ≠ [], (stripZeros a).getLast h ≠ 0) ∧
    (∀ k, (∀ x ∈ a.drop k, x = 0) → (stripZeros a).length ≤ k) := stripZeros_spec a

/-- APL output loses nothing: zero-filling what was emitted gives the address back -/
theorem apl_emit_roundtrip (a : Bytes) : stripZeros a ++ List.replicate (a.length - (stripZeros a).length) 0 = a :=
  stripZeros_fill a

/-- ECS output: `min(size, ⌊m/8⌋ + 1)` octets with `m = max(source, scope)` — what the code does -/
theorem ecs_emit_octets (octets : Bytes) (m : Nat) : (addrWithPrefix octets m).length = min (m / 8 + 1) octets.length :=
  addrWithPrefix_length octets m

/-- … which is the RFC 7871 count `⌈m/8⌉` exactly when `m` is not a multiple of 8 or is the full width;
otherwise it is one octet more (known finding K2; this characterisation is K2's classifier) -/
theorem ecs_emit_rfc_iff (octets : Bytes) (m : Nat) (hp : m ≤ 8 * octets.length) :
    (addrWithPrefix octets m).length = (m + 7) / 8 ↔ (m % 8 ≠ 0 ∨ m = 8 * octets.length) := addrWithPrefix_rfc_iff octets m hp
theorem ecs_emit_extra (octets : Bytes) (m : Nat) (hp : m < 8 * octets.length) (h8 : m % 8 = 0) :
    (addrWithPrefix octets m).length = (m + 7) / 8 + 1 := addrWithPrefix_extra octets m hp h8
theorem K2_witness : addrWithPrefix [10, 0, 0, 0] 24 = [10, 0, 0, 0] ∧ (24 + 7) / 8 = 3 := addrWithPrefix_k2_witness

/-- ECS output loses nothing for a valid value -/
theorem ecs_emit_roundtrip (a : Bytes) (m : Nat) (hno : NoBitBeyond a m) :
    addrWithPrefix a m ++ List.replicate (a.length - (addrWithPrefix a m).length) 0 = a := addrWithPrefix_fill a m hno

/-! ## Item level: accepted exactly in the RFC forms -/

theorem apl_item_sound {d d' : D} {it : APItem} (hd : D.Ok d) (h : decApItem d = .ok (it, d')) :
    ApItemAt d.buf d.off it d'.off := (Sound.decApItem_sound hd h).1

theorem apl_item_complete {buf : Bytes} {off e lim c : Nat} {it : APItem} (h : ApItemAt buf off it e)
    (he : e ≤ lim) (hlb : lim ≤ buf.length) (hB : buf.length < 2 ^ 63) :
    ∃ c', decApItem { buf := buf, off := off, lim := lim, cost := c } = .ok (it, { buf := buf, off := e, lim := lim, cost := c' }) :=
  Complete.decApItem_complete h he hlb hB

/-- the ECS case of `OptionAt` (sound and complete: C15 `option_accept_sound/complete`) spells out the
RFC 7871 form: family 1|2, `len - 4` address octets (any count up to the family size), zero fill -/
theorem ecs_option_form {buf : Bytes} {off e fam src scope : Nat} {addr : Bytes} (h : OptionAt buf off (.ecs fam src scope addr) e) :
    ∃ len, 4 ≤ len ∧ e = off + 4 + len ∧ PrefixAddrAt buf (off + 8) (len - 4) fam (max src scope) addr := by
  cases h with
  | ecs _ h4 _ _ _ _ hp => exact ⟨_, h4, rfl, hp⟩

/-! ## Emission preserves family, prefix lengths, negation and every address octet -/

theorem apl_roundtrip {rr : RR} {b : Bytes} {items : List APItem} (hwf : WfRR rr) (hrd : rr.rd = .apl items)
    (h : encodeRR rr = .ok b) : ∃ d, decodeRR b = .ok (rr, d) ∧ d.off = b.length := RT.apl_roundtrip hwf hrd h

theorem ecs_roundtrip {p x v fam src scope : Nat} {dn : Bool} {addr : Bytes} (hp : p < 65536) (hx : x < 256)
    (hv : v < 256) (hwf : WfOption (.ecs fam src scope addr)) :
    ∃ b d, encodeRR (RT.optRR p x v dn [.ecs fam src scope addr]) = .ok b ∧
      decodeRR b = .ok (RT.optRR p x v dn [.ecs fam src scope addr], d) ∧ d.off = b.length ∧ b.length ≤ 35 :=
  RT.ecs_roundtrip hp hx hv hwf

/-! ## The writers themselves: exactly which octets are appended -/

/-- **APL writer (`encApItem`, every state, every item, NO well-formedness premise).** On success the
output grows by exactly: the two family octets, the prefix octet, one octet holding the address length
`k` (plus 128 for a negated item) and `k` address octets, where `k < 128` and the `k` octets are the
address cut after its last non-zero octet: a prefix of the address, everything cut off is zero, the last
emitted octet is non-zero (no trailing zero octet), and no shorter cut has an all-zero remainder
(RFC 3123 §4.1). The compression table is untouched. -/
theorem apl_writer_emits_minimal {e e' : Enc} {it : APItem} (h : encApItem e it = .ok e') :
    ∃ k addr', k < 128 ∧ addr'.length = k ∧
      e'.out = e.out ++ (beBytes 2 it.fam ++ beBytes 1 it.pfx ++
        [UInt8.ofNat (k + if it.neg then 128 else 0)] ++ addr') ∧ e'.idx = e.idx ∧
      addr' = stripZeros it.addr ∧ addr' = it.addr.take k ∧ (∀ x ∈ it.addr.drop k, x = 0) ∧
      (∀ hne : addr' ≠ [], addr'.getLast hne ≠ 0) ∧
      (∀ j, (∀ x ∈ it.addr.drop j, x = 0) → k ≤ j) := by
  obtain ⟨rfl, hlt⟩ := ExtraA.encApItem_emits h
  obtain ⟨h1, h2, h3, h4⟩ := stripZeros_spec it.addr
  exact ⟨_, _, hlt, rfl, rfl, rfl, rfl, h1, h2, h3, h4⟩

/-- … and it succeeds exactly when fewer than 128 octets remain after the cut -/
theorem apl_writer_ok_iff (e : Enc) (it : APItem) :
    (∃ e', encApItem e it = .ok e') ↔ (stripZeros it.addr).length < 128 :=
  ⟨fun ⟨_, h⟩ => (ExtraA.encApItem_emits h).2, ExtraA.encApItem_total e⟩

/-- **ECS writer (`encOption` on a client-subnet option, every state, NO well-formedness premise).** On
success the output grows by exactly: OPTION-CODE 8, OPTION-LENGTH `4 + n`, FAMILY, SOURCE and SCOPE
PREFIX-LENGTH and `n` address octets, which are the first `n` octets of the address with
`n = min(⌊m/8⌋ + 1, size)`, `m = max(source, scope)` (the count of `ecs_emit_octets`; compared with the
RFC 7871 count `⌈m/8⌉` in `ecs_emit_rfc_iff` / `ecs_emit_extra`, known finding K2). -/
theorem ecs_writer_emits_prefix_octets {e e' : Enc} {fam src scope : Nat} {addr : Bytes}
    (h : encOption e (.ecs fam src scope addr) = .ok e') :
    ∃ n addr', n = min (max src scope / 8 + 1) addr.length ∧ addr'.length = n ∧
      e'.out = e.out ++ (beBytes 2 8 ++ beBytes 2 (4 + n) ++
        (beBytes 2 fam ++ beBytes 1 src ++ beBytes 1 scope ++ addr')) ∧ e'.idx = e.idx ∧
      addr' = addrWithPrefix addr (max src scope) ∧ addr' = addr.take (max src scope / 8 + 1) ∧
      4 + n ≤ 65535 := by
  obtain ⟨rfl, hle⟩ := ExtraA.encOption_ecs_emits h
  have hl := addrWithPrefix_length addr (max src scope)
  refine ⟨_, _, rfl, hl, ?_, rfl, rfl, addrWithPrefix_eq addr (max src scope), by rw [← hl]; exact hle⟩
  rw [← hl]; rfl

/-- `!1:10.1.2.0/24` and ECS `10.1.2.0/24`: the writers run and emit three address octets each -/
example : ∃ e', encApItem {} ⟨1, 24, true, [10, 1, 2, 0]⟩ = .ok e' ∧ e'.out = [0, 1, 24, 131, 10, 1, 2] :=
  ⟨_, rfl, rfl⟩
example : ∃ e', encOption {} (.ecs 1 23 0 [10, 1, 2, 0]) = .ok e' ∧
    e'.out = [0, 8, 0, 7, 0, 1, 23, 0, 10, 1, 2] := ⟨_, rfl, rfl⟩

end C17
