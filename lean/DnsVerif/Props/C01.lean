import DnsVerif.Lemmas.NameFuel
import DnsVerif.Lemmas.Prefix
import DnsVerif.Lemmas.ApiMachines
import DnsVerif.Lemmas.SafeMsg

/-! # C01 — decoding untrusted bytes never panics

Every operation that can panic in Rust (slice / index / checked arithmetic) is an explicit
`.error (.panic site)` outcome of the model (Model/Dec.lean): `offset += length`, `buffer[0]`,
`octects[0..len].copy_from_slice`, `vec[0..8]`, `octects[prefix / 8]`; the loops of the model run on fuel.
The theorems say: for EVERY byte string (of any length below Rust's allocation limit 2^63) and each of the
nine public decode entry points the model returns a value or a documented error — never a panic outcome,
never fuel exhaustion. Not modelled (exercised by the harness under `catch_unwind` on every accepted
value, therefore PARTIAL for that clause): derived `Clone`/`PartialEq`/`Debug` and the `Display` impls of
the record types; re-encoding of returned values is covered by C08 (`encode_no_panic` for all values). -/

namespace C01

/-- the name decoder never takes a panicking branch and never exhausts its fuel, on any buffer -/
theorem name_no_panic {d : D} (hd : D.Ok d) (s : String) : d.name ≠ .error (.panic s) := name_noPanic hd s
theorem name_no_fuel (d : D) : d.name ≠ .error .fuel := _root_.name_no_fuel d

/-- … and returns either a value (leaving a well-formed cursor) or one of the documented errors -/
theorem name_total {d : D} (hd : D.Ok d) :
    (∃ n d', d.name = .ok (n, d') ∧ D.Ok d') ∨ (∃ e, d.name = .error e ∧ e.isNameErr = true) := _root_.name_total hd

/-- `octects[prefix / 8]` in `check_ipv4_addr` / `check_ipv6_addr` is always in bounds -/
theorem prefix_check_no_panic (octets : Bytes) (p : Nat) (site : String) : checkPrefix octets p ≠ .error (.panic site) :=
  checkPrefix_no_panic octets p site

/-- the primitive readers never panic on a well-formed cursor -/
theorem u8_no_panic {d : D} (hd : D.Ok d) (s : String) : d.u8 ≠ .error (.panic s) := u8_noPanic hd s
theorem cstr_no_panic {d : D} (hd : D.Ok d) (s : String) : d.cstr ≠ .error (.panic s) := cstr_noPanic hd s

/-- the entry points start from a well-formed cursor -/
theorem main_ok (b : Bytes) (h : b.length < 2 ^ 63) : D.Ok (D.main b) := D.main_Ok b h

example : D.Ok (D.main [192, 0]) := D.main_Ok _ (by simp)

/-! ## All nine public entry points, all inputs -/

theorem decodeDns_no_panic {b : Bytes} (h : b.length < 2 ^ 63) (s : String) : decodeDns b ≠ .error (.panic s) := Safe.decodeDns_noPanic h s
theorem decodeFlags_no_panic {b : Bytes} (h : b.length < 2 ^ 63) (s : String) : decodeFlags b ≠ .error (.panic s) := Safe.decodeFlags_noPanic h s
theorem decodeQuestion_no_panic {b : Bytes} (h : b.length < 2 ^ 63) (s : String) : decodeQuestion b ≠ .error (.panic s) := Safe.decodeQuestion_noPanic h s
theorem decodeRR_no_panic {b : Bytes} (h : b.length < 2 ^ 63) (s : String) : decodeRR b ≠ .error (.panic s) := Safe.decodeRR_noPanic h s
theorem decodeName_no_panic {b : Bytes} (h : b.length < 2 ^ 63) (s : String) : decodeName b ≠ .error (.panic s) := Safe.decodeName_noPanic h s
theorem decodeType_no_panic {b : Bytes} (h : b.length < 2 ^ 63) (s : String) : decodeType b ≠ .error (.panic s) := Safe.decodeType_noPanic h s
theorem decodeClass_no_panic {b : Bytes} (h : b.length < 2 ^ 63) (s : String) : decodeClass b ≠ .error (.panic s) := Safe.decodeClass_noPanic h s
theorem decodeQType_no_panic {b : Bytes} (h : b.length < 2 ^ 63) (s : String) : decodeQType b ≠ .error (.panic s) := Safe.decodeQType_noPanic h s
theorem decodeQClass_no_panic {b : Bytes} (h : b.length < 2 ^ 63) (s : String) : decodeQClass b ≠ .error (.panic s) := Safe.decodeQClass_noPanic h s

/-- the loops of the model (`while !is_finished()`, name expansion) never run out of fuel: the bounded
model is the unbounded Rust loop -/
theorem decodeDns_no_fuel {b : Bytes} (h : b.length < 2 ^ 63) : decodeDns b ≠ .error .fuel := Safe.decodeDns_noFuel h
theorem decodeRR_no_fuel {b : Bytes} (h : b.length < 2 ^ 63) : decodeRR b ≠ .error .fuel := Safe.decodeRR_noFuel h
theorem decodeQuestion_no_fuel {b : Bytes} (h : b.length < 2 ^ 63) : decodeQuestion b ≠ .error .fuel := Safe.decodeQuestion_noFuel h

/-- `DecodeError::Offset` is unreachable through the public entry point -/
theorem decodeDns_no_offset_error {b : Bytes} (h : b.length < 2 ^ 63) : decodeDns b ≠ .error .offset := Safe.decodeDns_noOffset h

example : decodeDns [0, 0] = .error .notEnoughBytes := rfl

end C01
