import DnsVerif.Lemmas.NameFuel
import DnsVerif.Lemmas.Prefix
import DnsVerif.Lemmas.ApiMachines
import DnsVerif.Lemmas.SafeMsg
import DnsVerif.Lemmas.ExtraB

/-! # C01 — decoding untrusted bytes never panics

Every operation that can panic in Rust (slice / index / checked arithmetic) is an explicit
`.error (.panic site)` outcome of the model (Model/Dec.lean): `offset += length`, `buffer[0]`,
`octects[0..len].copy_from_slice`, `vec[0..8]`, `octects[prefix / 8]`; the loops of the model run on fuel.
The theorems say: for EVERY byte string (of any length below Rust's allocation limit 2^63) and each of the
nine public decode entry points the model returns a value or a documented error — never a panic outcome,
never fuel exhaustion. Not modelled (exercised by the harness under `catch_unwind` on every accepted
value, therefore PARTIAL for that clause): derived `Clone`/`PartialEq`/`Debug` and the `Display` impls of
the record types. Re-encoding of returned values: `reencode*_no_panic` below (decoded ⇒ well-formed ⇒ shaped, then
C08 `encode_no_panic`, which holds for all shaped values). -/

namespace C01

/-- the name decoder never takes a panicking branch and never exhausts its fuel, on any buffer -/
theorem name_no_panic {d : D} (hd : D.Ok d) (s : String) : d.name ≠ .error (.panic s) := name_noPanic hd s
theorem name_no_fuel (d : D) : d.name ≠ .error .fuel := _root_.name_no_fuel d

/-- … and returns either a value (leaving a well-formed cursor) or one of the documented errors -/
theorem name_total {d : D} (hd : D.Ok d) :
    (∃ n d', d.name = .ok (n, d') ∧ D.Ok d') ∨ (∃ e, d.name = .error e ∧ e.isNameErr = true) := _root_.name_total hd

/-- `octects[prefix / 8]` in `check_ipv4_addr` / `check_ipv6_addr` is always in bounds -/
theorem prefix_check_no_panic (octets : Bytes) (p : Nat) (site : String) : checkPrefix octets p ≠ .error (.panic site) :=
  checkPrefix_no_panic octets p site

/-- the primitive readers never panic on a well-formed cursor -/
theorem u8_no_panic {d : D} (hd : D.Ok d) (s : String) : d.u8 ≠ .error (.panic s) := u8_noPanic hd s
theorem cstr_no_panic {d : D} (hd : D.Ok d) (s : String) : d.cstr ≠ .error (.panic s) := cstr_noPanic hd s

/-- the entry points start from a well-formed cursor -/
theorem main_ok (b : Bytes) (h : b.length < 2 ^ 63) : D.Ok (D.main b) := D.main_Ok b h

example : D.Ok (D.main [192, 0]) := D.main_Ok _ (by simp)

/-! ## All nine public entry points, all inputs -/

theorem decodeDns_no_panic {b : Bytes} (h : b.length < 2 ^ 63) (s : String) : decodeDns b ≠ .error (.panic s) := Safe.decodeDns_noPanic h s
theorem decodeFlags_no_panic {b : Bytes} (h : b.length < 2 ^ 63) (s : String) : decodeFlags b ≠ .error (.panic s) := Safe.decodeFlags_noPanic h s
theorem decodeQuestion_no_panic {b : Bytes} (h : b.length < 2 ^ 63) (s : String) : decodeQuestion b ≠ .error (.panic s) := Safe.decodeQuestion_noPanic h s
theorem decodeRR_no_panic {b : Bytes} (h : b.length < 2 ^ 63) (s : String) : decodeRR b ≠ .error (.panic s) := Safe.decodeRR_noPanic h s
theorem decodeName_no_panic {b : Bytes} (h : b.length < 2 ^ 63) (s : String) : decodeName b ≠ .error (.panic s) := Safe.decodeName_noPanic h s
theorem decodeType_no_panic {b : Bytes} (h : b.length < 2 ^ 63) (s : String) : decodeType b ≠ .error (.panic s) := Safe.decodeType_noPanic h s
theorem decodeClass_no_panic {b : Bytes} (h : b.length < 2 ^ 63) (s : String) : decodeClass b ≠ .error (.panic s) := Safe.decodeClass_noPanic h s
theorem decodeQType_no_panic {b : Bytes} (h : b.length < 2 ^ 63) (s : String) : decodeQType b ≠ .error (.panic s) := Safe.decodeQType_noPanic h s
theorem decodeQClass_no_panic {b : Bytes} (h : b.length < 2 ^ 63) (s : String) : decodeQClass b ≠ .error (.panic s) := Safe.decodeQClass_noPanic h s

/-- the loops of the model (`while !is_finished()`, name expansion) never run out of fuel: the bounded
model is the unbounded Rust loop -/
theorem decodeDns_no_fuel {b : Bytes} (h : b.length < 2 ^ 63) : decodeDns b ≠ .error .fuel := Safe.decodeDns_noFuel h
theorem decodeRR_no_fuel {b : Bytes} (h : b.length < 2 ^ 63) : decodeRR b ≠ .error .fuel := Safe.decodeRR_noFuel h
theorem decodeQuestion_no_fuel {b : Bytes} (h : b.length < 2 ^ 63) : decodeQuestion b ≠ .error .fuel := Safe.decodeQuestion_noFuel h
theorem decodeFlags_no_fuel {b : Bytes} (h : b.length < 2 ^ 63) : decodeFlags b ≠ .error .fuel := Safe.decodeFlags_noFuel h
theorem decodeName_no_fuel {b : Bytes} (h : b.length < 2 ^ 63) : decodeName b ≠ .error .fuel := Safe.decodeName_noFuel h
theorem decodeType_no_fuel {b : Bytes} (h : b.length < 2 ^ 63) : decodeType b ≠ .error .fuel := Safe.decodeType_noFuel h
theorem decodeClass_no_fuel {b : Bytes} (h : b.length < 2 ^ 63) : decodeClass b ≠ .error .fuel := Safe.decodeClass_noFuel h
theorem decodeQType_no_fuel {b : Bytes} (h : b.length < 2 ^ 63) : decodeQType b ≠ .error .fuel := Safe.decodeQType_noFuel h
theorem decodeQClass_no_fuel {b : Bytes} (h : b.length < 2 ^ 63) : decodeQClass b ≠ .error .fuel := Safe.decodeQClass_noFuel h

/-- `DecodeError::Offset` is unreachable through the public entry point -/
theorem decodeDns_no_offset_error {b : Bytes} (h : b.length < 2 ^ 63) : decodeDns b ≠ .error .offset := Safe.decodeDns_noOffset h

example : decodeDns [0, 0] = .error .notEnoughBytes := rfl

/-! ## Every returned value can be re-encoded without a panic

A decoded value satisfies the grammar (C03), hence is well-formed (`RT.*_wf`), hence has the constructor
shape the encoder theorems need (`RT.wfMsg_shaped`); `EncLim.encode_no_panic` (C08) does the rest. Proofs:
Lemmas/ExtraB.lean. `encodeFlags` and `encodeCode` (Type/Class/QType/QClass) are total functions into `Bytes` in
the model (Model/Enc.lean): they have no error outcome at all. -/

theorem reencode_no_panic {b : Bytes} {m : Msg} {d : D} (h : decodeDns b = .ok (m, d)) (s : String) :
    encodeDns m ≠ .error (.panic s) := ExtraB.reencode_no_panic h s
theorem reencodeRR_no_panic {b : Bytes} {rr : RR} {d : D} (hb : b.length < 2 ^ 63) (h : decodeRR b = .ok (rr, d))
    (s : String) : encodeRR rr ≠ .error (.panic s) := ExtraB.reencodeRR_no_panic hb h s
theorem reencodeQuestion_no_panic {b : Bytes} {q : Question} {d : D} (_ : decodeQuestion b = .ok (q, d)) (s : String) :
    encodeQuestion q ≠ .error (.panic s) := (EncLim.encode_no_panic s).2.2.2.2.2.1 q
theorem reencodeName_no_panic {b : Bytes} {n : Name} {d : D} (_ : decodeName b = .ok (n, d)) (s : String) :
    encodeName n ≠ .error (.panic s) := (EncLim.encode_no_panic s).2.2.2.2.1 n
theorem reencodeFlags_total {b : Bytes} {f : Flags} {d : D} (_ : decodeFlags b = .ok (f, d)) :
    (encodeFlags f).length = 2 := rfl

/-- sharper: re-encoding a decoded message either succeeds or reports `Length`, the latter only when the
uncompressed size of the (possibly compressed) input exceeds 65535 octets; decoded questions and names
always re-encode -/
theorem reencode_outcome {b : Bytes} {m : Msg} {d : D} (h : decodeDns b = .ok (m, d)) :
    (∃ out, encodeDns m = .ok out) ∨ (encodeDns m = .error .length ∧ 65535 < m.usize) := ExtraB.reencode_outcome h
theorem reencodeQuestion_ok {b : Bytes} {q : Question} {d : D} (hb : b.length < 2 ^ 63)
    (h : decodeQuestion b = .ok (q, d)) : ∃ out, encodeQuestion q = .ok out := ExtraB.reencodeQuestion_ok hb h
theorem reencodeName_ok {b : Bytes} {n : Name} {d : D} (h : decodeName b = .ok (n, d)) :
    encodeName n = .ok (Name.wire n) := ExtraB.reencodeName_ok h

/-- non-vacuity: a response with one question and a compressed A answer is accepted, and the value re-encodes
(here to the same octets) -/
private def exB : Bytes :=
  [0x12, 0x34, 0x81, 0x80, 0, 1, 0, 1, 0, 0, 0, 0, 1, 97, 0, 0, 1, 0, 1,
   192, 12, 0, 1, 0, 1, 0, 0, 0, 60, 0, 4, 10, 0, 0, 1]

private def exM : Msg :=
  { id := 0x1234
    flags := ⟨true, 0, false, false, true, true, false, false, 0⟩
    qs := [⟨[[97]], 1, 1⟩]
    an := [⟨[[97]], 1, 1, 60, .fields [.bytes [10, 0, 0, 1]]⟩]
    ns := []
    ar := [] }

set_option maxRecDepth 8192 in
private theorem exB_decoded : decodeDns exB = .ok (exM, { buf := exB, off := 35, lim := 35, cost := 42 }) := rfl

example (s : String) : encodeDns exM ≠ .error (.panic s) := reencode_no_panic exB_decoded s
set_option maxRecDepth 8192 in
example : encodeDns exM = .ok exB := rfl

set_option maxRecDepth 8192 in
example (s : String) : encodeRR ⟨[[97]], 1, 1, 60, .fields [.bytes [10, 0, 0, 1]]⟩ ≠ .error (.panic s) :=
  reencodeRR_no_panic (b := [1, 97, 0, 0, 1, 0, 1, 0, 0, 0, 60, 0, 4, 10, 0, 0, 1])
    (d := { buf := [1, 97, 0, 0, 1, 0, 1, 0, 0, 0, 60, 0, 4, 10, 0, 0, 1], off := 17, lim := 17, cost := 21 })
    (by decide) rfl s

end C01
