import DnsVerif.Model.Table
import DnsVerif.Generated.Steps

/-! # TieSteps: the record table of the model says what the Rust readers and writers say NOW

`Generated/Steps.lean` is rewritten on every run by `tools/extract_steps.py`, a translator for the straight-line
record readers (`src/decode/rr/*.rs`) and writers (`src/encode/rr/*.rs`), their macros expanded: per record type the
class rule, the ordered `(binding, reader)` steps of the RDATA reader, the header writes and the ordered
`(field, writer)` steps between the RDLENGTH placeholder and its back-patch, and the two dispatch `match`es.

The theorems below compare that with the model's table `rrKind` (which `Sound`/`Complete`/`EncSpec`/`RT` are proved
about, and which `C03.tables_agree` connects to the RFC transcription `Spec.rdataFormat`).  They are closed terms
decided by the kernel, so a source change that reorders two fields, widens or narrows one, drops the IN-only rule,
writes a post-RFC-1035 RDATA name through the compressing writer, or re-routes a TYPE to another reader breaks a
named obligation here without any generator having to hit it.  `ext_*` theorems state C18 / C03 facts directly about
the extracted code, independently of the model.

What the extractor does not read (OPT, and the decode side of APL and SVCB/HTTPS: loops over sub-decoders) is listed
in `Gen.stepsUnreadable`; those bodies stay tied by the correspondence run only. -/

namespace TieSteps

/-- `"A" ↦ 1` through the regenerated `Type` enum -/
def typeCode (t : String) : Option Nat := (Gen.enumType.find? (fun p => p.1 == t)).map (·.2)

/-- the reader calls a field stands for (`*` = inside a loop, `?` = inside a conditional) -/
def decPrims : Fld → List String
  | .num 1 => ["u8"] | .num 2 => ["u16"] | .num 4 => ["u32"] | .num 8 => ["u64"] | .num _ => ["<num>"]
  | .enum 1 _ => ["u8"] | .enum 2 _ => ["u16"] | .enum _ _ => ["<enum>"]
  | .name _ => ["domain_name"]
  | .cstr _ => ["string"]
  | .ocstr _ => ["string?"]
  | .strs => ["string*"]
  | .rest _ => ["vec"]
  | .oct 1 4 => ["ipv4_addr"]
  | .oct 8 2 => ["ipv6_addr"]
  | .oct n 1 => List.replicate n "u8"
  | .oct _ _ => ["<oct>"]

/-- the writer calls a field stands for; the one difference to `decPrims` is the C18 fact: a name field that may
not be compressed goes through `domain_name_uncompressed` -/
def encPrims : Fld → List String
  | .name true => ["domain_name"]
  | .name false => ["domain_name_uncompressed"]
  | f => decPrims f

/-- `self.bytes.extend_from_slice(&x.f)` and `self.vec(&x.f)` are the same write -/
def normW (w : String) : String := if w == "bytes.extend_from_slice" then "vec" else w

def classRule (i : RRInfo) : String :=
  match i.inOnly with
  | none => "class"
  | some f => match f 0 with
    | .aClass _ => "in:AClass" | .wksClass _ => "in:WKSClass" | .aaaaClass _ => "in:AAAAClass"
    | .aplClass _ => "in:APLClass" | .svcbClass _ => "in:SVCBClass" | _ => "in:<other>"

def encClassRule (i : RRInfo) : String := if i.inOnly.isSome then "in" else "class"

/-- struct field a writer step names, as the model names it (DNSKEY: the two flag booleans are written through
`get_flags()`, the protocol octet is the literal 3) -/
def encFieldName (ty : String) (f : String) : String :=
  if ty == "DNSKEY" && f == "get_flags" then "flags" else if ty == "DNSKEY" && f == "#3" then "protocol" else f

/-- field names repeated once per primitive step -/
def fieldNames (flds : List (String × Fld)) (prims : Fld → List String) : List String :=
  flds.flatMap (fun p => (prims p.2).map (fun _ => p.1))

/-- struct field a reader step's `let` binding ends up in, as the model names it (URI: the octets are bound to
`buffer` and checked for UTF-8 before they become `uri`) -/
def decFieldName (ty : String) (b : String) : String := if ty == "URI" && b == "buffer" then "uri" else b

/-- alternative spellings of one field's calls: an octet array may be read / written by `n` unrolled `u8` calls or by
one `u8` call in a loop over the array -/
def altPrims (prims : Fld → List String) (f : Fld) : List (List String) :=
  match f with
  | .oct _ 1 => [prims f, ["u8*"]]
  | _ => [prims f]

/-- do the extracted steps `(name, call)` spell the field list, in order?  `nameOk model extracted` compares the field
a step belongs to -/
def matchFlds (prims : Fld → List String) (nameOk : String → String → Bool) :
    List (String × Fld) → List (String × String) → Bool
  | [], steps => steps.isEmpty
  | (fname, f) :: rest, steps =>
    (altPrims prims f).any fun alt =>
      alt == (steps.take alt.length).map (·.2) && (steps.take alt.length).all (fun st => nameOk fname st.1) &&
      alt.length ≤ steps.length && matchFlds prims nameOk rest (steps.drop alt.length)

def decEntryOk (e : String × String × List (String × String)) : Bool :=
  match typeCode e.1 with
  | none => false
  | some c => match rrKind c with
    | some (.regular i) =>
        i.tname == e.1 && classRule i == e.2.1 &&
        matchFlds decPrims (fun m b => b == "_" || m == decFieldName e.1 b) i.flds e.2.2
    | _ => false

def encEntryOk (e : String × String × String × Bool × List (String × String)) : Bool :=
  match typeCode e.1 with
  | none => false
  | some c => match rrKind c with
    | some (.regular i) =>
        i.tname == e.1 && e.2.1 == e.1 && encClassRule i == e.2.2.1 && e.2.2.2.1 &&
        matchFlds encPrims (fun m f => m == encFieldName e.1 f) i.flds (e.2.2.2.2.map fun s => (s.1, normW s.2))
    | some .apl => e.2.1 == "APL" && e.2.2.1 == "in" && e.2.2.2.1 && e.2.2.2.2 == [("apitems", "rr_apl_apitem*")]
    -- K1 (recorded finding): the SVCB/HTTPS target goes through the COMPRESSING writer; the model does the same
    | some (.svcb _) => e.2.2.1 == "in" &&
        e.2.2.2.2 == [("priority", "u16"), ("target_name", "domain_name"), ("parameters", "rr_service_parameter*")]
    | _ => false

/-- every reader the translator could read agrees with the model's table row: type name, class rule, the ordered
reader calls and the struct fields their results are bound to -/
theorem dec_steps_agree : Gen.decSteps.all decEntryOk = true := by decide

/-- every writer the translator could read agrees with the model's table row: TYPE written, class written,
header order, the ordered writer calls (compressing vs literal name writer included) and the struct fields they take -/
theorem enc_steps_agree : Gen.encSteps.all encEntryOk = true := by decide

/-- the decoder dispatches exactly the implemented types, each `Type::T` to `RR::T` -/
theorem dec_dispatch_agree :
    (Gen.decDispatch.all fun e => e.1 == e.2.1 && (typeCode e.1).any (fun c => (rrKind c).isSome)) = true ∧
    (implementedTypes.all fun c => Gen.decDispatch.any fun e => typeCode e.1 == some c) = true ∧
    Gen.decDispatch.length = implementedTypes.length := by decide

/-- the encoder dispatches every variant to the writer of the same record type as the decoder's reader -/
theorem enc_dispatch_agree :
    Gen.encDispatch.map (·.1) = Gen.decDispatch.map (·.2.1) ∧
    (Gen.encDispatch.all fun e => Gen.decDispatch.any fun d =>
        d.2.1 == e.1 && (d.2.2 == e.2 || d.2.2 == e.2 ++ "/false" || d.2.2 == e.2 ++ "/true")) = true := by decide

/-! ## Framing functions (`decMsg`, `decQuestion`, `decRRHeader`, `withSub`, `encMsg`, `encQuestion` of the model
are written in this order; the literals below are that order, the generated side is the Rust source) -/

def frame (l : String) : Option (List (String × String)) := (Gen.frameSteps.find? (fun p => p.1 == l)).map (·.2)

/-- `Decoder::dns`: id, flags, four counts, then the four sections in the same order, loop `k` running over the
count read by step `k` (`@2` = QDCOUNT … `@5` = ARCOUNT), then the end-of-input test -/
theorem frame_dec_dns : (frame "dec.dns").all (· ==
    [("_", "u16"), ("_", "flags"), ("_", "u16"), ("_", "u16"), ("_", "u16"), ("_", "u16"), ("@2", "question*"),
     ("@3", "rr*"), ("@4", "rr*"), ("@5", "rr*"), ("_", "is_finished")]) = true := by decide

/-- `Encoder::dns`: the same order on the way out; every count is the length of the section written in its place -/
theorem frame_enc_dns : (frame "enc.dns").all (· ==
    [(".id", "u16"), (".flags", "flags"), (".questions", "count"), (".answers", "count"), (".authorities", "count"),
     (".additionals", "count"), (".questions", "question*"), (".answers", "rr*"), (".authorities", "rr*"),
     (".additionals", "rr*")]) = true ∧ (frame "enc.count").all (· == [("_", "u16")]) = true := by decide

/-- question: name, QTYPE, QCLASS on both sides -/
theorem frame_question :
    (frame "dec.question").all (· == [("_", "domain_name"), ("_", "q_type"), ("_", "q_class")]) = true ∧
    (frame "enc.question").all (· == [(".domain_name", "domain_name"), (".q_type", "question_type"), (".q_class", "question_class")]) = true := by
  decide

/-- record header: owner, TYPE, CLASS (raw 16 bits, validated per type), TTL; then RDLENGTH is read and a sub-window of
exactly THAT length (`@1` = the value read by step 1; a private helper such as `rr_data` is inlined) is opened, which the
record reader must leave exhausted (`finished`) -/
theorem frame_rr :
    (frame "dec.rr_header").all (· == [("_", "domain_name"), ("_", "rr_type"), ("_", "u16"), ("_", "u32")]) = true ∧
    (frame "dec.rr").all (· == [("_", "rr_header"), ("_", "u16"), ("@1", "sub"), ("_", "finished")]) = true := by decide

/-- OPT: options up to the end of the window; one option = code, length, a sub-window of exactly that length handed to
the reader of that code, which must leave it exhausted; the writer: root owner, TYPE, payload size in CLASS, the
packed TTL word, then the options inside the RDLENGTH bracket -/
theorem frame_opt :
    (frame "dec.opt").all (· == [("_", "is_finished"), ("_", "rr_edns_option*")]) = true ∧
    (frame "dec.edns_option").all (· == [("_", "rr_edns_option_code"), ("_", "u16"), ("@1", "sub"), ("_", "rr_edns_ecs"),
      ("_", "rr_edns_cookie"), ("_", "rr_edns_padding"), ("_", "finished")]) = true := by decide

/-- the OPT writer: root owner, TYPE, payload size in CLASS, the packed TTL word, then the options inside the RDLENGTH bracket -/
theorem frame_opt_enc :
    (frame "enc.opt").all (· == [("_", "domain_name"), ("_", "rr_type"), (".requestor_payload_size", "u16"),
      (".extend_rcode", "u32"), ("_", "create_length_index"), (".edns_options", "rr_edns_option*"),
      ("@4", "set_length_index")]) = true := by decide

/-- APL: items up to the end of the window; one item = family, prefix, the negation/length octet, a sub-window of
exactly that length for the address, left exhausted; the writer emits the address without trailing zero octets and
back-patches the length octet -/
theorem frame_apl :
    (frame "dec.apl").all (· == [("_", "is_finished"), ("_", "rr_apl_apitem*")]) = true ∧
    (frame "dec.apitem").all (· == [("_", "rr_address_family_number"), ("_", "u8"), ("_", "u8"), ("_", "sub"),
      ("@0", "rr_address"), ("_", "finished")]) = true := by decide

/-- the APL item writer: family, prefix, a placeholder octet, the address without trailing zero octets, then the
negation/length octet is back-patched -/
theorem frame_apl_enc :
    (frame "enc.apitem").all (· == [("_", "rr_address_family_number"), ("_", "u8"), ("_", "u8"),
      ("_", "rr_address_without_trailing_zeros"), (".negation", "set_address_length_index")]) = true := by decide

/-- SVCB/HTTPS: priority, target, then (service form only) parameters up to the end of the window, each = key, length,
a sub-window of exactly that length (`@4`) for the value reader of that key (`@3`), left exhausted; the writer back-patches
the RDLENGTH placeholder it created (`@4`) -/
theorem frame_svcb :
    (frame "dec.svcb").all (· == [("_", "u16"), ("_", "domain_name"), ("_", "is_finished?"), ("_", "u16*"), ("_", "u16*"),
      ("@4", "sub*"), ("@3", "rr_service_parameter*"), ("_", "finished*")]) = true := by decide

/-- the SVCB/HTTPS writer: header, RDLENGTH placeholder, priority, target, the parameters in the set's order, back-patch -/
theorem frame_svcb_enc :
    (frame "enc.svcb").all (· == [(".name", "domain_name"), ("_", "rr_type"), ("_", "rr_class"), (".ttl", "u32"),
      ("_", "create_length_index"), (".priority", "u16"), (".target_name", "domain_name"),
      (".parameters", "rr_service_parameter*"), ("@4", "set_length_index")]) = true := by decide

/-! ## SvcParam kinds and EDNS options (`SvcParam.key`, `decSvcParam`, `encSvcParam`, `decOption`, `encOption`) -/

/-- the model's kinds: Rust variant name, `SvcParam.key` of a value of that kind (`none` = the private range, where
the key is the value's own number), and the reader / writer calls of its value (`decSvcParam`: `D.nums16`, `D.cstrs`,
nothing, `num 2`, `D.hints 1 4`, `num 2` + `rest`, `D.hints 8 2`, nothing, `rest`) -/
def modelSvcKinds : List (String × Option Nat × List String) :=
  [("MANDATORY", some (SvcParam.mandatory []).key, ["u16*"]), ("ALPN", some (SvcParam.alpn []).key, ["string*"]),
   ("NO_DEFAULT_ALPN", some SvcParam.noDefaultAlpn.key, []), ("PORT", some (SvcParam.port 0).key, ["u16"]),
   ("IPV4_HINT", some (SvcParam.ipv4hint []).key, ["ipv4_addr*"]), ("ECH", some (SvcParam.ech []).key, ["u16", "vec"]),
   ("IPV6_HINT", some (SvcParam.ipv6hint []).key, ["ipv6_addr*"]), ("PRIVATE", none, ["vec"]),
   ("KEY_65535", some SvcParam.key65535.key, [])]

def numStr : Option Nat → String
  | some n => toString n
  | none => "*number"

/-- `get_registered_number` gives every kind the key the model gives it (0..6, 65535, own number for the private range) -/
theorem svc_numbers_agree :
    (Gen.svcNumbers.all fun e => modelSvcKinds.any fun k => k.1 == e.1 && numStr k.2.1 == e.2) = true := by decide

/-- the value reader dispatches each key to the kind that carries this key and reads its value the way the model does -/
theorem svc_dec_agree :
    (Gen.svcDec.all fun e => modelSvcKinds.any fun k =>
        k.1 == e.2.1 && (numStr k.2.1 == e.1 || (k.2.1.isNone && e.1 == "number")) && k.2.2 == e.2.2) = true := by decide

/-- the value writer writes each kind the way the model does, and the way the reader reads it -/
theorem svc_enc_agree :
    (Gen.svcEnc.all fun e => modelSvcKinds.any fun k => k.1 == e.1 && k.2.2 == e.2) = true ∧
    (Gen.svcEnc.all fun e => Gen.svcDec.all fun d => d.2.1 != e.1 || d.2.2 == e.2) = true := by decide

/-- option code `C` is read into variant `C` by `rr_edns_<c>` and written back by the writer of the same name -/
theorem opt_dispatch_agree :
    (Gen.optDec.all fun d => d.1 == d.2.1 && Gen.optEnc.contains (d.2.1, d.2.2)) = true ∧
    (Gen.optDec.all fun d => ["ECS", "Cookie", "Padding"].contains d.1) = true := by decide

/-! ## Facts about the extracted code itself (no model involved) -/

/-- RFC 1035 types whose RDATA names may be compressed -/
def rfc1035NameTypes : List String := ["NS", "MD", "MF", "CNAME", "SOA", "MB", "MG", "MR", "PTR", "MINFO", "MX"]

/-- C18 on the code as extracted: outside the RFC 1035 types no writer step is the compressing name writer —
except the SVCB/HTTPS target, the recorded finding K1 -/
theorem ext_c18_no_compressing_writer :
    (Gen.encSteps.all fun e =>
        rfc1035NameTypes.contains e.1 || e.1 == "SVCB" || e.1 == "HTTPS" ||
        e.2.2.2.2.all (fun s => s.2 != "domain_name")) = true := by decide

/-- a run of unrolled `u8` calls and one `u8` call in a loop are the same thing for the symmetry check -/
def collapse : List String → List String
  | [] => []
  | x :: xs =>
    let x' := if x == "u8" then "u8*" else x
    match collapse xs with
    | y :: ys => if x' == "u8*" && y == "u8*" then y :: ys else x' :: y :: ys
    | [] => [x']

/-- reader and writer of one type perform the same steps in the same order (a name is a name whichever writer) -/
theorem ext_reader_writer_symmetric :
    (Gen.decSteps.all fun d => Gen.encSteps.all fun e =>
        e.1 != d.1 ||
        collapse (d.2.2.map (·.2)) ==
          collapse (e.2.2.2.2.map (fun s => if s.2 == "domain_name_uncompressed" then "domain_name" else normW s.2))) = true := by
  decide

/-- the IN-only types are the same on both sides: the reader insists on class IN exactly where the writer emits
the literal IN -/
theorem ext_in_only_symmetric :
    (Gen.decSteps.all fun d => Gen.encSteps.all fun e =>
        e.1 != d.1 || ((d.2.1 != "class") == (e.2.2.1 == "in"))) = true := by decide

/-! non-vacuity of the checkers (independent of the generated file): the real SOA and SRV rows are accepted, a row
with two timers swapped, a narrowed field, or the compressing writer in SRV is rejected -/
example : decEntryOk ("SOA", "class", [("m_name", "domain_name"), ("r_name", "domain_name"), ("serial", "u32"),
    ("refresh", "u32"), ("retry", "u32"), ("expire", "u32"), ("min_ttl", "u32")]) = true := by decide
example : decEntryOk ("SOA", "class", [("m_name", "domain_name"), ("r_name", "domain_name"), ("serial", "u32"),
    ("retry", "u32"), ("refresh", "u32"), ("expire", "u32"), ("min_ttl", "u32")]) = false := by decide
example : decEntryOk ("MX", "class", [("preference", "u8"), ("exchange", "domain_name")]) = false := by decide
example : encEntryOk ("SRV", "SRV", "class", true, [("priority", "u16"), ("weight", "u16"), ("port", "u16"),
    ("target", "domain_name_uncompressed")]) = true := by decide
example : encEntryOk ("SRV", "SRV", "class", true, [("priority", "u16"), ("weight", "u16"), ("port", "u16"),
    ("target", "domain_name")]) = false := by decide
example : encEntryOk ("A", "A", "class", true, [("ipv4_addr", "ipv4_addr")]) = false := by decide
example : decEntryOk ("EUI48", "class", [("_", "u8*")]) = true := by decide
example : decEntryOk ("EUI48", "class", [("_", "u8"), ("_", "u8"), ("_", "u8"), ("_", "u8"), ("_", "u8")]) = false := by decide
example : encEntryOk ("EUI64", "EUI64", "class", true, [("eui_64", "u8*")]) = true := by decide

end TieSteps
