import DnsVerif.Lemmas.ApiMachines
import DnsVerif.Lemmas.AddrEmit
import DnsVerif.Lemmas.SoundMsg
import DnsVerif.Lemmas.CompleteMsg
import DnsVerif.Lemmas.EncSpecRR
import DnsVerif.Lemmas.RTElem

/-! # C15 — EDNS OPT record and its options map exactly to RFC 6891/7830/7871/7873

Part 1: the acceptance conditions of the three option bodies as constructors see them. Part 2: the TTL
word split / merge for all 2^32 words, options accepted ⇔ the grammar `OptionAt` (RFC value domains),
the OPT record in the grammar `RRAt.opt` (owner root, CLASS = payload size, TTL = ext-rcode / version / DO).
Emission "so that they decode to the same option" is the OPT instance of the record round trip (C05 / C10). -/

namespace C15

/-- a cookie is accepted exactly with an 8-octet client part and no server part or one of 8..=32 octets
(whole option 8 or 16..=40 octets) -/
theorem cookie_accept_iff (client : Bytes) (server : Option Bytes) (o : EdnsOpt) :
    cookieNew client server = .ok o ↔ o = .cookie client server ∧ ∀ v, server = some v → 8 ≤ v.length ∧ v.length ≤ 32 :=
  cookieNew_ok_iff client server o

/-- the cookie decoder: which lengths are accepted -/
theorem cookie_lengths (b : Bytes) :
    (∃ o d', decCookie { buf := b, off := 0, lim := b.length, cost := 0 } = .ok (o, d')) ↔ (b.length = 8 ∨ (16 ≤ b.length ∧ b.length ≤ 40)) := by
  unfold decCookie D.rest
  simp only [Nat.zero_le, if_true, Nat.sub_zero, List.drop_zero, List.take_length]
  by_cases h8 : b.length = 8
  · simp [h8, cookieNew]
  · by_cases h16 : 16 ≤ b.length ∧ b.length ≤ 40
    · have : ¬ b.length < 8 := by omega
      have h1 : 8 ≤ (b.drop 8).length ∧ (b.drop 8).length ≤ 32 := by simp; omega
      have h2 : 8 ≤ b.length - 8 := by omega
      simp [h8, h16, this, cookieNew, h2]
    · simp [h8, h16]

/-- a client-subnet option is accepted exactly when the prefix is within the family size and no address
bit beyond it is set -/
theorem ecs_accept_iff (fam src scope : Nat) (addr : Bytes) (o : EdnsOpt) :
    ecsNew fam src scope addr = .ok o ↔
      o = .ecs fam src scope addr ∧ max src scope ≤ 8 * addr.length ∧ NoBitBeyond addr (max src scope) :=
  ecsNew_ok_iff fam src scope addr o

/-- padding of any length, zero included, is accepted exactly when all octets are zero -/
theorem padding_accept_iff (b : Bytes) (hb : b.length ≤ 65535) :
    (∃ o d', decPadding { buf := b, off := 0, lim := b.length, cost := 0 } = .ok (o, d')) ↔ b.all (· == 0) = true := by
  unfold decPadding D.rest
  simp only [Nat.zero_le, if_true, Nat.sub_zero, List.drop_zero, List.take_length]
  have : ¬ 65535 < b.length := by omega
  simp only [this, if_false]
  cases hz : b.all (· == 0) <;> simp

example : (∃ o d', decPadding { buf := [], off := 0, lim := 0, cost := 0 } = .ok (o, d')) := ⟨.padding 0, _, rfl⟩

/-! ## The TTL word (RFC 6891 §6.1.3) -/

/-- merge then split: every (extended RCODE, version, DO) is carried exactly -/
theorem opt_ttl_merge_split (ext ver : Nat) (dnssec : Bool) (h1 : ext < 256) (h2 : ver < 256) :
    optTtl (optTtlOf ext ver dnssec) = .ok (ext, ver, dnssec) := Complete.optTtl_of ext ver dnssec h1 h2

/-- split then merge: a TTL word is accepted only if it is exactly the RFC layout of the returned fields
(octet 0 = extended RCODE, octet 1 = version, octet 2 ∈ {0x00, 0x80} = DO, octet 3 = 0): set reserved
flag bits are rejected -/
theorem opt_ttl_split_merge {ttl ext ver : Nat} {dn : Bool} (h : optTtl ttl = .ok (ext, ver, dn)) :
    ext < 256 ∧ ver < 256 ∧ (ttl < 2 ^ 32 → ttl = optTtlOf ext ver dn) := Sound.optTtl_ok h

/-- the encoder's word is the grammar's word -/
theorem opt_ttl_encoder (ext ver : Nat) (dnssec : Bool) (hv : ver < 256) : optTtlWord ext ver dnssec = optTtlOf ext ver dnssec :=
  EncSpec.optTtl_eq dnssec hv

/-! ## Options: accepted exactly for their RFC value domains -/

theorem option_accept_sound {d d' : D} {o : EdnsOpt} (hd : D.Ok d) (h : decOption d = .ok (o, d')) :
    OptionAt d.buf d.off o d'.off := (Sound.decOption_sound hd h).1

theorem option_accept_complete {buf : Bytes} {off e lim c : Nat} {o : EdnsOpt} (h : OptionAt buf off o e)
    (he : e ≤ lim) (hlb : lim ≤ buf.length) (hB : buf.length < 2 ^ 63) :
    ∃ c', decOption { buf := buf, off := off, lim := lim, cost := c } = .ok (o, { buf := buf, off := e, lim := lim, cost := c' }) :=
  Complete.decOption_complete h he hlb hB

/-! ## The OPT record: positions of its fields, and emission -/

/-- in an accepted OPT record the payload size is the CLASS field, extended RCODE / version / DO are octets
0 / 1 and the top bit of octet 2 of the TTL field, octet 3 and the other bits of octet 2 are zero, the owner is the root -/
theorem opt_fields_position {b : Bytes} {rr : RR} {d : D} (hb : b.length < 2 ^ 63) (h : decodeRR b = .ok (rr, d)) (hty : rr.ty = 41) :
    ∃ e p x v dn opts, rr = RT.optRR p x v dn opts ∧ NameRefAt b false 0 [] e ∧ BytesAt b (e + 2) (beBytes 2 p) ∧
      BytesAt b (e + 4) [UInt8.ofNat x, UInt8.ofNat v, if dn then 128 else 0, 0] := RT.decoded_opt_fields_position hb h hty

/-- every well-formed OPT record (any payload, ext-rcode, version, DO, any well-formed options) is emitted so
that it decodes to exactly the same record -/
theorem option_roundtrip {rr : RR} {b : Bytes} {p x v : Nat} {dn : Bool} {opts : List EdnsOpt} (hwf : WfRR rr)
    (hrd : rr.rd = .opt p x v dn opts) (h : encodeRR rr = .ok b) : ∃ d, decodeRR b = .ok (rr, d) ∧ d.off = b.length :=
  RT.option_roundtrip hwf hrd h

end C15
