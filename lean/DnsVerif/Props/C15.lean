import DnsVerif.Lemmas.ApiMachines
import DnsVerif.Lemmas.AddrEmit

/-! # C15 — EDNS OPT record and its options (part 1: value domains of the options)

Part 1: the acceptance conditions of the three option bodies as constructors see them. Part 2 (record
level: TTL word split/merge, payload in CLASS, owner root, option framing and round trip, from
Lemmas/Sound*/Complete*/EncSpec*.lean) is appended when complete; until then PARTIAL. -/

namespace C15

/-- a cookie is accepted exactly with an 8-octet client part and no server part or one of 8..=32 octets
(whole option 8 or 16..=40 octets) -/
theorem cookie_accept_iff (client : Bytes) (server : Option Bytes) (o : EdnsOpt) :
    cookieNew client server = .ok o ↔ o = .cookie client server ∧ ∀ v, server = some v → 8 ≤ v.length ∧ v.length ≤ 32 :=
  cookieNew_ok_iff client server o

/-- the cookie decoder: which lengths are accepted -/
theorem cookie_lengths (b : Bytes) :
    (∃ o d', decCookie { buf := b, off := 0, lim := b.length, cost := 0 } = .ok (o, d')) ↔ (b.length = 8 ∨ (16 ≤ b.length ∧ b.length ≤ 40)) := by
  unfold decCookie D.rest
  simp only [Nat.zero_le, if_true, Nat.sub_zero, List.drop_zero, List.take_length]
  by_cases h8 : b.length = 8
  · simp [h8, cookieNew]
  · by_cases h16 : 16 ≤ b.length ∧ b.length ≤ 40
    · have : ¬ b.length < 8 := by omega
      have h1 : 8 ≤ (b.drop 8).length ∧ (b.drop 8).length ≤ 32 := by simp; omega
      have h2 : 8 ≤ b.length - 8 := by omega
      simp [h8, h16, this, cookieNew, h2]
    · simp [h8, h16]

/-- a client-subnet option is accepted exactly when the prefix is within the family size and no address
bit beyond it is set -/
theorem ecs_accept_iff (fam src scope : Nat) (addr : Bytes) (o : EdnsOpt) :
    ecsNew fam src scope addr = .ok o ↔
      o = .ecs fam src scope addr ∧ max src scope ≤ 8 * addr.length ∧ NoBitBeyond addr (max src scope) :=
  ecsNew_ok_iff fam src scope addr o

/-- padding of any length, zero included, is accepted exactly when all octets are zero -/
theorem padding_accept_iff (b : Bytes) (hb : b.length ≤ 65535) :
    (∃ o d', decPadding { buf := b, off := 0, lim := b.length, cost := 0 } = .ok (o, d')) ↔ b.all (· == 0) = true := by
  unfold decPadding D.rest
  simp only [Nat.zero_le, if_true, Nat.sub_zero, List.drop_zero, List.take_length]
  have : ¬ 65535 < b.length := by omega
  simp only [this, if_false]
  cases hz : b.all (· == 0) <;> simp

example : (∃ o d', decPadding { buf := [], off := 0, lim := 0, cost := 0 } = .ok (o, d')) := ⟨.padding 0, _, rfl⟩

end C15
