import DnsVerif.Lemmas.EncName
import DnsVerif.Lemmas.EncSpecMsg
import DnsVerif.Lemmas.RTMsg

/-! # C05 — encoded output is a well-formed DNS message carrying the same value

Part 1: every compression pointer the encoder emits refers backwards to a previously written name below
offset 16384 and names need at most 16 hops (from the table invariant, for every history). Part 2: for every well-formed message value
(`WfMsg`, Spec/WF.lean: what the Rust types and constructors enforce) that encodes successfully, the output
satisfies the independent wire grammar IN ITS STRICT FORM (`bk = true`: every pointer strictly backwards,
≤ 16 hops) for a value equal to the written one up to ASCII case of names and order of `mandatory`
(`Msg.norm`). `MsgAt` spells out the property's bullet list: counts = section sizes, every RDLENGTH /
option length / AFDLENGTH / SvcParam length = the octets it covers, nothing after the last record,
12 ≤ size. "An independent RFC decoder reads it back" = completeness of the grammar-based reference
(C04) — composed below in `encode_decode` / `encode_decode_total`. -/

namespace C05

/-- a name written from any reachable encoder state is, in every buffer agreeing with the output, a
backward-pointer name (`bk = true`: every pointer target is smaller than the pointer's own offset) of at
most 16 hops, equal to the written name up to ASCII case -/
theorem emitted_name_wellformed {S : Nat → Prop} {e e' : Enc} {n : Name} (hr : Reach S e) (hwf : wfName n)
    (h : encName e n = .ok e') :
    ∃ x, e'.out = e.out ++ x ∧ x ≠ [] ∧ ∃ n' hops, n'.lower = n.lower ∧ hops ≤ 16 ∧
      ∀ buf', Agree (ext S e.out.length e'.out.length) e'.out buf' → NameAt buf' true e.out.length n' hops e'.out.length := by
  obtain ⟨x, hx, hne, _, rest⟩ := encName_spec n S e e' hwf (reachable_inv hr) h
  exact ⟨x, hx, hne, rest⟩

/-- pointer targets: `ptrOff` of any two octets is below 16384 -/
theorem pointer_target_lt (a b : UInt8) : ptrOff a b < 16384 := by
  have := a.toNat_lt; have := b.toNat_lt
  unfold ptrOff; omega

/-! ## Whole messages and elements -/

theorem encodeDns_spec {m : Msg} {b : Bytes} (hwf : WfMsg m) (h : encodeDns m = .ok b) :
    ∃ m', m'.norm = m.norm ∧ MsgAt b true m' := EncSpec.encodeDns_spec hwf h

theorem encodeRR_spec {rr : RR} {b : Bytes} (hwf : WfRR rr) (h : encodeRR rr = .ok b) :
    ∃ rr', rr'.norm = rr.norm ∧ RRAt b true 0 rr' b.length := EncSpec.encodeRR_spec hwf h

theorem encodeQuestion_spec {q : Question} {b : Bytes} (hwf : WfQuestion q) (h : encodeQuestion q = .ok b) :
    ∃ q', q'.lower = q.lower ∧ QuestionAt b true 0 q' b.length := EncSpec.encodeQuestion_spec hwf h

/-- the emitted message stays within 65,535 octets (the final check of `Encoder::dns`, as repaired) -/
theorem encodeDns_le_65535 {m : Msg} {b : Bytes} (h : encodeDns m = .ok b) : b.length ≤ 65535 := by
  unfold encodeDns outOf at h
  cases he : encMsg {} m with
  | error e => simp [he] at h
  | ok e =>
    simp only [he] at h
    injection h with h; subst h
    unfold encMsg at he
    simp only at he
    cases h1 : encCount (Enc.put {} (beBytes 2 m.id ++ flagsBytes m.flags)) m.qs.length with
    | error x => simp [h1] at he
    | ok e1 =>
      simp only [h1] at he
      cases h2 : encCount e1 m.an.length with
      | error x => simp [h2] at he
      | ok e2 =>
        simp only [h2] at he
        cases h3 : encCount e2 m.ns.length with
        | error x => simp [h3] at he
        | ok e3 =>
          simp only [h3] at he
          cases h4 : encCount e3 m.ar.length with
          | error x => simp [h4] at he
          | ok e4 =>
            simp only [h4] at he
            cases h5 : encQuestions e4 m.qs with
            | error x => simp [h5] at he
            | ok e5 =>
              simp only [h5] at he
              cases h6 : encRRs e5 m.an with
              | error x => simp [h6] at he
              | ok e6 =>
                simp only [h6] at he
                cases h7 : encRRs e6 m.ns with
                | error x => simp [h7] at he
                | ok e7 =>
                  simp only [h7] at he
                  cases h8 : encRRs e7 m.ar with
                  | error x => simp [h8] at he
                  | ok e8 =>
                    simp only [h8] at he
                    split at he
                    · simp at he
                    · injection he with he; subst he; omega

/-- every length field written by the back-patcher is the true length of the window it covers -/
theorem length_field_exact {S : Nat → Prop} {e e' : Enc} {li : Nat} (hinv : EInv S e)
    (hfree : ∀ j, S j → j < li ∨ li + 2 ≤ j) (h : setLen e li = .ok e') :
    BytesAt e'.out li (beBytes 2 (e.out.length - li - 2)) ∧ e.out.length - li - 2 ≤ 65535 ∧ e'.out.length = e.out.length := by
  obtain ⟨_, _, h3, h4, _, h6, _⟩ := EncSpec.setLen_spec hinv hfree h
  exact ⟨h6, h4, h3⟩

/-! ## "encode succeeds and an independent RFC decoder reads its output back as exactly that value" -/

/-- every well-formed value that encodes is read back (by the grammar-complete reference decoder) as the same value -/
theorem encode_decode {m : Msg} {b : Bytes} (hwf : WfMsg m) (h : encodeDns m = .ok b) :
    ∃ m' d, decodeDns b = .ok (m', d) ∧ m'.norm = m.norm := RT.encode_decode hwf h

/-- closed form: a well-formed value within the message size limit DOES encode, to at most its uncompressed size,
the output satisfies the strict layout rules, and it is read back as the same value consuming every octet -/
theorem encode_decode_total {m : Msg} (hwf : WfMsg m) (hsz : m.usize ≤ 65535) :
    ∃ b m' d, encodeDns m = .ok b ∧ decodeDns b = .ok (m', d) ∧ m'.norm = m.norm ∧ MsgAt b true m' ∧
      b.length ≤ m.usize ∧ d.off = b.length := RT.encode_decode_total hwf hsz

/-- every pointer of a strict-grammar name refers backwards and below offset 16384 -/
theorem pointer_backward_below_16384 {buf : Bytes} {bk : Bool} {off h e : Nat} {n : Name} {a b : UInt8}
    (hn : NameAt buf bk off n h e) (ha : buf[off]? = some a) (hp : 192 ≤ a.toNat) (hb : buf[off + 1]? = some b) :
    ptrOff a b < 16384 ∧ (bk = true → ptrOff a b < off) := by
  obtain ⟨h1, h2, _⟩ := RT.nameAt_ptr_lt hn ha hp hb
  exact ⟨h1, h2⟩

end C05
