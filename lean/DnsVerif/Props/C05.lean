import DnsVerif.Lemmas.EncName

/-! # C05 — encoded output is a well-formed DNS message carrying the same value (part 1: names, pointers)

Part 1: every compression pointer the encoder emits refers backwards to a previously written name below
offset 16384 and names need at most 16 hops (from the table invariant, for every history). Part 2
(`encodeDns_spec : WfMsg m → encodeDns m = .ok b → ∃ m', m'.norm = m.norm ∧ MsgAt b true m'`, from
Lemmas/EncSpec*.lean) is appended when complete; until then PARTIAL. -/

namespace C05

/-- a name written from any reachable encoder state is, in every buffer agreeing with the output, a
backward-pointer name (`bk = true`: every pointer target is smaller than the pointer's own offset) of at
most 16 hops, equal to the written name up to ASCII case -/
theorem emitted_name_wellformed {S : Nat → Prop} {e e' : Enc} {n : Name} (hr : Reach S e) (hwf : wfName n)
    (h : encName e n = .ok e') :
    ∃ x, e'.out = e.out ++ x ∧ x ≠ [] ∧ ∃ n' hops, n'.lower = n.lower ∧ hops ≤ 16 ∧
      ∀ buf', Agree (ext S e.out.length e'.out.length) e'.out buf' → NameAt buf' true e.out.length n' hops e'.out.length := by
  obtain ⟨x, hx, hne, _, rest⟩ := encName_spec n S e e' hwf (reachable_inv hr) h
  exact ⟨x, hx, hne, rest⟩

/-- pointer targets: `ptrOff` of any two octets is below 16384 -/
theorem pointer_target_lt (a b : UInt8) : ptrOff a b < 16384 := by
  have := a.toNat_lt; have := b.toNat_lt
  unfold ptrOff; omega

end C05
