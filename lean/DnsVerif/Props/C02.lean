import DnsVerif.Props.C06

/-! # C02 — decode → encode → decode returns the identical message (part 1: names)

The round trip at the level where its difficulty lives: after ANY history of one encoder, a name that the
encoder writes is decoded back to a name equal up to ASCII case (C06.encName_transparent). Part 2 (whole
messages: `decodeDns b = .ok m → encodeDns m = .ok b' ∧ decodeDns b' = .ok m' ∧ m'.norm = m.norm`, a
corollary of decoder soundness, encoder ⇒ grammar and decoder completeness) is appended when those
developments are complete; until then PARTIAL (the `rt.dns` stream runs the round trip on the real crate). -/

namespace C02

theorem name_roundtrip {S : Nat → Prop} {e e' : Enc} {n : Name} (hr : Reach S e)
    (hwf : wfName n) (hutf : ∀ l ∈ n, validUtf8 l = true) (hsz : Name.sz n < 255) (h : encName e n = .ok e') :
    ∃ n' c', n'.lower = n.lower ∧
      D.name { buf := e'.out, off := e.out.length, lim := e'.out.length, cost := 0 } =
        .ok (n', { buf := e'.out, off := e'.out.length, lim := e'.out.length, cost := c' }) ∨ 2 ^ 63 ≤ e'.out.length := by
  obtain ⟨n', hops, hlow, _, hall⟩ := C06.encName_transparent hr hwf hutf hsz h
  rcases Nat.lt_or_ge e'.out.length (2 ^ 63) with hB | hB
  · have := (hall e'.out e'.out.length 0 (Agree.refl _ _) (Nat.le_refl _) (Nat.le_refl _) hB).2
    exact ⟨n', _, Or.inl ⟨hlow, this⟩⟩
  · exact ⟨n', 0, Or.inr hB⟩

end C02
