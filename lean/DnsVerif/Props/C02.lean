import DnsVerif.Props.C06
import DnsVerif.Lemmas.RTMsg
import DnsVerif.Lemmas.ExtraF

/-! # C02 — decode → encode → decode returns the identical message

For EVERY byte string that the model of `Dns::decode` accepts and whose value has an uncompressed wire
size (`Msg.usize` = `EncLim.msgSize`: 12 + every section with all names literal) of at most 65,535 octets,
the model of `Dns::encode` succeeds and decoding its output yields a message equal in every field up to
ASCII case of names and the order of `mandatory` key lists (`Msg.norm`; spelled out by `msg_norm_eq_iff`,
`rr_norm_eq_iff`: id, flags, every section in order, every owner name, TTL, class and RDATA field, every
EDNS option and every SvcParam VALUE — not the library's key-only `==`).
The proof is the composition decoder-soundness (C03) → grammar ⇒ well-formed (`RT.msgAt_wf`) → encoder
totality within the size limit (`RT.encodeDns_total`, from C08's error classification) → encoder ⇒ strict
grammar (C05) → decoder completeness (C04). It needs the repairs F1, F2, F3, F6 (each was a counterexample).
-/

namespace C02

theorem name_roundtrip {S : Nat → Prop} {e e' : Enc} {n : Name} (hr : Reach S e)
    (hwf : wfName n) (hutf : ∀ l ∈ n, validUtf8 l = true) (hsz : Name.sz n < 255) (h : encName e n = .ok e') :
    ∃ n' c', n'.lower = n.lower ∧
      D.name { buf := e'.out, off := e.out.length, lim := e'.out.length, cost := 0 } =
        .ok (n', { buf := e'.out, off := e'.out.length, lim := e'.out.length, cost := c' }) ∨ 2 ^ 63 ≤ e'.out.length := by
  obtain ⟨n', hops, hlow, _, hall⟩ := C06.encName_transparent hr hwf hutf hsz h
  rcases Nat.lt_or_ge e'.out.length (2 ^ 63) with hB | hB
  · have := (hall e'.out e'.out.length 0 (Agree.refl _ _) (Nat.le_refl _) (Nat.le_refl _) hB).2
    exact ⟨n', _, Or.inl ⟨hlow, this⟩⟩
  · exact ⟨n', 0, Or.inr hB⟩

/-! ## Whole messages -/

/-- **the fuzz-target contract, for all inputs** -/
theorem roundtrip {b : Bytes} {m : Msg} {d : D} (h : decodeDns b = .ok (m, d)) (hsz : m.usize ≤ 65535) :
    ∃ b' m' d', encodeDns m = .ok b' ∧ decodeDns b' = .ok (m', d') ∧ m'.norm = m.norm := RT.roundtrip h hsz

/-- without the size premise: the only other outcome is `Length` for a value whose uncompressed size exceeds 65,535 -/
theorem roundtrip_or_too_big {b : Bytes} {m : Msg} {d : D} (h : decodeDns b = .ok (m, d)) :
    (∃ b' m' d', encodeDns m = .ok b' ∧ decodeDns b' = .ok (m', d') ∧ m'.norm = m.norm) ∨
    (encodeDns m = .error .length ∧ 65535 < m.usize) := RT.roundtrip_or_too_big h

/-- what "identical" means -/
theorem identical_means {m' m : Msg} :
    m'.norm = m.norm ↔ m'.id = m.id ∧ m'.flags = m.flags ∧
      m'.qs.map Question.lower = m.qs.map Question.lower ∧ m'.an.map RR.norm = m.an.map RR.norm ∧
      m'.ns.map RR.norm = m.ns.map RR.norm ∧ m'.ar.map RR.norm = m.ar.map RR.norm := RT.msg_norm_eq_iff
theorem identical_record {r' r : RR} :
    r'.norm = r.norm ↔ r'.name.lower = r.name.lower ∧ r'.ty = r.ty ∧ r'.cls = r.cls ∧ r'.ttl = r.ttl ∧ r'.rd.norm = r.rd.norm :=
  RT.rr_norm_eq_iff

/-- decoded values are well-formed (also C12: decoding yields only valid values) -/
theorem decoded_wf {b : Bytes} {m : Msg} {d : D} (h : decodeDns b = .ok (m, d)) : WfMsg m := RT.decodeDns_wf h


/-! ## The exact relation: what `norm` hides, and that it hides nothing from the second pass on

`Msg.norm` = `Msg.lower` (Spec/Wire.lean: names lower-cased, nothing else) + the key list of every
`mandatory` SvcParam sorted. So "identical in every field … every SVCB parameter value" holds of the FIRST
round trip except that an unsorted `mandatory` list comes back sorted (`roundtrip_params_exact`), and of
every further round trip without exception (`roundtrip_second_pass_exact`). -/

/-- `SvcParam.norm` sorts the key list of `mandatory` … -/
theorem norm_param_mandatory (ks : List Nat) : SvcParam.norm (.mandatory ks) = .mandatory (sortNat ks) :=
  ExtraF.svcParam_norm_mandatory ks
/-- … and does nothing to any other parameter -/
theorem norm_param_other {p : SvcParam} (h : ∀ ks, p ≠ .mandatory ks) : p.norm = p := ExtraF.svcParam_norm_other h
/-- the parameters it leaves alone: all but the `mandatory` lists that are not ascending -/
theorem norm_param_fixed_iff {p : SvcParam} : p.norm = p ↔ ∀ ks, p = .mandatory ks → ks.Pairwise (· ≤ ·) :=
  ExtraF.svcParam_norm_eq_self_iff
theorem sortNat_fixed_iff (ks : List Nat) : sortNat ks = ks ↔ ks.Pairwise (· ≤ ·) := ExtraF.sortNat_eq_self_iff ks

/-- what "identical" means for one parameter, one field, one RDATA -/
theorem identical_param {p' p : SvcParam} :
    p'.norm = p.norm ↔ (∃ ks' ks, p' = .mandatory ks' ∧ p = .mandatory ks ∧ sortNat ks' = sortNat ks) ∨
      ((∀ ks, p ≠ .mandatory ks) ∧ p' = p) := RT.svcParam_norm_eq_iff
theorem identical_field {v' v : FVal} :
    v'.lower = v.lower ↔ (∃ n' n, v' = .name n' ∧ v = .name n ∧ n'.lower = n.lower) ∨ ((∀ n, v ≠ .name n) ∧ v' = v) :=
  RT.fval_lower_eq_iff
theorem identical_rdata {r' r : RData} :
    r'.norm = r.norm ↔
      match r with
      | .fields vs => ∃ vs', r' = .fields vs' ∧ vs'.map FVal.lower = vs.map FVal.lower
      | .svcb p t ps => ∃ t' ps', r' = .svcb p t' ps' ∧ t'.lower = t.lower ∧
          ps'.map SvcParam.norm = ps.map SvcParam.norm
      | _ => r' = r := ExtraF.rdata_norm_eq_iff

/-- the abstraction of the specification, `Msg.lower`: identical except for the ASCII case of names -/
theorem lower_means {m' m : Msg} :
    m'.lower = m.lower ↔ m'.id = m.id ∧ m'.flags = m.flags ∧
      m'.qs.map Question.lower = m.qs.map Question.lower ∧ m'.an.map RR.lower = m.an.map RR.lower ∧
      m'.ns.map RR.lower = m.ns.map RR.lower ∧ m'.ar.map RR.lower = m.ar.map RR.lower := ExtraF.msg_lower_eq_iff
theorem lower_record {r' r : RR} :
    r'.lower = r.lower ↔ r'.name.lower = r.name.lower ∧ r'.ty = r.ty ∧ r'.cls = r.cls ∧ r'.ttl = r.ttl ∧
      r'.rd.lower = r.rd.lower := ExtraF.rr_lower_eq_iff
/-- in particular EVERY SvcParam is identical (the list `ps` itself) -/
theorem lower_rdata {r' r : RData} :
    r'.lower = r.lower ↔
      match r with
      | .fields vs => ∃ vs', r' = .fields vs' ∧ vs'.map FVal.lower = vs.map FVal.lower
      | .svcb p t ps => ∃ t', r' = .svcb p t' ps ∧ t'.lower = t.lower
      | _ => r' = r := ExtraF.rdata_lower_eq_iff

/-- `m.norm = m.lower` says exactly: every `mandatory` key list of the message is ascending -/
theorem sorted_means {m : Msg} :
    m.norm = m.lower ↔ ∀ rr ∈ EncLim.msgRRs m, ∀ p t ps, rr.rd = .svcb p t ps →
      ∀ ks, SvcParam.mandatory ks ∈ ps → ks.Pairwise (· ≤ ·) := ExtraF.msg_norm_eq_lower_iff'

/-- the uncompressed size does not depend on name case or the order of `mandatory` keys -/
theorem usize_of_identical {m' m : Msg} (h : m'.norm = m.norm) : m'.usize = m.usize := ExtraF.usize_of_norm h

/-- **first pass, exactly**: the result `m'` is `m` up to `norm`, and ITS `mandatory` lists are sorted
(`m'.norm = m'.lower`): each SvcParam of `m'` is the corresponding one of `m`, except that a `mandatory`
list is the sorted original (`identical_param`, `norm_param_mandatory`, `norm_param_other`) -/
theorem roundtrip_params_exact {b : Bytes} {m : Msg} {d : D} (h : decodeDns b = .ok (m, d)) (hsz : m.usize ≤ 65535) :
    ∃ b' m' d', encodeDns m = .ok b' ∧ decodeDns b' = .ok (m', d') ∧ m'.norm = m.norm ∧ m'.norm = m'.lower := by
  obtain ⟨b', m', d', h1, h2, h3, h4, _⟩ := ExtraF.roundtrip_twice h hsz
  exact ⟨b', m', d', h1, h2, h3, h4⟩

/-- **second pass, exactly**: applying the round trip once more to `m'` succeeds and changes nothing but
(possibly) the ASCII case of names: `m''.lower = m'.lower` — every SvcParam value of `m''` IS the one of `m'` -/
theorem roundtrip_second_pass_exact {b : Bytes} {m : Msg} {d : D} (h : decodeDns b = .ok (m, d)) (hsz : m.usize ≤ 65535) :
    ∃ b' m' d', encodeDns m = .ok b' ∧ decodeDns b' = .ok (m', d') ∧ m'.norm = m.norm ∧ m'.norm = m'.lower ∧
      ∃ b'' m'' d'', encodeDns m' = .ok b'' ∧ decodeDns b'' = .ok (m'', d'') ∧ m''.lower = m'.lower :=
  ExtraF.roundtrip_twice h hsz

/-- the general form: whatever is decoded from the encoder's output for a well-formed value has sorted
`mandatory` lists, and a further round trip reproduces it up to `Msg.lower` -/
theorem decoded_of_encoded_sorted {m m' : Msg} {b : Bytes} {d : D} (hwf : WfMsg m) (h : encodeDns m = .ok b)
    (hd : decodeDns b = .ok (m', d)) : m'.norm = m.norm ∧ m'.norm = m'.lower := ExtraF.decoded_of_encoded_sorted hwf h hd
theorem second_pass_exact {m m' m'' : Msg} {b b' : Bytes} {d d' : D} (hwf : WfMsg m) (h : encodeDns m = .ok b)
    (hd : decodeDns b = .ok (m', d)) (h' : encodeDns m' = .ok b') (hd' : decodeDns b' = .ok (m'', d')) :
    m''.lower = m'.lower := ExtraF.second_pass_exact hwf h hd h' hd'

/-- non-vacuity: an accepted HTTPS answer with `mandatory=port,alpn` in the wire order 3, 1 (so the decoded
value is NOT in normal form) goes through both passes -/
example : ExtraF.exSvcMsg.norm ≠ ExtraF.exSvcMsg.lower ∧
    ∃ b' m' d', encodeDns ExtraF.exSvcMsg = .ok b' ∧ decodeDns b' = .ok (m', d') ∧ m'.norm = ExtraF.exSvcMsg.norm ∧
      m'.norm = m'.lower ∧
      ∃ b'' m'' d'', encodeDns m' = .ok b'' ∧ decodeDns b'' = .ok (m'', d'') ∧ m''.lower = m'.lower :=
  ⟨ExtraF.exSvcMsg_unsorted, roundtrip_second_pass_exact ExtraF.exSvcBuf_decoded (by decide)⟩

end C02
