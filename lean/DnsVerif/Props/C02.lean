import DnsVerif.Props.C06
import DnsVerif.Lemmas.RTMsg

/-! # C02 — decode → encode → decode returns the identical message

For EVERY byte string that the model of `Dns::decode` accepts and whose value has an uncompressed wire
size (`Msg.usize` = `EncLim.msgSize`: 12 + every section with all names literal) of at most 65,535 octets,
the model of `Dns::encode` succeeds and decoding its output yields a message equal in every field up to
ASCII case of names and the order of `mandatory` key lists (`Msg.norm`; spelled out by `msg_norm_eq_iff`,
`rr_norm_eq_iff`: id, flags, every section in order, every owner name, TTL, class and RDATA field, every
EDNS option and every SvcParam VALUE — not the library's key-only `==`).
The proof is the composition decoder-soundness (C03) → grammar ⇒ well-formed (`RT.msgAt_wf`) → encoder
totality within the size limit (`RT.encodeDns_total`, from C08's error classification) → encoder ⇒ strict
grammar (C05) → decoder completeness (C04). It needs the repairs F1, F2, F3, F6 (each was a counterexample).
-/

namespace C02

theorem name_roundtrip {S : Nat → Prop} {e e' : Enc} {n : Name} (hr : Reach S e)
    (hwf : wfName n) (hutf : ∀ l ∈ n, validUtf8 l = true) (hsz : Name.sz n < 255) (h : encName e n = .ok e') :
    ∃ n' c', n'.lower = n.lower ∧
      D.name { buf := e'.out, off := e.out.length, lim := e'.out.length, cost := 0 } =
        .ok (n', { buf := e'.out, off := e'.out.length, lim := e'.out.length, cost := c' }) ∨ 2 ^ 63 ≤ e'.out.length := by
  obtain ⟨n', hops, hlow, _, hall⟩ := C06.encName_transparent hr hwf hutf hsz h
  rcases Nat.lt_or_ge e'.out.length (2 ^ 63) with hB | hB
  · have := (hall e'.out e'.out.length 0 (Agree.refl _ _) (Nat.le_refl _) (Nat.le_refl _) hB).2
    exact ⟨n', _, Or.inl ⟨hlow, this⟩⟩
  · exact ⟨n', 0, Or.inr hB⟩

/-! ## Whole messages -/

/-- **the fuzz-target contract, for all inputs** -/
theorem roundtrip {b : Bytes} {m : Msg} {d : D} (h : decodeDns b = .ok (m, d)) (hsz : m.usize ≤ 65535) :
    ∃ b' m' d', encodeDns m = .ok b' ∧ decodeDns b' = .ok (m', d') ∧ m'.norm = m.norm := RT.roundtrip h hsz

/-- without the size premise: the only other outcome is `Length` for a value whose uncompressed size exceeds 65,535 -/
theorem roundtrip_or_too_big {b : Bytes} {m : Msg} {d : D} (h : decodeDns b = .ok (m, d)) :
    (∃ b' m' d', encodeDns m = .ok b' ∧ decodeDns b' = .ok (m', d') ∧ m'.norm = m.norm) ∨
    (encodeDns m = .error .length ∧ 65535 < m.usize) := RT.roundtrip_or_too_big h

/-- what "identical" means -/
theorem identical_means {m' m : Msg} :
    m'.norm = m.norm ↔ m'.id = m.id ∧ m'.flags = m.flags ∧
      m'.qs.map Question.lower = m.qs.map Question.lower ∧ m'.an.map RR.norm = m.an.map RR.norm ∧
      m'.ns.map RR.norm = m.ns.map RR.norm ∧ m'.ar.map RR.norm = m.ar.map RR.norm := RT.msg_norm_eq_iff
theorem identical_record {r' r : RR} :
    r'.norm = r.norm ↔ r'.name.lower = r.name.lower ∧ r'.ty = r.ty ∧ r'.cls = r.cls ∧ r'.ttl = r.ttl ∧ r'.rd.norm = r.rd.norm :=
  RT.rr_norm_eq_iff

/-- decoded values are well-formed (also C12: decoding yields only valid values) -/
theorem decoded_wf {b : Bytes} {m : Msg} {d : D} (h : decodeDns b = .ok (m, d)) : WfMsg m := RT.decodeDns_wf h

end C02
