import DnsVerif.Lemmas.Text
import DnsVerif.Lemmas.ApiMachines
import DnsVerif.Lemmas.NameSound
import DnsVerif.Props.C06
import DnsVerif.Lemmas.ExtraC

/-! # C13 — domain-name text form, equality, hashing and limits are coherent

Model: `ciEq` (Prim.lean) for `impl PartialEq/Hash for Label` as repaired (ASCII case only), `display`,
`Name.len`, `parseName`, `nameStep` (Model/Api.lean) for `Display`, `len()`, `FromStr`, `append_label`,
`D.name` for the wire decoder, `Enc.lookup` / `encName` (Model/Enc.lean) for the compression table and the name writer
(`lookup_congr`, `encName_congr`: equal names cannot be told apart by the encoder). Strings are their UTF-8 octets. -/

namespace C13

/-- two names are equal exactly when they have the same labels up to ASCII case -/
theorem eq_iff (a b : Name) : ciEq a b = true ↔ a.map Label.lower = b.map Label.lower := Name.eq_iff a b

/-- equality is an equivalence relation; the hash key is the lower-cased label list, so equal names hash
equally by construction (`Hash` feeds `to_ascii_lowercase()` of every label: a function of `n.lower`) -/
theorem eq_equivalence : Equivalence (fun a b : Name => ciEq a b = true) := ciEq_equivalence
theorem eq_hash_key (a b : Name) (h : ciEq a b = true) : a.lower = b.lower := by simpa [ciEq] using h

/-- equal names have identical label lengths: interchanging them changes octets only in ASCII case -/
theorem eq_same_shape {a b : Name} (h : ciEq a b = true) :
    a.length = b.length ∧ ∀ i (ha : i < a.length) (hb : i < b.length), a[i].length = b[i].length := ciEq_same_shape h

/-- the encoder treats equal names as interchangeable compression targets and the decoder reads back a
name equal to the written one (from C06) -/
theorem compression_preserves_name {S : Nat → Prop} {e e' : Enc} {n : Name} (hr : Reach S e)
    (hwf : wfName n) (h : encName e n = .ok e') :
    ∃ n' hops, ciEq n' n = true ∧ hops ≤ 16 ∧
      ∀ buf', Agree (ext S e.out.length e'.out.length) e'.out buf' → NameAt buf' true e.out.length n' hops e'.out.length := by
  obtain ⟨_, _, _, _, n', hops, hlow, hh, hat⟩ := encName_spec n S e e' hwf (_root_.reachable_inv hr) h
  exact ⟨n', hops, C06.lower_eq_ciEq hlow, hh, hat⟩

/-- **equal names are interchangeable compression targets**: the compression-table lookup gives the same answer for
equal keys (and the table compares its stored keys with the same equality) … -/
theorem lookup_congr {a b : Name} (h : ciEq a b = true) (e : Enc) : e.lookup a = e.lookup b := ExtraC.lookup_congr h e

/-- … every suffix of equal names is equal … -/
theorem eq_drop {a b : Name} (h : ciEq a b = true) (k : Nat) : ciEq (a.drop k) (b.drop k) = true := ExtraC.ciEq_drop h k

/-- … so every suffix lookup the encoder performs gives the same answer -/
theorem lookup_suffix_congr {a b : Name} (h : ciEq a b = true) (e : Enc) (k : Nat) :
    e.lookup (a.drop k) = e.lookup (b.drop k) := ExtraC.lookup_drop_congr h e k

/-- … and the whole name writer cannot tell equal names apart: from the same encoder state, writing `a` or an equal
`b` fails with the same error, or succeeds with the same output up to the ASCII case of the label octets (the
length and pointer octets are fixed by `lowerB`, so the same pointer decisions at the same positions) and the same
compression table up to the case of its keys (`ExtraC.encView`) -/
theorem encName_congr {a b : Name} (h : ciEq a b = true) (e : Enc) :
    (encName e a).map ExtraC.encView = (encName e b).map ExtraC.encView := ExtraC.encName_congr h e

/-- in particular the same error or the same number of octets -/
theorem encName_congr_length {a b : Name} (h : ciEq a b = true) (e : Enc) :
    (encName e a).map (fun e' => e'.out.length) = (encName e b).map (fun e' => e'.out.length) :=
  ExtraC.encName_congr_length h e

/-! non-vacuity: `WWW.a` finds the entry stored for `www.a`; a table hit gives a pointer for both spellings -/
example : ciEq [[87, 87, 87], [97]] [[119, 119, 119], [97]] = true := by decide
example : ({ out := List.replicate 20 0, idx := [([[119, 119, 119], [97]], 12, 0)] } : Enc).lookup [[87, 87, 87], [97]] =
    some (12, 0) := by decide
example : (encName { out := List.replicate 20 0, idx := [([[119, 119, 119], [97]], 12, 0)] } [[87, 87, 87], [97]]).map
    (fun e' => e'.out.length) = .ok 22 := rfl

/-- text round trip: parsing what `Display` printed gives back the name, for every name whose labels
contain no dot (the root included) -/
theorem parse_display (n : Name) (h : wfText n) : parseName (display n) = .ok n := _root_.parse_display n h
example : parseName (display []) = .ok [] := rfl

/-- `len()` is the length of the printed form -/
theorem len_display (n : Name) : Name.len n = (display n).length := _root_.len_display n

/-- the three ways to obtain a name enforce the same limits: labels of 1..=63 octets, ≤ 255 wire octets -/
theorem limits_parse {s : Bytes} {n : Name} (h : parseName s = .ok n) :
    (∀ l ∈ n, 1 ≤ l.length ∧ l.length ≤ 63) ∧ Name.sz n < 255 := parseName_limits h
theorem limits_append (ls : List Bytes) : DomainName.Inv (DomainName.run [] ls) := DomainName.reachable_from_root ls
theorem limits_decode {d d' : D} {n : Name} (h : d.name = .ok (n, d')) : wfName n ∧ Name.sz n < 255 := by
  obtain ⟨_, _, _, _, _, _, _, hsz, hwf, _⟩ := name_sound h
  exact ⟨hwf, hsz⟩
theorem limit_is_255_wire_octets (n : Name) : Name.sz n < 255 ↔ (Name.wire n).length ≤ 255 := by
  rw [wire_len]; omega

/-- and each such name IS accepted by text parsing (dot-free labels) -/
theorem limits_parse_complete (s : Bytes) (n : Name) :
    parseName s = .ok n ↔ wfText n ∧ (s = display n ∨ (n ≠ [] ∧ s = joinDot n)) := parseName_ok_iff s n

/-- why the dot-free hypothesis is needed: a label "a.b" (constructible through `Label::try_from`) prints
as `a.b.` and parses back as two labels -/
theorem parse_display_needs_no_dot :
    display [[97, 46, 98]] = [97, 46, 98, 46] ∧ parseName (display [[97, 46, 98]]) = .ok [[97], [98]] ∧
    (nameStep [] [97, 46, 98]).2 = .ok () := parse_display_dot_counterexample

end C13
