import DnsVerif.Lemmas.ApiMachines

/-! # C12 — validated value types can never hold an invalid value

For every finite history of public constructor / setter / append calls (an arbitrary `List` of ops, no
length bound) the value satisfies its documented constraint, stated independently of the checking code
(`ECS.Inv`, `APItem.Inv`, `Cookie.Inv`, `DomainName.Inv` in Lemmas/ApiMachines.lean: bit-level "no address
bit at a position ≥ prefix", server cookie 8..=32 octets, labels 1..=63 octets and ≤ 255 wire octets), and a
call that reports an error leaves the value exactly as it was. Model: Model/Api.lean (tied to
src/rr/edns/rfc_7871.rs, rfc_7873.rs, src/rr/rfc_3123.rs, src/label.rs, src/domain_name.rs by the `api.*`
correspondence stream). -/

namespace C12

/-- ECS: every value reachable from a successful `ECS::new` by any sequence of setter calls is valid -/
theorem ecs_reachable_inv {src scope : Nat} {addr : Bytes} {s : ECS} (h : ECS.new src scope addr = .ok s)
    (ops : List EcsOp) : (s.run ops).Inv := ECS.reachable_from_new h ops

/-- ECS: a failing setter leaves the value unchanged (the set-check-rollback macro) -/
theorem ecs_err_unchanged (s : ECS) (op : EcsOp) (e : DErr) (h : (s.step op).2 = .error e) : (s.step op).1 = s :=
  ECS.step_err_unchanged s op e h

/-- ECS: the setter accepts exactly the values that satisfy the constraint (neither laxer nor stricter) -/
theorem ecs_step_ok_iff (s : ECS) (op : EcsOp) : (s.step op).2 = .ok () ↔ (op.apply s).Inv := ECS.step_ok_iff s op

theorem ecs_no_panic (s : ECS) (op : EcsOp) (x : String) : (s.step op).2 ≠ .error (.panic x) := ECS.step_no_panic s op x

theorem apitem_reachable_inv {pfx : Nat} {neg : Bool} {addr : Bytes} {s : APItem} (h : APItem.new pfx neg addr = .ok s)
    (ops : List ApOp) : (s.run ops).Inv := (APItem.reachable_from_new h ops).1

theorem apitem_err_unchanged (s : APItem) (op : ApOp) (e : DErr) (h : (s.step op).2 = .error e) : (s.step op).1 = s :=
  APItem.step_err_unchanged s op e h

theorem apitem_no_panic (s : APItem) (op : ApOp) (x : String) : (s.step op).2 ≠ .error (.panic x) :=
  APItem.step_no_panic s op x

theorem cookie_reachable_inv {client : Bytes} {server : Option Bytes} {s : Cookie} (h : Cookie.new client server = .ok s)
    (ops : List CookieOp) : (s.run ops).Inv := Cookie.reachable_from_new h ops

theorem cookie_err_unchanged (s : Cookie) (op : CookieOp) (e : DErr) (h : (s.step op).2 = .error e) : (s.step op).1 = s :=
  Cookie.step_err_unchanged s op e h

/-- DomainName: any sequence of `append_label` calls from the root keeps labels 1..=63 and ≤ 255 wire octets -/
theorem name_reachable_inv (ls : List Bytes) : DomainName.Inv (DomainName.run [] ls) := DomainName.reachable_from_root ls

theorem name_inv_is_wire_limit (n : Name) : DomainName.Inv n ↔ wfName n ∧ (Name.wire n).length ≤ 255 :=
  DomainName.inv_iff_wire n

theorem name_err_unchanged (n : Name) (l : Bytes) (e : DErr) (h : (nameStep n l).2 = .error e) : (nameStep n l).1 = n :=
  DomainName.step_err_unchanged n l e h

/-- a decoded ECS / APL item / cookie satisfies the same invariant (the decoder goes through the constructors) -/
theorem decoded_ecs_inv (fam src scope : Nat) (addr : Bytes) (o : EdnsOpt) :
    ecsNew fam src scope addr = .ok o ↔
      o = .ecs fam src scope addr ∧ max src scope ≤ 8 * addr.length ∧ NoBitBeyond addr (max src scope) :=
  ecsNew_ok_iff fam src scope addr o

/-- CAA tag: non-empty, lower-case alphanumeric -/
theorem tag_valid {s t : Bytes} (h : StrCheck.run .tag s = .ok t) :
    t ≠ [] ∧ (∀ b ∈ t, (isDigitB b || isLowerB b) = true) ∧ t = s.map lowerB := tag_inv h

theorem psdn_digits (s t : Bytes) : StrCheck.run .psdn s = .ok t ↔ t = s ∧ ∀ b ∈ s, isDigitB b = true := psdn_ok_iff s t
theorem isdn_digits (s t : Bytes) : StrCheck.run .isdn s = .ok t ↔ t = s ∧ ∀ b ∈ s, isDigitB b = true := isdn_ok_iff s t

/-! non-vacuity: a concrete ECS history (10.0.0.0/8, then scope 24 accepted, then source 33 rejected) -/
example : ECS.new 8 0 [10, 0, 0, 0] = .ok ⟨8, 0, [10, 0, 0, 0]⟩ := rfl
example : ((⟨8, 0, [10, 0, 0, 0]⟩ : ECS).step (.setSrc 33)).2 = .error .addr4Prefix := rfl
example : ((⟨8, 0, [10, 0, 0, 1]⟩ : ECS).step (.setScope 32)).2 = .ok () := rfl

end C12
