import DnsVerif.Lemmas.ApiMachines
import DnsVerif.Lemmas.ApiExtra
import DnsVerif.Lemmas.ExtraC

/-! # C12 — validated value types can never hold an invalid value

For every finite history of public constructor / setter / append calls (an arbitrary `List` of ops, no
length bound) the value satisfies its documented constraint, stated independently of the checking code
(`ECS.Inv`, `APItem.Inv`, `Cookie.Inv`, `DomainName.Inv` in Lemmas/ApiMachines.lean: bit-level "no address
bit at a position ≥ prefix", server cookie 8..=32 octets, labels 1..=63 octets and ≤ 255 wire octets), and a
call that reports an error leaves the value exactly as it was. The histories may start from ANY value satisfying
the constraint (`*_reachable_inv_from`), and every other way to obtain a value (text parsing, the wire decoder)
yields such a value (`parsed_name_inv`, `decoded_*_inv`, `*_then_history_inv`). `NonEmptyVec` is the model type
`NEV` (`nev_*`). Model: Model/Api.lean (tied to
src/rr/edns/rfc_7871.rs, rfc_7873.rs, src/rr/rfc_3123.rs, src/label.rs, src/domain_name.rs by the `api.*`
correspondence stream). -/

namespace C12

/-- ECS: every value reachable from a successful `ECS::new` by any sequence of setter calls is valid -/
theorem ecs_reachable_inv {src scope : Nat} {addr : Bytes} {s : ECS} (h : ECS.new src scope addr = .ok s)
    (ops : List EcsOp) : (s.run ops).Inv := ECS.reachable_from_new h ops

/-- ECS: a failing setter leaves the value unchanged (the set-check-rollback macro) -/
theorem ecs_err_unchanged (s : ECS) (op : EcsOp) (e : DErr) (h : (s.step op).2 = .error e) : (s.step op).1 = s :=
  ECS.step_err_unchanged s op e h

/-- ECS: the setter accepts exactly the values that satisfy the constraint (neither laxer nor stricter) -/
theorem ecs_step_ok_iff (s : ECS) (op : EcsOp) : (s.step op).2 = .ok () ↔ (op.apply s).Inv := ECS.step_ok_iff s op

theorem ecs_no_panic (s : ECS) (op : EcsOp) (x : String) : (s.step op).2 ≠ .error (.panic x) := ECS.step_no_panic s op x

theorem apitem_reachable_inv {pfx : Nat} {neg : Bool} {addr : Bytes} {s : APItem} (h : APItem.new pfx neg addr = .ok s)
    (ops : List ApOp) : (s.run ops).Inv := (APItem.reachable_from_new h ops).1

theorem apitem_err_unchanged (s : APItem) (op : ApOp) (e : DErr) (h : (s.step op).2 = .error e) : (s.step op).1 = s :=
  APItem.step_err_unchanged s op e h

theorem apitem_no_panic (s : APItem) (op : ApOp) (x : String) : (s.step op).2 ≠ .error (.panic x) :=
  APItem.step_no_panic s op x

theorem cookie_reachable_inv {client : Bytes} {server : Option Bytes} {s : Cookie} (h : Cookie.new client server = .ok s)
    (ops : List CookieOp) : (s.run ops).Inv := Cookie.reachable_from_new h ops

theorem cookie_err_unchanged (s : Cookie) (op : CookieOp) (e : DErr) (h : (s.step op).2 = .error e) : (s.step op).1 = s :=
  Cookie.step_err_unchanged s op e h

theorem cookie_no_panic (s : Cookie) (op : CookieOp) (x : String) : (s.step op).2 ≠ .error (.panic x) :=
  Cookie.step_no_panic s op x

/-- what `Cookie.Inv` says, spelled out: a present server cookie has 8..=32 octets -/
theorem cookie_inv_meaning (s : Cookie) : s.Inv ↔ ∀ v, s.server = some v → 8 ≤ v.length ∧ v.length ≤ 32 := Iff.rfl

/-- Cookie: after a successful `Cookie::new` and any sequence of setter calls the server cookie is absent or has
8..=32 octets -/
theorem cookie_server_bound {client : Bytes} {server : Option Bytes} {s : Cookie} (h : Cookie.new client server = .ok s)
    (ops : List CookieOp) (v : Bytes) (hv : (s.run ops).server = some v) : 8 ≤ v.length ∧ v.length ≤ 32 :=
  ApiExtra.cookie_run_server_bound h ops v hv

/-- Cookie: the client cookie is `[u8; 8]` in the crate (enforced by the Rust type, not by a check; the model keeps
an octet list), so it has 8 octets whenever every value assigned to it has -/
theorem cookie_client_len (s : Cookie) (ops : List CookieOp) (h : s.client.length = 8)
    (hops : ∀ c, CookieOp.setClient c ∈ ops → c.length = 8) : (s.run ops).client.length = 8 :=
  ApiExtra.cookie_run_client_len s ops h hops

/-- a decoded cookie option has a client cookie of exactly 8 and a server cookie of 8..=32 octets -/
theorem decoded_cookie_valid {c c' : D} {o : EdnsOpt} (hc : D.Ok c) (h : decCookie c = .ok (o, c')) :
    ∃ client server, o = .cookie client server ∧ client.length = 8 ∧
      ∀ s, server = some s → 8 ≤ s.length ∧ s.length ≤ 32 := ApiExtra.decCookie_valid hc h

/-- Label: `Label::try_from` accepts exactly the strings of 1..=63 octets and stores them unchanged -/
theorem label_valid (s l : Bytes) : parseLabel s = .ok l ↔ l = s ∧ 1 ≤ s.length ∧ s.length ≤ 63 :=
  ApiExtra.label_ok_iff s l

/-- Label: the only errors are "empty" (exactly for the empty string) and "too long" (exactly from 64 octets) -/
theorem label_err_kinds (s : Bytes) (e : DErr) :
    parseLabel s = .error e → (e = .labelEmpty ∧ s.length = 0) ∨ (e = .labelLength ∧ 64 ≤ s.length) :=
  ApiExtra.label_err_kinds s e

/-- DomainName: any sequence of `append_label` calls from the root keeps labels 1..=63 and ≤ 255 wire octets -/
theorem name_reachable_inv (ls : List Bytes) : DomainName.Inv (DomainName.run [] ls) := DomainName.reachable_from_root ls

theorem name_inv_is_wire_limit (n : Name) : DomainName.Inv n ↔ wfName n ∧ (Name.wire n).length ≤ 255 :=
  DomainName.inv_iff_wire n

theorem name_err_unchanged (n : Name) (l : Bytes) (e : DErr) (h : (nameStep n l).2 = .error e) : (nameStep n l).1 = n :=
  DomainName.step_err_unchanged n l e h

/-- DomainName: every label of every name reachable through any `append_label` history has 1..=63 octets -/
theorem name_run_labels (ls : List Bytes) : ∀ l ∈ DomainName.run [] ls, 1 ≤ l.length ∧ l.length ≤ 63 :=
  ApiExtra.name_run_labels ls

/-- DomainName: … and the name has at most 255 wire octets -/
theorem name_run_wire (ls : List Bytes) : (Name.wire (DomainName.run [] ls)).length ≤ 255 := ApiExtra.name_run_wire ls

/-- a decoded name (for every byte string, compression pointers followed): labels of 1..=63 octets, at most 255
wire octets -/
theorem decoded_name_labels_valid {b : Bytes} {n : Name} {d : D} (h : decodeName b = .ok (n, d)) :
    (∀ l ∈ n, 1 ≤ l.length ∧ l.length ≤ 63) ∧ (Name.wire n).length ≤ 255 := ApiExtra.decodeName_labels h

/-- the same from every decoder state (names inside questions, records and RDATA) -/
theorem decoded_name_labels_valid_at {d d' : D} {n : Name} (h : d.name = .ok (n, d')) :
    (∀ l ∈ n, 1 ≤ l.length ∧ l.length ≤ 63) ∧ (Name.wire n).length ≤ 255 := ApiExtra.name_labels_of_dec h

/-- NonEmptyVec: a decoded TXT record holds a non-empty list of strings (for every byte string) -/
theorem decoded_txt_nonempty {b : Bytes} {rr : RR} {d : D} (h : decodeRR b = .ok (rr, d)) (hty : rr.ty = 16) :
    ∃ l, rr.rd = .fields [.strs l] ∧ l ≠ [] := ApiExtra.decodeRR_txt_nonempty h hty

/-- NonEmptyVec: the same for every TXT record of an accepted message -/
theorem decoded_msg_txt_nonempty {b : Bytes} {m : Msg} {d : D} (h : decodeDns b = .ok (m, d)) :
    ∀ rr ∈ Sound.Msg.rrs m, rr.ty = 16 → ∃ l, rr.rd = .fields [.strs l] ∧ l ≠ [] := ApiExtra.msg_txt_nonempty h

/-- NonEmptyVec at the field reader: the string-list reader never returns the empty list -/
theorem txt_field_nonempty {d d' : D} {v : FVal} (h : decField d .strs = .ok (v, d')) : ∃ l, v = .strs l ∧ l ≠ [] :=
  ApiExtra.txt_field_nonempty h

/-- a decoded ECS / APL item / cookie satisfies the same invariant (the decoder goes through the constructors) -/
theorem decoded_ecs_inv (fam src scope : Nat) (addr : Bytes) (o : EdnsOpt) :
    ecsNew fam src scope addr = .ok o ↔
      o = .ecs fam src scope addr ∧ max src scope ≤ 8 * addr.length ∧ NoBitBeyond addr (max src scope) :=
  ecsNew_ok_iff fam src scope addr o

/-- CAA tag: non-empty, lower-case alphanumeric -/
theorem tag_valid {s t : Bytes} (h : StrCheck.run .tag s = .ok t) :
    t ≠ [] ∧ (∀ b ∈ t, (isDigitB b || isLowerB b) = true) ∧ t = s.map lowerB := tag_inv h

theorem psdn_digits (s t : Bytes) : StrCheck.run .psdn s = .ok t ↔ t = s ∧ ∀ b ∈ s, isDigitB b = true := psdn_ok_iff s t
theorem isdn_digits (s t : Bytes) : StrCheck.run .isdn s = .ok t ↔ t = s ∧ ∀ b ∈ s, isDigitB b = true := isdn_ok_iff s t

/-! ## Any start value, any history ("whatever sequence of public constructors, setters, appends or decodes")

The `*_reachable_inv` theorems above start from `new` / the root. The general form: every value that satisfies the
constraint keeps it under every finite history, and every OTHER way to obtain a value (text parsing, the wire
decoder) produces a value that satisfies the constraint. -/

theorem name_reachable_inv_from (n : Name) (ls : List Bytes) (h : DomainName.Inv n) :
    DomainName.Inv (DomainName.run n ls) := DomainName.reachable_inv n ls h

theorem ecs_reachable_inv_from (s : ECS) (ops : List EcsOp) (h : s.Inv) : (s.run ops).Inv := ECS.reachable_inv s ops h

theorem apitem_reachable_inv_from (s : APItem) (ops : List ApOp) (h : s.Inv) : (s.run ops).Inv :=
  APItem.reachable_inv s ops h

theorem cookie_reachable_inv_from (s : Cookie) (ops : List CookieOp) (h : s.Inv) : (s.run ops).Inv :=
  Cookie.reachable_inv s ops h

/-- start state: a name parsed from text (`FromStr`) -/
theorem parsed_name_inv {s : Bytes} {n : Name} (h : parseName s = .ok n) : DomainName.Inv n := ExtraC.parseName_inv h

/-- start state: a name decoded from any byte string -/
theorem decoded_name_inv {b : Bytes} {n : Name} {d : D} (h : decodeName b = .ok (n, d)) : DomainName.Inv n :=
  ApiExtra.decodeName_inv h

/-- start state: a name decoded at any decoder state (inside questions, records, RDATA) -/
theorem decoded_name_inv_at {d d' : D} {n : Name} (h : d.name = .ok (n, d')) : DomainName.Inv n :=
  ExtraC.name_inv_of_dec h

/-- start state: a decoded ECS option (the value `ECS::new` built inside the decoder) -/
theorem decoded_ecs_option_inv {d d' : D} {o : EdnsOpt} (h : decEcs d = .ok (o, d')) :
    ∃ fam src scope addr, o = .ecs fam src scope addr ∧ ECS.Inv ⟨src, scope, addr⟩ := ExtraC.decEcs_inv h

/-- start state: a decoded APL item -/
theorem decoded_apitem_inv {d d' : D} {it : APItem} (h : decApItem d = .ok (it, d')) : it.Inv := ExtraC.decApItem_inv h

/-- … and every item of a decoded APL list -/
theorem decoded_apitems_inv {fuel : Nat} {d d' : D} {l : List APItem} (h : decApItems fuel d = .ok (l, d')) :
    ∀ it ∈ l, it.Inv := ExtraC.decApItems_inv fuel h

/-- start state: a decoded cookie option -/
theorem decoded_cookie_inv {c c' : D} {o : EdnsOpt} (hc : D.Ok c) (h : decCookie c = .ok (o, c')) :
    ∃ client server, o = .cookie client server ∧ client.length = 8 ∧ Cookie.Inv ⟨client, server⟩ :=
  ExtraC.decCookie_inv hc h

/-- DomainName: parse, then any `append_label` history -/
theorem name_parse_then_history_inv {s : Bytes} {n : Name} (h : parseName s = .ok n) (ls : List Bytes) :
    DomainName.Inv (DomainName.run n ls) := name_reachable_inv_from n ls (parsed_name_inv h)

/-- DomainName: decode, then any `append_label` history -/
theorem name_decode_then_history_inv {b : Bytes} {n : Name} {d : D} (h : decodeName b = .ok (n, d)) (ls : List Bytes) :
    DomainName.Inv (DomainName.run n ls) := name_reachable_inv_from n ls (decoded_name_inv h)

/-- ECS: decode, then any setter history -/
theorem ecs_decode_then_history_inv {d d' : D} {o : EdnsOpt} (h : decEcs d = .ok (o, d')) :
    ∃ fam src scope addr, o = .ecs fam src scope addr ∧ ∀ ops : List EcsOp, ((⟨src, scope, addr⟩ : ECS).run ops).Inv := by
  obtain ⟨fam, src, scope, addr, ho, hinv⟩ := decoded_ecs_option_inv h
  exact ⟨fam, src, scope, addr, ho, fun ops => ecs_reachable_inv_from _ ops hinv⟩

/-- APItem: decode, then any setter history -/
theorem apitem_decode_then_history_inv {d d' : D} {it : APItem} (h : decApItem d = .ok (it, d')) (ops : List ApOp) :
    (it.run ops).Inv := apitem_reachable_inv_from it ops (decoded_apitem_inv h)

/-- Cookie: decode, then any setter history -/
theorem cookie_decode_then_history_inv {c c' : D} {o : EdnsOpt} (hc : D.Ok c) (h : decCookie c = .ok (o, c')) :
    ∃ client server, o = .cookie client server ∧ ∀ ops : List CookieOp, ((⟨client, server⟩ : Cookie).run ops).Inv := by
  obtain ⟨client, server, ho, _, hinv⟩ := decoded_cookie_inv hc h
  exact ⟨client, server, ho, fun ops => cookie_reachable_inv_from _ ops hinv⟩

/-! ## NonEmptyVec as a value type (`NEV` in Model/Api.lean: `TryFrom<Vec<T>>`, `Into<Vec<T>>`) -/

/-- `NonEmptyVec::try_from` accepts exactly the non-empty vectors and stores them unchanged -/
theorem nev_new_ok_iff {α : Type} (l : List α) (v : NEV α) : NEV.new l = .ok v ↔ v.items = l ∧ l ≠ [] := by
  cases l with
  | nil => simp [NEV.new]
  | cons a r =>
    cases v with
    | mk items => simp [NEV.new, eq_comm]

/-- the only error is `txtEmpty`, exactly for the empty vector -/
theorem nev_new_err_iff {α : Type} (l : List α) (e : DErr) : NEV.new (α := α) l = .error e ↔ e = .txtEmpty ∧ l = [] := by
  cases l with
  | nil => simp [NEV.new, eq_comm]
  | cons a r => simp [NEV.new]

/-- every constructed value satisfies the documented constraint (there is no setter: the field is private) -/
theorem nev_inv {α : Type} {l : List α} {v : NEV α} (h : NEV.new l = .ok v) : v.Inv := by
  obtain ⟨h1, h2⟩ := (nev_new_ok_iff l v).mp h
  unfold NEV.Inv; rw [h1]; exact h2

/-- `Vec::from(NonEmptyVec::try_from(l)?) = l` -/
theorem nev_roundtrip {α : Type} {l : List α} {v : NEV α} (h : NEV.new l = .ok v) : v.toList = l :=
  ((nev_new_ok_iff l v).mp h).1

/-- the string list of a decoded TXT record is a value of the type (for every byte string) -/
theorem decoded_txt_is_nev {b : Bytes} {rr : RR} {d : D} (h : decodeRR b = .ok (rr, d)) (hty : rr.ty = 16) :
    ∃ l v, rr.rd = .fields [.strs l] ∧ NEV.new l = .ok v := by
  obtain ⟨l, hrd, hne⟩ := decoded_txt_nonempty h hty
  exact ⟨l, ⟨l⟩, hrd, (nev_new_ok_iff l ⟨l⟩).mpr ⟨rfl, hne⟩⟩

/-! non-vacuity: start values that are NOT obtained from `new` / the root -/
example : parseName [119, 119, 119, 46, 97] = .ok [[119, 119, 119], [97]] := rfl
example : DomainName.Inv (DomainName.run [[119, 119, 119], [97]] [[98], []]) :=
  name_parse_then_history_inv (s := [119, 119, 119, 46, 97]) rfl _
example : ECS.Inv ⟨8, 0, [10, 0, 0, 0]⟩ := (ECS.inv_iff _).mpr rfl
/-! a decoded ECS option (family 1, source 8, scope 0, one address octet) and a decoded negated APL item 10/8 -/
set_option maxRecDepth 8192 in
example : decEcs { buf := [0, 1, 8, 0, 10], off := 0, lim := 5, cost := 0 } =
    .ok (.ecs 1 8 0 [10, 0, 0, 0], { buf := [0, 1, 8, 0, 10], off := 5, lim := 5, cost := 5 }) := rfl
set_option maxRecDepth 8192 in
example (ops : List ApOp) : ((⟨1, 8, true, [10, 0, 0, 0]⟩ : APItem).run ops).Inv :=
  apitem_decode_then_history_inv (d := { buf := [0, 1, 8, 129, 10], off := 0, lim := 5, cost := 0 })
    (d' := { buf := [0, 1, 8, 129, 10], off := 5, lim := 5, cost := 6 }) rfl ops
example : NEV.new [1, 2, 3] = .ok (⟨[1, 2, 3]⟩ : NEV Nat) := rfl
example : NEV.new ([] : List Nat) = .error .txtEmpty := rfl
example : (⟨[1, 2, 3]⟩ : NEV Nat).Inv := nev_inv (l := [1, 2, 3]) rfl

/-! non-vacuity: a concrete ECS history (10.0.0.0/8, then scope 24 accepted, then source 33 rejected) -/
example : ECS.new 8 0 [10, 0, 0, 0] = .ok ⟨8, 0, [10, 0, 0, 0]⟩ := rfl
example : ((⟨8, 0, [10, 0, 0, 0]⟩ : ECS).step (.setSrc 33)).2 = .error .addr4Prefix := rfl
example : ((⟨8, 0, [10, 0, 0, 1]⟩ : ECS).step (.setScope 32)).2 = .ok () := rfl


/-! non-vacuity: labels (1 octet and 63 octets accepted; empty and 64 octets rejected), a name history with two
rejected appends, a decoded compressed name, a decoded TXT record -/
example : parseLabel [119, 119, 119] = .ok [119, 119, 119] := (label_valid _ _).mpr ⟨rfl, by decide, by decide⟩
example : parseLabel (List.replicate 63 97) = .ok (List.replicate 63 97) := (label_valid _ _).mpr ⟨rfl, by simp, by simp⟩
example : parseLabel [] = .error .labelEmpty := rfl
example : parseLabel (List.replicate 64 97) = .error .labelLength := rfl
example : DomainName.run [] [[119, 119, 119], [], List.replicate 64 97, [97]] = [[119, 119, 119], [97]] := by
  simp [DomainName.run, nameStep_spec, Name.sz]
example : ∀ l ∈ DomainName.run [] [[119, 119, 119], [], List.replicate 64 97, [97]], 1 ≤ l.length ∧ l.length ≤ 63 :=
  name_run_labels _
example : ∃ d, decodeName [3, 119, 119, 119, 0] = .ok ([[119, 119, 119]], d) := ⟨_, rfl⟩
/-- owner `a.`, TYPE 16, CLASS IN, TTL 0, RDLENGTH 3, one string "hi" -/
example : ∃ d, decodeRR [1, 97, 0, 0, 16, 0, 1, 0, 0, 0, 0, 0, 3, 2, 104, 105] =
    .ok ({ name := [[97]], ty := 16, cls := 1, ttl := 0, rd := .fields [.strs [[104, 105]]] }, d) := ⟨_, rfl⟩
/-- RDLENGTH 0: the empty list is rejected -/
example : decodeRR [1, 97, 0, 0, 16, 0, 1, 0, 0, 0, 0, 0, 0] = .error .txtEmpty := rfl

end C12
