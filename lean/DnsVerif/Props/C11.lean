import DnsVerif.Lemmas.Flags
import DnsVerif.Lemmas.Tables

/-! # C11 — header flag word and enumerated code points

"For every 16-bit header flag word, decode succeeds exactly when the opcode and rcode are supported
and the reserved bit is clear, each of QR, opcode, AA, TC, RD, RA, AD, CD and rcode reflects its
RFC 1035/2535 bit position, and re-encoding reproduces the word. For every code point of every
enumerated field the integer-to-name mapping is the IANA one, is a bijection on the supported set,
and an unsupported code point is rejected with an error carrying that code."

Specification side: `DnsVerif/Spec/Iana.lean` (hand-transcribed registries, `bitOf`, `hdrBit`).
Model side: `decodeFlags`, `encodeFlags`, `decodeType/Class/QType/QClass`, `decField (.enum ..)`,
`D.family`, `decOption`, and the regenerated tables `Gen.enum*`.
This file holds only the property-level theorems and their non-vacuity examples. -/

open Iana C11

namespace C11

/-! ## (a) The flag word: all 65 536 words `[b1, b2]` -/

/-- Decoding succeeds exactly when the opcode bits are one of the six supported opcodes, the
reserved Z bit is clear, and the rcode bits are one of the twelve header rcodes 0..11. -/
theorem flags_decode_iff (b1 b2 : UInt8) :
    (∃ f d, decodeFlags [b1, b2] = .ok (f, d)) ↔
      b1.toNat / 8 % 16 ∈ [0, 1, 2, 4, 5, 6] ∧ bitOf b2 6 = false ∧ b2.toNat % 16 ≤ 11 := by
  have ho := opcodeKnown_iff (opcodeField b1)
  have hr := rcodeKnown_iff (rcodeField b2)
  have hlt : rcodeField b2 < 16 := Nat.mod_lt _ (by omega)
  have hr' : rcodeKnown (rcodeField b2) = true ↔ rcodeField b2 ≤ 11 := by rw [hr]; omega
  show _ ↔ opcodeField b1 ∈ [0, 1, 2, 4, 5, 6] ∧ bitOf b2 6 = false ∧ rcodeField b2 ≤ 11
  rw [← ho, ← hr']
  constructor
  · rintro ⟨f, d, h⟩
    obtain ⟨h1, h2, h3, -, -⟩ := decodeFlags_ok h
    exact ⟨h1, h2, h3⟩
  · rintro ⟨h1, h2, h3⟩
    exact ⟨_, _, decodeFlags_of_ok [] h1 h2 h3⟩

/-- the same, with "supported" read off the regenerated enum tables of the crate -/
theorem flags_decode_iff_known (b1 b2 : UInt8) :
    (∃ f d, decodeFlags [b1, b2] = .ok (f, d)) ↔
      opcodeKnown (b1.toNat / 8 % 16) = true ∧ bitOf b2 6 = false ∧ rcodeKnown (b2.toNat % 16) = true := by
  constructor
  · rintro ⟨f, d, h⟩
    obtain ⟨h1, h2, h3, -, -⟩ := decodeFlags_ok h
    exact ⟨h1, h2, h3⟩
  · rintro ⟨h1, h2, h3⟩
    exact ⟨_, _, decodeFlags_of_ok [] h1 h2 h3⟩

example : ∃ f d, decodeFlags [0x85, 0xB3] = .ok (f, d) := (flags_decode_iff 0x85 0xB3).2 (by decide)
example : ¬ ∃ f d, decodeFlags [0x98, 0x00] = .ok (f, d) :=          -- opcode 3
  fun h => absurd ((flags_decode_iff 0x98 0x00).1 h) (by decide)
example : ¬ ∃ f d, decodeFlags [0x00, 0x40] = .ok (f, d) :=          -- Z set
  fun h => absurd ((flags_decode_iff 0x00 0x40).1 h) (by decide)
example : ¬ ∃ f d, decodeFlags [0x00, 0x0C] = .ok (f, d) :=          -- rcode 12
  fun h => absurd ((flags_decode_iff 0x00 0x0C).1 h) (by decide)

/-- On success every field is the bit (group) at its RFC 1035 §4.1.1 / RFC 2535 §6.1 position,
written arithmetically per octet (`bitOf b i = (b / 2^i % 2 == 1)`, bit 0 least significant). -/
theorem flags_bits (b1 b2 : UInt8) (f : Flags) (d : D) (h : decodeFlags [b1, b2] = .ok (f, d)) :
    f.qr = bitOf b1 7 ∧ f.opcode = b1.toNat / 8 % 16 ∧ f.aa = bitOf b1 2 ∧ f.tc = bitOf b1 1 ∧
    f.rd = bitOf b1 0 ∧
    f.ra = bitOf b2 7 ∧ bitOf b2 6 = false ∧ f.ad = bitOf b2 5 ∧ f.cd = bitOf b2 4 ∧
    f.rcode = b2.toNat % 16 := by
  obtain ⟨-, h2, -, rfl, -⟩ := decodeFlags_ok h
  exact ⟨rfl, rfl, rfl, rfl, rfl, rfl, h2, rfl, rfl, rfl⟩

/-- The same in the numbering of the RFC diagram and of the IANA "DNS Header Flags" registry:
bit 0 is the most significant bit of the 16-bit word; QR 0, OPCODE 1–4, AA 5, TC 6, RD 7, RA 8, Z 9,
AD 10, CD 11, RCODE 12–15. -/
theorem flags_bits_word (b1 b2 : UInt8) (f : Flags) (d : D) (h : decodeFlags [b1, b2] = .ok (f, d)) :
    f.qr = hdrBit b1 b2 0 ∧ f.opcode = (b1.toNat * 256 + b2.toNat) / 2 ^ 11 % 16 ∧
    f.aa = hdrBit b1 b2 5 ∧ f.tc = hdrBit b1 b2 6 ∧ f.rd = hdrBit b1 b2 7 ∧ f.ra = hdrBit b1 b2 8 ∧
    hdrBit b1 b2 9 = false ∧ f.ad = hdrBit b1 b2 10 ∧ f.cd = hdrBit b1 b2 11 ∧
    f.rcode = (b1.toNat * 256 + b2.toNat) % 16 := by
  obtain ⟨q, o, a, t, r, ra, z, ad, cd, rc⟩ := flags_bits b1 b2 f d h
  obtain ⟨ho, hr⟩ := hdr_fields b1 b2
  rw [hdrBit_oct1 b1 b2 0 (by omega), hdrBit_oct1 b1 b2 5 (by omega), hdrBit_oct1 b1 b2 6 (by omega),
    hdrBit_oct1 b1 b2 7 (by omega), hdrBit_oct2 b1 b2 8 (by omega) (by omega),
    hdrBit_oct2 b1 b2 9 (by omega) (by omega), hdrBit_oct2 b1 b2 10 (by omega) (by omega),
    hdrBit_oct2 b1 b2 11 (by omega) (by omega), ← ho, ← hr]
  exact ⟨q, o, a, t, r, ra, z, ad, cd, rc⟩

example : hdrBit 0x85 0xB3 0 = true ∧ hdrBit 0x85 0xB3 5 = true ∧ hdrBit 0x85 0xB3 6 = false ∧
    hdrBit 0x85 0xB3 9 = false ∧ hdrBit 0x85 0xB3 11 = true ∧ (0x85 * 256 + 0xB3) % 16 = 3 := by decide

/-- the hypothesis of `flags_bits` / `flags_bits_word` / `flags_reencode` is satisfiable, with all fields visible:
`0x85 = 1 0000 1 0 1`, `0xB3 = 1 0 1 1 0011` -/
example : decodeFlags [0x85, 0xB3] =
    .ok ({ qr := true, opcode := 0, aa := true, tc := false, rd := true,
           ra := true, ad := true, cd := true, rcode := 3 }, consumed2 [0x85, 0xB3]) := by
  rw [decodeFlags_of_ok [] (by decide) (by decide) (by decide)]; rfl
example : decodeFlags [0x2A, 0x25] =                                  -- opcode 5 (Update), TC, AD, rcode 5
    .ok ({ qr := false, opcode := 5, aa := false, tc := true, rd := false,
           ra := false, ad := true, cd := false, rcode := 5 }, consumed2 [0x2A, 0x25]) := by
  rw [decodeFlags_of_ok [] (by decide) (by decide) (by decide)]; rfl

/-- Re-encoding a decoded flag word reproduces the word. -/
theorem flags_reencode (b1 b2 : UInt8) (f : Flags) (d : D) (h : decodeFlags [b1, b2] = .ok (f, d)) :
    encodeFlags f = [b1, b2] := by
  obtain ⟨-, h2, -, rfl, -⟩ := decodeFlags_ok h
  rw [encodeFlags_eq]
  show [encOct1 (bitOf b1 7) (bitOf b1 2) (bitOf b1 1) (bitOf b1 0) (opcodeField b1),
        encOct2 (bitOf b2 7) (bitOf b2 5) (bitOf b2 4) (rcodeField b2)] = [b1, b2]
  rw [reenc_oct1 b1, reenc_oct2 b2 h2]

/-- Which error: the opcode is checked first (error carries the opcode), then the Z bit, then the
rcode (error carries the rcode). -/
theorem flags_error_kind (b1 b2 : UInt8) :
    (opcodeKnown (b1.toNat / 8 % 16) = false →
      decodeFlags [b1, b2] = .error (.opcode (b1.toNat / 8 % 16))) ∧
    (opcodeKnown (b1.toNat / 8 % 16) = true → bitOf b2 6 = true →
      decodeFlags [b1, b2] = .error .zNotZeroes) ∧
    (opcodeKnown (b1.toNat / 8 % 16) = true → bitOf b2 6 = false → rcodeKnown (b2.toNat % 16) = false →
      decodeFlags [b1, b2] = .error (.rcode (b2.toNat % 16))) := by
  refine ⟨fun h1 => ?_, fun h1 h2 => ?_, fun h1 h2 h3 => ?_⟩ <;> rw [decodeFlags_spec] <;>
    simp only [opcodeField, rcodeField]
  · simp [h1]
  · simp [h1, h2]
  · simp [h1, h2, h3]

example : decodeFlags [0x98, 0x4F] = .error (.opcode 3) :=            -- opcode 3, Z set, rcode 15
  (flags_error_kind 0x98 0x4F).1 (by decide)
example : decodeFlags [0x80, 0x4F] = .error .zNotZeroes :=            -- Z set, rcode 15
  (flags_error_kind 0x80 0x4F).2.1 (by decide) (by decide)
example : decodeFlags [0x80, 0x0F] = .error (.rcode 15) :=
  (flags_error_kind 0x80 0x0F).2.2 (by decide) (by decide) (by decide)

/-- Inputs shorter than two octets are rejected: the empty input and a one-octet input with a
supported opcode with `notEnoughBytes`, a one-octet input with an unsupported opcode with that
opcode (it is checked before the second octet is requested). -/
theorem flags_short (b : Bytes) (h : b.length < 2) :
    ∃ e, decodeFlags b = .error e ∧
      (e = .notEnoughBytes ∨ ∃ b1, b = [b1] ∧ opcodeKnown (b1.toNat / 8 % 16) = false ∧
        e = .opcode (b1.toNat / 8 % 16)) := by
  match b, h with
  | [], _ => exact ⟨_, decodeFlags_nil, .inl rfl⟩
  | [b1], _ =>
    rw [decodeFlags_one]
    cases h1 : opcodeKnown (opcodeField b1)
    · exact ⟨_, by simp [opcodeField], .inr ⟨b1, rfl, h1, rfl⟩⟩
    · exact ⟨_, by simp, .inl rfl⟩
  | _ :: _ :: _, h => simp at h; omega

example : decodeFlags [] = .error .notEnoughBytes := decodeFlags_nil
example : decodeFlags [0x80] = .error .notEnoughBytes := by rw [decodeFlags_one]; exact if_neg (by decide)
example : decodeFlags [0x98] = .error (.opcode 3) := by rw [decodeFlags_one]; exact if_pos (by decide)

/-- Inputs longer than two octets: only the first two octets matter (same error, or the same flags
with exactly two octets consumed and charged). -/
theorem flags_long (b1 b2 : UInt8) (rest : Bytes) :
    (∀ e, decodeFlags (b1 :: b2 :: rest) = .error e ↔ decodeFlags [b1, b2] = .error e) ∧
    (∀ f, (∃ d, decodeFlags (b1 :: b2 :: rest) = .ok (f, d)) ↔ (∃ d, decodeFlags [b1, b2] = .ok (f, d))) ∧
    (∀ f d, decodeFlags (b1 :: b2 :: rest) = .ok (f, d) →
      d.buf = b1 :: b2 :: rest ∧ d.off = 2 ∧ d.cost = 2 ∧ d.lim = rest.length + 2) := by
  refine ⟨fun e => ?_, fun f => ?_, fun f d h => ?_⟩
  · rw [decodeFlags_spec, decodeFlags_spec b1 b2 []]
    cases opcodeKnown (opcodeField b1) <;> cases bitOf b2 6 <;> cases rcodeKnown (rcodeField b2) <;> simp
  · rw [decodeFlags_spec, decodeFlags_spec b1 b2 []]
    cases opcodeKnown (opcodeField b1) <;> cases bitOf b2 6 <;> cases rcodeKnown (rcodeField b2) <;> simp
  · obtain ⟨-, -, -, -, rfl⟩ := decodeFlags_ok h
    simp [consumed2]

example : decodeFlags [0x85, 0xB3, 0xFF, 0x00, 0x12] =
    .ok ({ qr := true, opcode := 0, aa := true, tc := false, rd := true,
           ra := true, ad := true, cd := true, rcode := 3 }, consumed2 [0x85, 0xB3, 0xFF, 0x00, 0x12]) := by
  rw [decodeFlags_of_ok _ (by decide) (by decide) (by decide)]; rfl

/-- Converse direction: every `Flags` value with a supported opcode and a supported rcode that fits
the four header bits decodes from its own encoding. -/
theorem flags_encode_decode (f : Flags) (hop : opcodeKnown f.opcode = true)
    (hrc : rcodeKnown f.rcode = true ∧ f.rcode < 16) :
    decodeFlags (encodeFlags f) = .ok (f, consumed2 (encodeFlags f)) := by
  obtain ⟨o1, o2, o3, o4, o5⟩ := encdec_oct1 f.qr f.aa f.tc f.rd f.opcode (opcodeKnown_lt hop)
  obtain ⟨r1, r2, r3, r4, r5⟩ := encdec_oct2 f.ra f.ad f.cd f.rcode hrc.2
  rw [encodeFlags_eq, decodeFlags_of_ok [] (by rw [o1]; exact hop) r2 (by rw [r5]; exact hrc.1)]
  simp only [specFlags, o1, o2, o3, o4, o5, r1, r3, r4, r5]

example :
    decodeFlags (encodeFlags { qr := true, opcode := 4, aa := false, tc := true, rd := false,
                               ra := true, ad := false, cd := true, rcode := 9 }) =
    .ok ({ qr := true, opcode := 4, aa := false, tc := true, rd := false,
           ra := true, ad := false, cd := true, rcode := 9 }, consumed2 [0xA2, 0x99]) :=
  flags_encode_decode _ (by decide) (by decide)

/-- Known finding K3: `Encoder::flags` ORs the rcode into octet 2 unmasked. The extended rcode 16
(BADVERS) is accepted by `RCode`, so `encodeFlags` sets the CD bit: the word decodes with
`cd = true` and `rcode = 0` whatever `f.cd` was. -/
theorem flags_K3 (f : Flags) (hop : opcodeKnown f.opcode = true) (hrc : f.rcode = 16) :
    decodeFlags (encodeFlags f) = .ok ({ f with cd := true, rcode := 0 }, consumed2 (encodeFlags f)) := by
  obtain ⟨o1, o2, o3, o4, o5⟩ := encdec_oct1 f.qr f.aa f.tc f.rd f.opcode (opcodeKnown_lt hop)
  obtain ⟨r1, r2, r3, r4, r5⟩ := encdec_oct2_ext f.ra f.ad f.cd 0 (by omega)
  rw [encodeFlags_eq, hrc,
    decodeFlags_of_ok [] (by rw [o1]; exact hop) r2 (by rw [r5]; decide)]
  simp only [specFlags, o1, o2, o3, o4, o5, r1, r3, r4, r5]

/-- K3 for all eight extended rcodes of the crate (16..23): CD is forced, rcode loses 16. -/
theorem flags_K3_all (f : Flags) (hop : opcodeKnown f.opcode = true)
    (hrc : rcodeKnown f.rcode = true ∧ 16 ≤ f.rcode) :
    decodeFlags (encodeFlags f) =
      .ok ({ f with cd := true, rcode := f.rcode - 16 }, consumed2 (encodeFlags f)) := by
  have hr := (rcodeKnown_iff f.rcode).1 hrc.1
  have hk : f.rcode = 16 + (f.rcode - 16) := by omega
  obtain ⟨o1, o2, o3, o4, o5⟩ := encdec_oct1 f.qr f.aa f.tc f.rd f.opcode (opcodeKnown_lt hop)
  obtain ⟨r1, r2, r3, r4, r5⟩ := encdec_oct2_ext f.ra f.ad f.cd (f.rcode - 16) (by omega)
  rw [← hk] at r1 r2 r3 r4 r5
  rw [encodeFlags_eq,
    decodeFlags_of_ok [] (by rw [o1]; exact hop) r2 (by rw [r5, rcodeKnown_iff]; omega)]
  simp only [specFlags, o1, o2, o3, o4, o5, r1, r3, r4, r5]

example :
    decodeFlags (encodeFlags { qr := true, opcode := 0, aa := false, tc := false, rd := true,
                               ra := true, ad := false, cd := false, rcode := 16 }) =
    .ok ({ qr := true, opcode := 0, aa := false, tc := false, rd := true,
           ra := true, ad := false, cd := true, rcode := 0 }, consumed2 [0x81, 0x90]) :=
  flags_K3 _ (by decide) rfl
example :                                                             -- BADCOOKIE = 23
    decodeFlags (encodeFlags { qr := true, opcode := 0, aa := false, tc := false, rd := true,
                               ra := true, ad := false, cd := false, rcode := 23 }) =
    .ok ({ qr := true, opcode := 0, aa := false, tc := false, rd := true,
           ra := true, ad := false, cd := true, rcode := 7 }, consumed2 [0x81, 0x97]) :=
  flags_K3_all _ (by decide) (by decide)

/-! ## (b) Code tables

For each of the 13 enums of the crate (`Gen.enumX` is regenerated from the Rust source):
* `X_codes_nodup`, `X_names_nodup`: variant ↔ discriminant is a bijection on the supported set;
* `X_iana`: every `(variant, discriminant)` is, after the alias map of `Spec/Iana.lean`, a row of the
  hand-transcribed registry — the crate's integer-to-name mapping is the IANA one;
* `X_alias_injective`: the alias map does not identify two variants;
* `X_codes_fit`: every discriminant fits the wire field that carries it;
* `X_reject_carries_code` (further down): the decoder rejects an unsupported code point with the
  error that carries exactly that code, and accepts a supported one unchanged. -/

set_option maxRecDepth 100000 in
theorem Type_codes_nodup : (Gen.enumType.map (·.2)).Nodup := by decide +kernel
set_option maxRecDepth 100000 in
theorem Type_names_nodup : (Gen.enumType.map (·.1)).Nodup := by decide +kernel
set_option maxRecDepth 100000 in
theorem Type_iana : ∀ p ∈ Gen.enumType, Assigns rrTypes typeAlias p := by decide +kernel
set_option maxRecDepth 100000 in
theorem Type_alias_injective : ((Gen.enumType.map (·.1)).map (rename typeAlias)).Nodup := by decide +kernel
set_option maxRecDepth 100000 in
theorem Type_codes_fit : ∀ p ∈ Gen.enumType, p.2 < 65536 := by decide +kernel

set_option maxRecDepth 100000 in
theorem QType_codes_nodup : (Gen.enumQType.map (·.2)).Nodup := by decide +kernel
set_option maxRecDepth 100000 in
theorem QType_names_nodup : (Gen.enumQType.map (·.1)).Nodup := by decide +kernel
set_option maxRecDepth 100000 in
theorem QType_iana : ∀ p ∈ Gen.enumQType, Assigns rrTypes typeAlias p := by decide +kernel
set_option maxRecDepth 100000 in
theorem QType_alias_injective : ((Gen.enumQType.map (·.1)).map (rename typeAlias)).Nodup := by decide +kernel
set_option maxRecDepth 100000 in
theorem QType_codes_fit : ∀ p ∈ Gen.enumQType, p.2 < 65536 := by decide +kernel

set_option maxRecDepth 100000 in
theorem Class_codes_nodup : (Gen.enumClass.map (·.2)).Nodup := by decide +kernel
set_option maxRecDepth 100000 in
theorem Class_names_nodup : (Gen.enumClass.map (·.1)).Nodup := by decide +kernel
set_option maxRecDepth 100000 in
theorem Class_iana : ∀ p ∈ Gen.enumClass, Assigns classes classAlias p := by decide +kernel
set_option maxRecDepth 100000 in
theorem Class_alias_injective : ((Gen.enumClass.map (·.1)).map (rename classAlias)).Nodup := by decide +kernel
set_option maxRecDepth 100000 in
theorem Class_codes_fit : ∀ p ∈ Gen.enumClass, p.2 < 65536 := by decide +kernel

set_option maxRecDepth 100000 in
theorem QClass_codes_nodup : (Gen.enumQClass.map (·.2)).Nodup := by decide +kernel
set_option maxRecDepth 100000 in
theorem QClass_names_nodup : (Gen.enumQClass.map (·.1)).Nodup := by decide +kernel
set_option maxRecDepth 100000 in
theorem QClass_iana : ∀ p ∈ Gen.enumQClass, Assigns classes classAlias p := by decide +kernel
set_option maxRecDepth 100000 in
theorem QClass_alias_injective : ((Gen.enumQClass.map (·.1)).map (rename classAlias)).Nodup := by decide +kernel
set_option maxRecDepth 100000 in
theorem QClass_codes_fit : ∀ p ∈ Gen.enumQClass, p.2 < 65536 := by decide +kernel

set_option maxRecDepth 100000 in
theorem Opcode_codes_nodup : (Gen.enumOpcode.map (·.2)).Nodup := by decide +kernel
set_option maxRecDepth 100000 in
theorem Opcode_names_nodup : (Gen.enumOpcode.map (·.1)).Nodup := by decide +kernel
set_option maxRecDepth 100000 in
theorem Opcode_iana : ∀ p ∈ Gen.enumOpcode, Assigns opcodes opcodeAlias p := by decide +kernel
set_option maxRecDepth 100000 in
theorem Opcode_alias_injective : ((Gen.enumOpcode.map (·.1)).map (rename opcodeAlias)).Nodup := by decide +kernel
set_option maxRecDepth 100000 in
theorem Opcode_codes_fit : ∀ p ∈ Gen.enumOpcode, p.2 < 16 := by decide +kernel

set_option maxRecDepth 100000 in
theorem RCode_codes_nodup : (Gen.enumRCode.map (·.2)).Nodup := by decide +kernel
set_option maxRecDepth 100000 in
theorem RCode_names_nodup : (Gen.enumRCode.map (·.1)).Nodup := by decide +kernel
set_option maxRecDepth 100000 in
theorem RCode_iana : ∀ p ∈ Gen.enumRCode, Assigns rcodes rcodeAlias p := by decide +kernel
set_option maxRecDepth 100000 in
theorem RCode_alias_injective : ((Gen.enumRCode.map (·.1)).map (rename rcodeAlias)).Nodup := by decide +kernel
set_option maxRecDepth 100000 in
theorem RCode_codes_fit : ∀ p ∈ Gen.enumRCode, p.2 < 4096 := by decide +kernel

set_option maxRecDepth 100000 in
theorem EDNSOptionCode_codes_nodup : (Gen.enumEDNSOptionCode.map (·.2)).Nodup := by decide +kernel
set_option maxRecDepth 100000 in
theorem EDNSOptionCode_names_nodup : (Gen.enumEDNSOptionCode.map (·.1)).Nodup := by decide +kernel
set_option maxRecDepth 100000 in
theorem EDNSOptionCode_iana : ∀ p ∈ Gen.enumEDNSOptionCode, Assigns ednsOptionCodes ednsOptionAlias p := by decide +kernel
set_option maxRecDepth 100000 in
theorem EDNSOptionCode_alias_injective : ((Gen.enumEDNSOptionCode.map (·.1)).map (rename ednsOptionAlias)).Nodup := by decide +kernel
set_option maxRecDepth 100000 in
theorem EDNSOptionCode_codes_fit : ∀ p ∈ Gen.enumEDNSOptionCode, p.2 < 65536 := by decide +kernel

set_option maxRecDepth 100000 in
theorem AlgorithmType_codes_nodup : (Gen.enumAlgorithmType.map (·.2)).Nodup := by decide +kernel
set_option maxRecDepth 100000 in
theorem AlgorithmType_names_nodup : (Gen.enumAlgorithmType.map (·.1)).Nodup := by decide +kernel
set_option maxRecDepth 100000 in
theorem AlgorithmType_iana : ∀ p ∈ Gen.enumAlgorithmType, Assigns dnssecAlgorithms algorithmAlias p := by decide +kernel
set_option maxRecDepth 100000 in
theorem AlgorithmType_alias_injective : ((Gen.enumAlgorithmType.map (·.1)).map (rename algorithmAlias)).Nodup := by decide +kernel
set_option maxRecDepth 100000 in
theorem AlgorithmType_codes_fit : ∀ p ∈ Gen.enumAlgorithmType, p.2 < 256 := by decide +kernel

set_option maxRecDepth 100000 in
theorem DigestType_codes_nodup : (Gen.enumDigestType.map (·.2)).Nodup := by decide +kernel
set_option maxRecDepth 100000 in
theorem DigestType_names_nodup : (Gen.enumDigestType.map (·.1)).Nodup := by decide +kernel
set_option maxRecDepth 100000 in
theorem DigestType_iana : ∀ p ∈ Gen.enumDigestType, Assigns digestTypes digestAlias p := by decide +kernel
set_option maxRecDepth 100000 in
theorem DigestType_alias_injective : ((Gen.enumDigestType.map (·.1)).map (rename digestAlias)).Nodup := by decide +kernel
set_option maxRecDepth 100000 in
theorem DigestType_codes_fit : ∀ p ∈ Gen.enumDigestType, p.2 < 256 := by decide +kernel

set_option maxRecDepth 100000 in
theorem SSHFPAlgorithm_codes_nodup : (Gen.enumSSHFPAlgorithm.map (·.2)).Nodup := by decide +kernel
set_option maxRecDepth 100000 in
theorem SSHFPAlgorithm_names_nodup : (Gen.enumSSHFPAlgorithm.map (·.1)).Nodup := by decide +kernel
set_option maxRecDepth 100000 in
theorem SSHFPAlgorithm_iana : ∀ p ∈ Gen.enumSSHFPAlgorithm, Assigns sshfpAlgorithms sshfpAlgorithmAlias p := by decide +kernel
set_option maxRecDepth 100000 in
theorem SSHFPAlgorithm_alias_injective : ((Gen.enumSSHFPAlgorithm.map (·.1)).map (rename sshfpAlgorithmAlias)).Nodup := by decide +kernel
set_option maxRecDepth 100000 in
theorem SSHFPAlgorithm_codes_fit : ∀ p ∈ Gen.enumSSHFPAlgorithm, p.2 < 256 := by decide +kernel

set_option maxRecDepth 100000 in
theorem SSHFPType_codes_nodup : (Gen.enumSSHFPType.map (·.2)).Nodup := by decide +kernel
set_option maxRecDepth 100000 in
theorem SSHFPType_names_nodup : (Gen.enumSSHFPType.map (·.1)).Nodup := by decide +kernel
set_option maxRecDepth 100000 in
theorem SSHFPType_iana : ∀ p ∈ Gen.enumSSHFPType, Assigns sshfpTypes sshfpTypeAlias p := by decide +kernel
set_option maxRecDepth 100000 in
theorem SSHFPType_alias_injective : ((Gen.enumSSHFPType.map (·.1)).map (rename sshfpTypeAlias)).Nodup := by decide +kernel
set_option maxRecDepth 100000 in
theorem SSHFPType_codes_fit : ∀ p ∈ Gen.enumSSHFPType, p.2 < 256 := by decide +kernel

set_option maxRecDepth 100000 in
theorem AFSDBSubtype_codes_nodup : (Gen.enumAFSDBSubtype.map (·.2)).Nodup := by decide +kernel
set_option maxRecDepth 100000 in
theorem AFSDBSubtype_names_nodup : (Gen.enumAFSDBSubtype.map (·.1)).Nodup := by decide +kernel
set_option maxRecDepth 100000 in
theorem AFSDBSubtype_iana : ∀ p ∈ Gen.enumAFSDBSubtype, Assigns afsdbSubtypes afsdbAlias p := by decide +kernel
set_option maxRecDepth 100000 in
theorem AFSDBSubtype_alias_injective : ((Gen.enumAFSDBSubtype.map (·.1)).map (rename afsdbAlias)).Nodup := by decide +kernel
set_option maxRecDepth 100000 in
theorem AFSDBSubtype_codes_fit : ∀ p ∈ Gen.enumAFSDBSubtype, p.2 < 65536 := by decide +kernel

set_option maxRecDepth 100000 in
theorem AddressFamilyNumber_codes_nodup : (Gen.enumAddressFamilyNumber.map (·.2)).Nodup := by decide +kernel
set_option maxRecDepth 100000 in
theorem AddressFamilyNumber_names_nodup : (Gen.enumAddressFamilyNumber.map (·.1)).Nodup := by decide +kernel
set_option maxRecDepth 100000 in
theorem AddressFamilyNumber_iana : ∀ p ∈ Gen.enumAddressFamilyNumber, Assigns addressFamilies addressFamilyAlias p := by decide +kernel
set_option maxRecDepth 100000 in
theorem AddressFamilyNumber_alias_injective : ((Gen.enumAddressFamilyNumber.map (·.1)).map (rename addressFamilyAlias)).Nodup := by decide +kernel
set_option maxRecDepth 100000 in
theorem AddressFamilyNumber_codes_fit : ∀ p ∈ Gen.enumAddressFamilyNumber, p.2 < 65536 := by decide +kernel

/-- `Assigns` is not vacuous: a wrong number, a missing alias, or a swapped alias is refused -/
example : ¬ Assigns rrTypes typeAlias ("MX", 16) := by decide +kernel
example : ¬ Assigns rrTypes [] ("NSAP_PTR", 23) := by decide +kernel
example : Assigns rrTypes typeAlias ("NSAP_PTR", 23) := by decide +kernel
example : Assigns dnssecAlgorithms algorithmAlias ("EcDsaP386", 14) := by decide +kernel
example : ¬ Assigns dnssecAlgorithms algorithmAlias ("EcDsaP386", 13) := by decide +kernel
example : ¬ Assigns digestTypes digestAlias ("GostR", 12) := by decide +kernel   -- 12 is the ALGORITHM ECC-GOST

/-! ### Unsupported code points are rejected with the error carrying the code

The four public two-octet decoders. `beBytes 2 n` is `encodeCode n`, the big-endian two-octet form of
`n`; every two-octet input is of this form (`code_decoders_two` below gives the same closed form
for arbitrary octets `a b` followed by any trailing octets). -/

theorem Type_reject_carries_code (n : Nat) (hn : n < 65536) :
    (typeKnown n = false → decodeType (beBytes 2 n) = .error (.type n)) ∧
    (typeKnown n = true → decodeType (beBytes 2 n) = .ok (n, consumed2 (beBytes 2 n))) := by
  unfold decodeType; rw [decCode_beBytes2 _ _ n hn]
  exact ⟨fun h => by simp [h], fun h => by simp [h]⟩

theorem Class_reject_carries_code (n : Nat) (hn : n < 65536) :
    (classKnown n = false → decodeClass (beBytes 2 n) = .error (.class_ n)) ∧
    (classKnown n = true → decodeClass (beBytes 2 n) = .ok (n, consumed2 (beBytes 2 n))) := by
  unfold decodeClass; rw [decCode_beBytes2 _ _ n hn]
  exact ⟨fun h => by simp [h], fun h => by simp [h]⟩

theorem QType_reject_carries_code (n : Nat) (hn : n < 65536) :
    (qtypeKnown n = false → decodeQType (beBytes 2 n) = .error (.qtype n)) ∧
    (qtypeKnown n = true → decodeQType (beBytes 2 n) = .ok (n, consumed2 (beBytes 2 n))) := by
  unfold decodeQType; rw [decCode_beBytes2 _ _ n hn]
  exact ⟨fun h => by simp [h], fun h => by simp [h]⟩

theorem QClass_reject_carries_code (n : Nat) (hn : n < 65536) :
    (qclassKnown n = false → decodeQClass (beBytes 2 n) = .error (.qclass n)) ∧
    (qclassKnown n = true → decodeQClass (beBytes 2 n) = .ok (n, consumed2 (beBytes 2 n))) := by
  unfold decodeQClass; rw [decCode_beBytes2 _ _ n hn]
  exact ⟨fun h => by simp [h], fun h => by simp [h]⟩

example : decodeType (beBytes 2 54) = .error (.type 54) :=               -- 54 is unassigned
  (Type_reject_carries_code 54 (by decide)).1 (by decide)
example : decodeType (beBytes 2 65) = .ok (65, consumed2 [0, 65]) :=     -- HTTPS
  (Type_reject_carries_code 65 (by decide)).2 (by decide)
example : decodeType (beBytes 2 252) = .error (.type 252) :=             -- AXFR is a QTYPE only
  (Type_reject_carries_code 252 (by decide)).1 (by decide)
example : decodeClass (beBytes 2 254) = .error (.class_ 254) :=          -- NONE is a QCLASS only
  (Class_reject_carries_code 254 (by decide)).1 (by decide)
example : decodeQType (beBytes 2 41) = .error (.qtype 41) :=             -- OPT is not a QTYPE
  (QType_reject_carries_code 41 (by decide)).1 (by decide)
example : decodeQType (beBytes 2 255) = .ok (255, consumed2 [0, 255]) :=
  (QType_reject_carries_code 255 (by decide)).2 (by decide)
example : decodeQClass (beBytes 2 5) = .error (.qclass 5) :=
  (QClass_reject_carries_code 5 (by decide)).1 (by decide)

/-- the same four decoders on arbitrary octets: the first two octets decide, big-endian; trailing
octets are ignored and not consumed -/
theorem code_decoders_two (a b : UInt8) (rest : Bytes) :
    decodeType (a :: b :: rest) =
      (if typeKnown (a.toNat * 256 + b.toNat) = true
       then .ok (a.toNat * 256 + b.toNat, consumed2 (a :: b :: rest))
       else .error (.type (a.toNat * 256 + b.toNat))) ∧
    decodeClass (a :: b :: rest) =
      (if classKnown (a.toNat * 256 + b.toNat) = true
       then .ok (a.toNat * 256 + b.toNat, consumed2 (a :: b :: rest))
       else .error (.class_ (a.toNat * 256 + b.toNat))) ∧
    decodeQType (a :: b :: rest) =
      (if qtypeKnown (a.toNat * 256 + b.toNat) = true
       then .ok (a.toNat * 256 + b.toNat, consumed2 (a :: b :: rest))
       else .error (.qtype (a.toNat * 256 + b.toNat))) ∧
    decodeQClass (a :: b :: rest) =
      (if qclassKnown (a.toNat * 256 + b.toNat) = true
       then .ok (a.toNat * 256 + b.toNat, consumed2 (a :: b :: rest))
       else .error (.qclass (a.toNat * 256 + b.toNat))) :=
  ⟨decCode_two _ _ a b rest, decCode_two _ _ a b rest, decCode_two _ _ a b rest, decCode_two _ _ a b rest⟩

/-- the same four decoders on fewer than two octets -/
theorem code_decoders_short (b : Bytes) (h : b.length < 2) :
    decodeType b = .error .notEnoughBytes ∧ decodeClass b = .error .notEnoughBytes ∧
    decodeQType b = .error .notEnoughBytes ∧ decodeQClass b = .error .notEnoughBytes :=
  ⟨decCode_short _ _ b h, decCode_short _ _ b h, decCode_short _ _ b h, decCode_short _ _ b h⟩

/-- The same checks where they sit inside the record and question decoders. -/
theorem Type_reject_in_rr (d d1 d2 : D) (name : Name) (ty : Nat) (h1 : d.name = .ok (name, d1))
    (h2 : d1.num 2 = .ok (ty, d2)) (hk : typeKnown ty = false) : decRR d = .error (.type ty) :=
  decRR_bad_type d d1 d2 name ty h1 h2 hk

theorem Class_reject_in_rr (cls : Nat) (inOnly : Option (Nat → DErr)) (hk : classKnown cls = false) :
    checkClass cls inOnly = .error (.class_ cls) :=
  checkClass_bad cls inOnly hk

theorem QType_reject_in_question (d d1 d2 : D) (name : Name) (qt : Nat) (h1 : d.name = .ok (name, d1))
    (h2 : d1.num 2 = .ok (qt, d2)) (hk : qtypeKnown qt = false) : decQuestion d = .error (.qtype qt) :=
  decQuestion_bad_qtype d d1 d2 name qt h1 h2 hk

theorem QClass_reject_in_question (d d1 d2 d3 : D) (name : Name) (qt qc : Nat)
    (h1 : d.name = .ok (name, d1)) (h2 : d1.num 2 = .ok (qt, d2)) (hk : qtypeKnown qt = true)
    (h3 : d2.num 2 = .ok (qc, d3)) (hc : qclassKnown qc = false) :
    decQuestion d = .error (.qclass qc) :=
  decQuestion_bad_qclass d d1 d2 d3 name qt qc h1 h2 hk h3 hc

/-- the hypotheses are satisfiable: root name, then TYPE 54 / QTYPE 41 (OPT) / QTYPE A, QCLASS 5 -/
example : decRR (D.main [0, 0, 54]) = .error (.type 54) :=
  Type_reject_in_rr (D.main [0, 0, 54]) { buf := [0, 0, 54], off := 1, lim := 3, cost := 1 }
    { buf := [0, 0, 54], off := 3, lim := 3, cost := 3 } [] 54 (by rfl) (by rfl) (by decide)
example : decQuestion (D.main [0, 0, 41]) = .error (.qtype 41) :=
  QType_reject_in_question (D.main [0, 0, 41]) { buf := [0, 0, 41], off := 1, lim := 3, cost := 1 }
    { buf := [0, 0, 41], off := 3, lim := 3, cost := 3 } [] 41 (by rfl) (by rfl) (by decide)
example : decQuestion (D.main [0, 0, 1, 0, 5]) = .error (.qclass 5) :=
  QClass_reject_in_question (D.main [0, 0, 1, 0, 5]) { buf := [0, 0, 1, 0, 5], off := 1, lim := 5, cost := 1 }
    { buf := [0, 0, 1, 0, 5], off := 3, lim := 5, cost := 3 }
    { buf := [0, 0, 1, 0, 5], off := 5, lim := 5, cost := 5 } [] 1 5 (by rfl) (by rfl) (by decide) (by rfl)
    (by decide)
example : checkClass 254 none = .error (.class_ 254) := Class_reject_in_rr 254 none (by decide)

/-- Opcode and RCode are carried by the flag word (`flags_error_kind`): restated per code point.
`op` is any four-bit opcode, placed at its bit position in an otherwise arbitrary octet. -/
theorem Opcode_reject_carries_code (b1 b2 : UInt8) (h : opcodeKnown (b1.toNat / 8 % 16) = false) :
    decodeFlags [b1, b2] = .error (.opcode (b1.toNat / 8 % 16)) :=
  (flags_error_kind b1 b2).1 h

theorem RCode_reject_carries_code (b1 b2 : UInt8) (ho : opcodeKnown (b1.toNat / 8 % 16) = true)
    (hz : bitOf b2 6 = false) (h : rcodeKnown (b2.toNat % 16) = false) :
    decodeFlags [b1, b2] = .error (.rcode (b2.toNat % 16)) :=
  (flags_error_kind b1 b2).2.2 ho hz h

/-- every unsupported four-bit opcode / rcode value does occur in some flag word -/
example : ∀ op, op < 16 → opcodeKnown op = false →
    decodeFlags [UInt8.ofNat (op * 8), 0] = .error (.opcode op) := by
  intro op h hk
  have e : (UInt8.ofNat (op * 8)).toNat / 8 % 16 = op := by
    rw [UInt8.ofNat_toNat_lt (by omega)]; omega
  have := Opcode_reject_carries_code (UInt8.ofNat (op * 8)) 0 (by rw [e]; exact hk)
  rw [e] at this; exact this

/-! The one- and two-octet code points validated inside record data (`Fld.enum w id`), the address
family of APL / ECS, and the EDNS option code. `d.num w = .ok (n, d')` says the field's `w` octets
were available and have the big-endian value `n`. -/

theorem AFSDBSubtype_reject_carries_code (d d' : D) (w n : Nat) (h : d.num w = .ok (n, d')) :
    (inTable Gen.enumAFSDBSubtype n = false →
      decField d (.enum w .afsdbSubtype) = .error (.afsdbSubtype n)) ∧
    (inTable Gen.enumAFSDBSubtype n = true → decField d (.enum w .afsdbSubtype) = .ok (.num n, d')) := by
  rw [decField_enum d d' w n _ h]
  exact ⟨fun hk => by simp [EnumId.valid, EnumId.err, hk], fun hk => by simp [EnumId.valid, hk]⟩

theorem SSHFPAlgorithm_reject_carries_code (d d' : D) (w n : Nat) (h : d.num w = .ok (n, d')) :
    (inTable Gen.enumSSHFPAlgorithm n = false →
      decField d (.enum w .sshfpAlgorithm) = .error (.sshfpAlgorithm n)) ∧
    (inTable Gen.enumSSHFPAlgorithm n = true → decField d (.enum w .sshfpAlgorithm) = .ok (.num n, d')) := by
  rw [decField_enum d d' w n _ h]
  exact ⟨fun hk => by simp [EnumId.valid, EnumId.err, hk], fun hk => by simp [EnumId.valid, hk]⟩

theorem SSHFPType_reject_carries_code (d d' : D) (w n : Nat) (h : d.num w = .ok (n, d')) :
    (inTable Gen.enumSSHFPType n = false → decField d (.enum w .sshfpType) = .error (.sshfpType n)) ∧
    (inTable Gen.enumSSHFPType n = true → decField d (.enum w .sshfpType) = .ok (.num n, d')) := by
  rw [decField_enum d d' w n _ h]
  exact ⟨fun hk => by simp [EnumId.valid, EnumId.err, hk], fun hk => by simp [EnumId.valid, hk]⟩

theorem AlgorithmType_reject_carries_code (d d' : D) (w n : Nat) (h : d.num w = .ok (n, d')) :
    (inTable Gen.enumAlgorithmType n = false →
      decField d (.enum w .algorithmType) = .error (.algorithmType n)) ∧
    (inTable Gen.enumAlgorithmType n = true → decField d (.enum w .algorithmType) = .ok (.num n, d')) := by
  rw [decField_enum d d' w n _ h]
  exact ⟨fun hk => by simp [EnumId.valid, EnumId.err, hk], fun hk => by simp [EnumId.valid, hk]⟩

theorem DigestType_reject_carries_code (d d' : D) (w n : Nat) (h : d.num w = .ok (n, d')) :
    (inTable Gen.enumDigestType n = false → decField d (.enum w .digestType) = .error (.digestType n)) ∧
    (inTable Gen.enumDigestType n = true → decField d (.enum w .digestType) = .ok (.num n, d')) := by
  rw [decField_enum d d' w n _ h]
  exact ⟨fun hk => by simp [EnumId.valid, EnumId.err, hk], fun hk => by simp [EnumId.valid, hk]⟩

theorem AddressFamilyNumber_reject_carries_code (d d' : D) (n : Nat) (h : d.num 2 = .ok (n, d')) :
    (inTable Gen.enumAddressFamilyNumber n = false → d.family = .error (.ecsAddressNumber n)) ∧
    (inTable Gen.enumAddressFamilyNumber n = true → d.family = .ok (n, d')) := by
  rw [family_closed d d' n h]
  exact ⟨fun hk => by simp [hk], fun hk => by simp [hk]⟩

theorem EDNSOptionCode_reject_carries_code (d d' : D) (code : Nat) (h : d.num 2 = .ok (code, d'))
    (hk : inTable Gen.enumEDNSOptionCode code = false) : decOption d = .error (.ednsOptionCode code) :=
  decOption_bad_code d d' code h hk

/-- the hypotheses are satisfiable: digest type 5 in a DS record body, family 3, option code 3 (NSID) -/
example : decField (D.main [5]) (.enum 1 .digestType) = .error (.digestType 5) :=
  (DigestType_reject_carries_code (D.main [5]) { buf := [5], off := 1, lim := 1, cost := 1 } 1 5
    (by rfl)).1 (by decide)
example : (D.main [0, 3]).family = .error (.ecsAddressNumber 3) :=
  (AddressFamilyNumber_reject_carries_code (D.main [0, 3]) (consumed2 [0, 3]) 3 (by rfl)).1
    (by decide)
example : decOption (D.main [0, 3, 0, 0]) = .error (.ednsOptionCode 3) :=
  EDNSOptionCode_reject_carries_code (D.main [0, 3, 0, 0])
    { buf := [0, 3, 0, 0], off := 2, lim := 4, cost := 2 } 3 (by rfl) (by decide)

/-- Where the record table applies the validators: AFSDB subtype (two octets); DS algorithm and
digest type; SSHFP algorithm and fingerprint type; DNSKEY flags (two octets), protocol, algorithm. -/
theorem enum_field_sites :
    enumFieldSites =
      [(18, "subtype", 2, .afsdbSubtype),
       (43, "algorithm_type", 1, .algorithmType), (43, "digest_type", 1, .digestType),
       (44, "algorithm", 1, .sshfpAlgorithm), (44, "type_", 1, .sshfpType),
       (48, "flags", 2, .dnskeyFlags), (48, "protocol", 1, .dnskeyProtocol),
       (48, "algorithm_type", 1, .algorithmType)] := by decide +kernel

/-! ### Relations between the tables -/

/-- QType = Type without OPT, plus the four QTYPE-only code points (the crate already lists IXFR in
`Type`), as sets of `(variant, discriminant)` pairs. -/
theorem QType_eq_Type_minus_OPT_plus (p : String × Nat) :
    p ∈ Gen.enumQType ↔
      (p ∈ Gen.enumType ∧ p ≠ ("OPT", 41)) ∨
      p ∈ [("AXFR", 252), ("MAILB", 253), ("MAILA", 254), ("ALL", 255)] := by
  have h1 : ∀ p ∈ Gen.enumQType, (p ∈ Gen.enumType ∧ p ≠ ("OPT", 41)) ∨
      p ∈ [("AXFR", 252), ("MAILB", 253), ("MAILA", 254), ("ALL", 255)] := by
    set_option maxRecDepth 100000 in decide +kernel
  have h2 : ∀ p ∈ Gen.enumType, p ≠ ("OPT", 41) → p ∈ Gen.enumQType := by
    set_option maxRecDepth 100000 in decide +kernel
  have h3 : ∀ p ∈ [("AXFR", 252), ("MAILB", 253), ("MAILA", 254), ("ALL", 255)], p ∈ Gen.enumQType := by
    set_option maxRecDepth 100000 in decide +kernel
  exact ⟨h1 p, fun h => h.elim (fun h => h2 p h.1 h.2) (h3 p)⟩

/-- the same on code points -/
theorem qtypeKnown_iff (n : Nat) :
    qtypeKnown n = true ↔ (typeKnown n = true ∧ n ≠ 41) ∨ n ∈ [252, 253, 254, 255] := by
  have h1 : ∀ n ∈ Gen.enumQType.map (·.2), (n ∈ Gen.enumType.map (·.2) ∧ n ≠ 41) ∨ n ∈ [252, 253, 254, 255] := by
    set_option maxRecDepth 100000 in decide +kernel
  have h2 : ∀ n ∈ Gen.enumType.map (·.2), n ≠ 41 → n ∈ Gen.enumQType.map (·.2) := by
    set_option maxRecDepth 100000 in decide +kernel
  have h3 : ∀ n ∈ [252, 253, 254, 255], n ∈ Gen.enumQType.map (·.2) := by
    set_option maxRecDepth 100000 in decide +kernel
  unfold qtypeKnown typeKnown
  rw [inTable_iff, inTable_iff]
  exact ⟨h1 n, fun h => h.elim (fun h => h2 n h.1 h.2) (h3 n)⟩

/-- QClass = Class plus NONE and ANY -/
theorem QClass_eq_Class_plus (p : String × Nat) :
    p ∈ Gen.enumQClass ↔ p ∈ Gen.enumClass ∨ p ∈ [("NONE", 254), ("ANY", 255)] := by
  have h1 : ∀ p ∈ Gen.enumQClass, p ∈ Gen.enumClass ∨ p ∈ [("NONE", 254), ("ANY", 255)] := by decide +kernel
  have h2 : ∀ p ∈ Gen.enumClass, p ∈ Gen.enumQClass := by decide +kernel
  have h3 : ∀ p ∈ [("NONE", 254), ("ANY", 255)], p ∈ Gen.enumQClass := by decide +kernel
  exact ⟨h1 p, fun h => h.elim (h2 p) (h3 p)⟩

/-- the type name printed for each implemented record type is the crate's variant name of its code,
and every implemented record type is a supported type -/
theorem rrKind_names_are_table_names : ∀ t ∈ implementedTypes, tnameOk t = true := by
  set_option maxRecDepth 100000 in decide +kernel

/-- Coverage in the other direction, for the registries the crate claims to cover completely:
every OpCode, every RCODE, every CLASS of the registry is supported (as a QCLASS for NONE / ANY). -/
theorem small_registries_covered :
    (∀ p ∈ opcodes, opcodeKnown p.2 = true) ∧ (∀ p ∈ rcodes, rcodeKnown p.2 = true) ∧
    (∀ p ∈ classes, qclassKnown p.2 = true) ∧ (∀ p ∈ headerRcodes, p.2 ≤ 11) ∧
    (∀ p ∈ qtypeOnly, qtypeKnown p.2 = true) := by decide +kernel

/-- Sanity of the hand transcription itself: within each registry table no mnemonic is listed twice
(except the repeated "Reserved" rows of the DNSSEC algorithm registry) and no number is listed twice
(except RCODE 16 = BADVERS = BADSIG). -/
theorem iana_transcription_sane :
    (rrTypes.map (·.1)).Nodup ∧ (rrTypes.map (·.2)).Nodup ∧
    (classes.map (·.1)).Nodup ∧ (classes.map (·.2)).Nodup ∧
    (opcodes.map (·.1)).Nodup ∧ (opcodes.map (·.2)).Nodup ∧
    (rcodes.map (·.1)).Nodup ∧ ((rcodes.filter (·.1 != "BADSIG")).map (·.2)).Nodup ∧
    (ednsOptionCodes.map (·.1)).Nodup ∧ (ednsOptionCodes.map (·.2)).Nodup ∧
    (dnssecAlgorithms.map (·.2)).Nodup ∧
    (digestTypes.map (·.1)).Nodup ∧ (digestTypes.map (·.2)).Nodup ∧
    (sshfpAlgorithms.map (·.1)).Nodup ∧ (sshfpAlgorithms.map (·.2)).Nodup ∧
    (sshfpTypes.map (·.1)).Nodup ∧ (sshfpTypes.map (·.2)).Nodup ∧
    (afsdbSubtypes.map (·.1)).Nodup ∧ (afsdbSubtypes.map (·.2)).Nodup ∧
    (addressFamilies.map (·.1)).Nodup ∧ (addressFamilies.map (·.2)).Nodup := by
  set_option maxRecDepth 100000 in decide +kernel

end C11
