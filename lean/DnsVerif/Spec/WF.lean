import DnsVerif.Spec.Wire

/-! # Well-formed values: what the Rust types and constructors enforce, plus the wire limits

`Wf… x` says that the abstract value `x` respects the per-type constraints of the wire format
(number ranges, supported code points, UTF-8 strings, name limits, address / prefix consistency, …).
These are the hypotheses of the encoder theorems ("a well-formed value that is encoded successfully
is rendered by the wire grammar of `Spec/Wire.lean`"). All predicates are decidable in principle.

NOT part of well-formedness: the size limits of length-prefixed windows (RDATA, EDNS option, SvcParam
value ≤ 65535 octets, APL address part < 128 octets, whole message ≤ 65535). Those are checked by the
encoder when it back-patches a length, i.e. they are conclusions of "encoding succeeded". -/

/-- `DomainName`: labels of 1..=63 octets, at most 255 octets on the wire, UTF-8 labels -/
def WfName (n : Name) : Prop := wfName n ∧ Name.sz n < 255 ∧ ∀ l ∈ n, validUtf8 l = true

/-- a validated `<character-string>`: fits one length octet, UTF-8, and is exactly what its
validator stores (e.g. a CAA tag is already lower-case) -/
def WfStr (c : StrCheck) (s : Bytes) : Prop := s.length ≤ 255 ∧ validUtf8 s = true ∧ c.run s = .ok s

/-- one field value against its field descriptor -/
def WfVal : Fld → FVal → Prop
  | .num w, .num n => n < 256 ^ w
  | .enum w id, .num n => n < 256 ^ w ∧ id.valid n = true
  | .name _, .name n => WfName n
  | .cstr c, .bytes s => WfStr c s
  | .ocstr _, .obytes none => True
  | .ocstr c, .obytes (some s) => WfStr c s
  | .strs, .strs l => l ≠ [] ∧ ∀ s ∈ l, s.length ≤ 255 ∧ validUtf8 s = true
  | .rest u, .bytes b => u = true → validUtf8 b = true
  | .oct k c, .bytes b => b.length = k * c
  | _, _ => False

/-- pointwise along the field list (same length) -/
def WfVals : List Fld → List FVal → Prop
  | [], [] => True
  | f :: fs, v :: vs => WfVal f v ∧ WfVals fs vs
  | _, _ => False

/-- EDNS options: `ECS::new` / setters, `Cookie::new`, `Padding(u16)` -/
def WfOption : EdnsOpt → Prop
  | .ecs fam src scope addr =>
      (fam = 1 ∨ fam = 2) ∧ addr.length = famWidth fam ∧ src < 256 ∧ scope < 256 ∧
      max src scope ≤ 8 * famWidth fam ∧ NoBitBeyond addr (max src scope)
  | .cookie client server => client.length = 8 ∧ ∀ s, server = some s → 8 ≤ s.length ∧ s.length ≤ 32
  | .padding n => n < 65536

/-- `APItem::new` / setters -/
def WfApItem (it : APItem) : Prop :=
  (it.fam = 1 ∨ it.fam = 2) ∧ it.addr.length = famWidth it.fam ∧ it.pfx < 256 ∧
  it.pfx ≤ 8 * famWidth it.fam ∧ NoBitBeyond it.addr it.pfx

/-- `ServiceParameter` -/
def WfParam : SvcParam → Prop
  | .mandatory ks => ∀ k ∈ ks, k < 65536
  | .alpn ids => ∀ s ∈ ids, s.length ≤ 255 ∧ validUtf8 s = true
  | .noDefaultAlpn => True
  | .port p => p < 65536
  | .ipv4hint hs => ∀ h ∈ hs, h.length = 4
  | .ech b => b.length < 65536
  | .ipv6hint hs => ∀ h ∈ hs, h.length = 16
  | .priv k _ => 7 ≤ k ∧ k < 65535
  | .key65535 => True

/-- the body of a record of type `ty` -/
def WfRData (ty : Nat) : RData → Prop
  | .fields vs => ∃ info, rrKind ty = some (.regular info) ∧ WfVals (info.flds.map (·.2)) vs
  | .opt _ _ _ _ opts => rrKind ty = some .opt ∧ ∀ o ∈ opts, WfOption o
  | .apl items => rrKind ty = some .apl ∧ ∀ it ∈ items, WfApItem it
  | .svcb prio target params =>
      (∃ https, rrKind ty = some (.svcb https)) ∧ prio < 65536 ∧ WfName target ∧
      keysSorted params ∧ (∀ p ∈ params, WfParam p) ∧ (prio = 0 → params = [])

/-- a resource record; for OPT the owner is the root and CLASS / TTL live in the body -/
def WfRR (rr : RR) : Prop :=
  WfRData rr.ty rr.rd ∧
  match rr.rd with
  | .opt payload ext ver _ _ =>
      rr.name = [] ∧ rr.cls = 0 ∧ rr.ttl = 0 ∧ payload < 65536 ∧ ext < 256 ∧ ver < 256
  | _ => WfName rr.name ∧ classOk rr.ty rr.cls ∧ rr.ttl < 2 ^ 32

def WfQuestion (q : Question) : Prop :=
  WfName q.name ∧ qtypeKnown q.qtype = true ∧ qclassKnown q.qclass = true

def WfFlags (f : Flags) : Prop := FlagsOk f

def WfMsg (m : Msg) : Prop :=
  m.id < 65536 ∧ WfFlags m.flags ∧
  m.qs.length < 65536 ∧ m.an.length < 65536 ∧ m.ns.length < 65536 ∧ m.ar.length < 65536 ∧
  (∀ q ∈ m.qs, WfQuestion q) ∧ (∀ r ∈ m.an, WfRR r) ∧ (∀ r ∈ m.ns, WfRR r) ∧ (∀ r ∈ m.ar, WfRR r)
