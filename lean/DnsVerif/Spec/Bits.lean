import DnsVerif.Prim

/-! # Bits of an address in network order (used by the prefix rules of RFC 3123 / RFC 7871) -/

/-- bit `j` (0 = most significant) of an octet -/
def obit (o : UInt8) (j : Nat) : Bool := (o.toNat / 2 ^ (7 - j)) % 2 == 1

/-- bit `j` of the address, network order; `false` outside the address -/
def abit (octets : Bytes) (j : Nat) : Bool :=
  match octets[j / 8]? with
  | some o => obit o (j % 8)
  | none => false

/-- no address bit at a position `≥ p` is set (stated without reference to the checking code) -/
def NoBitBeyond (octets : Bytes) (p : Nat) : Prop :=
  ∀ j, p ≤ j → j < 8 * octets.length → abit octets j = false

