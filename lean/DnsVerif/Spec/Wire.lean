import DnsVerif.Spec.NameAt
import DnsVerif.Spec.Bits
import DnsVerif.Model.Table

/-! # The DNS wire grammar as relations on a buffer (RFC 1035 §4.1 and the per-type RDATA layouts)

Written without cursors, compression tables or error handling: `XAt buf … off x e` says that the
octets of `buf` from absolute offset `off` up to `e` ARE a rendering of the abstract value `x`
(in ANY legal layout: the relations do not fix compression choices, label case or address padding).
`lim` is the end of the enclosing length-delimited window (RDLENGTH, option length, …): nothing may
reach beyond it except by following a compression pointer.

The value types (`FVal`, `RR`, …) and the record table (`rrKind`: field order per type, transcribed
from the RFCs' RDATA diagrams) are shared with the model; everything else here is independent of it.
The library's documented rejection rules are explicit side conditions (UTF-8 strings, supported code
points, IN-only classes, …). `bk = true` additionally demands what an ENCODER must guarantee:
pointers strictly backwards and at most 16 hops. -/

/-- hop limit: a decoder follows up to 17 pointers, an encoder emits at most 16 -/
def maxHops (bk : Bool) : Nat := if bk then 16 else 17

/-- a legal name reference at `off` -/
def NameRefAt (buf : Bytes) (bk : Bool) (off : Nat) (n : Name) (e : Nat) : Prop :=
  ∃ h, NameAt buf bk off n h e ∧ h ≤ maxHops bk ∧ (∀ l ∈ n, validUtf8 l = true) ∧ Name.sz n < 255

/-- `<character-string>` (RFC 1035 §3.3): one length octet, then that many octets -/
def CStrAt (buf : Bytes) (off : Nat) (s : Bytes) (e : Nat) : Prop :=
  s.length ≤ 255 ∧ buf[off]? = some (UInt8.ofNat s.length) ∧ BytesAt buf (off + 1) s ∧ e = off + 1 + s.length

/-- zero or more `<character-string>`s filling the window exactly -/
inductive CStrsAt (buf : Bytes) (lim : Nat) : Nat → List Bytes → Prop
  | nil : CStrsAt buf lim lim []
  | cons {off s e r} : off < lim → CStrAt buf off s e → e ≤ lim → validUtf8 s = true →
      CStrsAt buf lim e r → CStrsAt buf lim off (s :: r)

/-- one field of a regular record type inside the window `[.., lim)` -/
inductive FieldAt (buf : Bytes) (bk : Bool) (lim : Nat) : Nat → Fld → FVal → Nat → Prop
  | num {off w n} : n < 256 ^ w → BytesAt buf off (beBytes w n) → off + w ≤ lim →
      FieldAt buf bk lim off (.num w) (.num n) (off + w)
  | enum {off w id n} : n < 256 ^ w → id.valid n = true → BytesAt buf off (beBytes w n) → off + w ≤ lim →
      FieldAt buf bk lim off (.enum w id) (.num n) (off + w)
  | name {off c n e} : NameRefAt buf bk off n e → e ≤ lim →
      FieldAt buf bk lim off (.name c) (.name n) e
  | cstr {off c s v e} : CStrAt buf off s e → e ≤ lim → validUtf8 s = true → c.run s = .ok v →
      FieldAt buf bk lim off (.cstr c) (.bytes v) e
  | ocstrNone {c} : FieldAt buf bk lim lim (.ocstr c) (.obytes none) lim
  | ocstrSome {off c s v e} : off < lim → CStrAt buf off s e → e ≤ lim → validUtf8 s = true → c.run s = .ok v →
      FieldAt buf bk lim off (.ocstr c) (.obytes (some v)) e
  | strs {off l} : l ≠ [] → CStrsAt buf lim off l → FieldAt buf bk lim off .strs (.strs l) lim
  | rest {off u b} : BytesAt buf off b → off + b.length = lim → (u = true → validUtf8 b = true) →
      FieldAt buf bk lim off (.rest u) (.bytes b) lim
  | oct {off k c b} : b.length = k * c → BytesAt buf off b → off + k * c ≤ lim →
      FieldAt buf bk lim off (.oct k c) (.bytes b) (off + k * c)

/-- the fields of a record fill its RDATA window exactly -/
inductive FieldsAt (buf : Bytes) (bk : Bool) (lim : Nat) : Nat → List Fld → List FVal → Prop
  | nil : FieldsAt buf bk lim lim [] []
  | cons {off off' f v fs vs} : FieldAt buf bk lim off f v off' → FieldsAt buf bk lim off' fs vs →
      FieldsAt buf bk lim off (f :: fs) (v :: vs)

/-! ## Address prefixes (RFC 3123 §4, RFC 7871 §6) -/

def famWidth (fam : Nat) : Nat := if fam = 1 then 4 else 16

/-- `k ≤ width` address octets are on the wire; the missing ones are zero -/
def PrefixAddrAt (buf : Bytes) (off k : Nat) (fam pfx : Nat) (addr : Bytes) : Prop :=
  (fam = 1 ∨ fam = 2) ∧ addr.length = famWidth fam ∧ k ≤ famWidth fam ∧
  BytesAt buf off (addr.take k) ∧ (∀ x ∈ addr.drop k, x = 0) ∧
  pfx ≤ 8 * famWidth fam ∧ NoBitBeyond addr pfx

/-! ## EDNS options (RFC 6891 §6.1.2, RFC 7871, RFC 7873, RFC 7830) -/

inductive OptionAt (buf : Bytes) : Nat → EdnsOpt → Nat → Prop
  | ecs {off len fam src scope addr} :
      BytesAt buf off (beBytes 2 8 ++ beBytes 2 len) → 4 ≤ len → len < 65536 →
      BytesAt buf (off + 4) (beBytes 2 fam ++ beBytes 1 src ++ beBytes 1 scope) → src < 256 → scope < 256 →
      PrefixAddrAt buf (off + 8) (len - 4) fam (max src scope) addr →
      OptionAt buf off (.ecs fam src scope addr) (off + 4 + len)
  | cookie {off client server} :
      client.length = 8 → (∀ s, server = some s → 8 ≤ s.length ∧ s.length ≤ 32) →
      BytesAt buf off (beBytes 2 10 ++ beBytes 2 (8 + (server.getD []).length) ++ client ++ server.getD []) →
      OptionAt buf off (.cookie client server) (off + 4 + 8 + (server.getD []).length)
  | padding {off n} : n < 65536 →
      BytesAt buf off (beBytes 2 12 ++ beBytes 2 n ++ List.replicate n 0) →
      OptionAt buf off (.padding n) (off + 4 + n)

inductive OptionsAt (buf : Bytes) (lim : Nat) : Nat → List EdnsOpt → Prop
  | nil : OptionsAt buf lim lim []
  | cons {off o e r} : OptionAt buf off o e → e ≤ lim → OptionsAt buf lim e r → OptionsAt buf lim off (o :: r)

/-! ## APL items (RFC 3123 §4) -/

inductive ApItemAt (buf : Bytes) : Nat → APItem → Nat → Prop
  | mk {off k} {it : APItem} : it.pfx < 256 → k < 128 →
      BytesAt buf off (beBytes 2 it.fam ++ beBytes 1 it.pfx ++ [UInt8.ofNat (k + if it.neg then 128 else 0)]) →
      PrefixAddrAt buf (off + 4) k it.fam it.pfx it.addr →
      ApItemAt buf off it (off + 4 + k)

inductive ApItemsAt (buf : Bytes) (lim : Nat) : Nat → List APItem → Prop
  | nil : ApItemsAt buf lim lim []
  | cons {off o e r} : ApItemAt buf off o e → e ≤ lim → ApItemsAt buf lim e r → ApItemsAt buf lim off (o :: r)

/-! ## SvcParams (RFC 9460 §2.2, §7, §14.3.2) -/

/-- the value part of one SvcParam inside its own window `[off, lim)` -/
inductive SvcValueAt (buf : Bytes) (lim : Nat) : Nat → SvcParam → Prop
  | mandatory {off ks} : (∀ k ∈ ks, k < 65536) → BytesAt buf off (ks.flatMap (beBytes 2)) → off + 2 * ks.length = lim →
      SvcValueAt buf lim off (.mandatory ks)
  | alpn {off ids} : CStrsAt buf lim off ids → SvcValueAt buf lim off (.alpn ids)
  | noDefaultAlpn : SvcValueAt buf lim lim .noDefaultAlpn
  | port {off p} : p < 65536 → BytesAt buf off (beBytes 2 p) → off + 2 = lim → SvcValueAt buf lim off (.port p)
  | ipv4hint {off hs} : (∀ h ∈ hs, h.length = 4) → BytesAt buf off hs.flatten → off + 4 * hs.length = lim →
      SvcValueAt buf lim off (.ipv4hint hs)
  | ech {off b} : BytesAt buf off (beBytes 2 b.length ++ b) → b.length < 65536 → off + 2 + b.length = lim →
      SvcValueAt buf lim off (.ech b)
  | ipv6hint {off hs} : (∀ h ∈ hs, h.length = 16) → BytesAt buf off hs.flatten → off + 16 * hs.length = lim →
      SvcValueAt buf lim off (.ipv6hint hs)
  | priv {off k b} : 7 ≤ k → k < 65535 → BytesAt buf off b → off + b.length = lim → SvcValueAt buf lim off (.priv k b)
  | key65535 : SvcValueAt buf lim lim .key65535

/-- key, two-octet length, value -/
inductive SvcParamAt (buf : Bytes) : Nat → SvcParam → Nat → Prop
  | mk {off len p} : len < 65536 → BytesAt buf off (beBytes 2 p.key ++ beBytes 2 len) →
      SvcValueAt buf (off + 4 + len) (off + 4) p → SvcParamAt buf off p (off + 4 + len)

/-- the parameters as they appear on the wire (any order, the receiver sorts them) -/
inductive SvcParamsAt (buf : Bytes) (lim : Nat) : Nat → List SvcParam → Prop
  | nil : SvcParamsAt buf lim lim []
  | cons {off o e r} : SvcParamAt buf off o e → e ≤ lim → SvcParamsAt buf lim e r → SvcParamsAt buf lim off (o :: r)

/-- strictly increasing keys (the abstract value is a set ordered by key) -/
def keysSorted : List SvcParam → Prop
  | [] => True
  | [_] => True
  | a :: b :: r => a.key < b.key ∧ keysSorted (b :: r)

/-! ## RDATA, records, questions, header, message -/

def optTtlOf (ext ver : Nat) (dnssec : Bool) : Nat := ext * 2 ^ 24 + ver * 2 ^ 16 + (if dnssec then 2 ^ 15 else 0)

/-- the RDATA window `[off, lim)` of a record of type `ty` with wire class `cls` holds `rd` -/
inductive RDataAt (buf : Bytes) (bk : Bool) (lim : Nat) (ty : Nat) : Nat → RData → Prop
  | regular {off info vs} : rrKind ty = some (.regular info) →
      FieldsAt buf bk lim off (info.flds.map (·.2)) vs → RDataAt buf bk lim ty off (.fields vs)
  | opt {off payload ext ver dnssec opts} : rrKind ty = some .opt →
      OptionsAt buf lim off opts → RDataAt buf bk lim ty off (.opt payload ext ver dnssec opts)
  | apl {off items} : rrKind ty = some .apl → ApItemsAt buf lim off items → RDataAt buf bk lim ty off (.apl items)
  | svcbAlias {off https target} : rrKind ty = some (.svcb https) →
      BytesAt buf off (beBytes 2 0) → NameRefAt buf bk (off + 2) target lim →
      RDataAt buf bk lim ty off (.svcb 0 target [])
  | svcbService {off https prio target e wire sorted} : rrKind ty = some (.svcb https) → 0 < prio → prio < 65536 →
      BytesAt buf off (beBytes 2 prio) → NameRefAt buf bk (off + 2) target e → e ≤ lim →
      SvcParamsAt buf lim e wire → sorted.Perm wire → keysSorted sorted →
      RDataAt buf bk lim ty off (.svcb prio target sorted)

/-- the class rule of a record type: a supported class; IN for the types that have no class field -/
def classOk (ty cls : Nat) : Prop :=
  classKnown cls = true ∧
  match rrKind ty with
  | some (.regular info) => info.inOnly.isSome = true → cls = 1
  | some .apl => cls = 1
  | some (.svcb _) => cls = 1
  | _ => True

/-- RFC 1035 §4.1.3: NAME TYPE CLASS TTL RDLENGTH RDATA. For OPT (RFC 6891 §6.1.2) the owner is the root
(in any encoding of the root name: the decoder does not insist on the single octet 0),
CLASS carries the payload size and TTL the extended RCODE / version / DO bit. -/
inductive RRAt (buf : Bytes) (bk : Bool) : Nat → RR → Nat → Prop
  | normal {off e rdlen} {rr : RR} : rr.ty ≠ 41 → NameRefAt buf bk off rr.name e →
      rr.ty < 65536 → rr.cls < 65536 → rr.ttl < 2 ^ 32 → rdlen < 65536 → classOk rr.ty rr.cls →
      BytesAt buf e (beBytes 2 rr.ty ++ beBytes 2 rr.cls ++ beBytes 4 rr.ttl ++ beBytes 2 rdlen) →
      RDataAt buf bk (e + 10 + rdlen) rr.ty (e + 10) rr.rd →
      RRAt buf bk off rr (e + 10 + rdlen)
  | opt {off e rdlen payload ext ver dnssec opts} : NameRefAt buf bk off [] e →
      payload < 65536 → ext < 256 → ver < 256 → rdlen < 65536 →
      BytesAt buf e (beBytes 2 41 ++ beBytes 2 payload ++ beBytes 4 (optTtlOf ext ver dnssec) ++ beBytes 2 rdlen) →
      RDataAt buf bk (e + 10 + rdlen) 41 (e + 10) (.opt payload ext ver dnssec opts) →
      RRAt buf bk off { name := [], ty := 41, cls := 0, ttl := 0, rd := .opt payload ext ver dnssec opts } (e + 10 + rdlen)

inductive RRsAt (buf : Bytes) (bk : Bool) : Nat → List RR → Nat → Prop
  | nil {off} : RRsAt buf bk off [] off
  | cons {off r e rs e'} : RRAt buf bk off r e → RRsAt buf bk e rs e' → RRsAt buf bk off (r :: rs) e'

/-- RFC 1035 §4.1.2 -/
def QuestionAt (buf : Bytes) (bk : Bool) (off : Nat) (q : Question) (e : Nat) : Prop :=
  ∃ e0, NameRefAt buf bk off q.name e0 ∧ qtypeKnown q.qtype = true ∧ qclassKnown q.qclass = true ∧
    BytesAt buf e0 (beBytes 2 q.qtype ++ beBytes 2 q.qclass) ∧ e = e0 + 4 ∧ e ≤ buf.length

inductive QuestionsAt (buf : Bytes) (bk : Bool) : Nat → List Question → Nat → Prop
  | nil {off} : QuestionsAt buf bk off [] off
  | cons {off q e qs e'} : QuestionAt buf bk off q e → QuestionsAt buf bk e qs e' → QuestionsAt buf bk off (q :: qs) e'

def bitOf (b : Bool) (pos : Nat) : Nat := if b then 2 ^ pos else 0

/-- RFC 1035 §4.1.1 / RFC 2535 §6.1: the two flag octets -/
def flagsWord (f : Flags) : Nat :=
  bitOf f.qr 15 + f.opcode * 2 ^ 11 + bitOf f.aa 10 + bitOf f.tc 9 + bitOf f.rd 8 +
  bitOf f.ra 7 + bitOf f.ad 5 + bitOf f.cd 4 + f.rcode

def FlagsOk (f : Flags) : Prop := opcodeKnown f.opcode = true ∧ rcodeKnown f.rcode = true ∧ f.rcode < 16

/-- RFC 1035 §4.1: header, four counted sections, nothing after the last record -/
def MsgAt (buf : Bytes) (bk : Bool) (m : Msg) : Prop :=
  12 ≤ buf.length ∧ buf.length ≤ 65536 ∧ m.id < 65536 ∧ FlagsOk m.flags ∧
  m.qs.length < 65536 ∧ m.an.length < 65536 ∧ m.ns.length < 65536 ∧ m.ar.length < 65536 ∧
  BytesAt buf 0 (beBytes 2 m.id ++ beBytes 2 (flagsWord m.flags) ++ beBytes 2 m.qs.length ++ beBytes 2 m.an.length ++
    beBytes 2 m.ns.length ++ beBytes 2 m.ar.length) ∧
  ∃ e1 e2 e3, QuestionsAt buf bk 12 m.qs e1 ∧ RRsAt buf bk e1 m.an e2 ∧ RRsAt buf bk e2 m.ns e3 ∧
    RRsAt buf bk e3 m.ar buf.length

/-- the abstraction the properties compare: names up to ASCII case -/
def FVal.lower : FVal → FVal
  | .name n => .name n.lower
  | v => v

def RData.lower : RData → RData
  | .fields vs => .fields (vs.map FVal.lower)
  | .svcb p t ps => .svcb p t.lower ps
  | r => r

def RR.lower (r : RR) : RR := { r with name := r.name.lower, rd := r.rd.lower }
def Question.lower (q : Question) : Question := { q with name := q.name.lower }
def Msg.lower (m : Msg) : Msg :=
  { m with qs := m.qs.map Question.lower, an := m.an.map RR.lower, ns := m.ns.map RR.lower, ar := m.ar.map RR.lower }
