import DnsVerif.Prim

/-! # The wire grammar of domain names (RFC 1035 §4.1.4) as a relation on a buffer

`NameAt buf bk off n hops e`: at offset `off` of `buf` starts a (possibly compressed) representation
of the name `n`; following it takes `hops` compression pointers; `e` is the offset just after the
part that is stored in place (after the root octet, or after the first pointer). With `bk = true` all
pointers additionally point strictly backwards (what an encoder produces); the decoder only
guarantees `bk = false`.

Imports only `DnsVerif.Prim`: the relation does not mention the decoder. -/

def BytesAt (buf : Bytes) (off : Nat) (x : Bytes) : Prop :=
  ∀ i, i < x.length → buf[off + i]? = x[i]?

/-- RFC 1035 §4.1.4: a name is a sequence of labels (length octet 1..63, then that many octets)
ended by the root octet `0` or by a two-octet pointer `11xxxxxx xxxxxxxx` to another name. -/
inductive NameAt (buf : Bytes) (bk : Bool) : Nat → Name → Nat → Nat → Prop
  | root {off} : buf[off]? = some 0 → NameAt buf bk off [] 0 (off + 1)
  | label {off} {len : UInt8} {lab : Label} {rest h e} :
      buf[off]? = some len → 1 ≤ len.toNat → len.toNat ≤ 63 → lab.length = len.toNat →
      (∀ i, i < lab.length → buf[off + 1 + i]? = lab[i]?) →
      NameAt buf bk (off + 1 + len.toNat) rest h e → NameAt buf bk off (lab :: rest) h e
  | ptr {off} {a b : UInt8} {n h e} :
      buf[off]? = some a → 192 ≤ a.toNat → buf[off + 1]? = some b →
      (bk = true → ptrOff a b < off) →
      NameAt buf bk (ptrOff a b) n h e → NameAt buf bk off n (h + 1) (off + 2)

namespace NameAt

/-- backward-only names are names -/
theorem weaken {buf off n h e} (hn : NameAt buf true off n h e) : NameAt buf false off n h e := by
  induction hn with
  | root h0 => exact .root h0
  | label a b c d f _ ih => exact .label a b c d f ih
  | ptr a b c _ _ ih => exact .ptr a b c (by simp) ih

/-- `bk = false` is the weakest mode -/
theorem weaken' {buf bk off n h e} (hn : NameAt buf bk off n h e) : NameAt buf false off n h e := by
  induction hn with
  | root h0 => exact .root h0
  | label a b c d f _ ih => exact .label a b c d f ih
  | ptr a b c _ _ ih => exact .ptr a b c (by simp) ih

/-- the first octet exists -/
theorem first {buf bk off n h e} (hn : NameAt buf bk off n h e) : ∃ b, buf[off]? = some b := by
  cases hn with
  | root h => exact ⟨_, h⟩
  | label h => exact ⟨_, h⟩
  | ptr h => exact ⟨_, h⟩

/-- the in-place part is non-empty -/
theorem end_gt {buf bk off n h e} (hn : NameAt buf bk off n h e) : off < e := by
  induction hn with
  | root _ => omega
  | label _ _ _ _ _ _ ih => omega
  | ptr _ _ _ _ _ _ => omega

private theorem getElem?_lt {buf : Bytes} {i : Nat} {b : UInt8} (h : buf[i]? = some b) :
    i < buf.length := by
  rcases Nat.lt_or_ge i buf.length with hc | hc
  · exact hc
  · rw [List.getElem?_eq_none hc] at h; cases h

/-- the in-place part lies inside the buffer -/
theorem end_le {buf bk off n h e} (hn : NameAt buf bk off n h e) : e ≤ buf.length := by
  induction hn with
  | root h0 => have := getElem?_lt h0; omega
  | label _ _ _ _ _ _ ih => exact ih
  | ptr _ _ hb2 _ _ _ => have := getElem?_lt hb2; omega

/-- The grammar is deterministic: an offset denotes at most one name (and hop count, and end). -/
theorem det {buf bk off n h e} (h1 : NameAt buf bk off n h e) :
    ∀ {n' h' e'}, NameAt buf bk off n' h' e' → n = n' ∧ h = h' ∧ e = e' := by
  induction h1 with
  | root h0 =>
    intro n' h' e' h2
    cases h2 with
    | root _ => exact ⟨rfl, rfl, rfl⟩
    | label hb hl => rw [h0] at hb; cases hb; simp at hl
    | ptr hb hl => rw [h0] at hb; cases hb; simp at hl
  | @label off len lab rest h e hb h1 h63 hlen hbytes _ ih =>
    intro n' h' e' h2
    cases h2 with
    | root hb' => rw [hb] at hb'; cases hb'; simp at h1
    | @label _ len' lab' rest' _ _ hb' _ _ hlen' hbytes' hrest' =>
      rw [hb] at hb'; cases hb'
      have hlab : lab = lab' := by
        apply List.ext_getElem?
        intro i
        by_cases hi : i < lab.length
        · rw [← hbytes i hi, ← hbytes' i (by omega)]
        · rw [List.getElem?_eq_none (by omega), List.getElem?_eq_none (by omega)]
      obtain ⟨r1, r2, r3⟩ := ih hrest'
      exact ⟨by rw [hlab, r1], r2, r3⟩
    | ptr hb' hp => rw [hb] at hb'; cases hb'; omega
  | @ptr off a b n h e hb hp hb2 _ _ ih =>
    intro n' h' e' h2
    cases h2 with
    | root hb' => rw [hb] at hb'; cases hb'; simp at hp
    | label hb' _ h63 => rw [hb] at hb'; cases hb'; omega
    | ptr hb' _ hb2' _ hrest' =>
      rw [hb] at hb'; cases hb'
      rw [hb2] at hb2'; cases hb2'
      obtain ⟨r1, r2, _⟩ := ih hrest'
      exact ⟨r1, by omega, rfl⟩

/-- every label of a name of the grammar has 1..63 octets -/
theorem wf {buf bk off n h e} (hn : NameAt buf bk off n h e) : wfName n := by
  induction hn with
  | root _ => intro l hl; simp at hl
  | label _ h1 h63 hl _ _ ih =>
    intro l hl'
    rcases List.mem_cons.mp hl' with rfl | hl'
    · exact ⟨by omega, by omega⟩
    · exact ih l hl'
  | ptr _ _ _ _ _ ih => exact ih

end NameAt

/-- a name with non-empty labels has at most `sz / 2` labels (so at most 127 below the size limit) -/
theorem Name.two_length_le_sz (n : Name) (hwf : ∀ l ∈ n, 1 ≤ l.length) : 2 * n.length ≤ Name.sz n := by
  induction n with
  | nil => simp
  | cons l r ih =>
    rw [Name.sz_cons]
    have := ih (fun x hx => hwf x (by simp [hx]))
    have := hwf l (by simp)
    simp; omega

theorem wfName.two_length_le_sz {n : Name} (h : wfName n) : 2 * n.length ≤ Name.sz n :=
  Name.two_length_le_sz n (fun l hl => (h l hl).1)

/-! ## Non-vacuity: `3www0` at 0, and at 5 the compressed name `1a` + pointer to 0 -/

private def exBuf : Bytes := [3, 119, 119, 119, 0, 1, 97, 192, 0]

example : NameAt exBuf true 0 [[119, 119, 119]] 0 5 :=
  .label (len := 3) (by decide) (by decide) (by decide) (by decide) (by decide) (.root (by decide))

example : NameAt exBuf true 5 [[97], [119, 119, 119]] 1 9 :=
  .label (len := 1) (by decide) (by decide) (by decide) (by decide) (by decide)
    (.ptr (a := 192) (b := 0) (by decide) (by decide) (by decide) (by decide)
      (.label (len := 3) (by decide) (by decide) (by decide) (by decide) (by decide) (.root (by decide))))
