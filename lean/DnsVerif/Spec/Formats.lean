import DnsVerif.Model.Table

/-! # RDATA layouts transcribed from the RFCs (independently of `rrKind`)

`rrKind` (Model/Table.lean) is transcribed from the CODE (reader/writer macros, struct field order) and
validated against the crate by the correspondence check, which prints the crate's field NAMES. This
table is transcribed from the RFCs' RDATA diagrams, with the RFC's own field names, and `tables_agree`
(Props/C03.lean) proves that the two say the same thing for every regular record type: so a field
order or width that the code and the model share but the RFC does not (two SOA timers swapped in both
codec halves AND in the struct) breaks a theorem, while a code change that no longer matches the model
breaks the correspondence.

Compression flags follow RFC 3597 §4 (names inside RDATA may be compressed only for the types
defined in RFC 1035) and the defining RFCs (2782, 2230, 6672, 6742: "MUST NOT be compressed"). -/

namespace Spec

/-- (RFC field name, wire format); `none` = not a regular fixed-field type (OPT, APL, SVCB, HTTPS: own grammar) or unsupported -/
def rdataFormat : Nat → Option (List (String × Fld))
  -- RFC 1035 §3.4.1 A: ADDRESS, a 32 bit Internet address
  | 1 => some [("ADDRESS", .oct 1 4)]
  -- RFC 1035 §3.3.11 NS, §3.3.4 MD, §3.3.5 MF, §3.3.1 CNAME
  | 2 => some [("NSDNAME", .name true)]
  | 3 => some [("MADNAME", .name true)]
  | 4 => some [("MADNAME", .name true)]
  | 5 => some [("CNAME", .name true)]
  -- RFC 1035 §3.3.13 SOA: MNAME RNAME SERIAL REFRESH RETRY EXPIRE MINIMUM
  | 6 => some [("MNAME", .name true), ("RNAME", .name true), ("SERIAL", .num 4), ("REFRESH", .num 4),
               ("RETRY", .num 4), ("EXPIRE", .num 4), ("MINIMUM", .num 4)]
  -- RFC 1035 §3.3.3 MB, §3.3.6 MG, §3.3.8 MR, §3.3.10 NULL
  | 7 => some [("MADNAME", .name true)]
  | 8 => some [("MGMNAME", .name true)]
  | 9 => some [("NEWNAME", .name true)]
  | 10 => some [("anything", .rest false)]
  -- RFC 1035 §3.4.2 WKS: ADDRESS PROTOCOL <BIT MAP>
  | 11 => some [("ADDRESS", .oct 1 4), ("PROTOCOL", .num 1), ("BIT MAP", .rest false)]
  -- RFC 1035 §3.3.12 PTR, §3.3.2 HINFO, §3.3.7 MINFO, §3.3.9 MX, §3.3.14 TXT
  | 12 => some [("PTRDNAME", .name true)]
  | 13 => some [("CPU", .cstr .any), ("OS", .cstr .any)]
  | 14 => some [("RMAILBX", .name true), ("EMAILBX", .name true)]
  | 15 => some [("PREFERENCE", .num 2), ("EXCHANGE", .name true)]
  | 16 => some [("TXT-DATA", .strs)]
  -- RFC 1183 §2.2 RP, §1 AFSDB, §3.1 X25, §3.2 ISDN, §3.3 RT
  | 17 => some [("mbox-dname", .name false), ("txt-dname", .name false)]
  | 18 => some [("subtype", .enum 2 .afsdbSubtype), ("hostname", .name false)]
  | 19 => some [("PSDN-address", .cstr .psdn)]
  | 20 => some [("ISDN-address", .cstr .isdn), ("sa", .ocstr .sa)]
  | 21 => some [("preference", .num 2), ("intermediate-host", .name false)]
  -- RFC 1706 §5 NSAP
  | 22 => some [("NSAP", .rest false)]
  -- RFC 2163 §4 PX: PREFERENCE MAP822 MAPX400
  | 26 => some [("PREFERENCE", .num 2), ("MAP822", .name false), ("MAPX400", .name false)]
  -- RFC 1712 §3 GPOS: LONGITUDE LATITUDE ALTITUDE
  | 27 => some [("LONGITUDE", .cstr .gpos), ("LATITUDE", .cstr .gpos), ("ALTITUDE", .cstr .gpos)]
  -- RFC 3596 §2.2 AAAA: a 128 bit IPv6 address (the library reads it as eight 16-bit groups)
  | 28 => some [("ADDRESS", .oct 8 2)]
  -- RFC 1876 §2 LOC: VERSION SIZE HORIZ PRE VERT PRE LATITUDE LONGITUDE ALTITUDE
  | 29 => some [("VERSION", .num 1), ("SIZE", .num 1), ("HORIZ PRE", .num 1), ("VERT PRE", .num 1),
                ("LATITUDE", .num 4), ("LONGITUDE", .num 4), ("ALTITUDE", .num 4)]
  -- Nimrod EID / NIMLOC (opaque)
  | 31 => some [("EID", .rest false)]
  | 32 => some [("NIMLOC", .rest false)]
  -- RFC 2782 SRV: Priority Weight Port Target
  | 33 => some [("Priority", .num 2), ("Weight", .num 2), ("Port", .num 2), ("Target", .name false)]
  -- RFC 2230 §3.1 KX: PREFERENCE EXCHANGER
  | 36 => some [("PREFERENCE", .num 2), ("EXCHANGER", .name false)]
  -- RFC 6672 §2.1 DNAME: <target>
  | 39 => some [("target", .name false)]
  -- RFC 4034 §5.1 DS: Key Tag, Algorithm, Digest Type, Digest
  | 43 => some [("Key Tag", .num 2), ("Algorithm", .enum 1 .algorithmType), ("Digest Type", .enum 1 .digestType),
                ("Digest", .rest false)]
  -- RFC 4255 §3.1 SSHFP: algorithm, fp type, fingerprint
  | 44 => some [("algorithm", .enum 1 .sshfpAlgorithm), ("fp type", .enum 1 .sshfpType), ("fingerprint", .rest false)]
  -- RFC 4034 §2.1 DNSKEY: Flags, Protocol (must be 3), Algorithm, Public Key
  | 48 => some [("Flags", .enum 2 .dnskeyFlags), ("Protocol", .enum 1 .dnskeyProtocol),
                ("Algorithm", .enum 1 .algorithmType), ("Public Key", .rest false)]
  -- RFC 6742 §2.1 NID, §2.2 L32, §2.3 L64, §2.4 LP
  | 104 => some [("Preference", .num 2), ("NodeID", .num 8)]
  | 105 => some [("Preference", .num 2), ("Locator32", .num 4)]
  | 106 => some [("Preference", .num 2), ("Locator64", .num 8)]
  | 107 => some [("Preference", .num 2), ("FQDN", .name false)]
  -- RFC 7043 §3.1 EUI48, §4.1 EUI64
  | 108 => some [("EUI-48 Address", .oct 6 1)]
  | 109 => some [("EUI-64 Address", .oct 8 1)]
  -- RFC 7553 §4.5 URI: Priority Weight Target (not length-prefixed, fills the RDATA)
  | 256 => some [("Priority", .num 2), ("Weight", .num 2), ("Target", .rest true)]
  -- RFC 8659 §4.1 CAA: Flags, Tag Length + Tag, Value
  | 257 => some [("Flags", .num 1), ("Tag", .cstr .tag), ("Value", .rest false)]
  | _ => none

/-- the record types without a class field in the library: their wire CLASS must be IN
(A, WKS, AAAA are Internet-specific by definition: RFC 1035 §3.4, RFC 3596 §2.1) -/
def inOnly : List Nat := [1, 11, 28]

end Spec
