/-! # IANA registries and RFC 1035 header layout, transcribed by hand

This file is the SPECIFICATION side of property C11. It imports nothing from the model and nothing
from `Generated/`; the tables below were typed in from the registries ("Domain Name System (DNS)
Parameters", "DNS Security Algorithm Numbers", "DS RR Type Digest Algorithms", "DNS SSHFP Resource
Record Parameters", "Address Family Numbers") and the RFCs that created them, NOT copied from the
crate. Each table is a list of `(IANA mnemonic, number)` rows.

Where the Rust crate spells a variant differently from the IANA mnemonic (Rust identifiers cannot
contain `-` or `*`, CamelCase variants, historical names) a per-registry alias table maps
`crate variant ↦ IANA mnemonic`. The alias tables are part of the specification and are meant to be
read: every row is a claim "this Rust variant denotes that registry entry". -/

namespace Iana

/-! ## Header flag word: RFC 1035 §4.1.1, AD/CD from RFC 2535 §6.1 (IANA "DNS Header Flags")

```
  octet 1                          octet 2
  7    6 5 4 3    2    1    0      7    6   5    4    3 2 1 0        (bit of the octet, 0 = LSB)
  0    1 2 3 4    5    6    7      8    9   10   11   12 .. 15       (bit of the 16-bit word, 0 = MSB)
+----+---------+----+----+----+  +----+---+----+----+-----------+
| QR | OPCODE  | AA | TC | RD |  | RA | Z | AD | CD |   RCODE   |
+----+---------+----+----+----+  +----+---+----+----+-----------+
``` -/

/-- bit `i` of an octet (`i = 0` is the least significant bit); arithmetic only -/
def bitOf (b : UInt8) (i : Nat) : Bool := b.toNat / 2 ^ i % 2 == 1

/-- bit `k` of the 16-bit flag word in the RFC / IANA numbering (`k = 0` is the MOST significant bit) -/
def hdrBit (b1 b2 : UInt8) (k : Nat) : Bool := (b1.toNat * 256 + b2.toNat) / 2 ^ (15 - k) % 2 == 1

/-- IANA "DNS Header Flags" registry plus the QR and Z bits of RFC 1035: word bit numbers -/
def headerFlagBits : List (String × Nat) :=
  [("QR", 0), ("AA", 5), ("TC", 6), ("RD", 7), ("RA", 8), ("Z", 9), ("AD", 10), ("CD", 11)]

/-- OPCODE = word bits 1–4 -/
def opcodeField (b1 : UInt8) : Nat := b1.toNat / 8 % 16
/-- RCODE = word bits 12–15 -/
def rcodeField (b2 : UInt8) : Nat := b2.toNat % 16

/-! ## Resource Record (RR) TYPEs

RFC 1035 §3.2.2/§3.2.3 and the registry. Unassigned / reserved / private-use ranges are omitted.
251–255 are QTYPEs; 41 (OPT), 249, 250 are meta-types. The last rows before TA are assignments made
after the crate was written (the crate does not list them). -/
def rrTypes : List (String × Nat) := [
  ("A", 1), ("NS", 2), ("MD", 3), ("MF", 4), ("CNAME", 5), ("SOA", 6), ("MB", 7), ("MG", 8),
  ("MR", 9), ("NULL", 10), ("WKS", 11), ("PTR", 12), ("HINFO", 13), ("MINFO", 14), ("MX", 15),
  ("TXT", 16), ("RP", 17), ("AFSDB", 18), ("X25", 19), ("ISDN", 20), ("RT", 21), ("NSAP", 22),
  ("NSAP-PTR", 23), ("SIG", 24), ("KEY", 25), ("PX", 26), ("GPOS", 27), ("AAAA", 28), ("LOC", 29),
  ("NXT", 30), ("EID", 31), ("NIMLOC", 32), ("SRV", 33), ("ATMA", 34), ("NAPTR", 35), ("KX", 36),
  ("CERT", 37), ("A6", 38), ("DNAME", 39), ("SINK", 40), ("OPT", 41), ("APL", 42), ("DS", 43),
  ("SSHFP", 44), ("IPSECKEY", 45), ("RRSIG", 46), ("NSEC", 47), ("DNSKEY", 48), ("DHCID", 49),
  ("NSEC3", 50), ("NSEC3PARAM", 51), ("TLSA", 52), ("SMIMEA", 53),
  -- 54 unassigned
  ("HIP", 55), ("NINFO", 56), ("RKEY", 57), ("TALINK", 58), ("CDS", 59), ("CDNSKEY", 60),
  ("OPENPGPKEY", 61), ("CSYNC", 62), ("ZONEMD", 63), ("SVCB", 64), ("HTTPS", 65),
  ("DSYNC", 66), ("HHIT", 67), ("BRID", 68),
  -- 69–98 unassigned
  ("SPF", 99), ("UINFO", 100), ("UID", 101), ("GID", 102), ("UNSPEC", 103), ("NID", 104),
  ("L32", 105), ("L64", 106), ("LP", 107), ("EUI48", 108), ("EUI64", 109),
  -- 110–127 unassigned
  ("NXNAME", 128),
  -- 129–248 unassigned
  ("TKEY", 249), ("TSIG", 250), ("IXFR", 251), ("AXFR", 252), ("MAILB", 253), ("MAILA", 254),
  ("*", 255),
  ("URI", 256), ("CAA", 257), ("AVC", 258), ("DOA", 259), ("AMTRELAY", 260), ("RESINFO", 261),
  ("WALLET", 262), ("CLA", 263), ("IPN", 264),
  -- 265–32767 unassigned
  ("TA", 32768), ("DLV", 32769)]

/-- crate variant ↦ IANA mnemonic, RR TYPE / QTYPE (`-` and `*` are not Rust identifiers) -/
def typeAlias : List (String × String) := [("NSAP_PTR", "NSAP-PTR"), ("ALL", "*")]

/-- the QTYPE-only code points (RFC 1035 §3.2.3, RFC 1995): never the type of a stored record -/
def qtypeOnly : List (String × Nat) :=
  [("IXFR", 251), ("AXFR", 252), ("MAILB", 253), ("MAILA", 254), ("*", 255)]

/-! ## CLASSes (RFC 1035 §3.2.4/§3.2.5, RFC 2136 for NONE)

`CS = 2` (CSNET) is defined by RFC 1035 and marked obsolete there; the IANA registry lists the value
2 as unassigned. It is kept here under its RFC 1035 mnemonic because the crate implements RFC 1035. -/
def classes : List (String × Nat) :=
  [("IN", 1), ("CS", 2), ("CH", 3), ("HS", 4), ("NONE", 254), ("ANY", 255)]

/-- the QCLASS-only code points (`ANY` is written `*` in RFC 1035) -/
def qclassOnly : List (String × Nat) := [("NONE", 254), ("ANY", 255)]

def classAlias : List (String × String) := []

/-! ## OpCodes (3 and 7–15 unassigned) -/
def opcodes : List (String × Nat) :=
  [("Query", 0), ("IQuery", 1), ("Status", 2), ("Notify", 4), ("Update", 5), ("DSO", 6)]

def opcodeAlias : List (String × String) := []

/-! ## RCODEs

0–11 fit the four header bits; 12–15 are unassigned; 16 and above exist only as extended RCODEs
(OPT TTL field, TSIG/TKEY error fields). 16 is assigned twice (BADVERS by RFC 6891, BADSIG by
RFC 8945). -/
def rcodes : List (String × Nat) := [
  ("NoError", 0), ("FormErr", 1), ("ServFail", 2), ("NXDomain", 3), ("NotImp", 4), ("Refused", 5),
  ("YXDomain", 6), ("YXRRSet", 7), ("NXRRSet", 8), ("NotAuth", 9), ("NotZone", 10),
  ("DSOTYPENI", 11),
  ("BADVERS", 16), ("BADSIG", 16), ("BADKEY", 17), ("BADTIME", 18), ("BADMODE", 19),
  ("BADNAME", 20), ("BADALG", 21), ("BADTRUNC", 22), ("BADCOOKIE", 23)]

def rcodeAlias : List (String × String) := []

/-- the RCODEs that can be carried by the four-bit header field -/
def headerRcodes : List (String × Nat) := rcodes.filter (fun p => p.2 < 16)

/-! ## EDNS0 option codes (RFC 6891 registry) -/
def ednsOptionCodes : List (String × Nat) := [
  ("LLQ", 1), ("UL", 2), ("NSID", 3), ("DAU", 5), ("DHU", 6), ("N3U", 7),
  ("edns-client-subnet", 8), ("EDNS EXPIRE", 9), ("COOKIE", 10), ("edns-tcp-keepalive", 11),
  ("Padding", 12), ("CHAIN", 13), ("edns-key-tag", 14), ("Extended DNS Error", 15),
  ("EDNS-Client-Tag", 16), ("EDNS-Server-Tag", 17), ("Report-Channel", 18), ("ZONEVERSION", 19)]

def ednsOptionAlias : List (String × String) := [("ECS", "edns-client-subnet"), ("Cookie", "COOKIE")]

/-! ## DNS Security Algorithm Numbers

0 was "reserved" in RFC 4034 and is now "Delete DS" (RFC 8078); 4 was reserved for elliptic curve
(RFC 2535) and is "Reserved" since RFC 6725; 9 and 11 are reserved. -/
def dnssecAlgorithms : List (String × Nat) := [
  ("DELETE", 0), ("RSAMD5", 1), ("DH", 2), ("DSA", 3), ("Reserved", 4), ("RSASHA1", 5),
  ("DSA-NSEC3-SHA1", 6), ("RSASHA1-NSEC3-SHA1", 7), ("RSASHA256", 8), ("Reserved", 9),
  ("RSASHA512", 10), ("Reserved", 11), ("ECC-GOST", 12), ("ECDSAP256SHA256", 13),
  ("ECDSAP384SHA384", 14), ("ED25519", 15), ("ED448", 16), ("SM2SM3", 17), ("ECC-GOST12", 23),
  ("INDIRECT", 252), ("PRIVATEDNS", 253), ("PRIVATEOID", 254), ("Reserved", 255)]

/-- `EllipticCurve = 4` is the retired ECC code point (accepted alias of "Reserved");
`EcDsaP386` is the crate's misspelling of P-384; `Reserved = 0` is RFC 4034's name of today's DELETE. -/
def algorithmAlias : List (String × String) := [
  ("Reserved", "DELETE"), ("RsaMd5", "RSAMD5"), ("DiffiHellman", "DH"), ("DsaSha1", "DSA"),
  ("EllipticCurve", "Reserved"), ("RsaSha1", "RSASHA1"), ("DsaNsec3", "DSA-NSEC3-SHA1"),
  ("RsaSha1Nsec3Sha1", "RSASHA1-NSEC3-SHA1"), ("RsaSha256", "RSASHA256"), ("GostR", "ECC-GOST"),
  ("EcDsaP256", "ECDSAP256SHA256"), ("EcDsaP386", "ECDSAP384SHA384"), ("Ed25519", "ED25519"),
  ("Ed448", "ED448"), ("Indirect", "INDIRECT"), ("PrivateDns", "PRIVATEDNS"),
  ("PrivateOid", "PRIVATEOID")]

/-! ## DS RR type digest algorithms -/
def digestTypes : List (String × Nat) := [
  ("Reserved", 0), ("SHA-1", 1), ("SHA-256", 2), ("GOST R 34.11-94", 3), ("SHA-384", 4),
  ("GOST R 34.11-2012", 5), ("SM3", 6)]

def digestAlias : List (String × String) :=
  [("Sha1", "SHA-1"), ("Sha256", "SHA-256"), ("GostR", "GOST R 34.11-94"), ("Sha384", "SHA-384")]

/-! ## SSHFP (RFC 4255, extended by RFC 6594, 7479, 8709). RFC 4255 calls algorithm 2 "DSS". -/
def sshfpAlgorithms : List (String × Nat) :=
  [("Reserved", 0), ("RSA", 1), ("DSA", 2), ("ECDSA", 3), ("Ed25519", 4), ("Ed448", 6)]

def sshfpAlgorithmAlias : List (String × String) := [("DSS", "DSA")]

def sshfpTypes : List (String × Nat) := [("Reserved", 0), ("SHA-1", 1), ("SHA-256", 2)]

def sshfpTypeAlias : List (String × String) := [("Sha1", "SHA-1")]

/-! ## AFSDB subtypes (RFC 1183 §1; no mnemonics are defined, the descriptions are used) -/
def afsdbSubtypes : List (String × Nat) :=
  [("AFS volume location server", 1), ("DCE authenticated name server", 2)]

def afsdbAlias : List (String × String) := [
  ("VolumeLocationServer", "AFS volume location server"),
  ("DCEAuthenticationServer", "DCE authenticated name server")]

/-! ## Address Family Numbers (only the two usable in APL / ECS are relevant) -/
def addressFamilies : List (String × Nat) := [("IP", 1), ("IP6", 2), ("NSAP", 3), ("HDLC", 4)]

def addressFamilyAlias : List (String × String) := [("Ipv4", "IP"), ("Ipv6", "IP6")]

/-! ## Comparing a crate table with a registry -/

/-- apply an alias table: the IANA mnemonic of a crate variant (identity when not listed) -/
def rename (alias : List (String × String)) (s : String) : String :=
  match alias.find? (fun p => p.1 == s) with
  | some p => p.2
  | none => s

/-- `registry` assigns the number `code` to the (renamed) crate variant `name` -/
def Assigns (registry : List (String × Nat)) (alias : List (String × String)) (p : String × Nat) : Prop :=
  (rename alias p.1, p.2) ∈ registry

instance (registry : List (String × Nat)) (alias : List (String × String)) (p : String × Nat) :
    Decidable (Assigns registry alias p) := by unfold Assigns; infer_instance

end Iana
