import DnsVerif.Model.Dec
import DnsVerif.Model.Enc
import DnsVerif.Model.Api

/-! # Canonical text form (see /verif/PROTOCOL.md): printer and parser for model values. -/

namespace Canon

def hexDigit (n : Nat) : Char := if n < 10 then Char.ofNat (48 + n) else Char.ofNat (87 + n)

def hexOfAux : Bytes → List Char → List Char
  | [], acc => acc.reverse
  | b :: r, acc => hexOfAux r (hexDigit (b.toNat % 16) :: hexDigit (b.toNat / 16) :: acc)

def hexOf (b : Bytes) : String := if b.isEmpty then "-" else String.ofList (hexOfAux b [])

def hexVal (c : Char) : Option Nat :=
  if '0' ≤ c ∧ c ≤ '9' then some (c.toNat - 48)
  else if 'a' ≤ c ∧ c ≤ 'f' then some (c.toNat - 87) else none

def parseHexAux : List Char → List UInt8 → Option Bytes
  | [], acc => some acc.reverse
  | a :: b :: rest, acc =>
    match hexVal a, hexVal b with
    | some x, some y => parseHexAux rest (UInt8.ofNat (x * 16 + y) :: acc)
    | _, _ => none
  | _, _ => none

def parseHex (s : String) : Option Bytes := if s == "-" then some [] else
  if s.isEmpty then none else parseHexAux s.toList []

def parseNum (s : String) : Option Nat :=
  if s.isEmpty then none
  else if s.length > 1 ∧ s.front == '0' then none
  else s.toNat?

/-! ## Printer -/

def pName (n : Name) : String :=
  if n.isEmpty then "." else ".".intercalate (n.map hexOf)

def pBool (b : Bool) : String := if b then "1" else "0"

def pFlags (f : Flags) : String :=
  s!"F {pBool f.qr} {f.opcode} {pBool f.aa} {pBool f.tc} {pBool f.rd} {pBool f.ra} {pBool f.ad} {pBool f.cd} {f.rcode}"

def pQuestion (q : Question) : String := s!"Q {pName q.name} {q.qtype} {q.qclass}"

def pList (items : List String) : String :=
  if items.isEmpty then "L:0" else s!"L:{items.length} " ++ " ".intercalate items

def pFVal : FVal → String
  | .num n => s!"n:{n}"
  | .name n => s!"d:{pName n}"
  | .bytes b => s!"h:{hexOf b}"
  | .obytes none => "o:none"
  | .obytes (some b) => s!"o:{hexOf b}"
  | .strs l => pList (l.map hexOf)

def pOption : EdnsOpt → String
  | .ecs fam src scope addr => s!"ecs:{fam}/{src}/{scope}/{hexOf addr}"
  | .cookie c none => s!"cookie:{hexOf c}/none"
  | .cookie c (some s) => s!"cookie:{hexOf c}/{hexOf s}"
  | .padding n => s!"pad:{n}"

def pApItem (i : APItem) : String := s!"{i.fam}/{i.pfx}/{pBool i.neg}/{hexOf i.addr}"

def pCounted (items : List String) : String :=
  if items.isEmpty then "0" else s!"{items.length}," ++ ",".intercalate items

def pParam : SvcParam → String
  | .mandatory ks => "mandatory:" ++ pCounted (ks.map toString)
  | .alpn ids => "alpn:" ++ pCounted (ids.map hexOf)
  | .noDefaultAlpn => "nodefaultalpn"
  | .port p => s!"port:{p}"
  | .ipv4hint hs => "ipv4hint:" ++ pCounted (hs.map hexOf)
  | .ech b => s!"ech:{hexOf b}"
  | .ipv6hint hs => "ipv6hint:" ++ pCounted (hs.map hexOf)
  | .priv k b => s!"key{k}:{hexOf b}"
  | .key65535 => "key65535"

def pFields : List String → List FVal → List String
  | n :: ns, v :: vs => s!"{n}={pFVal v}" :: pFields ns vs
  | _, _ => []

def pRR (r : RR) : String :=
  match r.rd with
  | .fields vs =>
    let names := match rrKind r.ty with
      | some (.regular i) => i.flds.map (·.1)
      | _ => []
    let fs := pFields names vs
    s!"RR {r.ty} {pName r.name} {r.ttl} {r.cls} {fs.length}" ++ (if fs.isEmpty then "" else " " ++ " ".intercalate fs)
  | .opt payload ext ver dnssec opts =>
    s!"RR {r.ty} . - - 5 requestor_payload_size=n:{payload} extend_rcode=n:{ext} version=n:{ver} dnssec=n:{pBool dnssec} edns_options={pList (opts.map pOption)}"
  | .apl items =>
    s!"RR {r.ty} {pName r.name} {r.ttl} {r.cls} 1 apitems={pList (items.map pApItem)}"
  | .svcb prio target params =>
    s!"RR {r.ty} {pName r.name} {r.ttl} {r.cls} 3 priority=n:{prio} target_name=d:{pName target} parameters={pList (params.map pParam)}"

def pMsg (m : Msg) : String :=
  let items := m.qs.map pQuestion ++ m.an.map pRR ++ m.ns.map pRR ++ m.ar.map pRR
  s!"M {m.id} {pFlags m.flags} {m.qs.length} {m.an.length} {m.ns.length} {m.ar.length}" ++
    (if items.isEmpty then "" else " " ++ " ".intercalate items)

def pDErr : DErr → String
  | .notEnoughBytes => "NotEnoughBytes" | .tooManyBytes => "TooManyBytes"
  | .dnsPacketTooBig => "DnsPacketTooBig" | .opcode n => s!"Opcode {n}" | .zNotZeroes => "ZNotZeroes"
  | .rcode n => s!"RCode {n}" | .type n => s!"Type {n}" | .class_ n => s!"Class {n}"
  | .qtype n => s!"QType {n}" | .qclass n => s!"QClass {n}" | .utf8 => "Utf8Error"
  | .labelLength => "LabelError.Length" | .labelEmpty => "LabelError.Empty"
  | .nameLength => "DomainNameError.DomainNameLength" | .notYetImplemented n => s!"NotYetImplemented {n}"
  | .offset => "Offset" | .aClass n => s!"AClass {n}" | .wksClass n => s!"WKSClass {n}" | .txtEmpty => "TXTEmpty"
  | .afsdbSubtype n => s!"AFSDBSubtype {n}" | .psdn => "PSDNAddressError.IllegalChar"
  | .isdn => "ISDNError.IllegalChar" | .isdnSA => "ISDNError.IllegalCharSA" | .gpos => "GPOS"
  | .aaaaClass n => s!"AAAAClass {n}" | .optDomainName => "OPTDomainName" | .optZero => "OPTZero"
  | .ednsOptionCode n => s!"EDNSOptionCode {n}" | .addr4Prefix => "AddressError.Ipv4Prefix"
  | .addr4Mask => "AddressError.Ipv4Mask" | .addr6Prefix => "AddressError.Ipv6Prefix"
  | .addr6Mask => "AddressError.Ipv6Mask" | .aplClass n => s!"APLClass {n}"
  | .cookieServerLength => "CookieError.ServerCookieLength" | .ecsAddressNumber n => s!"EcsAddressNumber {n}"
  | .ecsTooBig4 => "EcsTooBigIpv4Address" | .ecsTooBig6 => "EcsTooBigIpv6Address" | .cookieLength => "CookieLength"
  | .sshfpAlgorithm n => s!"SSHFPAlgorithm {n}" | .sshfpType n => s!"SSHFPType {n}"
  | .algorithmType n => s!"AlgorithmType {n}" | .digestType n => s!"DigestType {n}"
  | .dnskeyZeroFlags n => s!"DNSKEYZeroFlags {n}" | .dnskeyProtocol n => s!"DNSKEYProtocol {n}"
  | .maxRecursion => "MaxRecursion" | .endlessRecursion => "EndlessRecursion" | .remainingBytes => "RemainingBytes"
  | .paddingZero => "PaddingZero" | .paddingLength => "PaddingLength" | .tagEmpty => "TagError.Empty"
  | .tagIllegal => "TagError.IllegalChar" | .echLengthMismatch => "ECHLengthMismatch"
  | .svcbClass n => s!"SVCBClass {n}" | .svcbDuplicateKey n => s!"SVCBDuplicateKey {n}"
  | .panic s => s!"MODEL-PANIC {s}" | .fuel => "MODEL-FUEL"

def pEErr : EErr → String
  | .string => "String" | .length => "Length" | .notEnoughBytes => "NotEnoughBytes"
  | .compression => "Compression" | .maxRecursion => "MaxRecursion" | .aplAddressLength => "APLAddressLength"
  | .panic s => s!"MODEL-PANIC {s}"

/-! ## Parser (token stream). `bad` = syntax error, `uncon` = a constructor of the crate refuses. -/

inductive PErr | bad | uncon
  deriving Repr, DecidableEq

abbrev P (α : Type) := List String → Except PErr (α × List String)

def tok : P String
  | [] => .error .bad
  | t :: r => .ok (t, r)

def numTok : P Nat := fun ts =>
  match ts with
  | [] => .error .bad
  | t :: r => match parseNum t with
    | some n => .ok (n, r)
    | none => .error .bad

def ofOpt {α : Type} (o : Option α) : Except PErr α :=
  match o with
  | some a => .ok a
  | none => .error .bad

def guardU (b : Bool) : Except PErr Unit := if b then .ok () else .error .uncon

/-- labels through `Label::try_from` (UTF-8 String, 1..=63), name through `append_label` -/
def buildName : Name → List Bytes → Except PErr Name
  | acc, [] => .ok acc
  | acc, l :: r =>
    if !validUtf8 l then .error .uncon else
    match nameStep acc l with
    | (n, .ok ()) => buildName n r
    | (_, .error _) => .error .uncon

def parseNameStr (s : String) : Except PErr Name :=
  if s == "." then .ok [] else
  match (s.splitOn ".").mapM (fun h => if h == "-" then none else parseHex h) with
  | none => .error .bad
  | some ls => buildName [] ls

def nameTok : P Name := fun ts =>
  match ts with
  | [] => .error .bad
  | t :: r => match parseNameStr t with
    | .ok n => .ok (n, r)
    | .error e => .error e

def boolOf (n : Nat) : Except PErr Bool := if n = 0 then .ok false else if n = 1 then .ok true else .error .uncon

def parseFlags : P Flags := fun ts =>
  match ts with
  | "F" :: qr :: op :: aa :: tc :: rd :: ra :: ad :: cd :: rc :: r =>
    match [qr, op, aa, tc, rd, ra, ad, cd, rc].mapM parseNum with
    | some [qr, op, aa, tc, rd, ra, ad, cd, rc] => do
      let qr ← boolOf qr; let aa ← boolOf aa; let tc ← boolOf tc; let rd ← boolOf rd
      let ra ← boolOf ra; let ad ← boolOf ad; let cd ← boolOf cd
      guardU (opcodeKnown op); guardU (rcodeKnown rc)
      pure ({ qr, opcode := op, aa, tc, rd, ra, ad, cd, rcode := rc }, r)
    | _ => .error .bad
  | _ => .error .bad

def parseQuestion : P Question := fun ts =>
  match ts with
  | "Q" :: n :: qt :: qc :: r =>
    match parseNum qt, parseNum qc with
    | some qt, some qc => do
      let n ← parseNameStr n
      guardU (qtypeKnown qt); guardU (qclassKnown qc)
      pure ({ name := n, qtype := qt, qclass := qc }, r)
    | _, _ => .error .bad
  | _ => .error .bad

def stripPrefix (s pre : String) : Option String :=
  if s.startsWith pre then some (s.drop pre.length).toString else none

def splitEq (s : String) : Option (String × String) :=
  match s.splitOn "=" with
  | [a, b] => some (a, b)
  | _ => none

/-- take `k` item tokens -/
def takeToks : Nat → List String → Except PErr (List String × List String)
  | 0, ts => .ok ([], ts)
  | k+1, t :: r => match takeToks k r with
    | .ok (a, b) => .ok (t :: a, b)
    | .error e => .error e
  | _+1, [] => .error .bad

/-- the value part of a field and (for lists) the item tokens that follow -/
def listItems (v : String) (ts : List String) : Except PErr (List String × List String) :=
  match stripPrefix v "L:" with
  | none => .error .bad
  | some c => match parseNum c with
    | none => .error .bad
    | some k => takeToks k ts

def parseField (f : Fld) (v : String) (ts : List String) : Except PErr (FVal × List String) :=
  match f with
  | .num w =>
    match (stripPrefix v "n:").bind parseNum with
    | none => .error .bad
    | some n => if n < 256 ^ w then .ok (.num n, ts) else .error .uncon
  | .enum w id =>
    match (stripPrefix v "n:").bind parseNum with
    | none => .error .bad
    | some n =>
      if n < 256 ^ w ∧ id.valid n ∧ (id ≠ .dnskeyFlags ∨ n = 0 ∨ n = 1 ∨ n = 256 ∨ n = 257) then .ok (.num n, ts)
      else .error .uncon
  | .name _ =>
    match stripPrefix v "d:" with
    | none => .error .bad
    | some s => match parseNameStr s with
      | .ok n => .ok (.name n, ts)
      | .error e => .error e
  | .cstr c =>
    match (stripPrefix v "h:").bind parseHex with
    | none => .error .bad
    | some b =>
      if !validUtf8 b then .error .uncon else
      match c with
      | .any => .ok (.bytes b, ts)
      | .gpos => .ok (.bytes b, ts)
      | c => match c.run b with
        | .ok b => .ok (.bytes b, ts)
        | .error _ => .error .uncon
  | .ocstr c =>
    if v == "o:none" then .ok (.obytes none, ts) else
    match (stripPrefix v "o:").bind parseHex with
    | none => .error .bad
    | some b =>
      if !validUtf8 b then .error .uncon else
      match c.run b with
      | .ok b => .ok (.obytes (some b), ts)
      | .error _ => .error .uncon
  | .strs =>
    match listItems v ts with
    | .error e => .error e
    | .ok (items, ts) =>
      match items.mapM parseHex with
      | none => .error .bad
      | some l => if l.isEmpty ∨ !(l.all validUtf8) then .error .uncon else .ok (.strs l, ts)
  | .rest u =>
    match (stripPrefix v "h:").bind parseHex with
    | none => .error .bad
    | some b => if u && !validUtf8 b then .error .uncon else .ok (.bytes b, ts)
  | .oct k c =>
    match (stripPrefix v "h:").bind parseHex with
    | none => .error .bad
    | some b => if b.length = k * c then .ok (.bytes b, ts) else .error .uncon

def parseFieldsGo : List (String × Fld) → List String → Except PErr (List FVal × List String)
  | [], ts => .ok ([], ts)
  | (n, f) :: fs, ts =>
    match ts with
    | [] => .error .bad
    | t :: ts =>
      match splitEq t with
      | none => .error .bad
      | some (fname, v) =>
        if fname != n then .error .uncon else
        match parseField f v ts with
        | .error e => .error e
        | .ok (x, ts) =>
          match parseFieldsGo fs ts with
          | .error e => .error e
          | .ok (xs, ts) => .ok (x :: xs, ts)

def split1 (s : String) (sep : String) : List String := s.splitOn sep

def famAddrOk (fam : Nat) (addr : Bytes) : Bool := (fam == 1 && addr.length == 4) || (fam == 2 && addr.length == 16)

def parseOption (s : String) : Except PErr EdnsOpt :=
  match stripPrefix s "ecs:" with
  | some r =>
    match split1 r "/" with
    | [fam, src, scope, addr] =>
      match parseNum fam, parseNum src, parseNum scope, parseHex addr with
      | some fam, some src, some scope, some addr =>
        if !(famAddrOk fam addr) ∨ src > 255 ∨ scope > 255 then .error .uncon else
        match ecsNew fam src scope addr with
        | .ok o => .ok o
        | .error _ => .error .uncon
      | _, _, _, _ => .error .bad
    | _ => .error .bad
  | none =>
  match stripPrefix s "cookie:" with
  | some r =>
    match split1 r "/" with
    | [c, sv] =>
      match parseHex c with
      | none => .error .bad
      | some c =>
        if c.length ≠ 8 then .error .uncon else
        if sv == "none" then .ok (.cookie c none) else
        match parseHex sv with
        | none => .error .bad
        | some sv => match cookieNew c (some sv) with
          | .ok o => .ok o
          | .error _ => .error .uncon
    | _ => .error .bad
  | none =>
  match (stripPrefix s "pad:").bind parseNum with
  | some n => if n < 65536 then .ok (.padding n) else .error .uncon
  | none => .error .bad

def parseApItem (s : String) : Except PErr APItem :=
  match split1 s "/" with
  | [fam, pfx, neg, addr] =>
    match parseNum fam, parseNum pfx, parseNum neg, parseHex addr with
    | some fam, some pfx, some neg, some addr =>
      if !(famAddrOk fam addr) ∨ pfx > 255 ∨ neg > 1 then .error .uncon else
      match apItemNew fam pfx (neg == 1) addr with
      | .ok o => .ok o
      | .error _ => .error .uncon
    | _, _, _, _ => .error .bad
  | _ => .error .bad

/-- `count ("," item)*` -/
def parseCounted (s : String) : Option (List String) :=
  match s.splitOn "," with
  | c :: items => match parseNum c with
    | some k => if items.length = k then some items else none
    | none => none
  | [] => none

def parseParam (s : String) : Except PErr SvcParam :=
  if s == "nodefaultalpn" then .ok .noDefaultAlpn
  else if s == "key65535" then .ok .key65535
  else match stripPrefix s "mandatory:" with
  | some r => match (parseCounted r).bind (fun l => l.mapM parseNum) with
    | some ks => if ks.all (· < 65536) then .ok (.mandatory ks) else .error .uncon
    | none => .error .bad
  | none =>
  match stripPrefix s "alpn:" with
  | some r => match (parseCounted r).bind (fun l => l.mapM parseHex) with
    | some ids => if ids.all validUtf8 then .ok (.alpn ids) else .error .uncon
    | none => .error .bad
  | none =>
  match stripPrefix s "port:" with
  | some r => match parseNum r with
    | some p => if p < 65536 then .ok (.port p) else .error .uncon
    | none => .error .bad
  | none =>
  match stripPrefix s "ipv4hint:" with
  | some r => match (parseCounted r).bind (fun l => l.mapM parseHex) with
    | some hs => if hs.all (·.length == 4) then .ok (.ipv4hint hs) else .error .uncon
    | none => .error .bad
  | none =>
  match stripPrefix s "ech:" with
  | some r => match parseHex r with
    | some b => .ok (.ech b)
    | none => .error .bad
  | none =>
  match stripPrefix s "ipv6hint:" with
  | some r => match (parseCounted r).bind (fun l => l.mapM parseHex) with
    | some hs => if hs.all (·.length == 16) then .ok (.ipv6hint hs) else .error .uncon
    | none => .error .bad
  | none =>
  match stripPrefix s "key" with
  | some r => match r.splitOn ":" with
    | [k, h] => match parseNum k, parseHex h with
      | some k, some b => if k < 65536 then .ok (.priv k b) else .error .uncon
      | _, _ => .error .bad
    | _ => .error .bad
  | none => .error .bad

/-- `BTreeSet::insert` in the order given; a later duplicate key is ignored -/
def insertAll : List SvcParam → List SvcParam → List SvcParam
  | acc, [] => acc
  | acc, p :: r => match insertParam p acc with
    | some acc' => insertAll acc' r
    | none => insertAll acc r

def fieldVal (expect : String) : P String := fun ts =>
  match ts with
  | [] => .error .bad
  | t :: r => match splitEq t with
    | none => .error .bad
    | some (n, v) => if n == expect then .ok (v, r) else .error .uncon

def numField (expect : String) (bound : Nat) : P Nat := fun ts =>
  match fieldVal expect ts with
  | .error e => .error e
  | .ok (v, r) => match (stripPrefix v "n:").bind parseNum with
    | none => .error .bad
    | some n => if n < bound then .ok (n, r) else .error .uncon

def ttlClassTok (s : String) : Except PErr (Option Nat) :=
  if s == "-" then .ok none else match parseNum s with
    | some n => .ok (some n)
    | none => .error .bad

def parseRR : P RR := fun ts =>
  match ts with
  | "RR" :: ty :: nameS :: ttlS :: clsS :: nf :: r =>
    match parseNum ty, parseNum nf with
    | some ty, some nf =>
      match rrKind ty with
      | none => .error .uncon
      | some .opt => do
        let _ ← ttlClassTok ttlS; let _ ← ttlClassTok clsS
        if nf ≠ 5 then .error .uncon
        let (payload, r) ← numField "requestor_payload_size" 65536 r
        let (ext, r) ← numField "extend_rcode" 256 r
        let (ver, r) ← numField "version" 256 r
        let (dn, r) ← numField "dnssec" 2 r
        let (v, r) ← fieldVal "edns_options" r
        let (items, r) ← listItems v r
        let opts ← items.mapM parseOption
        pure ({ name := [], ty := ty, cls := 0, ttl := 0, rd := .opt payload ext ver (dn == 1) opts }, r)
      | some kind => do
        let name ← parseNameStr nameS
        let ttl ← ttlClassTok ttlS
        let cls ← ttlClassTok clsS
        match ttl, cls with
        | some ttl, some cls =>
          if ttl ≥ 2 ^ 32 ∨ !classKnown cls then .error .uncon
          match kind with
          | .regular info =>
            if info.inOnly.isSome ∧ cls ≠ 1 then .error .uncon
            if nf ≠ info.flds.length then .error .uncon
            let (vs, r) ← parseFieldsGo info.flds r
            pure ({ name, ty, cls, ttl, rd := .fields vs }, r)
          | .apl =>
            if cls ≠ 1 ∨ nf ≠ 1 then .error .uncon
            let (v, r) ← fieldVal "apitems" r
            let (items, r) ← listItems v r
            let its ← items.mapM parseApItem
            pure ({ name, ty, cls, ttl, rd := .apl its }, r)
          | .svcb _ =>
            if cls ≠ 1 ∨ nf ≠ 3 then .error .uncon
            let (prio, r) ← numField "priority" 65536 r
            let (tv, r) ← fieldVal "target_name" r
            let target ← match stripPrefix tv "d:" with
              | none => .error .bad
              | some s => parseNameStr s
            let (v, r) ← fieldVal "parameters" r
            let (items, r) ← listItems v r
            let ps ← items.mapM parseParam
            pure ({ name, ty, cls, ttl, rd := .svcb prio target (insertAll [] ps) }, r)
          | .opt => .error .bad
        | _, _ => .error .uncon
    | _, _ => .error .bad
  | _ => .error .bad

def parseMany {α : Type} (p : P α) : Nat → List String → List α → Except PErr (List α × List String)
  | 0, ts, acc => .ok (acc.reverse, ts)
  | k+1, ts, acc =>
    match p ts with
    | .error e => .error e
    | .ok (a, ts) => parseMany p k ts (a :: acc)

def parseMsg : P Msg := fun ts =>
  match ts with
  | "M" :: id :: r =>
    match parseNum id with
    | none => .error .bad
    | some id => do
      let (flags, r) ← parseFlags r
      let (qd, r) ← numTok r
      let (an, r) ← numTok r
      let (ns, r) ← numTok r
      let (ar, r) ← numTok r
      if id ≥ 65536 then .error .uncon
      let (qs, r) ← parseMany parseQuestion qd r []
      let (ans, r) ← parseMany parseRR an r []
      let (nss, r) ← parseMany parseRR ns r []
      let (ars, r) ← parseMany parseRR ar r []
      pure ({ id, flags, qs, an := ans, ns := nss, ar := ars }, r)
  | _ => .error .bad

/-- run a parser on all tokens; trailing garbage is a syntax error -/
def full {α : Type} (p : P α) (ts : List String) : Except PErr α :=
  match p ts with
  | .error e => .error e
  | .ok (a, []) => .ok a
  | .ok (_, _) => .error .bad

end Canon
