import DnsVerif.Lemmas.SafeCore

/-! # Safety / cost of the regular field decoders (`D.octs`, `D.cstrs`, `decField`, `decFields`) -/

namespace Safe

/-- `reads` reads of `chunk` octets advance by exactly (here: at least) `k * c` -/
theorem octs_post : ∀ (k c : Nat) (d : D), D.Ok d → c < 2 ^ 63 → Post 1 (k * c) d (D.octs k c d) := by
  intro k
  induction k with
  | zero => intro c d hd _; unfold D.octs; rw [Nat.zero_mul]; exact Post.done hd
  | succ k ih =>
    intro c d hd hc
    unfold D.octs
    pbind read_post hd hc with b d1 s1
    pbind ih c d1 s1.ok hc with r d2 s2
    rw [Nat.succ_mul]
    exact Post.done s2.ok

theorem cstrs_post : ∀ (fuel : Nat) (d : D), D.Ok d → d.lim - d.off < fuel →
    Post 1 0 d (D.cstrs fuel d) := by
  intro fuel
  induction fuel with
  | zero => intro d _ h; omega
  | succ fuel ih =>
    intro d hd hf
    unfold D.cstrs
    rw [isFinished_eq hd]
    by_cases hfin : d.off = d.lim
    · simp only [hfin, decide_true]; exact Post.done hd
    · simp only [hfin, decide_false]
      pbind cstr_post hd with s d1 s1
      pbind ih d1 s1.ok (s1.fuel (by omega) hf) with r d2 s2
      exact Post.done s2.ok

theorem enumErr_not_bad (id : EnumId) (n : Nat) : (id.err n).bad = false := by
  cases id <;> rfl

theorem strCheck_post (c : StrCheck) (s : Bytes) : PostU (c.run s) := by
  cases c <;> simp only [StrCheck.run] <;> (repeat' split) <;> first | trivial | rfl

/-- The widths in a field descriptor are small (in the record table they are at most 8). Without such a
bound `decField` is NOT panic-free in the model: `D.read` reports the `usize` overflow of
`offset += length` as a panic, and e.g. `.num (2^64)` triggers it; the Rust widths are the constants
1, 2, 4, 8 (see `rrKind_small`). -/
def _root_.Fld.small : Fld → Bool
  | .num w => decide (w ≤ 8)
  | .enum w _ => decide (w ≤ 8)
  | .oct _ c => decide (c ≤ 8)
  | _ => true

/-- every field descriptor of the record table is small -/
theorem rrKind_small {ty : Nat} {info : RRInfo} (h : rrKind ty = some (.regular info)) :
    (info.flds.map (·.2)).all Fld.small = true := by
  unfold rrKind at h
  split at h <;> first | (cases h; done) | (injection h with h; injection h with h; subst h; decide)

/-- the IN-only class errors of the record table are ordinary errors -/
theorem rrKind_inOnly {ty : Nat} {info : RRInfo} (h : rrKind ty = some (.regular info)) :
    ∀ e n, info.inOnly = some e → (e n).bad = false := by
  unfold rrKind at h
  split at h <;> first
    | (cases h; done)
    | (injection h with h; injection h with h; subst h; intro e n he; cases he; done)
    | (injection h with h; injection h with h; subst h; intro e n he; cases he; rfl)

/-- one field: constant 289 (a name), no guaranteed progress (`.ocstr` at the window end, `.rest`,
`.oct 0 _`, `.num 0` read nothing — and then cost nothing) -/
theorem decField_post {d : D} (hd : D.Ok d) (f : Fld) (hs : f.small = true) :
    Post 289 0 d (decField d f) := by
  cases f with
  | num w =>
    simp only [decField]
    have hw : w ≤ 8 := by simpa [Fld.small] using hs
    pbind num_post hd (by omega) with n d1 s1
    exact Post.done s1.ok
  | «enum» w id =>
    simp only [decField]
    have hw : w ≤ 8 := by simpa [Fld.small] using hs
    pbind num_post hd (by omega) with n d1 s1
    split
    · exact Post.done s1.ok
    · exact enumErr_not_bad id n
  | name c =>
    simp only [decField]
    pbind name_post hd with n d1 s1
    exact Post.done s1.ok
  | cstr c =>
    simp only [decField]
    pbind cstr_post hd with s d1 s1
    ubind strCheck_post c s with s'
    exact Post.done s1.ok
  | ocstr c =>
    simp only [decField]
    rw [isFinished_eq hd]
    by_cases hfin : d.off = d.lim
    · simp only [hfin, decide_true]; exact Post.done hd
    · simp only [hfin, decide_false]
      pbind cstr_post hd with s d1 s1
      ubind strCheck_post c s with s'
      exact Post.done s1.ok
  | strs =>
    simp only [decField]
    pbind cstrs_post (d.lim - d.off + 1) d hd (by omega) with l d1 s1
    split
    · rfl
    · exact Post.done s1.ok
  | rest u =>
    simp only [decField]
    pbind rest_post hd with b d1 s1
    split
    · rfl
    · exact Post.done s1.ok
  | oct k c =>
    simp only [decField]
    have hw : c ≤ 8 := by simpa [Fld.small] using hs
    pbind (octs_post k c d hd (by omega)).weaken (Nat.le_refl _) (Nat.zero_le _) with b d1 s1
    exact Post.done s1.ok

theorem decFields_post : ∀ (fs : List Fld) (d : D), D.Ok d → fs.all Fld.small = true →
    Post 289 0 d (decFields d fs) := by
  intro fs
  induction fs with
  | nil => intro d hd _; simp only [decFields]; exact Post.done hd
  | cons f fs ih =>
    intro d hd hs
    simp only [List.all_cons, Bool.and_eq_true] at hs
    simp only [decFields]
    pbind decField_post hd f hs.1 with v d1 s1
    pbind ih d1 s1.ok hs.2 with vs d2 s2
    exact Post.done s2.ok

/-! ## The lemmas in the requested shape (`Spec`: no panic, no fuel, a success keeps `D.Ok`, buffer, window;
cursor and cost do not decrease) -/

theorem read_safe {d : D} {n : Nat} (hd : D.Ok d) (hn : n < 2 ^ 63) : Spec d (d.read n) :=
  (read_post hd hn).spec
theorem u8_safe {d : D} (hd : D.Ok d) : Spec d d.u8 := (u8_post hd).spec
theorem num_safe {d : D} {w : Nat} (hd : D.Ok d) (hw : w < 2 ^ 63) : Spec d (d.num w) :=
  (num_post hd hw).spec
theorem rest_safe {d : D} (hd : D.Ok d) : Spec d d.rest := (rest_post hd).spec
theorem cstr_safe {d : D} (hd : D.Ok d) : Spec d d.cstr := (cstr_post hd).spec
theorem name_safe {d : D} (hd : D.Ok d) : Spec d d.name := (name_post hd).spec
theorem withSub_safe {α : Type} {K : Nat} {d : D} {len : Nat} {f : D → Except DErr (α × D)}
    (hd : D.Ok d) (hlen : len < 2 ^ 63)
    (hf : ∀ c : D, D.Ok c → c.buf = d.buf → c.off = d.off → c.lim = d.off + len → Post K 0 c (f c)) :
    Spec d (d.withSub len f) := (withSub_post hd hlen hf).spec
theorem octs_safe {k c : Nat} {d : D} (hd : D.Ok d) (hc : c < 2 ^ 63) : Spec d (D.octs k c d) :=
  (octs_post k c d hd hc).spec
/-- any fuel above the window length will do; the model passes `d.lim - d.off + 1` -/
theorem cstrs_safe {fuel : Nat} {d : D} (hd : D.Ok d) (hf : d.lim - d.off < fuel) :
    Spec d (D.cstrs fuel d) := (cstrs_post fuel d hd hf).spec
theorem decField_safe {d : D} {f : Fld} (hd : D.Ok d) (hs : f.small = true) : Spec d (decField d f) :=
  (decField_post hd f hs).spec
theorem decFields_safe {d : D} {fs : List Fld} (hd : D.Ok d) (hs : fs.all Fld.small = true) :
    Spec d (decFields d fs) := (decFields_post fs d hd hs).spec

/-- every loop iteration consumes at least one octet: a `<character-string>` has a length octet -/
theorem cstr_advances {d d' : D} {s : Bytes} (hd : D.Ok d) (h : d.cstr = .ok (s, d')) :
    d.off + 1 ≤ d'.off := ((cstr_post hd).step h).off
theorem num_advances {d d' : D} {w v : Nat} (hd : D.Ok d) (hw : w < 2 ^ 63) (h : d.num w = .ok (v, d')) :
    d.off + w ≤ d'.off := ((num_post hd hw).step h).off
theorem octs_advances {k c : Nat} {d d' : D} {b : Bytes} (hd : D.Ok d) (hc : c < 2 ^ 63)
    (h : D.octs k c d = .ok (b, d')) : d.off + k * c ≤ d'.off := ((octs_post k c d hd hc).step h).off
theorem name_advances {d d' : D} {n : Name} (hd : D.Ok d) (h : d.name = .ok (n, d')) :
    d.off + 1 ≤ d'.off := ((name_post hd).step h).off

/-- `is_finished` cannot fail inside the window: its `NotEnoughBytes` arm is unreachable -/
theorem isFinished_total {d : D} (hd : D.Ok d) : ∃ b, d.isFinished = .ok b := ⟨_, isFinished_eq hd⟩

/-! ## Non-vacuity -/

private def exD : D := { buf := [3, 97, 98, 99, 0, 1, 2, 3], off := 0, lim := 5, cost := 7 }

example : D.Ok exD := ⟨by decide, by decide, by simp [exD]⟩
example : decFields exD [.cstr .any, .num 1] =
    .ok ([.bytes [97, 98, 99], .num 0], { exD with off := 5, cost := 12 }) := rfl
example : Fld.small (.num (2 ^ 64)) = false := by decide
/-- the smallness hypothesis is necessary: a field of `2^64` octets is a panic of the model -/
example : decField exD (.num (2 ^ 64)) = .error (.panic "read: offset += length") := by
  simp [decField, D.num, D.read, exD]

end Safe
