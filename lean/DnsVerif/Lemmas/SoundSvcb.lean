import DnsVerif.Lemmas.SoundBodies

/-! # Decoder soundness, part 2b: SvcParams of SVCB / HTTPS (C03 / C09)

The decoder inserts every parameter into a list sorted by key (`BTreeSet::insert`) and rejects a key
that is already present. Hence the accepted list is a permutation of the parameters as they appear
on the wire and has strictly increasing keys (`decSvcParams_sound`, `no_duplicate_svcparam` in
`SoundMsg.lean`). Every parameter value fills exactly its announced length
(`svcparam_consumes_length`). -/

namespace Sound

/-! ## The value readers -/

theorem nums16_sound : ∀ (fuel : Nat) {d d' : D} {ks : List Nat}, D.Ok d →
    D.nums16 fuel d = .ok (ks, d') →
    (∀ k ∈ ks, k < 65536) ∧ BytesAt d.buf d.off (ks.flatMap (beBytes 2)) ∧
      d.off + 2 * ks.length = d.lim ∧ d'.off = d.lim ∧ Keep d d' := by
  intro fuel
  induction fuel with
  | zero => intro d d' l _ h; simp [D.nums16] at h
  | succ fuel ih =>
    intro d d' l hd h
    unfold D.nums16 at h
    cases hf : d.isFinished with
    | error e => simp [hf] at h
    | ok b =>
      obtain ⟨f1, f2⟩ := isFinished_ok hf
      cases b with
      | true =>
        simp only [hf] at h
        injection h with h; injection h with h1 h2
        subst h1; subst h2
        have : d.off = d.lim := f2.mp rfl
        exact ⟨by simp, bytesAt_nil _ _, by simpa using this, this, Keep.refl hd⟩
      | false =>
        simp only [hf] at h
        cases hc : d.num 2 with
        | error e => simp [hc] at h
        | ok p =>
          obtain ⟨n, d1⟩ := p
          simp only [hc] at h
          obtain ⟨n1, n2, _, n3, _, k1⟩ := num_sound hd hc
          cases hr : D.nums16 fuel d1 with
          | error e => simp [hr] at h
          | ok q =>
            obtain ⟨r, d2⟩ := q
            simp only [hr] at h
            injection h with h; injection h with h1 h2
            subst h1; subst h2
            obtain ⟨r1, r2, r3, r4, k2⟩ := ih k1.ok hr
            rw [k1.buf] at r2
            rw [k1.lim] at r3 r4
            refine ⟨?_, ?_, by rw [List.length_cons]; omega, r4, k1.trans k2⟩
            · intro k hk
              rcases List.mem_cons.mp hk with rfl | hk
              · simpa using n1
              · exact r1 k hk
            · rw [List.flatMap_cons]
              exact bytesAt_append_of n2 (by rw [beBytes_length, n3]) r2

theorem hints_sound : ∀ (fuel k c : Nat) {d d' : D} {hs : List Bytes}, D.Ok d →
    D.hints fuel k c d = .ok (hs, d') →
    (∀ h ∈ hs, h.length = k * c) ∧ BytesAt d.buf d.off hs.flatten ∧
      d.off + (k * c) * hs.length = d.lim ∧ d'.off = d.lim ∧ Keep d d' := by
  intro fuel k c
  induction fuel with
  | zero => intro d d' l _ h; simp [D.hints] at h
  | succ fuel ih =>
    intro d d' l hd h
    unfold D.hints at h
    cases hf : d.isFinished with
    | error e => simp [hf] at h
    | ok b =>
      obtain ⟨f1, f2⟩ := isFinished_ok hf
      cases b with
      | true =>
        simp only [hf] at h
        injection h with h; injection h with h1 h2
        subst h1; subst h2
        have : d.off = d.lim := f2.mp rfl
        exact ⟨by simp, bytesAt_nil _ _, by simpa using this, this, Keep.refl hd⟩
      | false =>
        simp only [hf] at h
        cases hc : D.octs k c d with
        | error e => simp [hc] at h
        | ok p =>
          obtain ⟨x, d1⟩ := p
          simp only [hc] at h
          obtain ⟨o1, o2, o3, k1⟩ := octs_sound k c hd hc
          cases hr : D.hints fuel k c d1 with
          | error e => simp [hr] at h
          | ok q =>
            obtain ⟨r, d2⟩ := q
            simp only [hr] at h
            injection h with h; injection h with h1 h2
            subst h1; subst h2
            obtain ⟨r1, r2, r3, r4, k2⟩ := ih k1.ok hr
            rw [k1.buf] at r2
            rw [k1.lim] at r3 r4
            refine ⟨?_, ?_, ?_, r4, k1.trans k2⟩
            · intro y hy
              rcases List.mem_cons.mp hy with rfl | hy
              · exact o1
              · exact r1 y hy
            · rw [List.flatten_cons]
              exact bytesAt_append_of o2 (by rw [o1, o3]) r2
            · rw [List.length_cons, Nat.mul_succ, ← r3, o3]; omega

/-- The value of one SvcParam inside its own window (the caller's `finished()?` gives `he`). -/
theorem decSvcParam_sound {key : Nat} {d d' : D} {p : SvcParam} (hd : D.Ok d) (hk : key < 65536)
    (h : decSvcParam key d = .ok (p, d')) (he : d'.off = d'.lim) :
    SvcValueAt d.buf d.lim d.off p ∧ p.key = key ∧ Keep d d' := by
  simp only [decSvcParam] at h
  by_cases k0 : key = 0
  · rw [if_pos k0] at h
    cases hn : D.nums16 (d.lim - d.off + 1) d with
    | error e => simp [hn] at h
    | ok q =>
      obtain ⟨ks, d1⟩ := q
      simp only [hn] at h
      injection h with h; injection h with h1 h2
      subst h1; subst h2
      obtain ⟨n1, n2, n3, _, k⟩ := nums16_sound _ hd hn
      exact ⟨.mandatory n1 n2 n3, k0.symm, k⟩
  rw [if_neg k0] at h
  by_cases k1 : key = 1
  · rw [if_pos k1] at h
    cases hn : D.cstrs (d.lim - d.off + 1) d with
    | error e => simp [hn] at h
    | ok q =>
      obtain ⟨ids, d1⟩ := q
      simp only [hn] at h
      injection h with h; injection h with h1 h2
      subst h1; subst h2
      obtain ⟨n1, _, k⟩ := cstrs_sound _ hd hn
      exact ⟨.alpn n1, k1.symm, k⟩
  rw [if_neg k1] at h
  by_cases k2 : key = 2
  · rw [if_pos k2] at h
    injection h with h; injection h with h1 h2
    subst h1; subst h2
    refine ⟨?_, k2.symm, Keep.refl hd⟩
    rw [he]; exact .noDefaultAlpn
  rw [if_neg k2] at h
  by_cases k3 : key = 3
  · rw [if_pos k3] at h
    cases hn : d.num 2 with
    | error e => simp [hn] at h
    | ok q =>
      obtain ⟨pt, d1⟩ := q
      simp only [hn] at h
      injection h with h; injection h with h1 h2
      subst h1; subst h2
      obtain ⟨n1, n2, _, n3, _, k⟩ := num_sound hd hn
      rw [k.lim, n3] at he
      exact ⟨.port (by simpa using n1) n2 he, k3.symm, k⟩
  rw [if_neg k3] at h
  by_cases k4 : key = 4
  · rw [if_pos k4] at h
    cases hn : D.hints (d.lim - d.off + 1) 1 4 d with
    | error e => simp [hn] at h
    | ok q =>
      obtain ⟨hs, d1⟩ := q
      simp only [hn] at h
      injection h with h; injection h with h1 h2
      subst h1; subst h2
      obtain ⟨n1, n2, n3, _, k⟩ := hints_sound _ 1 4 hd hn
      exact ⟨.ipv4hint n1 n2 (by omega), k4.symm, k⟩
  rw [if_neg k4] at h
  by_cases k5 : key = 5
  · rw [if_pos k5] at h
    cases hn : d.num 2 with
    | error e => simp [hn] at h
    | ok q =>
      obtain ⟨len, d1⟩ := q
      simp only [hn] at h
      obtain ⟨n1, n2, _, n3, _, kk1⟩ := num_sound hd hn
      cases hr : d1.rest with
      | error e => simp [hr] at h
      | ok q2 =>
        obtain ⟨b, d2⟩ := q2
        simp only [hr] at h
        obtain ⟨r1, r2, _, kk2⟩ := rest_sound kk1.ok hr
        by_cases hl : b.length = len
        · simp only [hl, ne_eq, not_true_eq_false, if_false] at h
          injection h with h; injection h with h1 h2
          subst h1; subst h2
          rw [kk1.buf] at r1
          rw [kk1.lim, n3] at r2
          refine ⟨.ech ?_ (by rw [hl]; simpa using n1) r2, k5.symm, kk1.trans kk2⟩
          rw [hl]
          exact bytesAt_append_of n2 (by rw [beBytes_length, n3]) r1
        · simp [hl] at h
  rw [if_neg k5] at h
  by_cases k6 : key = 6
  · rw [if_pos k6] at h
    cases hn : D.hints (d.lim - d.off + 1) 8 2 d with
    | error e => simp [hn] at h
    | ok q =>
      obtain ⟨hs, d1⟩ := q
      simp only [hn] at h
      injection h with h; injection h with h1 h2
      subst h1; subst h2
      obtain ⟨n1, n2, n3, _, k⟩ := hints_sound _ 8 2 hd hn
      exact ⟨.ipv6hint n1 n2 (by omega), k6.symm, k⟩
  rw [if_neg k6] at h
  by_cases k7 : key = 65535
  · rw [if_pos k7] at h
    injection h with h; injection h with h1 h2
    subst h1; subst h2
    refine ⟨?_, k7.symm, Keep.refl hd⟩
    rw [he]; exact .key65535
  rw [if_neg k7] at h
  cases hr : d.rest with
  | error e => simp [hr] at h
  | ok q =>
    obtain ⟨b, d1⟩ := q
    simp only [hr] at h
    injection h with h; injection h with h1 h2
    subst h1; subst h2
    obtain ⟨r1, r2, _, k⟩ := rest_sound hd hr
    exact ⟨.priv (by omega) (by omega) r1 r2, rfl, k⟩

/-- key, length, value: one SvcParam on the wire -/
theorem svcParam_step {d d1 d2 d3 : D} {key len : Nat} {p : SvcParam} (hd : D.Ok d)
    (h1 : d.num 2 = .ok (key, d1)) (h2 : d1.num 2 = .ok (len, d2))
    (h3 : d2.withSub len (decSvcParam key) = .ok (p, d3)) :
    SvcParamAt d.buf d.off p d3.off ∧ p.key = key ∧ len < 65536 ∧ d3.off = d.off + 4 + len ∧ Keep d d3 ∧
      SvcValueAt d.buf (d.off + 4 + len) (d.off + 4) p := by
  obtain ⟨hk, l1, hh, o2, b2, l2, ok2⟩ := hdr4_sound hd h1 h2
  obtain ⟨w1, c, hf, wfin, w4⟩ := withSub_ok h3
  obtain ⟨ok', wb, wl, wo⟩ := withSub_Ok ok2 h3
  have hck := withSub_child_Ok (c0 := d2.cost + len) ok2 w1
  obtain ⟨v1, v2, _⟩ := decSvcParam_sound hck hk hf wfin
  simp only at v1
  rw [b2, o2] at v1
  have hend : d3.off = d.off + 4 + len := by rw [wo, o2]
  refine ⟨?_, v2, l1, hend, ⟨wb.trans b2, wl.trans l2, by rw [wo, o2]; omega, ok'⟩, v1⟩
  rw [hend]
  exact .mk l1 (by rw [v2]; exact hh) v1

/-! ## `insertParam` (`BTreeSet::insert`) -/

theorem keysSorted_cons {a : SvcParam} {l : List SvcParam} :
    keysSorted (a :: l) ↔ (∀ b ∈ l, a.key < b.key) ∧ keysSorted l := by
  induction l generalizing a with
  | nil => simp [keysSorted]
  | cons b r ih =>
    simp only [keysSorted]
    constructor
    · rintro ⟨h1, h2⟩
      refine ⟨?_, h2⟩
      intro c hc
      rcases List.mem_cons.mp hc with rfl | hc
      · exact h1
      · exact Nat.lt_trans h1 ((ih.mp h2).1 c hc)
    · rintro ⟨h1, h2⟩
      exact ⟨h1 b (by simp), h2⟩

/-- a successful insertion yields a permutation of `p :: acc` -/
theorem insertParam_perm {p : SvcParam} : ∀ {acc r : List SvcParam}, insertParam p acc = some r →
    r.Perm (p :: acc) := by
  intro acc
  induction acc with
  | nil => intro r h; simp only [insertParam] at h; injection h with h; subst h; exact .refl _
  | cons q t ih =>
    intro r h
    unfold insertParam at h
    by_cases h1 : p.key < q.key
    · rw [if_pos h1] at h; injection h with h; subst h; exact .refl _
    · rw [if_neg h1] at h
      by_cases h2 : p.key = q.key
      · rw [if_pos h2] at h; cases h
      · rw [if_neg h2] at h
        cases hr : insertParam p t with
        | none => simp [hr] at h
        | some r' =>
          simp only [hr] at h
          injection h with h; subst h
          exact ((ih hr).cons q).trans (.swap p q t)

/-- sortedness is preserved -/
theorem insertParam_sorted {p : SvcParam} : ∀ {acc r : List SvcParam}, keysSorted acc →
    insertParam p acc = some r → keysSorted r := by
  intro acc
  induction acc with
  | nil => intro r _ h; simp only [insertParam] at h; injection h with h; subst h; simp [keysSorted]
  | cons q t ih =>
    intro r hs h
    have hs' := keysSorted_cons.mp hs
    unfold insertParam at h
    by_cases h1 : p.key < q.key
    · rw [if_pos h1] at h; injection h with h; subst h
      exact keysSorted_cons.mpr ⟨fun b hb => by
        rcases List.mem_cons.mp hb with rfl | hb
        · exact h1
        · exact Nat.lt_trans h1 (hs'.1 b hb), hs⟩
    · rw [if_neg h1] at h
      by_cases h2 : p.key = q.key
      · rw [if_pos h2] at h; cases h
      · rw [if_neg h2] at h
        cases hr : insertParam p t with
        | none => simp [hr] at h
        | some r' =>
          simp only [hr] at h
          injection h with h; subst h
          refine keysSorted_cons.mpr ⟨fun b hb => ?_, ih hs'.2 hr⟩
          have := ((insertParam_perm hr).mem_iff).mp hb
          rcases List.mem_cons.mp this with rfl | hb'
          · omega
          · exact hs'.1 b hb'

/-- a refused insertion means that the key is present -/
theorem insertParam_none {p : SvcParam} : ∀ {acc : List SvcParam}, insertParam p acc = none →
    ∃ q ∈ acc, q.key = p.key := by
  intro acc
  induction acc with
  | nil => intro h; simp [insertParam] at h
  | cons q t ih =>
    intro h
    unfold insertParam at h
    by_cases h1 : p.key < q.key
    · rw [if_pos h1] at h; cases h
    · rw [if_neg h1] at h
      by_cases h2 : p.key = q.key
      · exact ⟨q, by simp, h2.symm⟩
      · rw [if_neg h2] at h
        cases hr : insertParam p t with
        | none =>
          obtain ⟨x, hx, hk⟩ := ih hr
          exact ⟨x, by simp [hx], hk⟩
        | some r' => simp [hr] at h

/-- on a sorted list: the insertion is refused exactly when the key is present -/
theorem insertParam_none_iff {p : SvcParam} {acc : List SvcParam} (hs : keysSorted acc) :
    insertParam p acc = none ↔ ∃ q ∈ acc, q.key = p.key := by
  refine ⟨insertParam_none, ?_⟩
  induction acc with
  | nil => rintro ⟨q, hq, _⟩; simp at hq
  | cons a t ih =>
    rintro ⟨q, hq, hk⟩
    have hs' := keysSorted_cons.mp hs
    unfold insertParam
    by_cases h1 : p.key < a.key
    · exfalso
      rcases List.mem_cons.mp hq with rfl | hq
      · omega
      · have := hs'.1 q hq; omega
    · rw [if_neg h1]
      by_cases h2 : p.key = a.key
      · rw [if_pos h2]
      · rw [if_neg h2]
        rcases List.mem_cons.mp hq with rfl | hq
        · exact absurd hk.symm h2
        · rw [ih hs'.2 ⟨q, hq, hk⟩]

/-- strictly increasing keys: no key occurs twice -/
theorem keysSorted_nodup : ∀ {l : List SvcParam}, keysSorted l → (l.map SvcParam.key).Nodup := by
  intro l
  induction l with
  | nil => intro _; simp
  | cons a t ih =>
    intro hs
    have hs' := keysSorted_cons.mp hs
    rw [List.map_cons, List.nodup_cons]
    refine ⟨?_, ih hs'.2⟩
    intro hm
    obtain ⟨b, hb, hk⟩ := List.mem_map.mp hm
    have := hs'.1 b hb
    omega

/-! ## The parameter loop -/

theorem decSvcParams_sound : ∀ (fuel : Nat) {d d' : D} {acc res : List SvcParam}, D.Ok d →
    keysSorted acc → decSvcParams fuel d acc = .ok (res, d') →
    ∃ wire, SvcParamsAt d.buf d.lim d.off wire ∧ res.Perm (acc ++ wire) ∧ keysSorted res ∧
      d'.off = d.lim ∧ Keep d d' := by
  intro fuel
  induction fuel with
  | zero => intro d d' acc res _ _ h; simp [decSvcParams] at h
  | succ fuel ih =>
    intro d d' acc res hd hs h
    unfold decSvcParams at h
    cases hf : d.isFinished with
    | error e => simp [hf] at h
    | ok b =>
      obtain ⟨f1, f2⟩ := isFinished_ok hf
      cases b with
      | true =>
        simp only [hf] at h
        injection h with h; injection h with h1 h2
        subst h1; subst h2
        have : d.off = d.lim := f2.mp rfl
        refine ⟨[], ?_, by simp, hs, this, Keep.refl hd⟩
        rw [this]; exact .nil
      | false =>
        simp only [hf] at h
        cases h1 : d.num 2 with
        | error e => simp [h1] at h
        | ok p1 =>
          obtain ⟨key, d1⟩ := p1
          simp only [h1] at h
          cases h2 : d1.num 2 with
          | error e => simp [h2] at h
          | ok p2 =>
            obtain ⟨len, d2⟩ := p2
            simp only [h2] at h
            cases h3 : d2.withSub len (decSvcParam key) with
            | error e => simp [h3] at h
            | ok p3 =>
              obtain ⟨p, d3⟩ := p3
              simp only [h3] at h
              obtain ⟨s1, _, _, _, k1, _⟩ := svcParam_step hd h1 h2 h3
              cases hi : insertParam p acc with
              | none => simp [hi] at h
              | some acc' =>
                simp only [hi] at h
                obtain ⟨wire, r1, r2, r3, r4, k2⟩ := ih k1.ok (insertParam_sorted hs hi) h
                rw [k1.buf, k1.lim] at r1
                refine ⟨p :: wire, .cons s1 k1.off_le r1, ?_, r3, by rw [r4, k1.lim], k1.trans k2⟩
                exact (r2.trans ((insertParam_perm hi).append_right wire)).trans List.perm_middle.symm

/-- **C09 for SvcParams**: an accepted parameter occupies exactly `4 + length` octets, where `length`
is the number stored in its third and fourth octet, and its value reader ended exactly there. -/
theorem svcparam_consumes_length {d d1 d2 d3 : D} {key len : Nat} {p : SvcParam} (hd : D.Ok d)
    (h1 : d.num 2 = .ok (key, d1)) (h2 : d1.num 2 = .ok (len, d2))
    (h3 : d2.withSub len (decSvcParam key) = .ok (p, d3)) :
    BytesAt d.buf (d.off + 2) (beBytes 2 len) ∧ d3.off = d.off + 4 + len ∧
      SvcValueAt d.buf (d.off + 4 + len) (d.off + 4) p := by
  obtain ⟨_, _, _, s4, _, s6⟩ := svcParam_step hd h1 h2 h3
  obtain ⟨_, _, hh, _⟩ := hdr4_sound hd h1 h2
  rw [bytesAt_append, beBytes_length] at hh
  exact ⟨hh.2, s4, s6⟩

/-! ## Non-vacuity: port=443 (key 3) before alpn=["h2"] (key 1) on the wire; the result is sorted -/

private def exSvc : Bytes := [0, 3, 0, 2, 1, 187, 0, 1, 0, 3, 2, 104, 50]

set_option maxRecDepth 8192 in
example : decSvcParams 14 { buf := exSvc, off := 0, lim := 13 } [] =
    .ok ([.alpn [[104, 50]], .port 443], { buf := exSvc, off := 13, lim := 13, cost := 18 }) := rfl

set_option maxRecDepth 8192 in
example : ∃ wire, SvcParamsAt exSvc 13 0 wire ∧ [SvcParam.alpn [[104, 50]], .port 443].Perm ([] ++ wire) ∧
    keysSorted [SvcParam.alpn [[104, 50]], .port 443] := by
  obtain ⟨w, h1, h2, h3, _⟩ := decSvcParams_sound 14 (d := { buf := exSvc, off := 0, lim := 13 })
    (acc := []) ⟨by decide, by decide, by simp [exSvc]⟩ trivial rfl
  exact ⟨w, h1, h2, h3⟩

example : insertParam (.port 1) [.alpn [], .port 2] = none := by decide
example : insertParam (.port 1) [.alpn [], .ech []] = some [.alpn [], .port 1, .ech []] := by decide

end Sound
