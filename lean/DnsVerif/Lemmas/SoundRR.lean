import DnsVerif.Lemmas.SoundSvcb

/-! # Decoder soundness, part 3: RDATA, resource records, questions, flags (C03 / C09)

`decRR_sound`: an accepted record IS a record of the grammar `RRAt` at the cursor.
`rr_consumes_rdlength`: its RDATA reader ran in the window `[rdStart, rdStart + RDLENGTH)` and the
RDATA relation fills that window exactly. -/

namespace Sound

/-! ## Small facts about the tables -/

theorem rrKind_opt {ty : Nat} (h : rrKind ty = some .opt) : ty = 41 := by
  unfold rrKind at h
  split at h <;> first | rfl | cases h

theorem rrKind_41 : rrKind 41 = some .opt := rfl

theorem checkClass_ok {cls : Nat} {io : Option (Nat → DErr)} (h : checkClass cls io = .ok ()) :
    classKnown cls = true ∧ (io.isSome = true → cls = 1) := by
  unfold checkClass at h
  by_cases hk : classKnown cls = true
  · refine ⟨hk, ?_⟩
    simp only [hk, Bool.not_true, Bool.false_eq_true, if_false] at h
    cases io with
    | none => intro hc; simp at hc
    | some e =>
      intro _
      simp only at h
      by_cases h1 : cls = 1
      · exact h1
      · rw [if_neg h1] at h; cases h
  · have : classKnown cls = false := by simpa using hk
    simp [this] at h

theorem and_255 (x : Nat) : x &&& 255 = x % 256 := Nat.and_two_pow_sub_one_eq_mod x 8

/-- `rr_opt_ttl`: the TTL field of an OPT record is `ext | version | DO | 15 zero bits` -/
theorem optTtl_ok {ttl ext ver : Nat} {dn : Bool} (h : optTtl ttl = .ok (ext, ver, dn)) :
    ext < 256 ∧ ver < 256 ∧ (ttl < 2 ^ 32 → ttl = optTtlOf ext ver dn) := by
  unfold optTtl at h
  simp only [and_255, Nat.shiftRight_eq_div_pow] at h
  by_cases h1 : ttl / 2 ^ 8 % 256 ≠ 0 ∧ ttl / 2 ^ 8 % 256 ≠ 128
  · rw [if_pos h1] at h; cases h
  · rw [if_neg h1] at h
    by_cases h2 : ttl % 256 ≠ 0
    · rw [if_pos h2] at h; cases h
    · rw [if_neg h2] at h
      injection h with h; injection h with ha h; injection h with hb hc
      subst ha; subst hb; subst hc
      refine ⟨Nat.mod_lt _ (by omega), Nat.mod_lt _ (by omega), fun h32 => ?_⟩
      unfold optTtlOf
      by_cases h3 : ttl / 2 ^ 8 % 256 = 128
      · simp only [h3, beq_self_eq_true, if_true]; omega
      · have : (ttl / 2 ^ 8 % 256 == 128) = false := by simpa using h3
        simp only [this, Bool.false_eq_true, if_false]; omega

/-! ## RDATA -/

/-- The body of a record inside its RDATA window (the caller's `finished()?` gives `he`): the window
holds exactly the RDATA of the grammar; for a normal record the fixed fields are passed through and
the class rule holds; for OPT the owner is the root and the TTL decomposes. -/
theorem decRData_sound {name : Name} {ty cls ttl : Nat} {c c' : D} {rr : RR} (hc : D.Ok c)
    (h : decRData name ty cls ttl c = .ok (rr, c')) (he : c'.off = c'.lim) :
    RDataAt c.buf false c.lim ty c.off rr.rd ∧ Keep c c' ∧
      ((ty ≠ 41 ∧ rr.name = name ∧ rr.ty = ty ∧ rr.cls = cls ∧ rr.ttl = ttl ∧ classOk ty cls) ∨
       (ty = 41 ∧ name = [] ∧ ∃ ext ver dn opts,
          rr = { name := [], ty := 41, cls := 0, ttl := 0, rd := .opt cls ext ver dn opts } ∧
          ext < 256 ∧ ver < 256 ∧ (ttl < 2 ^ 32 → ttl = optTtlOf ext ver dn))) := by
  unfold decRData at h
  cases hk : rrKind ty with
  | none => simp [hk] at h
  | some kind =>
    have hne : kind ≠ .opt → ty ≠ 41 := by
      intro hko h41
      rw [h41, rrKind_41] at hk
      injection hk with hk; exact hko hk.symm
    cases kind with
    | regular info =>
      simp only [hk] at h
      cases hcc : checkClass cls info.inOnly with
      | error e => simp [hcc] at h
      | ok u =>
        cases u
        simp only [hcc] at h
        obtain ⟨ck1, ck2⟩ := checkClass_ok hcc
        cases hfs : decFields c (info.flds.map (·.2)) with
        | error e => simp [hfs] at h
        | ok p =>
          obtain ⟨vs, c1⟩ := p
          simp only [hfs] at h
          injection h with h; injection h with h1 h2
          subst h1; subst h2
          obtain ⟨f1, k⟩ := decFields_sound hc hfs he
          refine ⟨.regular hk f1, k, .inl ⟨hne (by intro hh; cases hh), rfl, rfl, rfl, rfl, ck1, ?_⟩⟩
          simp only [hk]; exact ck2
    | opt =>
      simp only [hk] at h
      have h41 := rrKind_opt hk
      by_cases hn : name = []
      · simp only [hn, ne_eq, not_true_eq_false, if_false] at h
        cases ht : optTtl ttl with
        | error e => simp [ht] at h
        | ok t =>
          obtain ⟨ext, ver, dn⟩ := t
          simp only [ht] at h
          cases ho : decOptions (c.lim - c.off + 1) c with
          | error e => simp [ho] at h
          | ok p =>
            obtain ⟨opts, c1⟩ := p
            simp only [ho] at h
            injection h with h; injection h with h1 h2
            subst h1; subst h2
            obtain ⟨o1, _, k⟩ := decOptions_sound _ hc ho
            obtain ⟨t1, t2, t3⟩ := optTtl_ok ht
            subst h41
            exact ⟨.opt hk o1, k, .inr ⟨rfl, hn, ext, ver, dn, opts, rfl, t1, t2, t3⟩⟩
      · simp [hn] at h
    | apl =>
      simp only [hk] at h
      cases hcc : checkClass cls (some .aplClass) with
      | error e => simp [hcc] at h
      | ok u =>
        cases u
        simp only [hcc] at h
        obtain ⟨ck1, ck2⟩ := checkClass_ok hcc
        cases ho : decApItems (c.lim - c.off + 1) c with
        | error e => simp [ho] at h
        | ok p =>
          obtain ⟨items, c1⟩ := p
          simp only [ho] at h
          injection h with h; injection h with h1 h2
          subst h1; subst h2
          obtain ⟨o1, _, k⟩ := decApItems_sound _ hc ho
          refine ⟨.apl hk o1, k, .inl ⟨hne (by intro hh; cases hh), rfl, rfl, rfl, rfl, ck1, ?_⟩⟩
          simp only [hk]; exact ck2 rfl
    | svcb https =>
      simp only [hk] at h
      cases hcc : checkClass cls (some .svcbClass) with
      | error e => simp [hcc] at h
      | ok u =>
        cases u
        simp only [hcc] at h
        obtain ⟨ck1, ck2⟩ := checkClass_ok hcc
        have hcl : classOk ty cls := ⟨ck1, by simp only [hk]; exact ck2 rfl⟩
        have hty := hne (by intro hh; cases hh)
        cases hp : c.num 2 with
        | error e => simp [hp] at h
        | ok p =>
          obtain ⟨prio, c1⟩ := p
          simp only [hp] at h
          obtain ⟨p1, p2, _, p3, _, k1⟩ := num_sound hc hp
          cases hnm : c1.name with
          | error e => simp [hnm] at h
          | ok q =>
            obtain ⟨target, c2⟩ := q
            simp only [hnm] at h
            obtain ⟨hops, h17, hna, hb, hl, hlt, hle, hsz, _, hutf, _⟩ := name_sound hnm
            have k2 : Keep c1 c2 := ⟨hb, hl, by omega, name_Ok k1.ok hnm⟩
            have hnr : NameRefAt c.buf false (c.off + 2) target c2.off := by
              rw [← p3, ← k1.buf]
              exact ⟨hops, hna, by simpa [maxHops] using h17, hutf, hsz⟩
            by_cases hp0 : prio = 0
            · rw [if_pos hp0] at h
              injection h with h; injection h with h1 h2
              subst h1; subst h2
              subst hp0
              rw [he, k2.lim, k1.lim] at hnr
              exact ⟨.svcbAlias hk p2 hnr, k1.trans k2, .inl ⟨hty, rfl, rfl, rfl, rfl, hcl⟩⟩
            · rw [if_neg hp0] at h
              cases hps : decSvcParams (c2.lim - c2.off + 1) c2 [] with
              | error e => simp [hps] at h
              | ok r =>
                obtain ⟨ps, c3⟩ := r
                simp only [hps] at h
                injection h with h; injection h with h1 h2
                subst h1; subst h2
                obtain ⟨wire, w1, w2, w3, _, k3⟩ := decSvcParams_sound _ (acc := []) k2.ok trivial hps
                rw [k2.buf, k1.buf, k2.lim, k1.lim] at w1
                have hle' := k2.off_le
                rw [k1.lim] at hle'
                refine ⟨.svcbService hk (by omega) (by simpa using p1) p2 hnr hle' w1 (by simpa using w2) w3,
                  k1.trans (k2.trans k3), .inl ⟨hty, rfl, rfl, rfl, rfl, hcl⟩⟩

/-! ## Records -/

/-- TYPE CLASS TTL RDLENGTH -/
theorem hdr10_sound {d d1 d2 d3 d4 : D} {ty cls ttl rdlen : Nat} (hd : D.Ok d)
    (h1 : d.num 2 = .ok (ty, d1)) (h2 : d1.num 2 = .ok (cls, d2)) (h3 : d2.num 4 = .ok (ttl, d3))
    (h4 : d3.num 2 = .ok (rdlen, d4)) :
    ty < 65536 ∧ cls < 65536 ∧ ttl < 2 ^ 32 ∧ rdlen < 65536 ∧
      BytesAt d.buf d.off (beBytes 2 ty ++ beBytes 2 cls ++ beBytes 4 ttl ++ beBytes 2 rdlen) ∧
      d4.off = d.off + 10 ∧ Keep d d4 := by
  obtain ⟨a1, a2, _, a3, _, k1⟩ := num_sound hd h1
  obtain ⟨b1, b2, _, b3, _, k2⟩ := num_sound k1.ok h2
  obtain ⟨c1, c2, _, c3, _, k3⟩ := num_sound k2.ok h3
  obtain ⟨e1, e2, _, e3, _, k4⟩ := num_sound k3.ok h4
  refine ⟨by simpa using a1, by simpa using b1, by simpa using c1, by simpa using e1, ?_, by omega,
    k1.trans (k2.trans (k3.trans k4))⟩
  rw [k1.buf] at b2
  rw [k2.buf, k1.buf] at c2
  rw [k3.buf, k2.buf, k1.buf] at e2
  refine bytesAt_append_of (bytesAt_append_of (bytesAt_append_of a2 (o2 := d1.off) ?_ b2)
    (o2 := d2.off) ?_ c2) (o2 := d3.off) ?_ e2
  · simp [a3]
  · simp; omega
  · simp; omega

/-- **Soundness of `Decoder::rr`**, with the window fact: the owner name ends at `e`, RDLENGTH is the
number at `e + 8`, the RDATA fills `[e + 10, e + 10 + RDLENGTH)` exactly and the cursor ends there. -/
theorem decRR_sound' {d d' : D} {rr : RR} (hd : D.Ok d) (h : decRR d = .ok (rr, d')) :
    RRAt d.buf false d.off rr d'.off ∧ Keep d d' ∧
      ∃ e rdlen, NameRefAt d.buf false d.off rr.name e ∧ BytesAt d.buf (e + 8) (beBytes 2 rdlen) ∧
        rdlen < 65536 ∧ RDataAt d.buf false (e + 10 + rdlen) rr.ty (e + 10) rr.rd ∧
        d'.off = e + 10 + rdlen := by
  unfold decRR at h
  cases hnm : d.name with
  | error e => simp [hnm] at h
  | ok p0 =>
    obtain ⟨name, d0⟩ := p0
    simp only [hnm] at h
    obtain ⟨hops, h17, hna, hb, hl, hlt, hle, hsz, _, hutf, _⟩ := name_sound hnm
    have k0 : Keep d d0 := ⟨hb, hl, by omega, name_Ok hd hnm⟩
    have hnr : NameRefAt d.buf false d.off name d0.off := ⟨hops, hna, by simpa [maxHops] using h17, hutf, hsz⟩
    cases h1 : d0.num 2 with
    | error e => simp [h1] at h
    | ok p1 =>
      obtain ⟨ty, d1⟩ := p1
      simp only [h1] at h
      by_cases htk : typeKnown ty = true
      · simp only [htk, Bool.not_true, Bool.false_eq_true, if_false] at h
        cases h2 : d1.num 2 with
        | error e => simp [h2] at h
        | ok p2 =>
          obtain ⟨cls, d2⟩ := p2
          simp only [h2] at h
          cases h3 : d2.num 4 with
          | error e => simp [h3] at h
          | ok p3 =>
            obtain ⟨ttl, d3⟩ := p3
            simp only [h3] at h
            cases h4 : d3.num 2 with
            | error e => simp [h4] at h
            | ok p4 =>
              obtain ⟨rdlen, d4⟩ := p4
              simp only [h4] at h
              obtain ⟨x1, x2, x3, x4, x5, x6, k4⟩ := hdr10_sound k0.ok h1 h2 h3 h4
              rw [k0.buf] at x5
              obtain ⟨w1, c, hf, wfin, w4⟩ := withSub_ok h
              obtain ⟨ok', wb, wl, wo⟩ := withSub_Ok k4.ok h
              have hck := withSub_child_Ok (c0 := d4.cost + rdlen) k4.ok w1
              obtain ⟨r1, _, r3⟩ := decRData_sound hck hf wfin
              simp only at r1
              rw [k4.buf, k0.buf, x6] at r1
              have kp : Keep d d' :=
                ⟨wb.trans (k4.buf.trans k0.buf), wl.trans (k4.lim.trans k0.lim), by rw [wo, x6]; omega, ok'⟩
              have hend : d'.off = d0.off + 10 + rdlen := by rw [wo, x6]
              have hlen : BytesAt d.buf (d0.off + 8) (beBytes 2 rdlen) := by
                have := (bytesAt_append.mp x5).2
                simpa using this
              rcases r3 with ⟨n41, e1, e2, e3, e4, e5⟩ | ⟨y41, hroot, ext, ver, dn, opts, e1, e2, e3, e4⟩
              · refine ⟨?_, kp, d0.off, rdlen, by rw [e1]; exact hnr, hlen, x4, by rw [e2]; exact r1, hend⟩
                rw [hend]
                refine .normal (by rw [e2]; exact n41) (by rw [e1]; exact hnr) (by rw [e2]; exact x1)
                  (by rw [e3]; exact x2) (by rw [e4]; exact x3) x4 (by rw [e2, e3]; exact e5) ?_
                  (by rw [e2]; exact r1)
                rw [e2, e3, e4]; exact x5
              · subst y41; subst hroot; subst e1
                have e5 := e4 x3
                subst e5
                refine ⟨?_, kp, d0.off, rdlen, hnr, hlen, x4, r1, hend⟩
                rw [hend]
                exact .opt hnr x2 e2 e3 x4 x5 r1
      · have : typeKnown ty = false := by simpa using htk
        simp [this] at h

theorem decRR_sound {d d' : D} {rr : RR} (hd : D.Ok d) (h : decRR d = .ok (rr, d')) :
    RRAt d.buf false d.off rr d'.off ∧ D.Ok d' ∧ d'.buf = d.buf ∧ d'.lim = d.lim ∧ d'.off ≤ d.lim := by
  obtain ⟨h1, k, _⟩ := decRR_sound' hd h
  exact ⟨h1, k.ok, k.buf, k.lim, k.off_le⟩

/-- **C09, exact framing of a record**: the RDATA of an accepted record occupies exactly RDLENGTH
octets, where RDLENGTH is the number stored in the two octets before it; the cursor ends there. -/
theorem rr_consumes_rdlength {d d' : D} {rr : RR} (hd : D.Ok d) (h : decRR d = .ok (rr, d')) :
    ∃ e rdlen, NameRefAt d.buf false d.off rr.name e ∧ BytesAt d.buf (e + 8) (beBytes 2 rdlen) ∧
      rdlen < 65536 ∧ RDataAt d.buf false (e + 10 + rdlen) rr.ty (e + 10) rr.rd ∧
      d'.off = e + 10 + rdlen :=
  (decRR_sound' hd h).2.2

/-! ## Questions -/

theorem decQuestion_sound {d d' : D} {q : Question} (hd : D.Ok d) (h : decQuestion d = .ok (q, d')) :
    QuestionAt d.buf false d.off q d'.off ∧ Keep d d' := by
  unfold decQuestion at h
  cases hnm : d.name with
  | error e => simp [hnm] at h
  | ok p0 =>
    obtain ⟨name, d0⟩ := p0
    simp only [hnm] at h
    obtain ⟨hops, h17, hna, hb, hl, hlt, hle, hsz, _, hutf, _⟩ := name_sound hnm
    have k0 : Keep d d0 := ⟨hb, hl, by omega, name_Ok hd hnm⟩
    have hnr : NameRefAt d.buf false d.off name d0.off := ⟨hops, hna, by simpa [maxHops] using h17, hutf, hsz⟩
    cases h1 : d0.num 2 with
    | error e => simp [h1] at h
    | ok p1 =>
      obtain ⟨qt, d1⟩ := p1
      simp only [h1] at h
      by_cases htk : qtypeKnown qt = true
      · simp only [htk, Bool.not_true, Bool.false_eq_true, if_false] at h
        cases h2 : d1.num 2 with
        | error e => simp [h2] at h
        | ok p2 =>
          obtain ⟨qc, d2⟩ := p2
          simp only [h2] at h
          by_cases hck : qclassKnown qc = true
          · simp only [hck, Bool.not_true, Bool.false_eq_true, if_false] at h
            injection h with h; injection h with ha hb2
            subst ha; subst hb2
            obtain ⟨_, _, hh, o2, b2, l2, ok2⟩ := hdr4_sound k0.ok h1 h2
            rw [k0.buf] at hh b2
            have kp : Keep d d2 := ⟨b2, l2.trans k0.lim, by omega, ok2⟩
            refine ⟨⟨d0.off, hnr, htk, hck, hh, o2, ?_⟩, kp⟩
            have := ok2.off_le; have := ok2.lim_le
            rw [← b2]; omega
          · have : qclassKnown qc = false := by simpa using hck
            simp [this] at h
      · have : qtypeKnown qt = false := by simpa using htk
        simp [this] at h

/-! ## Flags -/

theorem bitOf_add8 (b : Bool) (p : Nat) : bitOf b (p + 8) = bitOf b p * 256 := by
  cases b <;> simp [bitOf, Nat.pow_add]

theorem flags_hi : ∀ b : Fin 256, b.val =
    bitOf (decide (b.val &&& 128 ≠ 0)) 7 + ((b.val &&& 120) >>> 3) * 8 + bitOf (decide (b.val &&& 4 ≠ 0)) 2 +
      bitOf (decide (b.val &&& 2 ≠ 0)) 1 + bitOf (decide (b.val &&& 1 ≠ 0)) 0 := by
  decide +kernel

theorem flags_lo : ∀ b : Fin 256, b.val &&& 64 = 0 → (b.val &&& 15) < 16 ∧ b.val =
    bitOf (decide (b.val &&& 128 ≠ 0)) 7 + bitOf (decide (b.val &&& 32 ≠ 0)) 5 +
      bitOf (decide (b.val &&& 16 ≠ 0)) 4 + (b.val &&& 15) := by
  decide +kernel

/-- the flag word of the decoded flags is the two octets read -/
theorem flagsWord_eq (b1 b2 : Nat) (h1 : b1 < 256) (h2 : b2 < 256) (hz : b2 &&& 64 = 0) :
    flagsWord { qr := b1 &&& 128 ≠ 0, opcode := (b1 &&& 120) >>> 3, aa := b1 &&& 4 ≠ 0, tc := b1 &&& 2 ≠ 0,
                rd := b1 &&& 1 ≠ 0, ra := b2 &&& 128 ≠ 0, ad := b2 &&& 32 ≠ 0, cd := b2 &&& 16 ≠ 0,
                rcode := b2 &&& 15 } = b1 * 256 + b2 ∧ (b2 &&& 15) < 16 := by
  have hi := flags_hi ⟨b1, h1⟩
  obtain ⟨lo1, lo2⟩ := flags_lo ⟨b2, h2⟩ hz
  simp only at hi lo1 lo2
  refine ⟨?_, lo1⟩
  unfold flagsWord
  simp only
  have e15 : ∀ x, bitOf x 15 = bitOf x 7 * 256 := fun x => bitOf_add8 x 7
  have e10 : ∀ x, bitOf x 10 = bitOf x 2 * 256 := fun x => bitOf_add8 x 2
  have e9 : ∀ x, bitOf x 9 = bitOf x 1 * 256 := fun x => bitOf_add8 x 1
  have e8 : ∀ x, bitOf x 8 = bitOf x 0 * 256 := fun x => bitOf_add8 x 0
  rw [e15, e10, e9, e8]
  omega

/-- **Soundness of `Decoder::flags`**: the two octets at the cursor are the flag word of the result,
the opcode and rcode are supported code points, the Z bit is clear (it has no place in `flagsWord`). -/
theorem decFlags_sound {d d' : D} {f : Flags} (hd : D.Ok d) (h : decFlags d = .ok (f, d')) :
    BytesAt d.buf d.off (beBytes 2 (flagsWord f)) ∧ FlagsOk f ∧ d'.off = d.off + 2 ∧ Keep d d' := by
  unfold decFlags at h
  cases h1 : d.num 1 with
  | error e => simp [h1] at h
  | ok p1 =>
    obtain ⟨b1, d1⟩ := p1
    simp only [h1] at h
    obtain ⟨a1, a2, _, a3, _, k1⟩ := num_sound hd h1
    by_cases hop : opcodeKnown ((b1 &&& 120) >>> 3) = true
    · simp only [hop, Bool.not_true, Bool.false_eq_true, if_false] at h
      cases h2 : d1.num 1 with
      | error e => simp [h2] at h
      | ok p2 =>
        obtain ⟨b2, d2⟩ := p2
        simp only [h2] at h
        obtain ⟨c1, c2, _, c3, _, k2⟩ := num_sound k1.ok h2
        by_cases hz : b2 &&& 64 = 0
        · simp only [hz, ne_eq, not_true_eq_false, if_false] at h
          by_cases hrc : rcodeKnown (b2 &&& 15) = true
          · simp only [hrc, Bool.not_true, Bool.false_eq_true, if_false] at h
            injection h with h; injection h with ha hb
            subst hb
            have hb1 : b1 < 256 := by simpa using a1
            have hb2 : b2 < 256 := by simpa using c1
            obtain ⟨w1, w2⟩ := flagsWord_eq b1 b2 hb1 hb2 hz
            have hw : flagsWord f = b1 * 256 + b2 := by rw [← ha]; exact w1
            have hfo : FlagsOk f := by rw [← ha]; exact ⟨hop, hrc, w2⟩
            refine ⟨?_, hfo, by rw [c3, a3], k1.trans k2⟩
            rw [hw, Be.beBytes_two]
            have e1 : (b1 * 256 + b2) / 256 % 256 = b1 := by omega
            have e2 : (b1 * 256 + b2) % 256 = b2 := by omega
            rw [e1, e2]
            have f1 : beBytes 1 b1 = [UInt8.ofNat b1] := by rw [Be.beBytes_one, Nat.mod_eq_of_lt hb1]
            have f2 : beBytes 1 b2 = [UInt8.ofNat b2] := by rw [Be.beBytes_one, Nat.mod_eq_of_lt hb2]
            rw [f1] at a2; rw [f2, k1.buf, a3] at c2
            exact bytesAt_append_of (x := [UInt8.ofNat b1]) (y := [UInt8.ofNat b2]) a2 rfl c2
          · have : rcodeKnown (b2 &&& 15) = false := by simpa using hrc
            simp [this] at h
        · simp [hz] at h
    · have : opcodeKnown ((b1 &&& 120) >>> 3) = false := by simpa using hop
      simp [this] at h

/-! ## Non-vacuity -/

-- "a." IN A 1.2.3.4, TTL 5
private def exRR : Bytes := [1, 97, 0, 0, 1, 0, 1, 0, 0, 0, 5, 0, 4, 1, 2, 3, 4]

set_option maxRecDepth 8192 in
example : decRR (D.main exRR) =
    .ok ({ name := [[97]], ty := 1, cls := 1, ttl := 5, rd := .fields [.bytes [1, 2, 3, 4]] },
      { buf := exRR, off := 17, lim := 17, cost := 21 }) := rfl

set_option maxRecDepth 8192 in
example : RRAt exRR false 0 { name := [[97]], ty := 1, cls := 1, ttl := 5, rd := .fields [.bytes [1, 2, 3, 4]] } 17 :=
  (decRR_sound (d := D.main exRR) (D.main_Ok _ (by simp [exRR])) rfl).1

-- QR, opcode 0, RD, RA, rcode 3
example : decFlags (D.main [0x81, 0x83]) =
    .ok ({ qr := true, opcode := 0, aa := false, tc := false, rd := true, ra := true, ad := false, cd := false,
           rcode := 3 }, { buf := [0x81, 0x83], off := 2, lim := 2, cost := 2 }) := rfl

end Sound
