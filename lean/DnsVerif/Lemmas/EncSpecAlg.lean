import DnsVerif.Lemmas.EncName

/-! # A small writer algebra for the encoder ⇒ wire-grammar proofs (C05 / C06 / C18)

Every routine of `Model/Enc.lean` is a composition of `put`, the two name writers, sequencing,
folding over a list and the length-prefixed window (`create_length_index … set_length_index`, and
the one-octet APL variant). `WSpec w Φ` says: from ANY encoder state satisfying the compression-table
invariant `EInv S e`, a successful run of `w` only appends, re-establishes the invariant with all the
new octets frozen, and `Φ buf' start end` holds in every buffer `buf'` that agrees with the new
output on the frozen positions. One generic lemma per combinator; the per-type proofs are then
compositions followed by a conversion of the nested description into the relation of `Spec/Wire`.

Ported and generalised from `design_prototypes/Proto/Core/Writer.lean`. -/

namespace EncSpec

/-! ## `BytesAt` -/

theorem bytesAt_nil (buf : Bytes) (off : Nat) : BytesAt buf off [] := fun _ h => by simp at h

theorem bytesAt_append {buf : Bytes} {off : Nat} {x y : Bytes}
    (hx : BytesAt buf off x) (hy : BytesAt buf (off + x.length) y) : BytesAt buf off (x ++ y) := by
  intro i hi
  by_cases h : i < x.length
  · rw [hx i h, List.getElem?_append_left h]
  · simp at hi
    have := hy (i - x.length) (by omega)
    rw [show off + x.length + (i - x.length) = off + i by omega] at this
    rw [this, List.getElem?_append_right (by omega)]

/-- the form that is convenient after `seq`: the second part starts at a named offset -/
theorem bytesAt_append' {buf : Bytes} {off m : Nat} {x y : Bytes}
    (hx : BytesAt buf off x) (hm : m = off + x.length) (hy : BytesAt buf m y) :
    BytesAt buf off (x ++ y) := bytesAt_append hx (hm ▸ hy)

theorem bytesAt_left {buf : Bytes} {off : Nat} {x y : Bytes} (h : BytesAt buf off (x ++ y)) :
    BytesAt buf off x := by
  intro i hi
  rw [h i (by simp; omega), List.getElem?_append_left hi]

theorem bytesAt_right {buf : Bytes} {off : Nat} {x y : Bytes} (h : BytesAt buf off (x ++ y)) :
    BytesAt buf (off + x.length) y := by
  intro i hi
  have := h (x.length + i) (by simp; omega)
  rw [show off + x.length + i = off + (x.length + i) by omega, this,
    List.getElem?_append_right (by omega)]
  congr 1; omega

theorem bytesAt_head {buf : Bytes} {off : Nat} {b : UInt8} {x : Bytes} (h : BytesAt buf off (b :: x)) :
    buf[off]? = some b := by
  have := h 0 (by simp)
  simpa using this

theorem bytesAt_singleton {buf : Bytes} {off : Nat} {b : UInt8} (h : buf[off]? = some b) :
    BytesAt buf off [b] := by
  intro i hi
  have : i = 0 := by simpa using hi
  subst this
  simpa using h

/-- a buffer that has `a` as a prefix agrees with `a` on every set of positions inside `a` -/
theorem agree_of_prefix {S : Nat → Prop} {a b : Bytes} (hp : a <+: b) (hb : ∀ i, S i → i < a.length) :
    Agree S a b := by
  obtain ⟨t, rfl⟩ := hp
  exact Agree.append S a t hb

/-- conversely, agreeing on ALL positions of `a` means having `a` as a prefix -/
theorem prefix_of_agree {a b : Bytes} (h : Agree (fun i => i < a.length) a b) : a <+: b := by
  refine ⟨b.drop a.length, ?_⟩
  apply List.ext_getElem?
  intro i
  by_cases hi : i < a.length
  · rw [List.getElem?_append_left hi, h.2 i hi]
  · rw [List.getElem?_append_right (by omega), List.getElem?_drop]
    congr 1; omega

/-! ## Writers and their specifications -/

abbrev Writer := Enc → Except EErr Enc

def WSpec (w : Writer) (Φ : Bytes → Nat → Nat → Prop) : Prop :=
  ∀ (S : Nat → Prop) (e e' : Enc), EInv S e → w e = .ok e' →
    ∃ x, e'.out = e.out ++ x ∧ EInv (ext S e.out.length e'.out.length) e' ∧
      ∀ buf', Agree (ext S e.out.length e'.out.length) e'.out buf' → Φ buf' e.out.length e'.out.length

theorem WSpec.conseq {w : Writer} {Φ Ψ : Bytes → Nat → Nat → Prop} (h : WSpec w Φ)
    (hi : ∀ buf s t, s ≤ t → t ≤ buf.length → Φ buf s t → Ψ buf s t) : WSpec w Ψ := by
  intro S e e' hinv hw
  obtain ⟨x, hx, hinv', hf⟩ := h S e e' hinv hw
  refine ⟨x, hx, hinv', fun buf' ha => hi _ _ _ (by rw [hx]; simp) ha.1 (hf buf' ha)⟩

/-- the specification unfolded: what one successful run gives -/
theorem WSpec.run {w : Writer} {Φ : Bytes → Nat → Nat → Prop} (hs : WSpec w Φ) {S : Nat → Prop}
    {e e' : Enc} (hinv : EInv S e) (h : w e = .ok e') :
    e.out <+: e'.out ∧ EInv (ext S e.out.length e'.out.length) e' ∧
    ∀ buf', Agree (ext S e.out.length e'.out.length) e'.out buf' → Φ buf' e.out.length e'.out.length := by
  obtain ⟨x, hx, hinv', hf⟩ := hs S e e' hinv h
  exact ⟨⟨x, hx.symm⟩, hinv', hf⟩

theorem WSpec.of_eq {w w' : Writer} {Φ : Bytes → Nat → Nat → Prop} (h : ∀ e, w e = w' e)
    (hs : WSpec w' Φ) : WSpec w Φ := fun S e e' hinv hw => hs S e e' hinv (h e ▸ hw)

def wPut (x : Bytes) : Writer := fun e => .ok (e.put x)

def wSeq (w1 w2 : Writer) : Writer := fun e =>
  match w1 e with
  | .error err => .error err
  | .ok e => w2 e

/-- placeholder `ph`; body; back-patch by `fin` at the placeholder's offset -/
def wWin (ph : Bytes) (fin : Enc → Nat → Except EErr Enc) (body : Writer) : Writer := fun e =>
  match body (e.put ph) with
  | .error err => .error err
  | .ok e4 => fin e4 e.out.length

/-- `create_length_index`; body; `set_length_index` -/
def wWin16 (body : Writer) : Writer := wWin [0, 0] setLen body

/-- `create_address_length_index`; body; `set_address_length_index` -/
def wWin8 (neg : Bool) (body : Writer) : Writer := wWin [0] (fun e li => setAddrLen e neg li) body

def wSkip : Writer := fun e => .ok e

theorem spec_skip : WSpec wSkip (fun _ s t => t = s) := by
  intro S e e' hinv h
  simp [wSkip] at h; subst h
  exact ⟨[], by simp, by rw [ext_self]; exact hinv, fun _ _ => rfl⟩

theorem spec_put (x : Bytes) : WSpec (wPut x) (fun buf s t => t = s + x.length ∧ BytesAt buf s x) := by
  intro S e e' hinv h
  simp [wPut] at h; subst h
  have hl : (e.put x).out.length = e.out.length + x.length := by simp [Enc.put]
  refine ⟨x, rfl, by rw [hl]; exact EInv.put x hinv, ?_⟩
  intro buf' ha
  rw [hl] at ha ⊢
  exact ⟨rfl, bytesAt_put ha⟩

theorem spec_seq {w1 w2 : Writer} {Φ1 Φ2 : Bytes → Nat → Nat → Prop}
    (h1 : WSpec w1 Φ1) (h2 : WSpec w2 Φ2) :
    WSpec (wSeq w1 w2) (fun buf s t => ∃ m, s ≤ m ∧ m ≤ t ∧ Φ1 buf s m ∧ Φ2 buf m t) := by
  intro S e e' hinv h
  unfold wSeq at h
  split at h; · simp at h
  rename_i e1 he1
  obtain ⟨x1, hx1, hinv1, hf1⟩ := h1 S e e1 hinv he1
  obtain ⟨x2, hx2, hinv2, hf2⟩ := h2 _ e1 e' hinv1 h
  have hL1 : e.out.length ≤ e1.out.length := by rw [hx1]; simp
  have hL2 : e1.out.length ≤ e'.out.length := by rw [hx2]; simp
  rw [ext_ext S hL1 hL2] at hinv2 hf2
  refine ⟨x1 ++ x2, by rw [hx2, hx1]; simp, hinv2, ?_⟩
  intro buf' ha
  have ha1 : Agree (ext S e.out.length e1.out.length) e1.out buf' := by
    have ha2 : Agree (ext S e.out.length e'.out.length) (e1.out ++ x2) buf' := by rw [← hx2]; exact ha
    exact Agree.mono (fun i hi => by
      rcases hi with h | h
      · exact Or.inl h
      · exact Or.inr ⟨h.1, by omega⟩) hinv1.1 ha2
  exact ⟨e1.out.length, hL1, hL2, hf1 buf' ha1, hf2 buf' ha⟩

/-! ## Lists -/

/-- a chain of items filling `[s, lim)` exactly -/
inductive ChainAt {α : Type} (Φ : α → Bytes → Nat → Nat → Prop) (buf : Bytes) (lim : Nat) :
    Nat → List α → Prop
  | nil : ChainAt Φ buf lim lim []
  | cons {s m a as} : s ≤ m → m ≤ lim → Φ a buf s m → ChainAt Φ buf lim m as →
      ChainAt Φ buf lim s (a :: as)

/-- the list writers of the model (`encCstrs`, `encOptions`, `encApItems`, `encSvcParams`,
`encQuestions`, `encRRs`) all have this shape -/
theorem spec_list {α : Type} (f : Enc → List α → Except EErr Enc) (item : Enc → α → Except EErr Enc)
    (hnil : ∀ e, f e [] = .ok e)
    (hcons : ∀ e a as, f e (a :: as) = match item e a with
      | .error err => .error err
      | .ok e => f e as)
    {Φ : α → Bytes → Nat → Nat → Prop} {P : α → Prop}
    (hitem : ∀ a, P a → WSpec (fun e => item e a) (Φ a)) :
    ∀ (as : List α), (∀ a ∈ as, P a) →
      WSpec (fun e => f e as) (fun buf s t => ChainAt Φ buf t s as) := by
  intro as
  induction as with
  | nil =>
    intro _ S e e' hinv h
    simp only [hnil] at h
    cases h
    exact ⟨[], by simp, by rw [ext_self]; exact hinv, fun _ _ => .nil⟩
  | cons a as ih =>
    intro hall
    have hs := spec_seq (hitem a (hall a (by simp))) (ih (fun b hb => hall b (by simp [hb])))
    intro S e e' hinv h
    obtain ⟨x, hx, hinv', hf⟩ := hs S e e' hinv (by simpa only [wSeq, hcons] using h)
    refine ⟨x, hx, hinv', fun buf' ha => ?_⟩
    obtain ⟨m, h1, h2, hΦ, hc⟩ := hf buf' ha
    exact .cons h1 h2 hΦ hc

/-! ## Back-patched windows -/

/-- a back-patcher overwrites `w` octets at `li` by some `x` with `Q (window size) x` -/
def Patcher (fin : Enc → Nat → Except EErr Enc) (w : Nat) (Q : Nat → Bytes → Prop) : Prop :=
  ∀ e e' li, fin e li = .ok e' → li + w ≤ e.out.length ∧
    ∃ x, x.length = w ∧ Q (e.out.length - (li + w)) x ∧ e' = { e with out := patch e.out li x }

theorem spec_win {ph : Bytes} {fin : Enc → Nat → Except EErr Enc} {Q : Nat → Bytes → Prop}
    {body : Writer} {Φ : Bytes → Nat → Nat → Prop} (hp : Patcher fin ph.length Q) (hb : WSpec body Φ) :
    WSpec (wWin ph fin body)
      (fun buf s t => ∃ x, x.length = ph.length ∧ s + ph.length ≤ t ∧ Q (t - (s + ph.length)) x ∧
        BytesAt buf s x ∧ Φ buf (s + ph.length) t) := by
  intro S e e' hinv h
  unfold wWin at h
  split at h; · simp at h
  rename_i e4 h4
  have hinv3 := EInv.put_unfrozen ph hinv
  obtain ⟨x4, hx4, hinv4, hf4⟩ := hb S _ e4 hinv3 h4
  have hL3 : (e.put ph).out.length = e.out.length + ph.length := by simp [Enc.put]
  have hL4 : e4.out.length = e.out.length + ph.length + x4.length := by
    rw [hx4, List.length_append, hL3]
  rw [hL3] at hinv4 hf4
  obtain ⟨_, x, hxl, hQ, he'⟩ := hp e4 e' e.out.length h
  subst he'
  simp only
  have hfit : e.out.length + x.length ≤ e4.out.length := by omega
  have hBl := patch_length e4.out e.out.length x hfit
  have hS4 : ∀ i, ext S (e.out.length + ph.length) e4.out.length i →
      i < e.out.length ∨ e.out.length + x.length ≤ i := by
    intro i hi
    rcases hi with hi | hi
    · exact Or.inl (hinv.1 i hi)
    · exact Or.inr (by omega)
  have hAgreeB : Agree (ext S (e.out.length + ph.length) e4.out.length) e4.out
      (patch e4.out e.out.length x) := by
    refine ⟨by rw [hBl]; omega, ?_⟩
    intro i hi
    exact patch_get_out _ _ _ hfit i (hS4 i hi)
  have hsub : ∀ i, ext S (e.out.length + ph.length) e4.out.length i →
      ext S e.out.length e4.out.length i := by
    intro i hi
    rcases hi with hi | hi
    · exact Or.inl hi
    · exact Or.inr ⟨by omega, hi.2⟩
  rw [hBl]
  refine ⟨(patch e4.out e.out.length x).drop e.out.length, ?_, ⟨?_, ?_⟩, ?_⟩
  · -- the patched buffer still starts with the old output
    apply List.ext_getElem?
    intro i
    by_cases hi : i < e.out.length
    · rw [patch_get_out _ _ _ hfit i (Or.inl hi), List.getElem?_append_left hi, hx4]
      simp only [Enc.put, List.append_assoc]
      rw [List.getElem?_append_left hi]
    · rw [List.getElem?_append_right (by omega), List.getElem?_drop]
      congr 1; omega
  · intro i hi
    rw [hBl]
    rcases hi with hi | hi
    · have := hinv.1 i hi; omega
    · exact hi.2
  · intro p hp
    exact Good.grow hsub (Good.patch hBl (fun i hi => hAgreeB.2 i hi) (hinv4.2 p hp))
  · intro buf' ha
    have ha4 := Agree.trans hsub hAgreeB ha
    refine ⟨x, hxl, by omega, ?_, ?_, hf4 buf' ha4⟩
    · exact hQ
    · intro j hj
      rw [ha.2 (e.out.length + j) (Or.inr ⟨by omega, by omega⟩)]
      exact patch_get_in _ _ _ hfit j hj

/-! ## The two back-patchers of the model -/

/-- `set_length_index` on success: the window `[li + 2, end)` has at most 65535 octets and its
size is written big-endian into the two placeholder octets; nothing else changes -/
theorem setLen_ok {e e' : Enc} {li : Nat} (h : setLen e li = .ok e') :
    li + 2 ≤ e.out.length ∧ e.out.length - (li + 2) ≤ 65535 ∧
    e' = { e with out := patch e.out li (beBytes 2 (e.out.length - (li + 2))) } := by
  unfold setLen at h
  simp only at h
  by_cases h1 : e.out.length < li + 2
  · simp [h1] at h
  · by_cases h2 : e.out.length - (li + 2) > 65535
    · simp [h1, h2] at h
    · have h3 : li + 2 - 1 < e.out.length := by omega
      simp only [h1, h2, h3, if_true, if_false] at h
      cases h
      exact ⟨by omega, by omega, rfl⟩

/-- … and it fails exactly when the window exceeds 65535 octets (given that the placeholder exists) -/
theorem setLen_error_iff {e : Enc} {li : Nat} (hli : li + 2 ≤ e.out.length) (err : EErr) :
    setLen e li = .error err ↔ (65535 < e.out.length - (li + 2) ∧ err = .length) := by
  have h1 : ¬ e.out.length < li + 2 := by omega
  unfold setLen
  simp only
  rw [if_neg h1]
  by_cases h2 : e.out.length - (li + 2) > 65535
  · rw [if_pos h2]
    constructor
    · intro h; injection h with h; exact ⟨h2, h.symm⟩
    · rintro ⟨_, rfl⟩; rfl
  · have h3 : li + 2 - 1 < e.out.length := by omega
    rw [if_neg h2, if_pos h3]
    constructor
    · intro h; cases h
    · rintro ⟨h, _⟩; exact absurd h h2

theorem setLen_total {e : Enc} {li : Nat} (hli : li + 2 ≤ e.out.length)
    (hsz : e.out.length - (li + 2) ≤ 65535) : ∃ e', setLen e li = .ok e' := by
  cases h : setLen e li with
  | ok e' => exact ⟨e', rfl⟩
  | error err => have := ((setLen_error_iff hli err).mp h).1; omega

theorem setLen_patcher : Patcher setLen ([0, 0] : Bytes).length
    (fun len x => len ≤ 65535 ∧ x = beBytes 2 len) := by
  intro e e' li h
  obtain ⟨h1, h2, h3⟩ := setLen_ok h
  exact ⟨h1, _, by simp, ⟨h2, rfl⟩, h3⟩

/-- **`set_length_index` as a step on the invariant**: if the two placeholder octets at `li` are not
frozen, the patch keeps the invariant and the placeholder may be frozen afterwards; the patched
octets are the big-endian window size, all other octets are unchanged. -/
theorem setLen_spec {S : Nat → Prop} {e e' : Enc} {li : Nat} (hinv : EInv S e)
    (hfree : ∀ j, S j → j < li ∨ li + 2 ≤ j) (h : setLen e li = .ok e') :
    e'.out = patch e.out li (beBytes 2 (e.out.length - li - 2)) ∧ e'.idx = e.idx ∧
    e'.out.length = e.out.length ∧ e.out.length - li - 2 ≤ 65535 ∧
    EInv (ext S li (li + 2)) e' ∧
    BytesAt e'.out li (beBytes 2 (e.out.length - li - 2)) ∧
    (∀ j, j < li ∨ li + 2 ≤ j → e'.out[j]? = e.out[j]?) := by
  obtain ⟨h1, h2, h3⟩ := setLen_ok h
  subst h3
  have hfit : li + (beBytes 2 (e.out.length - (li + 2))).length ≤ e.out.length := by simp; omega
  have hsub : e.out.length - li - 2 = e.out.length - (li + 2) := by omega
  rw [hsub]
  refine ⟨rfl, rfl, patch_length _ _ _ hfit, h2, ?_, ?_, ?_⟩
  · have := EInv.patch_freeze (x := beBytes 2 (e.out.length - (li + 2))) hinv hfit
      (by simpa using hfree)
    simpa using this
  · intro j hj
    exact patch_get_in _ _ _ hfit j hj
  · intro j hj
    exact patch_get_out _ _ _ hfit j (by simpa using hj)

/-- the APL length / negation octet -/
def aplOctet (neg : Bool) (len : Nat) : UInt8 := UInt8.ofNat (if neg then len ||| 128 else len)

theorem setAddrLen_ok {e e' : Enc} {neg : Bool} {ali : Nat} (h : setAddrLen e neg ali = .ok e') :
    ali + 1 ≤ e.out.length ∧ e.out.length - (ali + 1) < 128 ∧
    e' = { e with out := patch e.out ali [aplOctet neg (e.out.length - (ali + 1))] } := by
  unfold setAddrLen at h
  simp only at h
  by_cases h1 : e.out.length < ali + 1
  · simp [h1] at h
  · by_cases h2 : e.out.length - (ali + 1) > 255
    · simp [h1, h2] at h
    · by_cases h3 : e.out.length - (ali + 1) ≥ 128
      · simp [h1, h2, h3] at h
      · have h4 : ali + 1 - 1 < e.out.length := by omega
        simp only [h1, h2, h3, h4, if_true, if_false] at h
        cases h
        exact ⟨by omega, by omega, rfl⟩

/-- it fails exactly when the address part has 128 octets or more (`.length` above 255) -/
theorem setAddrLen_error_iff {e : Enc} {neg : Bool} {ali : Nat} (hli : ali + 1 ≤ e.out.length) (err : EErr) :
    setAddrLen e neg ali = .error err ↔
      ((255 < e.out.length - (ali + 1) ∧ err = .length) ∨
       (128 ≤ e.out.length - (ali + 1) ∧ e.out.length - (ali + 1) ≤ 255 ∧ err = .aplAddressLength)) := by
  have h1 : ¬ e.out.length < ali + 1 := by omega
  unfold setAddrLen
  simp only
  rw [if_neg h1]
  by_cases h2 : e.out.length - (ali + 1) > 255
  · rw [if_pos h2]
    constructor
    · intro h; injection h with h; exact .inl ⟨h2, h.symm⟩
    · rintro (⟨_, rfl⟩ | ⟨_, h, _⟩)
      · rfl
      · exact absurd h2 (by omega)
  · rw [if_neg h2]
    by_cases h3 : e.out.length - (ali + 1) ≥ 128
    · rw [if_pos h3]
      constructor
      · intro h; injection h with h; exact .inr ⟨h3, by omega, h.symm⟩
      · rintro (⟨h, _⟩ | ⟨_, _, rfl⟩)
        · exact absurd h h2
        · rfl
    · have h4 : ali + 1 - 1 < e.out.length := by omega
      rw [if_neg h3, if_pos h4]
      constructor
      · intro h; cases h
      · rintro (⟨h, _⟩ | ⟨h, _, _⟩)
        · exact absurd h h2
        · exact absurd h h3

theorem setAddrLen_patcher (neg : Bool) : Patcher (fun e li => setAddrLen e neg li) ([0] : Bytes).length
    (fun len x => len < 128 ∧ x = [aplOctet neg len]) := by
  intro e e' li h
  obtain ⟨h1, h2, h3⟩ := setAddrLen_ok h
  exact ⟨h1, _, by simp, ⟨h2, rfl⟩, h3⟩

/-- **`set_address_length_index` as a step on the invariant** -/
theorem setAddrLen_spec {S : Nat → Prop} {e e' : Enc} {neg : Bool} {ali : Nat} (hinv : EInv S e)
    (hfree : ∀ j, S j → j < ali ∨ ali + 1 ≤ j) (h : setAddrLen e neg ali = .ok e') :
    e'.out = patch e.out ali [aplOctet neg (e.out.length - ali - 1)] ∧ e'.idx = e.idx ∧
    e'.out.length = e.out.length ∧ e.out.length - ali - 1 < 128 ∧
    EInv (ext S ali (ali + 1)) e' ∧
    e'.out[ali]? = some (aplOctet neg (e.out.length - ali - 1)) ∧
    (∀ j, j < ali ∨ ali + 1 ≤ j → e'.out[j]? = e.out[j]?) := by
  obtain ⟨h1, h2, h3⟩ := setAddrLen_ok h
  subst h3
  have hfit : ali + [aplOctet neg (e.out.length - (ali + 1))].length ≤ e.out.length := by simp; omega
  have hsub : e.out.length - ali - 1 = e.out.length - (ali + 1) := by omega
  rw [hsub]
  refine ⟨rfl, rfl, patch_length _ _ _ hfit, h2, ?_, ?_, ?_⟩
  · have := EInv.patch_freeze (x := [aplOctet neg (e.out.length - (ali + 1))]) hinv hfit
      (by simpa using hfree)
    simpa using this
  · have := patch_get_in e.out ali [aplOctet neg (e.out.length - (ali + 1))] hfit 0 (by simp)
    simpa using this
  · intro j hj
    exact patch_get_out _ _ _ hfit j (by simpa using hj)

/-- RDLENGTH of a 3-octet RDATA is patched into the placeholder at offset 1; a 65536-octet window fails -/
example : setLen { out := [9, 0, 0, 7, 7, 7] } 1 = .ok { out := [9, 0, 3, 7, 7, 7] } := rfl
example (out : Bytes) (h : out.length = 2 + 65536) : setLen { out := out } 0 = .error .length :=
  (setLen_error_iff (by simp; omega) _).mpr ⟨by simp; omega, rfl⟩
example : setAddrLen { out := [0, 1, 8, 0, 10] } true 3 = .ok { out := [0, 1, 8, 129, 10] } := rfl

/-- two-octet length window -/
theorem spec_win16 {body : Writer} {Φ : Bytes → Nat → Nat → Prop} (hb : WSpec body Φ) :
    WSpec (wWin16 body)
      (fun buf s t => ∃ len, len ≤ 65535 ∧ BytesAt buf s (beBytes 2 len) ∧ t = s + 2 + len ∧
        Φ buf (s + 2) t) := by
  refine (spec_win setLen_patcher hb).conseq ?_
  rintro buf s t _ _ ⟨x, _, hle, ⟨hlen, rfl⟩, hx, hΦ⟩
  simp only [List.length_cons, List.length_nil] at hle hlen hx hΦ
  exact ⟨t - (s + 2), hlen, hx, by omega, hΦ⟩

/-- one-octet length window with the negation flag in the top bit -/
theorem spec_win8 (neg : Bool) {body : Writer} {Φ : Bytes → Nat → Nat → Prop} (hb : WSpec body Φ) :
    WSpec (wWin8 neg body)
      (fun buf s t => ∃ len, len < 128 ∧ buf[s]? = some (aplOctet neg len) ∧ t = s + 1 + len ∧
        Φ buf (s + 1) t) := by
  refine (spec_win (setAddrLen_patcher neg) hb).conseq ?_
  rintro buf s t _ _ ⟨x, _, hle, ⟨hlen, rfl⟩, hx, hΦ⟩
  simp only [List.length_cons, List.length_nil] at hle hlen hx hΦ
  exact ⟨t - (s + 1), hlen, bytesAt_head hx, by omega, hΦ⟩

/-! ## Names -/

/-- names that are equal up to ASCII case have the same size … -/
theorem lower_sz : ∀ {a b : Name}, a.lower = b.lower → Name.sz a = Name.sz b := by
  intro a
  induction a with
  | nil => intro b h; cases b <;> simp [Name.lower] at h ⊢
  | cons l r ih =>
    intro b h
    cases b with
    | nil => simp [Name.lower] at h
    | cons l' r' =>
      simp only [Name.lower, List.map_cons, List.cons.injEq] at h
      have h1 : l.length = l'.length := by simpa [Label.lower] using congrArg List.length h.1
      rw [Name.sz_cons, Name.sz_cons, ih (b := r') h.2, h1]

end EncSpec
