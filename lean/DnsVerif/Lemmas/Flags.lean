import DnsVerif.Model.Dec
import DnsVerif.Model.Enc
import DnsVerif.Spec.Iana
import DnsVerif.Lemmas.Tables

/-! # Helper lemmas for the flag-word part of C11

The two flag octets are independent, so every bit-level fact is a statement about ONE octet and is
checked by `decide +kernel` over its 256 values; `decodeFlags_spec` lifts them to a closed form of
`decodeFlags` on every input of at least two octets. (Evaluating `decodeFlags` itself under
`decide +kernel` for all 65 536 pairs was measured at about 4 minutes, hence this route.) -/

open Iana

namespace C11

/-- the flag record the RFC 1035 §4.1.1 layout assigns to a flag word (arithmetic bit positions) -/
def specFlags (b1 b2 : UInt8) : Flags :=
  { qr := bitOf b1 7, opcode := opcodeField b1, aa := bitOf b1 2, tc := bitOf b1 1, rd := bitOf b1 0,
    ra := bitOf b2 7, ad := bitOf b2 5, cd := bitOf b2 4, rcode := rcodeField b2 }

/-! ## Per-octet facts: masks and shifts of `Decoder::flags` versus arithmetic bit positions -/

theorem dec_oct1 : ∀ b : UInt8,
    (b.toNat &&& 0b01111000) >>> 3 = opcodeField b ∧
    decide (b.toNat &&& 0b10000000 ≠ 0) = bitOf b 7 ∧
    decide (b.toNat &&& 0b100 ≠ 0) = bitOf b 2 ∧
    decide (b.toNat &&& 0b10 ≠ 0) = bitOf b 1 ∧
    decide (b.toNat &&& 1 ≠ 0) = bitOf b 0 := by decide +kernel

theorem dec_oct2 : ∀ b : UInt8,
    decide (b.toNat &&& 0b10000000 ≠ 0) = bitOf b 7 ∧
    (b.toNat &&& 0b01000000 ≠ 0 ↔ bitOf b 6 = true) ∧
    decide (b.toNat &&& 0b00100000 ≠ 0) = bitOf b 5 ∧
    decide (b.toNat &&& 0b00010000 ≠ 0) = bitOf b 4 ∧
    b.toNat &&& 0b00001111 = rcodeField b := by decide +kernel

/-! ## Per-octet facts: `Encoder::flags` -/

def encOct1 (qr aa tc rd : Bool) (op : Nat) : UInt8 :=
  UInt8.ofNat (b2n qr 128 ||| (op <<< 3) % 256 ||| b2n aa 4 ||| b2n tc 2 ||| b2n rd 1)
def encOct2 (ra ad cd : Bool) (rc : Nat) : UInt8 :=
  UInt8.ofNat (b2n ra 128 ||| b2n ad 32 ||| b2n cd 16 ||| rc % 256)

theorem encodeFlags_eq (f : Flags) :
    encodeFlags f = [encOct1 f.qr f.aa f.tc f.rd f.opcode, encOct2 f.ra f.ad f.cd f.rcode] := rfl

/-- re-encoding the fields read from octet 1 gives octet 1 back -/
theorem reenc_oct1 : ∀ b : UInt8,
    encOct1 (bitOf b 7) (bitOf b 2) (bitOf b 1) (bitOf b 0) (opcodeField b) = b := by decide +kernel

/-- re-encoding the fields read from octet 2 gives octet 2 back when the Z bit is clear -/
theorem reenc_oct2 : ∀ b : UInt8, bitOf b 6 = false →
    encOct2 (bitOf b 7) (bitOf b 5) (bitOf b 4) (rcodeField b) = b := by decide +kernel

/-- reading octet 1 of an encoding gives the fields back, for every four-bit opcode -/
theorem encdec_oct1 : ∀ qr aa tc rd : Bool, ∀ op, op < 16 →
    opcodeField (encOct1 qr aa tc rd op) = op ∧ bitOf (encOct1 qr aa tc rd op) 7 = qr ∧
    bitOf (encOct1 qr aa tc rd op) 2 = aa ∧ bitOf (encOct1 qr aa tc rd op) 1 = tc ∧
    bitOf (encOct1 qr aa tc rd op) 0 = rd := by decide +kernel

/-- reading octet 2 of an encoding gives the fields back, for every four-bit rcode -/
theorem encdec_oct2 : ∀ ra ad cd : Bool, ∀ rc, rc < 16 →
    bitOf (encOct2 ra ad cd rc) 7 = ra ∧ bitOf (encOct2 ra ad cd rc) 6 = false ∧
    bitOf (encOct2 ra ad cd rc) 5 = ad ∧ bitOf (encOct2 ra ad cd rc) 4 = cd ∧
    rcodeField (encOct2 ra ad cd rc) = rc := by decide +kernel

/-- K3: an extended rcode 16..31 is OR-ed unmasked into octet 2: it sets the CD bit -/
theorem encdec_oct2_ext : ∀ ra ad cd : Bool, ∀ k, k < 16 →
    bitOf (encOct2 ra ad cd (16 + k)) 7 = ra ∧ bitOf (encOct2 ra ad cd (16 + k)) 6 = false ∧
    bitOf (encOct2 ra ad cd (16 + k)) 5 = ad ∧ bitOf (encOct2 ra ad cd (16 + k)) 4 = true ∧
    rcodeField (encOct2 ra ad cd (16 + k)) = k := by decide +kernel

/-! ## Supported opcodes / rcodes as explicit sets (breaks when the crate's enums change) -/

theorem opcodeKnown_iff (n : Nat) : opcodeKnown n = true ↔ n ∈ [0, 1, 2, 4, 5, 6] := by
  unfold opcodeKnown inTable Gen.enumOpcode
  simp only [List.any_cons, List.any_nil, beq_iff_eq, Bool.or_eq_true, Bool.or_false, List.mem_cons,
    List.not_mem_nil, or_false]
  omega

theorem rcodeKnown_iff (n : Nat) : rcodeKnown n = true ↔ n ≤ 11 ∨ (16 ≤ n ∧ n ≤ 23) := by
  unfold rcodeKnown inTable Gen.enumRCode
  simp only [List.any_cons, List.any_nil, beq_iff_eq, Bool.or_eq_true, Bool.or_false]
  omega

theorem opcodeKnown_lt {n : Nat} (h : opcodeKnown n = true) : n < 16 := by
  have := (opcodeKnown_iff n).1 h; simp at this; omega

/-! ## Closed form of `decodeFlags` -/

theorem num_at0 (b1 : UInt8) (r : Bytes) (lim c : Nat) (h : 1 ≤ lim) :
    ({ buf := b1 :: r, off := 0, lim := lim, cost := c } : D).num 1 =
      .ok (b1.toNat, { buf := b1 :: r, off := 1, lim := lim, cost := c + 1 }) := by
  simp [D.num, D.read, beVal, h]

theorem num_at1 (b1 b2 : UInt8) (r : Bytes) (lim c : Nat) (h : 2 ≤ lim) :
    ({ buf := b1 :: b2 :: r, off := 1, lim := lim, cost := c } : D).num 1 =
      .ok (b2.toNat, { buf := b1 :: b2 :: r, off := 2, lim := lim, cost := c + 1 }) := by
  simp [D.num, D.read, beVal, h]

/-- On every input of at least two octets `decodeFlags` looks at the first two octets only, checks
opcode, then Z, then rcode, and otherwise returns the fields at their RFC bit positions. -/
theorem decodeFlags_spec (b1 b2 : UInt8) (rest : Bytes) :
    decodeFlags (b1 :: b2 :: rest) =
      if opcodeKnown (opcodeField b1) = false then .error (.opcode (opcodeField b1))
      else if bitOf b2 6 = true then .error .zNotZeroes
      else if rcodeKnown (rcodeField b2) = false then .error (.rcode (rcodeField b2))
      else .ok (specFlags b1 b2, consumed2 (b1 :: b2 :: rest)) := by
  obtain ⟨h1, h2, h3, h4, h5⟩ := dec_oct1 b1
  obtain ⟨k1, k2, k3, k4, k5⟩ := dec_oct2 b2
  have n0 := num_at0 b1 (b2 :: rest) (rest.length + 1 + 1) 0 (by omega)
  have n1 := num_at1 b1 b2 rest (rest.length + 1 + 1) (0 + 1) (by omega)
  unfold decodeFlags decFlags
  simp only [D.main, List.length_cons, n0, n1, h1, h2, h3, h4, h5, k1, k2, k3, k4, k5]
  cases opcodeKnown (opcodeField b1) <;> cases bitOf b2 6 <;> cases rcodeKnown (rcodeField b2) <;>
    simp [specFlags, consumed2]

/-- inversion of a successful `decodeFlags` -/
theorem decodeFlags_ok {b1 b2 : UInt8} {rest : Bytes} {f : Flags} {d : D}
    (h : decodeFlags (b1 :: b2 :: rest) = .ok (f, d)) :
    opcodeKnown (opcodeField b1) = true ∧ bitOf b2 6 = false ∧ rcodeKnown (rcodeField b2) = true ∧
    f = specFlags b1 b2 ∧ d = consumed2 (b1 :: b2 :: rest) := by
  rw [decodeFlags_spec] at h
  cases h1 : opcodeKnown (opcodeField b1) <;> cases h2 : bitOf b2 6 <;>
    cases h3 : rcodeKnown (rcodeField b2) <;> simp [h1, h2, h3] at h
  exact ⟨rfl, rfl, rfl, h.1.symm, h.2.symm⟩

/-- the success case of `decodeFlags_spec` -/
theorem decodeFlags_of_ok {b1 b2 : UInt8} (rest : Bytes) (h1 : opcodeKnown (opcodeField b1) = true)
    (h2 : bitOf b2 6 = false) (h3 : rcodeKnown (rcodeField b2) = true) :
    decodeFlags (b1 :: b2 :: rest) = .ok (specFlags b1 b2, consumed2 (b1 :: b2 :: rest)) := by
  rw [decodeFlags_spec]; simp [h1, h2, h3]

/-! ## Inputs shorter than two octets -/

theorem decodeFlags_nil : decodeFlags [] = .error .notEnoughBytes := by
  simp [decodeFlags, decFlags, D.main, D.num, D.read]

/-- one octet: the opcode is checked before the second octet is requested -/
theorem decodeFlags_one (b1 : UInt8) :
    decodeFlags [b1] =
      if opcodeKnown (opcodeField b1) = false then .error (.opcode (opcodeField b1))
      else .error .notEnoughBytes := by
  obtain ⟨h1, -⟩ := dec_oct1 b1
  have n0 := num_at0 b1 [] (0 + 1) 0 (by omega)
  unfold decodeFlags decFlags
  simp only [D.main, List.length_cons, List.length_nil, n0, h1]
  cases opcodeKnown (opcodeField b1) <;> simp [D.num, D.read]

/-! ## Octet bit numbers versus the RFC / IANA numbering of the 16-bit word (bit 0 = MSB) -/

theorem hdrBit_oct1 (b1 b2 : UInt8) (k : Nat) (hk : k < 8) : hdrBit b1 b2 k = bitOf b1 (7 - k) := by
  have := b1.toNat_lt
  have := b2.toNat_lt
  have hk' : k = 0 ∨ k = 1 ∨ k = 2 ∨ k = 3 ∨ k = 4 ∨ k = 5 ∨ k = 6 ∨ k = 7 := by omega
  unfold hdrBit bitOf
  rcases hk' with rfl | rfl | rfl | rfl | rfl | rfl | rfl | rfl <;>
    (congr 1; simp only [Nat.reducePow, Nat.reduceSub]; omega)

theorem hdrBit_oct2 (b1 b2 : UInt8) (k : Nat) (hk : 8 ≤ k) (hk2 : k < 16) :
    hdrBit b1 b2 k = bitOf b2 (15 - k) := by
  have := b1.toNat_lt
  have := b2.toNat_lt
  have hk' : k = 8 ∨ k = 9 ∨ k = 10 ∨ k = 11 ∨ k = 12 ∨ k = 13 ∨ k = 14 ∨ k = 15 := by omega
  unfold hdrBit bitOf
  rcases hk' with rfl | rfl | rfl | rfl | rfl | rfl | rfl | rfl <;>
    (congr 1; simp only [Nat.reducePow, Nat.reduceSub]; omega)

/-- OPCODE is word bits 1–4, RCODE is word bits 12–15 -/
theorem hdr_fields (b1 b2 : UInt8) :
    opcodeField b1 = (b1.toNat * 256 + b2.toNat) / 2 ^ 11 % 16 ∧
    rcodeField b2 = (b1.toNat * 256 + b2.toNat) % 16 := by
  have := b1.toNat_lt
  have := b2.toNat_lt
  unfold opcodeField rcodeField
  simp only [Nat.reducePow]
  omega

end C11
