import DnsVerif.Lemmas.EncLimWin

/-! # Encoder limits, part 3: the RDATA body writers

Regular fields (`encField`, `encFields`), EDNS options, APL items and SvcParams, each as
* a `Step` on success (old output untouched, at most `size` octets appended, table invariant kept),
* the strings whose length the encoder checks are `≤ 255` on success,
* a `Cause` on failure,
* for the three back-patched items an exact equation (`encOption_eq`, `encApItem_eq`,
  `encSvcParam_eq`): the length written is the true length, and an oversized body is an error.

The only premise is the shape premise `shapedF` / `shapedFs` (the value constructor matches the
field kind of the table row), which the Rust types enforce. -/

namespace EncLim

/-! ## Shape of field values -/

def shapedF : Fld → FVal → Bool
  | .num _, .num _ => true
  | .enum _ _, .num _ => true
  | .name _, .name _ => true
  | .cstr _, .bytes _ => true
  | .ocstr _, .obytes _ => true
  | .strs, .strs _ => true
  | .rest _, .bytes _ => true
  | .oct _ _, .bytes _ => true
  | _, _ => false

def shapedFs : List Fld → List FVal → Bool
  | [], [] => true
  | f :: fs, v :: vs => shapedF f v && shapedFs fs vs
  | _, _ => false

/-- all labels and character-strings of a field value -/
def fieldStrs : Fld → FVal → List Bytes
  | .name _, .name n => n
  | .cstr _, .bytes s => [s]
  | .ocstr _, .obytes (some s) => [s]
  | .strs, .strs l => l
  | _, _ => []

/-- the octet strings whose length the encoder checks unconditionally: character-strings and the
labels of names that are written uncompressed (a label of a compressed name may be skipped by a
pointer) -/
def fieldChecked : Fld → FVal → List Bytes
  | .name false, .name n => n
  | .cstr _, .bytes s => [s]
  | .ocstr _, .obytes (some s) => [s]
  | .strs, .strs l => l
  | _, _ => []

/-- number of octets of the uncompressed rendering -/
def fieldSize : Fld → FVal → Nat
  | .num w, .num _ => w
  | .enum w _, .num _ => w
  | .name _, .name n => Name.sz n + 1
  | .cstr _, .bytes s => s.length + 1
  | .ocstr _, .obytes none => 0
  | .ocstr _, .obytes (some s) => s.length + 1
  | .strs, .strs l => cstrsSize l
  | .rest _, .bytes b => b.length
  | .oct _ _, .bytes b => b.length
  | _, _ => 0

def fieldsStrs : List Fld → List FVal → List Bytes
  | f :: fs, v :: vs => fieldStrs f v ++ fieldsStrs fs vs
  | _, _ => []

def fieldsChecked : List Fld → List FVal → List Bytes
  | f :: fs, v :: vs => fieldChecked f v ++ fieldsChecked fs vs
  | _, _ => []

def fieldsSize : List Fld → List FVal → Nat
  | f :: fs, v :: vs => fieldSize f v + fieldsSize fs vs
  | _, _ => 0

theorem fieldChecked_sub (f : Fld) (v : FVal) : ∀ s ∈ fieldChecked f v, s ∈ fieldStrs f v := by
  intro s hs
  unfold fieldChecked at hs
  split at hs <;> first | exact hs | (simp at hs)

/-! ## `encField` -/

theorem encField_ok {e e' : Enc} {f : Fld} {v : FVal} (h : encField e f v = .ok e') :
    Step e e' (fieldSize f v) ∧ ∀ s ∈ fieldChecked f v, s.length ≤ 255 := by
  unfold encField at h
  split at h
  · cases h; exact ⟨by simpa [fieldSize] using Step.put e (beBytes _ _), by simp [fieldChecked]⟩
  · cases h; exact ⟨by simpa [fieldSize] using Step.put e (beBytes _ _), by simp [fieldChecked]⟩
  · exact ⟨encName_step h, by simp [fieldChecked]⟩
  · exact ⟨encNameU_step h, fun s hs => encNameU_ok_labels _ _ _ h s (by simpa [fieldChecked] using hs)⟩
  · refine ⟨cstr_step h, fun s hs => ?_⟩
    simp [fieldChecked] at hs; subst hs; exact (cstr_ok h).1
  · cases h; exact ⟨Step.refl _ _, by simp [fieldChecked]⟩
  · refine ⟨cstr_step h, fun s hs => ?_⟩
    simp [fieldChecked] at hs; subst hs; exact (cstr_ok h).1
  · exact ⟨encCstrs_step h, fun s hs => (encCstrs_ok h).1 s (by simpa [fieldChecked] using hs)⟩
  · cases h; exact ⟨by simpa [fieldSize] using Step.put e _, by simp [fieldChecked]⟩
  · cases h; exact ⟨by simpa [fieldSize] using Step.put e _, by simp [fieldChecked]⟩
  · cases h

theorem encField_cause {e : Enc} {f : Fld} {v : FVal} {err : EErr} (hs : shapedF f v = true)
    (h : encField e f v = .error err) :
    Cause e err (∃ s ∈ fieldStrs f v, 255 < s.length) False False False (fieldSize f v) := by
  unfold encField at h
  split at h
  · cases h
  · cases h
  · exact encName_cause h
  · exact encNameU_cause h
  · obtain ⟨he, hl⟩ := cstr_err h
    exact Or.inl ⟨he, _, by simp [fieldStrs], hl⟩
  · cases h
  · obtain ⟨he, hl⟩ := cstr_err h
    exact Or.inl ⟨he, _, by simp [fieldStrs], hl⟩
  · obtain ⟨he, hl⟩ := encCstrs_err h
    exact Or.inl ⟨he, by simpa [fieldStrs] using hl⟩
  · cases h
  · cases h
  · rename_i hn1 hn2 hn3 hn4 hn5 hn6 hn7 hn8 hn9 hn10
    exfalso
    cases f <;> cases v <;> simp [shapedF] at hs
    · exact hn1 _ _ rfl rfl
    · exact hn2 _ _ _ rfl rfl
    · rename_i c n; cases c
      · exact hn4 _ rfl rfl
      · exact hn3 _ rfl rfl
    · exact hn5 _ _ rfl rfl
    · rename_i c o; cases o
      · exact hn6 _ rfl rfl
      · exact hn7 _ _ rfl rfl
    · exact hn8 _ rfl rfl
    · exact hn9 _ _ rfl rfl
    · exact hn10 _ _ _ rfl rfl

/-- a character-string of more than 255 octets in a field makes the field writer fail -/
theorem encField_long (e : Enc) {f : Fld} {v : FVal} (h : ∃ s ∈ fieldChecked f v, 255 < s.length) :
    ∃ err, encField e f v = .error err := by
  cases hr : encField e f v with
  | error err => exact ⟨err, rfl⟩
  | ok e' =>
    obtain ⟨s, hs, hgt⟩ := h
    have := (encField_ok hr).2 s hs
    omega

/-! ## `encFields` -/

theorem encFields_ok : ∀ (fs : List Fld) (vs : List FVal) (e e' : Enc),
    encFields e fs vs = .ok e' →
    Step e e' (fieldsSize fs vs) ∧ ∀ s ∈ fieldsChecked fs vs, s.length ≤ 255 := by
  intro fs
  induction fs with
  | nil =>
    intro vs e e' h
    cases vs with
    | nil => simp [encFields] at h; subst h; exact ⟨Step.refl _ _, by simp [fieldsChecked]⟩
    | cons v vs => simp [encFields] at h
  | cons f fs ih =>
    intro vs e e' h
    cases vs with
    | nil => simp [encFields] at h
    | cons v vs =>
      unfold encFields at h
      cases h1 : encField e f v with
      | error err => simp [h1] at h
      | ok e1 =>
        simp only [h1] at h
        obtain ⟨hs1, hc1⟩ := encField_ok h1
        obtain ⟨hs2, hc2⟩ := ih vs e1 e' h
        refine ⟨hs1.trans hs2, fun s hs => ?_⟩
        simp only [fieldsChecked, List.mem_append] at hs
        rcases hs with hs | hs
        · exact hc1 s hs
        · exact hc2 s hs

theorem encFields_cause : ∀ (fs : List Fld) (vs : List FVal) (e : Enc) (err : EErr),
    shapedFs fs vs = true → encFields e fs vs = .error err →
    Cause e err (∃ s ∈ fieldsStrs fs vs, 255 < s.length) False False False (fieldsSize fs vs) := by
  intro fs
  induction fs with
  | nil =>
    intro vs e err hs h
    cases vs with
    | nil => simp [encFields] at h
    | cons v vs => simp [shapedFs] at hs
  | cons f fs ih =>
    intro vs e err hs h
    cases vs with
    | nil => simp [shapedFs] at hs
    | cons v vs =>
      simp only [shapedFs, Bool.and_eq_true] at hs
      unfold encFields at h
      cases h1 : encField e f v with
      | error err1 =>
        simp [h1] at h; subst h
        refine (encField_cause hs.1 h1).lift ?_ id id id (by simp [fieldsSize]) id
        rintro ⟨s, hm, hl⟩
        exact ⟨s, by simp [fieldsStrs, hm], hl⟩
      | ok e1 =>
        simp only [h1] at h
        refine (ih vs e1 err hs.2 h).lift_step (encField_ok h1).1 ?_ id id id (by simp [fieldsSize])
        rintro ⟨s, hm, hl⟩
        exact ⟨s, by simp [fieldsStrs, hm], hl⟩

/-- a character-string of more than 255 octets in any field makes `encFields` fail -/
theorem encFields_long : ∀ (fs : List Fld) (vs : List FVal) (e : Enc),
    (∃ s ∈ fieldsChecked fs vs, 255 < s.length) → ∃ err, encFields e fs vs = .error err := by
  intro fs vs e h
  cases hr : encFields e fs vs with
  | error err => exact ⟨err, rfl⟩
  | ok e' =>
    obtain ⟨s, hs, hgt⟩ := h
    have := (encFields_ok fs vs e e' hr).2 s hs
    omega

/-! ## EDNS options -/

def optionCode : EdnsOpt → Nat
  | .ecs .. => 8
  | .cookie .. => 10
  | .padding _ => 12

/-- the option data (what follows OPTION-CODE and OPTION-LENGTH) -/
def optionBody : EdnsOpt → Bytes
  | .ecs fam src scope addr =>
    beBytes 2 fam ++ beBytes 1 src ++ beBytes 1 scope ++ addrWithPrefix addr (max src scope)
  | .cookie client server => client ++ (match server with | none => [] | some s => s)
  | .padding n => List.replicate n 0

/-- the whole option with its TRUE length in the OPTION-LENGTH field -/
def optionWire (o : EdnsOpt) : Bytes :=
  beBytes 2 (optionCode o) ++ beBytes 2 (optionBody o).length ++ optionBody o

def optionSize (o : EdnsOpt) : Nat := 4 + (optionBody o).length

theorem optionWire_length (o : EdnsOpt) : (optionWire o).length = optionSize o := by
  simp [optionWire, optionSize]; omega

/-- `Padding(pub u16)`: the length of a padding option is written by `u16(padding.0)`, not by a
back-patch, so the model (whose numbers are unbounded `Nat`s) has no check there -/
def isPadding : EdnsOpt → Bool
  | .padding _ => true
  | _ => false

/-- **`encOption`, exactly**: an ECS or cookie option whose data exceeds 65535 octets is refused
with `.length`; otherwise the option is appended with its true length. -/
theorem encOption_eq (e : Enc) (o : EdnsOpt) :
    encOption e o =
      if isPadding o = false ∧ 65535 < (optionBody o).length then .error .length
      else .ok (e.put (optionWire o)) := by
  cases o with
  | ecs fam src scope addr =>
    unfold encOption
    have := setLen_window
      ((((e.put (beBytes 2 8)).put [0, 0]).put (beBytes 2 fam ++ beBytes 1 src ++ beBytes 1 scope)).put
        (addrWithPrefix addr (max src scope)))
      (e.out ++ beBytes 2 8) [0, 0] (optionBody (.ecs fam src scope addr)) rfl
      (by simp [Enc.put, optionBody])
    simp only [isPadding, true_and]
    refine this.trans ?_
    split
    · rfl
    · simp [Enc.put, optionWire, optionCode]
  | cookie client server =>
    unfold encOption
    have := setLen_window
      (match server with
        | none => ((e.put (beBytes 2 10)).put [0, 0]).put client
        | some s => (((e.put (beBytes 2 10)).put [0, 0]).put client).put s)
      (e.out ++ beBytes 2 10) [0, 0] (optionBody (.cookie client server)) rfl
      (by cases server <;> simp [Enc.put, optionBody])
    simp only [isPadding, true_and]
    refine this.trans ?_
    split
    · rfl
    · cases server <;> simp [Enc.put, optionWire, optionCode]
  | padding n =>
    simp [encOption, isPadding, optionWire, optionCode, optionBody]

theorem encOption_ok {e e' : Enc} {o : EdnsOpt} (h : encOption e o = .ok e') :
    e' = e.put (optionWire o) ∧ (isPadding o = false → (optionBody o).length ≤ 65535) := by
  rw [encOption_eq] at h
  split at h
  · cases h
  · rename_i hn
    cases h
    exact ⟨rfl, fun hp => by
      rcases Nat.lt_or_ge 65535 (optionBody o).length with hlt | hge
      · exact absurd ⟨hp, hlt⟩ hn
      · exact hge⟩

theorem encOption_step {e e' : Enc} {o : EdnsOpt} (h : encOption e o = .ok e') :
    Step e e' (optionSize o) := by
  obtain ⟨rfl, _⟩ := encOption_ok h
  rw [← optionWire_length]; exact Step.put _ _

theorem encOption_err {e : Enc} {o : EdnsOpt} {err : EErr} (h : encOption e o = .error err) :
    err = .length ∧ 65535 < (optionBody o).length := by
  rw [encOption_eq] at h
  split at h
  · rename_i hc; cases h; exact ⟨rfl, hc.2⟩
  · cases h

theorem encOption_cause {e : Enc} {o : EdnsOpt} {err : EErr} (h : encOption e o = .error err) :
    Cause e err False False False False (optionSize o) := by
  obtain ⟨he, hl⟩ := encOption_err h
  exact Or.inr (Or.inl ⟨he, Or.inr (Or.inr (by unfold optionSize; omega))⟩)

theorem encOptions_eq_foldW : ∀ (l : List EdnsOpt) (e : Enc), encOptions e l = foldW encOption e l := by
  intro l
  induction l with
  | nil => intro e; rfl
  | cons o r ih =>
    intro e
    unfold encOptions foldW
    cases encOption e o with
    | error err => rfl
    | ok e1 => exact ih e1

/-- exact output of the option loop: the options one after the other, each with its true length -/
theorem encOptions_ok {l : List EdnsOpt} {e e' : Enc} (h : encOptions e l = .ok e') :
    e' = e.put (l.flatMap optionWire) := by
  rw [encOptions_eq_foldW] at h
  exact foldW_put (w := encOption) (wire := optionWire) (fun _ _ _ hw => (encOption_ok hw).1) l e e' h

theorem encOptions_step {l : List EdnsOpt} {e e' : Enc} (h : encOptions e l = .ok e') :
    Step e e' (l.map optionSize).sum := by
  rw [encOptions_eq_foldW] at h
  exact (foldW_ok (w := encOption) (size := optionSize) (P := fun _ => True)
    (fun _ _ _ _ hw => encOption_step hw) l e e' (fun _ _ => trivial) h).1

/-! ## APL items -/

/-- the item with its TRUE address length (and the negation bit) in the AFDLENGTH octet -/
def apItemWire (it : APItem) : Bytes :=
  beBytes 2 it.fam ++ beBytes 1 it.pfx ++
    [UInt8.ofNat (if it.neg then (stripZeros it.addr).length ||| 128 else (stripZeros it.addr).length)] ++
    stripZeros it.addr

def apItemSize (it : APItem) : Nat := 4 + (stripZeros it.addr).length

theorem apItemWire_length (it : APItem) : (apItemWire it).length = apItemSize it := by
  simp [apItemWire, apItemSize]; omega

/-- **`encApItem`, exactly** -/
theorem encApItem_eq (e : Enc) (it : APItem) :
    encApItem e it =
      if 255 < (stripZeros it.addr).length then .error .length
      else if 128 ≤ (stripZeros it.addr).length then .error .aplAddressLength
      else .ok (e.put (apItemWire it)) := by
  unfold encApItem
  have := setAddrLen_window
    (((e.put (beBytes 2 it.fam ++ beBytes 1 it.pfx)).put [0]).put (stripZeros it.addr)) it.neg
    (e.out ++ (beBytes 2 it.fam ++ beBytes 1 it.pfx)) [0] (stripZeros it.addr) rfl
    (by simp [Enc.put])
  refine this.trans ?_
  split
  · rfl
  · split
    · rfl
    · simp [Enc.put, apItemWire]

theorem encApItem_ok {e e' : Enc} {it : APItem} (h : encApItem e it = .ok e') :
    e' = e.put (apItemWire it) ∧ (stripZeros it.addr).length < 128 := by
  rw [encApItem_eq] at h
  split at h
  · cases h
  · split at h
    · cases h
    · cases h; exact ⟨rfl, by omega⟩

theorem encApItem_step {e e' : Enc} {it : APItem} (h : encApItem e it = .ok e') :
    Step e e' (apItemSize it) := by
  obtain ⟨rfl, _⟩ := encApItem_ok h
  rw [← apItemWire_length]; exact Step.put _ _

theorem encApItem_err {e : Enc} {it : APItem} {err : EErr} (h : encApItem e it = .error err) :
    (err = .length ∧ 255 < (stripZeros it.addr).length) ∨
    (err = .aplAddressLength ∧ 128 ≤ (stripZeros it.addr).length ∧ (stripZeros it.addr).length ≤ 255) := by
  rw [encApItem_eq] at h
  split at h
  · rename_i hc; cases h; exact Or.inl ⟨rfl, hc⟩
  · split at h
    · rename_i hc; cases h; exact Or.inr ⟨rfl, hc, by omega⟩
    · cases h

/-- stripped address of 128..255 octets / of more than 255 octets -/
def apl128 (it : APItem) : Prop :=
  128 ≤ (stripZeros it.addr).length ∧ (stripZeros it.addr).length ≤ 255
def apl255 (it : APItem) : Prop := 255 < (stripZeros it.addr).length

theorem encApItem_cause {e : Enc} {it : APItem} {err : EErr} (h : encApItem e it = .error err) :
    Cause e err False (apl128 it) (apl255 it) False (apItemSize it) := by
  rcases encApItem_err h with ⟨he, hl⟩ | ⟨he, hl⟩
  · exact Or.inr (Or.inl ⟨he, Or.inl hl⟩)
  · exact Or.inr (Or.inr (Or.inl ⟨he, hl⟩))

theorem encApItems_eq_foldW : ∀ (l : List APItem) (e : Enc), encApItems e l = foldW encApItem e l := by
  intro l
  induction l with
  | nil => intro e; rfl
  | cons o r ih =>
    intro e
    unfold encApItems foldW
    cases encApItem e o with
    | error err => rfl
    | ok e1 => exact ih e1

theorem encApItems_ok {l : List APItem} {e e' : Enc} (h : encApItems e l = .ok e') :
    e' = e.put (l.flatMap apItemWire) := by
  rw [encApItems_eq_foldW] at h
  exact foldW_put (w := encApItem) (wire := apItemWire) (fun _ _ _ hw => (encApItem_ok hw).1) l e e' h

theorem encApItems_step {l : List APItem} {e e' : Enc} (h : encApItems e l = .ok e') :
    Step e e' (l.map apItemSize).sum := by
  rw [encApItems_eq_foldW] at h
  exact (foldW_ok (w := encApItem) (size := apItemSize) (P := fun _ => True)
    (fun _ _ _ _ hw => encApItem_step hw) l e e' (fun _ _ => trivial) h).1

/-! ## SvcParams -/

/-- the SvcParamValue -/
def svcBody : SvcParam → Bytes
  | .mandatory ks => (sortNat ks).flatMap (beBytes 2)
  | .alpn ids => cstrsWire ids
  | .noDefaultAlpn => []
  | .port p => beBytes 2 p
  | .ipv4hint hs => hs.flatten
  | .ech b => beBytes 2 b.length ++ b
  | .ipv6hint hs => hs.flatten
  | .priv _ b => b
  | .key65535 => []

/-- the parameter with its TRUE value length in the SvcParamValue length field -/
def svcWire (p : SvcParam) : Bytes :=
  beBytes 2 p.key ++ beBytes 2 (svcBody p).length ++ svcBody p

def svcSize (p : SvcParam) : Nat := 4 + (svcBody p).length

theorem svcWire_length (p : SvcParam) : (svcWire p).length = svcSize p := by
  simp [svcWire, svcSize]; omega

/-- the `alpn` ids of a parameter -/
def svcStrs : SvcParam → List Bytes
  | .alpn ids => ids
  | _ => []

/-- **`encSvcParam`, exactly**: an `alpn` id of more than 255 octets gives `.string`; a value of
more than 65535 octets (in particular an `ech` of more than 65533 octets, whose own 16-bit length
prefix is checked first, with the same error) gives `.length`; otherwise the parameter is appended
with its true value length. -/
theorem encSvcParam_eq (e : Enc) (p : SvcParam) :
    encSvcParam e p =
      if ∃ s ∈ svcStrs p, 255 < s.length then .error .string
      else if 65535 < (svcBody p).length then .error .length
      else .ok (e.put (svcWire p)) := by
  have key : ∀ (body : Bytes), svcBody p = body → (¬ ∃ s ∈ svcStrs p, 255 < s.length) →
      setLen (((e.put (beBytes 2 p.key)).put [0, 0]).put body) (e.put (beBytes 2 p.key)).out.length =
      if ∃ s ∈ svcStrs p, 255 < s.length then .error .string
      else if 65535 < (svcBody p).length then .error .length
      else .ok (e.put (svcWire p)) := by
    intro body hb hn
    have := setLen_window (((e.put (beBytes 2 p.key)).put [0, 0]).put body)
      (e.out ++ beBytes 2 p.key) [0, 0] body rfl (by simp [Enc.put])
    rw [if_neg hn, hb]
    refine this.trans ?_
    split
    · rfl
    · simp [Enc.put, svcWire, hb]
  have hnil : ∀ {q : SvcParam}, svcStrs q = [] → ¬ ∃ s ∈ svcStrs q, 255 < s.length := by
    intro q hq; rw [hq]; simp
  cases p with
  | mandatory ks =>
    simpa [encSvcParam, put_put] using key ((sortNat ks).flatMap (beBytes 2)) rfl (hnil rfl)
  | alpn ids =>
    unfold encSvcParam
    simp only [encCstrs_eq]
    by_cases hl : ∃ s ∈ ids, 255 < s.length
    · have : ∃ s ∈ svcStrs (.alpn ids), 255 < s.length := hl
      rw [if_pos hl, if_pos this]
    · have hn : ¬ ∃ s ∈ svcStrs (.alpn ids), 255 < s.length := hl
      rw [if_neg hl]
      exact key _ rfl hn
  | noDefaultAlpn => simpa [encSvcParam, put_nil] using key [] rfl (hnil rfl)
  | port q => simpa [encSvcParam] using key (beBytes 2 q) rfl (hnil rfl)
  | ipv4hint hs => simpa [encSvcParam] using key hs.flatten rfl (hnil rfl)
  | ech b =>
    unfold encSvcParam
    by_cases hb : b.length > 65535
    · have h1 : ¬ ∃ s ∈ svcStrs (.ech b), 255 < s.length := hnil rfl
      have h2 : 65535 < (svcBody (.ech b)).length := by simp [svcBody]; omega
      simp only [hb, if_true]
      rw [if_neg h1, if_pos h2]
    · simp only [hb, if_false]
      exact key _ rfl (hnil rfl)
  | ipv6hint hs => simpa [encSvcParam] using key hs.flatten rfl (hnil rfl)
  | priv k b => simpa [encSvcParam] using key b rfl (hnil rfl)
  | key65535 => simpa [encSvcParam, put_nil] using key [] rfl (hnil rfl)

theorem encSvcParam_ok {e e' : Enc} {p : SvcParam} (h : encSvcParam e p = .ok e') :
    e' = e.put (svcWire p) ∧ (svcBody p).length ≤ 65535 ∧ ∀ s ∈ svcStrs p, s.length ≤ 255 := by
  rw [encSvcParam_eq] at h
  split at h
  · cases h
  · rename_i hn
    split at h
    · cases h
    · cases h
      refine ⟨rfl, by omega, fun s hs => ?_⟩
      rcases Nat.lt_or_ge 255 s.length with hlt | hge
      · exact absurd ⟨s, hs, hlt⟩ hn
      · exact hge

theorem encSvcParam_step {e e' : Enc} {p : SvcParam} (h : encSvcParam e p = .ok e') :
    Step e e' (svcSize p) := by
  obtain ⟨rfl, _⟩ := encSvcParam_ok h
  rw [← svcWire_length]; exact Step.put _ _

theorem encSvcParam_err {e : Enc} {p : SvcParam} {err : EErr} (h : encSvcParam e p = .error err) :
    (err = .string ∧ ∃ s ∈ svcStrs p, 255 < s.length) ∨
    (err = .length ∧ 65535 < (svcBody p).length) := by
  rw [encSvcParam_eq] at h
  split at h
  · rename_i hc; cases h; exact Or.inl ⟨rfl, hc⟩
  · split at h
    · rename_i hc; cases h; exact Or.inr ⟨rfl, hc⟩
    · cases h

theorem encSvcParam_cause {e : Enc} {p : SvcParam} {err : EErr} (h : encSvcParam e p = .error err) :
    Cause e err (∃ s ∈ svcStrs p, 255 < s.length) False False False (svcSize p) := by
  rcases encSvcParam_err h with ⟨he, hl⟩ | ⟨he, hl⟩
  · exact Or.inl ⟨he, hl⟩
  · exact Or.inr (Or.inl ⟨he, Or.inr (Or.inr (by unfold svcSize; omega))⟩)

theorem encSvcParams_eq_foldW : ∀ (l : List SvcParam) (e : Enc),
    encSvcParams e l = foldW encSvcParam e l := by
  intro l
  induction l with
  | nil => intro e; rfl
  | cons o r ih =>
    intro e
    unfold encSvcParams foldW
    cases encSvcParam e o with
    | error err => rfl
    | ok e1 => exact ih e1

theorem encSvcParams_ok {l : List SvcParam} {e e' : Enc} (h : encSvcParams e l = .ok e') :
    e' = e.put (l.flatMap svcWire) := by
  rw [encSvcParams_eq_foldW] at h
  exact foldW_put (w := encSvcParam) (wire := svcWire) (fun _ _ _ hw => (encSvcParam_ok hw).1) l e e' h

theorem encSvcParams_step {l : List SvcParam} {e e' : Enc} (h : encSvcParams e l = .ok e') :
    Step e e' (l.map svcSize).sum := by
  rw [encSvcParams_eq_foldW] at h
  exact (foldW_ok (w := encSvcParam) (size := svcSize) (P := fun _ => True)
    (fun _ _ _ _ hw => encSvcParam_step hw) l e e' (fun _ _ => trivial) h).1

end EncLim
