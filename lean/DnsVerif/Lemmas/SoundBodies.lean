import DnsVerif.Lemmas.SoundFields
import DnsVerif.Lemmas.ApiMachines

/-! # Decoder soundness, part 2a: address prefixes, EDNS options (OPT), APL items (C03 / C09)

Each length-delimited body is read through `D.withSub`, so `withSub_ok` gives at once that the reader
ran inside the window `[start, start + len)` and ended exactly at its end: the "consumes exactly its
announced length" half of C09 (`option_consumes_length`, `apl_address_consumes_length`). -/

namespace Sound

/-! ## Address family, zero-filled address -/

theorem family_sound {d d' : D} {fam : Nat} (hd : D.Ok d) (h : d.family = .ok (fam, d')) :
    (fam = 1 ∨ fam = 2) ∧ BytesAt d.buf d.off (beBytes 2 fam) ∧ d'.off = d.off + 2 ∧ d.off + 2 ≤ d.lim ∧
      Keep d d' := by
  unfold D.family at h
  cases hn : d.num 2 with
  | error e => simp [hn] at h
  | ok p =>
    obtain ⟨n, d1⟩ := p
    simp only [hn] at h
    by_cases ht : inTable Gen.enumAddressFamilyNumber n = true
    · simp only [ht, if_true] at h
      injection h with h; injection h with h1 h2
      subst h1; subst h2
      obtain ⟨_, n2, _, n3, n4, k⟩ := num_sound hd hn
      refine ⟨?_, n2, n3, n4, k⟩
      have ht' : 1 = n ∨ 2 = n := by simpa [inTable, Gen.enumAddressFamilyNumber] using ht
      omega
    · simp [ht] at h

/-- `rr_address`: the octets of the window are a prefix of the address, the rest of the address is zero -/
theorem address_sound {d d' : D} {fam : Nat} {addr : Bytes} (hd : D.Ok d)
    (h : d.address fam = .ok (addr, d')) :
    addr.length = famWidth fam ∧ d.lim - d.off ≤ famWidth fam ∧
      BytesAt d.buf d.off (addr.take (d.lim - d.off)) ∧ (∀ x ∈ addr.drop (d.lim - d.off), x = 0) ∧
      d'.off = d.lim ∧ Keep d d' := by
  unfold D.address at h
  cases hr : d.rest with
  | error e => simp [hr] at h
  | ok p =>
    obtain ⟨b, d1⟩ := p
    simp only [hr] at h
    obtain ⟨r1, r2, r3, k⟩ := rest_sound hd hr
    have hw : famSize fam = famWidth fam := rfl
    by_cases h1 : famSize fam < b.length
    · rw [if_pos h1] at h; cases h
    · rw [if_neg h1] at h
      by_cases h2 : b.length ≤ famSize fam
      · rw [if_pos h2] at h
        injection h with h; injection h with ha hb
        subst ha; subst hb
        have hbl : b.length = d.lim - d.off := by omega
        refine ⟨by rw [List.length_append, List.length_replicate]; omega, by omega, ?_, ?_, r3, k⟩
        · rw [List.take_left' hbl]; exact r1
        · rw [List.drop_left' hbl]; intro x hx; exact (List.mem_replicate.mp hx).2
      · omega

/-! ## EDNS options -/

theorem decEcs_sound {c c' : D} {o : EdnsOpt} (hc : D.Ok c) (h : decEcs c = .ok (o, c')) :
    ∃ fam src scope addr, o = .ecs fam src scope addr ∧ c.off + 4 ≤ c.lim ∧
      BytesAt c.buf c.off (beBytes 2 fam ++ beBytes 1 src ++ beBytes 1 scope) ∧ src < 256 ∧ scope < 256 ∧
      PrefixAddrAt c.buf (c.off + 4) (c.lim - (c.off + 4)) fam (max src scope) addr ∧
      c'.off = c.lim ∧ Keep c c' := by
  unfold decEcs at h
  cases h1 : c.family with
  | error e => simp [h1] at h
  | ok p1 =>
    obtain ⟨fam, c1⟩ := p1
    simp only [h1] at h
    obtain ⟨f1, f2, f3, f4, k1⟩ := family_sound hc h1
    cases h2 : c1.num 1 with
    | error e => simp [h2] at h
    | ok p2 =>
      obtain ⟨src, c2⟩ := p2
      simp only [h2] at h
      obtain ⟨s1, s2, _, s3, s4, k2⟩ := num_sound k1.ok h2
      cases h3 : c2.num 1 with
      | error e => simp [h3] at h
      | ok p3 =>
        obtain ⟨scope, c3⟩ := p3
        simp only [h3] at h
        obtain ⟨t1, t2, _, t3, t4, k3⟩ := num_sound k2.ok h3
        cases h4 : c3.address fam with
        | error e => simp [h4] at h
        | ok p4 =>
          obtain ⟨addr, c4⟩ := p4
          simp only [h4] at h
          obtain ⟨a1, a2, a3, a4, a5, k4⟩ := address_sound k3.ok h4
          cases h5 : ecsNew fam src scope addr with
          | error e => simp [h5] at h
          | ok o' =>
            simp only [h5] at h
            injection h with h; injection h with ha hb
            subst ha; subst hb
            obtain ⟨e1, e2, e3⟩ := (ecsNew_ok_iff _ _ _ _ _).mp h5
            have hb2 : c2.buf = c.buf := k2.buf.trans k1.buf
            have hb3 : c3.buf = c.buf := k3.buf.trans hb2
            have hl3 : c3.lim = c.lim := k3.lim.trans (k2.lim.trans k1.lim)
            have ho2 : c2.off = c.off + 2 + 1 := by rw [s3, f3]
            have ho3 : c3.off = c.off + 4 := by rw [t3, ho2]
            rw [k2.lim, k1.lim] at t4
            refine ⟨fam, src, scope, addr, e1, by omega, ?_, by simpa using s1, by simpa using t1, ?_,
              by rw [a5, hl3], k1.trans (k2.trans (k3.trans k4))⟩
            · refine bytesAt_append_of (bytesAt_append_of f2 (o2 := c1.off) (by simp [f3]) ?_)
                (o2 := c2.off) (by simp [ho2]) ?_
              · rw [← k1.buf]; exact s2
              · rw [← hb3, k3.buf]; exact t2
            · rw [hb3, hl3, ho3] at a3
              rw [hl3, ho3] at a2 a4
              exact ⟨f1, a1, a2, a3, a4, by rw [a1] at e2; exact e2, e3⟩

theorem decCookie_sound {c c' : D} {o : EdnsOpt} (hc : D.Ok c) (h : decCookie c = .ok (o, c')) :
    ∃ client server, o = .cookie client server ∧ client.length = 8 ∧
      (∀ s, server = some s → 8 ≤ s.length ∧ s.length ≤ 32) ∧
      BytesAt c.buf c.off (client ++ server.getD []) ∧ c.off + 8 + (server.getD []).length = c.lim ∧
      c'.off = c.lim ∧ Keep c c' := by
  unfold decCookie at h
  cases hr : c.rest with
  | error e => simp [hr] at h
  | ok p =>
    obtain ⟨v, c1⟩ := p
    simp only [hr] at h
    obtain ⟨r1, r2, r3, k⟩ := rest_sound hc hr
    by_cases h8 : v.length = 8
    · rw [if_pos h8, if_neg (by omega)] at h
      cases hn : cookieNew (v.take 8) none with
      | error e => simp [hn] at h
      | ok o' =>
        simp only [hn] at h
        injection h with h; injection h with ha hb
        subst ha; subst hb
        obtain ⟨e1, e2⟩ := (cookieNew_ok_iff _ _ _).mp hn
        have hv : v.take 8 = v := by rw [← h8]; exact List.take_length
        refine ⟨v.take 8, none, e1, by rw [hv]; exact h8, e2, ?_, ?_, r3, k⟩
        · rw [hv]; simpa using r1
        · simp; omega
    · rw [if_neg h8] at h
      by_cases h16 : 16 ≤ v.length ∧ v.length ≤ 40
      · rw [if_pos h16, if_neg (by omega)] at h
        cases hn : cookieNew (v.take 8) (some (v.drop 8)) with
        | error e => simp [hn] at h
        | ok o' =>
          simp only [hn] at h
          injection h with h; injection h with ha hb
          subst ha; subst hb
          obtain ⟨e1, e2⟩ := (cookieNew_ok_iff _ _ _).mp hn
          refine ⟨v.take 8, some (v.drop 8), e1, by rw [List.length_take]; omega, e2, ?_, ?_, r3, k⟩
          · simpa using r1
          · simp; omega
      · rw [if_neg h16] at h; cases h

theorem decPadding_sound {c c' : D} {o : EdnsOpt} (hc : D.Ok c) (h : decPadding c = .ok (o, c')) :
    ∃ n, o = .padding n ∧ n < 65536 ∧ BytesAt c.buf c.off (List.replicate n 0) ∧ c.off + n = c.lim ∧
      c'.off = c.lim ∧ Keep c c' := by
  unfold decPadding at h
  cases hr : c.rest with
  | error e => simp [hr] at h
  | ok p =>
    obtain ⟨v, c1⟩ := p
    simp only [hr] at h
    obtain ⟨r1, r2, r3, k⟩ := rest_sound hc hr
    by_cases hbig : 65535 < v.length
    · rw [if_pos hbig] at h; cases h
    · rw [if_neg hbig] at h
      by_cases hz : v.all (· == 0) = true
      · rw [if_pos hz] at h
        injection h with h; injection h with ha hb
        subst ha; subst hb
        have : v = List.replicate v.length 0 := eq_replicate_zero (by
          intro x hx
          have := List.all_eq_true.mp hz x hx
          simpa using this)
        refine ⟨v.length, rfl, by omega, by rw [← this]; exact r1, r2, r3, k⟩
      · rw [if_neg hz] at h; cases h

/-- the four-octet option header -/
private theorem hdr4 {d d1 d2 : D} {a b : Nat} (hd : D.Ok d) (h1 : d.num 2 = .ok (a, d1))
    (h2 : d1.num 2 = .ok (b, d2)) :
    a < 65536 ∧ b < 65536 ∧ BytesAt d.buf d.off (beBytes 2 a ++ beBytes 2 b) ∧ d2.off = d.off + 4 ∧
      d2.buf = d.buf ∧ d2.lim = d.lim ∧ D.Ok d2 := by
  obtain ⟨a1, a2, _, a3, _, k1⟩ := num_sound hd h1
  obtain ⟨b1, b2, _, b3, _, k2⟩ := num_sound k1.ok h2
  refine ⟨by simpa using a1, by simpa using b1, ?_, by rw [b3, a3], k2.buf.trans k1.buf,
    k2.lim.trans k1.lim, k2.ok⟩
  rw [bytesAt_append, beBytes_length]
  refine ⟨a2, ?_⟩
  rw [← a3, ← k1.buf]; exact b2

theorem hdr4_sound {d d1 d2 : D} {a b : Nat} (hd : D.Ok d) (h1 : d.num 2 = .ok (a, d1))
    (h2 : d1.num 2 = .ok (b, d2)) :
    a < 65536 ∧ b < 65536 ∧ BytesAt d.buf d.off (beBytes 2 a ++ beBytes 2 b) ∧ d2.off = d.off + 4 ∧
      d2.buf = d.buf ∧ d2.lim = d.lim ∧ D.Ok d2 := hdr4 hd h1 h2

/-- One EDNS option: code, length, and a body that fills exactly `length` octets. -/
theorem decOption_sound' {d d' : D} {o : EdnsOpt} (hd : D.Ok d) (h : decOption d = .ok (o, d')) :
    OptionAt d.buf d.off o d'.off ∧ Keep d d' ∧
      ∃ code len, BytesAt d.buf d.off (beBytes 2 code ++ beBytes 2 len) ∧ len < 65536 ∧
        d'.off = d.off + 4 + len := by
  unfold decOption at h
  cases h1 : d.num 2 with
  | error e => simp [h1] at h
  | ok p1 =>
    obtain ⟨code, d1⟩ := p1
    simp only [h1] at h
    by_cases hc : inTable Gen.enumEDNSOptionCode code = true
    · simp only [hc, Bool.not_true, Bool.false_eq_true, if_false] at h
      cases h2 : d1.num 2 with
      | error e => simp [h2] at h
      | ok p2 =>
        obtain ⟨len, d2⟩ := p2
        simp only [h2] at h
        obtain ⟨_, l1, hh, o2, b2, l2, ok2⟩ := hdr4 hd h1 h2
        obtain ⟨w1, c, hf, wfin, w4⟩ := withSub_ok h
        obtain ⟨ok', wb, wl, wo⟩ := withSub_Ok ok2 h
        have hck := withSub_child_Ok (c0 := d2.cost + len) ok2 w1
        have kp : Keep d d' := ⟨wb.trans b2, wl.trans l2, by rw [wo, o2]; omega, ok'⟩
        have hend : d'.off = d.off + 4 + len := by rw [wo, o2]
        refine ⟨?_, kp, code, len, hh, l1, hend⟩
        rw [hend]
        have hcode : 8 = code ∨ 10 = code ∨ 12 = code := by
          simpa [inTable, Gen.enumEDNSOptionCode] using hc
        by_cases c8 : code = 8
        · rw [if_pos c8] at hf
          obtain ⟨fam, src, scope, addr, e1, e2, e3, e4, e5, e6, _, _⟩ := decEcs_sound hck hf
          simp only at e2 e3 e6
          subst e1; subst c8
          rw [b2, o2] at e3 e6
          rw [o2] at e2
          have e7 : d.off + 4 + len - (d.off + 4 + 4) = len - 4 := by omega
          rw [e7, Nat.add_assoc d.off 4 4] at e6
          exact .ecs hh (by omega) l1 e3 e4 e5 e6
        · rw [if_neg c8] at hf
          by_cases c10 : code = 10
          · rw [if_pos c10] at hf
            obtain ⟨client, server, e1, e2, e3, e4, e5, _, _⟩ := decCookie_sound hck hf
            simp only at e4 e5
            subst e1; subst c10
            rw [b2, o2] at e4
            rw [o2] at e5
            have e6 : len = 8 + (server.getD []).length := by omega
            rw [e6, ← Nat.add_assoc]
            refine .cookie e2 e3 ?_
            rw [List.append_assoc, bytesAt_append]
            refine ⟨by rw [← e6]; exact hh, ?_⟩
            simp only [List.length_append, beBytes_length]
            exact e4
          · rw [if_neg c10] at hf
            have c12 : code = 12 := by omega
            obtain ⟨n, e1, e2, e3, e4, _, _⟩ := decPadding_sound hck hf
            simp only at e3 e4
            subst e1; subst c12
            rw [b2, o2] at e3
            rw [o2] at e4
            have e6 : len = n := by omega
            subst e6
            refine .padding e2 ?_
            rw [bytesAt_append]
            refine ⟨hh, ?_⟩
            simp only [List.length_append, beBytes_length]
            exact e3
    · have : inTable Gen.enumEDNSOptionCode code = false := by simpa using hc
      simp [this] at h

theorem decOption_sound {d d' : D} {o : EdnsOpt} (hd : D.Ok d) (h : decOption d = .ok (o, d')) :
    OptionAt d.buf d.off o d'.off ∧ Keep d d' :=
  ⟨(decOption_sound' hd h).1, (decOption_sound' hd h).2.1⟩

/-- **C09 for options**: an accepted option occupies exactly `4 + OPTION-LENGTH` octets, where
OPTION-LENGTH is the number stored in its third and fourth octet. -/
theorem option_consumes_length {d d' : D} {o : EdnsOpt} (hd : D.Ok d) (h : decOption d = .ok (o, d')) :
    ∃ len, BytesAt d.buf (d.off + 2) (beBytes 2 len) ∧ len < 65536 ∧ d'.off = d.off + 4 + len := by
  obtain ⟨_, _, code, len, h1, h2, h3⟩ := decOption_sound' hd h
  rw [bytesAt_append, beBytes_length] at h1
  exact ⟨len, h1.2, h2, h3⟩

theorem decOptions_sound : ∀ (fuel : Nat) {d d' : D} {l : List EdnsOpt}, D.Ok d →
    decOptions fuel d = .ok (l, d') → OptionsAt d.buf d.lim d.off l ∧ d'.off = d.lim ∧ Keep d d' := by
  intro fuel
  induction fuel with
  | zero => intro d d' l _ h; simp [decOptions] at h
  | succ fuel ih =>
    intro d d' l hd h
    unfold decOptions at h
    cases hf : d.isFinished with
    | error e => simp [hf] at h
    | ok b =>
      obtain ⟨f1, f2⟩ := isFinished_ok hf
      cases b with
      | true =>
        simp only [hf] at h
        injection h with h; injection h with h1 h2
        subst h1; subst h2
        have : d.off = d.lim := f2.mp rfl
        refine ⟨?_, this, Keep.refl hd⟩
        rw [this]; exact .nil
      | false =>
        simp only [hf] at h
        cases hc : decOption d with
        | error e => simp [hc] at h
        | ok p =>
          obtain ⟨o, d1⟩ := p
          simp only [hc] at h
          obtain ⟨s1, k1⟩ := decOption_sound hd hc
          cases hr : decOptions fuel d1 with
          | error e => simp [hr] at h
          | ok q =>
            obtain ⟨r, d2⟩ := q
            simp only [hr] at h
            injection h with h; injection h with h1 h2
            subst h1; subst h2
            obtain ⟨r1, r2, k2⟩ := ih k1.ok hr
            rw [k1.buf, k1.lim] at r1
            exact ⟨.cons s1 k1.off_le r1, by rw [r2, k1.lim], k1.trans k2⟩

/-! ## APL items -/

/-- the octet `N | AFDLENGTH` -/
theorem apl_octet : ∀ b : Fin 256, (b.val &&& 127) < 128 ∧
    b.val = (b.val &&& 127) + (if ((b.val &&& 128) == 128) = true then 128 else 0) := by
  decide +kernel

theorem decApItem_sound' {d d' : D} {it : APItem} (hd : D.Ok d) (h : decApItem d = .ok (it, d')) :
    ApItemAt d.buf d.off it d'.off ∧ Keep d d' ∧
      ∃ k, k < 128 ∧ d.buf[d.off + 3]? = some (UInt8.ofNat (k + if it.neg then 128 else 0)) ∧
        d'.off = d.off + 4 + k := by
  unfold decApItem at h
  cases h1 : d.family with
  | error e => simp [h1] at h
  | ok p1 =>
    obtain ⟨fam, d1⟩ := p1
    simp only [h1] at h
    obtain ⟨f1, f2, f3, f4, k1⟩ := family_sound hd h1
    cases h2 : d1.num 1 with
    | error e => simp [h2] at h
    | ok p2 =>
      obtain ⟨pfx, d2⟩ := p2
      simp only [h2] at h
      obtain ⟨s1, s2, _, s3, s4, k2⟩ := num_sound k1.ok h2
      cases h3 : d2.num 1 with
      | error e => simp [h3] at h
      | ok p3 =>
        obtain ⟨b, d3⟩ := p3
        simp only [h3] at h
        obtain ⟨t1, t2, _, t3, t4, k3⟩ := num_sound k2.ok h3
        cases h4 : d3.withSub (b &&& 127) (fun c => c.address fam) with
        | error e => simp [h4] at h
        | ok p4 =>
          obtain ⟨addr, d4⟩ := p4
          simp only [h4] at h
          cases h5 : apItemNew fam pfx ((b &&& 128) == 128) addr with
          | error e => simp [h5] at h
          | ok it' =>
            simp only [h5] at h
            injection h with h; injection h with ha hb
            subst ha; subst hb
            obtain ⟨e1, e2, e3⟩ := (apItemNew_ok_iff _ _ _ _ _).mp h5
            subst e1
            have hb2 : d2.buf = d.buf := k2.buf.trans k1.buf
            have hb3 : d3.buf = d.buf := k3.buf.trans hb2
            have hl3 : d3.lim = d.lim := k3.lim.trans (k2.lim.trans k1.lim)
            have ho2 : d2.off = d.off + 2 + 1 := by rw [s3, f3]
            have ho3 : d3.off = d.off + 4 := by rw [t3, ho2]
            have hb256 : b < 256 := by simpa using t1
            obtain ⟨q1, q2⟩ := apl_octet ⟨b, hb256⟩
            simp only at q1 q2
            obtain ⟨w1, c, hf, wfin, w4⟩ := withSub_ok h4
            obtain ⟨ok', wb, wl, wo⟩ := withSub_Ok k3.ok h4
            have hck := withSub_child_Ok (c0 := d3.cost + (b &&& 127)) k3.ok w1
            obtain ⟨a1, a2, a3, a4, _, _⟩ := address_sound hck hf
            simp only at a2 a3 a4
            have e7 : d3.off + (b &&& 127) - d3.off = b &&& 127 := by omega
            rw [e7] at a2 a3 a4
            rw [hb3, ho3] at a3
            have kp : Keep d d4 := ⟨wb.trans hb3, wl.trans hl3, by rw [wo, ho3]; omega, ok'⟩
            have hend : d4.off = d.off + 4 + (b &&& 127) := by rw [wo, ho3]
            have hoct : BytesAt d.buf (d.off + 2 + 1)
                [UInt8.ofNat ((b &&& 127) + if ((b &&& 128) == 128) = true then 128 else 0)] := by
              rw [← q2, ← ho2, ← hb2]
              have : beBytes 1 b = [UInt8.ofNat b] := by
                rw [Be.beBytes_one, Nat.mod_eq_of_lt hb256]
              rw [← this]; exact t2
            refine ⟨?_, kp, b &&& 127, q1, ?_, hend⟩
            · rw [hend]
              refine .mk (by simpa using s1) q1 ?_ ⟨f1, a1, a2, a3, a4, by rw [a1] at e2; exact e2, e3⟩
              refine bytesAt_append_of (bytesAt_append_of f2 (o2 := d1.off) (by simp [f3]) ?_)
                (o2 := d.off + 2 + 1) (by simp) hoct
              rw [← k1.buf]; exact s2
            · exact bytesAt_singleton.mp hoct

theorem decApItem_sound {d d' : D} {it : APItem} (hd : D.Ok d) (h : decApItem d = .ok (it, d')) :
    ApItemAt d.buf d.off it d'.off ∧ Keep d d' :=
  ⟨(decApItem_sound' hd h).1, (decApItem_sound' hd h).2.1⟩

/-- **C09 for APL address windows**: an accepted item occupies exactly `4 + AFDLENGTH` octets, where
AFDLENGTH is the low seven bits of its fourth octet. -/
theorem apl_address_consumes_length {d d' : D} {it : APItem} (hd : D.Ok d)
    (h : decApItem d = .ok (it, d')) :
    ∃ k, k < 128 ∧ d.buf[d.off + 3]? = some (UInt8.ofNat (k + if it.neg then 128 else 0)) ∧
      d'.off = d.off + 4 + k :=
  (decApItem_sound' hd h).2.2

theorem decApItems_sound : ∀ (fuel : Nat) {d d' : D} {l : List APItem}, D.Ok d →
    decApItems fuel d = .ok (l, d') → ApItemsAt d.buf d.lim d.off l ∧ d'.off = d.lim ∧ Keep d d' := by
  intro fuel
  induction fuel with
  | zero => intro d d' l _ h; simp [decApItems] at h
  | succ fuel ih =>
    intro d d' l hd h
    unfold decApItems at h
    cases hf : d.isFinished with
    | error e => simp [hf] at h
    | ok b =>
      obtain ⟨f1, f2⟩ := isFinished_ok hf
      cases b with
      | true =>
        simp only [hf] at h
        injection h with h; injection h with h1 h2
        subst h1; subst h2
        have : d.off = d.lim := f2.mp rfl
        refine ⟨?_, this, Keep.refl hd⟩
        rw [this]; exact .nil
      | false =>
        simp only [hf] at h
        cases hc : decApItem d with
        | error e => simp [hc] at h
        | ok p =>
          obtain ⟨o, d1⟩ := p
          simp only [hc] at h
          obtain ⟨s1, k1⟩ := decApItem_sound hd hc
          cases hr : decApItems fuel d1 with
          | error e => simp [hr] at h
          | ok q =>
            obtain ⟨r, d2⟩ := q
            simp only [hr] at h
            injection h with h; injection h with h1 h2
            subst h1; subst h2
            obtain ⟨r1, r2, k2⟩ := ih k1.ok hr
            rw [k1.buf, k1.lim] at r1
            exact ⟨.cons s1 k1.off_le r1, by rw [r2, k1.lim], k1.trans k2⟩

/-! ## Non-vacuity -/

-- ECS 10.128.0.0/9 (two address octets on the wire), then padding of 2
private def exOpt : Bytes := [0, 8, 0, 6, 0, 1, 9, 0, 10, 128, 0, 12, 0, 2, 0, 0]

set_option maxRecDepth 8192 in
example : decOptions 17 { buf := exOpt, off := 0, lim := 16 } =
    .ok ([.ecs 1 9 0 [10, 128, 0, 0], .padding 2], { buf := exOpt, off := 16, lim := 16, cost := 24 }) := rfl
set_option maxRecDepth 8192 in
example : OptionsAt exOpt 16 0 [.ecs 1 9 0 [10, 128, 0, 0], .padding 2] :=
  (decOptions_sound 17 (d := { buf := exOpt, off := 0, lim := 16 }) ⟨by decide, by decide, by simp [exOpt]⟩ rfl).1

-- !10.128.0.0/9 with AFDLENGTH 2
private def exApl : Bytes := [0, 1, 9, 130, 10, 128]

set_option maxRecDepth 8192 in
example : decApItems 7 { buf := exApl, off := 0, lim := 6 } =
    .ok ([⟨1, 9, true, [10, 128, 0, 0]⟩], { buf := exApl, off := 6, lim := 6, cost := 8 }) := rfl
set_option maxRecDepth 8192 in
example : ApItemsAt exApl 6 0 [⟨1, 9, true, [10, 128, 0, 0]⟩] :=
  (decApItems_sound 7 (d := { buf := exApl, off := 0, lim := 6 }) ⟨by decide, by decide, by simp [exApl]⟩ rfl).1

end Sound
