import DnsVerif.Lemmas.RTShift
import DnsVerif.Lemmas.EncSpecRR

/-! # Round trip, part 8 (C10): the embedding up to the shift of pointer offsets, WITHOUT a size hypothesis
for well-formed records

`RTS.elem_embeds_shift` needs `b.length + 12 ≤ 0x4000` because it only assumes the shape of the record
(names of any size). For a WELL-FORMED record (`WfRR rr`: every name at most 255 octets) the hypothesis can
be dropped (`elem_embeds_shift_wf`): in every row of the record table the compressible names are preceded
only by names and fixed-width numbers (`table_early`, by evaluation of the table), so every compressible
name ends within the first 800 octets of the record, in both runs far below the insertion limit `0x3FFF`;
what follows the last name is written by plain `put`s in both runs, whatever its length.

`Bnd k fs vs s`: static form of "every compressible name of the field list, written from an offset `≤ s`,
ends at an offset `e` with `e + k ≤ 0x4000`" (computed with the uncompressed sizes, an upper bound). -/

namespace RTS

open EncLim

/-! ## Field lists: a static bound instead of the final length -/

def Bnd (k : Nat) : List Fld → List FVal → Nat → Prop
  | f :: fs, v :: vs, s => (f = .name true → s + fieldSize f v + k ≤ 0x4000) ∧ Bnd k fs vs (s + fieldSize f v)
  | _, _, _ => True

theorem Bnd.mono {k : Nat} : ∀ {fs : List Fld} {vs : List FVal} {s s' : Nat}, s' ≤ s → Bnd k fs vs s →
    Bnd k fs vs s' := by
  intro fs
  induction fs with
  | nil => intro vs s s' _ _; simp [Bnd]
  | cons f fs ih =>
    intro vs s s' hle h
    cases vs with
    | nil => simp [Bnd]
    | cons v vs =>
      obtain ⟨h1, h2⟩ := h
      exact ⟨fun hf => by have := h1 hf; omega, ih (by omega) h2⟩

theorem encFields_shift_bnd {k : Nat} : ∀ {fs : List Fld} {vs : List FVal} {eA eB eA' eB' : Enc}, Tab k eA eB →
    encFields eA fs vs = .ok eA' → encFields eB fs vs = .ok eB' → Bnd k fs vs eA.out.length →
    ShStep k eA eB eA' eB' := by
  intro fs
  induction fs with
  | nil =>
    intro vs eA eB eA' eB' tab hA hB _
    cases vs with
    | nil =>
      simp [encFields] at hA hB; subst hA; subst hB
      exact ShStep.refl tab
    | cons v vs => simp [encFields] at hA
  | cons f fs ih =>
    intro vs eA eB eA' eB' tab hA hB hb
    cases vs with
    | nil => simp [encFields] at hA
    | cons v vs =>
      obtain ⟨hb1, hb2⟩ := hb
      unfold encFields at hA hB
      cases hA1 : encField eA f v with
      | error err => simp [hA1] at hA
      | ok eA1 =>
        cases hB1 : encField eB f v with
        | error err => simp [hB1] at hB
        | ok eB1 =>
          simp only [hA1] at hA
          simp only [hB1] at hB
          have b1 := (encField_ok hA1).1.length_le_add
          have s1 := encField_shift tab hA1 hB1 (fun hf => by have := hb1 hf; omega)
          exact s1.trans (ih s1.tab hA hB (Bnd.mono b1 hb2))

/-! ## The static check of a table row -/

def isCName : Fld → Bool
  | .name true => true
  | _ => false

theorem isCName_iff {f : Fld} : isCName f = true ↔ f = .name true := by
  cases f with
  | name c => cases c <;> simp [isCName]
  | _ => simp [isCName]

/-- an upper bound of the uncompressed size of a well-formed value, if the field kind has one -/
def fldMax : Fld → Option Nat
  | .num w => some w
  | .enum w _ => some w
  | .name _ => some 255
  | _ => none

/-- every compressible name of the row, when the fields are written from an offset `≤ s`, ends at most at
`lim`; no compressible name comes after a field of unbounded size -/
def early (lim : Nat) : List Fld → Nat → Bool
  | [], _ => true
  | f :: fs, s =>
    (!isCName f || decide (s + 255 ≤ lim)) &&
    (match fldMax f with
     | some w => early lim fs (s + w)
     | none => !(fs.any isCName))

theorem bnd_of_no_cname {k : Nat} : ∀ (fs : List Fld) (vs : List FVal) (s : Nat), fs.any isCName = false →
    Bnd k fs vs s := by
  intro fs
  induction fs with
  | nil => intro vs s _; simp [Bnd]
  | cons f fs ih =>
    intro vs s h
    cases vs with
    | nil => simp [Bnd]
    | cons v vs =>
      simp only [List.any_cons, Bool.or_eq_false_iff] at h
      refine ⟨fun hf => ?_, ih vs _ h.2⟩
      have := isCName_iff.mpr hf
      rw [h.1] at this; cases this

theorem fieldSize_le_max {f : Fld} {v : FVal} {w : Nat} (hwf : WfVal f v) (hm : fldMax f = some w) :
    fieldSize f v ≤ w := by
  cases f <;> cases v <;> simp [fldMax] at hm <;> simp [WfVal] at hwf <;> simp only [fieldSize]
  · omega
  · omega
  · have : WfName _ := hwf
    have := this.2.1
    omega

theorem bnd_of_early {k lim : Nat} (hl : lim + k ≤ 0x4000) : ∀ (fs : List Fld) (vs : List FVal) (s : Nat),
    WfVals fs vs → early lim fs s = true → Bnd k fs vs s := by
  intro fs
  induction fs with
  | nil => intro vs s _ _; simp [Bnd]
  | cons f fs ih =>
    intro vs s hwf he
    cases vs with
    | nil => simp [Bnd]
    | cons v vs =>
      obtain ⟨hw1, hw2⟩ := hwf
      simp only [early, Bool.and_eq_true, Bool.or_eq_true, Bool.not_eq_true', decide_eq_true_eq] at he
      obtain ⟨he1, he2⟩ := he
      refine ⟨fun hf => ?_, ?_⟩
      · have hc := isCName_iff.mpr hf
        rcases he1 with he1 | he1
        · rw [hc] at he1; cases he1
        · have := fieldSize_le_max hw1 (w := 255) (by subst hf; rfl)
          omega
      · cases hm : fldMax f with
        | none =>
          simp only [hm, Bool.not_eq_true'] at he2
          exact bnd_of_no_cname fs vs _ he2
        | some w =>
          simp only [hm] at he2
          have := fieldSize_le_max hw1 hm
          exact Bnd.mono (by omega) (ih vs (s + w) hw2 he2)

/-- in every row of the record table the compressible names come early: written from an offset `≤ 280`
(owner name of at most 255 octets, ten fixed octets, RDLENGTH, and some slack), each of them ends before
`0x4000 - 12` -/
theorem table_early :
    EncSpec.rowsAll (fun _ info => early (0x4000 - 12) (info.flds.map (·.2)) 280) = true := by decide

/-! ## RDATA and the record -/

theorem rrBody_shift_wf {rr : RR} {eA eB eA' eB' : Enc} (hwf : WfRR rr) (tab : Tab 12 eA eB)
    (hA : rrBody rr eA = .ok eA') (hB : rrBody rr eB = .ok eB') (h0 : eA.out.length ≤ 280) :
    ShStep 12 eA eB eA' eB' := by
  rcases RT.wfRR_cases hwf with ⟨info, vs, hk, hrd, hv, _⟩ | ⟨p, x, v, d, opts, hk, hrd, _⟩ |
    ⟨items, hk, hrd, _⟩ | ⟨b, prio, target, params, hk, hrd, ht, _⟩
  · simp only [rrBody, hk, hrd] at hA hB
    exact encFields_shift_bnd tab hA hB
      (Bnd.mono h0 (bnd_of_early (by decide) _ _ 280 hv (EncSpec.rows_forall table_early hk)))
  · simp only [rrBody, hk, hrd] at hA hB
    rw [encOptions_ok hA, encOptions_ok hB]
    exact ShStep.put tab _
  · simp only [rrBody, hk, hrd] at hA hB
    rw [encApItems_ok hA, encApItems_ok hB]
    exact ShStep.put tab _
  · simp only [rrBody, hk, hrd] at hA hB
    cases hA1 : encName (eA.put (beBytes 2 prio)) target with
    | error err => simp [hA1] at hA
    | ok eA1 =>
      cases hB1 : encName (eB.put (beBytes 2 prio)) target with
      | error err => simp [hB1] at hB
      | ok eB1 =>
        simp only [hA1] at hA
        simp only [hB1] at hB
        have b1 := (encName_step hA1).length_le_add
        simp only [put_out, List.length_append, beBytes_length] at b1
        have hsz := ht.2.1
        have s1 := encName_shift (tab.put (beBytes 2 prio)) hA1 hB1 (by omega)
        by_cases hp : prio = 0
        · rw [if_pos hp] at hA hB
          cases hA; cases hB
          exact (ShStep.put tab _).trans s1
        · rw [if_neg hp] at hA hB
          rw [encSvcParams_ok hA, encSvcParams_ok hB]
          exact ((ShStep.put tab _).trans s1).trans (ShStep.put s1.tab _)

/-- **lock-step for `Encoder::rr`, well-formed record, run A from (almost) the start of the output** -/
theorem encRR_shift_wf {rr : RR} {eA eB eA' eB' : Enc} (hwf : WfRR rr) (tab : Tab 12 eA eB)
    (hA : encRR eA rr = .ok eA') (hB : encRR eB rr = .ok eB') (h0 : eA.out.length ≤ 15) :
    ∃ xA xB Q, eA'.out = eA.out ++ xA ∧ eB'.out = eB.out ++ xB ∧ Sh 12 eA.out.length xA xB Q := by
  have hsz := (RT.wfRR_owner hwf).2.1
  refine encRR_assemble (RT.wfRR_shaped hwf) hA hB
    (fun _ _ hA1 hB1 _ => encName_shift tab hA1 hB1 ?_)
    (fun eA1 _ _ _ hA1 tab1 hA2 hB2 _ => rrBody_shift_wf hwf ((tab1.put _).put _) hA2 hB2 ?_)
  · have := (encName_step hA1).length_le_add
    omega
  · have := (encName_step hA1).length_le_add
    have hfix := rrFixed_length rr
    simp only [put_out, List.length_append, hfix, List.length_cons, List.length_nil]
    omega

/-! ## The embedding -/

/-- **C10 `elem_embeds_shift_wf`.** For every WELL-FORMED record, of any size, and every successfully
encoded message with an empty question section and this record as first answer: the twelve header octets are
followed by octets `b'` that are the stand-alone encoding `b` with every compression pointer moved by 12. -/
theorem elem_embeds_shift_wf {m : Msg} {rr : RR} {rest : List RR} {b bm : Bytes}
    (hsm : ShapedMsg m) (hwf : WfRR rr) (hq : m.qs = []) (han : m.an = rr :: rest)
    (h : encodeRR rr = .ok b) (hm : encodeDns m = .ok bm) :
    ∃ P b' tail, bm = msgHeader m ++ b' ++ tail ∧ ShiftEq P 12 b b' := by
  obtain ⟨b', tail, hbm, P, sh⟩ := embeds_of_shift (R := fun b b' => ∃ P, Sh 12 0 b b' P) hsm hq han h hm
    (fun eA' eB' hA hB => by
      have tab : Tab 12 {} (Enc.put {} (msgHeader m)) :=
        ⟨by simp [msgHeader_length], rfl, fun q hq => by simp at hq⟩
      obtain ⟨xA, xB, Q, hxA, hxB, sh⟩ := encRR_shift_wf hwf tab hA hB (by simp)
      refine ⟨xB, by rw [hxB]; simp, Q, ?_⟩
      have : eA'.out = xA := by rw [hxA]; simp
      rw [this]
      simpa using sh)
  exact ⟨P, b', tail, hbm, sh.toShiftEq⟩

/-! ## Non-vacuity: an HTTPS record of 16423 octets (beyond the reach of `elem_embeds_shift`) -/

private def exBig : RR := ⟨[[97]], 65, 1, 60, .svcb 1 [[98], [97]] [.priv 65000 (List.replicate 16400 0)]⟩
private def exBigMsg : Msg := ⟨7, ⟨false, 0, false, false, false, false, false, false, 0⟩, [], [exBig], [], []⟩
private def exBigA : Bytes :=
  [1, 97, 0, 0, 65, 0, 1, 0, 0, 0, 60, 64, 26, 0, 1, 1, 98, 192, 0, 253, 232, 64, 16] ++ List.replicate 16400 0
private def exBigB : Bytes :=
  [1, 97, 0, 0, 65, 0, 1, 0, 0, 0, 60, 64, 26, 0, 1, 1, 98, 192, 12, 253, 232, 64, 16] ++ List.replicate 16400 0

private theorem exBig_wf : WfRR exBig := by
  have h1 : WfName [[97]] :=
    ⟨by intro l hl; simp at hl; subst hl; simp [wfLabel], by simp [Name.sz],
     by intro l hl; simp at hl; subst hl; decide⟩
  have h2 : WfName [[98], [97]] :=
    ⟨by intro l hl; simp at hl; rcases hl with rfl | rfl <;> simp [wfLabel], by simp [Name.sz],
     by intro l hl; simp at hl; rcases hl with rfl | rfl <;> decide⟩
  refine ⟨⟨⟨true, rfl⟩, by decide, h2, trivial, ?_, fun h => by simp at h⟩, h1, ⟨by decide, rfl⟩, by decide⟩
  intro p hp
  rw [List.mem_singleton.mp hp]
  exact ⟨by decide, by decide⟩

set_option maxRecDepth 100000 in
private theorem exBig_enc : encodeRR exBig = .ok exBigA ∧
    encodeDns exBigMsg = .ok ([0, 7, 0, 0, 0, 0, 0, 1, 0, 0, 0, 0] ++ exBigB) := ⟨rfl, rfl⟩

example : ¬ (exBigA.length + 12 ≤ 0x4000) := by
  unfold exBigA
  rw [List.length_append, List.length_replicate]
  decide

example : ∃ P b' tail, [0, 7, 0, 0, 0, 0, 0, 1, 0, 0, 0, 0] ++ exBigB = msgHeader exBigMsg ++ b' ++ tail ∧
    ShiftEq P 12 exBigA b' :=
  elem_embeds_shift_wf (m := exBigMsg) (by decide) exBig_wf rfl rfl exBig_enc.1 exBig_enc.2

end RTS
