import DnsVerif.Lemmas.EncName
import DnsVerif.Lemmas.AddrEmit

/-! # Encoder limits, part 1: primitives (properties C08 and the encoder half of C01)

Output-length bookkeeping and exact error behaviour of the primitive writers (`Enc.put`,
`Enc.cstr`, `encCstrs`, `encName`, `encNameU`), for ALL values and ALL encoder states (no
well-formedness premise). Files of the series: `EncLimPrim` → `EncLimWin` (back-patches, loops) →
`EncLimBody` (fields, options, APL items, SvcParams) → `EncLimRR` (records) → `EncLimDns`
(messages) → `EncLimMsg` (entry points, the theorems of C08, known findings).

Vocabulary used throughout:
* `Step e e' k`: `e'.out = e.out ++ x` for some `x` of at most `k` octets (so the old output is
  untouched and the output only grows, by at most `k` octets) and the weak table invariant `IdxLe`
  is kept;
* `IdxLe e`: every offset in the compression table is `≤ 0x3FFF` (implied by `EInv S e`, hence
  true in every reachable state; kept by every writer for EVERY value, which `EInv` is not: `EInv`
  needs well-formed names);
* `Cause e err S A1 A2 C sz`: the classification of an error returned by a writer started in state
  `e` on a value of uncompressed size `sz`. -/

namespace EncLim

/-! ## Small arithmetic facts -/

theorem ofNat_toNat_255 {n : Nat} (h : n ≤ 255) : (UInt8.ofNat n).toNat = n :=
  UInt8.ofNat_toNat_lt (by omega)

/-- two big-endian octets hold every `n ≤ 65535` exactly (not wrapped, not truncated) -/
theorem beVal_beBytes2 {n : Nat} (h : n ≤ 65535) : beVal (beBytes 2 n) = n := by
  have h1 : (UInt8.ofNat (n / 256 % 256)).toNat = n / 256 % 256 := UInt8.ofNat_toNat_lt (by omega)
  have h2 : (UInt8.ofNat (n % 256)).toNat = n % 256 := UInt8.ofNat_toNat_lt (by omega)
  simp [beBytes, beVal, h1, h2]
  omega

/-- `ptrOff` of the two octets of `ptrBytes off` is `off`, and the first octet is a pointer octet -/
theorem ptrOff_ptrBytes {off : Nat} (h : off ≤ 0x3FFF) :
    ptrOff ((ptrBytes off)[0]'(by simp [ptrBytes])) ((ptrBytes off)[1]'(by simp [ptrBytes])) = off ∧
    192 ≤ ((ptrBytes off)[0]'(by simp [ptrBytes])).toNat ∧
    isPtr ((ptrBytes off)[0]'(by simp [ptrBytes])) = true := by
  have ⟨p1, p2⟩ := ptr_arith h
  refine ⟨?_, ?_, ?_⟩
  · simpa [ptrBytes] using p2
  · simpa [ptrBytes] using p1
  · simp only [isPtr, ptrBytes, List.getElem_cons_zero]
    exact decide_eq_true p1

theorem ptrBytes_length (off : Nat) : (ptrBytes off).length = 2 := rfl

/-! ## The weak table invariant -/

/-- every offset stored in the compression table can be written as a 14-bit pointer -/
def IdxLe (e : Enc) : Prop := ∀ p ∈ e.idx, p.2.1 ≤ 0x3FFF

theorem IdxLe.empty : IdxLe {} := fun _ hp => by simp at hp

theorem IdxLe.of_EInv {S : Nat → Prop} {e : Enc} (h : EInv S e) : IdxLe e :=
  fun p hp => (h.2 p hp).1

theorem IdxLe.of_Reach {S : Nat → Prop} {e : Enc} (h : Reach S e) : IdxLe e :=
  IdxLe.of_EInv (reachable_inv h)

theorem IdxLe.of_idx_eq {e e' : Enc} (h : e'.idx = e.idx) (hi : IdxLe e) : IdxLe e' := by
  intro p hp; rw [h] at hp; exact hi p hp

/-! ## `Step`: what one complete writer call does to the output -/

/-- `e'` was obtained from `e` by appending at most `k` octets; nothing that was already in the
output was changed; the weak table invariant is kept -/
def Step (e e' : Enc) (k : Nat) : Prop :=
  (∃ x, e'.out = e.out ++ x ∧ x.length ≤ k) ∧ (IdxLe e → IdxLe e')

theorem Step.refl (e : Enc) (k : Nat) : Step e e k := ⟨⟨[], by simp, by simp⟩, id⟩

theorem Step.trans {e1 e2 e3 : Enc} {k1 k2 : Nat} (h1 : Step e1 e2 k1) (h2 : Step e2 e3 k2) :
    Step e1 e3 (k1 + k2) := by
  obtain ⟨⟨x, hx, hxl⟩, hi1⟩ := h1
  obtain ⟨⟨y, hy, hyl⟩, hi2⟩ := h2
  refine ⟨⟨x ++ y, by rw [hy, hx, List.append_assoc], by simp; omega⟩, fun h => hi2 (hi1 h)⟩

theorem Step.weaken {e e' : Enc} {k k' : Nat} (h : Step e e' k) (hk : k ≤ k') : Step e e' k' := by
  obtain ⟨⟨x, hx, hxl⟩, hi⟩ := h
  exact ⟨⟨x, hx, by omega⟩, hi⟩

theorem Step.put (e : Enc) (x : Bytes) : Step e (e.put x) x.length :=
  ⟨⟨x, rfl, Nat.le_refl _⟩, fun h => h⟩

/-- the output only grows -/
theorem Step.length_le {e e' : Enc} {k : Nat} (h : Step e e' k) : e.out.length ≤ e'.out.length := by
  obtain ⟨⟨x, hx, _⟩, _⟩ := h
  rw [hx, List.length_append]; omega

/-- … by at most `k` octets -/
theorem Step.length_le_add {e e' : Enc} {k : Nat} (h : Step e e' k) :
    e'.out.length ≤ e.out.length + k := by
  obtain ⟨⟨x, hx, _⟩, _⟩ := h
  rw [hx, List.length_append]; omega

/-- the old output is a prefix of the new one -/
theorem Step.take {e e' : Enc} {k : Nat} (h : Step e e' k) : e'.out.take e.out.length = e.out := by
  obtain ⟨⟨x, hx, _⟩, _⟩ := h
  rw [hx, List.take_left']; rfl

/-- every old octet is still where it was -/
theorem Step.get {e e' : Enc} {k : Nat} (h : Step e e' k) (i : Nat) (hi : i < e.out.length) :
    e'.out[i]? = e.out[i]? := by
  obtain ⟨⟨x, hx, _⟩, _⟩ := h
  rw [hx, List.getElem?_append_left hi]

theorem Step.ext {e e' : Enc} {k : Nat} (h : Step e e' k) : ∃ x, e'.out = e.out ++ x := by
  obtain ⟨⟨x, hx, _⟩, _⟩ := h
  exact ⟨x, hx⟩

theorem Step.idx {e e' : Enc} {k : Nat} (h : Step e e' k) : IdxLe e → IdxLe e' := h.2

/-! ## Classification of errors -/

/-- Why a writer that was started in state `e` on a value of uncompressed size `sz` returned `err`:
* `.string`: `S` (the value contains a character-string or label of more than 255 octets);
* `.length`: `A2` (the value contains an APL address of more than 255 octets, after stripping),
  or `C` (a section has more than 65535 entries), or the output would exceed 65535 octets
  (`65535 < e.out.length + sz`; this covers: a label written at an offset `> 65535`, an RDATA /
  option / SvcParam window or an `ech` of more than 65535 octets, a message of more than 65535);
* `.aplAddressLength`: `A1` (the value contains an APL address of 128..255 octets);
* `.compression`: the table has an offset above `0x3FFF` (impossible in reachable states).
No other error kind (`.panic _`, `.notEnoughBytes`, `.maxRecursion`) occurs. -/
def Cause (e : Enc) (err : EErr) (S A1 A2 C : Prop) (sz : Nat) : Prop :=
  (err = .string ∧ S) ∨ (err = .length ∧ (A2 ∨ C ∨ 65535 < e.out.length + sz)) ∨
  (err = .aplAddressLength ∧ A1) ∨ (err = .compression ∧ ¬ IdxLe e)

/-- transport of a cause from a later state `e1` of the same call to its start state `e` -/
theorem Cause.lift {e e1 : Enc} {err : EErr} {S A1 A2 C S' A1' A2' C' : Prop} {sz sz' : Nat}
    (h : Cause e1 err S A1 A2 C sz) (hS : S → S') (hA1 : A1 → A1') (hA2 : A2 → A2') (hC : C → C')
    (hlen : e1.out.length + sz ≤ e.out.length + sz') (hidx : IdxLe e → IdxLe e1) :
    Cause e err S' A1' A2' C' sz' := by
  rcases h with ⟨he, h⟩ | ⟨he, h⟩ | ⟨he, h⟩ | ⟨he, h⟩
  · exact Or.inl ⟨he, hS h⟩
  · refine Or.inr (Or.inl ⟨he, ?_⟩)
    rcases h with h | h | h
    · exact Or.inl (hA2 h)
    · exact Or.inr (Or.inl (hC h))
    · exact Or.inr (Or.inr (by omega))
  · exact Or.inr (Or.inr (Or.inl ⟨he, hA1 h⟩))
  · exact Or.inr (Or.inr (Or.inr ⟨he, fun hi => h (hidx hi)⟩))

/-- the same through a `Step` -/
theorem Cause.lift_step {e e1 : Enc} {err : EErr} {S A1 A2 C S' A1' A2' C' : Prop} {sz sz' k : Nat}
    (h : Cause e1 err S A1 A2 C sz) (hst : Step e e1 k)
    (hS : S → S') (hA1 : A1 → A1') (hA2 : A2 → A2') (hC : C → C') (hsz : k + sz ≤ sz') :
    Cause e err S' A1' A2' C' sz' :=
  h.lift hS hA1 hA2 hC (by have := hst.length_le_add; omega) hst.idx

theorem Cause.ne_panic {e err S A1 A2 C sz} (h : Cause e err S A1 A2 C sz) (s : String) :
    err ≠ .panic s := by
  rcases h with ⟨he, _⟩ | ⟨he, _⟩ | ⟨he, _⟩ | ⟨he, _⟩ <;> (subst he; intro h; cases h)

theorem Cause.ne_notEnoughBytes {e err S A1 A2 C sz} (h : Cause e err S A1 A2 C sz) :
    err ≠ .notEnoughBytes := by
  rcases h with ⟨he, _⟩ | ⟨he, _⟩ | ⟨he, _⟩ | ⟨he, _⟩ <;> (subst he; intro h; cases h)

theorem Cause.ne_maxRecursion {e err S A1 A2 C sz} (h : Cause e err S A1 A2 C sz) :
    err ≠ .maxRecursion := by
  rcases h with ⟨he, _⟩ | ⟨he, _⟩ | ⟨he, _⟩ | ⟨he, _⟩ <;> (subst he; intro h; cases h)

theorem Cause.ne_compression {e err S A1 A2 C sz} (h : Cause e err S A1 A2 C sz) (hi : IdxLe e) :
    err ≠ .compression := by
  rcases h with ⟨he, _⟩ | ⟨he, _⟩ | ⟨he, _⟩ | ⟨_, hn⟩
  · subst he; intro h; cases h
  · subst he; intro h; cases h
  · subst he; intro h; cases h
  · exact absurd hi hn

/-- the three error kinds that remain in states satisfying the table invariant -/
theorem Cause.kinds {e err S A1 A2 C sz} (h : Cause e err S A1 A2 C sz) (hi : IdxLe e) :
    err = .string ∨ err = .length ∨ err = .aplAddressLength := by
  rcases h with ⟨he, _⟩ | ⟨he, _⟩ | ⟨he, _⟩ | ⟨_, hn⟩
  · exact Or.inl he
  · exact Or.inr (Or.inl he)
  · exact Or.inr (Or.inr he)
  · exact absurd hi hn

/-! ## `Enc.put`, `Enc.cstr`, `encCstrs` -/

@[simp] theorem put_out (e : Enc) (x : Bytes) : (e.put x).out = e.out ++ x := rfl
@[simp] theorem put_idx (e : Enc) (x : Bytes) : (e.put x).idx = e.idx := rfl
theorem put_put (e : Enc) (x y : Bytes) : (e.put x).put y = e.put (x ++ y) := by
  simp [Enc.put]
theorem put_nil (e : Enc) : e.put [] = e := by simp [Enc.put]

/-- the wire form of one `<character-string>` -/
def cstrWire (s : Bytes) : Bytes := UInt8.ofNat s.length :: s

/-- **`Encoder::string`, exactly**: a string of more than 255 octets is refused with `.string`,
any other is written as its length octet (which holds the true length) followed by its octets -/
theorem cstr_eq (e : Enc) (s : Bytes) :
    e.cstr s = if 255 < s.length then .error .string else .ok (e.put (cstrWire s)) := rfl

theorem cstr_ok {e e' : Enc} {s : Bytes} (h : e.cstr s = .ok e') :
    s.length ≤ 255 ∧ e'.out = e.out ++ UInt8.ofNat s.length :: s ∧ e'.idx = e.idx ∧
    (UInt8.ofNat s.length).toNat = s.length := by
  rw [cstr_eq] at h
  split at h
  · simp at h
  · rename_i hle
    simp at h; subst h
    exact ⟨by omega, rfl, rfl, ofNat_toNat_255 (by omega)⟩

theorem cstr_err {e : Enc} {s : Bytes} {err : EErr} (h : e.cstr s = .error err) :
    err = .string ∧ 255 < s.length := by
  rw [cstr_eq] at h
  split at h
  · rename_i hgt; simp at h; exact ⟨h.symm, hgt⟩
  · simp at h

theorem cstr_long (e : Enc) {s : Bytes} (h : 255 < s.length) : e.cstr s = .error .string := by
  rw [cstr_eq, if_pos h]

theorem cstr_step {e e' : Enc} {s : Bytes} (h : e.cstr s = .ok e') : Step e e' (s.length + 1) := by
  obtain ⟨_, ho, hi, _⟩ := cstr_ok h
  exact ⟨⟨_, ho, by simp⟩, IdxLe.of_idx_eq hi⟩

/-- the wire form of a sequence of `<character-string>`s -/
def cstrsWire (l : List Bytes) : Bytes := l.flatMap cstrWire

def cstrsSize (l : List Bytes) : Nat := (l.map (fun s => s.length + 1)).sum

theorem cstrsWire_length (l : List Bytes) : (cstrsWire l).length = cstrsSize l := by
  induction l with
  | nil => rfl
  | cons s r ih =>
    simp only [cstrsWire, List.flatMap_cons, List.length_append] at ih ⊢
    simp [ih, cstrsSize, cstrWire]

/-- **`encCstrs`, exactly** -/
theorem encCstrs_eq : ∀ (l : List Bytes) (e : Enc),
    encCstrs e l = if ∃ s ∈ l, 255 < s.length then .error .string else .ok (e.put (cstrsWire l)) := by
  intro l
  induction l with
  | nil => intro e; simp [encCstrs, cstrsWire, put_nil]
  | cons s r ih =>
    intro e
    rw [encCstrs, cstr_eq]
    by_cases hs : 255 < s.length
    · have : ∃ x ∈ s :: r, 255 < x.length := ⟨s, by simp, hs⟩
      rw [if_pos hs, if_pos this]
    · rw [if_neg hs]
      simp only [ih]
      by_cases hr : ∃ x ∈ r, 255 < x.length
      · have : ∃ x ∈ s :: r, 255 < x.length := by
          obtain ⟨x, hx, hl⟩ := hr; exact ⟨x, by simp [hx], hl⟩
        rw [if_pos hr, if_pos this]
      · have : ¬ ∃ x ∈ s :: r, 255 < x.length := by
          rintro ⟨x, hx, hl⟩
          simp at hx
          rcases hx with rfl | hx
          · exact hs hl
          · exact hr ⟨x, hx, hl⟩
        rw [if_neg hr, if_neg this, put_put]
        rfl

theorem encCstrs_ok {e e' : Enc} {l : List Bytes} (h : encCstrs e l = .ok e') :
    (∀ s ∈ l, s.length ≤ 255) ∧ e' = e.put (cstrsWire l) := by
  rw [encCstrs_eq] at h
  split at h
  · simp at h
  · rename_i hn
    simp at h
    refine ⟨fun s hs => ?_, h.symm⟩
    rcases Nat.lt_or_ge 255 s.length with hlt | hge
    · exact absurd ⟨s, hs, hlt⟩ hn
    · exact hge

theorem encCstrs_err {e : Enc} {l : List Bytes} {err : EErr} (h : encCstrs e l = .error err) :
    err = .string ∧ ∃ s ∈ l, 255 < s.length := by
  rw [encCstrs_eq] at h
  split at h
  · rename_i hex; simp at h; exact ⟨h.symm, hex⟩
  · simp at h

theorem encCstrs_long (e : Enc) {l : List Bytes} (h : ∃ s ∈ l, 255 < s.length) :
    encCstrs e l = .error .string := by
  rw [encCstrs_eq, if_pos h]

theorem encCstrs_step {e e' : Enc} {l : List Bytes} (h : encCstrs e l = .ok e') :
    Step e e' (cstrsSize l) := by
  obtain ⟨_, rfl⟩ := encCstrs_ok h
  rw [← cstrsWire_length]; exact Step.put _ _

/-! ## The name writers -/

/-- the literal part of a name on the wire (no terminator) -/
def labelsWire (n : Name) : Bytes := n.flatMap (fun l => UInt8.ofNat l.length :: l)

theorem labelsWire_length (n : Name) : (labelsWire n).length = Name.sz n := by
  induction n with
  | nil => rfl
  | cons l r ih =>
    simp only [labelsWire, List.flatMap_cons, List.length_append, List.length_cons] at ih ⊢
    rw [ih, Name.sz_cons]

theorem labelsWire_cons (l : Label) (r : Name) :
    labelsWire (l :: r) = (UInt8.ofNat l.length :: l) ++ labelsWire r := by
  simp [labelsWire]

/-- **What `Encoder::domain_name` appends, for every name and every state**: a literal prefix
`pre` of the name (every label of it at most 255 octets long and started at an offset `≤ 65535`),
followed either by the root octet (then `pre` is the whole name) or by ONE compression pointer
`ptrBytes off` whose target is `≤ 0x3FFF`. The weak table invariant is kept. -/
theorem encNameGo_shape : ∀ (n : Name) (e e' : Enc) (loc : List (Name × Nat)),
    encNameGo e n loc = .ok e' →
    (∃ pre post, n = pre ++ post ∧ (∀ l ∈ pre, l.length ≤ 255) ∧
      (∀ p1 l p2, pre = p1 ++ l :: p2 → e.out.length + Name.sz p1 ≤ 65535) ∧
      ((post = [] ∧ e'.out = e.out ++ labelsWire pre ++ [0]) ∨
       (post ≠ [] ∧ ∃ off, off ≤ 0x3FFF ∧ e'.out = e.out ++ labelsWire pre ++ ptrBytes off))) ∧
    (IdxLe e → (∀ q ∈ loc, q.2 ≤ 0x3FFF) → IdxLe e') := by
  intro n
  induction n with
  | nil =>
    intro e e' loc h
    simp [encNameGo, Enc.merge] at h
    subst h
    refine ⟨⟨[], [], rfl, by simp, ?_, Or.inl ⟨rfl, by simp [labelsWire]⟩⟩, ?_⟩
    · intro p1 l p2 hp; simp at hp
    · intro hi hloc p hp
      simp only [List.mem_append, List.mem_map] at hp
      rcases hp with ⟨q, hq, rfl⟩ | hp
      · exact hloc q hq
      · exact hi p hp
  | cons l rest ih =>
    intro e e' loc h
    have hlit : ∀ (_ : (if e.out.length > 65535 then Except.error EErr.length
        else if l.length > 255 then Except.error EErr.string
        else encNameGo { e with out := e.out ++ (UInt8.ofNat l.length :: l) } rest
              (if e.out.length ≤ 0x3FFF then (l :: rest, e.out.length) :: loc else loc)) = .ok e'),
        (∃ pre post, l :: rest = pre ++ post ∧ (∀ l ∈ pre, l.length ≤ 255) ∧
          (∀ p1 l p2, pre = p1 ++ l :: p2 → e.out.length + Name.sz p1 ≤ 65535) ∧
          ((post = [] ∧ e'.out = e.out ++ labelsWire pre ++ [0]) ∨
           (post ≠ [] ∧ ∃ off, off ≤ 0x3FFF ∧ e'.out = e.out ++ labelsWire pre ++ ptrBytes off))) ∧
        (IdxLe e → (∀ q ∈ loc, q.2 ≤ 0x3FFF) → IdxLe e') := by
      intro h
      split at h; · simp at h
      rename_i hoff
      split at h; · simp at h
      rename_i hlen
      obtain ⟨⟨pre, post, hsplit, hpre, hoffs, hout⟩, hidx⟩ := ih _ _ _ h
      simp only at hout hoffs
      refine ⟨⟨l :: pre, post, by rw [hsplit]; rfl, ?_, ?_, ?_⟩, ?_⟩
      · intro x hx
        rcases List.mem_cons.mp hx with rfl | hx
        · omega
        · exact hpre x hx
      · intro p1 x p2 hp
        cases p1 with
        | nil => simp only [Name.sz_nil]; omega
        | cons y p1 =>
          simp only [List.cons_append, List.cons.injEq] at hp
          have := hoffs p1 x p2 hp.2
          simp only [List.length_append, List.length_cons] at this
          rw [Name.sz_cons, ← hp.1]; omega
      · rcases hout with ⟨hp, ho⟩ | ⟨hp, off, hoff', ho⟩
        · exact Or.inl ⟨hp, by rw [ho, labelsWire_cons]; simp⟩
        · exact Or.inr ⟨hp, off, hoff', by rw [ho, labelsWire_cons]; simp⟩
      · intro hi hloc
        apply hidx hi
        intro q hq
        split at hq
        · rename_i hle
          rcases List.mem_cons.mp hq with rfl | hq
          · exact hle
          · exact hloc q hq
        · exact hloc q hq
    unfold encNameGo at h
    cases hlk : e.lookup (l :: rest) with
    | none => simp only [hlk] at h; exact hlit h
    | some pr =>
      obtain ⟨off, r⟩ := pr
      simp only [hlk] at h
      split at h; · simp at h
      rename_i hoff
      split at h
      · exact hlit h
      · rename_i hr
        simp only [Enc.merge] at h
        have : ¬ (r + 1 > 16) := by omega
        simp [this] at h
        subst h
        refine ⟨⟨[], l :: rest, rfl, by simp, ?_, Or.inr ⟨by simp, off, by omega, by simp [labelsWire]⟩⟩, ?_⟩
        · intro p1 x p2 hp; simp at hp
        · intro hi hloc p hp
          simp only [List.mem_append, List.mem_map] at hp
          rcases hp with ⟨q, hq, rfl⟩ | hp
          · exact hloc q hq
          · exact hi p hp

/-- every pointer written by `Encoder::domain_name` has a target `≤ 0x3FFF` (from ANY state, for
ANY name), and its two octets read back as that target -/
theorem encName_pointer_le {e e' : Enc} {n : Name} (h : encName e n = .ok e') :
    ∃ pre post, n = pre ++ post ∧ (∀ l ∈ pre, l.length ≤ 255) ∧
      ((post = [] ∧ e'.out = e.out ++ labelsWire pre ++ [0]) ∨
       (post ≠ [] ∧ ∃ off, off ≤ 0x3FFF ∧ e'.out = e.out ++ labelsWire pre ++ ptrBytes off ∧
          ptrOff (UInt8.ofNat (192 + off / 256)) (UInt8.ofNat (off % 256)) = off ∧
          192 ≤ (UInt8.ofNat (192 + off / 256)).toNat)) := by
  obtain ⟨⟨pre, post, hs, hp, _, ho⟩, _⟩ := encNameGo_shape n e e' [] h
  refine ⟨pre, post, hs, hp, ?_⟩
  rcases ho with ho | ⟨hne, off, hoff, ho⟩
  · exact Or.inl ho
  · exact Or.inr ⟨hne, off, hoff, ho, (ptr_arith hoff).2, (ptr_arith hoff).1⟩

theorem encName_step {e e' : Enc} {n : Name} (h : encName e n = .ok e') :
    Step e e' (Name.sz n + 1) := by
  obtain ⟨x, hx, _, hl⟩ := encName_size_le h
  exact ⟨⟨x, hx, hl⟩, fun hi => (encNameGo_shape n e e' [] h).2 hi (by simp)⟩

theorem encName_cause {e : Enc} {n : Name} {err : EErr} (h : encName e n = .error err) :
    Cause e err (∃ l ∈ n, 255 < l.length) False False False (Name.sz n + 1) := by
  rcases encNameGo_error_cases n e [] err h with ⟨he, pre, l, post, hs, hgt⟩ | ⟨he, hl⟩ | ⟨he, p, hp, hgt⟩
  · refine Or.inr (Or.inl ⟨he, Or.inr (Or.inr ?_)⟩)
    have : Name.sz n = Name.sz pre + (l.length + 1 + Name.sz post) := by
      rw [hs, Name.sz_append, Name.sz_cons]
    omega
  · exact Or.inl ⟨he, hl⟩
  · refine Or.inr (Or.inr (Or.inr ⟨he, fun hi => ?_⟩))
    have := hi p hp; omega

theorem encNameU_step {e e' : Enc} {n : Name} (h : encNameU e n = .ok e') :
    Step e e' (Name.sz n + 1) := by
  have := encNameU_out n e e' h
  subst this
  rw [← Name.wire_length]; exact Step.put _ _

theorem encNameU_cause {e : Enc} {n : Name} {err : EErr} (h : encNameU e n = .error err) :
    Cause e err (∃ l ∈ n, 255 < l.length) False False False (Name.sz n + 1) := by
  rcases encNameU_error_cases n e err h with ⟨he, pre, l, post, hs, hgt⟩ | ⟨he, hl⟩
  · refine Or.inr (Or.inl ⟨he, Or.inr (Or.inr ?_)⟩)
    have : Name.sz n = Name.sz pre + (l.length + 1 + Name.sz post) := by
      rw [hs, Name.sz_append, Name.sz_cons]
    omega
  · exact Or.inl ⟨he, hl⟩

/-- on success the uncompressed writer has checked every label -/
theorem encNameU_ok_labels : ∀ (n : Name) (e e' : Enc), encNameU e n = .ok e' →
    ∀ l ∈ n, l.length ≤ 255 := by
  intro n
  induction n with
  | nil => intro e e' _ l hl; simp at hl
  | cons l rest ih =>
    intro e e' h x hx
    unfold encNameU at h
    split at h; · simp at h
    split at h; · simp at h
    rename_i hlen
    rcases List.mem_cons.mp hx with rfl | hx
    · omega
    · exact ih _ _ h x hx

/-- a label of more than 255 octets makes the uncompressed writer fail, from every state -/
theorem encNameU_long (e : Enc) {n : Name} (h : ∃ l ∈ n, 255 < l.length) :
    ∃ err, encNameU e n = .error err := by
  cases hr : encNameU e n with
  | error err => exact ⟨err, rfl⟩
  | ok e' =>
    obtain ⟨l, hl, hgt⟩ := h
    have := encNameU_ok_labels n e e' hr l hl
    omega

end EncLim
