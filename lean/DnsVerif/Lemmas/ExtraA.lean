import DnsVerif.Lemmas.EncLimMsg
import DnsVerif.Lemmas.EncSpecMsg
import DnsVerif.Lemmas.CompleteSvcb

/-! # Property-level statements that were missing in `Props/C08`, `Props/C16`, `Props/C17`

Everything here is a combination of lemmas of `EncLim*` (exact output / limits of the writers),
`EncSpec*` (writer ⇒ wire grammar) and `AddrEmit`:

* `alias_no_params` – the alias form (priority 0) never carries parameters (C16, general form of K4b);
* `svcb_emit_wspec` / `svcb_emit` / `svcb_emit_fresh` – the SvcParams of an SVCB / HTTPS record are on
  the wire in the order of the parameter list, whose keys are strictly increasing (C16);
* `encApItem_emits`, `encOption_ecs_emits` – what the APL / ECS writers append (C17);
* `encRR_opt_too_long`, `encRR_apl_too_long` – value-level "RDATA too long ⇒ error" for the two
  kinds of record whose RDATA contains no name (C08). -/

namespace ExtraA

open EncSpec

/-! ## C16: alias form -/

/-- **C16 (alias form).** From every encoder state, for every owner, TYPE, class, TTL, target and
parameter list: a record whose body is `svcb 0 target ps` is written exactly like the one with
`svcb 0 target []` (for TYPE 64 / 65 this is "no parameters in alias form"; for every other TYPE
both sides are the same error). -/
theorem alias_no_params (e : Enc) (name : Name) (ty cls ttl : Nat) (target : Name) (ps : List SvcParam) :
    encRR e ⟨name, ty, cls, ttl, .svcb 0 target ps⟩ = encRR e ⟨name, ty, cls, ttl, .svcb 0 target []⟩ := by
  unfold encRR
  cases rrKind ty with
  | none => rfl
  | some k => cases k <;> simp

/-- the same for `RR::encode` (fresh encoder) -/
theorem alias_no_params_encode (name : Name) (ty cls ttl : Nat) (target : Name) (ps : List SvcParam) :
    encodeRR ⟨name, ty, cls, ttl, .svcb 0 target ps⟩ = encodeRR ⟨name, ty, cls, ttl, .svcb 0 target []⟩ := by
  unfold encodeRR
  rw [alias_no_params]

/-! ## C16: the parameters on the wire, in key order

The Rust value holds the parameters in a `BTreeSet` ordered by key; the model represents it as a list
and `WfRR` carries the set invariant `keysSorted params` (established by the only constructor of such
lists, `insertParam`: `C16.insertParam_sorted`). The writer `encSvcParams` walks the list front to back
and neither reorders nor drops nor repeats an element, so the order ON THE WIRE is the order of the
list: strictly increasing keys. -/

/-- the region `[s, t)` holds an SVCB / HTTPS record frame whose RDATA is: priority, target name, and
then, filling the RDATA window exactly, the parameters `ps` (each `mandatory` key list sorted) one
after the other IN THIS ORDER -/
def SvcbEmitAt (rr : RR) (prio : Nat) (target : Name) (ps : List SvcParam) (buf : Bytes) (s t : Nat) : Prop :=
  ∃ owner' e0 rdlen tg' e1, owner'.lower = rr.name.lower ∧ NameRefAt buf true s owner' e0 ∧ rdlen < 65536 ∧
    BytesAt buf e0 (beBytes 2 rr.ty ++ beBytes 2 1 ++ beBytes 4 rr.ttl ++ beBytes 2 rdlen) ∧
    t = e0 + 10 + rdlen ∧ BytesAt buf (e0 + 10) (beBytes 2 prio) ∧
    tg'.lower = target.lower ∧ NameRefAt buf true (e0 + 12) tg' e1 ∧ e1 ≤ t ∧
    SvcParamsAt buf t e1 (ps.map SvcParam.norm)

/-- `Encoder::rr` on an SVCB / HTTPS record, from any state satisfying the table invariant -/
theorem svcb_emit_wspec {rr : RR} {prio : Nat} {target : Name} {ps : List SvcParam}
    (hwf : WfRR rr) (hrd : rr.rd = .svcb prio target ps) :
    WSpec (fun e => encRR e rr) (SvcbEmitAt rr prio target ps) := by
  obtain ⟨name, ty, cls, ttl, rd⟩ := rr
  simp only at hrd
  subst hrd
  obtain ⟨⟨⟨https, hk⟩, hprio, htarget, hsorted, hparams, h0⟩, hname, hcls, httl⟩ := hwf
  simp only at hk hname hcls httl
  refine ((frame_spec hname _ (spec_seq (spec_put (beBytes 2 prio)) (spec_seq (spec_name htarget)
    (svcTail_spec hparams h0)))).of_eq
    (encRR_svcb_eq (rr := ⟨name, ty, cls, ttl, .svcb prio target ps⟩) hk rfl)).conseq ?_
  intro buf s t _ _ hF
  obtain ⟨n', m, len, hci, hn, hlen, hH, rfl, m3, _, _, ⟨rfl, hP⟩, m4, _, hm4, ⟨tg', htci, htn⟩, hps⟩ :=
    hF.elim (by simp)
  simp only [beBytes_length] at htn
  exact ⟨n', m, len, tg', m4, hci, hn, hlen, hH, rfl, hP, htci, htn, hm4, hps⟩

/-- strictly increasing keys: no key occurs twice -/
theorem keysSorted_keys_pairwise {l : List SvcParam} (h : keysSorted l) :
    (l.map SvcParam.key).Pairwise (· < ·) := by
  rw [List.pairwise_map]
  exact (Complete.keysSorted_iff_pairwise l).mp h

theorem keysSorted_keys_nodup {l : List SvcParam} (h : keysSorted l) : (l.map SvcParam.key).Nodup :=
  (keysSorted_keys_pairwise h).imp (fun h => Nat.ne_of_lt h)

theorem map_norm_key (l : List SvcParam) : (l.map SvcParam.norm).map SvcParam.key = l.map SvcParam.key := by
  rw [List.map_map]
  exact List.map_congr_left (fun p _ => SvcParam.norm_key p)

/-- **C16 (emitted order), any encoder state.** -/
theorem svcb_emit {S : Nat → Prop} {e e' : Enc} {rr : RR} {prio : Nat} {target : Name} {ps : List SvcParam}
    (hinv : EInv S e) (hwf : WfRR rr) (hrd : rr.rd = .svcb prio target ps) (h : encRR e rr = .ok e') :
    e.out <+: e'.out ∧ keysSorted (ps.map SvcParam.norm) ∧
    ((ps.map SvcParam.norm).map SvcParam.key).Pairwise (· < ·) ∧
    ∀ buf', Agree (ext S e.out.length e'.out.length) e'.out buf' →
      SvcbEmitAt rr prio target ps buf' e.out.length e'.out.length := by
  obtain ⟨hp, _, hf⟩ := (svcb_emit_wspec hwf hrd).run hinv h
  have hs : keysSorted ps := by
    have := hwf.1
    rw [hrd] at this
    exact this.2.2.2.1
  exact ⟨hp, keysSorted_norm hs, keysSorted_keys_pairwise (keysSorted_norm hs), hf⟩

/-- **C16 (emitted order), `RR::encode`.** -/
theorem svcb_emit_fresh {rr : RR} {b : Bytes} {prio : Nat} {target : Name} {ps : List SvcParam}
    (hwf : WfRR rr) (hrd : rr.rd = .svcb prio target ps) (h : encodeRR rr = .ok b) :
    SvcbEmitAt rr prio target ps b 0 b.length ∧ keysSorted (ps.map SvcParam.norm) ∧
    ((ps.map SvcParam.norm).map SvcParam.key).Pairwise (· < ·) := by
  have hs : keysSorted ps := by
    have := hwf.1
    rw [hrd] at this
    exact this.2.2.2.1
  exact ⟨(svcb_emit_wspec hwf hrd).fresh h, keysSorted_norm hs, keysSorted_keys_pairwise (keysSorted_norm hs)⟩

/-! ## C17: what the address writers append -/

/-- **The APL item writer.** A successful `encApItem` appends exactly: the two family octets, the
prefix octet, ONE octet holding the address length `k` plus 128 when the item is negated, and the
`k` address octets `stripZeros it.addr`; `k < 128`. -/
theorem encApItem_emits {e e' : Enc} {it : APItem} (h : encApItem e it = .ok e') :
    e' = e.put (beBytes 2 it.fam ++ beBytes 1 it.pfx ++
      [UInt8.ofNat ((stripZeros it.addr).length + if it.neg then 128 else 0)] ++ stripZeros it.addr) ∧
    (stripZeros it.addr).length < 128 := by
  obtain ⟨rfl, hlt⟩ := EncLim.encApItem_ok h
  refine ⟨?_, hlt⟩
  have h1 := EncLim.or_128 ⟨_, hlt⟩
  simp only at h1
  unfold EncLim.apItemWire
  cases hn : it.neg
  · simp
  · simp only [if_true, h1]

/-- conversely the writer succeeds whenever fewer than 128 address octets remain -/
theorem encApItem_total (e : Enc) {it : APItem} (h : (stripZeros it.addr).length < 128) :
    ∃ e', encApItem e it = .ok e' := by
  rw [EncLim.encApItem_eq, if_neg (by omega), if_neg (by omega)]
  exact ⟨_, rfl⟩

/-- **The ECS option writer.** A successful `encOption` on a client-subnet option appends exactly:
OPTION-CODE 8, OPTION-LENGTH = 4 + number of address octets, FAMILY, SOURCE and SCOPE PREFIX-LENGTH and
the address octets `addrWithPrefix addr (max src scope)`. -/
theorem encOption_ecs_emits {e e' : Enc} {fam src scope : Nat} {addr : Bytes}
    (h : encOption e (.ecs fam src scope addr) = .ok e') :
    e' = e.put (beBytes 2 8 ++ beBytes 2 (4 + (addrWithPrefix addr (max src scope)).length) ++
      (beBytes 2 fam ++ beBytes 1 src ++ beBytes 1 scope ++ addrWithPrefix addr (max src scope))) ∧
    4 + (addrWithPrefix addr (max src scope)).length ≤ 65535 := by
  obtain ⟨rfl, hle⟩ := EncLim.encOption_ok h
  have hl : (EncLim.optionBody (.ecs fam src scope addr)).length =
      4 + (addrWithPrefix addr (max src scope)).length := by
    simp [EncLim.optionBody]; omega
  refine ⟨?_, by rw [← hl]; exact hle rfl⟩
  unfold EncLim.optionWire
  rw [hl]
  rfl

/-! ## C08: RDATA of more than 65535 octets, on the value level

The RDATA of OPT and APL records contains no domain name, so its length is a function of the value
alone (`EncLim.rdataSize`); for the other kinds name compression makes the written RDATA shorter than
the uncompressed size, and the statement is on the intermediate states (`EncLim.encRR_window_too_long`). -/

theorem encName_root (e : Enc) : ∃ e1, encName e [] = .ok e1 := by
  simp [encName, encNameGo, Enc.merge]

/-- an OPT record whose options (each with its four header octets) add up to more than 65535 octets
is refused with `.length`, from every state -/
theorem encRR_opt_too_long (e : Enc) {rr : RR} {payload ext ver : Nat} {dnssec : Bool} {opts : List EdnsOpt}
    (hk : rrKind rr.ty = some .opt) (hrd : rr.rd = .opt payload ext ver dnssec opts)
    (h : 65535 < (opts.map EncLim.optionSize).sum) : encRR e rr = .error .length := by
  have hs : EncLim.Shaped rr := by simp [EncLim.Shaped, EncLim.shapedRR, hk, hrd]
  have ho : EncLim.rrOwner rr = [] := by simp [EncLim.rrOwner, hk]
  obtain ⟨e1, h1⟩ := encName_root e
  have hb : ∀ e0, EncLim.rrBody rr e0 = encOptions e0 opts := by
    intro e0; simp [EncLim.rrBody, hk, hrd]
  cases h2 : encOptions ((e1.put (EncLim.rrFixed rr)).put [0, 0]) opts with
  | error err =>
    rw [EncLim.encRR_eq e hs, ho, h1]
    simp only [hb, h2]
    rw [EncLim.encOptions_eq_foldW] at h2
    obtain ⟨pre, o, post, e0, _, _, herr⟩ := EncLim.foldW_err (w := encOption) (size := EncLim.optionSize)
      (P := fun _ => True) (fun _ _ _ _ hw => EncLim.encOption_step hw) opts _ err (fun _ _ => trivial) h2
    rw [(EncLim.encOption_err herr).1]
  | ok e2 =>
    refine EncLim.encRR_window_too_long hs (by rw [ho]; exact h1) (by rw [hb]; exact h2) ?_
    rw [EncLim.encOptions_ok h2]
    have hfl : (opts.flatMap EncLim.optionWire).length = (opts.map EncLim.optionSize).sum := by
      clear h2 hrd h
      induction opts with
      | nil => rfl
      | cons o r _ => simp [EncLim.optionWire_length]
    simp only [EncLim.put_out, List.length_append, hfl]
    omega

/-- an APL record whose items (four header octets plus the address octets up to the last non-zero
one, each) add up to more than 65535 octets is refused, from every state -/
theorem encRR_apl_too_long (e : Enc) {rr : RR} {items : List APItem}
    (hk : rrKind rr.ty = some .apl) (hrd : rr.rd = .apl items)
    (h : 65535 < (items.map EncLim.apItemSize).sum) : ∃ err, encRR e rr = .error err := by
  have hs : EncLim.Shaped rr := by simp [EncLim.Shaped, EncLim.shapedRR, hk, hrd]
  have hb : ∀ e0, EncLim.rrBody rr e0 = encApItems e0 items := by
    intro e0; simp [EncLim.rrBody, hk, hrd]
  cases h1 : encName e (EncLim.rrOwner rr) with
  | error err => exact ⟨err, by rw [EncLim.encRR_eq e hs, h1]⟩
  | ok e1 =>
    cases h2 : encApItems ((e1.put (EncLim.rrFixed rr)).put [0, 0]) items with
    | error err => exact ⟨err, by rw [EncLim.encRR_eq e hs, h1]; simp only [hb, h2]⟩
    | ok e2 =>
      refine ⟨_, EncLim.encRR_window_too_long hs h1 (by rw [hb]; exact h2) ?_⟩
      rw [EncLim.encApItems_ok h2]
      have hfl : (items.flatMap EncLim.apItemWire).length = (items.map EncLim.apItemSize).sum := by
        clear h2 hrd h
        induction items with
        | nil => rfl
        | cons o r _ => simp [EncLim.apItemWire_length]
      simp only [EncLim.put_out, List.length_append, hfl]
      omega

end ExtraA
